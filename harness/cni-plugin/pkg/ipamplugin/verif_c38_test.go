package ipamplugin

// C38 - CNI delete is idempotent and leaves no address behind.
//
// The real calico-ipam entry points cmdAdd / cmdDel are fed skel.CmdArgs (netconf JSON on stdin,
// CNI_ARGS string) exactly as skel does, for two containers that share one node.  The plugin's
// datastore client is a real clientv3 on the in-memory compare-and-swap datastore verifkit/memds
// (injected through utils.VerifClientOverride, see checks/c38.json); every datastore call of
// every ADD/DEL parks at a gate and is released by the test with a generated fault decision
// (transient error, spurious CAS conflict, lost reply = the write lands but an error is returned,
// crash of the plugin process before / after the write).
//
// Oracle (statement C38 + design/ipam/ipam-cni.md, the property's anchor document):
//
//	O1  once a DEL for a container returns success, no block holds an allocation under either
//	    handle form of that container (primary <network>.<container-id>, workload-id form
//	    <namespace>.<pod> / <container-id>); if no call of that container ever received an
//	    injected error or crash, no IPAMHandle record remains for them either (after injected
//	    errors the library documents that handle records may over-count, so then the oracle is
//	    silent about the records);
//	O2  a successful ADD reports exactly one address for every requested family and every
//	    reported address is recorded as allocated, in its block, under the container's primary
//	    handle;
//	O3  a DEL that received no injected error / lost reply / crash returns success ("DEL is idempotent; not
//	    found is success"): repeated DEL, DEL with nothing allocated, DEL after a failed, partial
//	    or crashed ADD;
//	O4  (ipam-cni.md "Dual-stack": half-success must release the successful family) a dual-stack
//	    ADD that fails with the partial-fulfilment error and received no injected error / lost reply
//	    / crash leaves the set of addresses held by the container's handle unchanged.
//
// Known finding c38SigLostReplyAssign (reproducer TestVerifC38ConfirmLostReplyLeak): when the driver
// lists it as known, exactly that fault (lost reply on an ADD's own block write) is not generated.
//
// Every history ends with two fault-free DELs per container ("the final delete", and its repeat).

import (
	"context"
	"encoding/json"
	"fmt"
	"io"
	"net/netip"
	"os"
	"sort"
	"strings"
	"testing"
	"time"

	"github.com/containernetworking/cni/pkg/skel"
	cniv1 "github.com/containernetworking/cni/pkg/types/100"
	"github.com/containernetworking/cni/pkg/types/create"
	v3 "github.com/projectcalico/api/pkg/apis/projectcalico/v3"
	metav1 "k8s.io/apimachinery/pkg/apis/meta/v1"
	"pgregory.net/rapid"

	"github.com/projectcalico/calico/cni-plugin/internal/pkg/utils"
	"github.com/projectcalico/calico/cni-plugin/pkg/types"
	"github.com/projectcalico/calico/libcalico-go/lib/apiconfig"
	"github.com/projectcalico/calico/libcalico-go/lib/apis/internalapi"
	"github.com/projectcalico/calico/libcalico-go/lib/backend/model"
	"github.com/projectcalico/calico/libcalico-go/lib/clientv3"
	"github.com/projectcalico/calico/libcalico-go/lib/ipam"
	cnet "github.com/projectcalico/calico/libcalico-go/lib/net"
	"github.com/projectcalico/calico/libcalico-go/lib/options"
	"github.com/projectcalico/calico/verifkit/ev"
	"github.com/projectcalico/calico/verifkit/memds"
)

const (
	c38Node      = "c38-node"
	c38OtherNode = "c38-other"
	c38Net       = "c38-net"
	c38PoolV4    = "10.38.0.0/29"
	c38PoolV6    = "fd38::/125"
	c38PoolV4Nm  = "c38-pool-v4"
	c38PoolV6Nm  = "c38-pool-v6"
	c38FillerV4  = "c38-filler-v4"
	c38FillerV6  = "c38-filler-v6"
)

// ---------------------------------------------------------------------------------------
// containers and CNI inputs

type c38Container struct {
	Label string
	CID   string
	K8s   bool
	NS    string
	Pod   string

	clean       bool // no injected error / crash on any of its calls so far
	addOK       int
	pendingFail bool // last ADD failed / crashed and no DEL succeeded since
	delOKStreak int  // successful DELs since the last ADD
}

func (c *c38Container) primary() string { return c38Net + "." + c.CID }

// legacy is the workload-id handle form cmdDel also releases (v2.x-era allocations).
func (c *c38Container) legacy() string {
	if c.K8s {
		return c.NS + "." + c.Pod
	}
	return c.CID
}

func (c *c38Container) handles() []string { return []string{c.primary(), c.legacy()} }

// cniArgs is the CNI_ARGS string.  Kubernetes runtimes pass IgnoreUnknown=1 plus the K8S_POD_*
// keys; the Calico CNI plugin appends ";IP=<addr>" for each address of the ipAddrs annotation
// (cni-plugin/pkg/k8s callIPAMWithIP).
func (c *c38Container) cniArgs(ip string) string {
	var parts []string
	if c.K8s {
		parts = append(parts, "IgnoreUnknown=1", "K8S_POD_NAMESPACE="+c.NS, "K8S_POD_NAME="+c.Pod,
			"K8S_POD_INFRA_CONTAINER_ID="+c.CID)
	}
	if ip != "" {
		parts = append(parts, "IP="+ip)
	}
	return strings.Join(parts, ";")
}

type c38ConfOpts struct {
	CNIVersion string
	Mode       string // v4 | v6 | dual | ip4 | ip6
	V4Explicit bool   // mode v4/dual: write assign_ipv4:"true" instead of leaving the default
	Pools4     string // "" | name | cidr
	Pools6     string
}

func (w *c38World) netconf(o c38ConfOpts) []byte {
	ipamSec := map[string]any{"type": "calico-ipam"}
	switch o.Mode {
	case "v4":
		if o.V4Explicit {
			ipamSec["assign_ipv4"] = "true"
		}
	case "v6":
		ipamSec["assign_ipv4"] = "false"
		ipamSec["assign_ipv6"] = "true"
	case "dual":
		if o.V4Explicit {
			ipamSec["assign_ipv4"] = "true"
		}
		ipamSec["assign_ipv6"] = "true"
	}
	switch o.Pools4 {
	case "name":
		ipamSec["ipv4_pools"] = []string{c38PoolV4Nm}
	case "cidr":
		ipamSec["ipv4_pools"] = []string{c38PoolV4}
	}
	switch o.Pools6 {
	case "name":
		ipamSec["ipv6_pools"] = []string{c38PoolV6Nm}
	case "cidr":
		ipamSec["ipv6_pools"] = []string{c38PoolV6}
	}
	conf := map[string]any{
		"cniVersion":     o.CNIVersion,
		"name":           c38Net,
		"type":           "calico",
		"nodename":       c38Node,
		"log_level":      "error",
		"ipam_lock_file": w.lockFile,
		"ipam":           ipamSec,
	}
	b, err := json.Marshal(conf)
	if err != nil {
		panic("HARNESS-GAP: " + err.Error())
	}
	return b
}

func (w *c38World) cmdArgs(c *c38Container, o c38ConfOpts, ip string) *skel.CmdArgs {
	return &skel.CmdArgs{
		ContainerID: c.CID,
		Netns:       "/var/run/netns/" + c.CID,
		IfName:      "eth0",
		Args:        c.cniArgs(ip),
		Path:        "/opt/cni/bin",
		StdinData:   w.netconf(o),
	}
}

// ---------------------------------------------------------------------------------------
// world

type c38TB interface {
	Fatalf(format string, args ...any)
}

type c38World struct {
	t        c38TB
	rt       *rapid.T // nil in the deterministic confirm tests
	rec      *ev.Recorder
	store    *memds.Store
	sched    *memds.Scheduler
	apiCfg   apiconfig.CalicoAPIConfig
	plain    clientv3.Interface // ungated client for set-up and harness-made allocations
	lockFile string
	opSeq    int
	log      []string
	classes  map[string]bool
	ccount   map[string]int
}

func c38NewWorld(t c38TB, rt *rapid.T, lockFile string, bs4, bs6 int, strict bool) *c38World {
	w := &c38World{t: t, rt: rt, store: memds.NewStore(), lockFile: lockFile, classes: map[string]bool{}, ccount: map[string]int{}}
	w.sched = memds.NewScheduler(w.store)
	w.apiCfg = *apiconfig.NewCalicoAPIConfig()
	w.apiCfg.Spec.DatastoreType = apiconfig.EtcdV3
	w.plain = clientv3.NewFromBackend(w.apiCfg, w.store.Client())
	ctx := context.Background()
	be := w.store.Client()
	for _, n := range []string{c38Node, c38OtherNode} {
		_, err := be.Apply(ctx, &model.KVPair{
			Key: model.ResourceKey{Name: n, Kind: internalapi.KindNode},
			Value: &internalapi.Node{
				TypeMeta:   metav1.TypeMeta{Kind: internalapi.KindNode, APIVersion: "projectcalico.org/v3"},
				ObjectMeta: metav1.ObjectMeta{Name: n},
			},
		})
		if err != nil {
			t.Fatalf("HARNESS-GAP: cannot store node: %v", err)
		}
	}
	for _, p := range []struct {
		name, cidr string
		bs         int
	}{{c38PoolV4Nm, c38PoolV4, bs4}, {c38PoolV6Nm, c38PoolV6, bs6}} {
		pool := v3.NewIPPool()
		pool.Name = p.name
		pool.Spec.CIDR = p.cidr
		pool.Spec.BlockSize = p.bs
		pool.Spec.IPIPMode = v3.IPIPModeNever
		pool.Spec.VXLANMode = v3.VXLANModeNever
		if _, err := w.plain.IPPools().Create(ctx, pool, options.SetOptions{}); err != nil {
			t.Fatalf("HARNESS-GAP: cannot create pool %s: %v", p.cidr, err)
		}
	}
	if _, err := be.Apply(ctx, &model.KVPair{Key: model.IPAMConfigKey{}, Value: &model.IPAMConfig{
		StrictAffinity: strict, AutoAllocateBlocks: true}}); err != nil {
		t.Fatalf("HARNESS-GAP: cannot store IPAM config: %v", err)
	}
	return w
}

func (w *c38World) class(c string) { w.classes[c] = true; w.ccount[c]++ }

func (w *c38World) logf(format string, a ...any) { w.log = append(w.log, fmt.Sprintf(format, a...)) }

func c38PoolAddrs(cidr string) []string {
	p := netip.MustParsePrefix(cidr)
	var out []string
	for a := p.Addr(); p.Contains(a); a = a.Next() {
		out = append(out, a.String())
	}
	return out
}

// held returns, sorted, the addresses recorded in any block as allocated under handle h.
func (w *c38World) held(h string) []string {
	bl, err := w.store.ReadList(model.BlockListOptions{})
	if err != nil {
		w.t.Fatalf("HARNESS-GAP: list blocks: %v", err)
	}
	var out []string
	for _, kv := range bl.KVPairs {
		b := kv.Value.(*model.AllocationBlock)
		base, ok := netip.AddrFromSlice(b.CIDR.IP)
		if !ok {
			w.t.Fatalf("HARNESS-GAP: block CIDR %v", b.CIDR)
		}
		base = base.Unmap()
		a := base
		for o, idx := range b.Allocations {
			if o > 0 {
				a = a.Next()
			}
			if idx == nil {
				continue
			}
			if *idx < 0 || *idx >= len(b.Attributes) {
				w.t.Fatalf("HARNESS-GAP: block %v ordinal %d refers to attribute %d of %d", b.CIDR, o, *idx, len(b.Attributes))
			}
			if hid := b.Attributes[*idx].HandleID; hid != nil && *hid == h {
				out = append(out, a.String())
			}
		}
	}
	sort.Strings(out)
	return out
}

func (w *c38World) handleRecord(h string) string {
	kv, err := w.store.Read(model.IPAMHandleKey{HandleID: h})
	if err != nil {
		return ""
	}
	hv := kv.Value.(*model.IPAMHandle)
	var parts []string
	for b, n := range hv.Block {
		parts = append(parts, fmt.Sprintf("%s=%d", b, n))
	}
	sort.Strings(parts)
	return "{" + strings.Join(parts, " ") + "}"
}

func (w *c38World) dump() string {
	var sb strings.Builder
	sb.WriteString("history:\n")
	for _, l := range w.log {
		sb.WriteString("  " + l + "\n")
	}
	sb.WriteString("datastore:\n")
	bl, _ := w.store.ReadList(model.BlockListOptions{})
	for _, kv := range bl.KVPairs {
		b := kv.Value.(*model.AllocationBlock)
		aff := "<nil>"
		if b.Affinity != nil {
			aff = *b.Affinity
		}
		fmt.Fprintf(&sb, "  block %v aff=%s unallocated=%v:", b.CIDR, aff, b.Unallocated)
		for o, idx := range b.Allocations {
			if idx == nil {
				continue
			}
			at := b.Attributes[*idx]
			h := "<nil>"
			if at.HandleID != nil {
				h = *at.HandleID
			}
			if at.ReleasedAt != nil {
				h += "(cooldown)"
			}
			fmt.Fprintf(&sb, " %d->%s", o, h)
		}
		sb.WriteString("\n")
	}
	hl, _ := w.store.ReadList(model.IPAMHandleListOptions{})
	for _, kv := range hl.KVPairs {
		id := kv.Key.(model.IPAMHandleKey).HandleID
		fmt.Fprintf(&sb, "  handle %s %s\n", id, w.handleRecord(id))
	}
	tr := w.sched.Trace()
	from := 0
	if len(tr) > 45 {
		from = len(tr) - 45
	}
	fmt.Fprintf(&sb, "datastore calls (release order, last %d of %d):\n", len(tr)-from, len(tr))
	for i := from; i < len(tr); i++ {
		f := ""
		if tr[i].Fault != memds.FaultNone {
			f = " FAULT=" + tr[i].Fault.String()
		}
		fmt.Fprintf(&sb, "  %4d %s -> %s%s\n", i, tr[i].ID, tr[i].Result, f)
	}
	return sb.String()
}

func (w *c38World) violation(format string, a ...any) {
	w.t.Fatalf("C38 violated: %s\n%s", fmt.Sprintf(format, a...), w.dump())
}

// ---------------------------------------------------------------------------------------
// fault plan and the scheduled execution of one plugin invocation

type c38Fault struct {
	Kind string // error | conflict | crash-before | crash-after | error-after (lost reply)
	Nth  int    // index among the invocation's datastore calls (conflict: among its CAS calls; crash-after: among its writes)
}

func (f c38Fault) String() string { return fmt.Sprintf("%s@%d", f.Kind, f.Nth) }

// c38LostReplies: also inject lost replies (the write lands but the plugin is told it failed, e.g.
// a datastore timeout after commit).  VERIF_C38_LOSTREPLY=0 turns them off (development only).
var c38LostReplies = os.Getenv("VERIF_C38_LOSTREPLY") != "0"

// c38SigLostReplyAssign is the signature of a known finding (see TestVerifC38ConfirmLostReplyLeak):
// a lost reply on the IPAM block write by which an ADD claims its address.  When the driver lists
// it as known the generator does not inject exactly that fault (counted as excluded).
const c38SigLostReplyAssign = "c38-lost-reply-on-assign-block-write-leaks-address"

func c38DrawPlan(t *rapid.T, label string, del bool, maxCall, maxWrite, maxCAS int) []c38Fault {
	n := 0
	none, one := 35, 80
	if del {
		none, one = 25, 75
	}
	switch x := rapid.IntRange(0, 99).Draw(t, label+".nfaults%"); {
	case x < none:
	case x < one:
		n = 1
	default:
		n = 2
	}
	var plan []c38Fault
	for i := 0; i < n; i++ {
		kinds := []string{"error", "error", "error", "conflict", "conflict", "crash-before", "crash-after"}
		if c38LostReplies {
			kinds = append(kinds, "error-after", "error-after")
		}
		k := rapid.SampledFrom(kinds).Draw(t, fmt.Sprintf("%s.fault%d.kind", label, i))
		hi := maxCall
		switch k {
		case "conflict":
			hi = maxCAS
		case "crash-after", "error-after":
			hi = maxWrite
		}
		plan = append(plan, c38Fault{Kind: k, Nth: c38Uniform(t, fmt.Sprintf("%s.fault%d.call", label, i), hi)})
	}
	return plan
}

// c38Uniform draws 0..hi with a flat distribution (rapid's integer generators favour small
// values and the bounds; fault positions should cover every call equally).
func c38Uniform(t *rapid.T, label string, hi int) int {
	x := rapid.Uint32().Draw(t, label)
	// Fibonacci hashing spreads rapid's small-biased values over the range; 0 stays 0 so
	// that shrinking moves the fault to the first call.
	return int((uint64(x) * 2654435769 >> 7) % uint64(hi+1))
}

// c38IsAssignBlockWrite: an ADD's own (main goroutine) compare-and-swap update of an IPAM block,
// i.e. the write that records the new address (the rollback release runs in a child goroutine).
func c38IsAssignBlockWrite(add bool, c *memds.Call) bool {
	return add && !c.Child && c.Method == "Update" && strings.Contains(c.Path, "/ipam/v2/assignment/")
}

type c38Outcome struct {
	Err       error
	Crashed   bool
	Stdout    []byte
	Calls     int
	Injected  []string // faults that actually hit a call
	Positions []int    // the call index each of them hit
	ErrFault  bool     // an injected error or crash hit a call
}

func (w *c38World) runPlugin(label string, add bool, args *skel.CmdArgs, plan []c38Fault) *c38Outcome {
	t := w.t
	out := &c38Outcome{}
	pr, pw, err := os.Pipe()
	if err != nil {
		t.Fatalf("HARNESS-GAP: pipe: %v", err)
	}
	oldStdout := os.Stdout
	os.Stdout = pw
	restored := false
	restore := func() {
		if !restored {
			restored = true
			os.Stdout = oldStdout
			_ = pw.Close()
		}
	}
	defer func() { restore(); _ = pr.Close() }()

	w.opSeq++
	id := fmt.Sprintf("%02d-%s", w.opSeq, label)
	opCh := make(chan *memds.Op, 1)
	var perr error
	op := w.sched.Go(id, func(ctx context.Context) {
		o := <-opCh
		utils.VerifClientOverride = func(types.NetConf) (clientv3.Interface, error) {
			return clientv3.NewFromBackend(w.apiCfg, o.Client()), nil
		}
		if add {
			perr = cmdAdd(args)
		} else {
			perr = cmdDel(args)
		}
	})
	opCh <- op

	nCall, nCAS, nWrite, stalls := 0, 0, 0, 0
	for {
		calls, err := w.sched.Quiesce()
		if err != nil {
			t.Fatalf("HARNESS-GAP: %v", err)
		}
		if len(calls) == 0 {
			if op.Done() {
				break
			}
			// Quiesce judges "nothing can move" from goroutine states; a plugin goroutine that is
			// momentarily off-CPU for another reason (GC assist, a mutex, file I/O) looks the same
			// for an instant.  The plugin cannot deadlock here (one invocation at a time), so wait.
			stalls++
			if stalls > 2000 {
				t.Fatalf("HARNESS-GAP: plugin invocation %s neither finished nor parked at a datastore call\n%s", id, w.dump())
			}
			time.Sleep(time.Millisecond)
			continue
		}
		idx := 0
		if len(calls) > 1 && w.rt != nil {
			idx = rapid.IntRange(0, len(calls)-1).Draw(w.rt, "pick")
		}
		c := calls[idx]
		f := memds.FaultNone
		for _, pf := range plan {
			switch pf.Kind {
			case "conflict":
				if c.CAS && pf.Nth == nCAS {
					f = memds.FaultConflict
				}
			case "error":
				if pf.Nth == nCall {
					f = memds.FaultError
				}
			case "crash-before":
				if pf.Nth == nCall {
					f = memds.FaultCrashBefore
				}
			case "crash-after":
				if c.Write && pf.Nth == nWrite {
					f = memds.FaultCrashAfter
				}
			case "error-after":
				if c.Write && pf.Nth == nWrite {
					f = memds.FaultErrorAfter
					if c38IsAssignBlockWrite(add, c) && ev.Known(c38SigLostReplyAssign) {
						// known finding: exactly this fault is left out of the generation
						f = memds.FaultNone
						if w.rec != nil {
							w.rec.Excluded(c38SigLostReplyAssign)
						}
					}
				}
			case "lost-reply-on-assign-block-write": // confirm test only
				if c38IsAssignBlockWrite(add, c) {
					f = memds.FaultErrorAfter
				}
			}
			if f != memds.FaultNone {
				break
			}
		}
		if f != memds.FaultNone {
			out.Injected = append(out.Injected, f.String())
			out.Positions = append(out.Positions, nCall)
			if f != memds.FaultConflict {
				out.ErrFault = true
			}
		}
		nCall++
		if c.CAS {
			nCAS++
		}
		if c.Write {
			nWrite++
		}
		w.sched.Release(c, f)
	}
	if !op.Done() {
		t.Fatalf("HARNESS-GAP: plugin invocation %s neither finished nor parked at a datastore call\n%s", id, w.dump())
	}
	if v, stk := op.Panic(); v != nil {
		t.Fatalf("C38: plugin invocation %s panicked: %v\n%s\n%s", id, v, stk, w.dump())
	}
	out.Calls = nCall
	out.Crashed = op.Crashed()
	out.Err = perr
	restore()
	out.Stdout, _ = io.ReadAll(pr)
	return out
}

// ---------------------------------------------------------------------------------------
// steps

type c38Step struct {
	Kind   string // add | del | fill | unfill | seed
	C      int
	Conf   c38ConfOpts
	IP     string
	Fam    int // fill / unfill / seed: 4 or 6
	Leave  int // fill: addresses left free
	Host   string
	Faults []c38Fault
}

func (s c38Step) String() string {
	switch s.Kind {
	case "add":
		return fmt.Sprintf("ADD c%d mode=%s ip=%q cniVersion=%s pools4=%q pools6=%q faults=%v", s.C, s.Conf.Mode, s.IP, s.Conf.CNIVersion, s.Conf.Pools4, s.Conf.Pools6, s.Faults)
	case "del":
		return fmt.Sprintf("DEL c%d cniVersion=%s faults=%v", s.C, s.Conf.CNIVersion, s.Faults)
	case "fill":
		return fmt.Sprintf("FILL v%d leave=%d host=%s", s.Fam, s.Leave, s.Host)
	case "unfill":
		return fmt.Sprintf("UNFILL v%d", s.Fam)
	}
	return fmt.Sprintf("SEED-LEGACY c%d v%d", s.C, s.Fam)
}

func c38DrawConf(t *rapid.T, label string) c38ConfOpts {
	return c38ConfOpts{
		CNIVersion: rapid.SampledFrom([]string{"1.0.0", "0.4.0", "0.3.1", "0.2.0"}).Draw(t, label+".cniVersion"),
		V4Explicit: rapid.Bool().Draw(t, label+".assign_ipv4-explicit"),
		Pools4:     rapid.SampledFrom([]string{"", "", "name", "cidr"}).Draw(t, label+".ipv4_pools"),
		Pools6:     rapid.SampledFrom([]string{"", "", "name", "cidr"}).Draw(t, label+".ipv6_pools"),
	}
}

func c38DrawStep(t *rapid.T, i int) c38Step {
	label := fmt.Sprintf("step%d", i)
	kind := rapid.SampledFrom([]string{
		"add", "add", "add", "add", "add", "add", "add",
		"del", "del", "del", "del", "del", "del",
		"fill", "fill", "fill", "unfill", "seed", "seed"}).Draw(t, label+".kind")
	s := c38Step{Kind: kind}
	pickC := func() int {
		if rapid.IntRange(0, 9).Draw(t, label+".container%") < 7 {
			return 0
		}
		return 1
	}
	switch kind {
	case "add":
		s.C = pickC()
		s.Conf = c38DrawConf(t, label)
		s.Conf.Mode = rapid.SampledFrom([]string{"dual", "dual", "dual", "dual", "v4", "v4", "v6", "ip4", "ip6"}).Draw(t, label+".mode")
		switch s.Conf.Mode {
		case "ip4":
			s.IP = rapid.SampledFrom(append(c38PoolAddrs(c38PoolV4), "192.0.2.7")).Draw(t, label+".ip")
		case "ip6":
			s.IP = rapid.SampledFrom(append(c38PoolAddrs(c38PoolV6), "2001:db8::7")).Draw(t, label+".ip")
		}
		// upper bounds of the number of datastore calls / CAS calls seen per mode (class
		// histogram calls-add:*), so that most drawn positions land on a real call
		switch s.Conf.Mode {
		case "dual":
			s.Faults = c38DrawPlan(t, label, false, 35, 9, 7)
		case "v4", "v6":
			s.Faults = c38DrawPlan(t, label, false, 18, 5, 4)
		default:
			s.Faults = c38DrawPlan(t, label, false, 11, 4, 3)
		}
	case "del":
		s.C = pickC()
		s.Conf = c38DrawConf(t, label)
		s.Conf.Mode = rapid.SampledFrom([]string{"dual", "v4", "v6"}).Draw(t, label+".mode")
		s.Faults = c38DrawPlan(t, label, true, 17, 5, 5)
	case "fill":
		s.Fam = rapid.SampledFrom([]int{6, 6, 4}).Draw(t, label+".family")
		s.Leave = rapid.SampledFrom([]int{0, 0, 0, 1}).Draw(t, label+".leave-free")
		s.Host = rapid.SampledFrom([]string{c38Node, c38OtherNode}).Draw(t, label+".host")
	case "unfill":
		s.Fam = rapid.SampledFrom([]int{6, 4}).Draw(t, label+".family")
	case "seed":
		s.C = pickC()
		s.Fam = rapid.SampledFrom([]int{4, 6}).Draw(t, label+".family")
	}
	return s
}

// ---------------------------------------------------------------------------------------
// harness-made allocations (ungated, no faults): pool fillers and v2.x-era allocations
// recorded under the workload-id handle.

func (w *c38World) fill(fam, leave int, host string) {
	ctx := context.Background()
	cidr, h := c38PoolV4, c38FillerV4
	if fam == 6 {
		cidr, h = c38PoolV6, c38FillerV6
	}
	var got []string
	for _, a := range c38PoolAddrs(cidr) {
		err := w.plain.IPAM().AssignIP(ctx, ipam.AssignIPArgs{IP: *cnet.ParseIP(a), HandleID: &h, Hostname: host,
			Attrs: map[string]string{ipam.AttributeNode: host}, IntendedUse: v3.IPPoolAllowedUseWorkload})
		if err == nil {
			got = append(got, a)
		}
	}
	for i := 0; i < leave && i < len(got); i++ {
		a := got[len(got)-1-i]
		if _, _, err := w.plain.IPAM().ReleaseIPs(ctx, ipam.ReleaseOptions{Address: a}); err != nil {
			w.t.Fatalf("HARNESS-GAP: filler release %s: %v", a, err)
		}
	}
	w.logf("    filler now holds v4=%d v6=%d", len(w.held(c38FillerV4)), len(w.held(c38FillerV6)))
}

func (w *c38World) unfill(fam int) {
	h := c38FillerV4
	if fam == 6 {
		h = c38FillerV6
	}
	_ = w.plain.IPAM().ReleaseByHandle(context.Background(), h)
}

func (w *c38World) seedLegacy(c *c38Container, fam int) bool {
	h := c.legacy()
	args := ipam.AutoAssignArgs{HandleID: &h, Hostname: c38Node, Attrs: map[string]string{ipam.AttributeNode: c38Node},
		IntendedUse: v3.IPPoolAllowedUseWorkload}
	if fam == 4 {
		args.Num4 = 1
	} else {
		args.Num6 = 1
	}
	v4, v6, err := w.plain.IPAM().AutoAssign(context.Background(), args)
	n := 0
	if v4 != nil {
		n += len(v4.IPs)
	}
	if v6 != nil {
		n += len(v6.IPs)
	}
	w.logf("    legacy handle %s now holds %v (err=%v)", h, w.held(h), err)
	return n > 0
}

// ---------------------------------------------------------------------------------------
// oracle

func c38Families(mode, ip string) (want4, want6 bool) {
	switch mode {
	case "v4":
		return true, false
	case "v6":
		return false, true
	case "dual":
		return true, true
	}
	a, err := netip.ParseAddr(ip)
	if err != nil {
		panic("HARNESS-GAP: bad explicit ip " + ip)
	}
	return a.Is4(), a.Is6()
}

func (w *c38World) checkAddSuccess(c *c38Container, s c38Step, o *c38Outcome) {
	res, err := create.CreateFromBytes(o.Stdout)
	if err != nil {
		w.violation("successful ADD for container %s printed no parsable CNI result (%v): %q", c.Label, err, o.Stdout)
	}
	r, err := cniv1.NewResultFromResult(res)
	if err != nil {
		w.violation("successful ADD for container %s printed an unconvertible CNI result (%v): %q", c.Label, err, o.Stdout)
	}
	want4, want6 := c38Families(s.Conf.Mode, s.IP)
	held := w.held(c.primary())
	var n4, n6 int
	var reported []string
	for _, ipc := range r.IPs {
		a, ok := netip.AddrFromSlice(ipc.Address.IP)
		if !ok {
			w.violation("ADD result carries an invalid address: %q", o.Stdout)
		}
		a = a.Unmap()
		reported = append(reported, a.String())
		if a.Is4() {
			n4++
		} else {
			n6++
		}
		i := sort.SearchStrings(held, a.String())
		if i >= len(held) || held[i] != a.String() {
			w.violation("successful ADD for container %s reported %s but no block records it as allocated under handle %s (handle holds %v)",
				c.Label, a, c.primary(), held)
		}
	}
	if want4 && n4 != 1 || want6 && n6 != 1 {
		w.violation("successful ADD for container %s (mode %s, ip %q) must report one address per requested family (v4 requested=%v, v6 requested=%v) but reported %v",
			c.Label, s.Conf.Mode, s.IP, want4, want6, reported)
	}
	w.logf("    result %v; handle %s holds %v", reported, c.primary(), held)
}

func (w *c38World) checkDelSuccess(c *c38Container, when string) {
	for _, h := range c.handles() {
		if held := w.held(h); len(held) != 0 {
			w.violation("%s for container %s succeeded but handle %s still holds %v", when, c.Label, h, held)
		}
	}
	if c.clean {
		for _, h := range c.handles() {
			if rec := w.handleRecord(h); rec != "" {
				w.violation("%s for container %s succeeded (no error was ever injected into its calls) but the IPAM handle record %s remains: %s",
					when, c.Label, h, rec)
			}
		}
		w.class("handle-records-checked")
	}
}

// ---------------------------------------------------------------------------------------
// the property

var c38LockDir string

func c38EnsureUpgradeMarker(t *testing.T) {
	if _, err := os.Stat(ipamUpgradedFilePath); err == nil {
		return
	}
	if err := touchFile(ipamUpgradedFilePath); err != nil {
		t.Fatalf("HARNESS-GAP: cannot create the IPAM upgrade marker %s (needed so that explicit-IP ADDs do not run UpgradeHost with wall-clock back-off): %v",
			ipamUpgradedFilePath, err)
	}
}

func TestVerifC38AddDel(t *testing.T) {
	ev.Quiet()
	c38EnsureUpgradeMarker(t)
	dir, err := os.MkdirTemp("", "verif-c38-")
	if err != nil {
		t.Fatalf("HARNESS-GAP: %v", err)
	}
	defer os.RemoveAll(dir)
	devnull, err := os.OpenFile(os.DevNull, os.O_WRONLY, 0)
	if err != nil {
		t.Fatalf("HARNESS-GAP: %v", err)
	}
	// utils.ConfigureLogging points logrus at os.Stderr on every invocation.
	oldStderr := os.Stderr
	os.Stderr = devnull
	defer func() { os.Stderr = oldStderr; _ = devnull.Close(); ev.Quiet() }()

	rec := ev.New("C38", "plugin",
		"rapid draws 2-10 (thorough: 2-14) steps (ADD / DEL of container A or B in v4, v6, dual-stack or explicit-IP mode, pool fill / unfill by a foreign handle, a v2.x-era allocation under the workload-id handle) and for every ADD/DEL a fault plan (0-2 of: transient error, CAS conflict, lost reply, crash before/after, at a uniformly drawn datastore call / write / CAS call); two fault-free DELs per container close the history. Non-trivial: at least one ADD succeeded and was later deleted, and the history contains an injected fault, a failed/partial/crashed ADD followed by DEL, a repeated DEL, a dual-stack half-success or a legacy-handle allocation. Distinct: sequence of (step kind, container, mode, outcome, injected fault kinds).",
		"verifkit/memds implements the backend contract (CAS by revision, JSON round trip)",
		"the plugin's calls are sequential (host-wide IPAM lock); no concurrent plugins or nodes",
		"no Kubernetes / KubeVirt client paths (no kubeconfig, policy type not k8s, pod names without virt-launcher-)",
		"handle records are only asserted for containers whose calls never received an injected error, lost reply or crash (documented over-count residue)")
	defer rec.Write()

	rapid.Check(t, func(t *rapid.T) {
		defer func() { utils.VerifClientOverride = nil }()
		bs4 := rapid.SampledFrom([]int{30, 30, 29}).Draw(t, "v4-block-size")
		bs6 := rapid.SampledFrom([]int{126, 126, 125}).Draw(t, "v6-block-size")
		strict := rapid.IntRange(0, 3).Draw(t, "strict-affinity%4") == 0
		w := c38NewWorld(t, t, dir+"/ipam.lock", bs4, bs6, strict)
		w.rec = rec
		defer func() {
			if err := w.sched.Shutdown(); err != nil {
				t.Fatalf("HARNESS-GAP: %v", err)
			}
		}()
		k8s := rapid.Bool().Draw(t, "k8s-cni-args")
		conts := []*c38Container{
			{Label: "A", CID: "c38cida", K8s: k8s, NS: "c38ns", Pod: "c38-pod-a", clean: true},
			{Label: "B", CID: "c38cidb", K8s: k8s, NS: "c38ns", Pod: "c38-pod-b", clean: true},
		}
		if k8s {
			w.class("args:k8s")
		} else {
			w.class("args:cni")
		}
		if strict {
			w.class("strict-affinity")
		}

		nSteps := rapid.IntRange(2, ev.Scale(10, 14)).Draw(t, "steps")
		var shape []string
		nontrivialSignal := false
		deletedAfterOK := false

		doDel := func(c *c38Container, s c38Step, when string, final bool) {
			o := w.runPlugin("del-"+c.Label, false, w.cmdArgs(c, s.Conf, ""), s.Faults)
			w.class(fmt.Sprintf("calls-del:%02d+", o.Calls/5*5))
			for i, f := range o.Injected {
				w.class("fault-del:" + f)
				w.class(fmt.Sprintf("fault-del-at-call:%02d", o.Positions[i]))
			}
			if o.ErrFault {
				c.clean = false
			}
			outcome := "ok"
			switch {
			case o.Crashed:
				outcome = "crash"
			case o.Err != nil:
				outcome = "fail"
			}
			w.logf("    -> %s err=%v calls=%d injected=%v", outcome, o.Err, o.Calls, o.Injected)
			shape = append(shape, fmt.Sprintf("D%s:%s:%s", c.Label, outcome, strings.Join(o.Injected, "+")))
			w.class("del-" + outcome)
			if len(o.Injected) > 0 {
				nontrivialSignal = true
			}
			if o.Crashed {
				return
			}
			if o.Err != nil {
				if !o.ErrFault {
					w.violation("%s for container %s failed although no error was injected into it (DEL must be idempotent; only a datastore failure may fail it): %v",
						when, c.Label, o.Err)
				}
				return
			}
			// success
			w.checkDelSuccess(c, when)
			if c.pendingFail {
				w.class("del-after-failed-add")
				nontrivialSignal = true
				c.pendingFail = false
			}
			c.delOKStreak++
			if c.delOKStreak >= 2 {
				w.class("repeated-del-ok")
				if !final {
					nontrivialSignal = true
				}
			}
			if c.addOK > 0 {
				deletedAfterOK = true
			}
		}

		for i := 0; i < nSteps; i++ {
			s := c38DrawStep(t, i)
			w.logf("%s", s)
			switch s.Kind {
			case "fill":
				w.fill(s.Fam, s.Leave, s.Host)
				shape = append(shape, fmt.Sprintf("F%d/%d", s.Fam, s.Leave))
				w.class(fmt.Sprintf("fill-v%d", s.Fam))
			case "unfill":
				w.unfill(s.Fam)
				shape = append(shape, fmt.Sprintf("U%d", s.Fam))
			case "seed":
				c := conts[s.C]
				if w.seedLegacy(c, s.Fam) {
					w.class("legacy-handle-seeded")
					nontrivialSignal = true
					shape = append(shape, fmt.Sprintf("S%s%d", c.Label, s.Fam))
				}
			case "del":
				c := conts[s.C]
				if len(w.held(c.legacy())) > 0 {
					w.class("del-with-legacy-allocation")
				}
				doDel(c, s, "DEL", false)
			case "add":
				c := conts[s.C]
				w.class("mode:" + s.Conf.Mode)
				before := w.held(c.primary())
				o := w.runPlugin("add-"+c.Label, true, w.cmdArgs(c, s.Conf, s.IP), s.Faults)
				w.class(fmt.Sprintf("calls-add:%02d+", o.Calls/5*5))
				for i, f := range o.Injected {
					w.class("fault-add:" + f)
					w.class(fmt.Sprintf("fault-add-at-call:%02d", o.Positions[i]))
				}
				if o.ErrFault {
					c.clean = false
				}
				c.delOKStreak = 0
				outcome := "ok"
				switch {
				case o.Crashed:
					outcome = "crash"
				case o.Err != nil:
					outcome = "fail"
				}
				w.logf("    -> %s err=%v calls=%d injected=%v", outcome, o.Err, o.Calls, o.Injected)
				shape = append(shape, fmt.Sprintf("A%s:%s:%s:%s", c.Label, s.Conf.Mode, outcome, strings.Join(o.Injected, "+")))
				w.class("add-" + outcome)
				w.class("add-" + s.Conf.Mode + "-" + outcome)
				if len(o.Injected) > 0 {
					nontrivialSignal = true
				}
				switch outcome {
				case "crash":
					c.pendingFail = true
					if after := w.held(c.primary()); len(after) > len(before) {
						w.class("crashed-add-left-addresses")
					}
				case "fail":
					c.pendingFail = true
					after := w.held(c.primary())
					if len(after) > len(before) {
						w.class("failed-add-left-addresses")
					}
					msg := o.Err.Error()
					half := ""
					if strings.HasPrefix(msg, "failed to request IPv6 addresses") {
						half = "v6-short"
					} else if strings.HasPrefix(msg, "failed to request IPv4 addresses") {
						half = "v4-short"
					}
					if s.Conf.Mode == "dual" && half != "" {
						w.class("dual-partial-fulfilment:" + half)
						nontrivialSignal = true
						if !o.ErrFault {
							w.class("dual-rollback-checked")
							if strings.Join(before, ",") != strings.Join(after, ",") {
								w.violation("dual-stack ADD for container %s failed with a partial-fulfilment error (%v) and no error was injected, but the successful family was not released: handle %s held %v before and holds %v after",
									c.Label, o.Err, c.primary(), before, after)
							}
						}
					}
				case "ok":
					c.addOK++
					c.pendingFail = false
					w.checkAddSuccess(c, s, o)
					if s.IP != "" {
						w.class("explicit-ip-ok")
					}
				}
			}
		}

		// The final delete (fault-free) and its repeat, for both containers.
		for _, c := range conts {
			if len(w.held(c.legacy())) > 0 {
				w.class("final-del-with-legacy-allocation")
			}
			for rep := 0; rep < 2; rep++ {
				s := c38Step{Kind: "del", Conf: c38ConfOpts{CNIVersion: "1.0.0", Mode: "v4"}}
				when := "final DEL"
				if rep == 1 {
					when = "repeat of the final DEL"
				}
				w.logf("%s c%s", when, c.Label)
				doDel(c, s, when, true)
			}
		}

		nontrivial := deletedAfterOK && nontrivialSignal
		var cls []string
		for k := range w.classes {
			cls = append(cls, k)
		}
		sort.Strings(cls)
		hist := append([]string(nil), w.log...)
		rec.SizedCase(nontrivial, strings.Join(shape, " "), len(shape), func() any { return hist }, cls...)
	})
}

// TestVerifC38ConfirmLostReplyLeak is the deterministic reproducer of the known finding
// c38SigLostReplyAssign.  It FAILS while the defect is present.
//
// One fault: the reply to the block write of an explicit-IP ADD is lost (the write lands, the
// caller gets a datastore error).  AssignIP then "undoes" the handle increment, which deletes the
// handle record although the block now records the address under that handle; the ADD fails, the
// runtime calls DEL, DEL finds no handle record, reports success - and the address stays
// allocated to the container's handle.
func TestVerifC38ConfirmLostReplyLeak(t *testing.T) {
	ev.Quiet()
	c38EnsureUpgradeMarker(t)
	dir, err := os.MkdirTemp("", "verif-c38-")
	if err != nil {
		t.Fatalf("HARNESS-GAP: %v", err)
	}
	defer os.RemoveAll(dir)
	devnull, err := os.OpenFile(os.DevNull, os.O_WRONLY, 0)
	if err != nil {
		t.Fatalf("HARNESS-GAP: %v", err)
	}
	oldStderr := os.Stderr
	os.Stderr = devnull
	defer func() { os.Stderr = oldStderr; _ = devnull.Close(); ev.Quiet(); utils.VerifClientOverride = nil }()

	w := c38NewWorld(t, nil, dir+"/ipam.lock", 30, 126, false)
	c := &c38Container{Label: "A", CID: "c38cida", clean: true}
	s := c38Step{Kind: "add", Conf: c38ConfOpts{CNIVersion: "1.0.0", Mode: "ip4"}, IP: "10.38.0.1",
		Faults: []c38Fault{{Kind: "lost-reply-on-assign-block-write"}}}
	w.logf("%s", s)
	add := w.runPlugin("add-A", true, w.cmdArgs(c, s.Conf, s.IP), s.Faults)
	w.logf("    -> err=%v calls=%d injected=%v; handle %s holds %v, handle record %q", add.Err, add.Calls, add.Injected,
		c.primary(), w.held(c.primary()), w.handleRecord(c.primary()))
	if len(add.Injected) == 0 {
		t.Fatalf("HARNESS-GAP: the ADD made no block write to lose the reply of\n%s", w.dump())
	}
	if add.Err != nil {
		w.logf("DEL cA (no faults)")
		del := w.runPlugin("del-A", false, w.cmdArgs(c, c38ConfOpts{CNIVersion: "1.0.0", Mode: "v4"}, ""), nil)
		w.logf("    -> err=%v", del.Err)
		if del.Err == nil {
			if held := w.held(c.primary()); len(held) != 0 {
				t.Errorf("the ADD failed (%v), the DEL that followed succeeded, but handle %s still holds %v\n%s",
					add.Err, c.primary(), held, w.dump())
			}
		}
	}
	if err := w.sched.Shutdown(); err != nil {
		t.Fatalf("HARNESS-GAP: %v", err)
	}
}
