package utils

// Added at check time by /verif (property C38); never part of the repository.
//
// VerifClientOverride is consulted by the single guarded line the /verif driver inserts at
// the top of CreateClient (overlay-patching, see checks/c38.json).  It is nil unless the C38
// harness sets it, in which case the plugin gets a clientv3 built on the in-memory datastore.

import (
	"github.com/projectcalico/calico/cni-plugin/pkg/types"
	client "github.com/projectcalico/calico/libcalico-go/lib/clientv3"
)

var VerifClientOverride func(conf types.NetConf) (client.Interface, error)
