//go:build !race

package authorizer_test

const c34RaceEnabled = false
