package authorizer_test

// C34 — tiered policy authorization is correct and race-free.
//
// Oracle (statement): AuthorizeTierOperation returns nil  <=>  the underlying authorizer answers
// Allow to "get tier <tier>"  AND  (Allow to "<verb> tier.<resource> <request name>"  OR  Allow to
// "<verb> tier.<resource> <tier>.*"), whatever decisions/errors it returns for the three checks
// and however the three concurrent checks interleave; a refusal is a Forbidden error (interface
// doc).  The same unit is also built with the race detector, which must stay silent.

import (
	"context"
	"errors"
	"fmt"
	"runtime"
	"sort"
	"strings"
	"sync"
	"testing"
	"time"

	k8serrors "k8s.io/apimachinery/pkg/api/errors"
	"k8s.io/apiserver/pkg/authentication/user"
	k8sauth "k8s.io/apiserver/pkg/authorization/authorizer"
	genericapirequest "k8s.io/apiserver/pkg/endpoints/request"
	"pgregory.net/rapid"

	"github.com/projectcalico/calico/apiserver/pkg/registry/projectcalico/authorizer"
	"github.com/projectcalico/calico/verifkit/ev"
)

const (
	c34GetTier = iota
	c34OnName
	c34OnWildcard
)

var c34CheckName = []string{"get-tier", "on-name", "on-wildcard"}

type c34Outcome struct {
	Decision k8sauth.Decision
	Err      bool
}

func (o c34Outcome) String() string {
	s := map[k8sauth.Decision]string{k8sauth.DecisionAllow: "allow", k8sauth.DecisionDeny: "deny", k8sauth.DecisionNoOpinion: "no-opinion"}[o.Decision]
	if o.Err {
		s += "+err"
	}
	return s
}

// What one of the three checks does before answering.
type c34Step struct {
	Yields int           // runtime.Gosched() calls
	Sleep  time.Duration // then sleep
}

type c34Request struct {
	Resource, Namespace, Verb, Name, Subresource, Tier, User string
}

type c34Case struct {
	Req      c34Request
	Outcomes [3]c34Outcome
	Steps    [3]c34Step
	// Finish: when non-nil, the order in which the three checks are made to answer
	// (check Finish[k] answers only after Finish[k-1] has).
	Finish []int
	Procs  int
}

type c34Call struct {
	Check int
	Attrs k8sauth.AttributesRecord
}

// c34Fake is the underlying authorizer: it recognises which of the three checks a call is,
// follows the generated schedule and returns the generated outcome.
type c34Fake struct {
	c     *c34Case
	mu    sync.Mutex
	calls []c34Call
	bad   []string
	done  [3]chan struct{}
}

func c34NewFake(c *c34Case) *c34Fake {
	f := &c34Fake{c: c}
	for i := range f.done {
		f.done[i] = make(chan struct{})
	}
	return f
}

func (f *c34Fake) Authorize(ctx context.Context, a k8sauth.Attributes) (k8sauth.Decision, string, error) {
	rec := k8sauth.AttributesRecord{
		User: a.GetUser(), Verb: a.GetVerb(), Namespace: a.GetNamespace(), APIGroup: a.GetAPIGroup(),
		APIVersion: a.GetAPIVersion(), Resource: a.GetResource(), Subresource: a.GetSubresource(),
		Name: a.GetName(), ResourceRequest: a.IsResourceRequest(), Path: a.GetPath(),
	}
	check := -1
	switch {
	case rec.Resource == "tiers":
		check = c34GetTier
	case rec.Resource == "tier."+f.c.Req.Resource && rec.Name == f.c.Req.Tier+".*":
		check = c34OnWildcard
	case rec.Resource == "tier."+f.c.Req.Resource && rec.Name == f.c.Req.Name:
		check = c34OnName
	}
	f.mu.Lock()
	f.calls = append(f.calls, c34Call{check, rec})
	if check < 0 {
		f.bad = append(f.bad, fmt.Sprintf("%+v", rec))
	}
	f.mu.Unlock()
	if check < 0 {
		return k8sauth.DecisionNoOpinion, "unrecognised check", nil
	}
	st := f.c.Steps[check]
	for i := 0; i < st.Yields; i++ {
		runtime.Gosched()
	}
	if st.Sleep > 0 {
		time.Sleep(st.Sleep)
	}
	if f.c.Finish != nil {
		for k, ch := range f.c.Finish {
			if ch == check {
				if k > 0 {
					select {
					case <-f.done[f.c.Finish[k-1]]:
					case <-time.After(5 * time.Second):
						// the predecessor never ran (fewer than three checks made): do not wedge
					}
				}
				defer close(f.done[check])
			}
		}
	}
	o := f.c.Outcomes[check]
	var err error
	if o.Err {
		err = errors.New("authorizer backend failure for " + c34CheckName[check])
	}
	return o.Decision, "generated", err
}

func (f *c34Fake) ConditionsAwareAuthorize(ctx context.Context, a k8sauth.Attributes) k8sauth.ConditionsAwareDecision {
	return k8sauth.ConditionsAwareDecisionFromParts(f.Authorize(ctx, a))
}

func (f *c34Fake) EvaluateConditions(ctx context.Context, decision k8sauth.ConditionsAwareDecision, data k8sauth.ConditionsData) (k8sauth.Decision, string, error) {
	return k8sauth.DecisionDeny, "", k8sauth.ErrorConditionEvaluationNotSupported
}

func c34Context(r c34Request) context.Context {
	ctx := genericapirequest.NewContext()
	ctx = genericapirequest.WithUser(ctx, &user.DefaultInfo{Name: r.User, UID: "uid-" + r.User, Groups: []string{"g1"}})
	path := "/apis/projectcalico.org/v3/"
	if r.Namespace != "" {
		ctx = genericapirequest.WithNamespace(ctx, r.Namespace)
		path += "namespaces/" + r.Namespace + "/"
	}
	path += r.Resource
	if r.Name != "" {
		path += "/" + r.Name
	}
	if r.Subresource != "" {
		path += "/" + r.Subresource
	}
	ctx = genericapirequest.WithRequestInfo(ctx, &genericapirequest.RequestInfo{
		IsResourceRequest: true, Path: path, Verb: r.Verb, APIGroup: "projectcalico.org", APIVersion: "v3",
		Resource: r.Resource, Subresource: r.Subresource, Namespace: r.Namespace, Name: r.Name,
	})
	return ctx
}

// c34RunOnce performs one AuthorizeTierOperation call and checks it against the oracle.
// It returns a description of the violation, or "".
func c34RunOnce(c *c34Case) string {
	f := c34NewFake(c)
	ta := authorizer.NewTierAuthorizer(f)
	err := ta.AuthorizeTierOperation(c34Context(c.Req), c.Req.Name, c.Req.Tier)

	if len(f.bad) > 0 {
		return "HARNESS-GAP: the tier authorizer made a check the harness cannot classify as get-tier / on-name / on-wildcard: " + strings.Join(f.bad, "; ")
	}
	seen := map[int]int{}
	for _, call := range f.calls {
		seen[call.Check]++
		a := call.Attrs
		if a.User == nil || a.User.GetName() != c.Req.User {
			return fmt.Sprintf("check %s made for user %v, request user is %q", c34CheckName[call.Check], a.User, c.Req.User)
		}
		switch call.Check {
		case c34GetTier:
			if a.Verb != "get" || a.Name != c.Req.Tier {
				return fmt.Sprintf("tier check must be 'get tiers/%s', was '%s tiers/%s'", c.Req.Tier, a.Verb, a.Name)
			}
		default:
			if a.Verb != c.Req.Verb || a.Namespace != c.Req.Namespace || a.Subresource != c.Req.Subresource {
				return fmt.Sprintf("check %s must be for the requested operation (%s ns=%q sub=%q), was %s ns=%q sub=%q",
					c34CheckName[call.Check], c.Req.Verb, c.Req.Namespace, c.Req.Subresource, a.Verb, a.Namespace, a.Subresource)
			}
		}
	}
	allowed := func(i int) bool { return seen[i] > 0 && c.Outcomes[i].Decision == k8sauth.DecisionAllow }
	want := allowed(c34GetTier) && (allowed(c34OnName) || allowed(c34OnWildcard))
	if want && err != nil {
		return fmt.Sprintf("request refused (%v) although get-tier=%v and on-name=%v / on-wildcard=%v", err, c.Outcomes[0], c.Outcomes[1], c.Outcomes[2])
	}
	if !want && err == nil {
		return fmt.Sprintf("request allowed although get-tier=%v, on-name=%v, on-wildcard=%v (checks made: %v)", c.Outcomes[0], c.Outcomes[1], c.Outcomes[2], seen)
	}
	if !want && !k8serrors.IsForbidden(err) {
		return fmt.Sprintf("refusal must be a Forbidden error, got %T %v", err, err)
	}
	return ""
}

var (
	c34Resources = []struct {
		Name       string
		Namespaced bool
	}{
		{"networkpolicies", true}, {"globalnetworkpolicies", false}, {"stagednetworkpolicies", true},
		{"stagedglobalnetworkpolicies", false}, {"stagedkubernetesnetworkpolicies", true},
	}
	c34Verbs    = []string{"get", "list", "watch", "create", "update", "patch", "delete", "deletecollection"}
	c34Tiers    = []string{"default", "net-sec", "t1"}
	// The authorizer.Authorizer contract allows any decision together with an error (the union
	// authorizer passes a sub-authorizer's error through with its decision), and the statement
	// says "whatever the underlying authorizer answers": all 3 decisions x {nil, error}.
	c34Decisions = []k8sauth.Decision{k8sauth.DecisionAllow, k8sauth.DecisionDeny, k8sauth.DecisionNoOpinion}
)

func c34Gen(t *rapid.T) *c34Case {
	c := &c34Case{}
	res := rapid.SampledFrom(c34Resources).Draw(t, "resource")
	c.Req.Resource = res.Name
	if res.Namespaced {
		c.Req.Namespace = rapid.SampledFrom([]string{"default", "prod"}).Draw(t, "namespace")
	}
	c.Req.Verb = rapid.SampledFrom(c34Verbs).Draw(t, "verb")
	c.Req.Tier = rapid.SampledFrom(c34Tiers).Draw(t, "tier")
	c.Req.User = rapid.SampledFrom([]string{"alice", "system:serviceaccount:ns:sa"}).Draw(t, "user")
	switch c.Req.Verb {
	case "list", "watch", "create", "deletecollection":
		if rapid.Bool().Draw(t, "named") { // e.g. a watch/list restricted by metadata.name, create with a body name
			c.Req.Name = c.Req.Tier + ".pol"
		}
	default:
		c.Req.Name = rapid.SampledFrom([]string{c.Req.Tier + ".pol", "pol", "other." + "pol"}).Draw(t, "name")
		if rapid.IntRange(0, 5).Draw(t, "status") == 0 {
			c.Req.Subresource = "status"
		}
	}
	// outcomes: favour Allow so that the allowed side of the equivalence is as common as the
	// refused side; an error accompanies any decision a third of the time
	for i := range c.Outcomes {
		if rapid.IntRange(0, 9).Draw(t, "allow-"+c34CheckName[i]) < 6 {
			c.Outcomes[i].Decision = k8sauth.DecisionAllow
		} else {
			c.Outcomes[i].Decision = rapid.SampledFrom(c34Decisions[1:]).Draw(t, "decision-"+c34CheckName[i])
		}
		c.Outcomes[i].Err = rapid.IntRange(0, 2).Draw(t, "error-"+c34CheckName[i]) == 0
	}
	for i := range c.Steps {
		c.Steps[i].Yields = rapid.IntRange(0, 3).Draw(t, "yields-"+c34CheckName[i])
		if rapid.IntRange(0, 3).Draw(t, "sleeps-"+c34CheckName[i]) == 0 {
			c.Steps[i].Sleep = time.Duration(rapid.IntRange(1, 200).Draw(t, "sleep-us-"+c34CheckName[i])) * time.Microsecond
		}
	}
	if rapid.Bool().Draw(t, "forcedOrder") {
		c.Finish = rapid.Permutation([]int{0, 1, 2}).Draw(t, "finishOrder")
	}
	c.Procs = rapid.SampledFrom([]int{1, 2, 4, 8}).Draw(t, "gomaxprocs")
	return c
}

func c34Shape(c *c34Case) string {
	return fmt.Sprintf("%s/%v/%v|%v,%v,%v|%v", c.Req.Resource, c.Req.Verb, c.Req.Name != "", c.Outcomes[0], c.Outcomes[1], c.Outcomes[2], c.Finish)
}

func c34Property(t *testing.T, unit string) {
	ev.Quiet()
	rec := ev.New("C34", unit,
		"request shapes (5 policy resources x verbs x named/unnamed/old- and new-style names x tiers) x a generated outcome (allow/deny/no-opinion, each with or without an authorizer error: 6 per check) for each of the three checks x a schedule (yields, microsecond sleeps, optionally a forced answer order) x GOMAXPROCS in {1,2,4,8}; each case is executed several times; non-trivial = the three outcomes are not all equal; distinct = (request shape, outcomes, forced order)",
		"the underlying authorizer answers each check with a fixed generated outcome: any of the three decisions, with or without an error; 'may' in the statement means the decision is Allow, errors do not count (the tier authorizer only logs them)",
		"interleavings are those the Go scheduler produces under the generated yields/sleeps/forced orders, not an exhaustive schedule enumeration")
	defer rec.Write()
	reps := ev.Scale(6, 20)
	prev := runtime.GOMAXPROCS(0)
	defer runtime.GOMAXPROCS(prev)

	rapid.Check(t, func(t *rapid.T) {
		c := c34Gen(t)
		runtime.GOMAXPROCS(c.Procs)
		for r := 0; r < reps; r++ {
			if msg := c34RunOnce(c); msg != "" {
				t.Fatalf("%s\nrequest %+v\noutcomes get-tier=%v on-name=%v on-wildcard=%v\nschedule %+v forced order %v GOMAXPROCS=%d (repetition %d)",
					msg, c.Req, c.Outcomes[0], c.Outcomes[1], c.Outcomes[2], c.Steps, c.Finish, c.Procs, r)
			}
		}
		o := c.Outcomes
		want := o[0].Decision == k8sauth.DecisionAllow && (o[1].Decision == k8sauth.DecisionAllow || o[2].Decision == k8sauth.DecisionAllow)
		cl := []string{"expect-refused"}
		if want {
			cl = []string{"expect-allowed"}
		}
		if o[0].Err || o[1].Err || o[2].Err {
			cl = append(cl, "authorizer-error")
		}
		for i := range o {
			if o[i].Err && o[i].Decision == k8sauth.DecisionAllow {
				cl = append(cl, "allow-with-error")
				break
			}
		}
		if c.Finish != nil {
			cl = append(cl, "forced-order")
		}
		if c.Req.Name == "" {
			cl = append(cl, "unnamed-request")
		}
		sort.Strings(cl)
		rec.Case(!(o[0] == o[1] && o[1] == o[2]), c34Shape(c), func() any { return c }, cl...)
	})
}

func c34RaceBuild() bool { return c34RaceEnabled }

// TestVerifC34KnownSharedErrRace is the regression test for the finding "shared-err-race" (fixed
// in /repo: the three concurrent checks used to assign and read the enclosing function's `err`
// variable, a data race on every call).  Built with -race it fails ("race detected during
// execution of test") if that race, or any other between the three checks, comes back.  Without
// -race it cannot observe anything and is skipped.  It is declared before the generated search
// because the race detector reports each pair of racing stacks only once per process.
func TestVerifC34KnownSharedErrRace(t *testing.T) {
	ev.Quiet()
	if !c34RaceBuild() {
		t.Skip("needs the race detector")
	}
	for _, perm := range [][]int{nil, {0, 1, 2}, {2, 1, 0}, {1, 0, 2}} {
		for _, withErr := range []bool{false, true} {
			c := &c34Case{
				Req:      c34Request{Resource: "networkpolicies", Namespace: "default", Verb: "get", Name: "default.pol", Tier: "default", User: "alice"},
				Outcomes: [3]c34Outcome{{k8sauth.DecisionAllow, false}, {k8sauth.DecisionNoOpinion, withErr}, {k8sauth.DecisionAllow, false}},
				Finish:   perm,
			}
			for i := 0; i < 10; i++ {
				if msg := c34RunOnce(c); msg != "" {
					t.Fatalf("%s", msg)
				}
			}
		}
	}
}

// TestVerifC34Authorize is the generated search.  In the unit built with -race the race
// detector fails the test by itself if any of the executed interleavings races.
func TestVerifC34Authorize(t *testing.T) {
	unit := "authz"
	if c34RaceBuild() {
		unit = "authz-race"
	}
	c34Property(t, unit)
}
