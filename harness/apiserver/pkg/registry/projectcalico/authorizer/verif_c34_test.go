package authorizer_test

// C34 — tiered policy authorization is correct and race-free.
//
// Oracle (statement): AuthorizeTierOperation returns nil  <=>  the underlying authorizer answers
// Allow to "get tier <tier>"  AND  (Allow to "<verb> tier.<resource> <request name>"  OR  Allow to
// "<verb> tier.<resource> <tier>.*"), whatever decisions/errors it returns for the three checks
// and however the three concurrent checks interleave; a refusal is a Forbidden error (interface
// doc).  The same unit is also built with the race detector, which must stay silent.

import (
	"context"
	"errors"
	"fmt"
	"os"
	"path/filepath"
	"regexp"
	"runtime"
	"sort"
	"strconv"
	"strings"
	"sync"
	"sync/atomic"
	"testing"
	"time"

	k8serrors "k8s.io/apimachinery/pkg/api/errors"
	"k8s.io/apiserver/pkg/authentication/user"
	k8sauth "k8s.io/apiserver/pkg/authorization/authorizer"
	genericapirequest "k8s.io/apiserver/pkg/endpoints/request"
	"pgregory.net/rapid"

	"github.com/projectcalico/calico/apiserver/pkg/registry/projectcalico/authorizer"
	"github.com/projectcalico/calico/verifkit/ev"
)

const c34KnownSig = "shared-err-race"

const (
	c34GetTier = iota
	c34OnName
	c34OnWildcard
)

var c34CheckName = []string{"get-tier", "on-name", "on-wildcard"}

type c34Outcome struct {
	Decision k8sauth.Decision
	Err      bool
}

func (o c34Outcome) String() string {
	s := map[k8sauth.Decision]string{k8sauth.DecisionAllow: "allow", k8sauth.DecisionDeny: "deny", k8sauth.DecisionNoOpinion: "no-opinion"}[o.Decision]
	if o.Err {
		s += "+err"
	}
	return s
}

// What one of the three checks does before answering.
type c34Step struct {
	Yields int           // runtime.Gosched() calls
	Sleep  time.Duration // then sleep
}

type c34Request struct {
	Resource, Namespace, Verb, Name, Subresource, Tier, User string
}

type c34Case struct {
	Req      c34Request
	Outcomes [3]c34Outcome
	Steps    [3]c34Step
	// Finish: when non-nil, the order in which the three checks are made to answer
	// (check Finish[k] answers only after Finish[k-1] has).
	Finish []int
	Procs  int
}

type c34Call struct {
	Check int
	Attrs k8sauth.AttributesRecord
}

// c34Fake is the underlying authorizer: it recognises which of the three checks a call is,
// follows the generated schedule and returns the generated outcome.
type c34Fake struct {
	c     *c34Case
	mu    sync.Mutex
	calls []c34Call
	bad   []string
	done  [3]chan struct{}
}

func c34NewFake(c *c34Case) *c34Fake {
	f := &c34Fake{c: c}
	for i := range f.done {
		f.done[i] = make(chan struct{})
	}
	return f
}

func (f *c34Fake) Authorize(ctx context.Context, a k8sauth.Attributes) (k8sauth.Decision, string, error) {
	rec := k8sauth.AttributesRecord{
		User: a.GetUser(), Verb: a.GetVerb(), Namespace: a.GetNamespace(), APIGroup: a.GetAPIGroup(),
		APIVersion: a.GetAPIVersion(), Resource: a.GetResource(), Subresource: a.GetSubresource(),
		Name: a.GetName(), ResourceRequest: a.IsResourceRequest(), Path: a.GetPath(),
	}
	check := -1
	switch {
	case rec.Resource == "tiers":
		check = c34GetTier
	case rec.Resource == "tier."+f.c.Req.Resource && rec.Name == f.c.Req.Tier+".*":
		check = c34OnWildcard
	case rec.Resource == "tier."+f.c.Req.Resource && rec.Name == f.c.Req.Name:
		check = c34OnName
	}
	f.mu.Lock()
	f.calls = append(f.calls, c34Call{check, rec})
	if check < 0 {
		f.bad = append(f.bad, fmt.Sprintf("%+v", rec))
	}
	f.mu.Unlock()
	if check < 0 {
		return k8sauth.DecisionNoOpinion, "unrecognised check", nil
	}
	st := f.c.Steps[check]
	for i := 0; i < st.Yields; i++ {
		runtime.Gosched()
	}
	if st.Sleep > 0 {
		time.Sleep(st.Sleep)
	}
	if f.c.Finish != nil {
		for k, ch := range f.c.Finish {
			if ch == check {
				if k > 0 {
					select {
					case <-f.done[f.c.Finish[k-1]]:
					case <-time.After(5 * time.Second):
						// the predecessor never ran (fewer than three checks made): do not wedge
					}
				}
				defer close(f.done[check])
			}
		}
	}
	o := f.c.Outcomes[check]
	var err error
	if o.Err {
		err = errors.New("authorizer backend failure for " + c34CheckName[check])
	}
	return o.Decision, "generated", err
}

func (f *c34Fake) ConditionsAwareAuthorize(ctx context.Context, a k8sauth.Attributes) k8sauth.ConditionsAwareDecision {
	return k8sauth.ConditionsAwareDecisionFromParts(f.Authorize(ctx, a))
}

func (f *c34Fake) EvaluateConditions(ctx context.Context, decision k8sauth.ConditionsAwareDecision, data k8sauth.ConditionsData) (k8sauth.Decision, string, error) {
	return k8sauth.DecisionDeny, "", k8sauth.ErrorConditionEvaluationNotSupported
}

func c34Context(r c34Request) context.Context {
	ctx := genericapirequest.NewContext()
	ctx = genericapirequest.WithUser(ctx, &user.DefaultInfo{Name: r.User, UID: "uid-" + r.User, Groups: []string{"g1"}})
	path := "/apis/projectcalico.org/v3/"
	if r.Namespace != "" {
		ctx = genericapirequest.WithNamespace(ctx, r.Namespace)
		path += "namespaces/" + r.Namespace + "/"
	}
	path += r.Resource
	if r.Name != "" {
		path += "/" + r.Name
	}
	if r.Subresource != "" {
		path += "/" + r.Subresource
	}
	ctx = genericapirequest.WithRequestInfo(ctx, &genericapirequest.RequestInfo{
		IsResourceRequest: true, Path: path, Verb: r.Verb, APIGroup: "projectcalico.org", APIVersion: "v3",
		Resource: r.Resource, Subresource: r.Subresource, Namespace: r.Namespace, Name: r.Name,
	})
	return ctx
}

// c34RunOnce performs one AuthorizeTierOperation call and checks it against the oracle.
// It returns a description of the violation, or "".
func c34RunOnce(c *c34Case) string {
	f := c34NewFake(c)
	ta := authorizer.NewTierAuthorizer(f)
	err := ta.AuthorizeTierOperation(c34Context(c.Req), c.Req.Name, c.Req.Tier)

	if len(f.bad) > 0 {
		return "HARNESS-GAP: the tier authorizer made a check the harness cannot classify as get-tier / on-name / on-wildcard: " + strings.Join(f.bad, "; ")
	}
	seen := map[int]int{}
	for _, call := range f.calls {
		seen[call.Check]++
		a := call.Attrs
		if a.User == nil || a.User.GetName() != c.Req.User {
			return fmt.Sprintf("check %s made for user %v, request user is %q", c34CheckName[call.Check], a.User, c.Req.User)
		}
		switch call.Check {
		case c34GetTier:
			if a.Verb != "get" || a.Name != c.Req.Tier {
				return fmt.Sprintf("tier check must be 'get tiers/%s', was '%s tiers/%s'", c.Req.Tier, a.Verb, a.Name)
			}
		default:
			if a.Verb != c.Req.Verb || a.Namespace != c.Req.Namespace || a.Subresource != c.Req.Subresource {
				return fmt.Sprintf("check %s must be for the requested operation (%s ns=%q sub=%q), was %s ns=%q sub=%q",
					c34CheckName[call.Check], c.Req.Verb, c.Req.Namespace, c.Req.Subresource, a.Verb, a.Namespace, a.Subresource)
			}
		}
	}
	allowed := func(i int) bool { return seen[i] > 0 && c.Outcomes[i].Decision == k8sauth.DecisionAllow }
	want := allowed(c34GetTier) && (allowed(c34OnName) || allowed(c34OnWildcard))
	if want && err != nil {
		return fmt.Sprintf("request refused (%v) although get-tier=%v and on-name=%v / on-wildcard=%v", err, c.Outcomes[0], c.Outcomes[1], c.Outcomes[2])
	}
	if !want && err == nil {
		return fmt.Sprintf("request allowed although get-tier=%v, on-name=%v, on-wildcard=%v (checks made: %v)", c.Outcomes[0], c.Outcomes[1], c.Outcomes[2], seen)
	}
	if !want && !k8serrors.IsForbidden(err) {
		return fmt.Sprintf("refusal must be a Forbidden error, got %T %v", err, err)
	}
	return ""
}

var (
	c34Resources = []struct {
		Name       string
		Namespaced bool
	}{
		{"networkpolicies", true}, {"globalnetworkpolicies", false}, {"stagednetworkpolicies", true},
		{"stagedglobalnetworkpolicies", false}, {"stagedkubernetesnetworkpolicies", true},
	}
	c34Verbs    = []string{"get", "list", "watch", "create", "update", "patch", "delete", "deletecollection"}
	c34Tiers    = []string{"default", "net-sec", "t1"}
	c34Outcomes = []c34Outcome{
		{k8sauth.DecisionAllow, false}, {k8sauth.DecisionDeny, false}, {k8sauth.DecisionNoOpinion, false},
		{k8sauth.DecisionNoOpinion, true}, {k8sauth.DecisionDeny, true},
	}
)

func c34Gen(t *rapid.T) *c34Case {
	c := &c34Case{}
	res := rapid.SampledFrom(c34Resources).Draw(t, "resource")
	c.Req.Resource = res.Name
	if res.Namespaced {
		c.Req.Namespace = rapid.SampledFrom([]string{"default", "prod"}).Draw(t, "namespace")
	}
	c.Req.Verb = rapid.SampledFrom(c34Verbs).Draw(t, "verb")
	c.Req.Tier = rapid.SampledFrom(c34Tiers).Draw(t, "tier")
	c.Req.User = rapid.SampledFrom([]string{"alice", "system:serviceaccount:ns:sa"}).Draw(t, "user")
	switch c.Req.Verb {
	case "list", "watch", "create", "deletecollection":
		if rapid.Bool().Draw(t, "named") { // e.g. a watch/list restricted by metadata.name, create with a body name
			c.Req.Name = c.Req.Tier + ".pol"
		}
	default:
		c.Req.Name = rapid.SampledFrom([]string{c.Req.Tier + ".pol", "pol", "other." + "pol"}).Draw(t, "name")
		if rapid.IntRange(0, 5).Draw(t, "status") == 0 {
			c.Req.Subresource = "status"
		}
	}
	// outcomes: favour Allow so that the allowed side of the equivalence is as common as the refused side
	for i := range c.Outcomes {
		if rapid.IntRange(0, 9).Draw(t, "allow-"+c34CheckName[i]) < 6 {
			c.Outcomes[i] = c34Outcomes[0]
		} else {
			c.Outcomes[i] = rapid.SampledFrom(c34Outcomes[1:]).Draw(t, "outcome-"+c34CheckName[i])
		}
	}
	for i := range c.Steps {
		c.Steps[i].Yields = rapid.IntRange(0, 3).Draw(t, "yields-"+c34CheckName[i])
		if rapid.IntRange(0, 3).Draw(t, "sleeps-"+c34CheckName[i]) == 0 {
			c.Steps[i].Sleep = time.Duration(rapid.IntRange(1, 200).Draw(t, "sleep-us-"+c34CheckName[i])) * time.Microsecond
		}
	}
	if rapid.Bool().Draw(t, "forcedOrder") {
		c.Finish = rapid.Permutation([]int{0, 1, 2}).Draw(t, "finishOrder")
	}
	c.Procs = rapid.SampledFrom([]int{1, 2, 4, 8}).Draw(t, "gomaxprocs")
	return c
}

func c34Shape(c *c34Case) string {
	return fmt.Sprintf("%s/%v/%v|%v,%v,%v|%v", c.Req.Resource, c.Req.Verb, c.Req.Name != "", c.Outcomes[0], c.Outcomes[1], c.Outcomes[2], c.Finish)
}

func c34Property(t *testing.T, unit string) {
	ev.Quiet()
	rec := ev.New("C34", unit,
		"request shapes (5 policy resources x verbs x named/unnamed/old- and new-style names x tiers) x a generated outcome (allow/deny/no-opinion, with or without an authorizer error) for each of the three checks x a schedule (yields, microsecond sleeps, optionally a forced answer order) x GOMAXPROCS in {1,2,4,8}; each case is executed several times; non-trivial = the three outcomes are not all equal; distinct = (request shape, outcomes, forced order)",
		"the underlying authorizer answers each check with a fixed generated outcome; errors are only generated together with deny/no-opinion decisions",
		"interleavings are those the Go scheduler produces under the generated yields/sleeps/forced orders, not an exhaustive schedule enumeration")
	defer rec.Write()
	reps := ev.Scale(6, 20)
	prev := runtime.GOMAXPROCS(0)
	defer runtime.GOMAXPROCS(prev)

	rapid.Check(t, func(t *rapid.T) {
		c := c34Gen(t)
		runtime.GOMAXPROCS(c.Procs)
		for r := 0; r < reps; r++ {
			if msg := c34RunOnce(c); msg != "" {
				t.Fatalf("%s\nrequest %+v\noutcomes get-tier=%v on-name=%v on-wildcard=%v\nschedule %+v forced order %v GOMAXPROCS=%d (repetition %d)",
					msg, c.Req, c.Outcomes[0], c.Outcomes[1], c.Outcomes[2], c.Steps, c.Finish, c.Procs, r)
			}
		}
		o := c.Outcomes
		want := o[0].Decision == k8sauth.DecisionAllow && (o[1].Decision == k8sauth.DecisionAllow || o[2].Decision == k8sauth.DecisionAllow)
		cl := []string{"expect-refused"}
		if want {
			cl = []string{"expect-allowed"}
		}
		if o[0].Err || o[1].Err || o[2].Err {
			cl = append(cl, "authorizer-error")
		}
		if c.Finish != nil {
			cl = append(cl, "forced-order")
		}
		if c.Req.Name == "" {
			cl = append(cl, "unnamed-request")
		}
		sort.Strings(cl)
		rec.Case(!(o[0] == o[1] && o[1] == o[2]), c34Shape(c), func() any { return c }, cl...)
	})
}

func c34RaceBuild() bool { return c34RaceEnabled }

// ---- race-detector reports ----
//
// The -race unit runs with GORACE="log_path=racelog exitcode=0": reports go to the file
// racelog.<pid> in the scratch cwd, where the harness can read and classify them.  The verdict
// itself is the testing package's: any report during a test function fails that function
// ("race detected during execution of test").

func c34RaceLogPath() string {
	for _, f := range strings.Fields(os.Getenv("GORACE")) {
		if strings.HasPrefix(f, "log_path=") {
			return strings.TrimPrefix(f, "log_path=") + "." + strconv.Itoa(os.Getpid())
		}
	}
	return ""
}

type c34RaceReport struct {
	Text  string
	Funcs [2]string // top frame function of the two racing accesses
	Files [2]string
	Lines [2]int
}

var (
	c34AccessRe = regexp.MustCompile(`^(Read|Write|Previous read|Previous write) at 0x[0-9a-f]+ by `)
	c34FileRe   = regexp.MustCompile(`^\s+(/\S+\.go):(\d+)`)
)

func c34ReadRaceReports() []c34RaceReport {
	p := c34RaceLogPath()
	if p == "" {
		return nil
	}
	data, err := os.ReadFile(p)
	if err != nil {
		return nil
	}
	var out []c34RaceReport
	for _, blk := range strings.Split(string(data), "==================") {
		if !strings.Contains(blk, "WARNING: DATA RACE") {
			continue
		}
		r := c34RaceReport{Text: strings.TrimSpace(blk)}
		lines := strings.Split(blk, "\n")
		k := 0
		for i := 0; i < len(lines) && k < 2; i++ {
			if c34AccessRe.MatchString(lines[i]) && i+2 < len(lines) {
				r.Funcs[k] = strings.TrimSpace(lines[i+1])
				if m := c34FileRe.FindStringSubmatch(lines[i+2]); m != nil {
					r.Files[k] = m[1]
					r.Lines[k], _ = strconv.Atoi(m[2])
				}
				k++
			}
		}
		out = append(out, r)
	}
	return out
}

var c34ClosureRe = regexp.MustCompile(`authorizer\.\(\*authorizer\)\.AuthorizeTierOperation\.func\d+\(\)$`)
var c34ErrWordRe = regexp.MustCompile(`\berr\b`)

// c34IsKnownRace: the signature of the finding "shared-err-race" — both racing accesses are made
// by two different goroutine closures of AuthorizeTierOperation on statements that mention the
// enclosing function's `err` variable.
func c34IsKnownRace(r c34RaceReport) bool {
	if r.Funcs[0] == r.Funcs[1] {
		return false
	}
	for k := 0; k < 2; k++ {
		if !c34ClosureRe.MatchString(r.Funcs[k]) || !strings.HasSuffix(r.Files[k], "/authorizer/authorizer.go") {
			return false
		}
		src, err := os.ReadFile(r.Files[k])
		if err != nil {
			return false
		}
		ls := strings.Split(string(src), "\n")
		if r.Lines[k] < 1 || r.Lines[k] > len(ls) || !c34ErrWordRe.MatchString(ls[r.Lines[k]-1]) {
			return false
		}
	}
	return true
}

func c34ReportKey(r c34RaceReport) string {
	return fmt.Sprintf("%s:%d|%s:%d", filepath.Base(r.Files[0]), r.Lines[0], filepath.Base(r.Files[1]), r.Lines[1])
}

// c34WarmUp is only used while the finding "shared-err-race" is listed as known.  Every call of
// AuthorizeTierOperation then races on `err`, so a -race search could never pass.  The race
// detector reports each pair of racing stacks once per process; the warm-up provokes all
// variants of the known race before any test function starts (reports outside a test function
// are not attributed to one), checks that every report has exactly the known signature, and
// leaves the detector armed for anything else.
func c34WarmUp() (ok bool, msg string) {
	seen := map[string]bool{}
	quiet := 0
	perms := [][]int{{0, 1, 2}, {0, 2, 1}, {1, 0, 2}, {1, 2, 0}, {2, 0, 1}, {2, 1, 0}}
	for batch := 0; batch < 400 && quiet < 40; batch++ {
		for _, procs := range []int{1, 4} {
			runtime.GOMAXPROCS(procs)
			for pi, perm := range perms {
				for errMask := 0; errMask < 8; errMask += 7 { // no check errs / every check errs
					c := &c34Case{
						Req:    c34Request{Resource: "networkpolicies", Namespace: "default", Verb: "get", Name: "default.pol", Tier: "default", User: "alice"},
						Finish: perm, Procs: procs,
					}
					if (batch+pi)%3 == 0 {
						c.Finish = nil
					}
					for i := range c.Outcomes {
						c.Outcomes[i] = c34Outcome{k8sauth.DecisionNoOpinion, errMask != 0}
						c.Steps[i].Yields = (batch + i + pi) % 3
					}
					if m := c34RunOnce(c); m != "" {
						return false, m
					}
				}
			}
		}
		grew := false
		for _, r := range c34ReadRaceReports() {
			if !c34IsKnownRace(r) {
				return false, "a data race other than the known shared-err race was reported:\n" + r.Text
			}
			if k := c34ReportKey(r); !seen[k] {
				seen[k] = true
				grew = true
			}
		}
		if grew {
			quiet = 0
		} else {
			quiet++
		}
	}
	var keys []string
	for k := range seen {
		keys = append(keys, k)
	}
	sort.Strings(keys)
	return true, fmt.Sprintf("%d variants of the known race provoked before the search: %v", len(keys), keys)
}

var c34WarmUpNote string

func TestMain(m *testing.M) {
	ev.Quiet()
	if c34RaceBuild() && ev.Known(c34KnownSig) {
		prev := runtime.GOMAXPROCS(0)
		ok, msg := c34WarmUp()
		runtime.GOMAXPROCS(prev)
		if !ok {
			fmt.Println("--- FAIL: C34 warm-up: " + msg)
			os.Exit(1)
		}
		c34WarmUpNote = msg
	}
	code := m.Run()
	if code != 0 && c34WarmUpNote != "" && !c34AnyFailed.Load() {
		// No test function failed and no report appeared during one; the testing package
		// still ends with "race detected outside of test execution" because of the reports the
		// warm-up provoked on purpose.  If every report in the log has the known signature,
		// that is the expected outcome while the finding is listed.
		allKnown := true
		for _, r := range c34ReadRaceReports() {
			if !c34IsKnownRace(r) {
				allKnown = false
			}
		}
		if allKnown {
			fmt.Println("C34: every race report in this process is the known shared-err race provoked by the warm-up; no test function failed: exit status 0")
			code = 0
		}
	}
	os.Exit(code)
}

var c34AnyFailed atomic.Bool

// c34TrackFailure must be deferred (after c34ExplainRaces is deferred, so that it runs first or
// second does not matter) by every test function: it records whether the function failed or
// the race detector reported something while it ran.
func c34TrackFailure(t *testing.T, before int) {
	if t.Failed() || len(c34ReadRaceReports()) > before {
		c34AnyFailed.Store(true)
	}
}

// c34ExplainRaces is called at the end of a test function of the -race unit: if the race
// detector reported anything since `before`, the reports are printed (they went to the log
// file, not to the test output).  While the known finding is listed, a report that has exactly
// the known signature means the warm-up missed a variant: that is a harness limitation, not a
// new violation.
func c34ExplainRaces(t *testing.T, before int) {
	reps := c34ReadRaceReports()
	if len(reps) <= before {
		return
	}
	onlyKnown := true
	for _, r := range reps[before:] {
		t.Logf("race detector report:\n%s", r.Text)
		if !c34IsKnownRace(r) {
			onlyKnown = false
		}
	}
	if onlyKnown && ev.Known(c34KnownSig) {
		t.Logf("HARNESS-GAP: the race detector reported a variant of the known shared-err race that the warm-up had not provoked (%s)", c34WarmUpNote)
	}
}

// TestVerifC34Authorize is the generated search.  In the unit built with -race the race
// detector fails the test by itself if any of the executed interleavings races.
func TestVerifC34Authorize(t *testing.T) {
	unit := "authz"
	if !c34RaceBuild() {
		defer c34TrackFailure(t, 0)
	} else {
		unit = "authz-race"
		before := len(c34ReadRaceReports())
		defer c34ExplainRaces(t, before)
		defer c34TrackFailure(t, before)
		if c34WarmUpNote != "" {
			t.Log(c34WarmUpNote)
		}
	}
	c34Property(t, unit)
}

// TestVerifC34KnownSharedErrRace confirms the finding "shared-err-race": the three concurrent
// checks assign (and read) one shared error variable.  Built with -race it fails ("race
// detected during execution of test") while that race exists and passes once each goroutine
// uses its own variable.  Without -race it cannot observe anything and is skipped.  It must run
// in a fresh process (the driver's confirm run does that): the race detector reports each pair
// of racing stacks only once per process.
func TestVerifC34KnownSharedErrRace(t *testing.T) {
	if !c34RaceBuild() {
		t.Skip("needs the race detector")
	}
	if ev.Known(c34KnownSig) {
		t.Skip("listed as a known finding; the driver confirms it in a separate run")
	}
	before := len(c34ReadRaceReports())
	defer c34ExplainRaces(t, before)
	defer c34TrackFailure(t, before)
	for _, perm := range [][]int{nil, {0, 1, 2}, {2, 1, 0}, {1, 0, 2}} {
		c := &c34Case{
			Req:      c34Request{Resource: "networkpolicies", Namespace: "default", Verb: "get", Name: "default.pol", Tier: "default", User: "alice"},
			Outcomes: [3]c34Outcome{{k8sauth.DecisionAllow, false}, {k8sauth.DecisionAllow, false}, {k8sauth.DecisionAllow, false}},
			Finish:   perm,
		}
		for i := 0; i < 10; i++ {
			if msg := c34RunOnce(c); msg != "" {
				t.Fatalf("%s", msg)
			}
		}
	}
}
