package authorizer_test

// C34 — tiered policy authorization is correct and race-free.
//
// Oracle (statement): AuthorizeTierOperation returns nil  <=>  the underlying authorizer answers
// Allow to "get tier <tier>"  AND  (Allow to "<verb> tier.<resource> <request name>"  OR  Allow to
// "<verb> tier.<resource> <tier>.*"), whatever decisions/errors it returns for the three checks
// and however the three concurrent checks interleave; a refusal is a Forbidden error (interface
// doc).  The same unit is also built with the race detector, which must stay silent.
//
// The underlying authorizer is a generated *function of the whole attributes record* (user, verb,
// API group, resource, subresource, name, namespace, resource-request flag): an ordered rule list in
// the style of RBAC (rules bound cluster-wide or in one namespace, optional resourceNames,
// default no-opinion) in which every rule can answer allow / deny / no-opinion with or without an
// error.  "The user may get the tier" etc. are the function's answers to the three questions the
// statement names, asked the way the API defines them: `get tiers/<tier>` is a cluster-scoped
// question (Tier is a cluster-scoped resource: no namespace, no subresource); the two policy
// questions carry the request's verb, namespace and subresource.  Rules that differ from those
// questions in one attribute (a Role granting `get tiers` inside the request's namespace, the
// grant in another namespace / for another verb, user, group, name style ...) make a check that is
// asked with the wrong attributes change the verdict.
//
// The authorizer may honour the context it is handed, like a remote (webhook) authorizer: a
// check that is still in flight when its context is cancelled gives up with no-opinion and
// ctx.Err().  The request's own context is never cancelled, so the verdict must still be the
// formula over the function's answers; generated delays and forced answer orders make the checks
// overlap (an erroring check answering while a needed allow is still in flight).

import (
	"context"
	"errors"
	"fmt"
	"runtime"
	"sort"
	"strings"
	"sync"
	"testing"
	"time"

	k8serrors "k8s.io/apimachinery/pkg/api/errors"
	"k8s.io/apiserver/pkg/authentication/user"
	k8sauth "k8s.io/apiserver/pkg/authorization/authorizer"
	genericapirequest "k8s.io/apiserver/pkg/endpoints/request"
	"pgregory.net/rapid"

	"github.com/projectcalico/calico/apiserver/pkg/registry/projectcalico/authorizer"
	"github.com/projectcalico/calico/verifkit/ev"
)

const (
	c34GetTier = iota
	c34OnName
	c34OnWildcard
)

var c34CheckName = []string{"get-tier", "on-name", "on-wildcard"}

type c34Outcome struct {
	Decision k8sauth.Decision
	Err      bool
}

func (o c34Outcome) String() string {
	s := map[k8sauth.Decision]string{k8sauth.DecisionAllow: "allow", k8sauth.DecisionDeny: "deny", k8sauth.DecisionNoOpinion: "no-opinion"}[o.Decision]
	if o.Err {
		s += "+err"
	}
	return s
}

// What one of the three checks does before answering.
type c34Step struct {
	Yields int           // runtime.Gosched() calls
	Sleep  time.Duration // then sleep
}

type c34Request struct {
	Resource, Namespace, Verb, Name, Subresource, Tier, User string
}

// c34Rule is one rule of the generated authorizer.  The first rule that matches a question answers it.
type c34Rule struct {
	Kind            string // what the rule stands for (evidence / messages)
	User            string // "" = any user
	Verb            string // "*" = any verb
	Group           string // "*" = any API group
	Resource        string
	Subresource     string // "*" = any
	Name            string // "*" = no resourceNames restriction
	Namespace       string // "*" = bound cluster-wide (answers for every namespace and for none); otherwise only this namespace ("" = only cluster-scoped questions)
	ResourceRequest bool
	Out             c34Outcome
}

func (r c34Rule) matches(a k8sauth.AttributesRecord) bool {
	userName := ""
	if a.User != nil {
		userName = a.User.GetName()
	}
	return (r.User == "" || r.User == userName) &&
		(r.Verb == "*" || r.Verb == a.Verb) &&
		(r.Group == "*" || r.Group == a.APIGroup) &&
		r.Resource == a.Resource &&
		(r.Subresource == "*" || r.Subresource == a.Subresource) &&
		(r.Name == "*" || r.Name == a.Name) &&
		(r.Namespace == "*" || r.Namespace == a.Namespace) &&
		r.ResourceRequest == a.ResourceRequest
}

type c34Case struct {
	Req c34Request
	// Rules is the underlying authorizer; unmatched questions get no-opinion (like RBAC).
	Rules []c34Rule
	// Outcomes are the authorizer's answers to the three questions of the statement (derived from Rules).
	Outcomes [3]c34Outcome
	Steps    [3]c34Step
	// HonourCtx: the authorizer gives up (no-opinion + ctx.Err()) when the context it was handed is
	// cancelled while a check is waiting; Latency is the extra time a check stays in flight after
	// it was allowed to answer (only waited for when HonourCtx).
	HonourCtx bool
	Latency   [3]time.Duration
	// Finish: when non-nil, the order in which the three checks are made to answer
	// (check Finish[k] answers only after Finish[k-1] has).
	Finish []int
	Procs  int
}

type c34Call struct {
	Check     int
	Attrs     k8sauth.AttributesRecord
	Cancelled bool
}

const c34Group = "projectcalico.org"

func c34User(name string) user.Info {
	return &user.DefaultInfo{Name: name, UID: "uid-" + name, Groups: []string{"g1"}}
}

// c34Questions returns the three questions the statement names for a request, with the attributes
// the API gives them (paths are not part of the generated authorizer's input: for resource
// requests neither RBAC nor a SubjectAccessReview looks at the path).
func c34Questions(r c34Request) [3]k8sauth.AttributesRecord {
	u := c34User(r.User)
	return [3]k8sauth.AttributesRecord{
		c34GetTier: {User: u, Verb: "get", Namespace: "", APIGroup: c34Group, APIVersion: "v3", Resource: "tiers",
			Subresource: "", Name: r.Tier, ResourceRequest: true},
		c34OnName: {User: u, Verb: r.Verb, Namespace: r.Namespace, APIGroup: c34Group, APIVersion: "v3", Resource: "tier." + r.Resource,
			Subresource: r.Subresource, Name: r.Name, ResourceRequest: true},
		c34OnWildcard: {User: u, Verb: r.Verb, Namespace: r.Namespace, APIGroup: c34Group, APIVersion: "v3", Resource: "tier." + r.Resource,
			Subresource: r.Subresource, Name: r.Tier + ".*", ResourceRequest: true},
	}
}

// answer evaluates the generated authorizer on one question.
func (c *c34Case) answer(a k8sauth.AttributesRecord) (c34Outcome, string) {
	for _, r := range c.Rules {
		if r.matches(a) {
			return r.Out, r.Kind
		}
	}
	return c34Outcome{Decision: k8sauth.DecisionNoOpinion}, "no rule (default no-opinion)"
}

// derive fills in Outcomes from Rules.
func (c *c34Case) derive() {
	for i, q := range c34Questions(c.Req) {
		c.Outcomes[i], _ = c.answer(q)
	}
}

// c34Fake is the underlying authorizer: it recognises which of the three checks a call is,
// follows the generated schedule and returns the generated outcome.
type c34Fake struct {
	c     *c34Case
	mu    sync.Mutex
	calls []c34Call
	bad   []string
	done  [3]chan struct{}
}

func c34NewFake(c *c34Case) *c34Fake {
	f := &c34Fake{c: c}
	for i := range f.done {
		f.done[i] = make(chan struct{})
	}
	return f
}

// wait blocks for d; it reports false if the authorizer honours ctx and ctx was cancelled first.
func (f *c34Fake) wait(ctx context.Context, d time.Duration) bool {
	if d <= 0 {
		return true
	}
	if !f.c.HonourCtx {
		time.Sleep(d)
		return true
	}
	tm := time.NewTimer(d)
	defer tm.Stop()
	select {
	case <-ctx.Done():
		return false
	case <-tm.C:
		return true
	}
}

func (f *c34Fake) Authorize(ctx context.Context, a k8sauth.Attributes) (k8sauth.Decision, string, error) {
	rec := k8sauth.AttributesRecord{
		User: a.GetUser(), Verb: a.GetVerb(), Namespace: a.GetNamespace(), APIGroup: a.GetAPIGroup(),
		APIVersion: a.GetAPIVersion(), Resource: a.GetResource(), Subresource: a.GetSubresource(),
		Name: a.GetName(), ResourceRequest: a.IsResourceRequest(), Path: a.GetPath(),
	}
	check := -1
	switch {
	case rec.Resource == "tiers":
		check = c34GetTier
	case rec.Resource == "tier."+f.c.Req.Resource && rec.Name == f.c.Req.Tier+".*":
		check = c34OnWildcard
	case rec.Resource == "tier."+f.c.Req.Resource && rec.Name == f.c.Req.Name:
		check = c34OnName
	}
	f.mu.Lock()
	idx := len(f.calls)
	f.calls = append(f.calls, c34Call{Check: check, Attrs: rec})
	if check < 0 {
		f.bad = append(f.bad, fmt.Sprintf("%+v", rec))
	}
	f.mu.Unlock()
	if check < 0 {
		return k8sauth.DecisionNoOpinion, "unrecognised check", nil
	}
	cancelled := func() (k8sauth.Decision, string, error) {
		f.mu.Lock()
		f.calls[idx].Cancelled = true
		f.mu.Unlock()
		return k8sauth.DecisionNoOpinion, "gave up: context cancelled while the check was in flight", ctx.Err()
	}
	st := f.c.Steps[check]
	for i := 0; i < st.Yields; i++ {
		runtime.Gosched()
	}
	if f.c.Finish != nil {
		for k, ch := range f.c.Finish {
			if ch == check {
				// Whatever happens, the successor is released when this call returns.
				defer close(f.done[check])
				if k > 0 {
					var ctxDone <-chan struct{}
					if f.c.HonourCtx {
						ctxDone = ctx.Done()
					}
					tm := time.NewTimer(5 * time.Second)
					select {
					case <-f.done[f.c.Finish[k-1]]:
						tm.Stop()
					case <-ctxDone:
						tm.Stop()
						return cancelled()
					case <-tm.C:
						// the predecessor never ran (fewer than three checks made): do not wedge
					}
				}
			}
		}
	}
	if !f.wait(ctx, st.Sleep) || (f.c.HonourCtx && !f.wait(ctx, f.c.Latency[check])) {
		return cancelled()
	}
	if f.c.HonourCtx && ctx.Err() != nil {
		return cancelled()
	}
	o, kind := f.c.answer(rec)
	var err error
	if o.Err {
		err = errors.New("authorizer backend failure for " + c34CheckName[check])
	}
	return o.Decision, "generated: " + kind, err
}

func (f *c34Fake) ConditionsAwareAuthorize(ctx context.Context, a k8sauth.Attributes) k8sauth.ConditionsAwareDecision {
	return k8sauth.ConditionsAwareDecisionFromParts(f.Authorize(ctx, a))
}

func (f *c34Fake) EvaluateConditions(ctx context.Context, decision k8sauth.ConditionsAwareDecision, data k8sauth.ConditionsData) (k8sauth.Decision, string, error) {
	return k8sauth.DecisionDeny, "", k8sauth.ErrorConditionEvaluationNotSupported
}

func c34Context(r c34Request) context.Context {
	ctx := genericapirequest.NewContext()
	ctx = genericapirequest.WithUser(ctx, c34User(r.User))
	path := "/apis/projectcalico.org/v3/"
	if r.Namespace != "" {
		ctx = genericapirequest.WithNamespace(ctx, r.Namespace)
		path += "namespaces/" + r.Namespace + "/"
	}
	path += r.Resource
	if r.Name != "" {
		path += "/" + r.Name
	}
	if r.Subresource != "" {
		path += "/" + r.Subresource
	}
	ctx = genericapirequest.WithRequestInfo(ctx, &genericapirequest.RequestInfo{
		IsResourceRequest: true, Path: path, Verb: r.Verb, APIGroup: c34Group, APIVersion: "v3",
		Resource: r.Resource, Subresource: r.Subresource, Namespace: r.Namespace, Name: r.Name,
	})
	return ctx
}

// c34RunOnce performs one AuthorizeTierOperation call and checks it against the oracle.
// It returns a description of the violation, or "".
func c34RunOnce(c *c34Case) string {
	f := c34NewFake(c)
	ta := authorizer.NewTierAuthorizer(f)
	err := ta.AuthorizeTierOperation(c34Context(c.Req), c.Req.Name, c.Req.Tier)

	if len(f.bad) > 0 {
		return "HARNESS-GAP: the tier authorizer made a check the harness cannot classify as get-tier / on-name / on-wildcard: " + strings.Join(f.bad, "; ")
	}
	// What was asked, and what the authorizer said to it (for the messages).
	questions := c34Questions(c.Req)
	var asked []string
	anyCancelled := false
	for _, call := range f.calls {
		a := call.Attrs
		o, kind := c.answer(a)
		ans := fmt.Sprintf("%v by %s", o, kind)
		if call.Cancelled {
			ans = "gave up with no-opinion + context.Canceled (its context was cancelled while it was in flight; the request's context never was)"
			anyCancelled = true
		}
		asked = append(asked, fmt.Sprintf("%s asked as {%s %s/%s sub=%q name=%q ns=%q group=%q resourceRequest=%v} -> %s",
			c34CheckName[call.Check], a.Verb, a.APIGroup, a.Resource, a.Subresource, a.Name, a.Namespace, a.APIGroup, a.ResourceRequest, ans))
	}
	sort.Strings(asked)
	detail := fmt.Sprintf("\n  the authorizer's answers to the statement's questions: may get tiers/%s (cluster-scoped) = %v; may %s on name %q = %v; may %s on %q = %v\n  checks made:\n    %s",
		c.Req.Tier, c.Outcomes[0], c.Req.Verb, c.Req.Name, c.Outcomes[1], c.Req.Verb, c.Req.Tier+".*", c.Outcomes[2], strings.Join(asked, "\n    "))
	_ = anyCancelled

	allowed := func(i int) bool { return c.Outcomes[i].Decision == k8sauth.DecisionAllow }
	want := allowed(c34GetTier) && (allowed(c34OnName) || allowed(c34OnWildcard))
	if want && err != nil {
		return fmt.Sprintf("request refused (%v) although the user may get the tier and may perform the operation%s", err, detail)
	}
	if !want && err == nil {
		return fmt.Sprintf("request allowed although get-tier=%v, on-name=%v, on-wildcard=%v%s", c.Outcomes[0], c.Outcomes[1], c.Outcomes[2], detail)
	}
	if !want && !k8serrors.IsForbidden(err) {
		return fmt.Sprintf("refusal must be a Forbidden error, got %T %v", err, err)
	}

	// The questions themselves: each check must be the question the statement names.
	for _, call := range f.calls {
		a := call.Attrs
		q := questions[call.Check]
		if a.User == nil || a.User.GetName() != c.Req.User {
			return fmt.Sprintf("check %s made for user %v, request user is %q", c34CheckName[call.Check], a.User, c.Req.User)
		}
		if !a.ResourceRequest || a.APIGroup != q.APIGroup {
			return fmt.Sprintf("check %s must be a resource request in API group %q, was resourceRequest=%v group=%q", c34CheckName[call.Check], q.APIGroup, a.ResourceRequest, a.APIGroup)
		}
		switch call.Check {
		case c34GetTier:
			if a.Verb != "get" || a.Name != c.Req.Tier {
				return fmt.Sprintf("tier check must be 'get tiers/%s', was '%s tiers/%s'", c.Req.Tier, a.Verb, a.Name)
			}
			if a.Namespace != "" || a.Subresource != "" {
				return fmt.Sprintf("tier check must be the cluster-scoped question 'get tiers/%s' (Tier is a cluster-scoped resource), was asked with namespace=%q subresource=%q (request %+v)",
					c.Req.Tier, a.Namespace, a.Subresource, c.Req)
			}
		default:
			if a.Verb != c.Req.Verb || a.Namespace != c.Req.Namespace || a.Subresource != c.Req.Subresource {
				return fmt.Sprintf("check %s must be for the requested operation (%s ns=%q sub=%q), was %s ns=%q sub=%q",
					c34CheckName[call.Check], c.Req.Verb, c.Req.Namespace, c.Req.Subresource, a.Verb, a.Namespace, a.Subresource)
			}
		}
	}
	return ""
}

var (
	c34Resources = []struct {
		Name       string
		Namespaced bool
	}{
		{"networkpolicies", true}, {"globalnetworkpolicies", false}, {"stagednetworkpolicies", true},
		{"stagedglobalnetworkpolicies", false}, {"stagedkubernetesnetworkpolicies", true},
	}
	c34Verbs = []string{"get", "list", "watch", "create", "update", "patch", "delete", "deletecollection"}
	c34Tiers = []string{"default", "net-sec", "t1"}
	// The authorizer.Authorizer contract allows any decision together with an error (the union
	// authorizer passes a sub-authorizer's error through with its decision), and the statement
	// says "whatever the underlying authorizer answers": all 3 decisions x {nil, error}.
	c34Decisions = []k8sauth.Decision{k8sauth.DecisionAllow, k8sauth.DecisionDeny, k8sauth.DecisionNoOpinion}
)

// c34GenOutcome: favour Allow so that the allowed side of the equivalence is as common as the
// refused side; an error accompanies any decision a third of the time.
func c34GenOutcome(t *rapid.T, label string, allowOutOf10 int) c34Outcome {
	var o c34Outcome
	if rapid.IntRange(0, 9).Draw(t, "allow-"+label) < allowOutOf10 {
		o.Decision = k8sauth.DecisionAllow
	} else {
		o.Decision = rapid.SampledFrom(c34Decisions[1:]).Draw(t, "decision-"+label)
	}
	o.Err = rapid.IntRange(0, 2).Draw(t, "error-"+label) == 0
	return o
}

// c34GenRules generates the underlying authorizer for a request: usually one rule answering each
// of the statement's three questions exactly (bound cluster-wide or in the question's namespace,
// like ClusterRoleBinding / RoleBinding), followed by rules that differ from those questions in
// one attribute.
func c34GenRules(t *rapid.T, r c34Request) []c34Rule {
	var rules []c34Rule
	qs := c34Questions(r)
	for i, q := range qs {
		if rapid.IntRange(0, 9).Draw(t, "exactRule-"+c34CheckName[i]) == 0 {
			continue // nothing says anything about this question directly
		}
		rule := c34Rule{Kind: "exact-" + c34CheckName[i], User: r.User, Verb: q.Verb, Group: q.APIGroup, Resource: q.Resource,
			Subresource: q.Subresource, Name: q.Name, Namespace: q.Namespace, ResourceRequest: true}
		switch rapid.IntRange(0, 3).Draw(t, "binding-"+c34CheckName[i]) {
		case 0:
			rule.Namespace = "*" // bound cluster-wide
			rule.Kind += "(cluster-wide)"
		case 1:
			rule.User = "" // e.g. bound to system:authenticated
		}
		rule.Out = c34GenOutcome(t, c34CheckName[i], 6)
		rules = append(rules, rule)
	}
	otherNS := "prod"
	if r.Namespace == "prod" {
		otherNS = "default"
	}
	reqNS := r.Namespace
	if reqNS == "" {
		reqNS = "default"
	}
	otherName := "pol"
	if r.Name == "pol" || r.Name == "" {
		otherName = r.Tier + ".pol"
	}
	otherVerb := "get"
	if r.Verb == "get" {
		otherVerb = "update"
	}
	otherSub := "status"
	if r.Subresource != "" {
		otherSub = ""
	}
	pol := "tier." + r.Resource
	polName := func(t *rapid.T) string {
		return rapid.SampledFrom([]string{r.Name, r.Tier + ".*", "*"}).Draw(t, "nearMissName")
	}
	n := rapid.IntRange(0, 3).Draw(t, "nNearMissRules")
	for i := 0; i < n; i++ {
		base := c34Rule{User: r.User, Group: c34Group, ResourceRequest: true}
		switch rapid.IntRange(0, 13).Draw(t, "nearMissKind") {
		case 0, 1, 2: // a Role/RoleBinding granting get on tiers inside a namespace
			base.Kind, base.Verb, base.Resource, base.Name, base.Namespace = "tiers-granted-in-request-namespace", "get", "tiers", rapid.SampledFrom([]string{r.Tier, "*"}).Draw(t, "tiersName"), reqNS
		case 3:
			base.Kind, base.Verb, base.Resource, base.Name, base.Namespace = "tiers-granted-in-other-namespace", "get", "tiers", "*", otherNS
		case 4:
			base.Kind, base.Verb, base.Resource, base.Name, base.Namespace = "tiers-other-verb", rapid.SampledFrom([]string{"list", "watch", r.Verb}).Draw(t, "tiersVerb"), "tiers", "*", "*"
		case 5:
			base.Kind, base.Verb, base.Resource, base.Name, base.Namespace, base.Subresource = "tiers-subresource", "get", "tiers", "*", "*", "status"
		case 6:
			base.Kind, base.Verb, base.Resource, base.Name, base.Namespace = "other-tier", "get", "tiers", "some-other-tier", "*"
		case 7: // the policy grant only for cluster-scoped questions / in another namespace
			base.Kind, base.Verb, base.Resource, base.Name, base.Subresource = "policy-granted-outside-request-namespace", r.Verb, pol, polName(t), r.Subresource
			base.Namespace = otherNS
			if r.Namespace != "" && rapid.Bool().Draw(t, "clusterScopedOnly") {
				base.Namespace = ""
			}
		case 8:
			base.Kind, base.Verb, base.Resource, base.Name, base.Namespace, base.Subresource = "policy-other-verb", otherVerb, pol, polName(t), "*", r.Subresource
		case 9:
			base.Kind, base.Verb, base.Resource, base.Name, base.Namespace, base.Subresource = "policy-other-subresource", r.Verb, pol, polName(t), "*", otherSub
		case 10: // the other naming style of the same policy
			base.Kind, base.Verb, base.Resource, base.Name, base.Namespace, base.Subresource = "policy-other-name-style", r.Verb, pol, otherName, "*", r.Subresource
		case 11: // the plain (not tier-scoped) resource
			base.Kind, base.Verb, base.Resource, base.Name, base.Namespace, base.Subresource = "plain-resource", r.Verb, r.Resource, "*", "*", "*"
		case 12:
			base.Kind, base.Verb, base.Resource, base.Name, base.Namespace, base.Subresource = "other-user", "*", rapid.SampledFrom([]string{"tiers", pol}).Draw(t, "otherUserResource"), "*", "*", "*"
			base.User = "mallory"
		default: // same attributes, other API group or a non-resource request
			base.Kind, base.Verb, base.Resource, base.Name, base.Namespace, base.Subresource = "other-group-or-non-resource", "*", rapid.SampledFrom([]string{"tiers", pol}).Draw(t, "otherGroupResource"), "*", "*", "*"
			if rapid.Bool().Draw(t, "nonResource") {
				base.ResourceRequest = false
			} else {
				base.Group = rapid.SampledFrom([]string{"", "crd.projectcalico.org"}).Draw(t, "otherGroup")
			}
		}
		base.Out = c34GenOutcome(t, "nearMiss", 8)
		rules = append(rules, base)
	}
	return rules
}

func c34Gen(t *rapid.T) *c34Case {
	c := &c34Case{}
	res := rapid.SampledFrom(c34Resources).Draw(t, "resource")
	c.Req.Resource = res.Name
	if res.Namespaced {
		c.Req.Namespace = rapid.SampledFrom([]string{"default", "prod"}).Draw(t, "namespace")
	}
	c.Req.Verb = rapid.SampledFrom(c34Verbs).Draw(t, "verb")
	c.Req.Tier = rapid.SampledFrom(c34Tiers).Draw(t, "tier")
	c.Req.User = rapid.SampledFrom([]string{"alice", "system:serviceaccount:ns:sa"}).Draw(t, "user")
	switch c.Req.Verb {
	case "list", "watch", "create", "deletecollection":
		if rapid.Bool().Draw(t, "named") { // e.g. a watch/list restricted by metadata.name, create with a body name
			c.Req.Name = c.Req.Tier + ".pol"
		}
	default:
		c.Req.Name = rapid.SampledFrom([]string{c.Req.Tier + ".pol", "pol", "other." + "pol"}).Draw(t, "name")
		if rapid.IntRange(0, 5).Draw(t, "status") == 0 {
			c.Req.Subresource = "status"
		}
	}
	c.Rules = c34GenRules(t, c.Req)
	c.derive()
	for i := range c.Steps {
		c.Steps[i].Yields = rapid.IntRange(0, 3).Draw(t, "yields-"+c34CheckName[i])
		if rapid.IntRange(0, 3).Draw(t, "sleeps-"+c34CheckName[i]) == 0 {
			c.Steps[i].Sleep = time.Duration(rapid.IntRange(1, 200).Draw(t, "sleep-us-"+c34CheckName[i])) * time.Microsecond
		}
	}
	if rapid.Bool().Draw(t, "forcedOrder") {
		c.Finish = rapid.Permutation([]int{0, 1, 2}).Draw(t, "finishOrder")
	}
	// A context-honouring (remote-style) authorizer; checks stay in flight a little longer so that
	// they overlap with the answers of their siblings.
	c.HonourCtx = rapid.Bool().Draw(t, "authorizerHonoursContext")
	if c.HonourCtx {
		for i := range c.Latency {
			if rapid.IntRange(0, 2).Draw(t, "inFlight-"+c34CheckName[i]) > 0 {
				c.Latency[i] = time.Duration(rapid.IntRange(200, 1500).Draw(t, "latency-us-"+c34CheckName[i])) * time.Microsecond
			}
		}
	}
	c.Procs = rapid.SampledFrom([]int{1, 2, 4, 8}).Draw(t, "gomaxprocs")
	return c
}

func c34Shape(c *c34Case) string {
	var kinds []string
	for _, r := range c.Rules {
		if !strings.HasPrefix(r.Kind, "exact-") {
			kinds = append(kinds, r.Kind+"="+r.Out.String())
		}
	}
	return fmt.Sprintf("%s/%v/%v|%v,%v,%v|%v|%v|%v", c.Req.Resource, c.Req.Verb, c.Req.Name != "", c.Outcomes[0], c.Outcomes[1], c.Outcomes[2], c.Finish, c.HonourCtx, kinds)
}

// c34ExactRules is the authorizer that answers exactly the statement's three questions with the
// given outcomes (and no-opinion to everything else).
func c34ExactRules(r c34Request, o [3]c34Outcome) []c34Rule {
	var rules []c34Rule
	for i, q := range c34Questions(r) {
		rules = append(rules, c34Rule{Kind: "exact-" + c34CheckName[i], User: r.User, Verb: q.Verb, Group: q.APIGroup, Resource: q.Resource,
			Subresource: q.Subresource, Name: q.Name, Namespace: q.Namespace, ResourceRequest: true, Out: o[i]})
	}
	return rules
}

func c34Allows(o c34Outcome) bool { return o.Decision == k8sauth.DecisionAllow }

// c34NamespacedTierGrantMatters: the user may not get the tier, but a grant of `get tiers` that is
// bound inside the request's namespace exists and the policy side allows: a tier check asked with
// the request's namespace would open the gate.
func c34NamespacedTierGrantMatters(c *c34Case) bool {
	if c.Req.Namespace == "" || c34Allows(c.Outcomes[c34GetTier]) || !(c34Allows(c.Outcomes[c34OnName]) || c34Allows(c.Outcomes[c34OnWildcard])) {
		return false
	}
	q := c34Questions(c.Req)[c34GetTier]
	q.Namespace = c.Req.Namespace
	o, _ := c.answer(q)
	return c34Allows(o)
}

// c34ErrorBeforeNeededAllow: under the forced answer order an erroring check answers while a check
// whose Allow the verdict needs is still in flight at a context-honouring authorizer.
func c34ErrorBeforeNeededAllow(c *c34Case) bool {
	o := c.Outcomes
	if !c.HonourCtx || c.Finish == nil || !(c34Allows(o[0]) && (c34Allows(o[1]) || c34Allows(o[2]))) {
		return false
	}
	needed := func(i int) bool {
		switch i {
		case c34GetTier:
			return true
		case c34OnName:
			return c34Allows(o[c34OnName]) && !c34Allows(o[c34OnWildcard])
		default:
			return c34Allows(o[c34OnWildcard]) && !c34Allows(o[c34OnName])
		}
	}
	for k := 0; k < len(c.Finish); k++ {
		if !o[c.Finish[k]].Err {
			continue
		}
		for j := k + 1; j < len(c.Finish); j++ {
			if needed(c.Finish[j]) {
				return true
			}
		}
	}
	return false
}

func c34Property(t *testing.T, unit string) {
	ev.Quiet()
	rec := ev.New("C34", unit,
		"request shapes (5 policy resources x verbs x named/unnamed/old- and new-style names x tiers) x a generated underlying authorizer that is a function of the whole attributes record: an ordered RBAC-style rule list (usually one rule per question of the statement, bound cluster-wide or in the question's namespace, answering allow/deny/no-opinion with or without an error, then 0-3 near-miss rules: `get tiers` granted inside a namespace, other verb/subresource/tier, policy grant in another namespace or only cluster-scoped, other name style/user/group, non-resource) x a schedule (yields, microsecond delays, optionally a forced answer order) x an authorizer that may honour context cancellation with in-flight latencies x GOMAXPROCS in {1,2,4,8}; each case is executed several times; non-trivial = the three answers are not all equal; distinct = (request shape, answers, forced order, ctx-honouring, near-miss rules)",
		"'may' in the statement means the generated authorizer's decision for the question is Allow (errors do not count); 'get the tier' is the cluster-scoped question get tiers/<tier> (no namespace, no subresource); the two policy questions carry the request's verb, namespace and subresource; the request path is not an input of the generated authorizer",
		"a context-honouring authorizer gives up (no-opinion + ctx.Err()) only if the context it was handed is cancelled; the request's own context is never cancelled",
		"interleavings are those the Go scheduler produces under the generated yields/sleeps/forced orders, not an exhaustive schedule enumeration")
	defer rec.Write()
	reps := ev.Scale(6, 20)
	prev := runtime.GOMAXPROCS(0)
	defer runtime.GOMAXPROCS(prev)

	rapid.Check(t, func(t *rapid.T) {
		c := c34Gen(t)
		runtime.GOMAXPROCS(c.Procs)
		for r := 0; r < reps; r++ {
			if msg := c34RunOnce(c); msg != "" {
				t.Fatalf("%s\nrequest %+v\nauthorizer rules (first match answers, default no-opinion): %+v\nauthorizer honours context cancellation: %v, in-flight latencies %v\nschedule %+v forced order %v GOMAXPROCS=%d (repetition %d)",
					msg, c.Req, c.Rules, c.HonourCtx, c.Latency, c.Steps, c.Finish, c.Procs, r)
			}
		}
		o := c.Outcomes
		want := o[0].Decision == k8sauth.DecisionAllow && (o[1].Decision == k8sauth.DecisionAllow || o[2].Decision == k8sauth.DecisionAllow)
		cl := []string{"expect-refused"}
		if want {
			cl = []string{"expect-allowed"}
		}
		if o[0].Err || o[1].Err || o[2].Err {
			cl = append(cl, "authorizer-error")
		}
		for i := range o {
			if o[i].Err && o[i].Decision == k8sauth.DecisionAllow {
				cl = append(cl, "allow-with-error")
				break
			}
		}
		if c.Finish != nil {
			cl = append(cl, "forced-order")
		}
		if c.Req.Name == "" {
			cl = append(cl, "unnamed-request")
		}
		if c.Req.Namespace != "" {
			cl = append(cl, "namespaced-request")
		}
		nearMiss := map[string]bool{}
		for _, r := range c.Rules {
			if !strings.HasPrefix(r.Kind, "exact-") {
				nearMiss["rule:"+r.Kind] = true
			}
		}
		for k := range nearMiss {
			cl = append(cl, k)
		}
		if len(nearMiss) > 0 {
			cl = append(cl, "near-miss-rules")
		}
		if c34NamespacedTierGrantMatters(c) {
			cl = append(cl, "namespaced-tier-grant-would-open-the-gate")
		}
		if c.HonourCtx {
			cl = append(cl, "ctx-honouring-authorizer")
		}
		if c34ErrorBeforeNeededAllow(c) {
			cl = append(cl, "error-answers-while-needed-allow-in-flight")
		}
		sort.Strings(cl)
		rec.Case(!(o[0] == o[1] && o[1] == o[2]), c34Shape(c), func() any { return c }, cl...)
	})
}

func c34RaceBuild() bool { return c34RaceEnabled }

// TestVerifC34KnownSharedErrRace is the regression test for the finding "shared-err-race" (fixed
// in /repo: the three concurrent checks used to assign and read the enclosing function's `err`
// variable, a data race on every call).  Built with -race it fails ("race detected during
// execution of test") if that race, or any other between the three checks, comes back.  Without
// -race it cannot observe anything and is skipped.  It is declared before the generated search
// because the race detector reports each pair of racing stacks only once per process.
func TestVerifC34KnownSharedErrRace(t *testing.T) {
	ev.Quiet()
	if !c34RaceBuild() {
		t.Skip("needs the race detector")
	}
	for _, perm := range [][]int{nil, {0, 1, 2}, {2, 1, 0}, {1, 0, 2}} {
		for _, withErr := range []bool{false, true} {
			c := &c34Case{
				Req:    c34Request{Resource: "networkpolicies", Namespace: "default", Verb: "get", Name: "default.pol", Tier: "default", User: "alice"},
				Finish: perm,
			}
			c.Rules = c34ExactRules(c.Req, [3]c34Outcome{{k8sauth.DecisionAllow, false}, {k8sauth.DecisionNoOpinion, withErr}, {k8sauth.DecisionAllow, false}})
			c.derive()
			for i := 0; i < 10; i++ {
				if msg := c34RunOnce(c); msg != "" {
					t.Fatalf("%s", msg)
				}
			}
		}
	}
}

// TestVerifC34TierGateIsClusterScoped: deterministic companion of the generated search.  A user who
// holds `get tiers` only through a grant bound inside the request's namespace may not get the
// (cluster-scoped) tier, so the request must be refused whatever the policy side says.
func TestVerifC34TierGateIsClusterScoped(t *testing.T) {
	ev.Quiet()
	allow := c34Outcome{Decision: k8sauth.DecisionAllow}
	for _, res := range []string{"networkpolicies", "stagednetworkpolicies", "stagedkubernetesnetworkpolicies"} {
		c := &c34Case{Req: c34Request{Resource: res, Namespace: "prod", Verb: "update", Name: "pol", Tier: "net-sec", User: "alice"}}
		qs := c34Questions(c.Req)
		c.Rules = []c34Rule{
			{Kind: "exact-on-wildcard", User: "alice", Verb: "update", Group: c34Group, Resource: qs[c34OnWildcard].Resource, Name: "net-sec.*", Namespace: "prod", ResourceRequest: true, Out: allow},
			{Kind: "tiers-granted-in-request-namespace", User: "alice", Verb: "get", Group: c34Group, Resource: "tiers", Name: "*", Namespace: "prod", ResourceRequest: true, Out: allow},
		}
		c.derive()
		if msg := c34RunOnce(c); msg != "" {
			t.Fatalf("%s\nrequest %+v", msg, c.Req)
		}
	}
}

// TestVerifC34SiblingErrorDoesNotLoseAnAllow: deterministic companion of the generated search.  The
// authorizer honours its context; one check answers with an error while a check whose Allow is
// needed is still in flight.  The verdict must not depend on that interleaving.
func TestVerifC34SiblingErrorDoesNotLoseAnAllow(t *testing.T) {
	ev.Quiet()
	allow := c34Outcome{Decision: k8sauth.DecisionAllow}
	failing := c34Outcome{Decision: k8sauth.DecisionNoOpinion, Err: true}
	for _, tc := range []struct {
		out    [3]c34Outcome
		finish []int
	}{
		{[3]c34Outcome{allow, failing, allow}, []int{c34OnName, c34OnWildcard, c34GetTier}},
		{[3]c34Outcome{allow, allow, failing}, []int{c34OnWildcard, c34GetTier, c34OnName}},
		{[3]c34Outcome{{Decision: k8sauth.DecisionAllow, Err: true}, allow, failing}, []int{c34GetTier, c34OnName, c34OnWildcard}},
	} {
		c := &c34Case{Req: c34Request{Resource: "globalnetworkpolicies", Verb: "delete", Name: "t1.pol", Tier: "t1", User: "alice"},
			Finish: tc.finish, HonourCtx: true, Latency: [3]time.Duration{2 * time.Millisecond, 2 * time.Millisecond, 2 * time.Millisecond}}
		c.Rules = c34ExactRules(c.Req, tc.out)
		c.derive()
		for i := 0; i < 3; i++ {
			if msg := c34RunOnce(c); msg != "" {
				t.Fatalf("%s\nrequest %+v forced order %v", msg, c.Req, c.Finish)
			}
		}
	}
}

// TestVerifC34Authorize is the generated search.  In the unit built with -race the race
// detector fails the test by itself if any of the executed interleavings races.
func TestVerifC34Authorize(t *testing.T) {
	unit := "authz"
	if c34RaceBuild() {
		unit = "authz-race"
	}
	c34Property(t, unit)
}
