package storage_test

// C32 — flow aggregation conserves counts and emits each window once.
//
// Real code: storage.BucketRing driven exactly the way goldmane.go drives it (AddFlow, Rollover(sink),
// EmitFlowCollections(sink) when a sink is attached, List / Statistics with absolute non-zero time
// bounds gte < lt).
//
// Oracle: a multiset model bucketed by interval.  A flow is accepted iff its start time lies in the
// ring's declared history [BeginningOfHistory, EndOfHistory); it is counted in the one bucket that
// contains its start time; a bucket is retained while its start >= BeginningOfHistory.
//   * List / Statistics / NumFlows over a range == model sums over the retained buckets of the range
//     (exact when the range is bucket aligned; for unaligned bounds the statement does not say whether a
//     partially covered bucket counts, so only "between fully-covered and touched buckets" is required).
//   * every FlowCollection handed to the sink is a window of buckets, disjoint from every window emitted
//     before, and contains, per key, exactly the sum of all flows accepted so far in that window.

import (
	"fmt"
	"sort"
	"strings"
	"testing"
	"time"
	"unique"

	"github.com/sirupsen/logrus"
	"pgregory.net/rapid"

	"github.com/projectcalico/calico/goldmane/pkg/storage"
	"github.com/projectcalico/calico/goldmane/pkg/types"
	"github.com/projectcalico/calico/goldmane/proto"
	"github.com/projectcalico/calico/verifkit/ev"
)

type c32Sums struct {
	PIn, POut, BIn, BOut, Started, Completed, Live int64
	N                                              int // number of flow records
}

func (s *c32Sums) add(o c32Sums) {
	s.PIn += o.PIn
	s.POut += o.POut
	s.BIn += o.BIn
	s.BOut += o.BOut
	s.Started += o.Started
	s.Completed += o.Completed
	s.Live += o.Live
	s.N += o.N
}

func (s c32Sums) stats() [7]int64 {
	return [7]int64{s.PIn, s.POut, s.BIn, s.BOut, s.Started, s.Completed, s.Live}
}

func c32FlowStats(f *types.Flow) [7]int64 {
	return [7]int64{f.PacketsIn, f.PacketsOut, f.BytesIn, f.BytesOut, f.NumConnectionsStarted, f.NumConnectionsCompleted, f.NumConnectionsLive}
}

type c32Hit struct {
	policy string
	action proto.Action
}

type c32KeyDef struct {
	key  *types.FlowKey
	hits []c32Hit // distinct policies this key's enforced + pending traces hit, each with its action
}

// c32Keys: 4 flow keys.  k0/k1 hit a single policy (allow / deny).  k2/k3 come through a tiered trace:
// policy "pz" in tier "sec" passes to the next tier, where "p1" allows; k3 additionally carries a pending
// trace (the same pass hit, then a staged policy "stg" that would deny).
func c32Keys() []c32KeyDef {
	hit := func(kind proto.PolicyKind, tier, name string, act proto.Action, idx int64) *proto.PolicyHit {
		return &proto.PolicyHit{Kind: kind, Namespace: "ns1", Name: name, Tier: tier, Action: act, PolicyIndex: idx}
	}
	cnp := proto.PolicyKind_CalicoNetworkPolicy
	mk := func(src, dst, dns string, rep proto.Reporter, act proto.Action, trace *proto.PolicyTrace, hits ...c32Hit) c32KeyDef {
		k := types.NewFlowKey(
			&types.FlowKeySource{SourceName: src, SourceNamespace: "ns1", SourceType: proto.EndpointType_WorkloadEndpoint},
			&types.FlowKeyDestination{DestName: dst, DestNamespace: dns, DestType: proto.EndpointType_WorkloadEndpoint, DestPort: 80},
			&types.FlowKeyMeta{Proto: "tcp", Reporter: rep, Action: act},
			trace,
		)
		return c32KeyDef{key: k, hits: hits}
	}
	return []c32KeyDef{
		mk("src-a", "dst-a", "ns1", proto.Reporter_Dst, proto.Action_Allow,
			&proto.PolicyTrace{EnforcedPolicies: []*proto.PolicyHit{hit(cnp, "default", "p0", proto.Action_Allow, 0)}},
			c32Hit{"p0", proto.Action_Allow}),
		mk("src-b", "dst-a", "ns1", proto.Reporter_Src, proto.Action_Deny,
			&proto.PolicyTrace{EnforcedPolicies: []*proto.PolicyHit{hit(cnp, "default", "p0", proto.Action_Deny, 0)}},
			c32Hit{"p0", proto.Action_Deny}),
		mk("src-a", "dst-b", "ns2", proto.Reporter_Dst, proto.Action_Allow,
			&proto.PolicyTrace{EnforcedPolicies: []*proto.PolicyHit{
				hit(cnp, "sec", "pz", proto.Action_Pass, 0), hit(cnp, "default", "p1", proto.Action_Allow, 1)}},
			c32Hit{"pz", proto.Action_Pass}, c32Hit{"p1", proto.Action_Allow}),
		mk("src-c", "dst-c", "ns2", proto.Reporter_Src, proto.Action_Allow,
			&proto.PolicyTrace{
				EnforcedPolicies: []*proto.PolicyHit{
					hit(cnp, "sec", "pz", proto.Action_Pass, 0), hit(cnp, "default", "p1", proto.Action_Allow, 1)},
				PendingPolicies: []*proto.PolicyHit{
					hit(cnp, "sec", "pz", proto.Action_Pass, 0), hit(proto.PolicyKind_StagedNetworkPolicy, "default", "stg", proto.Action_Deny, 1)}},
			c32Hit{"pz", proto.Action_Pass}, c32Hit{"p1", proto.Action_Allow}, c32Hit{"stg", proto.Action_Deny}),
	}
}

var c32Policies = []string{"p0", "p1", "pz", "stg"}

type c32Sink struct{ got []*storage.FlowCollection }

func (s *c32Sink) Receive(c *storage.FlowCollection) { s.got = append(s.got, c) }
func (s *c32Sink) take() []*storage.FlowCollection {
	g := s.got
	s.got = nil
	return g
}

type c32Model struct {
	interval int64
	keys     []c32KeyDef
	buckets  map[int64]map[int]*c32Sums // bucket start -> key index -> sums (retained buckets only)
	emitted  [][2]int64                 // every window ever handed to the sink
}

func (m *c32Model) keyIndex(k *types.FlowKey) int {
	for i := range m.keys {
		if *m.keys[i].key == *k {
			return i
		}
	}
	return -1
}

func (m *c32Model) bucketOf(t, boh int64) int64 {
	return boh + ((t-boh)/m.interval)*m.interval
}

func (m *c32Model) sortedStarts() []int64 {
	var ss []int64
	for s := range m.buckets {
		ss = append(ss, s)
	}
	sort.Slice(ss, func(i, j int) bool { return ss[i] < ss[j] })
	return ss
}

// sumKeys returns per-key sums over the buckets fully inside [lo,hi) (inner) and over the buckets that
// intersect [lo,hi) (outer).  For a bucket aligned range both are the same.
func (m *c32Model) sumKeys(lo, hi int64) (inner, outer map[int]c32Sums) {
	inner, outer = map[int]c32Sums{}, map[int]c32Sums{}
	for _, s := range m.sortedStarts() {
		e := s + m.interval
		for ki, v := range m.buckets[s] {
			if s >= lo && e <= hi {
				x := inner[ki]
				x.add(*v)
				inner[ki] = x
			}
			if e > lo && s < hi {
				x := outer[ki]
				x.add(*v)
				outer[ki] = x
			}
		}
	}
	return
}

func (m *c32Model) covered(s int64) bool {
	for _, w := range m.emitted {
		if s >= w[0] && s < w[1] {
			return true
		}
	}
	return false
}

func c32Fmt(m map[int]c32Sums) string {
	var ks []int
	for k := range m {
		ks = append(ks, k)
	}
	sort.Ints(ks)
	var sb strings.Builder
	for _, k := range ks {
		fmt.Fprintf(&sb, "k%d:%v(n=%d) ", k, m[k].stats(), m[k].N)
	}
	return sb.String()
}

func (m *c32Model) dump() string {
	var sb strings.Builder
	for _, s := range m.sortedStarts() {
		cp := map[int]c32Sums{}
		for k, v := range m.buckets[s] {
			cp[k] = *v
		}
		fmt.Fprintf(&sb, "  bucket[%d,%d): %s\n", s, s+m.interval, c32Fmt(cp))
	}
	fmt.Fprintf(&sb, "  emitted windows: %v\n", m.emitted)
	return sb.String()
}

// checkFlows compares a list of aggregated flows (one per key) against the model's sandwich.
func (m *c32Model) checkFlows(t *rapid.T, what string, flows []*types.Flow, inner, outer map[int]c32Sums) {
	seen := map[int]bool{}
	for _, f := range flows {
		ki := m.keyIndex(f.Key)
		if ki < 0 {
			t.Fatalf("%s: returned a flow with a key that was never added: %v", what, f.Key.Fields())
		}
		if seen[ki] {
			t.Fatalf("%s: key k%d returned twice", what, ki)
		}
		seen[ki] = true
		got := c32FlowStats(f)
		lo, hi := inner[ki].stats(), outer[ki].stats()
		for i := range got {
			if got[i] < lo[i] || got[i] > hi[i] {
				t.Fatalf("%s: key k%d counters %v, model requires between %v and %v\n(fields: pktIn pktOut bytesIn bytesOut started completed live)\nmodel:\n%s",
					what, ki, got, lo, hi, m.dump())
			}
		}
		if _, ok := outer[ki]; !ok {
			t.Fatalf("%s: key k%d returned but the model has no accepted retained flow for it in range\nmodel:\n%s", what, ki, m.dump())
		}
	}
	var iks []int
	for ki := range inner {
		iks = append(iks, ki)
	}
	sort.Ints(iks)
	for _, ki := range iks {
		// a key whose accepted flows sum to zero in every field contributes nothing to any sum: the
		// statement does not say whether it has to be listed
		if !seen[ki] && inner[ki].stats() != ([7]int64{}) {
			t.Fatalf("%s: key k%d missing; model has %v in range\nmodel:\n%s", what, ki, inner[ki].stats(), m.dump())
		}
	}
}

type c32PolAgg struct{ allow, deny, pass int64 }

func (a c32PolAgg) zero() bool { return a == c32PolAgg{} }

// polSums aggregates per policy name, by the action of the key's hit on that policy: total packets in+out
// (PacketCount), bytes in+out (ByteCount) or live connections (LiveConnectionCount).
func (m *c32Model) polSums(per map[int]c32Sums, typ proto.StatisticType) map[string]c32PolAgg {
	out := map[string]c32PolAgg{}
	for ki, s := range per {
		var v int64
		switch typ {
		case proto.StatisticType_PacketCount:
			v = s.PIn + s.POut
		case proto.StatisticType_ByteCount:
			v = s.BIn + s.BOut
		case proto.StatisticType_LiveConnectionCount:
			v = s.Live
		}
		for _, h := range m.keys[ki].hits {
			a := out[h.policy]
			switch h.action {
			case proto.Action_Allow:
				a.allow += v
			case proto.Action_Deny:
				a.deny += v
			case proto.Action_Pass:
				a.pass += v
			}
			out[h.policy] = a
		}
	}
	return out
}

func c32At(xs []int64, i int) int64 {
	if i < len(xs) {
		return xs[i]
	}
	return 0
}

var c32StatTypes = []proto.StatisticType{proto.StatisticType_PacketCount, proto.StatisticType_ByteCount, proto.StatisticType_LiveConnectionCount}

var c32SlotNames = [6]string{"AllowedIn", "AllowedOut", "DeniedIn", "DeniedOut", "PassedIn", "PassedOut"}

func c32Slots(r *proto.StatisticsResult) [6][]int64 {
	return [6][]int64{r.AllowedIn, r.AllowedOut, r.DeniedIn, r.DeniedOut, r.PassedIn, r.PassedOut}
}

// checkStats issues the Statistics query both aggregated and as a time series for the same range, type and
// grouping, and checks
//   - time series: one point per bucket, each equal to that bucket's model sums (allowed / denied / passed
//     totals, in+out) — "counted in exactly one time bucket";
//   - aggregated: allowed / denied / passed totals equal the model sums over the range (sandwich for
//     unaligned bounds);
//   - aggregated == element-wise sum of the time series for each of the six result slots separately (the two
//     answers are sums of the same accepted flows over the same buckets, whatever the in/out convention).
// `series` only selects which of the two is issued first.
func (m *c32Model) checkStats(t *rapid.T, ring *storage.BucketRing, gte, lt int64, typ proto.StatisticType, series bool) (errored bool) {
	query := func(ts bool) ([]*proto.StatisticsResult, error) {
		return ring.Statistics(&proto.StatisticsRequest{
			StartTimeGte: gte, StartTimeLt: lt, Type: typ, GroupBy: proto.StatisticsGroupBy_Policy, TimeSeries: ts,
		})
	}
	r1, err1 := query(series)
	r2, err2 := query(!series)
	if (err1 != nil) != (err2 != nil) {
		t.Fatalf("Statistics(gte=%d lt=%d type=%v): time-series=%v returned err=%v but time-series=%v returned err=%v", gte, lt, typ, series, err1, !series, err2)
	}
	if err1 != nil {
		return true
	}
	agg, ts := r1, r2
	if series {
		agg, ts = r2, r1
	}
	byName := func(what string, res []*proto.StatisticsResult) map[string]*proto.StatisticsResult {
		out := map[string]*proto.StatisticsResult{}
		for _, r := range res {
			name := r.Policy.GetName()
			if out[name] != nil {
				t.Fatalf("%s: policy %s returned twice", what, name)
			}
			known := false
			for _, p := range c32Policies {
				known = known || p == name
			}
			if !known {
				t.Fatalf("%s: result for a policy %q that no accepted flow hit", what, name)
			}
			out[name] = r
		}
		return out
	}

	// ---- aggregated answer vs model
	what := fmt.Sprintf("Statistics(gte=%d lt=%d type=%v series=false)", gte, lt, typ)
	aggBy := byName(what, agg)
	inner, outer := m.sumKeys(gte, lt)
	pin, pout := m.polSums(inner, typ), m.polSums(outer, typ)
	for _, name := range c32Policies {
		r := aggBy[name]
		if r == nil {
			if !pin[name].zero() {
				t.Fatalf("%s: policy %s missing; model has %+v\nmodel:\n%s", what, name, pin[name], m.dump())
			}
			continue
		}
		sl := c32Slots(r)
		for i := range sl {
			if len(sl[i]) > 1 {
				t.Fatalf("%s: policy %s %s has %d values in an aggregated answer", what, name, c32SlotNames[i], len(sl[i]))
			}
		}
		got := c32PolAgg{c32At(sl[0], 0) + c32At(sl[1], 0), c32At(sl[2], 0) + c32At(sl[3], 0), c32At(sl[4], 0) + c32At(sl[5], 0)}
		lo, hi := pin[name], pout[name]
		if got.allow < lo.allow || got.allow > hi.allow || got.deny < lo.deny || got.deny > hi.deny || got.pass < lo.pass || got.pass > hi.pass {
			t.Fatalf("%s: policy %s allowed=%d denied=%d passed=%d (in+out); model requires allowed in [%d,%d], denied in [%d,%d], passed in [%d,%d]\nmodel:\n%s",
				what, name, got.allow, got.deny, got.pass, lo.allow, hi.allow, lo.deny, hi.deny, lo.pass, hi.pass, m.dump())
		}
	}

	// ---- time series vs model: one data point per bucket, each equal to that bucket's model sums
	what = fmt.Sprintf("Statistics(gte=%d lt=%d type=%v series=true)", gte, lt, typ)
	tsBy := byName(what, ts)
	seenX := map[string]map[int64]bool{}
	for _, name := range c32Policies {
		r := tsBy[name]
		if r == nil {
			continue
		}
		seenX[name] = map[int64]bool{}
		sl := c32Slots(r)
		for i := range sl {
			if len(sl[i]) != len(r.X) {
				t.Fatalf("%s: policy %s has %d x values but %d %s values", what, name, len(r.X), len(sl[i]), c32SlotNames[i])
			}
		}
		for i, x := range r.X {
			if seenX[name][x] {
				t.Fatalf("%s: policy %s has two data points for x=%d", what, name, x)
			}
			seenX[name][x] = true
			per := map[int]c32Sums{}
			for ki, v := range m.buckets[x] {
				per[ki] = *v
			}
			want := m.polSums(per, typ)[name]
			got := c32PolAgg{sl[0][i] + sl[1][i], sl[2][i] + sl[3][i], sl[4][i] + sl[5][i]}
			if got != want {
				t.Fatalf("%s: policy %s point x=%d allowed=%d denied=%d passed=%d (in+out); model bucket has allowed=%d denied=%d passed=%d\nmodel:\n%s",
					what, name, x, got.allow, got.deny, got.pass, want.allow, want.deny, want.pass, m.dump())
			}
			if !got.zero() && !(x+m.interval > gte && x < lt) {
				t.Fatalf("%s: policy %s has a non-zero data point x=%d outside the requested range", what, name, x)
			}
		}
	}
	for _, s := range m.sortedStarts() {
		if !(s >= gte && s+m.interval <= lt) {
			continue
		}
		per := map[int]c32Sums{}
		for ki, v := range m.buckets[s] {
			per[ki] = *v
		}
		ps := m.polSums(per, typ)
		for _, name := range c32Policies {
			if !ps[name].zero() && !seenX[name][s] {
				t.Fatalf("%s: policy %s has no data point for bucket %d; model has %+v\nmodel:\n%s", what, name, s, ps[name], m.dump())
			}
		}
	}

	// ---- aggregated == sum of the time series, slot by slot
	for _, name := range c32Policies {
		var a, s6 [6]int64
		if r := aggBy[name]; r != nil {
			for i, sl := range c32Slots(r) {
				a[i] = c32At(sl, 0)
			}
		}
		if r := tsBy[name]; r != nil {
			for i, sl := range c32Slots(r) {
				for _, v := range sl {
					s6[i] += v
				}
			}
		}
		for i := range a {
			if a[i] != s6[i] {
				t.Fatalf("Statistics(gte=%d lt=%d type=%v) policy %s: aggregated %s=%d but the time series for the same range sums to %d (aggregated %v, time-series sums %v; slots %v)\nmodel:\n%s",
					gte, lt, typ, name, c32SlotNames[i], a[i], s6[i], a, s6, c32SlotNames, m.dump())
			}
		}
	}
	return false
}

func (m *c32Model) checkList(t *rapid.T, ring *storage.BucketRing, gte, lt int64, sortBy proto.SortBy) {
	req := &proto.FlowListRequest{StartTimeGte: gte, StartTimeLt: lt}
	if sortBy != proto.SortBy_Time {
		req.SortBy = []*proto.SortOption{{SortBy: sortBy}}
	}
	flows, _, err := ring.List(req)
	what := fmt.Sprintf("List(gte=%d lt=%d sort=%v)", gte, lt, sortBy)
	if err != nil {
		t.Fatalf("%s: unexpected error %v", what, err)
	}
	inner, outer := m.sumKeys(gte, lt)
	m.checkFlows(t, what, flows, inner, outer)
}

// checkEmissions validates the collections the sink received during one Rollover/EmitFlowCollections call.
func (m *c32Model) checkEmissions(t *rapid.T, cols []*storage.FlowCollection, boh int64, how string) (nonEmpty int) {
	for _, c := range cols {
		what := fmt.Sprintf("sink receipt [%d,%d) during %s", c.StartTime, c.EndTime, how)
		if c.StartTime >= c.EndTime || (c.StartTime-boh)%m.interval != 0 || (c.EndTime-boh)%m.interval != 0 {
			t.Fatalf("%s: not a window of whole buckets (interval %d, history starts %d)", what, m.interval, boh)
		}
		for _, w := range m.emitted {
			if c.StartTime < w[1] && w[0] < c.EndTime {
				t.Fatalf("%s: overlaps the window [%d,%d) that was already emitted — buckets emitted twice\nmodel:\n%s", what, w[0], w[1], m.dump())
			}
		}
		m.emitted = append(m.emitted, [2]int64{c.StartTime, c.EndTime})
		want, _ := m.sumKeys(c.StartTime, c.EndTime)
		var fl []*types.Flow
		for i := range c.Flows {
			fl = append(fl, &c.Flows[i])
		}
		m.checkFlows(t, what, fl, want, want)
		if len(c.Flows) > 0 {
			nonEmpty++
		}
	}
	return
}

// c32WalkLandsOnHead reports whether, on a ring where no bucket was pushed yet, EmitFlowCollections'
// backwards walk lands exactly on the head bucket (the arithmetic of the fixed finding
// c32-emit-walk-wraps-into-newest-buckets; used only to label cases).
func c32WalkLandsOnHead(n, pushAfter, agg int) bool { return (n-1-pushAfter)%agg == 0 }

type c32Cfg struct {
	N, Interval, PushAfter, Agg int
	Now                         int64
}

func c32DrawCfg(t *rapid.T) c32Cfg {
	var c c32Cfg
	c.Interval = rapid.SampledFrom([]int{1, 2, 5, 15}).Draw(t, "interval")
	c.N = rapid.IntRange(5, ev.Scale(12, 24)).Draw(t, "ringSize")
	c.PushAfter = rapid.IntRange(0, 3).Draw(t, "pushAfter")
	// the emission window [now-pushAfter-agg, now-pushAfter) must lie inside the n-1 past buckets
	maxAgg := c.N - 2 - c.PushAfter
	if maxAgg > 4 {
		maxAgg = 4
	}
	if maxAgg < 1 {
		c.PushAfter = 0
		maxAgg = c.N - 2
		if maxAgg > 4 {
			maxAgg = 4
		}
	}
	c.Agg = rapid.IntRange(1, maxAgg).Draw(t, "bucketsToAggregate")
	// daemon: start time is aligned to the interval (storage.GetStartTime)
	c.Now = (1_700_000_000/int64(c.Interval) + rapid.Int64Range(0, 1000).Draw(t, "nowOffset")) * int64(c.Interval)
	return c
}

// c32Guard bounds the work of one Rollover/EmitFlowCollections call without goroutines or clocks: while
// armed, logrus runs at debug level (output discarded, null formatter) and this hook counts the entries the
// call logs; a call that logs more than the limit is unwound with a panic and reported as non-terminating
// (the emission walk logs several entries per window it looks at, so a walk that never ends trips the limit
// within milliseconds instead of wedging the process).
type c32Guard struct {
	armed bool
	n     int
	limit int
}

type c32Hang struct{ entries int }

type c32NullFormatter struct{}

func (c32NullFormatter) Format(*logrus.Entry) ([]byte, error) { return nil, nil }

func (g *c32Guard) Levels() []logrus.Level { return logrus.AllLevels }
func (g *c32Guard) Fire(*logrus.Entry) error {
	if g.armed {
		g.n++
		if g.n > g.limit {
			g.armed = false
			panic(c32Hang{g.n})
		}
	}
	return nil
}

// install hooks the guard into the standard logger and returns the function that restores it.
func (g *c32Guard) install() func() {
	std := logrus.StandardLogger()
	oldHooks := std.ReplaceHooks(logrus.LevelHooks{})
	oldFmt := std.Formatter
	nh := logrus.LevelHooks{}
	nh.Add(g)
	std.ReplaceHooks(nh)
	std.SetFormatter(c32NullFormatter{})
	return func() {
		std.ReplaceHooks(oldHooks)
		std.SetFormatter(oldFmt)
		logrus.SetLevel(logrus.PanicLevel)
	}
}

// run executes f (one call into the ring) under the guard; onHang is called instead of wedging.
func (g *c32Guard) run(ringSize int, f func(), onHang func(entries int)) {
	g.n, g.limit, g.armed = 0, 2000+400*ringSize, true
	logrus.SetLevel(logrus.DebugLevel)
	defer func() {
		g.armed = false
		logrus.SetLevel(logrus.PanicLevel)
		if r := recover(); r != nil {
			if h, ok := r.(c32Hang); ok {
				onHang(h.entries)
				return
			}
			panic(r)
		}
	}()
	f()
}

func c32NewRing(c c32Cfg, clock *int64) *storage.BucketRing {
	return storage.NewBucketRing(c.N, c.Interval, c.Now,
		storage.WithPushAfter(c.PushAfter),
		storage.WithBucketsToAggregate(c.Agg),
		storage.WithNowFunc(func() time.Time { return time.Unix(*clock, 0) }),
	)
}

func TestVerifC32Ring(t *testing.T) {
	ev.Quiet()
	rec := ev.New("C32", "ring",
		"rapid state machine over storage.BucketRing (ring 5..12 buckets, interval 1/2/5/15 s, pushAfter 0..3, bucketsToAggregate 1..4: flows of 4 keys (single allow / deny policy hit; tiered pass-then-allow trace; the same plus a pending trace with a staged deny) whose 7 statistics fields are drawn independently incl. zero (all-zero, single-field e.g. live-connections-only, one-directional, full), start times in the current/future/late/oldest buckets and outside history, single and multi rollovers with or without sink, sink attach (EmitFlowCollections) and detach, List/Statistics/NumFlows over aligned and unaligned ranges, full per-bucket sweep at the end. Non-trivial = a late flow landed in a not-yet-emitted past bucket, a rollover evicted a non-empty bucket and the sink received >=1 non-empty window; distinct = op-kind sequence",
		"acceptance is defined by the ring's own BeginningOfHistory/EndOfHistory accessors",
		"for bounds that are not bucket aligned only the sandwich (fully covered buckets <= result <= touched buckets) is required",
		"Statistics results are compared as allowed/denied/passed totals (in+out) per policy for PacketCount, ByteCount and LiveConnectionCount, aggregated and as time series; and aggregated == sum of the time series for each of the six in/out slots separately (no in/out convention assumed)",
		"a key whose accepted flows sum to zero in every field may or may not be listed")
	defer rec.Write()
	guard := &c32Guard{}
	defer guard.install()()
	rapid.Check(t, func(t *rapid.T) {
		cfg := c32DrawCfg(t)
		I := int64(cfg.Interval)
		clock := cfg.Now
		ring := c32NewRing(cfg, &clock)
		m := &c32Model{interval: I, keys: c32Keys(), buckets: map[int64]map[int]*c32Sums{}}
		sink := &c32Sink{}
		var cur storage.Sink // nil = detached
		var ops []string
		classes := map[string]bool{}
		lateUnemitted, evictedData, emittedData := false, false, false
		nFlows := 0

		hist := func() (int64, int64) { return ring.BeginningOfHistory(), ring.EndOfHistory() }

		drawTime := func(t *rapid.T) (int64, string) {
			boh, eoh := hist()
			off := rapid.Int64Range(0, I-1).Draw(t, "offsetInBucket")
			switch rapid.SampledFrom([]string{"now", "now", "late", "late", "late", "future", "oldest", "beyond", "before", "edge"}).Draw(t, "timeClass") {
			case "now":
				return eoh - 2*I + off, "now"
			case "future":
				return eoh - I + off, "future"
			case "beyond":
				return eoh + rapid.Int64Range(0, 2*I).Draw(t, "beyondBy"), "beyond"
			case "before":
				return boh - rapid.Int64Range(1, 2*I).Draw(t, "beforeBy"), "before"
			case "oldest":
				return boh + off, "oldest"
			case "edge":
				return rapid.SampledFrom([]int64{boh, boh - 1, eoh - 1, eoh, eoh - I, eoh - I - 1}).Draw(t, "edge"), "edge"
			default:
				nb := (eoh - boh) / I
				b := rapid.Int64Range(0, nb-3).Draw(t, "lateBucket")
				return boh + b*I + off, "late"
			}
		}

		// Every statistics field is drawn on its own and may be zero: all-zero updates (a node reporting a
		// flow it still tracks), updates carrying a single field (e.g. an idle connection: only
		// NumConnectionsLive), one-directional traffic, and full updates.
		drawStats := func(t *rapid.T) ([7]int64, string) {
			var v [7]int64
			names := []string{"pktIn", "pktOut", "bytesIn", "bytesOut", "started", "completed", "live"}
			maxv := []int64{5, 5, 900, 900, 2, 2, 2}
			shape := rapid.SampledFrom([]string{"any", "any", "any", "single", "single", "zero"}).Draw(t, "statsShape")
			switch shape {
			case "zero":
			case "single":
				i := rapid.IntRange(0, 6).Draw(t, "onlyField")
				v[i] = rapid.Int64Range(1, maxv[i]).Draw(t, names[i])
				shape = "only-" + names[i]
			default:
				nz := 0
				for i := range v {
					if rapid.Bool().Draw(t, names[i]+"NonZero") {
						v[i] = rapid.Int64Range(1, maxv[i]).Draw(t, names[i])
						nz++
					}
				}
				shape = "mixed"
				if nz == 0 {
					shape = "zero"
				} else if nz == 7 {
					shape = "all-fields"
				}
			}
			return v, shape
		}

		addFlow := func(t *rapid.T, ki int, ts int64, class string) {
			boh, eoh := hist()
			st, statShape := drawStats(t)
			f := &types.Flow{
				Key:                     m.keys[ki].key,
				StartTime:               ts,
				EndTime:                 ts + rapid.Int64Range(0, I).Draw(t, "duration"),
				SourceLabels:            unique.Make("app=a,tier=x"),
				DestLabels:              unique.Make("app=b"),
				PacketsIn:               st[0],
				PacketsOut:              st[1],
				BytesIn:                 st[2],
				BytesOut:                st[3],
				NumConnectionsStarted:   st[4],
				NumConnectionsCompleted: st[5],
				NumConnectionsLive:      st[6],
			}
			ring.AddFlow(f)
			nFlows++
			if ts < boh || ts >= eoh {
				classes["flow-rejected-"+class] = true
				return
			}
			b := m.bucketOf(ts, boh)
			if m.buckets[b] == nil {
				m.buckets[b] = map[int]*c32Sums{}
			}
			classes["stats-"+statShape] = true
			if ki >= 2 {
				classes["trace-pass-then-allow"] = true
				if st[0] != st[1] || st[2] != st[3] {
					classes["trace-pass-asymmetric-in-out"] = true
				}
			}
			if ki == 3 {
				classes["trace-with-pending-hits"] = true
			}
			if m.buckets[b][ki] == nil {
				m.buckets[b][ki] = &c32Sums{}
				// the first update of a key in a bucket is the one that has to open the per-key window
				classes["first-in-bucket-stats-"+statShape] = true
			}
			m.buckets[b][ki].add(c32Sums{f.PacketsIn, f.PacketsOut, f.BytesIn, f.BytesOut, f.NumConnectionsStarted, f.NumConnectionsCompleted, f.NumConnectionsLive, 1})
			classes["flow-"+class] = true
			if b < eoh-2*I {
				if m.covered(b) {
					classes["late-into-emitted-window"] = true
				} else {
					lateUnemitted = true
					classes["late-into-unemitted-bucket"] = true
				}
			}
		}

		afterEmit := func(t *rapid.T, how string) {
			boh, _ := hist()
			cols := sink.take()
			if m.checkEmissions(t, cols, boh, how) > 0 {
				emittedData = true
				classes["emitted-window"] = true
			}
			if len(cols) > 1 {
				classes["several-windows-in-one-call"] = true
			}
		}

		guarded := func(t *rapid.T, what string, f func()) {
			guard.run(cfg.N, f, func(entries int) {
				t.Fatalf("%s did not terminate: it logged %d entries in one call (limit %d) — the emission walk does not stop (cfg %+v)\nmodel:\n%s",
					what, entries, guard.limit, cfg, m.dump())
			})
		}

		rollover := func(t *rapid.T) {
			if cur != nil {
				guarded(t, "Rollover(sink)", func() { ring.Rollover(cur) })
			} else {
				ring.Rollover(nil)
			}
			clock += I
			boh, _ := hist()
			for _, s := range m.sortedStarts() {
				if s < boh {
					if len(m.buckets[s]) > 0 {
						evictedData = true
						classes["evicted-data"] = true
						if !m.covered(s) {
							classes["evicted-never-emitted"] = true
						}
					}
					delete(m.buckets, s)
				}
			}
			afterEmit(t, "Rollover")
		}

		drawRange := func(t *rapid.T, inHistory bool) (int64, int64, bool) {
			boh, eoh := hist()
			nb := (eoh - boh) / I
			var a, b int64
			if inHistory {
				// both bounds inside [BeginningOfHistory, EndOfHistory): Statistics/NumFlows can resolve them
				a = rapid.Int64Range(0, nb-2).Draw(t, "rangeFromBucket")
				b = rapid.Int64Range(a+1, nb-1).Draw(t, "rangeToBucket")
			} else {
				a = rapid.Int64Range(-1, nb).Draw(t, "rangeFromBucket")
				b = rapid.Int64Range(a+1, nb+1).Draw(t, "rangeToBucket")
			}
			gte, lt := boh+a*I, boh+b*I
			aligned := true
			if I > 1 && rapid.IntRange(0, 3).Draw(t, "unaligned") == 0 {
				gte += rapid.Int64Range(0, I-1).Draw(t, "gteOff")
				lt -= rapid.Int64Range(0, I-1).Draw(t, "ltOff")
				aligned = (gte-boh)%I == 0 && (lt-boh)%I == 0
				if gte >= lt {
					gte, lt = boh+a*I, boh+b*I
					aligned = true
				}
			}
			return gte, lt, aligned
		}

		t.Repeat(map[string]func(*rapid.T){
			"addFlow": func(t *rapid.T) {
				ts, class := drawTime(t)
				addFlow(t, rapid.IntRange(0, 3).Draw(t, "key"), ts, class)
				ops = append(ops, "a")
			},
			"addBurst": func(t *rapid.T) {
				ts, class := drawTime(t)
				n := rapid.IntRange(2, 4).Draw(t, "burst")
				for i := 0; i < n; i++ {
					addFlow(t, rapid.IntRange(0, 3).Draw(t, "key"), ts, class)
				}
				ops = append(ops, "b")
			},
			"rollover": func(t *rapid.T) {
				rollover(t)
				ops = append(ops, "r")
			},
			"rolloverMany": func(t *rapid.T) {
				n := rapid.IntRange(2, cfg.N).Draw(t, "rollovers")
				for i := 0; i < n; i++ {
					rollover(t)
				}
				ops = append(ops, "R")
			},
			"sinkToggle": func(t *rapid.T) {
				// goldmane.go: a.sink = req.sink; a.flowStore.EmitFlowCollections(a.sink)
				if cur == nil {
					cur = sink
					classes["sink-attach"] = true
					ops = append(ops, "S")
				} else {
					cur = nil
					classes["sink-detach"] = true
					ops = append(ops, "s")
				}
				guarded(t, "EmitFlowCollections(sink)", func() { ring.EmitFlowCollections(cur) })
				afterEmit(t, "EmitFlowCollections on sink change")
			},
			"list": func(t *rapid.T) {
				gte, lt, aligned := drawRange(t, rapid.Bool().Draw(t, "inHistory"))
				sb := rapid.SampledFrom([]proto.SortBy{proto.SortBy_Time, proto.SortBy_Time, proto.SortBy_DestName, proto.SortBy_SourceNamespace}).Draw(t, "sortBy")
				m.checkList(t, ring, gte, lt, sb)
				if !aligned {
					classes["query-unaligned"] = true
				}
				ops = append(ops, "l")
			},
			"stats": func(t *rapid.T) {
				gte, lt, aligned := drawRange(t, rapid.IntRange(0, 4).Draw(t, "anyRange") != 0)
				if m.checkStats(t, ring, gte, lt, rapid.SampledFrom(c32StatTypes).Draw(t, "statType"), rapid.Bool().Draw(t, "series")) {
					classes["stats-range-outside-history-error"] = true
				} else {
					classes["stats-ok"] = true
				}
				if !aligned {
					classes["query-unaligned"] = true
				}
				ops = append(ops, "q")
			},
			"numFlows": func(t *rapid.T) {
				gte, lt, _ := drawRange(t, true)
				boh, eoh := hist()
				if gte < boh || lt >= eoh {
					return // NumFlows cannot report the error it gets for bounds outside history
				}
				got := ring.NumFlows(gte, lt)
				inner, outer := m.sumKeys(gte, lt)
				maxN := 0
				for _, s := range outer {
					maxN += s.N
				}
				if got < len(inner) || got > maxN {
					t.Fatalf("NumFlows(%d,%d)=%d; model: %d distinct keys in fully covered buckets, %d flow records in touched buckets\nmodel:\n%s",
						gte, lt, got, len(inner), maxN, m.dump())
				}
				ops = append(ops, "n")
			},
		})

		// Final sweep: every retained bucket on its own (exactly-one-bucket), and the whole history.
		boh, eoh := hist()
		for s := boh; s < eoh; s += I {
			m.checkList(t, ring, s, s+I, proto.SortBy_Time)
		}
		m.checkList(t, ring, boh, eoh, proto.SortBy_DestName)
		if m.checkStats(t, ring, boh, eoh-I, proto.StatisticType_PacketCount, true) {
			t.Fatalf("Statistics over [BeginningOfHistory, start of newest bucket) = [%d,%d) returned an error", boh, eoh-I)
		}
		m.checkStats(t, ring, boh, eoh-I, proto.StatisticType_ByteCount, false)
		m.checkStats(t, ring, boh, eoh-I, proto.StatisticType_LiveConnectionCount, true)
		m.checkStats(t, ring, boh, eoh-I, proto.StatisticType_LiveConnectionCount, false)

		nontrivial := lateUnemitted && evictedData && emittedData
		var cl []string
		for c := range classes {
			cl = append(cl, c)
		}
		sort.Strings(cl)
		if c32WalkLandsOnHead(cfg.N, cfg.PushAfter, cfg.Agg) {
			cl = append(cl, "cfg-walk-lands-on-head")
			if cfg.N%cfg.Agg == 0 {
				cl = append(cl, "cfg-walk-lands-on-head-every-lap")
			}
		}
		if cfg.Agg == 1 {
			cl = append(cl, "cfg-single-bucket-windows")
		}
		rec.SizedCase(nontrivial, strings.Join(ops, ""), len(ops)+nFlows, func() any {
			return map[string]any{"cfg": cfg, "ops": strings.Join(ops, ""), "flows_added": nFlows, "windows_emitted": m.emitted}
		}, cl...)
	})
}

// TestVerifC32KnownWalkWraps is the deterministic regression test for the fixed finding
// c32-emit-walk-wraps-into-newest-buckets at the production ring size (242 buckets of 15 s):
//   - EMIT_AFTER_SECONDS=15 (pushAfter 1) with the default 5 m emitter window (20 buckets): (242-1-1)%20 == 0,
//     the walk used to wrap past the head, emit a premature window and then an overlapping one;
//   - EMITTER_AGGREGATION_WINDOW=15s (1 bucket per window) and 30s with pushAfter 1 (2 | 242): the walk
//     used to never terminate.
func TestVerifC32KnownWalkWraps(t *testing.T) {
	ev.Quiet()
	guard := &c32Guard{}
	defer guard.install()()
	for _, cfg := range []c32Cfg{
		{N: 242, Interval: 15, PushAfter: 1, Agg: 20, Now: 1_700_000_010},
		{N: 242, Interval: 15, PushAfter: 2, Agg: 1, Now: 1_700_000_010},
		{N: 242, Interval: 15, PushAfter: 1, Agg: 2, Now: 1_700_000_010},
	} {
		clock := cfg.Now
		ring := c32NewRing(cfg, &clock)
		keys := c32Keys()
		sink := &c32Sink{}
		eoh := ring.EndOfHistory()
		// one flow in the bucket that is currently filling ("now")
		ring.AddFlow(&types.Flow{Key: keys[0].key, StartTime: eoh - 2*15, EndTime: eoh - 2*15 + 1, PacketsIn: 1, BytesIn: 10,
			SourceLabels: unique.Make(""), DestLabels: unique.Make("")})
		var windows [][2]int64
		emit := func(what string, f func()) {
			guard.run(cfg.N, f, func(entries int) {
				t.Fatalf("cfg %+v: %s did not terminate (%d log entries in one call)", cfg, what, entries)
			})
			for _, c := range sink.take() {
				t.Logf("cfg %+v %s: sink received window [%d,%d) with %d flow(s)", cfg, what, c.StartTime, c.EndTime, len(c.Flows))
				if c.EndTime > ring.EndOfHistory()-int64(15*(2+cfg.PushAfter)) {
					t.Fatalf("cfg %+v: window [%d,%d) reaches into the %d newest buckets that are not yet due (history ends %d)",
						cfg, c.StartTime, c.EndTime, 2+cfg.PushAfter, ring.EndOfHistory())
				}
				for _, w := range windows {
					if c.StartTime < w[1] && w[0] < c.EndTime {
						t.Fatalf("cfg %+v: window [%d,%d) emitted although the overlapping window [%d,%d) was emitted before: the flow was sent to the sink twice",
							cfg, c.StartTime, c.EndTime, w[0], w[1])
					}
				}
				windows = append(windows, [2]int64{c.StartTime, c.EndTime})
			}
		}
		emit("EmitFlowCollections on a fresh ring", func() { ring.EmitFlowCollections(sink) })
		for i := 0; i < 25; i++ {
			emit(fmt.Sprintf("rollover %d", i+1), func() { ring.Rollover(sink) })
		}
		if len(windows) != 1 {
			t.Fatalf("cfg %+v: the flow was emitted in %d windows %v, want exactly one", cfg, len(windows), windows)
		}
	}
}
