package ipsets_test

// C16 — IP set sync converges and never breaks rules that use a set.
//
// The real felix/ipsets.IPSets is driven through generated histories against the ktsim
// `ipset` simulator (arbitrary starting kernel contents, failures injected into restore /
// list / destroy, out-of-band edits, restarts).  Oracles:
//   * per executed line (simulator observer): Felix never changes a set it does not own;
//     a set that is desired and existed when the call started is never absent, its
//     parameters change only on a `swap` line and that swap exposes exactly the desired
//     contents, and between such swaps its members stay between (old ∩ desired) and
//     (old ∪ desired);
//   * after every ApplyUpdates that returned: every desired set whose kernel contents were
//     not edited behind Felix's back since Felix last listed it equals the desired
//     type/parameters/members;
//   * after apply cycles were repeated until ApplyDeletions asked for no reschedule: no
//     Felix-owned set other than the desired ones remains, except ones whose destroy the
//     harness made fail (or that were created behind Felix's back) since Felix last listed them;
//   * after faults are cleared, a resync is queued and cycles repeated until quiet: the
//     Felix-owned part of the kernel equals the desired state exactly; foreign sets are
//     byte-identical throughout.

import (
	"fmt"
	"sort"
	"strings"
	"testing"
	"time"

	"pgregory.net/rapid"

	"github.com/projectcalico/calico/felix/ipsets"
	"github.com/projectcalico/calico/libcalico-go/lib/set"
	"github.com/projectcalico/calico/verifkit/ev"
	"github.com/projectcalico/calico/verifkit/ktsim"
)

// c16KnownTempLeak is the signature of a finding on the unchanged tree, see the final report:
// writeUpdates() returns on a stdin write error before it records the temporary set whose
// `create` line the tool may already have executed.
const c16KnownTempLeak = "c16-temp-set-leaked-after-restore-stdin-write-error"

// c16KnownMarkInherited: writeUpdates() stores the old set's metadata, including its
// DeleteFailed mark, for the temporary set even when the swap never happened.
const c16KnownMarkInherited = "c16-temp-set-inherits-delete-failed-mark"

type c16NoopRecorder struct{}

func (c16NoopRecorder) RecordOperation(string) {}

// c16SetDef binds a set ID to its type (real callers derive the ID from the type: the same
// ID never changes type) and gives the pool of member spellings used for it.
type c16SetDef struct {
	ID   string
	Type ipsets.IPSetType
	Pool []string // members of the plane's family, incl. alternative spellings
	Bad  []string // members of the other family (must be filtered out)
}

func c16Universe(v6 bool) []c16SetDef {
	if v6 {
		return []c16SetDef{
			{ID: "s:ipA", Type: ipsets.IPSetTypeHashIP,
				Pool: []string{"fd00::1", "fd00::2", "fd00::3", "fe80::1", "fd00:0:0:1::1", "FD00::2"},
				Bad:  []string{"10.0.0.1", "10.0.0.2"}},
			{ID: "s:netA", Type: ipsets.IPSetTypeHashNet,
				Pool: []string{"fd00::/64", "fd00:1::/64", "fd00::/48", "fd00::1/128", "fd00::1", "fd00::5/64"},
				Bad:  []string{"10.0.0.0/24"}},
			{ID: "n:ippA", Type: ipsets.IPSetTypeHashIPPort,
				Pool: []string{"fd00::1,tcp:80", "fd00::1,udp:80", "fd00::1,sctp:80", "fd00::2,tcp:8080", "fd00::3,udp:53"},
				Bad:  []string{"10.0.0.1,tcp:80"}},
			{ID: "s:qMt7iLlGDhvLnCjM0l9nzxbabcdefgh", Type: ipsets.IPSetTypeHashNet,
				Pool: []string{"fd00::/64", "fd00:2::/64", "fd00:3::/64", "fd00::9"},
				Bad:  []string{"10.9.0.0/16"}},
		}
	}
	return []c16SetDef{
		{ID: "s:ipA", Type: ipsets.IPSetTypeHashIP,
			Pool: []string{"10.0.0.1", "10.0.0.2", "10.0.0.3", "10.0.1.1", "192.168.0.7", "10.0.0.1/32"},
			Bad:  []string{"fe80::1", "fd00::2"}},
		{ID: "s:ipB", Type: ipsets.IPSetTypeHashIP,
			Pool: []string{"10.0.0.1", "10.0.0.2", "10.0.0.4", "172.16.0.1"},
			Bad:  []string{"fe80::1"}},
		{ID: "s:netA", Type: ipsets.IPSetTypeHashNet,
			Pool: []string{"10.0.0.0/24", "10.0.1.0/24", "10.0.0.0/16", "10.0.0.1/32", "10.0.0.1", "10.0.0.5/24", "192.168.0.0/30"},
			Bad:  []string{"fd00::/64"}},
		{ID: "n:ippA", Type: ipsets.IPSetTypeHashIPPort,
			Pool: []string{"10.0.0.1,tcp:80", "10.0.0.1,udp:80", "10.0.0.1,sctp:80", "10.0.0.2,tcp:8080", "10.0.0.3,udp:53"},
			Bad:  []string{"fe80::1,tcp:80"}},
		{ID: "s:qMt7iLlGDhvLnCjM0l9nzxbabcdefgh", Type: ipsets.IPSetTypeHashNet,
			Pool: []string{"10.9.0.0/16", "10.9.1.0/24", "10.9.2.0/24", "10.9.0.9"},
			Bad:  []string{"fd00:9::/64"}},
		{ID: "bm:ports", Type: ipsets.IPSetTypeBitmapPort,
			Pool: []string{"80", "443", "1000", "22", "53"}},
		{ID: "nn:A", Type: ipsets.IPSetTypeHashNetNet,
			Pool: []string{"10.0.0.0/24,10.1.0.0/16", "10.0.0.1/32,10.0.0.2/32", "10.0.0.0/24,10.0.1.0/24", "10.2.0.0/16,10.3.0.0/16"},
			Bad:  []string{"fd00::/64,fd01::/64"}},
	}
}

var c16MaxElems = []int{16, 1024, 65536}
var c16Ranges = [][2]int{{10, 1024}, {0, 65535}, {1, 2000}}

// c16Desired is the model of one set Felix has been told about.
type c16Desired struct {
	Def      c16SetDef
	MaxElem  int
	RangeMin int
	RangeMax int
	Members  map[string]bool // canonical (kernel listing) form
}

type c16H struct {
	t      *rapid.T
	v6     bool
	family string
	cfg    *ipsets.IPVersionConfig
	k      *ktsim.IPSetKernel
	s      *ipsets.IPSets
	uni    []c16SetDef

	all    map[string]*c16Desired // by set ID
	filter map[string]bool        // by main set name; nil = no filter

	foreign map[string]ktsim.IPSetSnap

	taint   map[string]bool // owned set edited behind Felix's back since Felix last listed it
	unknown map[string]bool // owned set created behind Felix's back since the last `list -name`
	exempt  map[string]bool // destroy of this set was made to fail since Felix last listed it
	// leaked: temp sets created by a restore session whose stdin broke (known finding
	// c16KnownTempLeak), not yet seen by a `list -name`.
	leaked      map[string]bool
	// inherited: temp sets created by a restore session that failed while a main set carried
	// Felix's "destroy failed, skip until resync" mark (known finding c16KnownMarkInherited).
	inherited   map[string]bool
	marked      map[string]bool // mirror of Felix's destroy-failed mark: any failed destroy since the set was last listed
	sessTemps   map[int][]string // restore CmdSeq -> temp sets it created
	rec         *ev.Recorder

	// per-call context for the line observer
	inCall      string
	ctxD        map[string]ktsim.IPSetSnap
	ctxK0       map[string]ktsim.IPSetSnap
	ctxCur      map[string]ktsim.IPSetSnap
	callFaults  int
	violations  []string
	swapPop     bool // a swap replaced a populated, desired set
	failLineGt1 bool // a restore session failed at a line > 1
	ops         []string
	classes     map[string]bool
}

// c16Owned is the harness's own statement of which names belong to this Felix plane
// (documented prefixes: current "cali<ver>", historic "felix-<ver>", plus the two legacy
// unversioned v4 names).
func (h *c16H) owned(name string) bool {
	ver := "4"
	if h.v6 {
		ver = "6"
	}
	if strings.HasPrefix(name, "cali"+ver) || strings.HasPrefix(name, "felix-"+ver) {
		return true
	}
	if !h.v6 && (strings.HasPrefix(name, "felix-masq-ipam-pools") || strings.HasPrefix(name, "felix-all-ipam-pools")) {
		return true
	}
	return false
}

func (h *c16H) mainName(id string) string { return h.cfg.NameForMainIPSet(id) }

func (h *c16H) canon(def c16SetDef, m string) string {
	fam := h.family
	c, err := ktsim.CanonIPSetMember(string(def.Type), fam, m)
	if err != nil {
		h.t.Fatalf("HARNESS-GAP: cannot canonicalise generated member %q of %s: %v", m, def.Type, err)
	}
	return c
}

// desiredSnaps returns the expected kernel image of every desired (told and not filtered
// out) set, keyed by main set name.
func (h *c16H) desiredSnaps() map[string]ktsim.IPSetSnap {
	out := map[string]ktsim.IPSetSnap{}
	for id, d := range h.all {
		name := h.mainName(id)
		if h.filter != nil && !h.filter[name] {
			continue
		}
		snap := ktsim.IPSetSnap{Name: name, Type: string(d.Def.Type)}
		if d.Def.Type == ipsets.IPSetTypeBitmapPort {
			snap.RangeMin, snap.RangeMax = d.RangeMin, d.RangeMax
		} else {
			snap.Family, snap.MaxElem = h.family, d.MaxElem
		}
		snap.Members = []string{}
		for m := range d.Members {
			snap.Members = append(snap.Members, m)
		}
		sort.Strings(snap.Members)
		out[name] = snap
	}
	return out
}

func c16Contains(ss []string, s string) bool {
	i := sort.SearchStrings(ss, s)
	return i < len(ss) && ss[i] == s
}

func (h *c16H) violate(format string, a ...any) {
	if len(h.violations) < 5 {
		h.violations = append(h.violations, fmt.Sprintf(format, a...))
	}
}

func (h *c16H) observe(k *ktsim.IPSetKernel, e *ktsim.IPSetEvent) {
	switch e.Cmd {
	case "external":
		return
	case "list":
		name := strings.TrimPrefix(e.Line, "list ")
		if e.Err == "" {
			h.taint[name] = false
			h.exempt[name] = false
			h.inherited[name] = false
			h.marked[name] = false
		} else if e.Cause == "semantic" && !k.Exists(name) {
			h.taint[name] = false
			h.exempt[name] = false
			h.marked[name] = false
		}
		if e.Cause == "injected" {
			h.callFaults++
		}
		return
	case "list-names":
		if e.Err == "" {
			for n := range h.unknown {
				h.unknown[n] = false
			}
			for n := range h.leaked {
				h.leaked[n] = false
			}
			for n, tainted := range h.taint {
				if tainted && !k.Exists(n) {
					h.taint[n] = false
				}
			}
		} else {
			h.callFaults++
		}
		return
	}
	// restore line or destroy command issued by Felix.
	if e.Err != "" {
		if e.Cause == "injected" {
			h.callFaults++
		}
		if strings.HasPrefix(e.Line, "destroy ") {
			// Any failed destroy makes Felix mark the set "skip until next resync".
			h.marked[strings.TrimPrefix(e.Line, "destroy ")] = true
		}
		if strings.HasPrefix(e.Line, "destroy ") && (e.Cause == "injected" || e.Cause == "extref") {
			h.exempt[strings.TrimPrefix(e.Line, "destroy ")] = true
		}
		if e.Cmd == "restore" && e.LineNo > 1 {
			h.failLineGt1 = true
		}
		if e.Cmd == "restore" {
			anyMarked := false
			for n, x := range h.marked {
				if x && !h.cfg.IsTempIPSetName(n) {
					anyMarked = true
				}
			}
			for _, n := range h.sessTemps[e.CmdSeq] {
				if !k.Exists(n) {
					continue
				}
				if e.Line == "<EOF after broken pipe>" {
					h.leaked[n] = true
				} else if anyMarked {
					h.inherited[n] = true
				}
			}
		}
		return
	}
	if e.Cmd == "restore" && strings.HasPrefix(e.Line, "create ") {
		if f := strings.Fields(e.Line); len(f) > 1 && h.cfg.IsTempIPSetName(f[1]) {
			h.sessTemps[e.CmdSeq] = append(h.sessTemps[e.CmdSeq], f[1])
		}
	}
	if f := strings.Fields(e.Line); len(f) == 3 && f[0] == "swap" {
		// The kernel object whose destroy was made to fail now lives under the other name;
		// Felix's "skip until next resync" mark legitimately follows it.
		h.exempt[f[1]], h.exempt[f[2]] = h.exempt[f[2]], h.exempt[f[1]]
	}
	for _, n := range e.Touched {
		if !h.owned(n) {
			h.violate("%s: Felix command %q changed set %q, which Felix does not own", h.inCall, e.Line, n)
			continue
		}
		if h.inCall == "" {
			continue
		}
		want, desired := h.ctxD[n]
		if !desired {
			continue
		}
		cur, exists := k.Get(n)
		if !exists {
			h.violate("%s: line %q destroyed set %q while it is desired", h.inCall, e.Line, n)
			continue
		}
		k0, had := h.ctxK0[n]
		if !had {
			continue // did not exist when the call started: nothing can be using it yet
		}
		prev := h.ctxCur[n]
		h.ctxCur[n] = cur
		if strings.HasPrefix(e.Line, "swap ") {
			if len(k0.Members) > 0 {
				h.swapPop = true
			}
			if !cur.Equal(want) {
				h.violate("%s: %q exposed an intermediate state of in-use set: now %v, desired %v", h.inCall, e.Line, cur, want)
			}
			continue
		}
		if !cur.SameParams(prev) || cur.Unlistable != prev.Unlistable {
			h.violate("%s: line %q changed parameters of existing desired set without a swap: %v -> %v", h.inCall, e.Line, prev, cur)
		}
		for _, m := range cur.Members {
			if !c16Contains(k0.Members, m) && !c16Contains(want.Members, m) {
				h.violate("%s: after %q set %s holds %q which is neither an old nor a desired member (old %v desired %v)", h.inCall, e.Line, n, m, k0.Members, want.Members)
			}
		}
		for _, m := range k0.Members {
			if c16Contains(want.Members, m) && !c16Contains(cur.Members, m) {
				h.violate("%s: after %q set %s lost member %q which is both old and desired (now %v)", h.inCall, e.Line, n, m, cur.Members)
			}
		}
	}
}

func (h *c16H) beginCall(what string) {
	h.inCall = what
	h.ctxD = h.desiredSnaps()
	h.ctxK0 = h.k.Snapshot()
	h.ctxCur = map[string]ktsim.IPSetSnap{}
	for n, s := range h.ctxK0 {
		h.ctxCur[n] = s
	}
	h.callFaults = 0
}

func (h *c16H) endCall() { h.inCall = "" }

func (h *c16H) failIfViolations() {
	if len(h.k.Gaps) > 0 {
		h.t.Fatalf("HARNESS-GAP: simulator could not interpret: %v", h.k.Gaps)
	}
	if len(h.violations) > 0 {
		h.t.Fatalf("C16 per-line invariant violated:\n  %s\nops=%v", strings.Join(h.violations, "\n  "), h.ops)
	}
}

func (h *c16H) newFelix() {
	h.s = ipsets.NewIPSetsWithShims(h.cfg, c16NoopRecorder{}, h.k.NewCmd, h.k.Sleep, h.k.Now)
	h.all = map[string]*c16Desired{}
	h.filter = nil
	h.exempt = map[string]bool{}
	h.marked = map[string]bool{}
}

// applyUpdates runs ApplyUpdates; returns false if it panicked with the documented
// "gave up after retries" panic (Felix would restart).
func (h *c16H) applyUpdates() (ok bool) {
	h.beginCall("ApplyUpdates")
	defer h.endCall()
	var pv any
	func() {
		defer func() { pv = recover() }()
		h.s.ApplyUpdates(nil)
	}()
	if pv == nil {
		return true
	}
	msg := fmt.Sprint(pv)
	if e, isEntry := pv.(interface{ String() (string, error) }); isEntry {
		if s, err := e.String(); err == nil {
			msg = s
		}
	}
	if !strings.Contains(msg, "Failed to update IP sets after multiple retries") {
		panic(pv)
	}
	if h.callFaults == 0 {
		h.failIfViolations()
		h.t.Fatalf("ApplyUpdates gave up (panic %q) although no failure was injected during the call; kernel=%v desired=%v ops=%v",
			msg, h.kernelOwned(), h.desiredSnaps(), h.ops)
	}
	return false
}

// trace renders the last simulator events for failure messages.
func (h *c16H) trace() string {
	lo := len(h.k.Log) - 60
	if lo < 0 {
		lo = 0
	}
	var b strings.Builder
	for _, e := range h.k.Log[lo:] {
		fmt.Fprintf(&b, "\n    %s#%d:%d %q", e.Cmd, e.CmdSeq, e.LineNo, e.Line)
		if e.Err != "" {
			fmt.Fprintf(&b, " ERR(%s) %s", e.Cause, e.Err)
		}
	}
	return b.String()
}

func (h *c16H) kernelOwned() []ktsim.IPSetSnap {
	var out []ktsim.IPSetSnap
	for _, n := range h.k.Names() {
		if h.owned(n) {
			s, _ := h.k.Get(n)
			out = append(out, s)
		}
	}
	return out
}

func (h *c16H) checkDesired(when string, ignoreTaint bool) {
	want := h.desiredSnaps()
	names := make([]string, 0, len(want))
	for n := range want {
		names = append(names, n)
	}
	sort.Strings(names)
	for _, n := range names {
		if h.taint[n] && !ignoreTaint {
			continue
		}
		got, ok := h.k.Get(n)
		if !ok {
			h.t.Fatalf("%s: desired set %s is missing from the kernel (want %v); ops=%v", when, n, want[n], h.ops)
		}
		if !got.Equal(want[n]) {
			h.t.Fatalf("%s: desired set differs:\n kernel  %v\n desired %v\nops=%v", when, got, want[n], h.ops)
		}
	}
}

func (h *c16H) checkForeign(when string) {
	for _, n := range h.k.Names() {
		if h.owned(n) {
			continue
		}
		if _, ok := h.foreign[n]; !ok {
			h.t.Fatalf("%s: foreign set %s appeared", when, n)
		}
	}
	for n, want := range h.foreign {
		got, ok := h.k.Get(n)
		if !ok {
			h.t.Fatalf("%s: foreign set %s was removed (was %v); ops=%v", when, n, want, h.ops)
		}
		if !got.Equal(want) {
			h.t.Fatalf("%s: foreign set changed:\n kernel %v\n was    %v\nops=%v", when, got, want, h.ops)
		}
	}
}

// checkLeftovers: no Felix-owned set other than the desired ones may remain, except excused ones.
func (h *c16H) checkLeftovers(when string, strict bool) {
	want := h.desiredSnaps()
	for _, n := range h.k.Names() {
		if !h.owned(n) {
			continue
		}
		if _, ok := want[n]; ok {
			continue
		}
		if !strict && (h.exempt[n] || h.unknown[n]) {
			continue
		}
		if !strict && h.leaked[n] && ev.Known(c16KnownTempLeak) {
			h.rec.Excluded(c16KnownTempLeak)
			continue
		}
		if !strict && h.inherited[n] && ev.Known(c16KnownMarkInherited) {
			h.rec.Excluded(c16KnownMarkInherited)
			continue
		}
		s, _ := h.k.Get(n)
		if h.inherited[n] && !h.leaked[n] {
			h.t.Fatalf("%s [%s]: temporary set %v was created by an `ipset restore` session that failed before its swap executed, while the set it was to replace carried Felix's destroy-failed mark; Felix copied that mark to the temp set, so it is skipped by every deletion pass until the next resync although no destroy of it ever failed; ops=%v\nlast events:%s",
				when, c16KnownMarkInherited, s, h.ops, h.trace())
		}
		if h.leaked[n] {
			h.t.Fatalf("%s [%s]: temporary set %v was created by an `ipset restore` session whose stdin then broke; ApplyUpdates retried and returned success but Felix never recorded the temp set, so it stays until the next name listing; ops=%v",
				when, c16KnownTempLeak, s, h.ops)
		}
		h.t.Fatalf("%s: Felix-owned set %v remains although it is not desired (exempt=%v unknown=%v ruleRefs=%v extRefs=%v); desired=%v ops=%v\nlast events:%s",
			when, s, h.exempt[n], h.unknown[n], h.k.RuleRefs, h.k.ExtRefs, want, h.ops, h.trace())
	}
}

// cycle = one int_dataplane apply(): ApplyUpdates, tables get (re)written, ApplyDeletions.
// Returns (reschedule requested, felix still alive).
func (h *c16H) cycle() (bool, bool) {
	if !h.applyUpdates() {
		h.failIfViolations()
		h.classes["gave-up-panic"] = true
		h.ops = append(h.ops, "PANIC")
		h.newFelix()
		return false, false
	}
	h.failIfViolations()
	h.checkDesired("after ApplyUpdates returned", false)
	// iptables/nftables tables are written now: rules reference exactly the desired sets.
	h.k.RuleRefs = map[string]bool{}
	for n := range h.desiredSnaps() {
		h.k.RuleRefs[n] = true
	}
	h.beginCall("ApplyDeletions")
	resched := h.s.ApplyDeletions()
	h.endCall()
	h.failIfViolations()
	h.checkDesired("after ApplyDeletions returned", false)
	h.checkForeign("after apply cycle")
	return resched, true
}

// quiesce repeats cycles until no reschedule is requested.
func (h *c16H) quiesce() bool {
	for i := 0; i < 120; i++ {
		resched, alive := h.cycle()
		if !alive {
			return false
		}
		if !resched {
			return true
		}
	}
	h.t.Fatalf("apply cycle still asks to be rescheduled after 120 iterations; kernel=%v desired=%v ops=%v", h.kernelOwned(), h.desiredSnaps(), h.ops)
	return false
}

func c16Subset(t *rapid.T, pool []string, label string) []string {
	var out []string
	mask := rapid.IntRange(0, (1<<len(pool))-1).Draw(t, label)
	for i, m := range pool {
		if mask&(1<<i) != 0 {
			out = append(out, m)
		}
	}
	return out
}

func TestVerifC16IPSetSync(t *testing.T) {
	ev.Quiet()
	rec := ev.New("C16", "ipsets",
		"rapid state machine over felix/ipsets.IPSets on the ktsim ipset simulator: generated starting kernel (foreign sets, stale/legacy/temp Felix sets, Felix sets with wrong parameters or unlistable revision, externally referenced sets), ops AddOrReplaceIPSet (maxelem/range changes), Add/RemoveMembers, RemoveIPSet, SetFilter, QueueResync, apply cycles (ApplyUpdates; rules reference desired sets; ApplyDeletions), out-of-band edits, faults in restore (pipe/start/pre/line k/write k/exit/close), list (pipe/start/rc/trunc/read) and destroy (transient / in use), restart. Non-trivial = a swap replaced a populated desired set, or a restore session failed at a line k>1; distinct = op-kind sequence",
		"a set ID never changes its IP set type (IDs are derived from the type by real callers; the kernel cannot swap sets of different type)",
		"between ApplyUpdates and ApplyDeletions the rules are rewritten successfully to reference exactly the desired sets",
		"out-of-band edits happen between Felix calls, not in the middle of one",
		"members stay within maxelem / the bitmap range")
	defer rec.Write()
	rapid.Check(t, func(t *rapid.T) {
		h := &c16H{t: t, classes: map[string]bool{}, rec: rec, leaked: map[string]bool{}, inherited: map[string]bool{}, marked: map[string]bool{}, sessTemps: map[int][]string{}}
		h.v6 = rapid.IntRange(0, 6).Draw(t, "plane") == 0
		h.family = "inet"
		fam := ipsets.IPFamilyV4
		legacy := []string{"felix-masq-ipam-pools", "felix-all-ipam-pools"}
		if h.v6 {
			h.family = "inet6"
			fam = ipsets.IPFamilyV6
			legacy = nil
			h.classes["plane-v6"] = true
		}
		// Same construction as felix/dataplane/driver.go.
		h.cfg = ipsets.NewIPVersionConfig(fam, "cali", []string{"felix-", "cali"}, legacy)
		h.uni = c16Universe(h.v6)
		h.k = ktsim.NewIPSetKernel()
		h.k.Tick = rapid.SampledFrom([]time.Duration{ipsets.BackgroundResyncTimeBudget, 30 * time.Millisecond, 0}).Draw(t, "tickPerClockRead")
		h.foreign = map[string]ktsim.IPSetSnap{}
		h.taint = map[string]bool{}
		h.unknown = map[string]bool{}
		ver, other := "4", "6"
		if h.v6 {
			ver, other = "6", "4"
		}

		// ---- starting kernel state
		type startSet struct{ name, create string; members []string }
		foreignCands := []startSet{
			{"kube-src", "hash:ip family inet maxelem 65536", []string{"10.0.0.1", "10.0.0.2"}},
			{"cali" + other + "0s:ipA", "hash:ip family inet maxelem 1024", []string{"10.0.0.1"}},
			{"cali" + other + "t0", "hash:net family inet maxelem 1024", []string{"10.0.0.0/24"}},
			{"calico-x", "hash:net family inet maxelem 65536", []string{"10.0.0.0/8"}},
			{"felix-other", "hash:ip family inet maxelem 65536", []string{"1.2.3.4"}},
			{"cali", "hash:ip,port family inet maxelem 65536", []string{"10.0.0.1,tcp:80"}},
			{"KUBE-PORTS", "bitmap:port range 0-65535", []string{"80"}},
			{"xcali" + ver + "0s:ipA", "hash:ip family inet maxelem 65536", []string{"10.0.0.9"}},
			{"my-felix-" + ver + "set", "hash:ip family inet maxelem 65536", nil},
		}
		if h.v6 {
			foreignCands = append(foreignCands, startSet{"felix-masq-ipam-pools", "hash:net family inet maxelem 65536", []string{"10.0.0.0/16"}})
		}
		for _, c := range foreignCands {
			if rapid.IntRange(0, 2).Draw(t, "foreign:"+c.name) == 0 {
				continue
			}
			h.k.MustExec("create " + c.name + " " + c.create)
			for _, m := range c.members {
				h.k.MustExec("add " + c.name + " " + m)
			}
			h.classes["start-foreign"] = true
		}
		staleCands := []startSet{
			{"cali" + ver + "0old", "hash:ip family " + h.family + " maxelem 65536", nil},
			{"cali" + ver + "-s:oldformat", "hash:ip family " + h.family + " maxelem 65536", nil},
			{"felix-" + ver + "old", "hash:net family " + h.family + " maxelem 1024", nil},
			{"cali" + ver + "t0", "hash:ip family " + h.family + " maxelem 1024", nil},
			{"cali" + ver + "t1", "hash:net family " + h.family + " maxelem 65536", nil},
			{"cali" + ver + "t7", "bitmap:port range 0-100", nil},
			{"cali" + ver + "0weird", "hash:mac maxelem 64", []string{"01:02:03:04:05:06"}},
		}
		if !h.v6 {
			staleCands = append(staleCands, startSet{"felix-masq-ipam-pools", "hash:net family inet maxelem 65536", []string{"10.0.0.0/16"}})
		}
		for _, c := range staleCands {
			switch rapid.IntRange(0, 4).Draw(t, "stale:"+c.name) {
			case 0, 1, 2:
				continue
			case 3:
			case 4:
				h.k.ExtRefs[c.name] = true
				h.classes["start-stale-extref"] = true
			}
			h.k.MustExec("create " + c.name + " " + c.create)
			for _, m := range c.members {
				h.k.MustExec("add " + c.name + " " + m)
			}
			h.classes["start-stale"] = true
			if strings.Contains(c.name, ver+"t") {
				h.classes["start-stale-temp"] = true
			}
		}
		for _, def := range h.uni {
			how := rapid.IntRange(0, 5).Draw(t, "startMain:"+def.ID)
			if how < 3 {
				continue
			}
			name := h.cfg.NameForMainIPSet(def.ID)
			if def.Type == ipsets.IPSetTypeBitmapPort {
				r := rapid.SampledFrom(c16Ranges).Draw(t, "startRange")
				h.k.MustExec(fmt.Sprintf("create %s %s range %d-%d", name, def.Type, r[0], r[1]))
			} else {
				me := rapid.SampledFrom(c16MaxElems).Draw(t, "startMaxElem")
				h.k.MustExec(fmt.Sprintf("create %s %s family %s maxelem %d", name, def.Type, h.family, me))
			}
			for _, m := range c16Subset(t, def.Pool, "startMembers") {
				_ = h.k.Exec("add " + name + " " + m + " -exist")
			}
			h.classes["start-main"] = true
			if how == 4 {
				h.k.SetUnlistable(name, true)
				h.classes["start-unlistable"] = true
			}
			if how == 5 {
				// rules left behind by the previous Felix still reference it
				h.k.RuleRefs[name] = true
				h.classes["start-ruleref"] = true
			}
		}
		for _, n := range h.k.Names() {
			if !h.owned(n) {
				s, _ := h.k.Get(n)
				h.foreign[n] = s
			}
		}
		h.k.Log = nil
		h.k.Observer = h.observe
		h.newFelix()

		pickDef := func(t *rapid.T) c16SetDef { return rapid.SampledFrom(h.uni).Draw(t, "set") }
		toldIDs := func() []string {
			ids := make([]string, 0, len(h.all))
			for id := range h.all {
				ids = append(ids, id)
			}
			sort.Strings(ids)
			return ids
		}
		ownedNames := func() []string {
			var out []string
			for _, n := range h.k.Names() {
				if h.owned(n) {
					out = append(out, n)
				}
			}
			sort.Strings(out)
			return out
		}
		filteredMembers := func(def c16SetDef, ms []string) (good []string) {
			bad := map[string]bool{}
			for _, b := range def.Bad {
				bad[b] = true
			}
			for _, m := range ms {
				if !bad[m] {
					good = append(good, m)
				}
			}
			return
		}

		t.Repeat(map[string]func(*rapid.T){
			"addOrReplace": func(t *rapid.T) {
				def := pickDef(t)
				d := &c16Desired{Def: def, Members: map[string]bool{}}
				meta := ipsets.IPSetMetadata{SetID: def.ID, Type: def.Type}
				if def.Type == ipsets.IPSetTypeBitmapPort {
					r := rapid.SampledFrom(c16Ranges).Draw(t, "range")
					d.RangeMin, d.RangeMax = r[0], r[1]
					meta.RangeMin, meta.RangeMax = r[0], r[1]
				} else {
					d.MaxElem = rapid.SampledFrom(c16MaxElems).Draw(t, "maxelem")
					meta.MaxSize = d.MaxElem
				}
				ms := c16Subset(t, append(append([]string{}, def.Pool...), def.Bad...), "members")
				for _, m := range filteredMembers(def, ms) {
					d.Members[h.canon(def, m)] = true
				}
				if old, ok := h.all[def.ID]; ok && (old.MaxElem != d.MaxElem || old.RangeMin != d.RangeMin || old.RangeMax != d.RangeMax) {
					h.classes["param-change"] = true
				}
				h.s.AddOrReplaceIPSet(meta, ms)
				h.all[def.ID] = d
				h.ops = append(h.ops, "R")
			},
			"addMembers": func(t *rapid.T) {
				ids := toldIDs()
				if len(ids) == 0 {
					t.Skip("no sets")
				}
				id := rapid.SampledFrom(ids).Draw(t, "id")
				d := h.all[id]
				ms := c16Subset(t, append(append([]string{}, d.Def.Pool...), d.Def.Bad...), "members")
				h.s.AddMembers(id, ms)
				for _, m := range filteredMembers(d.Def, ms) {
					d.Members[h.canon(d.Def, m)] = true
				}
				h.ops = append(h.ops, "a")
			},
			"removeMembers": func(t *rapid.T) {
				ids := toldIDs()
				if len(ids) == 0 {
					t.Skip("no sets")
				}
				id := rapid.SampledFrom(ids).Draw(t, "id")
				d := h.all[id]
				ms := c16Subset(t, append(append([]string{}, d.Def.Pool...), d.Def.Bad...), "members")
				h.s.RemoveMembers(id, ms)
				for _, m := range filteredMembers(d.Def, ms) {
					delete(d.Members, h.canon(d.Def, m))
				}
				h.ops = append(h.ops, "d")
			},
			"removeSet": func(t *rapid.T) {
				// Real callers may remove a set they never added only by bug; stick to known ids.
				ids := toldIDs()
				if len(ids) == 0 {
					t.Skip("no sets")
				}
				id := rapid.SampledFrom(ids).Draw(t, "id")
				h.s.RemoveIPSet(id)
				delete(h.all, id)
				h.ops = append(h.ops, "X")
			},
			"setFilter": func(t *rapid.T) {
				if rapid.IntRange(0, 2).Draw(t, "nilFilter") == 0 {
					h.s.SetFilter(nil)
					h.filter = nil
					h.ops = append(h.ops, "f")
					return
				}
				f := set.New[string]()
				h.filter = map[string]bool{}
				for _, def := range h.uni {
					if rapid.Bool().Draw(t, "need:"+def.ID) {
						n := h.mainName(def.ID)
						f.Add(n)
						h.filter[n] = true
					}
				}
				h.s.SetFilter(f)
				h.classes["filter"] = true
				h.ops = append(h.ops, "F")
			},
			"queueResync": func(t *rapid.T) {
				h.s.QueueResync()
				h.ops = append(h.ops, "q")
			},
			"applyCycle": func(t *rapid.T) {
				h.ops = append(h.ops, "A")
				h.cycle()
			},
			"applyUntilQuiet": func(t *rapid.T) {
				h.ops = append(h.ops, "Q")
				if h.quiesce() {
					h.checkLeftovers("after cycles until no reschedule", false)
				}
			},
			"externalEdit": func(t *rapid.T) {
				kind := rapid.IntRange(0, 6).Draw(t, "editKind")
				names := ownedNames()
				switch {
				case kind <= 2 && len(names) > 0: // add / del / flush members of an owned set
					n := rapid.SampledFrom(names).Draw(t, "name")
					snap, _ := h.k.Get(n)
					var def *c16SetDef
					for i := range h.uni {
						if h.mainName(h.uni[i].ID) == n && string(h.uni[i].Type) == snap.Type {
							def = &h.uni[i]
						}
					}
					if def == nil {
						t.Skip("not a universe set")
					}
					m := rapid.SampledFrom(def.Pool).Draw(t, "member")
					var err error
					switch kind {
					case 0:
						err = h.k.Exec("add " + n + " " + m + " -exist")
					case 1:
						err = h.k.Exec("del " + n + " " + m + " -exist")
					case 2:
						err = h.k.Exec("flush " + n)
					}
					if err == nil {
						h.taint[n] = true
						h.classes["ext-edit-members"] = true
					}
					h.ops = append(h.ops, "e")
				case kind == 3 && len(names) > 0: // destroy an owned set (refused if a rule uses it)
					n := rapid.SampledFrom(names).Draw(t, "name")
					if err := h.k.Exec("destroy " + n); err == nil {
						h.taint[n] = true
						h.classes["ext-destroy"] = true
					}
					h.ops = append(h.ops, "x")
				case kind == 4: // create a Felix-looking set behind Felix's back
					def := pickDef(t)
					n := rapid.SampledFrom([]string{h.mainName(def.ID), "cali" + ver + "t0", "cali" + ver + "t2", "cali" + ver + "0stale"}).Draw(t, "newName")
					var err error
					if def.Type == ipsets.IPSetTypeBitmapPort {
						err = h.k.Exec(fmt.Sprintf("create %s %s range 10-1024", n, def.Type))
					} else {
						err = h.k.Exec(fmt.Sprintf("create %s %s family %s maxelem 1024", n, def.Type, h.family))
					}
					if err == nil {
						_ = h.k.Exec("add " + n + " " + def.Pool[0])
						h.taint[n] = true
						h.unknown[n] = true
						h.classes["ext-create"] = true
					}
					h.ops = append(h.ops, "c")
				default: // edit a foreign set
					var fn []string
					for n := range h.foreign {
						fn = append(fn, n)
					}
					sort.Strings(fn)
					if len(fn) == 0 {
						t.Skip("no foreign sets")
					}
					n := rapid.SampledFrom(fn).Draw(t, "foreign")
					if h.foreign[n].Type == "hash:ip" {
						_ = h.k.Exec("add " + n + " 10.99.0." + fmt.Sprint(rapid.IntRange(1, 3).Draw(t, "o")) + " -exist")
					} else {
						_ = h.k.Exec("flush " + n)
					}
					h.foreign[n], _ = h.k.Get(n)
					h.ops = append(h.ops, "o")
				}
			},
			"injectRestoreFault": func(t *rapid.T) {
				kind := rapid.SampledFrom([]string{"line", "line", "line", "write", "exit", "pre", "pipe", "start", "close"}).Draw(t, "kind")
				n := rapid.SampledFrom([]int{1, 1, 1, 2, 3, 6, 11}).Draw(t, "times")
				for i := 0; i < n; i++ {
					h.k.RestoreFaults = append(h.k.RestoreFaults, ktsim.RestoreFault{Kind: kind, At: rapid.IntRange(1, 6).Draw(t, "at")})
				}
				h.classes["fault-restore-"+kind] = true
				if n >= 10 {
					h.classes["fault-persistent"] = true
				}
				h.ops = append(h.ops, "r")
			},
			"injectListFault": func(t *rapid.T) {
				kind := rapid.SampledFrom([]string{"rc", "trunc", "read", "pipe", "start"}).Draw(t, "kind")
				n := rapid.SampledFrom([]int{1, 1, 2, 4, 6, 11}).Draw(t, "times")
				for i := 0; i < n; i++ {
					h.k.ListFaults = append(h.k.ListFaults, ktsim.ListFault{Kind: kind, At: rapid.IntRange(0, 10).Draw(t, "at")})
				}
				h.classes["fault-list-"+kind] = true
				h.ops = append(h.ops, "l")
			},
			"injectDestroyFault": func(t *rapid.T) {
				if rapid.Bool().Draw(t, "transient") {
					h.k.DestroyFaults = append(h.k.DestroyFaults, true)
					h.classes["fault-destroy-transient"] = true
				} else {
					cands := append(ownedNames(), "cali"+ver+"t0", "cali"+ver+"t1")
					n := rapid.SampledFrom(cands).Draw(t, "inUseName")
					if h.k.ExtRefs[n] {
						delete(h.k.ExtRefs, n)
					} else {
						h.k.ExtRefs[n] = true
					}
					h.classes["fault-destroy-extref"] = true
				}
				h.ops = append(h.ops, "y")
			},
			"restart": func(t *rapid.T) {
				h.newFelix()
				h.classes["restart"] = true
				h.ops = append(h.ops, "Z")
			},
			"converge": func(t *rapid.T) {
				h.k.RestoreFaults, h.k.ListFaults, h.k.DestroyFaults = nil, nil, nil
				h.k.ExtRefs = map[string]bool{}
				h.ops = append(h.ops, "C")
				// A set whose destroy failed earlier is retried only after Felix re-lists that
				// name; a swap may have moved the marked object to a fresh temp name after the
				// names were listed, so allow a second (and third) fault-free resync round.
				for round := 0; round < 3; round++ {
					h.s.QueueResync()
					if !h.quiesce() {
						t.Fatalf("Felix gave up although all faults had been cleared; ops=%v", h.ops)
					}
					pending := false
					for _, n := range h.k.Names() {
						if h.owned(n) && (h.exempt[n] || h.inherited[n]) {
							pending = true
						}
					}
					if !pending {
						break
					}
					h.classes["converge-needed-extra-resync"] = true
				}
				h.checkDesired("after fault-free resync and cycles until quiet", true)
				h.checkLeftovers("after fault-free resync and cycles until quiet", true)
				h.checkForeign("after converge")
				h.classes["converged"] = true
			},
			"": func(t *rapid.T) {
				h.failIfViolations()
			},
		})

		nt := h.swapPop || h.failLineGt1
		if h.swapPop {
			h.classes["swap-populated"] = true
		}
		if h.failLineGt1 {
			h.classes["restore-failed-at-line>1"] = true
		}
		cls := make([]string, 0, len(h.classes))
		for c := range h.classes {
			cls = append(cls, c)
		}
		sort.Strings(cls)
		key := strings.Join(h.ops, "")
		rec.SizedCase(nt, key, len(h.ops), func() any {
			return map[string]any{"plane_v6": h.v6, "ops": key, "classes": cls, "final_owned": fmt.Sprint(h.kernelOwned())}
		}, cls...)
	})
}

// TestVerifC16KnownTempSetLeak is the deterministic confirmation of finding
// c16KnownTempLeak (it FAILS while the finding reproduces).  It is not matched by the unit's
// run regex; the driver runs it by name when the finding is listed in KNOWN_FINDINGS.json.
func TestVerifC16KnownTempSetLeak(t *testing.T) {
	ev.Quiet()
	k := ktsim.NewIPSetKernel()
	cfg := ipsets.NewIPVersionConfig(ipsets.IPFamilyV4, "cali", []string{"felix-", "cali"}, nil)
	main := cfg.NameForMainIPSet("s:ipA")
	k.MustExec("create "+main+" hash:ip family inet maxelem 1024", "add "+main+" 10.0.0.1")
	s := ipsets.NewIPSetsWithShims(cfg, c16NoopRecorder{}, k.NewCmd, k.Sleep, k.Now)
	// First get in sync (the start-of-day full resync would otherwise hide the problem, because
	// it is repeated on every retry until the first success).
	s.AddOrReplaceIPSet(ipsets.IPSetMetadata{SetID: "s:ipA", Type: ipsets.IPSetTypeHashIP, MaxSize: 1024}, []string{"10.0.0.1"})
	s.ApplyUpdates(nil)
	s.ApplyDeletions()
	// maxelem now differs from the kernel's: Felix must go through a temporary set and swap.
	s.AddOrReplaceIPSet(ipsets.IPSetMetadata{SetID: "s:ipA", Type: ipsets.IPSetTypeHashIP, MaxSize: 65536},
		[]string{"10.0.0.1", "10.0.0.2"})
	// stdin breaks on the 2nd line Felix writes (the tool has consumed "create cali4t0 …").
	k.RestoreFaults = []ktsim.RestoreFault{{Kind: "write", At: 2}}
	s.ApplyUpdates(nil) // retries internally and returns normally
	for i := 0; i < 10 && s.ApplyDeletions(); i++ {
		s.ApplyUpdates(nil)
	}
	got, _ := k.Get(main)
	if fmt.Sprint(got.Members) != "[10.0.0.1 10.0.0.2]" || got.MaxElem != 65536 {
		t.Fatalf("main set did not converge: %v", got)
	}
	var lines []string
	for _, e := range k.Log {
		if e.Cmd != "external" {
			lines = append(lines, fmt.Sprintf("%s#%d %q err=%q", e.Cmd, e.CmdSeq, e.Line, e.Err))
		}
	}
	if k.Exists("cali4t0") {
		t.Fatalf("%s: temp set cali4t0 still exists after ApplyUpdates+ApplyDeletions returned success; kernel sets=%v\ncommands:\n  %s",
			c16KnownTempLeak, k.Names(), strings.Join(lines, "\n  "))
	}
}

// TestVerifC16KnownMarkInherited is the deterministic confirmation of finding
// c16KnownMarkInherited (it FAILS while the finding reproduces).
func TestVerifC16KnownMarkInherited(t *testing.T) {
	ev.Quiet()
	k := ktsim.NewIPSetKernel()
	cfg := ipsets.NewIPVersionConfig(ipsets.IPFamilyV4, "cali", []string{"felix-", "cali"}, nil)
	main := cfg.NameForMainIPSet("s:ipA")
	s := ipsets.NewIPSetsWithShims(cfg, c16NoopRecorder{}, k.NewCmd, k.Sleep, k.Now)
	meta := ipsets.IPSetMetadata{SetID: "s:ipA", Type: ipsets.IPSetTypeHashIP, MaxSize: 1024}
	s.AddOrReplaceIPSet(meta, []string{"10.0.0.1"})
	s.ApplyUpdates(nil)
	s.ApplyDeletions()
	// The set is removed, but its destroy fails once (e.g. still referenced): Felix marks it
	// "destroy failed, skip until next resync".
	s.RemoveIPSet("s:ipA")
	s.ApplyUpdates(nil)
	k.DestroyFaults = []bool{true}
	s.ApplyDeletions()
	if !k.Exists(main) {
		t.Fatalf("set-up failed: %s should have survived the failed destroy", main)
	}
	// The set is wanted again; Felix goes through a temporary set because the stored metadata
	// (with the mark) differs from the desired metadata.  The restore session fails after the
	// temp set was created, before the swap.
	s.AddOrReplaceIPSet(meta, []string{"10.0.0.1", "10.0.0.2"})
	k.RestoreFaults = []ktsim.RestoreFault{{Kind: "line", At: 2}}
	s.ApplyUpdates(nil) // retries internally, returns normally
	for i := 0; i < 10 && s.ApplyDeletions(); i++ {
		s.ApplyUpdates(nil)
	}
	got, _ := k.Get(main)
	if fmt.Sprint(got.Members) != "[10.0.0.1 10.0.0.2]" {
		t.Fatalf("main set did not converge: %v", got)
	}
	var lines []string
	for _, e := range k.Log {
		lines = append(lines, fmt.Sprintf("%s#%d %q err=%q", e.Cmd, e.CmdSeq, e.Line, e.Err))
	}
	for _, n := range k.Names() {
		if cfg.IsTempIPSetName(n) {
			t.Fatalf("%s: temp set %s (never the target of a failed destroy) is still there after apply cycles ran until no reschedule was requested; commands:\n  %s",
				c16KnownMarkInherited, n, strings.Join(lines, "\n  "))
		}
	}
}
