package deltatracker_test

// C18 — desired-versus-actual tracking always reports the exact difference.
// Oracle: two plain maps (desired, dataplane) maintained by the harness; after every step
// all four views of the real tracker must equal the maps and their exact difference.

import (
	"errors"
	"fmt"
	"sort"
	"strings"
	"testing"

	"pgregory.net/rapid"

	"github.com/projectcalico/calico/felix/deltatracker"
	"github.com/projectcalico/calico/verifkit/ev"
)

type c18Val struct {
	N int
	S string
}

var c18Vals = []c18Val{{1, "a"}, {2, "b"}, {3, "c"}}

func c18Key(t *rapid.T, big bool) int {
	if big {
		return rapid.IntRange(0, 299).Draw(t, "k")
	}
	return rapid.IntRange(0, 3).Draw(t, "k")
}

func c18CheckViews(t *rapid.T, dt *deltatracker.DeltaTracker[int, c18Val], des, dp map[int]c18Val) {
	// Desired view.
	got := map[int]c18Val{}
	dt.Desired().Iter(func(k int, v c18Val) {
		if _, dup := got[k]; dup {
			t.Fatalf("Desired().Iter yielded key %d twice", k)
		}
		got[k] = v
	})
	c18MapsEqual(t, "Desired().Iter", got, des)
	if dt.Desired().Len() != len(des) {
		t.Fatalf("Desired().Len()=%d model %d", dt.Desired().Len(), len(des))
	}
	// Dataplane view.
	got = map[int]c18Val{}
	dt.Dataplane().Iter(func(k int, v c18Val) {
		if _, dup := got[k]; dup {
			t.Fatalf("Dataplane().Iter yielded key %d twice", k)
		}
		got[k] = v
	})
	c18MapsEqual(t, "Dataplane().Iter", got, dp)
	if dt.Dataplane().Len() != len(dp) {
		t.Fatalf("Dataplane().Len()=%d model %d", dt.Dataplane().Len(), len(dp))
	}
	// Exact difference.
	wantUpd := map[int]c18Val{}
	for k, v := range des {
		if dv, ok := dp[k]; !ok || dv != v {
			wantUpd[k] = v
		}
	}
	wantDel := map[int]c18Val{}
	for k, v := range dp {
		if _, ok := des[k]; !ok {
			wantDel[k] = v
		}
	}
	got = map[int]c18Val{}
	dt.PendingUpdates().Iter(func(k int, v c18Val) deltatracker.IterAction {
		got[k] = v
		return deltatracker.IterActionNoOp
	})
	c18MapsEqual(t, "PendingUpdates().Iter", got, wantUpd)
	if dt.PendingUpdates().Len() != len(wantUpd) {
		t.Fatalf("PendingUpdates().Len()=%d want %d", dt.PendingUpdates().Len(), len(wantUpd))
	}
	gotDel := map[int]c18Val{}
	dt.PendingDeletions().Iter(func(k int) deltatracker.IterAction {
		v, ok := dt.PendingDeletions().Get(k)
		if !ok {
			t.Fatalf("PendingDeletions().Iter yields %d but Get says absent", k)
		}
		gotDel[k] = v
		return deltatracker.IterActionNoOp
	})
	c18MapsEqual(t, "PendingDeletions().Iter", gotDel, wantDel)
	if dt.PendingDeletions().Len() != len(wantDel) {
		t.Fatalf("PendingDeletions().Len()=%d want %d", dt.PendingDeletions().Len(), len(wantDel))
	}
	if dt.InSync() != (len(wantUpd) == 0 && len(wantDel) == 0) {
		t.Fatalf("InSync()=%v but pending updates %v deletions %v", dt.InSync(), wantUpd, wantDel)
	}
	// Point lookups over the small key space and all keys in either model.
	keys := map[int]bool{0: true, 1: true, 2: true, 3: true}
	for k := range des {
		keys[k] = true
	}
	for k := range dp {
		keys[k] = true
	}
	for k := range keys {
		v, ok := dt.Desired().Get(k)
		mv, mok := des[k]
		if ok != mok || (ok && v != mv) {
			t.Fatalf("Desired().Get(%d)=%v,%v model %v,%v", k, v, ok, mv, mok)
		}
		v, ok = dt.Dataplane().Get(k)
		mv, mok = dp[k]
		if ok != mok || (ok && v != mv) {
			t.Fatalf("Dataplane().Get(%d)=%v,%v model %v,%v", k, v, ok, mv, mok)
		}
		v, ok = dt.PendingUpdates().Get(k)
		mv, mok = wantUpd[k]
		if ok != mok || (ok && v != mv) {
			t.Fatalf("PendingUpdates().Get(%d)=%v,%v want %v,%v", k, v, ok, mv, mok)
		}
		v, ok = dt.PendingDeletions().Get(k)
		mv, mok = wantDel[k]
		if ok != mok || (ok && v != mv) {
			t.Fatalf("PendingDeletions().Get(%d)=%v,%v want %v,%v", k, v, ok, mv, mok)
		}
	}
}

func c18MapsEqual(t *rapid.T, what string, got, want map[int]c18Val) {
	if len(got) != len(want) {
		t.Fatalf("%s: got %v want %v", what, got, want)
	}
	for k, v := range want {
		if gv, ok := got[k]; !ok || gv != v {
			t.Fatalf("%s: key %d got %v,%v want %v (got=%v want=%v)", what, k, gv, ok, v, got, want)
		}
	}
}

func TestVerifC18DeltaTracker(t *testing.T) {
	ev.Quiet()
	rec := ev.New("C18", "deltatracker",
		"rapid state machine over DeltaTracker[int,struct]: desired set/delete/deleteAll, dataplane set/delete/deleteAll/ReplaceAllMap/ReplaceAllIter(with mid-iteration error), PendingUpdates/PendingDeletions Iter with per-key actions and IterBatched with partial success; keys 0..3 plus bulk ranges up to 300 keys (>128 batch size). Non-trivial = an iteration step applied >=1 pending item to the dataplane view, or a ReplaceAllIter failed mid-way; distinct = distinct op-kind sequence",
		"values are comparable structs compared by DeepEqual (the tracker's default)")
	defer rec.Write()
	rapid.Check(t, func(t *rapid.T) {
		dt := deltatracker.New[int, c18Val]()
		des := map[int]c18Val{}
		dp := map[int]c18Val{}
		var ops []string
		nontrivial := false
		val := func(t *rapid.T) c18Val { return rapid.SampledFrom(c18Vals).Draw(t, "v") }
		t.Repeat(map[string]func(*rapid.T){
			"desSet": func(t *rapid.T) {
				k, v := c18Key(t, false), val(t)
				dt.Desired().Set(k, v)
				des[k] = v
				ops = append(ops, "S")
			},
			"desSetRange": func(t *rapid.T) {
				a := rapid.IntRange(0, 299).Draw(t, "a")
				n := rapid.IntRange(1, 300).Draw(t, "n")
				v := val(t)
				for k := a; k < a+n && k < 300; k++ {
					dt.Desired().Set(k, v)
					des[k] = v
				}
				ops = append(ops, "R")
			},
			"desDel": func(t *rapid.T) {
				k := c18Key(t, rapid.Bool().Draw(t, "big"))
				dt.Desired().Delete(k)
				delete(des, k)
				ops = append(ops, "D")
			},
			"desDelAll": func(t *rapid.T) {
				dt.Desired().DeleteAll()
				des = map[int]c18Val{}
				ops = append(ops, "X")
			},
			"dpSet": func(t *rapid.T) {
				k, v := c18Key(t, false), val(t)
				dt.Dataplane().Set(k, v)
				dp[k] = v
				ops = append(ops, "s")
			},
			"dpSetRange": func(t *rapid.T) {
				a := rapid.IntRange(0, 299).Draw(t, "a")
				n := rapid.IntRange(1, 300).Draw(t, "n")
				v := val(t)
				for k := a; k < a+n && k < 300; k++ {
					dt.Dataplane().Set(k, v)
					dp[k] = v
				}
				ops = append(ops, "r")
			},
			"dpDel": func(t *rapid.T) {
				k := c18Key(t, rapid.Bool().Draw(t, "big"))
				dt.Dataplane().Delete(k)
				delete(dp, k)
				ops = append(ops, "d")
			},
			"dpDelAll": func(t *rapid.T) {
				dt.Dataplane().DeleteAll()
				dp = map[int]c18Val{}
				ops = append(ops, "x")
			},
			"replaceAllMap": func(t *rapid.T) {
				m := rapid.MapOfN(rapid.IntRange(0, 5), rapid.SampledFrom(c18Vals), 0, 6).Draw(t, "m")
				cp := map[int]c18Val{}
				for k, v := range m {
					cp[k] = v
				}
				dt.Dataplane().ReplaceAllMap(m)
				dp = cp
				// "the input map is not modified or retained": mutate it afterwards.
				for k := range m {
					m[k] = c18Val{99, "mut"}
				}
				ops = append(ops, "M")
			},
			"replaceAllIter": func(t *rapid.T) {
				type kv struct {
					K int
					V c18Val
				}
				n := rapid.IntRange(0, 6).Draw(t, "n")
				var kvs []kv
				seen := map[int]bool{}
				for i := 0; i < n; i++ {
					k := rapid.IntRange(0, 5).Draw(t, "k")
					if seen[k] {
						continue
					}
					seen[k] = true
					kvs = append(kvs, kv{k, val(t)})
				}
				failAt := rapid.IntRange(-1, len(kvs)).Draw(t, "failAt")
				err := dt.Dataplane().ReplaceAllIter(func(f func(int, c18Val)) error {
					for i, e := range kvs {
						if i == failAt {
							return errors.New("injected")
						}
						f(e.K, e.V)
					}
					if failAt == len(kvs) {
						return errors.New("injected at end")
					}
					return nil
				})
				if failAt >= 0 {
					if err == nil {
						t.Fatalf("ReplaceAllIter swallowed the iterator's error")
					}
					// documented: partially updated with the keys already seen
					for i, e := range kvs {
						if i >= failAt {
							break
						}
						dp[e.K] = e.V
					}
					nontrivial = true
					ops = append(ops, "E")
				} else {
					if err != nil {
						t.Fatalf("ReplaceAllIter returned %v without iterator error", err)
					}
					dp = map[int]c18Val{}
					for _, e := range kvs {
						dp[e.K] = e.V
					}
					ops = append(ops, "I")
				}
			},
			"iterUpdates": func(t *rapid.T) {
				// per-key action decided up front so that map iteration order cannot matter
				acts := rapid.SliceOfN(rapid.IntRange(0, 2), 8, 8).Draw(t, "acts")
				applied := 0
				dt.PendingUpdates().Iter(func(k int, v c18Val) deltatracker.IterAction {
					a := deltatracker.IterAction(acts[k%8])
					if a == deltatracker.IterActionUpdateDataplane {
						dp[k] = v
						applied++
					}
					return a
				})
				if applied > 0 {
					nontrivial = true
				}
				ops = append(ops, fmt.Sprintf("U%d", min(applied, 2)))
			},
			"iterDeletions": func(t *rapid.T) {
				acts := rapid.SliceOfN(rapid.IntRange(0, 2), 8, 8).Draw(t, "acts")
				applied := 0
				dt.PendingDeletions().Iter(func(k int) deltatracker.IterAction {
					a := deltatracker.IterAction(acts[k%8])
					if a == deltatracker.IterActionUpdateDataplane {
						delete(dp, k)
						applied++
					}
					return a
				})
				if applied > 0 {
					nontrivial = true
				}
				ops = append(ops, fmt.Sprintf("L%d", min(applied, 2)))
			},
			"batchUpdates": func(t *rapid.T) {
				// applyFn reports how many of the batch it applied; the rest (after skipping
				// the failed one) are retried in later calls.
				okRuns := rapid.SliceOfN(rapid.IntRange(0, 140), 6, 6).Draw(t, "okRuns")
				call := 0
				applied := 0
				dt.PendingUpdates().IterBatched(func(ks []int, vs []c18Val) (int, error) {
					if len(ks) != len(vs) || len(ks) == 0 {
						t.Fatalf("IterBatched gave ks=%d vs=%d", len(ks), len(vs))
					}
					n := len(ks)
					var err error
					if call < len(okRuns) && okRuns[call] < n {
						n = okRuns[call]
						err = errors.New("injected")
					}
					call++
					for i := 0; i < n; i++ {
						if dv, ok := des[ks[i]]; !ok || dv != vs[i] {
							t.Fatalf("IterBatched offered %d=%v which is not the desired value %v,%v", ks[i], vs[i], dv, ok)
						}
						dp[ks[i]] = vs[i]
						applied++
					}
					return n, err
				})
				if applied > 0 {
					nontrivial = true
				}
				ops = append(ops, fmt.Sprintf("B%d", min(applied/100, 3)))
			},
			"batchDeletions": func(t *rapid.T) {
				okRuns := rapid.SliceOfN(rapid.IntRange(0, 140), 6, 6).Draw(t, "okRuns")
				call := 0
				applied := 0
				dt.PendingDeletions().IterBatched(func(ks []int) (int, error) {
					n := len(ks)
					var err error
					if call < len(okRuns) && okRuns[call] < n {
						n = okRuns[call]
						err = errors.New("injected")
					}
					call++
					for i := 0; i < n; i++ {
						if _, ok := dp[ks[i]]; !ok {
							t.Fatalf("IterBatched(deletions) offered key %d not in dataplane model", ks[i])
						}
						delete(dp, ks[i])
						applied++
					}
					return n, err
				})
				if applied > 0 {
					nontrivial = true
				}
				ops = append(ops, fmt.Sprintf("b%d", min(applied/100, 3)))
			},
			"": func(t *rapid.T) {
				c18CheckViews(t, dt, des, dp)
			},
		})
		key := strings.Join(ops, "")
		rec.SizedCase(nontrivial, key, len(ops), func() any { return map[string]any{"ops": key, "final_desired": len(des), "final_dataplane": len(dp)} })
	})
}

func TestVerifC18SetDeltaTracker(t *testing.T) {
	ev.Quiet()
	rec := ev.New("C18", "setdeltatracker",
		"rapid state machine over SetDeltaTracker[int]: desired add/delete/deleteAll, dataplane add/delete/deleteAll/ReplaceFromIter(with error), pending iterations with per-key actions. Non-trivial = iteration applied >=1 item; distinct = op-kind sequence")
	defer rec.Write()
	rapid.Check(t, func(t *rapid.T) {
		st := deltatracker.NewSetDeltaTracker[int]()
		des := map[int]bool{}
		dp := map[int]bool{}
		var ops []string
		nontrivial := false
		key := func(t *rapid.T) int { return rapid.IntRange(0, 4).Draw(t, "k") }
		t.Repeat(map[string]func(*rapid.T){
			"desAdd":    func(t *rapid.T) { k := key(t); st.Desired().Add(k); des[k] = true; ops = append(ops, "A") },
			"desDel":    func(t *rapid.T) { k := key(t); st.Desired().Delete(k); delete(des, k); ops = append(ops, "D") },
			"desDelAll": func(t *rapid.T) { st.Desired().DeleteAll(); des = map[int]bool{}; ops = append(ops, "X") },
			"dpAdd":     func(t *rapid.T) { k := key(t); st.Dataplane().Add(k); dp[k] = true; ops = append(ops, "a") },
			"dpDel":     func(t *rapid.T) { k := key(t); st.Dataplane().Delete(k); delete(dp, k); ops = append(ops, "d") },
			"dpDelAll":  func(t *rapid.T) { st.Dataplane().DeleteAll(); dp = map[int]bool{}; ops = append(ops, "x") },
			"dpReplace": func(t *rapid.T) {
				ks := rapid.SliceOfNDistinct(rapid.IntRange(0, 5), 0, 6, rapid.ID[int]).Draw(t, "ks")
				failAt := rapid.IntRange(-1, len(ks)-1).Draw(t, "failAt")
				err := st.Dataplane().ReplaceFromIter(func(f func(int)) error {
					for i, k := range ks {
						if i == failAt {
							return errors.New("injected")
						}
						f(k)
					}
					return nil
				})
				if failAt >= 0 {
					if err == nil {
						t.Fatalf("ReplaceFromIter swallowed error")
					}
					for i, k := range ks {
						if i >= failAt {
							break
						}
						dp[k] = true
					}
					ops = append(ops, "E")
				} else {
					dp = map[int]bool{}
					for _, k := range ks {
						dp[k] = true
					}
					ops = append(ops, "I")
				}
			},
			"iterUpd": func(t *rapid.T) {
				acts := rapid.SliceOfN(rapid.IntRange(0, 2), 6, 6).Draw(t, "acts")
				n := 0
				st.PendingUpdates().Iter(func(k int) deltatracker.IterAction {
					a := deltatracker.IterAction(acts[k%6])
					if a == deltatracker.IterActionUpdateDataplane {
						dp[k] = true
						n++
					}
					return a
				})
				if n > 0 {
					nontrivial = true
				}
				ops = append(ops, fmt.Sprintf("U%d", min(n, 2)))
			},
			"iterDel": func(t *rapid.T) {
				acts := rapid.SliceOfN(rapid.IntRange(0, 2), 6, 6).Draw(t, "acts")
				n := 0
				st.PendingDeletions().Iter(func(k int) deltatracker.IterAction {
					a := deltatracker.IterAction(acts[k%6])
					if a == deltatracker.IterActionUpdateDataplane {
						delete(dp, k)
						n++
					}
					return a
				})
				if n > 0 {
					nontrivial = true
				}
				ops = append(ops, fmt.Sprintf("L%d", min(n, 2)))
			},
			"": func(t *rapid.T) {
				for k := 0; k <= 5; k++ {
					if st.Desired().Contains(k) != des[k] {
						t.Fatalf("Desired().Contains(%d)=%v model %v", k, st.Desired().Contains(k), des[k])
					}
					if st.Dataplane().Contains(k) != dp[k] {
						t.Fatalf("Dataplane().Contains(%d)=%v model %v", k, st.Dataplane().Contains(k), dp[k])
					}
					if st.PendingUpdates().Contains(k) != (des[k] && !dp[k]) {
						t.Fatalf("PendingUpdates().Contains(%d)=%v des=%v dp=%v", k, st.PendingUpdates().Contains(k), des[k], dp[k])
					}
					if st.PendingDeletions().Contains(k) != (dp[k] && !des[k]) {
						t.Fatalf("PendingDeletions().Contains(%d)=%v des=%v dp=%v", k, st.PendingDeletions().Contains(k), des[k], dp[k])
					}
				}
				var got []int
				st.Desired().Iter(func(k int) { got = append(got, k) })
				sort.Ints(got)
				var want []int
				for k := range des {
					want = append(want, k)
				}
				sort.Ints(want)
				if fmt.Sprint(got) != fmt.Sprint(want) {
					t.Fatalf("Desired().Iter=%v model %v", got, want)
				}
				got = nil
				st.Dataplane().Iter(func(k int) { got = append(got, k) })
				sort.Ints(got)
				want = nil
				for k := range dp {
					want = append(want, k)
				}
				sort.Ints(want)
				if fmt.Sprint(got) != fmt.Sprint(want) {
					t.Fatalf("Dataplane().Iter=%v model %v", got, want)
				}
				nu, nd := 0, 0
				for k := range des {
					if !dp[k] {
						nu++
					}
				}
				for k := range dp {
					if !des[k] {
						nd++
					}
				}
				if st.PendingUpdates().Len() != nu || st.PendingDeletions().Len() != nd {
					t.Fatalf("pending lens %d/%d want %d/%d", st.PendingUpdates().Len(), st.PendingDeletions().Len(), nu, nd)
				}
				if st.InSync() != (nu == 0 && nd == 0) {
					t.Fatalf("InSync=%v want %v", st.InSync(), nu == 0 && nd == 0)
				}
			},
		})
		key2 := strings.Join(ops, "")
		rec.SizedCase(nontrivial, key2, len(ops), func() any { return map[string]any{"ops": key2} })
	})
}
