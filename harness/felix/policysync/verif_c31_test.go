package policysync

// C31 — per-workload policy sync streams are complete, minimal and ordered.
//
// The real Processor's handlers (handleDataplane / handleJoin / handleLeave) are called
// synchronously (no goroutine is started); every join gets a buffered output channel that the
// harness drains after each input.  The oracle
//   - keeps a plain model of the dataplane state the calc graph has announced,
//   - folds each joined workload's output stream message by message,
//   - after every single message checks referential closure of the folded state (endpoint ->
//     policies/profiles -> IP sets: "never references something not yet sent"),
//   - after every input compares the folded state with what the workload needs according to
//     the model (own endpoint; exactly the policies/profiles the endpoint lists; exactly the IP
//     sets those reference; and - because the processor broadcasts them by design, see
//     sendServiceAccounts/sendNamespaces - all current service accounts and namespaces),
//   - checks that nothing arrives on a channel after leave / replacement by a newer join /
//     the endpoint's removal.
// InSync messages are ignored (the statement is silent about them).

import (
	"bytes"
	"fmt"
	"net/netip"
	"sort"
	"strings"
	"sync"
	"testing"

	googleproto "google.golang.org/protobuf/proto"
	"google.golang.org/protobuf/reflect/protoreflect"
	"pgregory.net/rapid"

	"github.com/projectcalico/calico/felix/proto"
	"github.com/projectcalico/calico/felix/types"
	"github.com/projectcalico/calico/verifkit/ev"
)

// ---------------------------------------------------------------------------------------
// universe

const c31NumWorkloads = 3

var c31SmallSets = []struct {
	id  string
	typ proto.IPSetUpdate_IPSetType
}{
	{"s0", proto.IPSetUpdate_IP},
	{"s1", proto.IPSetUpdate_NET},
	{"s2", proto.IPSetUpdate_IP_AND_PORT},
	{"s3", proto.IPSetUpdate_IP},
	{"s4", proto.IPSetUpdate_NET},
}

const c31BigSet = "big0" // type IP, members from c31Pool

var c31Vocab = map[proto.IPSetUpdate_IPSetType][]string{
	proto.IPSetUpdate_IP:          {"10.0.0.1", "10.0.0.2", "10.0.0.3", "10.0.0.4", "10.0.0.5", "fd00::1", "fd00::2"},
	proto.IPSetUpdate_NET:         {"10.0.0.0/24", "10.0.1.0/24", "10.0.0.1/32", "10.0.0.2/32", "0.0.0.0/0", "fd00::/64", "fd00::1/128"},
	proto.IPSetUpdate_IP_AND_PORT: {"10.0.0.1,tcp:80", "10.0.0.1,udp:53", "10.0.0.2,tcp:8080", "10.0.0.3,sctp:9", "fd00::1,tcp:80", "fd00::1,udp:80"},
}

type c31PolDef struct {
	id   *proto.PolicyID
	tier string
}

// Same name with different kind / namespace on purpose: the ids must be kept apart.
var c31Pols = []c31PolDef{
	{&proto.PolicyID{Name: "p0", Kind: "GlobalNetworkPolicy"}, "t0"},
	{&proto.PolicyID{Name: "p1", Namespace: "ns1", Kind: "NetworkPolicy"}, "t0"},
	{&proto.PolicyID{Name: "p1", Namespace: "ns2", Kind: "NetworkPolicy"}, "t1"},
	{&proto.PolicyID{Name: "p1", Kind: "GlobalNetworkPolicy"}, "t1"},
}

var c31Tiers = []string{"t0", "t1"}

var c31Profs = []string{"prof0", "prof1", "prof2"}

var c31SAs = []*proto.ServiceAccountID{
	{Name: "sa0", Namespace: "ns1"}, {Name: "sa0", Namespace: "ns2"}, {Name: "sa1", Namespace: "ns1"},
}

var c31NSs = []string{"ns1", "ns2", "ns3"}

var (
	c31PoolOnce  sync.Once
	c31Pool      []string // immutable after construction; canonical IPv4 strings, all distinct
	c31PoolIndex map[string]int
)

const c31PoolSize = 200000

func c31GetPool() []string {
	c31PoolOnce.Do(func() {
		c31Pool = make([]string, c31PoolSize)
		c31PoolIndex = make(map[string]int, c31PoolSize)
		for i := range c31Pool {
			c31Pool[i] = fmt.Sprintf("10.%d.%d.%d", 100+(i>>16), (i>>8)&255, i&255)
			c31PoolIndex[c31Pool[i]] = i
		}
	})
	return c31Pool
}

func c31GetPoolIndex() map[string]int {
	c31GetPool()
	return c31PoolIndex
}

func c31PolKey(id *proto.PolicyID) string {
	return id.GetKind() + "|" + id.GetNamespace() + "|" + id.GetName()
}

func c31SAKey(id *proto.ServiceAccountID) string { return id.GetNamespace() + "|" + id.GetName() }

func c31WepID(w int) types.WorkloadEndpointID {
	return types.WorkloadEndpointID{OrchestratorId: OrchestratorId, WorkloadId: fmt.Sprintf("ns1/w%d", w), EndpointId: EndpointId}
}

// ---------------------------------------------------------------------------------------
// member canonicalisation (independent of felix/ipsets): address text is normalised, NET
// members are masked prefixes always carrying a length, IP_AND_PORT members are
// "<addr>,<lowercase proto>:<port>".

func c31Canon(t *rapid.T, typ proto.IPSetUpdate_IPSetType, m string) string {
	switch typ {
	case proto.IPSetUpdate_IP:
		if i := strings.IndexByte(m, '/'); i >= 0 {
			m = m[:i]
		}
		a, err := netip.ParseAddr(m)
		if err != nil {
			t.Fatalf("HARNESS-GAP: cannot parse IP member %q: %v", m, err)
		}
		return a.String()
	case proto.IPSetUpdate_NET:
		if !strings.Contains(m, "/") {
			a, err := netip.ParseAddr(m)
			if err != nil {
				t.Fatalf("HARNESS-GAP: cannot parse NET member %q: %v", m, err)
			}
			return netip.PrefixFrom(a, a.BitLen()).String()
		}
		p, err := netip.ParsePrefix(m)
		if err != nil {
			t.Fatalf("HARNESS-GAP: cannot parse NET member %q: %v", m, err)
		}
		return p.Masked().String()
	case proto.IPSetUpdate_IP_AND_PORT:
		parts := strings.SplitN(m, ",", 2)
		if len(parts) != 2 {
			t.Fatalf("HARNESS-GAP: cannot parse IP,port member %q", m)
		}
		a, err := netip.ParseAddr(parts[0])
		if err != nil {
			t.Fatalf("HARNESS-GAP: cannot parse IP,port member %q: %v", m, err)
		}
		return a.String() + "," + strings.ToLower(parts[1])
	}
	t.Fatalf("HARNESS-GAP: unknown IP set type %v", typ)
	return ""
}

// c31Members is a set of canonical member strings.  Members that are pool strings (the big
// set's vocabulary; already canonical) are kept in a byte-per-index table so that 10^5-member
// sets stay cheap; everything else goes through c31Canon into a plain map.
type c31Members struct {
	small map[string]struct{}
	bits  []byte
	nbits int
}

func c31NewMembers() *c31Members { return &c31Members{small: map[string]struct{}{}} }

func (ms *c31Members) add(t *rapid.T, typ proto.IPSetUpdate_IPSetType, m string) {
	if typ == proto.IPSetUpdate_IP {
		if i, ok := c31GetPoolIndex()[m]; ok {
			if ms.bits == nil {
				ms.bits = make([]byte, c31PoolSize)
			}
			if ms.bits[i] == 0 {
				ms.bits[i] = 1
				ms.nbits++
			}
			return
		}
	}
	ms.small[c31Canon(t, typ, m)] = struct{}{}
}

func (ms *c31Members) del(t *rapid.T, typ proto.IPSetUpdate_IPSetType, m string) {
	if typ == proto.IPSetUpdate_IP {
		if i, ok := c31GetPoolIndex()[m]; ok {
			if ms.bits != nil && ms.bits[i] == 1 {
				ms.bits[i] = 0
				ms.nbits--
			}
			return
		}
	}
	delete(ms.small, c31Canon(t, typ, m))
}

func (ms *c31Members) has(t *rapid.T, typ proto.IPSetUpdate_IPSetType, m string) bool {
	if typ == proto.IPSetUpdate_IP {
		if i, ok := c31GetPoolIndex()[m]; ok {
			return ms.bits != nil && ms.bits[i] == 1
		}
	}
	_, ok := ms.small[c31Canon(t, typ, m)]
	return ok
}

func (ms *c31Members) hasPool(i int) bool { return ms.bits != nil && ms.bits[i] == 1 }

func (ms *c31Members) size() int { return len(ms.small) + ms.nbits }

func (ms *c31Members) list() map[string]struct{} {
	out := make(map[string]struct{}, ms.size())
	for m := range ms.small {
		out[m] = struct{}{}
	}
	if ms.nbits > 0 {
		pool := c31GetPool()
		for i, b := range ms.bits {
			if b == 1 {
				out[pool[i]] = struct{}{}
			}
		}
	}
	return out
}

func (ms *c31Members) equal(o *c31Members) bool {
	if len(ms.small) != len(o.small) || ms.nbits != o.nbits {
		return false
	}
	for m := range ms.small {
		if _, ok := o.small[m]; !ok {
			return false
		}
	}
	if ms.nbits > 0 && !bytes.Equal(ms.bits, o.bits) {
		return false
	}
	return true
}

// ---------------------------------------------------------------------------------------
// model of the announced dataplane state

type c31Set struct {
	typ     proto.IPSetUpdate_IPSetType
	members *c31Members
	ver     int
}

type c31RuleHolder struct {
	msg  googleproto.Message // *proto.Policy or *proto.Profile (private clone)
	refs map[string]bool
	ver  int
}

type c31Model struct {
	sets  map[string]*c31Set
	pols  map[string]*c31RuleHolder
	profs map[string]*c31RuleHolder
	eps   [c31NumWorkloads]*proto.WorkloadEndpoint
	sas   map[string]*proto.ServiceAccountUpdate
	nss   map[string]*proto.NamespaceUpdate
}

func (m *c31Model) setReferenced(id string) bool {
	for _, h := range m.pols {
		if h.refs[id] {
			return true
		}
	}
	for _, h := range m.profs {
		if h.refs[id] {
			return true
		}
	}
	return false
}

func c31EpPolKeys(ep *proto.WorkloadEndpoint) map[string]bool {
	out := map[string]bool{}
	for _, ti := range ep.GetTiers() {
		for _, id := range ti.GetIngressPolicies() {
			out[c31PolKey(id)] = true
		}
		for _, id := range ti.GetEgressPolicies() {
			out[c31PolKey(id)] = true
		}
	}
	return out
}

func (m *c31Model) polReferenced(key string) bool {
	for _, ep := range m.eps {
		if ep != nil && c31EpPolKeys(ep)[key] {
			return true
		}
	}
	return false
}

func (m *c31Model) profReferenced(name string) bool {
	for _, ep := range m.eps {
		for _, p := range ep.GetProfileIds() {
			if p == name {
				return true
			}
		}
	}
	return false
}

// ---------------------------------------------------------------------------------------
// fold of one join's output stream

type c31FoldSet struct {
	typ     proto.IPSetUpdate_IPSetType
	members *c31Members
	dirty   bool
}

type c31Session struct {
	w       int
	uid     uint64
	ch      chan *proto.ToDataplane
	active  bool // model view: this join is the workload's current one and has not left
	closed  bool // channel observed closed
	pending bool // ended by the processor (replaced / endpoint removed): its Leave is still to come

	ep    *proto.WorkloadEndpoint
	pols  map[string]*proto.Policy
	profs map[string]*proto.Profile
	sets  map[string]*c31FoldSet
	sas   map[string]*proto.ServiceAccountUpdate
	nss   map[string]*proto.NamespaceUpdate

	cmpVer map[string]int // model set version at the last successful comparison
	log    []string
	nmsgs  int

	seen           map[string]bool // stream-level classes
	joinedNonEmpty bool
	lastNeed       string
	needChanged    bool
}

// c31RuleRefs lists the IP set ids a rule list holder (Policy/Profile) references: every
// repeated string field of Rule whose name ends in "_set_ids".
func c31RuleRefs(rules ...[]*proto.Rule) map[string]bool {
	out := map[string]bool{}
	for _, rl := range rules {
		for _, r := range rl {
			r.ProtoReflect().Range(func(fd protoreflect.FieldDescriptor, v protoreflect.Value) bool {
				if fd.IsList() && fd.Kind() == protoreflect.StringKind && strings.HasSuffix(string(fd.Name()), "_set_ids") {
					l := v.List()
					for i := 0; i < l.Len(); i++ {
						out[l.Get(i).String()] = true
					}
				}
				return true
			})
		}
	}
	return out
}

func c31Keys[V any](m map[string]V) []string {
	out := make([]string, 0, len(m))
	for k := range m {
		out = append(out, k)
	}
	sort.Strings(out)
	return out
}

func (s *c31Session) note(f string, a ...any) {
	if len(s.log) < 400 {
		s.log = append(s.log, fmt.Sprintf(f, a...))
	}
}

// closure: everything the folded state references has been sent (and not removed).
func (s *c31Session) closure() string {
	for _, k := range c31Keys(s.pols) {
		p := s.pols[k]
		for _, id := range c31Keys(c31RuleRefs(p.GetInboundRules(), p.GetOutboundRules())) {
			if s.sets[id] == nil {
				return fmt.Sprintf("policy %s references IP set %s which the stream has not delivered", k, id)
			}
		}
	}
	for _, k := range c31Keys(s.profs) {
		p := s.profs[k]
		for _, id := range c31Keys(c31RuleRefs(p.GetInboundRules(), p.GetOutboundRules())) {
			if s.sets[id] == nil {
				return fmt.Sprintf("profile %s references IP set %s which the stream has not delivered", k, id)
			}
		}
	}
	if s.ep != nil {
		for _, k := range c31Keys(c31EpPolKeys(s.ep)) {
			if s.pols[k] == nil {
				return fmt.Sprintf("endpoint references policy %s which the stream has not delivered", k)
			}
		}
		for _, k := range s.ep.GetProfileIds() {
			if s.profs[k] == nil {
				return fmt.Sprintf("endpoint references profile %s which the stream has not delivered", k)
			}
		}
	}
	return ""
}

func (s *c31Session) apply(t *rapid.T, fail func(string, ...any), msg *proto.ToDataplane) {
	s.nmsgs++
	switch pl := msg.Payload.(type) {
	case *proto.ToDataplane_InSync:
		s.note("InSync")
		return
	case *proto.ToDataplane_IpsetUpdate:
		u := pl.IpsetUpdate
		fs := &c31FoldSet{typ: u.GetType(), members: c31NewMembers(), dirty: true}
		for _, m := range u.GetMembers() {
			fs.members.add(t, fs.typ, m)
		}
		s.sets[u.GetId()] = fs
		if len(u.GetMembers()) >= MaxMembersPerMessage {
			s.seen["stream-ipset-update-at-message-limit"] = true
		}
		s.note("IPSetUpdate(%s,%d members)", u.GetId(), len(u.GetMembers()))
	case *proto.ToDataplane_IpsetDeltaUpdate:
		u := pl.IpsetDeltaUpdate
		s.note("IPSetDelta(%s,+%d,-%d)", u.GetId(), len(u.GetAddedMembers()), len(u.GetRemovedMembers()))
		fs := s.sets[u.GetId()]
		if fs == nil {
			fail("IPSetDeltaUpdate for IP set %s that the stream has not delivered", u.GetId())
			return
		}
		fs.dirty = true
		if len(u.GetAddedMembers())+len(u.GetRemovedMembers()) >= MaxMembersPerMessage {
			s.seen["stream-ipset-delta-at-message-limit"] = true
		}
		for _, m := range u.GetAddedMembers() {
			fs.members.add(t, fs.typ, m)
		}
		for _, m := range u.GetRemovedMembers() {
			fs.members.del(t, fs.typ, m)
		}
	case *proto.ToDataplane_IpsetRemove:
		s.note("IPSetRemove(%s)", pl.IpsetRemove.GetId())
		delete(s.sets, pl.IpsetRemove.GetId())
		delete(s.cmpVer, pl.IpsetRemove.GetId())
	case *proto.ToDataplane_ActivePolicyUpdate:
		k := c31PolKey(pl.ActivePolicyUpdate.GetId())
		s.note("PolicyUpdate(%s,%s)", k, pl.ActivePolicyUpdate.GetPolicy().GetOriginalSelector())
		s.pols[k] = pl.ActivePolicyUpdate.GetPolicy()
	case *proto.ToDataplane_ActivePolicyRemove:
		k := c31PolKey(pl.ActivePolicyRemove.GetId())
		s.note("PolicyRemove(%s)", k)
		delete(s.pols, k)
	case *proto.ToDataplane_ActiveProfileUpdate:
		k := pl.ActiveProfileUpdate.GetId().GetName()
		s.note("ProfileUpdate(%s)", k)
		s.profs[k] = pl.ActiveProfileUpdate.GetProfile()
	case *proto.ToDataplane_ActiveProfileRemove:
		k := pl.ActiveProfileRemove.GetId().GetName()
		s.note("ProfileRemove(%s)", k)
		delete(s.profs, k)
	case *proto.ToDataplane_WorkloadEndpointUpdate:
		id := types.ProtoToWorkloadEndpointID(pl.WorkloadEndpointUpdate.GetId())
		s.note("WEPUpdate(%s,%s)", id.WorkloadId, pl.WorkloadEndpointUpdate.GetEndpoint().GetName())
		if id != c31WepID(s.w) {
			fail("received WorkloadEndpointUpdate for foreign endpoint %v", id)
			return
		}
		s.ep = pl.WorkloadEndpointUpdate.GetEndpoint()
		if s.ep == nil {
			s.ep = &proto.WorkloadEndpoint{}
		}
	case *proto.ToDataplane_WorkloadEndpointRemove:
		id := types.ProtoToWorkloadEndpointID(pl.WorkloadEndpointRemove.GetId())
		s.note("WEPRemove(%s)", id.WorkloadId)
		if id != c31WepID(s.w) {
			fail("received WorkloadEndpointRemove for foreign endpoint %v", id)
			return
		}
		s.ep = nil
	case *proto.ToDataplane_ServiceAccountUpdate:
		s.note("SAUpdate(%s)", c31SAKey(pl.ServiceAccountUpdate.GetId()))
		s.sas[c31SAKey(pl.ServiceAccountUpdate.GetId())] = pl.ServiceAccountUpdate
	case *proto.ToDataplane_ServiceAccountRemove:
		s.note("SARemove(%s)", c31SAKey(pl.ServiceAccountRemove.GetId()))
		delete(s.sas, c31SAKey(pl.ServiceAccountRemove.GetId()))
	case *proto.ToDataplane_NamespaceUpdate:
		s.note("NSUpdate(%s)", pl.NamespaceUpdate.GetId().GetName())
		s.nss[pl.NamespaceUpdate.GetId().GetName()] = pl.NamespaceUpdate
	case *proto.ToDataplane_NamespaceRemove:
		s.note("NSRemove(%s)", pl.NamespaceRemove.GetId().GetName())
		delete(s.nss, pl.NamespaceRemove.GetId().GetName())
	default:
		t.Fatalf("HARNESS-GAP: unexpected payload type %T on a policy sync stream", msg.Payload)
	}
	if why := s.closure(); why != "" {
		fail("reference before referent: after message #%d (%s): %s", s.nmsgs, s.log[len(s.log)-1], why)
	}
}

// ---------------------------------------------------------------------------------------
// the case

type c31Case struct {
	t        *rapid.T
	p        *Processor
	m        *c31Model
	sessions []*c31Session // watched: every join whose channel is not yet observed closed, plus active ones
	all      []*c31Session // every join of the case (evidence only)
	forceBig bool
	cur      [c31NumWorkloads]*c31Session
	ended    []*c31Session // processor-ended sessions whose Leave has not been delivered yet
	nextUID  uint64        // highest UID allocated so far
	freeUIDs []uint64      // UIDs allocated (server.go: nextJoinUID()) whose JoinRequest has not reached the processor yet
	ver      int
	ops      []string
	kinds    []string
	classes  map[string]bool
	big      bool
}

func (c *c31Case) fail(s *c31Session, f string, a ...any) {
	c.t.Fatalf("C31 violation for workload w%d join uid=%d: %s\ninputs so far:\n  %s\nstream of this join:\n  %s",
		s.w, s.uid, fmt.Sprintf(f, a...), strings.Join(c.ops, "\n  "), strings.Join(s.log, "\n  "))
}

func (c *c31Case) op(kind string, f string, a ...any) {
	c.kinds = append(c.kinds, kind)
	c.ops = append(c.ops, fmt.Sprintf("%02d %s", len(c.ops), fmt.Sprintf(f, a...)))
}

func (c *c31Case) nextVer() int { c.ver++; return c.ver }

// drain folds everything that is currently buffered on every watched channel.
func (c *c31Case) drain() {
	kept := c.sessions[:0]
	for _, s := range c.sessions {
	loop:
		for !s.closed {
			select {
			case msg, ok := <-s.ch:
				if !ok {
					s.closed = true
					break loop
				}
				if !s.active {
					s.note("AFTER END: %T", msg.Payload)
					c.fail(s, "a message (%T) was sent after the workload left / the join was replaced / the endpoint was removed", msg.Payload)
				}
				s.apply(c.t, func(f string, a ...any) { c.fail(s, f, a...) }, msg)
			default:
				break loop
			}
		}
		if !s.closed || s.active {
			kept = append(kept, s)
		}
	}
	c.sessions = kept
}

type c31Need struct {
	pols  map[string]bool
	profs map[string]bool
	sets  map[string]bool
}

func (c *c31Case) need(w int) c31Need {
	n := c31Need{pols: map[string]bool{}, profs: map[string]bool{}, sets: map[string]bool{}}
	ep := c.m.eps[w]
	if ep == nil {
		return n
	}
	n.pols = c31EpPolKeys(ep)
	for _, p := range ep.GetProfileIds() {
		n.profs[p] = true
	}
	for k := range n.pols {
		for id := range c.m.pols[k].refs {
			n.sets[id] = true
		}
	}
	for k := range n.profs {
		for id := range c.m.profs[k].refs {
			n.sets[id] = true
		}
	}
	return n
}

// compare checks "complete and minimal, latest versions" for one active join.
func (c *c31Case) compare(s *c31Session) {
	if s.closed {
		c.fail(s, "channel was closed although the workload has not left, has not been replaced and its endpoint has not been removed")
	}
	n := c.need(s.w)
	ep := c.m.eps[s.w]
	if (ep == nil) != (s.ep == nil) || (ep != nil && !googleproto.Equal(ep, s.ep)) {
		c.fail(s, "endpoint: stream yields %v, latest is %v", s.ep, ep)
	}
	if got, want := c31Keys(s.pols), c31Keys(n.pols); !c31EqStrings(got, want) {
		c.fail(s, "policies: stream yields %v, endpoint needs exactly %v", got, want)
	}
	for k, p := range s.pols {
		if !googleproto.Equal(p, c.m.pols[k].msg) {
			c.fail(s, "policy %s: stream yields %v, latest is %v", k, p, c.m.pols[k].msg)
		}
	}
	if got, want := c31Keys(s.profs), c31Keys(n.profs); !c31EqStrings(got, want) {
		c.fail(s, "profiles: stream yields %v, endpoint needs exactly %v", got, want)
	}
	for k, p := range s.profs {
		if !googleproto.Equal(p, c.m.profs[k].msg) {
			c.fail(s, "profile %s: stream yields %v, latest is %v", k, p, c.m.profs[k].msg)
		}
	}
	if got, want := c31Keys(s.sets), c31Keys(n.sets); !c31EqStrings(got, want) {
		c.fail(s, "IP sets: stream yields %v, the endpoint's policies/profiles reference exactly %v", got, want)
	}
	for _, id := range c31Keys(s.sets) {
		fs, ms := s.sets[id], c.m.sets[id]
		if v, ok := s.cmpVer[id]; ok && !fs.dirty && v == ms.ver {
			continue // neither side changed since the last successful comparison
		}
		if fs.typ != ms.typ {
			c.fail(s, "IP set %s: stream says type %v, announced type %v", id, fs.typ, ms.typ)
		}
		if !fs.members.equal(ms.members) {
			c.fail(s, "IP set %s: stream reassembles to %d members, latest has %d%s", id, fs.members.size(), ms.members.size(), c31SetDiff(fs.members.list(), ms.members.list()))
		}
		fs.dirty = false
		s.cmpVer[id] = ms.ver
	}
	// Service accounts and namespaces: broadcast by design, so "needs" = all current ones.
	if got, want := c31Keys(s.sas), c31Keys(c.m.sas); !c31EqStrings(got, want) {
		c.fail(s, "service accounts: stream yields %v, current are %v", got, want)
	}
	for k, u := range s.sas {
		if !googleproto.Equal(u, c.m.sas[k]) {
			c.fail(s, "service account %s: stream yields %v, latest is %v", k, u, c.m.sas[k])
		}
	}
	if got, want := c31Keys(s.nss), c31Keys(c.m.nss); !c31EqStrings(got, want) {
		c.fail(s, "namespaces: stream yields %v, current are %v", got, want)
	}
	for k, u := range s.nss {
		if !googleproto.Equal(u, c.m.nss[k]) {
			c.fail(s, "namespace %s: stream yields %v, latest is %v", k, u, c.m.nss[k])
		}
	}
	// non-triviality bookkeeping: did what this join needs change while it was joined?
	var sb strings.Builder
	for _, k := range c31Keys(n.pols) {
		fmt.Fprintf(&sb, "P%s@%d;", k, c.m.pols[k].ver)
	}
	for _, k := range c31Keys(n.profs) {
		fmt.Fprintf(&sb, "F%s@%d;", k, c.m.profs[k].ver)
	}
	for _, k := range c31Keys(n.sets) {
		fmt.Fprintf(&sb, "S%s;", k)
	}
	sig := sb.String()
	if s.lastNeed != "\x00" && s.lastNeed != sig {
		s.needChanged = true
	}
	s.lastNeed = sig
}

func c31SetDiff(got, want map[string]struct{}) string {
	var miss, extra []string
	for m := range want {
		if _, ok := got[m]; !ok {
			miss = append(miss, m)
		}
	}
	for m := range got {
		if _, ok := want[m]; !ok {
			extra = append(extra, m)
		}
	}
	sort.Strings(miss)
	sort.Strings(extra)
	if len(miss) > 8 {
		miss = append(miss[:8], fmt.Sprintf("…(%d)", len(miss)))
	}
	if len(extra) > 8 {
		extra = append(extra[:8], fmt.Sprintf("…(%d)", len(extra)))
	}
	return fmt.Sprintf(" (missing %v, extra %v)", miss, extra)
}

func c31EqStrings(a, b []string) bool {
	if len(a) != len(b) {
		return false
	}
	for i := range a {
		if a[i] != b[i] {
			return false
		}
	}
	return true
}

// settle is run after every input.
func (c *c31Case) settle() {
	c.drain()
	for _, s := range c.cur {
		if s != nil && s.active {
			c.compare(s)
		}
	}
}

// ---------------------------------------------------------------------------------------
// generators of valid inputs

func (c *c31Case) existingSets() []string    { return c31Keys(c.m.sets) }
func (c *c31Case) existingPolKeys() []string { return c31Keys(c.m.pols) }
func (c *c31Case) existingProfs() []string   { return c31Keys(c.m.profs) }

func (c *c31Case) drawMembers(typ proto.IPSetUpdate_IPSetType, label string) []string {
	voc := c31Vocab[typ]
	mask := rapid.IntRange(0, (1<<len(voc))-1).Draw(c.t, label)
	var out []string
	for i, v := range voc {
		if mask&(1<<i) != 0 {
			out = append(out, v)
		}
	}
	return out
}

var c31BigSizes = []int{82199, 82200, 82201, 82250, 164400, 164401}
var c31BigDeltas = []int{0, 1, 50, 82200, 82201, 82250}

func (c *c31Case) bigMembers() []string {
	pool := c31GetPool()
	n := rapid.SampledFrom(c31BigSizes).Draw(c.t, "bigSize")
	off := rapid.IntRange(0, 3).Draw(c.t, "bigOff")
	return pool[off : off+n]
}

func (c *c31Case) sendSetUpdate(id string, typ proto.IPSetUpdate_IPSetType, members []string, what string) {
	ms := &c31Set{typ: typ, members: c31NewMembers(), ver: c.nextVer()}
	for _, m := range members {
		ms.members.add(c.t, typ, m)
	}
	c.m.sets[id] = ms
	c.op(what, "IPSetUpdate(%s,%v,%d members %s)", id, typ, len(members), c31Short(members))
	c.p.handleDataplane(&proto.IPSetUpdate{Id: id, Type: typ, Members: members})
}

func c31Short(m []string) string {
	if len(m) > 8 {
		return fmt.Sprintf("%v…", m[:3])
	}
	return fmt.Sprint(m)
}

func (c *c31Case) typeOf(id string) proto.IPSetUpdate_IPSetType {
	for _, s := range c31SmallSets {
		if s.id == id {
			return s.typ
		}
	}
	return proto.IPSetUpdate_IP
}

func (c *c31Case) opSetNew() bool {
	var cands []string
	for _, s := range c31SmallSets {
		if c.m.sets[s.id] == nil {
			cands = append(cands, s.id)
		}
	}
	if c.big && c.m.sets[c31BigSet] == nil {
		cands = append(cands, c31BigSet)
	}
	if len(cands) == 0 {
		return false
	}
	id := rapid.SampledFrom(cands).Draw(c.t, "newSet")
	if id == c31BigSet {
		c.sendSetUpdate(id, proto.IPSetUpdate_IP, c.bigMembers(), "N")
		return true
	}
	typ := c.typeOf(id)
	c.sendSetUpdate(id, typ, c.drawMembers(typ, "members"), "n")
	return true
}

func (c *c31Case) opSetReplace() bool {
	ids := c.existingSets()
	if len(ids) == 0 {
		return false
	}
	id := rapid.SampledFrom(ids).Draw(c.t, "replaceSet")
	if c.forceBig && c.m.sets[c31BigSet] != nil {
		id = c31BigSet
	}
	if id == c31BigSet {
		c.sendSetUpdate(id, proto.IPSetUpdate_IP, c.bigMembers(), "R")
		return true
	}
	typ := c.typeOf(id)
	c.sendSetUpdate(id, typ, c.drawMembers(typ, "members"), "r")
	return true
}

func (c *c31Case) opSetDelta() bool {
	ids := c.existingSets()
	if len(ids) == 0 {
		return false
	}
	id := rapid.SampledFrom(ids).Draw(c.t, "deltaSet")
	if c.forceBig && c.m.sets[c31BigSet] != nil {
		id = c31BigSet
	}
	ms := c.m.sets[id]
	var add, del []string
	kind := "d"
	if id == c31BigSet {
		kind = "D"
		pool := c31GetPool()
		nAdd := rapid.SampledFrom(c31BigDeltas).Draw(c.t, "bigAdd")
		nDel := rapid.SampledFrom(c31BigDeltas).Draw(c.t, "bigDel")
		start := rapid.IntRange(0, 5).Draw(c.t, "bigStart")
		for i := start; i < len(pool) && (len(add) < nAdd || len(del) < nDel); i++ {
			if ms.members.hasPool(i) {
				if len(del) < nDel {
					del = append(del, pool[i])
				}
			} else if len(add) < nAdd {
				add = append(add, pool[i])
			}
		}
	} else {
		// Like the calc graph: added members are not in the set, removed members are.
		for _, v := range c31Vocab[ms.typ] {
			in := ms.members.has(c.t, ms.typ, v)
			if rapid.Bool().Draw(c.t, "flip "+v) {
				if in {
					del = append(del, v)
				} else {
					add = append(add, v)
				}
			}
		}
	}
	for _, m := range add {
		ms.members.add(c.t, ms.typ, m)
	}
	for _, m := range del {
		ms.members.del(c.t, ms.typ, m)
	}
	ms.ver = c.nextVer()
	c.op(kind, "IPSetDeltaUpdate(%s,+%d %s,-%d %s)", id, len(add), c31Short(add), len(del), c31Short(del))
	c.p.handleDataplane(&proto.IPSetDeltaUpdate{Id: id, AddedMembers: add, RemovedMembers: del})
	return true
}

func (c *c31Case) opSetRemove() bool {
	var cands []string
	for _, id := range c.existingSets() {
		if !c.m.setReferenced(id) {
			cands = append(cands, id)
		}
	}
	if len(cands) == 0 {
		return false
	}
	id := rapid.SampledFrom(cands).Draw(c.t, "removeSet")
	delete(c.m.sets, id)
	c.op("x", "IPSetRemove(%s)", id)
	c.p.handleDataplane(&proto.IPSetRemove{Id: id})
	return true
}

var c31RefFields = []string{
	"src_ip_set_ids", "dst_ip_set_ids", "dst_ip_port_set_ids", "src_named_port_ip_set_ids", "dst_named_port_ip_set_ids",
	"not_src_ip_set_ids", "not_dst_ip_set_ids", "not_src_named_port_ip_set_ids", "not_dst_named_port_ip_set_ids",
}

// drawRules builds inbound/outbound rules referencing a drawn subset of the existing IP sets
// through drawn reference fields.
func (c *c31Case) drawRules(ver int) (in, out []*proto.Rule, refs map[string]bool) {
	refs = map[string]bool{}
	ids := c.existingSets()
	nRules := rapid.IntRange(0, 3).Draw(c.t, "nRules")
	for i := 0; i < nRules; i++ {
		r := &proto.Rule{Action: "allow", RuleId: fmt.Sprintf("v%d-%d", ver, i)}
		nRefs := 0
		if len(ids) > 0 {
			nRefs = rapid.IntRange(0, 2).Draw(c.t, "nRefs")
		}
		for j := 0; j < nRefs; j++ {
			id := rapid.SampledFrom(ids).Draw(c.t, "refSet")
			f := rapid.SampledFrom(c31RefFields).Draw(c.t, "refField")
			fd := r.ProtoReflect().Descriptor().Fields().ByName(protoreflect.Name(f))
			if fd == nil {
				c.t.Fatalf("HARNESS-GAP: proto.Rule has no field %s", f)
			}
			r.ProtoReflect().Mutable(fd).List().Append(protoreflect.ValueOfString(id))
			refs[id] = true
		}
		if rapid.Bool().Draw(c.t, "inbound") {
			in = append(in, r)
		} else {
			out = append(out, r)
		}
	}
	return
}

func (c *c31Case) opPolUpdate() bool {
	i := rapid.IntRange(0, len(c31Pols)-1).Draw(c.t, "policy")
	def := c31Pols[i]
	ver := c.nextVer()
	in, out, refs := c.drawRules(ver)
	pol := &proto.Policy{Namespace: def.id.GetNamespace(), Tier: def.tier, InboundRules: in, OutboundRules: out,
		OriginalSelector: fmt.Sprintf("v%d", ver)}
	k := c31PolKey(def.id)
	c.m.pols[k] = &c31RuleHolder{msg: googleproto.Clone(pol), refs: refs, ver: ver}
	c.op("p", "ActivePolicyUpdate(%s,v%d,refs %v)", k, ver, c31Keys(refs))
	c.p.handleDataplane(&proto.ActivePolicyUpdate{Id: googleproto.Clone(def.id).(*proto.PolicyID), Policy: pol})
	return true
}

func (c *c31Case) opPolRemove() bool {
	var cands []int
	for i, def := range c31Pols {
		k := c31PolKey(def.id)
		if c.m.pols[k] != nil && !c.m.polReferenced(k) {
			cands = append(cands, i)
		}
	}
	if len(cands) == 0 {
		return false
	}
	def := c31Pols[rapid.SampledFrom(cands).Draw(c.t, "removePolicy")]
	delete(c.m.pols, c31PolKey(def.id))
	c.op("q", "ActivePolicyRemove(%s)", c31PolKey(def.id))
	c.p.handleDataplane(&proto.ActivePolicyRemove{Id: googleproto.Clone(def.id).(*proto.PolicyID)})
	return true
}

func (c *c31Case) opProfUpdate() bool {
	name := rapid.SampledFrom(c31Profs).Draw(c.t, "profile")
	ver := c.nextVer()
	in, out, refs := c.drawRules(ver)
	if len(in)+len(out) == 0 {
		in = append(in, &proto.Rule{Action: "allow", RuleId: fmt.Sprintf("v%d", ver)}) // carries the version
	}
	prof := &proto.Profile{InboundRules: in, OutboundRules: out}
	c.m.profs[name] = &c31RuleHolder{msg: googleproto.Clone(prof), refs: refs, ver: ver}
	c.op("f", "ActiveProfileUpdate(%s,v%d,refs %v)", name, ver, c31Keys(refs))
	c.p.handleDataplane(&proto.ActiveProfileUpdate{Id: &proto.ProfileID{Name: name}, Profile: prof})
	return true
}

func (c *c31Case) opProfRemove() bool {
	var cands []string
	for _, name := range c.existingProfs() {
		if !c.m.profReferenced(name) {
			cands = append(cands, name)
		}
	}
	if len(cands) == 0 {
		return false
	}
	name := rapid.SampledFrom(cands).Draw(c.t, "removeProfile")
	delete(c.m.profs, name)
	c.op("g", "ActiveProfileRemove(%s)", name)
	c.p.handleDataplane(&proto.ActiveProfileRemove{Id: &proto.ProfileID{Name: name}})
	return true
}

func (c *c31Case) opWepUpdate() bool {
	w := rapid.IntRange(0, c31NumWorkloads-1).Draw(c.t, "workload")
	ver := c.nextVer()
	ep := &proto.WorkloadEndpoint{State: "active", Name: fmt.Sprintf("cali-v%d", ver), Ipv4Nets: []string{fmt.Sprintf("10.9.0.%d/32", w)}}
	var desc []string
	for _, tier := range c31Tiers {
		ti := &proto.TierInfo{Name: tier, DefaultAction: "Deny"}
		var cands []c31PolDef
		for _, def := range c31Pols {
			if def.tier == tier && c.m.pols[c31PolKey(def.id)] != nil {
				cands = append(cands, def)
			}
		}
		if len(cands) > 1 && rapid.Bool().Draw(c.t, "swapOrder") {
			cands[0], cands[1] = cands[1], cands[0]
		}
		for _, def := range cands {
			// 0 none, 1 ingress, 2 egress, 3 both
			dir := rapid.IntRange(0, 3).Draw(c.t, "dir "+c31PolKey(def.id))
			if dir&1 != 0 {
				ti.IngressPolicies = append(ti.IngressPolicies, googleproto.Clone(def.id).(*proto.PolicyID))
			}
			if dir&2 != 0 {
				ti.EgressPolicies = append(ti.EgressPolicies, googleproto.Clone(def.id).(*proto.PolicyID))
			}
			if dir != 0 {
				desc = append(desc, fmt.Sprintf("%s:%d", c31PolKey(def.id), dir))
			}
		}
		if len(ti.IngressPolicies)+len(ti.EgressPolicies) > 0 {
			ep.Tiers = append(ep.Tiers, ti)
		}
	}
	for _, name := range c.existingProfs() {
		if rapid.Bool().Draw(c.t, "useProfile "+name) {
			ep.ProfileIds = append(ep.ProfileIds, name)
		}
	}
	c.m.eps[w] = googleproto.Clone(ep).(*proto.WorkloadEndpoint)
	c.op("e", "WorkloadEndpointUpdate(w%d,v%d,policies %v,profiles %v)", w, ver, desc, ep.ProfileIds)
	c.p.handleDataplane(&proto.WorkloadEndpointUpdate{Id: types.WorkloadEndpointIDToProto(c31WepID(w)), Endpoint: ep})
	return true
}

func (c *c31Case) opWepRemove() bool {
	var cands []int
	for w, ep := range c.m.eps {
		if ep != nil {
			cands = append(cands, w)
		}
	}
	if len(cands) == 0 {
		return false
	}
	w := rapid.SampledFrom(cands).Draw(c.t, "removeWorkload")
	c.m.eps[w] = nil
	c.op("E", "WorkloadEndpointRemove(w%d)", w)
	c.p.handleDataplane(&proto.WorkloadEndpointRemove{Id: types.WorkloadEndpointIDToProto(c31WepID(w))})
	if s := c.cur[w]; s != nil && s.active {
		// The stream of this join ends here: fold what was sent, then it must be silent.
		c.classes["wep-remove-while-joined"] = true
		c.drain()
		if s.ep != nil && !s.closed {
			c.fail(s, "endpoint was removed but the stream neither delivered the removal nor ended; it still yields endpoint %v", s.ep)
		}
		s.active = false
		s.pending = true
		c.ended = append(c.ended, s)
		c.cur[w] = nil
	}
	return true
}

func (c *c31Case) opSAUpdate() bool {
	id := rapid.SampledFrom(c31SAs).Draw(c.t, "sa")
	u := &proto.ServiceAccountUpdate{Id: googleproto.Clone(id).(*proto.ServiceAccountID), Labels: map[string]string{"v": fmt.Sprint(c.nextVer())}}
	c.m.sas[c31SAKey(id)] = googleproto.Clone(u).(*proto.ServiceAccountUpdate)
	c.op("a", "ServiceAccountUpdate(%s,%v)", c31SAKey(id), u.Labels)
	c.p.handleDataplane(u)
	return true
}

func (c *c31Case) opSARemove() bool {
	ks := c31Keys(c.m.sas)
	if len(ks) == 0 {
		return false
	}
	k := rapid.SampledFrom(ks).Draw(c.t, "removeSA")
	id := c.m.sas[k].GetId()
	delete(c.m.sas, k)
	c.op("A", "ServiceAccountRemove(%s)", k)
	c.p.handleDataplane(&proto.ServiceAccountRemove{Id: googleproto.Clone(id).(*proto.ServiceAccountID)})
	return true
}

func (c *c31Case) opNSUpdate() bool {
	name := rapid.SampledFrom(c31NSs).Draw(c.t, "ns")
	u := &proto.NamespaceUpdate{Id: &proto.NamespaceID{Name: name}, Labels: map[string]string{"v": fmt.Sprint(c.nextVer())}}
	c.m.nss[name] = googleproto.Clone(u).(*proto.NamespaceUpdate)
	c.op("b", "NamespaceUpdate(%s,%v)", name, u.Labels)
	c.p.handleDataplane(u)
	return true
}

func (c *c31Case) opNSRemove() bool {
	ks := c31Keys(c.m.nss)
	if len(ks) == 0 {
		return false
	}
	k := rapid.SampledFrom(ks).Draw(c.t, "removeNS")
	delete(c.m.nss, k)
	c.op("B", "NamespaceRemove(%s)", k)
	c.p.handleDataplane(&proto.NamespaceRemove{Id: &proto.NamespaceID{Name: k}})
	return true
}

func (c *c31Case) opInSync() bool {
	c.op("i", "InSync")
	c.classes["insync"] = true
	c.p.handleDataplane(&proto.InSync{})
	return true
}

func (c *c31Case) opJoin() bool {
	w := rapid.IntRange(0, c31NumWorkloads-1).Draw(c.t, "joinWorkload")
	c.joinWorkload(w)
	return true
}

func (c *c31Case) joinWorkload(w int) {
	// Server.Sync allocates the join UID and only then sends the JoinRequest, one goroutine per
	// connection: UIDs are unique and increasing at allocation but reach the processor in any order.
	var uid uint64
	if len(c.freeUIDs) > 0 && rapid.IntRange(0, 2).Draw(c.t, "joinArrivesLate") != 0 {
		i := rapid.IntRange(0, len(c.freeUIDs)-1).Draw(c.t, "lateUID")
		uid = c.freeUIDs[i]
		c.freeUIDs = append(c.freeUIDs[:i:i], c.freeUIDs[i+1:]...)
		c.classes["join-uid-lower-than-earlier-arrival"] = true
		if old := c.cur[w]; old != nil && old.active && old.uid > uid {
			c.classes["rejoin-with-lower-uid-replaces-active"] = true
		}
	} else {
		overtaken := rapid.SampledFrom([]int{0, 0, 0, 1, 1, 2}).Draw(c.t, "overtakenAllocations")
		for i := 0; i < overtaken; i++ {
			c.nextUID++
			c.freeUIDs = append(c.freeUIDs, c.nextUID)
		}
		c.nextUID++
		uid = c.nextUID
	}
	s := &c31Session{w: w, uid: uid, ch: make(chan *proto.ToDataplane, 4096), active: true,
		pols: map[string]*proto.Policy{}, profs: map[string]*proto.Profile{}, sets: map[string]*c31FoldSet{},
		sas: map[string]*proto.ServiceAccountUpdate{}, nss: map[string]*proto.NamespaceUpdate{},
		cmpVer: map[string]int{}, lastNeed: "\x00", seen: map[string]bool{}}
	s.joinedNonEmpty = len(c.m.sets)+len(c.m.pols)+len(c.m.profs) > 0
	if old := c.cur[w]; old != nil && old.active {
		// Replaced: the old join's stream ends here; its Leave will come later (or never).
		old.active = false
		old.pending = true
		c.ended = append(c.ended, old)
		c.classes["rejoin-replaces-active"] = true
	}
	if c.m.eps[w] != nil {
		c.classes["join-known-endpoint"] = true
	} else {
		c.classes["join-unknown-endpoint"] = true
	}
	c.cur[w] = s
	c.sessions = append(c.sessions, s)
	c.all = append(c.all, s)
	c.op("J", "Join(w%d,uid=%d)", w, s.uid)
	c.p.handleJoin(JoinRequest{JoinMetadata: JoinMetadata{EndpointID: c31WepID(w), JoinUID: s.uid}, C: s.ch})
}

func (c *c31Case) opLeave() bool {
	var cands []int
	for w, s := range c.cur {
		if s != nil && s.active {
			cands = append(cands, w)
		}
	}
	if len(cands) == 0 {
		return false
	}
	w := rapid.SampledFrom(cands).Draw(c.t, "leaveWorkload")
	s := c.cur[w]
	s.active = false
	c.cur[w] = nil
	c.classes["leave"] = true
	c.op("L", "Leave(w%d,uid=%d)", w, s.uid)
	c.p.handleLeave(LeaveRequest{JoinMetadata{EndpointID: c31WepID(w), JoinUID: s.uid}})
	return true
}

// opStaleLeave delivers the Leave of a join that the processor itself already ended
// (replaced by a newer join, or endpoint removed): server.go sends it when the old
// connection's goroutine notices the closed channel, which can be arbitrarily late.
func (c *c31Case) opStaleLeave() bool {
	if len(c.ended) == 0 {
		return false
	}
	i := rapid.IntRange(0, len(c.ended)-1).Draw(c.t, "staleLeave")
	s := c.ended[i]
	c.ended = append(c.ended[:i:i], c.ended[i+1:]...)
	s.pending = false
	c.classes["stale-leave"] = true
	if cur := c.cur[s.w]; cur != nil && cur.active {
		c.classes["stale-leave-while-rejoined"] = true
		if s.uid > cur.uid {
			c.classes["stale-leave-with-higher-uid-than-live-join"] = true
		}
	}
	c.op("S", "Leave(w%d,uid=%d) [stale]", s.w, s.uid)
	c.p.handleLeave(LeaveRequest{JoinMetadata{EndpointID: c31WepID(s.w), JoinUID: s.uid}})
	return true
}

type c31OpDef struct {
	name   string
	weight int
	run    func(*c31Case) bool
}

var c31OpDefs = []c31OpDef{
	{"setNew", 8, (*c31Case).opSetNew},
	{"setReplace", 4, (*c31Case).opSetReplace},
	{"setDelta", 7, (*c31Case).opSetDelta},
	{"setRemove", 3, (*c31Case).opSetRemove},
	{"polUpdate", 12, (*c31Case).opPolUpdate},
	{"polRemove", 3, (*c31Case).opPolRemove},
	{"profUpdate", 7, (*c31Case).opProfUpdate},
	{"profRemove", 2, (*c31Case).opProfRemove},
	{"wepUpdate", 14, (*c31Case).opWepUpdate},
	{"wepRemove", 3, (*c31Case).opWepRemove},
	{"saUpdate", 3, (*c31Case).opSAUpdate},
	{"saRemove", 2, (*c31Case).opSARemove},
	{"nsUpdate", 3, (*c31Case).opNSUpdate},
	{"nsRemove", 2, (*c31Case).opNSRemove},
	{"inSync", 1, (*c31Case).opInSync},
	{"join", 12, (*c31Case).opJoin},
	{"leave", 4, (*c31Case).opLeave},
	{"staleLeave", 3, (*c31Case).opStaleLeave},
}

var c31OpTable = func() []int {
	var out []int
	for i, d := range c31OpDefs {
		for j := 0; j < d.weight; j++ {
			out = append(out, i)
		}
	}
	return out
}()

const c31Assume1 = "service accounts and namespaces are broadcast to every joined workload by design (sendServiceAccounts/sendNamespaces), so for them 'needs' = all current ones"
const c31Assume2 = "IP set members are compared after address-text canonicalisation (own implementation); within one IPSetDeltaUpdate added members are not in the set and removed members are (as the calc graph emits them)"
const c31Assume3 = "InSync messages are ignored; after WorkloadEndpointRemove the stream is over (either the removal was delivered or the channel closed)"
const c31Assume4 = "Leave requests carry the JoinUID of a real earlier join and each join sends at most one Leave, after its own join (server.go); join UIDs are unique but reach the processor in any order relative to their allocation (Server.Sync allocates, then sends)"

func TestVerifC31PolicySyncStreams(t *testing.T) {
	ev.Quiet()
	rec := ev.New("C31", "policysync",
		"valid dataplane update streams (IP set before referencing policy/profile, policy/profile before referencing endpoint, removals only after dereference; IP set create/replace/delta/remove; service accounts, namespaces, InSync) over 3 workloads, 4 policies (same name / different kind+namespace), 3 profiles, 5+1 IP sets, interleaved at message granularity with joins, re-joins replacing an active join, leaves and late (stale) leaves; ~1.5 % of the cases open with an IP set of 82199..164401 members (around / beyond MaxMembersPerMessage) that a joined workload depends on and then replace / delta it with up to 82250 added and removed members; the real Processor handlers are called synchronously. Non-trivial = some join happened when policies/profiles/IP sets already existed and what that joined workload needs (policy/profile ids or versions, IP set ids) changed later while it was still joined; distinct = distinct input-kind sequence",
		c31Assume1, c31Assume2, c31Assume3, c31Assume4)
	defer rec.Write()
	rapid.Check(t, func(t *rapid.T) {
		// ~1.5 % of the cases are "big" cases: they open with an IP set at / beyond
		// MaxMembersPerMessage that a joined workload depends on, followed by few further inputs
		// biased to replacements and deltas of that set (each costs ~0.1 s in the real code).
		// (rapid's integers are biased towards small values and the bounds, hence a mid-range window)
		v := rapid.IntRange(0, 999).Draw(t, "bigCase")
		c31RunCase(t, rec, v >= 400 && v < 430)
	})
}

func c31RunCase(t *rapid.T, rec *ev.Recorder, big bool) {
	{
		c := &c31Case{t: t, p: NewProcessor(make(chan any)), classes: map[string]bool{},
			m: &c31Model{sets: map[string]*c31Set{}, pols: map[string]*c31RuleHolder{}, profs: map[string]*c31RuleHolder{},
				sas: map[string]*proto.ServiceAccountUpdate{}, nss: map[string]*proto.NamespaceUpdate{}}}
		c.big = big
		maxOps := 60
		if c.big {
			maxOps = 8
			// Scripted opening so that a joined workload really depends on the big set; the
			// join is placed at a drawn position.
			joinAt := rapid.IntRange(0, 3).Draw(t, "bigJoinAt")
			steps := []func(){
				func() { c.sendSetUpdate(c31BigSet, proto.IPSetUpdate_IP, c.bigMembers(), "N") },
				func() {
					ver := c.nextVer()
					pol := &proto.Policy{Tier: "t0", OriginalSelector: fmt.Sprintf("v%d", ver),
						InboundRules: []*proto.Rule{{Action: "allow", SrcIpSetIds: []string{c31BigSet}}}}
					k := c31PolKey(c31Pols[0].id)
					c.m.pols[k] = &c31RuleHolder{msg: googleproto.Clone(pol), refs: map[string]bool{c31BigSet: true}, ver: ver}
					c.op("p", "ActivePolicyUpdate(%s,v%d,refs [big0])", k, ver)
					c.p.handleDataplane(&proto.ActivePolicyUpdate{Id: googleproto.Clone(c31Pols[0].id).(*proto.PolicyID), Policy: pol})
				},
				func() {
					ver := c.nextVer()
					ep := &proto.WorkloadEndpoint{State: "active", Name: fmt.Sprintf("cali-v%d", ver),
						Tiers: []*proto.TierInfo{{Name: "t0", IngressPolicies: []*proto.PolicyID{googleproto.Clone(c31Pols[0].id).(*proto.PolicyID)}}}}
					c.m.eps[0] = googleproto.Clone(ep).(*proto.WorkloadEndpoint)
					c.op("e", "WorkloadEndpointUpdate(w0,v%d,policies [p0 ingress])", ver)
					c.p.handleDataplane(&proto.WorkloadEndpointUpdate{Id: types.WorkloadEndpointIDToProto(c31WepID(0)), Endpoint: ep})
				},
			}
			for i := 0; i <= len(steps); i++ {
				if i == joinAt {
					c.joinWorkload(0)
					c.settle()
				}
				if i < len(steps) {
					steps[i]()
					c.settle()
				}
			}
		}
		if !c.big && rapid.Bool().Draw(t, "prelude") {
			// Optional warm start: the same generators in a fixed kind order, so that joins
			// meet existing state often.
			for _, k := range []int{0, 0, 4, 4, 6, 8, 8, 15, 15} {
				if c31OpDefs[k].run(c) {
					c.settle()
				}
			}
			c.classes["prelude"] = true
		}
		nOps := rapid.IntRange(1, maxOps).Draw(t, "nOps")
		for i := 0; i < nOps; i++ {
			var def c31OpDef
			c.forceBig = c.big && rapid.IntRange(0, 2).Draw(t, "bigOp") == 0
			if c.forceBig {
				def = c31OpDefs[rapid.SampledFrom([]int{1, 2}).Draw(t, "bigOpKind")] // setReplace / setDelta on big0
			} else {
				def = c31OpDefs[rapid.SampledFrom(c31OpTable).Draw(t, "op")]
			}
			ran := def.run(c)
			c.forceBig = false
			if !ran {
				continue // not enabled in this state; nothing was sent
			}
			c.settle()
		}
		// Evidence.
		nontrivial := false
		msgs := 0
		for _, s := range c.all {
			msgs += s.nmsgs
			if s.joinedNonEmpty && s.needChanged {
				nontrivial = true
			}
			if s.needChanged {
				c.classes["needs-changed-while-joined"] = true
			}
			for _, k := range c31Keys(s.seen) {
				c.classes[k] = true
			}
		}
		if c.big {
			c.classes["big-case"] = true
		}
		rec.SizedCase(nontrivial, strings.Join(c.kinds, ""), len(c.kinds), func() any { return map[string]any{"inputs": c.ops, "messages": msgs} }, c31Keys(c.classes)...)
	}
}
