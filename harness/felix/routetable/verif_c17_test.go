package routetable_test

// C17 — route sync converges for Felix's routes and leaves other routes alone.
//
// The real felix/routetable.RouteTable (main-table ownership policy from ownershippol) is
// driven through generated histories against the repo's exported mock netlink dataplane:
// generated starting routes (foreign routes of other protocols / on other interfaces / inside
// Calico's address space, stale routes Felix owns), desired-route changes per (class, iface)
// including the same destination in several classes, interface up/down/delete/re-create with a
// new index, injected netlink failures, out-of-band route edits, resync requests, restarts.
// After every Apply() that returns nil:
//   * routes Felix does not own are exactly as other software left them (always);
//   * if Felix's knowledge is current (no undelivered interface event, no route edited behind its
//     back since its last full resync): for every destination key the kernel holds the desired
//     route of the best (lowest) route class among the candidates whose interface is up, and
//     owned routes that are not wanted are gone (routes on a recently seen workload interface
//     without desired routes may linger while the clean-up grace period is configured);
//   * a final "converge" step (grace period elapsed, faults cleared, resync) is strict.

import (
	"fmt"
	"net"
	"runtime/debug"
	"sort"
	"strings"
	"sync"
	"testing"
	"time"

	"github.com/onsi/gomega"
	"github.com/vishvananda/netlink"
	"golang.org/x/sys/unix"
	"pgregory.net/rapid"

	"github.com/projectcalico/calico/felix/ifacemonitor"
	"github.com/projectcalico/calico/felix/ip"
	"github.com/projectcalico/calico/felix/netlinkshim"
	"github.com/projectcalico/calico/felix/netlinkshim/mocknetlink"
	"github.com/projectcalico/calico/felix/routetable"
	"github.com/projectcalico/calico/felix/routetable/ownershippol"
	"github.com/projectcalico/calico/felix/timeshim/mocktime"
	"github.com/projectcalico/calico/verifkit/ev"
)

// c17KnownRescanDropped names a finding this check made on the original tree (fixed since):
// RouteTable.resyncIface returned nil when listing an interface's routes failed, so
// resyncIndividualInterfaces dropped the interface from the rescan set and Apply reported success
// without having looked at the interface.  TestVerifC17RegressionRescanDropped pins the scenario.
const c17KnownRescanDropped = "c17-iface-rescan-dropped-after-route-list-failure"

// c17KnownStaleTracker names a finding this check made (fixed since; TestVerifC17RegressionStaleTracker pins it):
// RouteTable.resyncIface only re-validates the tracker entries of routes that are desired on the
// rescanned interface; a tracked route that is owned but not (yet) desired and that the kernel
// dropped when the link bounced stays in the tracker, so when it becomes desired later Felix
// believes it is already programmed.
const c17KnownStaleTracker = "c17-iface-rescan-keeps-vanished-undesired-route-in-tracker"

// c17KnownStaleIfaceState names a finding this check made (fixed since; TestVerifC17RegressionStaleIfaceState pins it):
// RouteTable.OnIfaceStateChanged, "interface renumbered" branch, drops ifaceIndexToName[old index]
// but keeps ifaceIndexToState[old index].  If that old index still exists under another name (the
// interface was renamed and its former name re-used), refreshAllIfaceStates sees oldState ==
// newState for it in every later full resync and never registers its new name.
const c17KnownStaleIfaceState = "c17-renumbered-iface-leaves-stale-state-for-surviving-index"

type c17NoopRecorder struct{}

func (c17NoopRecorder) RecordOperation(string) {}

// The mock netlink dataplane asserts with Gomega and swallows failed assertions through
// GinkgoRecover (outside a Ginkgo run).  Register a handler that remembers the message so
// the harness can report it instead of silently continuing with zero values.
var (
	c17MockMu       sync.Mutex
	c17MockFailures []string
	c17Once         sync.Once
)

func c17HookGomega() {
	c17Once.Do(func() {
		gomega.RegisterFailHandler(func(message string, _ ...int) {
			c17MockMu.Lock()
			c17MockFailures = append(c17MockFailures, message)
			c17MockMu.Unlock()
			panic("mocknetlink assertion failed: " + message)
		})
	})
}

func c17TakeMockFailures() []string {
	c17MockMu.Lock()
	defer c17MockMu.Unlock()
	f := c17MockFailures
	c17MockFailures = nil
	return f
}

const (
	c17VXLANIface = "vxlan.calico"
	c17ProtoBIRD  = netlink.RouteProtocol(unix.RTPROT_BIRD)
	c17ProtoExcl  = netlink.RouteProtocol(80) // dataplanedefs.DefaultRouteProto
)

var c17Ifaces = []string{"cali1", "cali2", "cali3", "eth0", c17VXLANIface, "tunl0"}

func c17IsWorkload(name string) bool { return strings.HasPrefix(name, "cali") }

type c17Cfg struct {
	devProto       netlink.RouteProtocol
	removeExternal bool
	ownBIRD        bool
	grace          time.Duration
	srcAddr        net.IP
}

func (c c17Cfg) exclusiveProto() netlink.RouteProtocol {
	if c.devProto == unix.RTPROT_BOOT {
		return c17ProtoExcl
	}
	return c.devProto
}

// owned is the harness's own reading of the documented main-table ownership rules.
func (c c17Cfg) owned(ifaceName string, r *netlink.Route) bool {
	if r.Protocol == c.exclusiveProto() {
		return true
	}
	if ifaceName == "" { // no-interface special route: ours only with the exclusive protocol
		return false
	}
	if c17IsWorkload(ifaceName) {
		if c.removeExternal {
			return true
		}
		return r.Protocol == c.devProto || r.Protocol == c.exclusiveProto()
	}
	if c.ownBIRD && ifaceName == "tunl0" && r.Protocol == c17ProtoBIRD {
		return true
	}
	return ifaceName == c17VXLANIface || ifaceName == "bpfin.cali"
}

type c17Key struct {
	CIDR string
	Prio int
}

func (k c17Key) String() string { return fmt.Sprintf("%s/m%d", k.CIDR, k.Prio) }

type c17Want struct {
	Class  routetable.RouteClass
	Iface  string
	Target routetable.Target
}

type c17H struct {
	t   *rapid.T
	cfg c17Cfg
	dp  *mocknetlink.MockNetlinkDataplane
	tm  *mocktime.MockTime
	rt  *routetable.RouteTable

	nextIdx int
	// desired[class][iface][key]
	desired map[routetable.RouteClass]map[string]map[c17Key]routetable.Target

	foreign map[string]netlink.Route // mock key -> route, everything Felix does not own

	pendingIfaceEvents []func() // undelivered OnIfaceStateChanged calls
	// ifaceStale: the kernel's interfaces changed and Felix has neither received the event(s) nor
	// re-listed the links in a full resync since.
	ifaceStale    bool
	renamePending bool // an in-place rename whose events are still undelivered
	// believedNames: ifindex -> name as of the last moment Felix's interface knowledge was
	// complete (all events delivered, or a full resync).
	believedNames         map[int]string
	suspectStaleIfaceState bool
	extDirty           bool     // a route was edited behind Felix's back since its last full resync
	resyncRequested    bool     // QueueResync (or a new RouteTable) since the last such edit
	faultsSinceGood    int
	sawConflict        bool
	suspectStaleTracker bool
	eintrArmed          bool // next whole-table route dump is interrupted after a concurrent removal
	eintrPick           int
	rec                 *ev.Recorder

	ops        []string
	classes    map[string]bool
	nontrivial bool
}

func c17MustCIDR(s string) *net.IPNet {
	_, n, err := net.ParseCIDR(s)
	if err != nil {
		panic(err)
	}
	return n
}

func (h *c17H) ifaceNameOfIndex(idx int) string {
	for name, l := range h.dp.NameToLink {
		if l.LinkAttrs.Index == idx {
			return name
		}
	}
	return ""
}

func (h *c17H) routeOwned(r *netlink.Route) bool {
	name := ""
	if r.LinkIndex > 1 {
		name = h.ifaceNameOfIndex(r.LinkIndex)
		if name == "" {
			// Route via an interface that no longer exists cannot persist in a real kernel; the
			// harness removes such routes itself, so this is unreachable.
			return false
		}
	}
	return h.cfg.owned(name, r)
}

func c17RouteString(r netlink.Route) string {
	return fmt.Sprintf("{dst=%v oif=%d gw=%v src=%v proto=%d type=%d scope=%d flags=%#x mtu=%d metric=%d table=%d}",
		r.Dst, r.LinkIndex, r.Gw, r.Src, r.Protocol, r.Type, r.Scope, r.Flags, r.MTU, r.Priority, r.Table)
}

func (h *c17H) kernelDump() string {
	keys := make([]string, 0, len(h.dp.RouteKeyToRoute))
	for k := range h.dp.RouteKeyToRoute {
		keys = append(keys, k)
	}
	sort.Strings(keys)
	var b strings.Builder
	for _, k := range keys {
		r := h.dp.RouteKeyToRoute[k]
		own := "foreign"
		if h.routeOwned(&r) {
			own = "owned"
		}
		fmt.Fprintf(&b, "\n    %s %s [%s via %q]", k, c17RouteString(r), own, h.ifaceNameOfIndex(r.LinkIndex))
	}
	names := make([]string, 0)
	for n, l := range h.dp.NameToLink {
		names = append(names, fmt.Sprintf("%s=%d(running=%v)", n, l.LinkAttrs.Index, l.LinkAttrs.RawFlags&unix.IFF_RUNNING != 0))
	}
	sort.Strings(names)
	fmt.Fprintf(&b, "\n    ifaces: %v", names)
	return b.String()
}

func (h *c17H) desiredDump() string {
	var lines []string
	for class, byIface := range h.desired {
		for iface, byKey := range byIface {
			for k, t := range byKey {
				lines = append(lines, fmt.Sprintf("%v/%s/%s type=%q gw=%v proto=%d mtu=%d", class, iface, k, t.Type, t.GW, t.Protocol, t.MTU))
			}
		}
	}
	sort.Strings(lines)
	return "\n    " + strings.Join(lines, "\n    ")
}

func (h *c17H) fail(format string, a ...any) {
	if h.suspectStaleIfaceState {
		format = "[possibly " + c17KnownStaleIfaceState + ": an interface was renamed and its former name re-used by another ifindex before Felix's full resync] " + format
	}
	if h.suspectStaleTracker {
		format = "[possibly " + c17KnownStaleTracker + ": an owned but unwanted route vanished with its interface earlier in this history] " + format
	}
	h.t.Fatalf("%s\nconfig: %+v\nops=%v\ndesired:%s\nkernel routes:%s", fmt.Sprintf(format, a...), h.cfg, h.ops, h.desiredDump(), h.kernelDump())
}

func (h *c17H) checkMock() {
	if f := c17TakeMockFailures(); len(f) > 0 {
		h.t.Fatalf("HARNESS-GAP: mock netlink assertion failed (harness or code under test used the mock outside its contract): %v; ops=%v", f, h.ops)
	}
}

func (h *c17H) newRouteTable() {
	pol := ownershippol.NewMainTable(c17VXLANIface, h.cfg.devProto, []string{"cali"}, h.cfg.removeExternal, h.cfg.ownBIRD)
	h.rt = routetable.New(pol, 4, 10*time.Second, h.cfg.srcAddr, h.cfg.devProto, h.cfg.removeExternal, unix.RT_TABLE_MAIN,
		c17NoopRecorder{}, h.dp,
		routetable.WithRouteCleanupGracePeriod(h.cfg.grace),
		routetable.WithConntrackCleanup(false),
		routetable.WithTimeShim(h.tm),
		routetable.WithNetlinkHandleShim(func() (netlinkshim.Interface, error) {
			nl, err := h.dp.NewMockNetlink()
			if err != nil || nl == nil {
				return nl, err
			}
			return &c17Handle{Interface: nl, h: h}, nil
		}),
	)
	h.desired = map[routetable.RouteClass]map[string]map[c17Key]routetable.Target{}
	h.pendingIfaceEvents = nil
	h.ifaceStale, h.renamePending = false, false
	h.believedNames = map[int]string{}
	h.resyncRequested = true // a new RouteTable starts with a full resync
	// The mock allows one open handle at a time; the old table's handle is abandoned.
	h.dp.NetlinkOpen = false
}

func (h *c17H) refreshForeign() {
	h.foreign = map[string]netlink.Route{}
	for k, r := range h.dp.RouteKeyToRoute {
		if !h.routeOwned(&r) {
			h.foreign[k] = r
		}
	}
}

func (h *c17H) checkForeign(when string) {
	for k, want := range h.foreign {
		got, ok := h.dp.RouteKeyToRoute[k]
		if !ok {
			h.fail("%s: route %s %s, which Felix does not own, was removed", when, k, c17RouteString(want))
		}
		if c17RouteString(got) != c17RouteString(want) {
			h.fail("%s: route %s, which Felix does not own, was changed:\n now %s\n was %s", when, k, c17RouteString(got), c17RouteString(want))
		}
	}
}

// candidates returns, per destination key, the desired routes whose interface is currently
// present and oper-up (or that need no interface).
func (h *c17H) winners() map[c17Key][]c17Want {
	all := map[c17Key][]c17Want{}
	for class, byIface := range h.desired {
		for iface, byKey := range byIface {
			if iface != routetable.InterfaceNone {
				l, ok := h.dp.NameToLink[iface]
				if !ok || l.LinkAttrs.RawFlags&unix.IFF_RUNNING == 0 {
					continue
				}
			}
			for k, t := range byKey {
				all[k] = append(all[k], c17Want{Class: class, Iface: iface, Target: t})
			}
		}
	}
	out := map[c17Key][]c17Want{}
	for k, cands := range all {
		best := routetable.RouteClassMax
		classesSeen := map[routetable.RouteClass]bool{}
		for _, c := range cands {
			classesSeen[c.Class] = true
			if c.Class < best {
				best = c.Class
			}
		}
		if len(classesSeen) > 1 {
			h.sawConflict = true
		}
		for _, c := range cands {
			if c.Class == best {
				out[k] = append(out[k], c)
			}
		}
	}
	return out
}

func (h *c17H) expectedRoute(w c17Want, k c17Key) netlink.Route {
	t := w.Target
	r := netlink.Route{
		Dst:      c17MustCIDR(k.CIDR),
		Priority: k.Prio,
		Table:    unix.RT_TABLE_MAIN,
		Type:     t.RouteType(),
		Scope:    t.RouteScope(),
		Protocol: h.cfg.devProto,
		MTU:      t.MTU,
		Flags:    int(t.Flags()),
	}
	if t.Protocol != 0 {
		r.Protocol = t.Protocol
	}
	if w.Iface != routetable.InterfaceNone {
		r.LinkIndex = h.dp.NameToLink[w.Iface].LinkAttrs.Index
	}
	if t.GW != nil {
		r.Gw = t.GW.AsNetIP()
	}
	if t.Src != nil {
		r.Src = t.Src.AsNetIP()
	} else if h.cfg.srcAddr != nil {
		r.Src = h.cfg.srcAddr
	}
	return r
}

func c17SameRoute(a, b netlink.Route) bool {
	ipEq := func(x, y net.IP) bool { return (len(x) == 0 && len(y) == 0) || x.Equal(y) }
	return a.Dst.String() == b.Dst.String() && a.Priority == b.Priority && a.LinkIndex == b.LinkIndex &&
		ipEq(a.Gw, b.Gw) && ipEq(a.Src, b.Src) && a.Protocol == b.Protocol && a.Type == b.Type && a.Scope == b.Scope &&
		a.Flags&unix.RTNH_F_ONLINK == b.Flags&unix.RTNH_F_ONLINK && a.MTU == b.MTU
}

func c17MockKey(k c17Key) string {
	return mocknetlink.KeyForRoute(&netlink.Route{Table: unix.RT_TABLE_MAIN, Dst: c17MustCIDR(k.CIDR), Priority: k.Prio})
}

// checkExact: desired winners present, unwanted owned routes gone.
func (h *c17H) checkExact(when string, strict bool) {
	win := h.winners()
	wantedKeys := map[string]bool{}
	keys := make([]c17Key, 0, len(win))
	for k := range win {
		keys = append(keys, k)
	}
	sort.Slice(keys, func(i, j int) bool { return keys[i].String() < keys[j].String() })
	for _, k := range keys {
		mk := c17MockKey(k)
		wantedKeys[mk] = true
		got, ok := h.dp.RouteKeyToRoute[mk]
		if !ok {
			h.fail("%s: desired route %s (candidates %v) is missing from the kernel", when, k, c17WantList(win[k]))
		}
		match := false
		for _, w := range win[k] {
			if c17SameRoute(got, h.expectedRoute(w, k)) {
				match = true
			}
		}
		if !match {
			var exp []string
			for _, w := range win[k] {
				exp = append(exp, fmt.Sprintf("%v/%s: %s", w.Class, w.Iface, c17RouteString(h.expectedRoute(w, k))))
			}
			h.fail("%s: kernel route for %s is not the desired route of the best route class:\n kernel: %s\n wanted one of: %v", when, k, c17RouteString(got), exp)
		}
	}
	for mk, r := range h.dp.RouteKeyToRoute {
		if wantedKeys[mk] || !h.routeOwned(&r) {
			continue
		}
		name := h.ifaceNameOfIndex(r.LinkIndex)
		if !strict && h.cfg.grace > 0 && c17IsWorkload(name) && !h.ifaceHasDesired(name) {
			// Documented grace period for routes on workload interfaces Felix has not been told
			// about yet (the CNI plugin may have raced ahead).
			h.classes["grace-period-leftover"] = true
			continue
		}
		h.fail("%s: route %s %s is owned by Felix (via %q) but not wanted, and is still in the kernel", when, mk, c17RouteString(r), name)
	}
}

func c17WantList(ws []c17Want) []string {
	var out []string
	for _, w := range ws {
		out = append(out, fmt.Sprintf("%v/%s", w.Class, w.Iface))
	}
	sort.Strings(out)
	return out
}

func (h *c17H) ifaceHasDesired(name string) bool {
	for _, byIface := range h.desired {
		if len(byIface[name]) > 0 {
			return true
		}
	}
	return false
}

// apply runs Apply() once; returns its error.
func (h *c17H) apply() error {
	// Documented: when Felix wants a route for a destination key it atomically replaces whatever
	// route held that key before, owned or not.  Such routes stop being "other software's".
	for _, byIface := range h.desired {
		for _, byKey := range byIface {
			for k := range byKey {
				if _, ok := h.foreign[c17MockKey(k)]; ok {
					delete(h.foreign, c17MockKey(k))
					h.classes["foreign-route-key-taken-over"] = true
				}
			}
		}
	}
	armed := h.dp.FailuresToSimulate&mocknetlink.FailNextLinkByNameNotFound != 0
	var err error
	var pv any
	var stack []byte
	func() {
		defer func() {
			if pv = recover(); pv != nil {
				stack = debug.Stack()
			}
		}()
		err = h.rt.Apply()
	}()
	if pv != nil {
		msg := fmt.Sprint(pv)
		if e, ok := pv.(interface{ String() (string, error) }); ok {
			if str, serr := e.String(); serr == nil {
				msg = str
			}
		}
		// Documented give-up: three connection attempts in a row failed (only injected faults
		// can cause that here); Felix restarts.
		if mf := c17TakeMockFailures(); len(mf) > 0 {
			// The mock answered a call on a closed handle with (nil, nil) after swallowing its own
			// assertion (a real closed socket returns an error); what follows is an artefact of the
			// mock, not behaviour of the code under test.  Discard the case.
			h.rec.Class("discarded-mock-contract-violation", 1)
			h.t.Skipf("mock netlink contract violated (%v); case discarded", mf)
		}
		if !strings.Contains(msg, "Repeatedly failed to connect to netlink") {
			h.t.Fatalf("Apply panicked: %s\nmock assertion failures: %v\nops=%v\n%s", msg, c17TakeMockFailures(), h.ops, stack)
		}
		h.checkMock()
		h.checkForeign("after Apply gave up connecting")
		h.classes["gave-up-panic"] = true
		h.ops = append(h.ops, "PANIC")
		h.dp.FailuresToSimulate = 0
		h.newRouteTable()
		return fmt.Errorf("felix gave up: %s", msg)
	}
	h.checkMock()
	h.purgeImpossibleRoutes()
	if armed && h.dp.FailuresToSimulate&mocknetlink.FailNextLinkByNameNotFound == 0 {
		// "Link not found" is not a failure but false information (the interface is reported
		// gone); Felix rightly believes it until a later full resync re-lists the links.
		h.extDirty = true
		h.resyncRequested = false
		h.classes["lied-link-not-found"] = true
	}
	h.checkForeign("after Apply")
	if err != nil {
		h.classes["apply-error"] = true
		return err
	}
	if h.resyncRequested {
		// A full resync (requested after the last change Felix was not told about) completed:
		// Felix listed links and routes itself, its knowledge is current even if the interface
		// monitor's events are still on their way.
		h.extDirty = false
		h.resyncRequested = false
		if h.ifaceStale && h.nameMovedToOtherIndex() {
			h.suspectStaleIfaceState = true // only used to annotate a failure message
			h.classes["name-moved-to-other-index-seen-first-by-full-resync"] = true
		}
		if h.ifaceStale {
			h.classes["iface-change-seen-first-by-full-resync"] = true
		}
		if h.renamePending {
			h.classes["rename-seen-first-by-full-resync"] = true
			h.renamePending = false
		}
		h.ifaceStale = false
		h.syncBelief()
	}
	if h.ifaceStale || h.extDirty {
		h.classes["apply-with-stale-knowledge"] = true
		return nil
	}
	h.checkExact("after Apply returned nil", false)
	h.classes["verified-apply"] = true
	if h.faultsSinceGood > 0 || h.sawConflict {
		h.nontrivial = true
	}
	if h.sawConflict {
		h.classes["class-conflict-resolved"] = true
	}
	h.faultsSinceGood = 0
	return nil
}

// purgeImpossibleRoutes drops routes the mock accepted although their interface is gone or
// down (a kernel refuses those with ENODEV/ENETDOWN; it happens when an interface event has not
// reached Felix yet).
func (h *c17H) purgeImpossibleRoutes() {
	for k, r := range h.dp.RouteKeyToRoute {
		if r.LinkIndex <= 1 {
			continue
		}
		name := h.ifaceNameOfIndex(r.LinkIndex)
		if name == "" || h.dp.NameToLink[name].LinkAttrs.RawFlags&unix.IFF_RUNNING == 0 {
			delete(h.dp.RouteKeyToRoute, k)
			delete(h.foreign, k)
			h.classes["mock-accepted-route-on-missing-iface-purged"] = true
		}
	}
}

// removeRoutesVia mimics the kernel dropping routes when their interface goes away / down.
// (Called while the interface is still up in the mock.)
func (h *c17H) removeRoutesVia(idx int) {
	wanted := map[string]bool{}
	for k := range h.winners() {
		wanted[c17MockKey(k)] = true
	}
	for k, r := range h.dp.RouteKeyToRoute {
		if r.LinkIndex == idx && h.routeOwned(&r) && !wanted[k] {
			// An owned route Felix does not want (kept only by the grace period, or whose
			// deletion failed) vanishes with its interface: finding c17KnownStaleTracker.
			h.suspectStaleTracker = true
		}
	}
	for k, r := range h.dp.RouteKeyToRoute {
		if r.LinkIndex == idx {
			delete(h.dp.RouteKeyToRoute, k)
			delete(h.foreign, k)
		}
	}
}

func (h *c17H) notify(t *rapid.T, name string, idx int, st ifacemonitor.State) {
	ev := func() { h.rt.OnIfaceStateChanged(name, idx, st) }
	if rapid.IntRange(0, 4).Draw(t, "lagNotification") == 0 {
		h.lag(ev)
		return
	}
	h.deliverPending()
	ev()
	h.syncBelief()
}

func (h *c17H) syncBelief() {
	h.believedNames = map[int]string{}
	for n, l := range h.dp.NameToLink {
		h.believedNames[l.LinkAttrs.Index] = n
	}
}

// nameMovedToOtherIndex: an interface Felix knew still exists under a new name while the name
// Felix knew it by now belongs to a different ifindex (finding c17KnownStaleIfaceState).
func (h *c17H) nameMovedToOtherIndex() bool {
	for idx, oldName := range h.believedNames {
		cur := h.ifaceNameOfIndex(idx)
		if cur == "" || cur == oldName {
			continue
		}
		if l, ok := h.dp.NameToLink[oldName]; ok && l.LinkAttrs.Index != idx {
			return true
		}
	}
	return false
}

// lag queues interface events for later delivery.  A resync requested earlier may already have
// run (inside an Apply that failed later), so only one requested from now on counts.
func (h *c17H) lag(evs ...func()) {
	h.pendingIfaceEvents = append(h.pendingIfaceEvents, evs...)
	h.ifaceStale = true
	h.resyncRequested = false
	h.classes["iface-event-lagged"] = true
}

func (h *c17H) deliverPending() {
	for _, e := range h.pendingIfaceEvents {
		e()
	}
	h.pendingIfaceEvents = nil
	h.ifaceStale = false
	h.renamePending = false
	h.syncBelief()
}

// The pools overlap on purpose: the same destination wanted by several route classes.
var c17WorkloadCIDRs = []string{"10.0.0.1/32", "10.0.0.2/32", "10.0.1.0/26", "10.0.2.0/26"}
var c17BlockCIDRs = []string{"10.0.1.0/26", "10.0.2.0/26", "10.0.0.1/32", "10.0.3.0/26"}

func (h *c17H) drawTarget(t *rapid.T, class routetable.RouteClass, iface string) routetable.Target {
	var tg routetable.Target
	switch class {
	case routetable.RouteClassLocalWorkload:
		tg = routetable.Target{RouteKey: routetable.RouteKey{CIDR: ip.MustParseCIDROrIP(rapid.SampledFrom(c17WorkloadCIDRs).Draw(t, "cidr"))}}
		if rapid.IntRange(0, 3).Draw(t, "elevatedPrio") == 0 {
			tg.Priority = 512
		}
	case routetable.RouteClassVXLANTunnel:
		c := rapid.SampledFrom(c17BlockCIDRs).Draw(t, "cidr")
		tg = routetable.Target{RouteKey: routetable.RouteKey{CIDR: ip.MustParseCIDROrIP(c)}, Type: routetable.TargetTypeVXLAN,
			GW: ip.FromString(rapid.SampledFrom([]string{"10.0.2.0", "10.0.3.0"}).Draw(t, "gw")), MTU: rapid.SampledFrom([]int{0, 1450}).Draw(t, "mtu")}
	case routetable.RouteClassVXLANSameSubnet, routetable.RouteClassNoEncap:
		c := rapid.SampledFrom(c17BlockCIDRs).Draw(t, "cidr")
		tg = routetable.Target{RouteKey: routetable.RouteKey{CIDR: ip.MustParseCIDROrIP(c)}, Type: routetable.TargetTypeNoEncap,
			GW: ip.FromString(rapid.SampledFrom([]string{"192.168.0.2", "192.168.0.3"}).Draw(t, "gw")), Protocol: h.cfg.exclusiveProto()}
	case routetable.RouteClassIPIPTunnel:
		c := rapid.SampledFrom(c17BlockCIDRs).Draw(t, "cidr")
		tg = routetable.Target{RouteKey: routetable.RouteKey{CIDR: ip.MustParseCIDROrIP(c)}, Type: routetable.TargetTypeOnLink,
			GW: ip.FromString(rapid.SampledFrom([]string{"192.168.0.2", "192.168.0.3"}).Draw(t, "gw")), Protocol: h.cfg.exclusiveProto()}
	case routetable.RouteClassBlackholeVXLAN:
		c := rapid.SampledFrom(c17BlockCIDRs).Draw(t, "cidr")
		// Every no-interface target type the route table supports.
		typ := rapid.SampledFrom([]routetable.TargetType{routetable.TargetTypeBlackhole, routetable.TargetTypeBlackhole,
			routetable.TargetTypeUnreachable, routetable.TargetTypeProhibit, routetable.TargetTypeThrow}).Draw(t, "specialType")
		tg = routetable.Target{RouteKey: routetable.RouteKey{CIDR: ip.MustParseCIDROrIP(c)}, Type: typ, Protocol: h.cfg.exclusiveProto()}
		h.classes["desired-noiface-"+string(typ)] = true
	}
	if rapid.IntRange(0, 5).Draw(t, "ownSrc") == 0 && class != routetable.RouteClassBlackholeVXLAN {
		tg.Src = ip.FromString("10.0.0.254")
	}
	return tg
}

// c17Handle wraps the netlink handle the RouteTable gets from the mock, to emulate a route dump
// that is interrupted (EINTR) because the kernel's table changed while it was being dumped.
type c17Handle struct {
	netlinkshim.Interface
	h *c17H
}

func (n *c17Handle) RouteListFilteredIter(family int, filter *netlink.Route, filterMask uint64, f func(netlink.Route) bool) error {
	h := n.h
	if !h.eintrArmed || filterMask&netlink.RT_FILTER_OIF != 0 {
		return n.Interface.RouteListFilteredIter(family, filter, filterMask, f)
	}
	// A whole-table dump (full resync): deliver the routes, then the kernel changes and the dump
	// ends with EINTR.  The retried dump runs normally and sees the final state.
	routes, err := n.Interface.RouteListFiltered(family, filter, filterMask)
	if err != nil {
		return err
	}
	h.eintrArmed = false
	sort.Slice(routes, func(i, j int) bool { return mocknetlink.KeyForRoute(&routes[i]) < mocknetlink.KeyForRoute(&routes[j]) })
	for _, r := range routes {
		if !f(r) {
			break
		}
	}
	// Remove one Felix-owned route (another agent, or a link flap the kernel already undid);
	// prefer one Felix currently wants.
	wanted := map[string]bool{}
	for k := range h.winners() {
		wanted[c17MockKey(k)] = true
	}
	var ownedWanted, owned []string
	for k, r := range h.dp.RouteKeyToRoute {
		if h.routeOwned(&r) {
			owned = append(owned, k)
			if wanted[k] {
				ownedWanted = append(ownedWanted, k)
			}
		}
	}
	pickFrom := ownedWanted
	if len(pickFrom) == 0 {
		pickFrom = owned
	}
	if len(pickFrom) > 0 {
		sort.Strings(pickFrom)
		delete(h.dp.RouteKeyToRoute, pickFrom[h.eintrPick%len(pickFrom)])
		h.classes["eintr-dump-with-concurrent-removal"] = true
		if len(ownedWanted) > 0 {
			h.classes["eintr-dump-removed-wanted-route"] = true
		}
	} else {
		h.classes["eintr-dump-nothing-to-remove"] = true
	}
	h.faultsSinceGood++
	return unix.EINTR
}

type c17Slot struct {
	Class routetable.RouteClass
	Iface string
}

// Which (class, iface) pairs real callers use.
var c17Slots = []c17Slot{
	{routetable.RouteClassLocalWorkload, "cali1"},
	{routetable.RouteClassLocalWorkload, "cali2"},
	{routetable.RouteClassLocalWorkload, "cali3"},
	{routetable.RouteClassVXLANTunnel, c17VXLANIface},
	{routetable.RouteClassVXLANSameSubnet, "eth0"},
	{routetable.RouteClassNoEncap, "eth0"},
	{routetable.RouteClassIPIPTunnel, "tunl0"},
	{routetable.RouteClassBlackholeVXLAN, routetable.InterfaceNone},
}

func c17KeyOf(t routetable.Target) c17Key {
	return c17Key{CIDR: t.CIDR.String(), Prio: t.Priority}
}

func (h *c17H) modelSet(s c17Slot, targets []routetable.Target) {
	if h.desired[s.Class] == nil {
		h.desired[s.Class] = map[string]map[c17Key]routetable.Target{}
	}
	m := map[c17Key]routetable.Target{}
	for _, t := range targets {
		m[c17KeyOf(t)] = t
	}
	if len(m) == 0 {
		delete(h.desired[s.Class], s.Iface)
	} else {
		h.desired[s.Class][s.Iface] = m
	}
}

func TestVerifC17RouteSync(t *testing.T) {
	ev.Quiet()
	c17HookGomega()
	rec := ev.New("C17", "routetable",
		"rapid state machine over felix/routetable.RouteTable (IPv4 main table, ownershippol.NewMainTable) on the repo's mock netlink dataplane: generated config (device route protocol boot/80, RemoveExternalRoutes, Felix-owns-BIRD-IPIP-routes, grace period), starting routes (foreign: other protocol / host NIC / inside Calico address space / different metric; stale owned routes), ops SetRoutes/RouteUpdate/RouteRemove per (class, iface) with the same destination in several classes, interface add/up/down/delete/re-create with new index (event delivery may lag), out-of-band route edits, FailNext* netlink faults, QueueResync, Apply / Apply-until-nil, clock advance, restart. Non-trivial = a verified Apply after >=1 injected fault or with a destination wanted by more than one route class; distinct = op-kind sequence",
		"routes via an interface are dropped by the harness when that interface goes down or away, as the kernel does (the mock does not)",
		"targets carry the protocol real callers give them: the exclusive protocol for no-interface, host-NIC and IPIP routes",
		"TOS is always 0 (the mock's route key ignores TOS); no multi-path routes; no static ARP entries; conntrack clean-up disabled")
	defer rec.Write()
	rapid.Check(t, func(t *rapid.T) {
		c17TakeMockFailures()
		h := &c17H{t: t, classes: map[string]bool{}, nextIdx: 10, rec: rec}
		h.cfg = c17Cfg{
			devProto:       rapid.SampledFrom([]netlink.RouteProtocol{unix.RTPROT_BOOT, unix.RTPROT_BOOT, 80}).Draw(t, "deviceRouteProtocol"),
			removeExternal: rapid.Bool().Draw(t, "removeExternalRoutes"),
			ownBIRD:        rapid.Bool().Draw(t, "programIPIPClusterRoutes"),
			grace:          rapid.SampledFrom([]time.Duration{0, 0, 10 * time.Second}).Draw(t, "routeCleanupGracePeriod"),
		}
		if rapid.Bool().Draw(t, "deviceRouteSourceAddress") {
			h.cfg.srcAddr = net.ParseIP("10.0.0.100").To4()
		}
		h.classes[fmt.Sprintf("proto-%d", h.cfg.devProto)] = true
		if h.cfg.grace > 0 {
			h.classes["grace-configured"] = true
		}
		h.dp = mocknetlink.New()
		h.tm = mocktime.New()

		// ---- starting kernel state
		addIface := func(name string, up bool) int {
			h.nextIdx++
			h.dp.AddIface(h.nextIdx, name, up, up)
			return h.nextIdx
		}
		for _, n := range c17Ifaces {
			switch rapid.IntRange(0, 3).Draw(t, "startIface:"+n) {
			case 0:
			case 1:
				addIface(n, false)
			default:
				addIface(n, true)
			}
		}
		addRoute := func(r netlink.Route) {
			r.Table = unix.RT_TABLE_MAIN
			r.Family = unix.AF_INET
			h.dp.AddMockRoute(&r)
		}
		type startRoute struct {
			iface string
			r     netlink.Route
			class string
		}
		cands := []startRoute{
			{"eth0", netlink.Route{Dst: c17MustCIDR("172.16.0.0/16"), Protocol: unix.RTPROT_KERNEL, Scope: netlink.SCOPE_LINK, Type: unix.RTN_UNICAST}, "start-foreign"},
			{"eth0", netlink.Route{Dst: c17MustCIDR("0.0.0.0/0"), Gw: net.ParseIP("192.168.0.1"), Protocol: unix.RTPROT_DHCP, Type: unix.RTN_UNICAST}, "start-foreign"},
			{"eth0", netlink.Route{Dst: c17MustCIDR("10.0.2.0/26"), Gw: net.ParseIP("192.168.0.9"), Protocol: c17ProtoBIRD, Type: unix.RTN_UNICAST}, "start-foreign-in-calico-space"},
			{"eth0", netlink.Route{Dst: c17MustCIDR("10.0.1.0/26"), Gw: net.ParseIP("192.168.0.9"), Protocol: unix.RTPROT_STATIC, Type: unix.RTN_UNICAST, Priority: 77}, "start-foreign-same-dst-other-metric"},
			{"tunl0", netlink.Route{Dst: c17MustCIDR("10.0.3.0/26"), Gw: net.ParseIP("192.168.0.3"), Protocol: c17ProtoBIRD, Type: unix.RTN_UNICAST, Flags: unix.RTNH_F_ONLINK}, "start-bird-ipip-route"},
			{"", netlink.Route{Dst: c17MustCIDR("10.0.9.0/26"), Protocol: c17ProtoBIRD, Type: unix.RTN_BLACKHOLE}, "start-foreign-blackhole"},
			{"", netlink.Route{Dst: c17MustCIDR("10.0.8.0/26"), Protocol: 80, Type: unix.RTN_BLACKHOLE}, "start-blackhole-proto80"},
			{"", netlink.Route{Dst: c17MustCIDR("10.0.8.64/26"), Protocol: 80, Type: unix.RTN_UNREACHABLE}, "start-stale-noiface-unreachable"},
			{"", netlink.Route{Dst: c17MustCIDR("10.0.8.128/26"), Protocol: 80, Type: unix.RTN_PROHIBIT}, "start-stale-noiface-prohibit"},
			{"", netlink.Route{Dst: c17MustCIDR("10.0.8.192/26"), Protocol: 80, Type: unix.RTN_THROW}, "start-stale-noiface-throw"},
			{"", netlink.Route{Dst: c17MustCIDR("10.0.9.64/26"), Protocol: c17ProtoBIRD, Type: unix.RTN_UNREACHABLE}, "start-foreign-noiface-unreachable"},
			{"", netlink.Route{Dst: c17MustCIDR("10.0.9.128/26"), Protocol: unix.RTPROT_STATIC, Type: unix.RTN_PROHIBIT}, "start-foreign-noiface-prohibit"},
			{"cali1", netlink.Route{Dst: c17MustCIDR("10.0.0.9/32"), Protocol: unix.RTPROT_BOOT, Scope: netlink.SCOPE_LINK, Type: unix.RTN_UNICAST}, "start-workload-route-boot"},
			{"cali2", netlink.Route{Dst: c17MustCIDR("10.0.0.8/32"), Protocol: unix.RTPROT_STATIC, Scope: netlink.SCOPE_LINK, Type: unix.RTN_UNICAST}, "start-workload-route-static"},
			{"cali3", netlink.Route{Dst: c17MustCIDR("10.0.0.3/32"), Protocol: 80, Scope: netlink.SCOPE_LINK, Type: unix.RTN_UNICAST}, "start-workload-route-80"},
			{c17VXLANIface, netlink.Route{Dst: c17MustCIDR("10.0.7.0/26"), Gw: net.ParseIP("10.0.7.0"), Protocol: unix.RTPROT_BOOT, Type: unix.RTN_UNICAST, Flags: unix.RTNH_F_ONLINK}, "start-stale-vxlan-route"},
			{"eth0", netlink.Route{Dst: c17MustCIDR("10.0.6.0/26"), Gw: net.ParseIP("192.168.0.6"), Protocol: 80, Type: unix.RTN_UNICAST}, "start-stale-same-subnet-proto80"},
		}
		for i, c := range cands {
			if rapid.IntRange(0, 2).Draw(t, fmt.Sprintf("startRoute%d", i)) == 0 {
				continue
			}
			r := c.r
			if c.iface != "" {
				l, ok := h.dp.NameToLink[c.iface]
				if !ok || l.LinkAttrs.RawFlags&unix.IFF_RUNNING == 0 {
					continue
				}
				r.LinkIndex = l.LinkAttrs.Index
			}
			addRoute(r)
			h.classes[c.class] = true
		}
		h.refreshForeign()
		if len(h.foreign) > 0 {
			h.classes["start-has-foreign"] = true
		}
		h.newRouteTable()

		foreignKeys := func() []string {
			ks := make([]string, 0, len(h.foreign))
			for k := range h.foreign {
				ks = append(ks, k)
			}
			sort.Strings(ks)
			return ks
		}

		t.Repeat(map[string]func(*rapid.T){
			"setRoutes": func(t *rapid.T) {
				s := rapid.SampledFrom(c17Slots).Draw(t, "slot")
				n := rapid.IntRange(0, 3).Draw(t, "n")
				var ts []routetable.Target
				for i := 0; i < n; i++ {
					ts = append(ts, h.drawTarget(t, s.Class, s.Iface))
				}
				h.rt.SetRoutes(s.Class, s.Iface, ts)
				h.modelSet(s, ts)
				h.ops = append(h.ops, "S")
			},
			"routeUpdate": func(t *rapid.T) {
				s := rapid.SampledFrom(c17Slots).Draw(t, "slot")
				tg := h.drawTarget(t, s.Class, s.Iface)
				h.rt.RouteUpdate(s.Class, s.Iface, tg)
				if h.desired[s.Class] == nil {
					h.desired[s.Class] = map[string]map[c17Key]routetable.Target{}
				}
				if h.desired[s.Class][s.Iface] == nil {
					h.desired[s.Class][s.Iface] = map[c17Key]routetable.Target{}
				}
				h.desired[s.Class][s.Iface][c17KeyOf(tg)] = tg
				h.ops = append(h.ops, "U")
			},
			"routeRemove": func(t *rapid.T) {
				s := rapid.SampledFrom(c17Slots).Draw(t, "slot")
				m := h.desired[s.Class][s.Iface]
				if len(m) == 0 {
					t.Skip("nothing to remove")
				}
				ks := make([]c17Key, 0, len(m))
				for k := range m {
					ks = append(ks, k)
				}
				sort.Slice(ks, func(i, j int) bool { return ks[i].String() < ks[j].String() })
				k := rapid.SampledFrom(ks).Draw(t, "key")
				h.rt.RouteRemove(s.Class, s.Iface, m[k].RouteKey)
				delete(m, k)
				if len(m) == 0 {
					delete(h.desired[s.Class], s.Iface)
				}
				h.ops = append(h.ops, "R")
			},
			"ifaceChange": func(t *rapid.T) {
				name := rapid.SampledFrom(c17Ifaces).Draw(t, "iface")
				l, exists := h.dp.NameToLink[name]
				kind := rapid.IntRange(0, 3).Draw(t, "kind")
				switch {
				case !exists:
					idx := addIface(name, true)
					h.notify(t, name, idx, ifacemonitor.StateUp)
					h.classes["iface-added"] = true
				case kind == 0: // delete
					idx := l.LinkAttrs.Index
					h.removeRoutesVia(idx)
					h.dp.DelIface(name)
					h.notify(t, name, idx, ifacemonitor.StateNotPresent)
					h.classes["iface-deleted"] = true
				case kind == 1: // toggle oper state
					idx := l.LinkAttrs.Index
					if l.LinkAttrs.RawFlags&unix.IFF_RUNNING != 0 {
						h.removeRoutesVia(idx)
						h.dp.SetIface(name, false, false)
						h.notify(t, name, idx, ifacemonitor.StateDown)
						h.classes["iface-down"] = true
					} else {
						h.dp.SetIface(name, true, true)
						h.notify(t, name, idx, ifacemonitor.StateUp)
						h.classes["iface-up"] = true
					}
				default: // re-create with a new index
					old := l.LinkAttrs.Index
					h.removeRoutesVia(old)
					h.dp.DelIface(name)
					idx := addIface(name, true)
					if rapid.Bool().Draw(t, "sendDeletionFirst") {
						h.notify(t, name, old, ifacemonitor.StateNotPresent)
					}
					h.notify(t, name, idx, ifacemonitor.StateUp)
					h.classes["iface-recreated-new-index"] = true
				}
				h.faultsSinceGood++
				h.ops = append(h.ops, "i")
			},
			"ifaceFlap": func(t *rapid.T) {
				// The link bounces (down, then up again) between two applies; the kernel drops
				// the routes via it, both events are delivered.
				var up []string
				for _, n := range c17Ifaces {
					if l, ok := h.dp.NameToLink[n]; ok && l.LinkAttrs.RawFlags&unix.IFF_RUNNING != 0 {
						up = append(up, n)
					}
				}
				if len(up) == 0 {
					t.Skip("no interface up")
				}
				name := rapid.SampledFrom(up).Draw(t, "iface")
				idx := h.dp.NameToLink[name].LinkAttrs.Index
				h.removeRoutesVia(idx)
				h.deliverPending()
				h.rt.OnIfaceStateChanged(name, idx, ifacemonitor.StateDown)
				h.rt.OnIfaceStateChanged(name, idx, ifacemonitor.StateUp)
				h.classes["iface-flap"] = true
				h.faultsSinceGood++
				h.ops = append(h.ops, "b")
			},
			"ifaceRename": func(t *rapid.T) {
				// A workload interface is renamed in place (same ifindex, same oper state, routes
				// stay), as the CNI plugin does with its temporary veth name.  The interface monitor
				// reports it as deletion of the old name plus creation of the new one; those events
				// arrive now, or only after Felix has looked at the links itself.
				var have, free []string
				for _, n := range []string{"cali1", "cali2", "cali3"} {
					if _, ok := h.dp.NameToLink[n]; ok {
						have = append(have, n)
					} else {
						free = append(free, n)
					}
				}
				if len(have) == 0 || len(free) == 0 {
					t.Skip("no workload interface to rename / no free name")
				}
				oldName := rapid.SampledFrom(have).Draw(t, "from")
				newName := rapid.SampledFrom(free).Draw(t, "to")
				l := h.dp.NameToLink[oldName]
				delete(h.dp.NameToLink, oldName)
				l.LinkAttrs.Name = newName
				h.dp.NameToLink[newName] = l
				idx := l.LinkAttrs.Index
				st := ifacemonitor.StateDown
				if l.LinkAttrs.RawFlags&unix.IFF_RUNNING != 0 {
					st = ifacemonitor.StateUp
				}
				evs := []func(){
					func() { h.rt.OnIfaceStateChanged(oldName, idx, ifacemonitor.StateNotPresent) },
					func() { h.rt.OnIfaceStateChanged(newName, idx, st) },
				}
				h.classes["iface-renamed"] = true
				h.faultsSinceGood++
				h.ops = append(h.ops, "n")
				switch rapid.IntRange(0, 2).Draw(t, "eventTiming") {
				case 0: // events first
					h.deliverPending()
					evs[0]()
					evs[1]()
					h.syncBelief()
					h.classes["iface-renamed-events-delivered"] = true
				case 1: // events late; whatever comes next decides who notices first
					h.lag(evs...)
					h.renamePending = true
					h.classes["iface-renamed-events-lagged"] = true
				default: // events late and the (periodic) full resync runs first
					h.lag(evs...)
					h.renamePending = true
					h.classes["iface-renamed-events-lagged"] = true
					h.rt.QueueResync()
					h.resyncRequested = true
					h.ops = append(h.ops, "qA")
					_ = h.apply()
				}
			},
			"deliverIfaceEvents": func(t *rapid.T) {
				h.deliverPending()
				h.ops = append(h.ops, "d")
			},
			"externalRouteEdit": func(t *rapid.T) {
				kind := rapid.IntRange(0, 3).Draw(t, "kind")
				switch {
				case kind == 0: // another program adds / changes a route of its own
					l, ok := h.dp.NameToLink["eth0"]
					if !ok || l.LinkAttrs.RawFlags&unix.IFF_RUNNING == 0 {
						t.Skip("eth0 not up")
					}
					r := netlink.Route{Dst: c17MustCIDR(rapid.SampledFrom([]string{"172.17.0.0/16", "10.0.2.0/26", "10.0.0.1/32"}).Draw(t, "dst")),
						Gw: net.ParseIP("192.168.0.77"), Protocol: unix.RTPROT_STATIC, Type: unix.RTN_UNICAST, Priority: 77, LinkIndex: l.LinkAttrs.Index}
					addRoute(r)
					h.classes["ext-add-foreign"] = true
				case kind == 1 && len(h.foreign) > 0: // another program removes one of its routes
					k := rapid.SampledFrom(foreignKeys()).Draw(t, "foreignKey")
					delete(h.dp.RouteKeyToRoute, k)
					h.classes["ext-del-foreign"] = true
				case kind == 2: // someone deletes one of Felix's routes
					var owned []string
					for k, r := range h.dp.RouteKeyToRoute {
						if h.routeOwned(&r) {
							owned = append(owned, k)
						}
					}
					if len(owned) == 0 {
						t.Skip("no owned routes")
					}
					sort.Strings(owned)
					delete(h.dp.RouteKeyToRoute, rapid.SampledFrom(owned).Draw(t, "ownedKey"))
					h.classes["ext-del-owned"] = true
				case kind == 3 && rapid.Bool().Draw(t, "noIface"):
					// a stale no-interface route carrying Felix's exclusive protocol (old Felix)
					typ := rapid.SampledFrom([]int{unix.RTN_BLACKHOLE, unix.RTN_UNREACHABLE, unix.RTN_PROHIBIT, unix.RTN_THROW}).Draw(t, "type")
					r := netlink.Route{Dst: c17MustCIDR(rapid.SampledFrom([]string{"10.0.8.64/26", "10.0.2.0/26", "10.0.3.0/26"}).Draw(t, "dst")),
						Protocol: h.cfg.exclusiveProto(), Type: typ}
					addRoute(r)
					h.classes["ext-add-owned-noiface"] = true
				default: // a stale route appears in Felix's ownership space (e.g. CNI plugin, old Felix)
					name := rapid.SampledFrom([]string{"cali1", "cali2", c17VXLANIface}).Draw(t, "iface")
					l, ok := h.dp.NameToLink[name]
					if !ok || l.LinkAttrs.RawFlags&unix.IFF_RUNNING == 0 {
						t.Skip("iface not up")
					}
					r := netlink.Route{Dst: c17MustCIDR(rapid.SampledFrom([]string{"10.0.0.1/32", "10.0.0.77/32", "10.0.2.0/26"}).Draw(t, "dst")),
						Protocol: h.cfg.devProto, Scope: netlink.SCOPE_LINK, Type: unix.RTN_UNICAST, LinkIndex: l.LinkAttrs.Index}
					addRoute(r)
					h.classes["ext-add-owned"] = true
				}
				h.refreshForeign()
				h.extDirty = true
				h.resyncRequested = false
				h.faultsSinceGood++
				h.ops = append(h.ops, "e")
			},
			"injectFault": func(t *rapid.T) {
				f := rapid.SampledFrom([]mocknetlink.FailFlags{
					mocknetlink.FailNextLinkList, mocknetlink.FailNextLinkListWrappedEINTR, mocknetlink.FailNextLinkByName,
					mocknetlink.FailNextLinkByNameNotFound, mocknetlink.FailNextRouteList, mocknetlink.FailNextRouteListEINTR,
					mocknetlink.FailNextRouteListWrappedEINTR, mocknetlink.FailNextRouteReplace, mocknetlink.FailNextRouteAddOrReplace,
					mocknetlink.FailNextRouteDel, mocknetlink.FailNextNewNetlink, mocknetlink.FailNextSetSocketTimeout, mocknetlink.FailNextSetStrict,
				}).Draw(t, "fault")
				// Connection faults are not combined with other faults: a failed reconnect in the
				// middle of a rescan loop makes the code under test touch its stale handle, which
				// the mock answers with (nil, nil) instead of an error.
				connect := mocknetlink.FailNextNewNetlink | mocknetlink.FailNextSetSocketTimeout | mocknetlink.FailNextSetStrict
				if f&connect != 0 {
					h.dp.FailuresToSimulate &= connect
				} else {
					h.dp.FailuresToSimulate &^= connect
				}
				h.dp.FailuresToSimulate |= f
				h.classes["fault-"+f.String()] = true
				h.faultsSinceGood++
				h.ops = append(h.ops, "f")
			},
			"eintrDuringFullResync": func(t *rapid.T) {
				// The next full-resync dump is interrupted by EINTR after the kernel dropped one of
				// Felix's routes mid-dump.  The retried dump sees the final state, so Felix's
				// knowledge stays current.
				h.eintrArmed = true
				h.eintrPick = rapid.IntRange(0, 7).Draw(t, "pick")
				h.rt.QueueResync()
				h.resyncRequested = true
				h.classes["eintr-race-armed"] = true
				h.ops = append(h.ops, "E")
			},
			"withdrawWithFullResync": func(t *rapid.T) {
				// A route is withdrawn and the same Apply also does a full resync (e.g. the periodic one).
				s := rapid.SampledFrom(c17Slots).Draw(t, "slot")
				m := h.desired[s.Class][s.Iface]
				if len(m) == 0 {
					t.Skip("nothing to withdraw")
				}
				ks := make([]c17Key, 0, len(m))
				for k := range m {
					ks = append(ks, k)
				}
				sort.Slice(ks, func(i, j int) bool { return ks[i].String() < ks[j].String() })
				k := rapid.SampledFrom(ks).Draw(t, "key")
				h.rt.RouteRemove(s.Class, s.Iface, m[k].RouteKey)
				delete(m, k)
				if len(m) == 0 {
					delete(h.desired[s.Class], s.Iface)
				}
				h.rt.QueueResync()
				h.resyncRequested = true
				h.classes["withdrawal-with-full-resync"] = true
				if s.Iface == routetable.InterfaceNone {
					h.classes["noiface-withdrawal-with-full-resync"] = true
				}
				h.ops = append(h.ops, "W")
				_ = h.apply()
			},
			"queueResync": func(t *rapid.T) {
				h.rt.QueueResync()
				h.resyncRequested = true
				h.ops = append(h.ops, "q")
			},
			"apply": func(t *rapid.T) {
				h.ops = append(h.ops, "A")
				_ = h.apply()
			},
			"applyUntilOK": func(t *rapid.T) {
				h.ops = append(h.ops, "L")
				h.deliverPending()
				var err error
				for i := 0; i < 8; i++ {
					if err = h.apply(); err == nil {
						return
					}
				}
				h.fail("Apply still fails after 8 attempts although faults are one-shot: %v (pending faults %v)", err, h.dp.FailuresToSimulate)
			},
			"advanceTime": func(t *rapid.T) {
				h.tm.IncrementTime(rapid.SampledFrom([]time.Duration{time.Second, 6 * time.Second, 30 * time.Second}).Draw(t, "by"))
				h.ops = append(h.ops, "t")
			},
			"restart": func(t *rapid.T) {
				h.newRouteTable()
				h.classes["restart"] = true
				h.ops = append(h.ops, "Z")
			},
			"converge": func(t *rapid.T) {
				h.ops = append(h.ops, "C")
				h.dp.FailuresToSimulate = 0
				h.eintrArmed = false
				h.deliverPending()
				for round := 0; round < 2; round++ {
					h.tm.IncrementTime(h.cfg.grace + time.Second)
					h.rt.QueueResync()
					h.resyncRequested = true
					var err error
					for i := 0; i < 4; i++ {
						if err = h.apply(); err == nil {
							break
						}
					}
					if err != nil {
						h.fail("Apply keeps failing with no faults injected: %v", err)
					}
				}
				h.checkExact("after fault-free resync with the grace period elapsed", true)
				h.classes["converged"] = true
			},
			"": func(t *rapid.T) { h.checkMock() },
		})

		cls := make([]string, 0, len(h.classes))
		for c := range h.classes {
			cls = append(cls, c)
		}
		sort.Strings(cls)
		key := strings.Join(h.ops, "")
		rec.SizedCase(h.nontrivial, key, len(h.ops), func() any {
			return map[string]any{"config": fmt.Sprintf("%+v", h.cfg), "ops": key, "classes": cls,
				"final_routes": strings.Split(h.kernelDump(), "\n"), "final_desired": strings.Split(h.desiredDump(), "\n")}
		}, cls...)
	})
}

// TestVerifC17RegressionRescanDropped is the plain regression test for finding
// c17KnownRescanDropped (see above); it fails if the defect comes back.
func TestVerifC17RegressionRescanDropped(t *testing.T) {
	ev.Quiet()
	c17HookGomega()
	dp := mocknetlink.New()
	tm := mocktime.New()
	pol := ownershippol.NewMainTable(c17VXLANIface, unix.RTPROT_BOOT, []string{"cali"}, false, false)
	rt := routetable.New(pol, 4, 10*time.Second, nil, unix.RTPROT_BOOT, false, unix.RT_TABLE_MAIN, c17NoopRecorder{}, dp,
		routetable.WithConntrackCleanup(false), routetable.WithTimeShim(tm), routetable.WithNetlinkHandleShim(dp.NewMockNetlink))
	dp.AddIface(11, "cali1", true, true)
	rt.OnIfaceStateChanged("cali1", 11, ifacemonitor.StateUp)
	tg := routetable.Target{RouteKey: routetable.RouteKey{CIDR: ip.MustParseCIDROrIP("10.0.0.1/32")}}
	rt.SetRoutes(routetable.RouteClassLocalWorkload, "cali1", []routetable.Target{tg})
	if err := rt.Apply(); err != nil {
		t.Fatalf("set-up Apply failed: %v", err)
	}
	key := mocknetlink.KeyForRoute(&netlink.Route{Table: unix.RT_TABLE_MAIN, Dst: c17MustCIDR("10.0.0.1/32")})
	if _, ok := dp.RouteKeyToRoute[key]; !ok {
		t.Fatalf("set-up: route not programmed")
	}
	// The link bounces: the kernel drops the route; both events reach Felix.
	delete(dp.RouteKeyToRoute, key)
	rt.OnIfaceStateChanged("cali1", 11, ifacemonitor.StateDown)
	rt.OnIfaceStateChanged("cali1", 11, ifacemonitor.StateUp)
	// The next route listing (the rescan of cali1) fails once.
	dp.FailuresToSimulate = mocknetlink.FailNextRouteList
	err := rt.Apply()
	if f := c17TakeMockFailures(); len(f) > 0 {
		t.Skipf("HARNESS-GAP: mock assertion failed: %v", f)
	}
	if _, ok := dp.RouteKeyToRoute[key]; err == nil && !ok {
		err2 := rt.Apply()
		_, ok2 := dp.RouteKeyToRoute[key]
		t.Fatalf("%s: Apply returned nil although the rescan of cali1 failed; desired route 10.0.0.1/32 is missing from the kernel (a second Apply returned %v, route present afterwards: %v)",
			c17KnownRescanDropped, err2, ok2)
	}
	// Apply either repaired the route or reported the failure; in the latter case retrying must converge.
	for i := 0; i < 3 && err != nil; i++ {
		err = rt.Apply()
	}
	if _, ok := dp.RouteKeyToRoute[key]; err != nil || !ok {
		t.Fatalf("route 10.0.0.1/32 not restored after retries: err=%v present=%v", err, ok)
	}
}


// TestVerifC17RegressionStaleTracker is the plain regression test for finding
// c17KnownStaleTracker (found by this check, fixed since); it fails if the defect comes back.
func TestVerifC17RegressionStaleTracker(t *testing.T) {
	ev.Quiet()
	c17HookGomega()
	dp := mocknetlink.New()
	tm := mocktime.New()
	pol := ownershippol.NewMainTable(c17VXLANIface, unix.RTPROT_BOOT, []string{"cali"}, false, false)
	rt := routetable.New(pol, 4, 10*time.Second, nil, unix.RTPROT_BOOT, false, unix.RT_TABLE_MAIN, c17NoopRecorder{}, dp,
		routetable.WithRouteCleanupGracePeriod(10*time.Second),
		routetable.WithConntrackCleanup(false), routetable.WithTimeShim(tm), routetable.WithNetlinkHandleShim(dp.NewMockNetlink))
	dp.AddIface(11, "cali1", true, true)
	// The CNI plugin (or a previous Felix) already programmed the workload's route.
	r := netlink.Route{Family: unix.AF_INET, Table: unix.RT_TABLE_MAIN, LinkIndex: 11, Dst: c17MustCIDR("10.0.0.2/32"),
		Protocol: unix.RTPROT_BOOT, Scope: netlink.SCOPE_LINK, Type: unix.RTN_UNICAST}
	dp.AddMockRoute(&r)
	key := mocknetlink.KeyForRoute(&r)
	rt.OnIfaceStateChanged("cali1", 11, ifacemonitor.StateUp)
	if err := rt.Apply(); err != nil { // start-of-day resync; the unknown route is kept (grace period)
		t.Fatalf("set-up Apply failed: %v", err)
	}
	if _, ok := dp.RouteKeyToRoute[key]; !ok {
		t.Fatalf("set-up: route was removed in spite of the grace period")
	}
	// The link bounces: the kernel drops the route; both events reach Felix, which rescans cali1.
	delete(dp.RouteKeyToRoute, key)
	rt.OnIfaceStateChanged("cali1", 11, ifacemonitor.StateDown)
	rt.OnIfaceStateChanged("cali1", 11, ifacemonitor.StateUp)
	if err := rt.Apply(); err != nil {
		t.Fatalf("Apply after flap failed: %v", err)
	}
	// Now Felix learns about the workload and wants exactly that route.
	rt.SetRoutes(routetable.RouteClassLocalWorkload, "cali1", []routetable.Target{{RouteKey: routetable.RouteKey{CIDR: ip.MustParseCIDROrIP("10.0.0.2/32")}}})
	err := rt.Apply()
	if f := c17TakeMockFailures(); len(f) > 0 {
		t.Skipf("HARNESS-GAP: mock assertion failed: %v", f)
	}
	if _, ok := dp.RouteKeyToRoute[key]; err == nil && !ok {
		t.Fatalf("%s: Apply returned nil but desired route 10.0.0.2/32 via cali1 is not in the kernel (no failure was injected)", c17KnownStaleTracker)
	}
}


// TestVerifC17RegressionStaleIfaceState is the plain regression test for finding
// c17KnownStaleIfaceState (found by this check, fixed since); it fails if the defect comes back.
func TestVerifC17RegressionStaleIfaceState(t *testing.T) {
	ev.Quiet()
	c17HookGomega()
	dp := mocknetlink.New()
	tm := mocktime.New()
	pol := ownershippol.NewMainTable(c17VXLANIface, unix.RTPROT_BOOT, []string{"cali"}, false, false)
	rt := routetable.New(pol, 4, 10*time.Second, nil, unix.RTPROT_BOOT, false, unix.RT_TABLE_MAIN, c17NoopRecorder{}, dp,
		routetable.WithConntrackCleanup(false), routetable.WithTimeShim(tm), routetable.WithNetlinkHandleShim(dp.NewMockNetlink))
	// Felix knows cali3 = ifindex 12, up (start-of-day resync plus the monitor's event).
	dp.AddIface(12, "cali3", true, true)
	if err := rt.Apply(); err != nil {
		t.Fatalf("set-up Apply failed: %v", err)
	}
	rt.OnIfaceStateChanged("cali3", 12, ifacemonitor.StateUp) // also queues a rescan of cali3
	// Before the next Apply, ifindex 12 is renamed to cali2 and a new interface takes the name
	// cali3 (ifindex 13).  The interface monitor's events for this have not arrived yet.
	l := dp.NameToLink["cali3"]
	delete(dp.NameToLink, "cali3")
	l.LinkAttrs.Name = "cali2"
	dp.NameToLink["cali2"] = l
	dp.AddIface(13, "cali3", true, true)
	if err := rt.Apply(); err != nil { // the rescan of "cali3" finds ifindex 13: "renumbered"
		t.Fatalf("Apply (rescan) failed: %v", err)
	}
	// Felix wants a route via cali2 and does a full resync, which lists all links.
	rt.SetRoutes(routetable.RouteClassLocalWorkload, "cali2", []routetable.Target{{RouteKey: routetable.RouteKey{CIDR: ip.MustParseCIDROrIP("10.0.0.1/32")}}})
	rt.QueueResync()
	err := rt.Apply()
	if f := c17TakeMockFailures(); len(f) > 0 {
		t.Skipf("HARNESS-GAP: mock assertion failed: %v", f)
	}
	key := mocknetlink.KeyForRoute(&netlink.Route{Table: unix.RT_TABLE_MAIN, Dst: c17MustCIDR("10.0.0.1/32")})
	if _, ok := dp.RouteKeyToRoute[key]; err == nil && !ok {
		rt.QueueResync()
		err2 := rt.Apply()
		_, ok2 := dp.RouteKeyToRoute[key]
		t.Fatalf("%s: Apply with a full resync returned nil but desired route 10.0.0.1/32 via cali2 (ifindex 12, up) is not in the kernel; another full resync + Apply returned %v, route present: %v",
			c17KnownStaleIfaceState, err2, ok2)
	}
}
