package ip_test

// C36 — CIDR trie lookups agree with plain prefix arithmetic.
//
// Real code: felix/ip.CIDRTrie (Update/Delete/Get/LookupPath/LPM/Covers/CoveredBy/Intersects/
// ClosestDescendants/ToSlice/Visit).  Oracle: a plain map[netip.Prefix]value; every answer is
// recomputed over the stored prefixes with net/netip arithmetic (independent of felix/ip's own
// CommonPrefix/Contains).
//
// Query domains are taken from the doc comments and the real callers:
//   - LPM: all real callers pass full-length (/32,/128) CIDRs.  For shorter query prefixes the
//     oracle is only asserted when no stored prefix lies strictly inside the query (the case in
//     which "longest stored prefix containing the query" has only one reading); otherwise only
//     the package's own test expectation (result is stored and contains the query's address).
//   - Intersects: asserted true when a stored prefix lies inside the query, false when no stored
//     prefix overlaps the query at all; the remaining case (only strict ancestors stored) is
//     covered through Covers, exactly like the only caller (`Get || Intersects || Covers`).
//   - CoveredBy: only on a non-empty trie (it has no callers and dereferences the root).
//   - ClosestDescendants: for stored prefixes (callers) and branch points (doc-comment example).

import (
	"fmt"
	"net/netip"
	"sort"
	"strings"
	"testing"

	"pgregory.net/rapid"

	"github.com/projectcalico/calico/felix/ip"
	"github.com/projectcalico/calico/verifkit/ev"
)

// c36Cluster describes the small address range of one case: all prefixes share the bits of
// base outside the window [lo, lo+w).
type c36Cluster struct {
	v6   bool
	base [16]byte
	lo   int // first window bit (0-based)
	w    int // window width in bits
}

func (c c36Cluster) maxLen() int {
	if c.v6 {
		return 128
	}
	return 32
}

func c36SetBit(b *[16]byte, i int, v uint) {
	mask := byte(0x80) >> (uint(i) % 8)
	if v != 0 {
		b[i/8] |= mask
	} else {
		b[i/8] &^= mask
	}
}

func c36GetBit(b [16]byte, i int) uint {
	if b[i/8]&(byte(0x80)>>(uint(i)%8)) != 0 {
		return 1
	}
	return 0
}

// c36Mk builds the prefix of length l whose window bits are `bits` (MSB first).
func (c c36Cluster) mk(bits uint, l int) netip.Prefix {
	a := c.base
	for i := 0; i < c.w; i++ {
		c36SetBit(&a, c.lo+i, (bits>>(uint(c.w-1-i)))&1)
	}
	return c36FromBytes(c.v6, a, l)
}

func c36FromBytes(v6 bool, a [16]byte, l int) netip.Prefix {
	var addr netip.Addr
	if v6 {
		addr = netip.AddrFrom16(a)
	} else {
		addr = netip.AddrFrom4([4]byte{a[0], a[1], a[2], a[3]})
	}
	return netip.PrefixFrom(addr, l).Masked()
}

func c36Bytes(p netip.Prefix) [16]byte {
	var a [16]byte
	if p.Addr().Is4() {
		b := p.Addr().As4()
		copy(a[:], b[:])
	} else {
		a = p.Addr().As16()
	}
	return a
}

// c36Parent returns the prefix one bit shorter (ok=false for /0).
func c36Parent(p netip.Prefix) (netip.Prefix, bool) {
	if p.Bits() == 0 {
		return p, false
	}
	return netip.PrefixFrom(p.Addr(), p.Bits()-1).Masked(), true
}

// c36Child returns the half of p selected by bit (ok=false for full-length prefixes).
func c36Child(p netip.Prefix, bit uint) (netip.Prefix, bool) {
	if p.Bits() == p.Addr().BitLen() {
		return p, false
	}
	a := c36Bytes(p)
	c36SetBit(&a, p.Bits(), bit)
	return c36FromBytes(p.Addr().Is6(), a, p.Bits()+1), true
}

// c36Contains: a ⊇ b.
func c36Contains(a, b netip.Prefix) bool {
	return a.Bits() <= b.Bits() && a.Contains(b.Addr())
}

type c36Model struct {
	m     map[netip.Prefix]string
	cidrs map[netip.Prefix]ip.CIDR
	back  map[ip.CIDR]netip.Prefix
}

func (m *c36Model) cidr(p netip.Prefix) ip.CIDR {
	if c, ok := m.cidrs[p]; ok {
		return c
	}
	// The string parser is what almost every real caller uses to obtain an ip.CIDR.
	c := ip.MustParseCIDROrIP(p.String())
	m.cidrs[p] = c
	m.back[c] = p
	return c
}

func (m *c36Model) prefix(t *rapid.T, c ip.CIDR) netip.Prefix {
	if p, ok := m.back[c]; ok {
		return p
	}
	p, err := netip.ParsePrefix(c.String())
	if err != nil {
		t.Fatalf("trie returned a CIDR that does not print as a prefix: %#v (%v)", c, err)
	}
	return p
}

func (m *c36Model) sorted() []netip.Prefix {
	out := make([]netip.Prefix, 0, len(m.m))
	for p := range m.m {
		out = append(out, p)
	}
	sort.Slice(out, func(i, j int) bool {
		if c := out[i].Addr().Compare(out[j].Addr()); c != 0 {
			return c < 0
		}
		return out[i].Bits() < out[j].Bits()
	})
	return out
}

func (m *c36Model) dump() string {
	var sb strings.Builder
	for _, p := range m.sorted() {
		fmt.Fprintf(&sb, "%v=%s ", p, m.m[p])
	}
	return sb.String()
}

func c36PrefixSetString(ps []netip.Prefix) string {
	ss := make([]string, len(ps))
	for i, p := range ps {
		ss[i] = p.String()
	}
	sort.Strings(ss)
	return strings.Join(ss, ",")
}

// c36CheckContents compares ToSlice and Visit with the model (contents only: the statement and
// the code comments promise no order).
func c36CheckContents(t *rapid.T, tr *ip.CIDRTrie, m *c36Model) {
	seen := map[netip.Prefix]bool{}
	for _, e := range tr.ToSlice() {
		p := m.prefix(t, e.CIDR)
		if seen[p] {
			t.Fatalf("ToSlice lists %v twice; model: %s", p, m.dump())
		}
		seen[p] = true
		want, ok := m.m[p]
		if !ok || e.Data != any(want) {
			t.Fatalf("ToSlice lists %v=%v; model has %q (present=%v); model: %s", p, e.Data, want, ok, m.dump())
		}
	}
	if len(seen) != len(m.m) {
		t.Fatalf("ToSlice lists %d entries, model has %d: %s", len(seen), len(m.m), m.dump())
	}
	seen = map[netip.Prefix]bool{}
	tr.Visit(func(c ip.CIDR, data any) bool {
		p := m.prefix(t, c)
		if seen[p] {
			t.Fatalf("Visit yields %v twice; model: %s", p, m.dump())
		}
		seen[p] = true
		want, ok := m.m[p]
		if !ok || data != any(want) {
			t.Fatalf("Visit yields %v=%v; model has %q (present=%v); model: %s", p, data, want, ok, m.dump())
		}
		return true
	})
	if len(seen) != len(m.m) {
		t.Fatalf("Visit yields %d entries, model has %d: %s", len(seen), len(m.m), m.dump())
	}
}

type c36QueryStats struct {
	lpmHost, lpmHostHit, lpmPrefix, lpmAmbiguous int
	coversTrue, intersectsTrue, intersectsAmbig  int
	cdStored, cdBranch, cdNonEmpty, cdSkippedAgg int
	pathHit                                      int
}

// c36CheckQuery checks every query method for query prefix q against the model.
func c36CheckQuery(t *rapid.T, tr *ip.CIDRTrie, m *c36Model, q netip.Prefix, st *c36QueryStats) {
	qc := m.cidr(q)
	stored := m.sorted()

	// Relations of the stored prefixes to q.
	var enclosing []netip.Prefix // stored ⊇ q (including q itself)
	var inside []netip.Prefix    // stored ⊆ q (including q itself)
	var strictInside []netip.Prefix
	for _, p := range stored {
		if c36Contains(p, q) {
			enclosing = append(enclosing, p)
		}
		if c36Contains(q, p) {
			inside = append(inside, p)
			if p != q {
				strictInside = append(strictInside, p)
			}
		}
	}
	var longest netip.Prefix
	haveLongest := false
	for _, p := range enclosing {
		if !haveLongest || p.Bits() > longest.Bits() {
			longest, haveLongest = p, true
		}
	}

	// Get.
	wantVal, isStored := m.m[q]
	got := tr.Get(qc)
	if isStored {
		if got != any(wantVal) {
			t.Fatalf("Get(%v)=%v want %q; stored: %s", q, got, wantVal, m.dump())
		}
	} else if got != nil {
		t.Fatalf("Get(%v)=%v but the prefix is not stored; stored: %s", q, got, m.dump())
	}

	// LookupPath (doc comment: one entry for each stored CIDR enclosing the given one; empty if
	// the CIDR is not in the trie).
	path := tr.LookupPath(nil, qc)
	if !isStored {
		if len(path) != 0 {
			t.Fatalf("LookupPath(%v) returned %v for a prefix that is not stored; stored: %s", q, path, m.dump())
		}
	} else {
		st.pathHit++
		var gotPath []netip.Prefix
		for _, e := range path {
			p := m.prefix(t, e.CIDR)
			if v, ok := m.m[p]; !ok || e.Data != any(v) {
				t.Fatalf("LookupPath(%v) entry %v=%v does not match stored value %q (present=%v); stored: %s", q, p, e.Data, v, ok, m.dump())
			}
			gotPath = append(gotPath, p)
		}
		if c36PrefixSetString(gotPath) != c36PrefixSetString(enclosing) || len(gotPath) != len(enclosing) {
			t.Fatalf("LookupPath(%v)=[%s] want the stored enclosing prefixes [%s]; stored: %s",
				q, c36PrefixSetString(gotPath), c36PrefixSetString(enclosing), m.dump())
		}
	}

	// LPM.
	lc, ld := tr.LPM(qc)
	full := q.Bits() == q.Addr().BitLen()
	if full || len(strictInside) == 0 {
		if full {
			st.lpmHost++
		} else {
			st.lpmPrefix++
		}
		if !haveLongest {
			if ld != nil {
				t.Fatalf("LPM(%v)=(%v,%v) but no stored prefix contains it; stored: %s", q, lc, ld, m.dump())
			}
		} else {
			if full {
				st.lpmHostHit++
			}
			if ld == nil {
				t.Fatalf("LPM(%v) found nothing; longest stored prefix containing it is %v; stored: %s", q, longest, m.dump())
			}
			if gp := m.prefix(t, lc); gp != longest || ld != any(m.m[longest]) {
				t.Fatalf("LPM(%v)=(%v,%v) want (%v,%q); stored: %s", q, lc, ld, longest, m.m[longest], m.dump())
			}
		}
	} else {
		st.lpmAmbiguous++
		if ld != nil {
			gp := m.prefix(t, lc)
			if v, ok := m.m[gp]; !ok || ld != any(v) || !gp.Contains(q.Addr()) {
				t.Fatalf("LPM(%v)=(%v,%v): not a stored entry containing the query address; stored: %s", q, lc, ld, m.dump())
			}
			// Whatever is returned must be at least as specific as the longest stored prefix
			// that contains the whole query (that one always qualifies).
			if haveLongest && gp.Bits() < longest.Bits() {
				t.Fatalf("LPM(%v)=(%v,%v) is shorter than the longest stored prefix containing the query, %v; stored: %s", q, lc, ld, longest, m.dump())
			}
		} else if haveLongest {
			// Some stored prefix contains the whole query, so "no match" is wrong under
			// every reading of longest-prefix match.
			t.Fatalf("LPM(%v) found nothing; stored prefix %v contains the query; stored: %s", q, longest, m.dump())
		}
	}

	// Covers: some stored prefix contains q.
	if gotC := tr.Covers(qc); gotC != (len(enclosing) > 0) {
		t.Fatalf("Covers(%v)=%v but stored prefixes containing it are [%s]; stored: %s", q, gotC, c36PrefixSetString(enclosing), m.dump())
	} else if gotC {
		st.coversTrue++
	}

	// Intersects.
	gotI := tr.Intersects(qc)
	switch {
	case len(inside) > 0:
		st.intersectsTrue++
		if !gotI {
			t.Fatalf("Intersects(%v)=false but stored prefixes inside it are [%s]; stored: %s", q, c36PrefixSetString(inside), m.dump())
		}
	case len(enclosing) == 0:
		if gotI {
			t.Fatalf("Intersects(%v)=true but no stored prefix overlaps it; stored: %s", q, m.dump())
		}
	default:
		// Only strict ancestors of q are stored: "intersects" could be read either way; the
		// only caller ORs it with Covers, which is asserted above.
		st.intersectsAmbig++
	}

	// CoveredBy: q contains every stored prefix.
	if len(stored) > 0 {
		if gotCB := tr.CoveredBy(qc); gotCB != (len(inside) == len(stored)) {
			t.Fatalf("CoveredBy(%v)=%v but %d of %d stored prefixes are inside it; stored: %s", q, gotCB, len(inside), len(stored), m.dump())
		}
	}

	// VisitCoveredBy (if this tree has it): exactly the stored prefixes inside q, each once, with
	// their values.
	if v, ok := any(tr).(interface {
		VisitCoveredBy(ip.CIDR, func(ip.CIDR, any) bool)
	}); ok {
		var visited []netip.Prefix
		v.VisitCoveredBy(qc, func(c ip.CIDR, d any) bool {
			gp := m.prefix(t, c)
			if want, stored := m.m[gp]; !stored || d != any(want) {
				t.Fatalf("VisitCoveredBy(%v) yielded (%v,%v) which is not a stored entry; stored: %s", q, c, d, m.dump())
			}
			visited = append(visited, gp)
			return true
		})
		if c36PrefixSetString(visited) != c36PrefixSetString(inside) || len(visited) != len(inside) {
			t.Fatalf("VisitCoveredBy(%v) visited [%s] want the stored prefixes inside it [%s]; stored: %s",
				q, c36PrefixSetString(visited), c36PrefixSetString(inside), m.dump())
		}
	}

	// ClosestDescendants: stored strict descendants of q with no stored prefix strictly between.
	branch := false
	if !isStored {
		if c0, ok := c36Child(q, 0); ok {
			c1, _ := c36Child(q, 1)
			n0, n1 := 0, 0
			for _, p := range strictInside {
				if c36Contains(c0, p) {
					n0++
				}
				if c36Contains(c1, p) {
					n1++
				}
			}
			branch = n0 > 0 && n1 > 0
		}
	}
	if isStored || branch {
		var want []netip.Prefix
		for _, d := range strictInside {
			closest := true
			for _, e := range strictInside {
				if e != d && c36Contains(e, d) {
					closest = false
					break
				}
			}
			if closest {
				want = append(want, d)
			}
		}
		// "The caller may pass in a buffer ... which will be appended to and returned."
		sentinel := m.cidr(q)
		buf := make([]ip.CIDR, 1, 4)
		buf[0] = sentinel
		res := tr.ClosestDescendants(buf, qc)
		if len(res) < 1 || res[0] != sentinel {
			t.Fatalf("ClosestDescendants(buf,%v) did not append to the caller's buffer: %v", q, res)
		}
		var gotD []netip.Prefix
		for _, c := range res[1:] {
			gotD = append(gotD, m.prefix(t, c))
		}
		if len(gotD) != len(want) || c36PrefixSetString(gotD) != c36PrefixSetString(want) {
			t.Fatalf("ClosestDescendants(%v)=[%s] want [%s] (stored=%v branch-point=%v); stored: %s",
				q, c36PrefixSetString(gotD), c36PrefixSetString(want), isStored, branch, m.dump())
		}
		// nil buffer variant.
		res2 := tr.ClosestDescendants(nil, qc)
		if len(res2) != len(want) {
			t.Fatalf("ClosestDescendants(nil,%v) returned %d entries want %d", q, len(res2), len(want))
		}
		if isStored {
			st.cdStored++
		} else {
			st.cdBranch++
		}
		if len(want) > 0 {
			st.cdNonEmpty++
		}
		// Did the answer have to skip over a data-less aggregate node?  (a closest descendant
		// that is not alone in its half of q)
		for _, d := range want {
			if d.Bits() > q.Bits()+1 {
				half, _ := c36Child(q, c36GetBit(c36Bytes(d), q.Bits()))
				n := 0
				for _, p := range want {
					if c36Contains(half, p) {
						n++
					}
				}
				if n > 1 {
					st.cdSkippedAgg++
					break
				}
			}
		}
	}
}

func TestVerifC36Trie(t *testing.T) {
	ev.Quiet()
	rec := ev.New("C36", "trie",
		"rapid state machine over one ip.CIDRTrie per case (IPv4 or IPv6): Update (new prefix / overwrite), Delete (stored, absent, absent-but-branch-point) over prefixes that share all bits outside a 4..6 bit window (window at bit 0, across the v6 64-bit boundary, or at the host end) plus host addresses, the enclosing super-prefix, /0 and a disjoint outsider; after every step contents (ToSlice, Visit) and Get/LookupPath/LPM/Covers/CoveredBy/Intersects/ClosestDescendants for the touched prefix, its relatives and drawn queries are compared with a map + net/netip arithmetic; at the end of the case every prefix of the window is queried. Non-trivial = a stored prefix was deleted while a stored strict ancestor and a stored strict descendant existed; distinct = distinct (family, window, op-kind sequence)",
		"net/netip prefix arithmetic is the reference", "one address family per trie (all callers keep separate v4/v6 tries)",
		"LPM oracle for non-host queries only where no stored prefix lies strictly inside the query; Intersects not asserted when only strict ancestors of the query are stored")
	defer rec.Write()

	rapid.Check(t, func(t *rapid.T) {
		cl := c36Cluster{}
		cl.v6 = rapid.Bool().Draw(t, "v6")
		cl.w = rapid.IntRange(4, 6).Draw(t, "windowBits")
		if cl.v6 {
			cl.base = [16]byte{0x20, 0x01, 0x0d, 0xb8, 0xaa, 0x55, 0xc3, 0x3c, 0x99, 0x66, 0x0f, 0xf0, 0x12, 0x34, 0x56, 0x78}
			cl.lo = rapid.SampledFrom([]int{0, 58, 60, 61, 63, 64, 128 - cl.w, 100}).Draw(t, "windowStart")
		} else {
			cl.base = [16]byte{10, 0x55, 0xc3, 0x96}
			cl.lo = rapid.SampledFrom([]int{0, 7, 14, 32 - cl.w, 20}).Draw(t, "windowStart")
		}
		tr := ip.NewCIDRTrie()
		m := &c36Model{m: map[netip.Prefix]string{}, cidrs: map[netip.Prefix]ip.CIDR{}, back: map[ip.CIDR]netip.Prefix{}}
		st := &c36QueryStats{}
		var ops []string
		middleDeleted := false
		maxNest := 0

		genPrefix := func(t *rapid.T) netip.Prefix {
			kind := rapid.IntRange(0, 19).Draw(t, "prefixKind")
			stored := m.sorted()
			switch {
			case kind <= 9 || (kind <= 15 && len(stored) == 0):
				// a prefix of the window
				l := rapid.IntRange(0, cl.w).Draw(t, "lenInWindow")
				bits := rapid.UintRange(0, (1<<uint(cl.w))-1).Draw(t, "windowBits")
				return cl.mk(bits, cl.lo+l)
			case kind <= 11:
				// a host address of the cluster
				bits := rapid.UintRange(0, (1<<uint(cl.w))-1).Draw(t, "windowBits")
				return cl.mk(bits, cl.maxLen())
			case kind <= 15:
				// a relative of a stored prefix: parent, child or sibling
				p := rapid.SampledFrom(stored).Draw(t, "relativeOf")
				switch rapid.IntRange(0, 3).Draw(t, "relation") {
				case 0:
					if pp, ok := c36Parent(p); ok {
						return pp
					}
				case 1:
					if c, ok := c36Child(p, 0); ok {
						return c
					}
				case 2:
					if c, ok := c36Child(p, 1); ok {
						return c
					}
				default:
					if pp, ok := c36Parent(p); ok {
						sib, _ := c36Child(pp, 1-c36GetBit(c36Bytes(p), pp.Bits()))
						return sib
					}
				}
				return p
			case kind == 16:
				return c36FromBytes(cl.v6, cl.base, 0) // default route
			case kind == 17:
				// the super-prefix just above the window (or /0)
				l := cl.lo - rapid.IntRange(0, 2).Draw(t, "above")
				if l < 0 {
					l = 0
				}
				return c36FromBytes(cl.v6, cl.base, l)
			case kind == 18:
				// an outsider: differs from the cluster in a bit before the window
				if cl.lo == 0 {
					return cl.mk(0, cl.maxLen())
				}
				a := cl.base
				b := rapid.IntRange(0, cl.lo-1).Draw(t, "flipBit")
				c36SetBit(&a, b, 1-c36GetBit(a, b))
				l := rapid.IntRange(b+1, cl.maxLen()).Draw(t, "outsiderLen")
				return c36FromBytes(cl.v6, a, l)
			default:
				// a prefix longer than the window but not a host (only if there is room)
				bits := rapid.UintRange(0, (1<<uint(cl.w))-1).Draw(t, "windowBits")
				l := rapid.IntRange(cl.lo+cl.w, cl.maxLen()).Draw(t, "longLen")
				return cl.mk(bits, l)
			}
		}

		nesting := func(p netip.Prefix) (anc, desc int) {
			for q := range m.m {
				if q == p {
					continue
				}
				if c36Contains(q, p) {
					anc++
				}
				if c36Contains(p, q) {
					desc++
				}
			}
			return
		}

		checkAround := func(t *rapid.T, p netip.Prefix) {
			c36CheckContents(t, tr, m)
			qs := []netip.Prefix{p}
			if pp, ok := c36Parent(p); ok {
				qs = append(qs, pp)
				if gp, ok := c36Parent(pp); ok {
					qs = append(qs, gp)
				}
				sib, _ := c36Child(pp, 1-c36GetBit(c36Bytes(p), pp.Bits()))
				qs = append(qs, sib)
			}
			if c, ok := c36Child(p, 0); ok {
				c1, _ := c36Child(p, 1)
				qs = append(qs, c, c1)
			}
			// a host inside p
			a := c36Bytes(p)
			hostBits := rapid.UintRange(0, 255).Draw(t, "hostFill")
			for i := p.Bits(); i < cl.maxLen() && i < p.Bits()+8; i++ {
				c36SetBit(&a, i, (hostBits>>uint(i-p.Bits()))&1)
			}
			qs = append(qs, c36FromBytes(cl.v6, a, cl.maxLen()))
			for i := 0; i < 3; i++ {
				qs = append(qs, genPrefix(t))
			}
			for _, q := range qs {
				c36CheckQuery(t, tr, m, q, st)
			}
		}

		vals := []string{"a", "b", "c"}
		update := func(t *rapid.T) {
			p := genPrefix(t)
			v := rapid.SampledFrom(vals).Draw(t, "value")
			if _, ok := m.m[p]; ok {
				ops = append(ops, "U")
			} else {
				ops = append(ops, "I")
			}
			tr.Update(m.cidr(p), v)
			m.m[p] = v
			a, d := nesting(p)
			if a > 0 && d > 0 && a+d+1 > maxNest {
				maxNest = a + d + 1
			}
			checkAround(t, p)
		}
		t.Repeat(map[string]func(*rapid.T){
			// Update is registered three times so that the trie grows (actions are picked uniformly).
			"update":  update,
			"update2": update,
			"update3": update,
			"deleteStored": func(t *rapid.T) {
				stored := m.sorted()
				if len(stored) == 0 {
					t.Skip("empty")
				}
				if rapid.Bool().Draw(t, "preferMiddle") {
					var mid []netip.Prefix
					for _, p := range stored {
						if a, d := nesting(p); a > 0 && d > 0 {
							mid = append(mid, p)
						}
					}
					if len(mid) > 0 {
						stored = mid
					}
				}
				p := rapid.SampledFrom(stored).Draw(t, "victim")
				a, d := nesting(p)
				if a > 0 && d > 0 {
					middleDeleted = true
					ops = append(ops, "M")
				} else if d > 0 {
					ops = append(ops, "T") // top of a chain
				} else {
					ops = append(ops, "D")
				}
				tr.Delete(m.cidr(p))
				delete(m.m, p)
				checkAround(t, p)
			},
			"deleteAny": func(t *rapid.T) {
				p := genPrefix(t)
				if _, ok := m.m[p]; ok {
					a, d := nesting(p)
					if a > 0 && d > 0 {
						middleDeleted = true
						ops = append(ops, "M")
					} else {
						ops = append(ops, "D")
					}
				} else {
					ops = append(ops, "X")
				}
				tr.Delete(m.cidr(p))
				delete(m.m, p)
				checkAround(t, p)
			},
			"query": func(t *rapid.T) {
				c36CheckQuery(t, tr, m, genPrefix(t), st)
				ops = append(ops, "q")
			},
		})

		// Final sweep: every prefix of the window, every host of the cluster, the super-prefixes.
		c36CheckContents(t, tr, m)
		for l := 0; l <= cl.w; l++ {
			for bits := uint(0); bits < 1<<uint(l); bits++ {
				c36CheckQuery(t, tr, m, cl.mk(bits<<uint(cl.w-l), cl.lo+l), st)
			}
		}
		for bits := uint(0); bits < 1<<uint(cl.w); bits++ {
			c36CheckQuery(t, tr, m, cl.mk(bits, cl.maxLen()), st)
		}
		for l := cl.lo; l >= 0 && l >= cl.lo-2; l-- {
			c36CheckQuery(t, tr, m, c36FromBytes(cl.v6, cl.base, l), st)
		}
		c36CheckQuery(t, tr, m, c36FromBytes(cl.v6, cl.base, 0), st)

		classes := []string{}
		if cl.v6 {
			classes = append(classes, "v6")
			if cl.lo < 64 && cl.lo+cl.w > 64 {
				classes = append(classes, "v6-window-spans-bit-64")
			}
		} else {
			classes = append(classes, "v4")
		}
		if cl.lo == 0 {
			classes = append(classes, "window-at-bit-0")
		}
		if middleDeleted {
			classes = append(classes, "middle-of-chain-deleted")
		}
		if maxNest >= 3 {
			classes = append(classes, "nest>=3")
		}
		if st.lpmHostHit > 0 {
			classes = append(classes, "lpm-host-hit")
		}
		if st.lpmAmbiguous > 0 {
			classes = append(classes, "lpm-prefix-query-ambiguous(weak-oracle)")
		}
		if st.lpmPrefix > 0 {
			classes = append(classes, "lpm-prefix-query-asserted")
		}
		if st.intersectsAmbig > 0 {
			classes = append(classes, "intersects-only-ancestors(not-asserted)")
		}
		if st.cdBranch > 0 {
			classes = append(classes, "closest-descendants-of-branch-point")
		}
		if st.cdNonEmpty > 0 {
			classes = append(classes, "closest-descendants-non-empty")
		}
		if st.cdSkippedAgg > 0 {
			classes = append(classes, "closest-descendants-through-aggregate-node")
		}
		if strings.Contains(strings.Join(ops, ""), "X") {
			classes = append(classes, "delete-absent")
		}
		fam := "4"
		if cl.v6 {
			fam = "6"
		}
		key := fmt.Sprintf("%s/%d+%d/%s", fam, cl.lo, cl.w, strings.Join(ops, ""))
		rec.SizedCase(middleDeleted, key, len(ops), func() any {
			return map[string]any{"family": fam, "windowStart": cl.lo, "windowBits": cl.w, "ops": strings.Join(ops, ""), "finalStored": m.dump()}
		}, classes...)
	})
}
