package rules_test

// C08 — rendered iptables/nftables rules match exactly what the policy rule says.
//
// Real code: rules.NewRenderer(Config, nft).PolicyToIptablesChains(...) for generated
// proto.Rule lists; the chains are rendered to TEXT by Felix's exported renderers and executed
// by verifkit/nfsim.  Oracle: verifkit/refpol.Match (no code shared with the renderers):
// the rule's action is taken iff the rule matches; otherwise evaluation falls through with the
// policy-verdict marks unchanged; bits outside Felix's mark mask never change.

import (
	"fmt"
	"net/netip"
	"os"
	"sort"
	"strings"
	"testing"

	googleproto "google.golang.org/protobuf/proto"
	"pgregory.net/rapid"

	v3 "github.com/projectcalico/api/pkg/apis/projectcalico/v3"

	"github.com/projectcalico/calico/felix/generictables"
	"github.com/projectcalico/calico/felix/ipsets"
	"github.com/projectcalico/calico/felix/nftables"
	"github.com/projectcalico/calico/felix/proto"
	"github.com/projectcalico/calico/felix/rules"
	"github.com/projectcalico/calico/felix/types"
	"github.com/projectcalico/calico/verifkit/ev"
	"github.com/projectcalico/calico/verifkit/nfsim"
	"github.com/projectcalico/calico/verifkit/refpol"
)

// ---- known findings (see final report); each is excluded from generation only when the
// driver lists its signature as a known finding ----
const (
	// nft renderer emits "icmp type T code C" / "icmp type != T code != C", which nft rejects
	// (syntax) and which, for the negated form, would not mean not(type==T && code==C).
	c08SigNftICMPCode = "c08-nft-icmp-type-code"
	// protocol + notProtocol in one rule renders two -p flags, which iptables-restore rejects.
	c08SigIptTwoProto = "c08-ipt-protocol-and-notprotocol"
	// third (and fourth) positive match block re-uses the scratch bit without clearing it.
	c08SigStaleScratch = "c08-third-positive-block-stale-scratch"
)

// ---- mark layouts (bit positions vary so that a hard-coded mask cannot hide) ----

type c08Marks struct{ Accept, Pass, Drop, Scratch0, Scratch1, Endpoint, NonCali uint32 }

var c08MarkLayouts = []c08Marks{
	{0x80, 0x100, 0x800, 0x200, 0x400, 0xff000, 0x1000},
	{0x10000, 0x20000, 0x40000, 0x80000, 0x100000, 0xfff00000 &^ 0x100000, 0x200000},
	{0x8, 0x20, 0x1, 0x40, 0x10, 0xff00, 0x100},
}

func (m c08Marks) felix() uint32 { return m.Accept | m.Pass | m.Drop | m.Scratch0 | m.Scratch1 }

func c08Config(m c08Marks, flowLogs bool, denyAction string) rules.Config {
	return rules.Config{
		IPSetConfigV4:         ipsets.NewIPVersionConfig(ipsets.IPFamilyV4, "cali", nil, nil),
		IPSetConfigV6:         ipsets.NewIPVersionConfig(ipsets.IPFamilyV6, "cali", nil, nil),
		WorkloadIfacePrefixes: []string{"cali"},
		MarkAccept:            m.Accept,
		MarkPass:              m.Pass,
		MarkDrop:              m.Drop,
		MarkScratch0:          m.Scratch0,
		MarkScratch1:          m.Scratch1,
		MarkEndpoint:          m.Endpoint,
		MarkNonCaliEndpoint:   m.NonCali,
		FlowLogsEnabled:       flowLogs,
		FilterDenyAction:      denyAction,
	}
}

// rapid's integer and SampledFrom draws are deliberately biased towards small values / early
// elements (good for shrinking, bad for probabilities).  c08Idx turns a raw 64-bit draw into an
// (almost) uniform index; the all-zero draw still maps to index 0 so shrinking keeps working.
func c08Idx(t *rapid.T, label string, n int) int {
	x := rapid.Uint64().Draw(t, label)
	x ^= x >> 30
	x *= 0xbf58476d1ce4e5b9
	x ^= x >> 27
	x *= 0x94d049bb133111eb
	x ^= x >> 31
	return int(x % uint64(n))
}

// c08Chance is true with probability pct/100 (false for the all-zero draw).
func c08Chance(t *rapid.T, label string, pct int) bool {
	return c08Idx(t, label, 100) >= 100-pct
}

func c08From[T any](t *rapid.T, label string, xs []T) T { return xs[c08Idx(t, label, len(xs))] }

// ---- address / port vocabulary (DESIGN Appendix B) ----

func c08Pool(ipv int) []netip.Addr {
	var out []netip.Addr
	if ipv == 4 {
		for i := 0; i < 32; i++ {
			out = append(out, netip.AddrFrom4([4]byte{10, 0, 0, byte(i)}))
		}
		for i := 0; i < 4; i++ {
			out = append(out, netip.AddrFrom4([4]byte{10, 0, 1, byte(i)}))
		}
		return out
	}
	for i := 0; i < 32; i++ {
		b := [16]byte{0xfd}
		b[15] = byte(i)
		out = append(out, netip.AddrFrom16(b))
	}
	return out
}

var (
	c08PoolV4 = c08Pool(4)
	c08PoolV6 = c08Pool(6)
	c08Ports  = []int32{1, 2, 79, 80, 81, 1023, 1024, 8080, 65534, 65535}
)

func c08PoolFor(ipv int) []netip.Addr {
	if ipv == 6 {
		return c08PoolV6
	}
	return c08PoolV4
}

func c08GenCIDR(t *rapid.T, ipv int, label string) netip.Prefix {
	a := c08From(t, label+"-base", c08PoolFor(ipv))
	var lens []int
	if ipv == 4 {
		lens = []int{0, 1, 8, 24, 25, 26, 27, 28, 29, 30, 31, 32, 32, 30, 28}
	} else {
		lens = []int{0, 1, 8, 64, 120, 121, 122, 123, 124, 125, 126, 127, 128, 128, 126, 124}
	}
	l := c08From(t, label+"-len", lens)
	return netip.PrefixFrom(a, l).Masked()
}

func c08LastAddr(p netip.Prefix) netip.Addr {
	b := p.Addr().AsSlice()
	for i := p.Bits(); i < len(b)*8; i++ {
		b[i/8] |= 1 << (7 - uint(i%8))
	}
	a, _ := netip.AddrFromSlice(b)
	return a
}

// ---- IP set universe ----

type c08Universe struct {
	ipv     int
	netIDs  []string
	portIDs []string
	ref     refpol.MapSets
	sim     map[string]*nfsim.Set // keyed by dataplane name
	// unload: Felix's names of the same set IDs for the OTHER IP version; a table of this IP
	// version cannot reference them (wrong family / not present in the ip/ip6 nft table).
	unload map[string]string
}

var (
	c08NetSetIDs  = []string{"s:AbCd0123-_xyz", "s:B", "s:c9"}
	c08PortSetIDs = []string{"n:http-tcp", "n:Q", "svc:ns1/backend"}
)

func c08GenUniverse(t *rapid.T, ipv int, cfg rules.Config, nft bool) *c08Universe {
	u := &c08Universe{ipv: ipv, netIDs: c08NetSetIDs, portIDs: c08PortSetIDs, sim: map[string]*nfsim.Set{}, unload: map[string]string{}}
	for _, id := range append(append([]string{}, c08NetSetIDs...), c08PortSetIDs...) {
		oc := cfg.IPSetConfigV6
		if ipv == 6 {
			oc = cfg.IPSetConfigV4
		}
		n := oc.NameForMainIPSet(id)
		if nft {
			n = nftables.LegalizeSetName(n)
		}
		u.unload[n] = fmt.Sprintf("it is the IPv%d set of IP set ID %q", 10-ipv, id)
	}
	m := map[string]*refpol.IPSet{}
	name := func(id string) string {
		c := cfg.IPSetConfigV4
		if ipv == 6 {
			c = cfg.IPSetConfigV6
		}
		n := c.NameForMainIPSet(id)
		if nft {
			n = nftables.LegalizeSetName(n)
		}
		return n
	}
	for _, id := range u.netIDs {
		n := c08Idx(t, "netset-size", 6)
		rs, ss := &refpol.IPSet{}, &nfsim.Set{}
		for i := 0; i < n; i++ {
			p := c08GenCIDR(t, ipv, "netset-member")
			if p.Bits() < 8 {
				p = netip.PrefixFrom(p.Addr(), p.Addr().BitLen()) // keep sets selective
			}
			rs.Nets = append(rs.Nets, p)
			ss.Nets = append(ss.Nets, p)
		}
		m[id], u.sim[name(id)] = rs, ss
	}
	for _, id := range u.portIDs {
		n := c08Idx(t, "portset-size", 5)
		rs, ss := &refpol.IPSet{}, &nfsim.Set{IPPortType: true}
		for i := 0; i < n; i++ {
			a := c08From(t, "portset-addr", c08PoolFor(ipv)[:6])
			pr := c08From(t, "portset-proto", []uint8{6, 6, 17, 132})
			po := uint16(c08From(t, "portset-port", c08Ports))
			rs.IPPorts = append(rs.IPPorts, refpol.IPPort{Addr: a, Proto: pr, Port: po})
			ss.IPPorts = append(ss.IPPorts, nfsim.IPPort{Addr: a, Proto: pr, Port: po})
		}
		m[id], u.sim[name(id)] = rs, ss
	}
	if ipv == 4 {
		u.ref.V4 = m
	} else {
		u.ref.V6 = m
	}
	return u
}

// ---- rule generator ----

type c08RuleInfo struct {
	Blocks, Split, Straddle, NamedPort, IPSet, ICMP, MixedVer, NegCIDRBlock, NegPorts, NotApplicable bool
	NamedInBlock, Service, AnyVersion                                                                bool
	PosBlocks                                                                                        int
	Action                                                                                           string
}

func c08ProtoName(n string) *proto.Protocol {
	return &proto.Protocol{NumberOrName: &proto.Protocol_Name{Name: n}}
}

func c08ProtoNum(n int32) *proto.Protocol {
	return &proto.Protocol{NumberOrName: &proto.Protocol_Number{Number: n}}
}

func c08GenPorts(t *rapid.T, label string, max int, density int) []*proto.PortRange {
	var n int
	if !c08Chance(t, label+"-any", density) {
		return nil
	}
	switch 4 + c08Idx(t, label+"-sizeclass", 6) {
	case 4, 5:
		n = rapid.IntRange(1, 3).Draw(t, label+"-n")
	case 6:
		n = 4 + c08Idx(t, label+"-n", 11)
	default:
		n = 8 + c08Idx(t, label+"-n", max-7)
	}
	var out []*proto.PortRange
	for i := 0; i < n; i++ {
		a := c08From(t, label+"-first", c08Ports)
		var b int32
		switch c08Idx(t, label+"-kind", 4) {
		case 0, 1:
			b = a // single
		case 2:
			b = a + int32(rapid.IntRange(1, 3).Draw(t, label+"-width"))
		default:
			b = c08From(t, label+"-last", c08Ports)
		}
		if b < a {
			a, b = b, a
		}
		if b > 65535 {
			b = 65535
		}
		out = append(out, &proto.PortRange{First: a, Last: b})
	}
	return out
}

func c08GenNets(t *rapid.T, ipv int, label string, negated, allowMixed bool, density int) []string {
	var n int
	if !c08Chance(t, label+"-any", density) {
		return nil
	}
	switch 5 + c08Idx(t, label+"-sizeclass", 5) {
	case 5, 6:
		n = 1
	default:
		n = rapid.IntRange(2, 4).Draw(t, label+"-n")
	}
	var out []string
	for i := 0; i < n; i++ {
		v := ipv
		if allowMixed && c08Chance(t, label+"-otherver", 30) {
			v = 10 - ipv
		}
		p := c08GenCIDR(t, v, label)
		if negated && p.Bits() == 0 && !c08Chance(t, label+"-keep-catchall", 25) {
			// negated catch-all is rejected by the v3 validator; keep it rare.
			p = netip.PrefixFrom(p.Addr(), p.Addr().BitLen())
		}
		out = append(out, p.String())
	}
	return out
}

func c08GenIDs(t *rapid.T, label string, ids []string, max int, density int) []string {
	if !c08Chance(t, label+"-any", density) {
		return nil
	}
	n := rapid.IntRange(1, max).Draw(t, label+"-n")
	return rapid.SliceOfNDistinct(rapid.SampledFrom(ids), n, n, rapid.ID[string]).Draw(t, label)
}

type c08GenOpts struct {
	ipv            int
	nft            bool
	noNftICMPCode  bool // known finding excluded
	noIptTwoProtos bool // known finding excluded
	noStaleScratch bool // known finding excluded
}

func c08GenRule(t *rapid.T, o c08GenOpts, u *c08Universe, rec *ev.Recorder) *proto.Rule {
	r := &proto.Rule{}
	r.Action = c08From(t, "action", []string{"allow", "allow", "deny", "deny", "pass", "next-tier", "log", ""})

	// Protocol.
	icmpName, icmpNum := "icmp", int32(1)
	if o.ipv == 6 {
		icmpName, icmpNum = "icmpv6", 58
	}
	ports, icmp := false, false
	switch c08Idx(t, "proto-kind", 12) {
	case 0, 1:
		// none
	case 2, 3, 4:
		r.Protocol = c08ProtoName(rapid.SampledFrom([]string{"tcp", "udp", "sctp"}).Draw(t, "proto-name"))
		ports = true
	case 5, 6:
		r.Protocol = c08ProtoNum(rapid.SampledFrom([]int32{6, 17, 132}).Draw(t, "proto-num"))
		ports = true
	case 7, 8:
		r.Protocol = c08ProtoName(icmpName)
		// calc.ipVersionToProtoIPVersion derives the version from the protocol name.
		r.IpVersion = proto.IPVersion(o.ipv)
		icmp = true
	case 9:
		r.Protocol = c08ProtoNum(icmpNum)
		r.IpVersion = proto.IPVersion(o.ipv) // precondition: ip_version consistent with the ICMP flavour
		icmp = true
	case 10:
		r.Protocol = c08ProtoName("udplite")
	default:
		r.Protocol = c08ProtoNum(rapid.SampledFrom([]int32{2, 47, 255, 136}).Draw(t, "proto-other"))
	}
	if c08Chance(t, "notproto-any", 15) {
		twoOK := o.nft || !o.noIptTwoProtos
		if r.Protocol == nil || twoOK {
			if rapid.Bool().Draw(t, "notproto-byname") {
				r.NotProtocol = c08ProtoName(rapid.SampledFrom([]string{"tcp", "udp", "sctp", "udplite"}).Draw(t, "notproto-name"))
			} else {
				r.NotProtocol = c08ProtoNum(rapid.SampledFrom([]int32{6, 17, 47, 132}).Draw(t, "notproto-num"))
			}
		} else {
			rec.Excluded(c08SigIptTwoProto)
		}
	}

	// IP version (explicit) — mostly matching, sometimes the other one.
	if r.IpVersion == proto.IPVersion_ANY {
		switch c08Idx(t, "ipversion-kind", 12) {
		case 1, 2:
			r.IpVersion = proto.IPVersion(o.ipv)
		case 3:
			r.IpVersion = proto.IPVersion(10 - o.ipv)
		}
	}

	// Field density: sparse rules are mostly satisfiable, dense ones exercise many blocks.
	d := c08From(t, "density", []int{8, 15, 15, 25, 45})

	// CIDRs.  Mixed-version lists only without an explicit version (the validator ties them).
	mixed := r.IpVersion == proto.IPVersion_ANY && c08Chance(t, "mixed-version", 12)
	r.SrcNet = c08GenNets(t, o.ipv, "srcnet", false, mixed, d+15)
	r.DstNet = c08GenNets(t, o.ipv, "dstnet", false, mixed, d+15)
	r.NotSrcNet = c08GenNets(t, o.ipv, "notsrcnet", true, mixed, d)
	r.NotDstNet = c08GenNets(t, o.ipv, "notdstnet", true, mixed, d)

	// Ports (numeric only with tcp/udp/sctp; named ports also without a protocol).
	if ports {
		r.SrcPorts = c08GenPorts(t, "srcports", 40, d)
		r.DstPorts = c08GenPorts(t, "dstports", 40, d+30)
		r.NotSrcPorts = c08GenPorts(t, "notsrcports", 40, d/2)
		r.NotDstPorts = c08GenPorts(t, "notdstports", 40, d)
	}
	if ports || r.Protocol == nil {
		r.SrcNamedPortIpSetIds = c08GenIDs(t, "srcnamed", u.portIDs, 2, d/2+6)
		r.DstNamedPortIpSetIds = c08GenIDs(t, "dstnamed", u.portIDs, 3, d+12)
		r.NotSrcNamedPortIpSetIds = c08GenIDs(t, "notsrcnamed", u.portIDs, 2, d/3)
		r.NotDstNamedPortIpSetIds = c08GenIDs(t, "notdstnamed", u.portIDs, 2, d/2)
		r.DstIpPortSetIds = c08GenIDs(t, "dstipport", u.portIDs, 1, d/3+14)
	}

	// IP sets.
	r.SrcIpSetIds = c08GenIDs(t, "srcipset", u.netIDs, 2, d/2)
	r.DstIpSetIds = c08GenIDs(t, "dstipset", u.netIDs, 2, d/2)
	r.NotSrcIpSetIds = c08GenIDs(t, "notsrcipset", u.netIDs, 2, d/3)
	r.NotDstIpSetIds = c08GenIDs(t, "notdstipset", u.netIDs, 2, d/3)

	// ICMP.
	if icmp {
		withCodeOK := !(o.nft && o.noNftICMPCode)
		typ := func(l string) int32 { return c08From(t, l, []int32{0, 3, 8, 128, 254}) }
		code := func(l string) int32 { return c08From(t, l, []int32{0, 1, 4, 255}) }
		switch c08Idx(t, "icmp-kind", 4) {
		case 1:
			r.Icmp = &proto.Rule_IcmpType{IcmpType: typ("icmp-type")}
		case 2:
			if withCodeOK {
				r.Icmp = &proto.Rule_IcmpTypeCode{IcmpTypeCode: &proto.IcmpTypeAndCode{Type: typ("icmp-type"), Code: code("icmp-code")}}
			} else {
				rec.Excluded(c08SigNftICMPCode)
				r.Icmp = &proto.Rule_IcmpType{IcmpType: typ("icmp-type")}
			}
		}
		switch c08Idx(t, "noticmp-kind", 4) {
		case 1:
			r.NotIcmp = &proto.Rule_NotIcmpType{NotIcmpType: typ("noticmp-type")}
		case 2:
			if withCodeOK {
				r.NotIcmp = &proto.Rule_NotIcmpTypeCode{NotIcmpTypeCode: &proto.IcmpTypeAndCode{Type: typ("noticmp-type"), Code: code("noticmp-code")}}
			} else {
				rec.Excluded(c08SigNftICMPCode)
				r.NotIcmp = &proto.Rule_NotIcmpType{NotIcmpType: typ("noticmp-type")}
			}
		}
	}
	if c08Chance(t, "annotation", 10) {
		// Rule annotations are rendered as comments; hostile characters must not leak into the rule.
		r.Metadata = &proto.RuleMetadata{Annotations: map[string]string{"note": `x" --jump ACCEPT -m comment --comment "y`}}
	}
	if o.noStaleScratch && c08Classify(r, o.ipv).PosBlocks >= 3 {
		// Known finding: keep at most two positive match blocks.
		rec.Excluded(c08SigStaleScratch)
		for _, trim := range []func(){
			func() { r.DstNet = c08FirstOfVersion(r.DstNet, o.ipv) },
			func() { r.SrcNet = c08FirstOfVersion(r.SrcNet, o.ipv) },
		} {
			if c08Classify(r, o.ipv).PosBlocks >= 3 {
				trim()
			}
		}
	}
	return r
}

// c08FirstOfVersion keeps only the first CIDR of the given IP version.
func c08FirstOfVersion(cidrs []string, ipv int) []string {
	for _, c := range cidrs {
		if strings.Contains(c, ":") == (ipv == 6) {
			return []string{c}
		}
	}
	return cidrs
}

// c08Classify derives the histogram classes of a rule from the rule alone (SplitPortList is
// used for classification only, never by the oracle).
func c08Classify(r *proto.Rule, ipv int) c08RuleInfo {
	var in c08RuleInfo
	in.Action = r.Action
	ofVer := func(cidrs []string) (n int, other bool) {
		for _, c := range cidrs {
			if strings.Contains(c, ":") == (ipv == 6) {
				n++
			} else {
				other = true
			}
		}
		return
	}
	ns, o1 := ofVer(r.SrcNet)
	nd, o2 := ofVer(r.DstNet)
	nns, o3 := ofVer(r.NotSrcNet)
	nnd, o4 := ofVer(r.NotDstNet)
	in.MixedVer = o1 || o2 || o3 || o4
	notApplicable := (len(r.SrcNet) > 0 && ns == 0) || (len(r.DstNet) > 0 && nd == 0) ||
		(len(r.NotSrcNet) > 0 && nns == 0) || (len(r.NotDstNet) > 0 && nnd == 0) ||
		(r.IpVersion != 0 && int(r.IpVersion) != ipv)
	in.NotApplicable = notApplicable
	slots := func(ps []*proto.PortRange) (splits int, straddle bool) {
		used := 0
		for _, p := range ps {
			need := 1
			if p.First != p.Last {
				need = 2
			}
			if used+need > 15 {
				if need == 2 && used == 14 {
					straddle = true
				}
				splits++
				used = 0
			}
			used += need
		}
		if used > 0 {
			splits++
		}
		return
	}
	ss, st1 := slots(r.SrcPorts)
	ds, st2 := slots(r.DstPorts)
	nss, st3 := slots(r.NotSrcPorts)
	nds, st4 := slots(r.NotDstPorts)
	in.Split = ss > 1 || ds > 1 || nss > 1 || nds > 1
	in.Straddle = st1 || st2 || st3 || st4
	in.NegPorts = len(r.NotSrcPorts) > 0 || len(r.NotDstPorts) > 0
	in.NamedPort = len(r.SrcNamedPortIpSetIds)+len(r.DstNamedPortIpSetIds)+len(r.NotSrcNamedPortIpSetIds)+len(r.NotDstNamedPortIpSetIds)+len(r.DstIpPortSetIds) > 0
	in.IPSet = len(r.SrcIpSetIds)+len(r.DstIpSetIds)+len(r.NotSrcIpSetIds)+len(r.NotDstIpSetIds) > 0
	in.ICMP = r.Icmp != nil || r.NotIcmp != nil
	srcPos := ns
	if ns > 1 {
		srcPos = 0
	}
	dstPos := nd
	if nd > 1 {
		dstPos = 0
	}
	in.NegCIDRBlock = (nns > 0 && srcPos+nns > 1) || (nnd > 0 && dstPos+nnd > 1)
	for _, b := range []bool{ss+len(r.SrcNamedPortIpSetIds) > 1, ds+len(r.DstNamedPortIpSetIds) > 1, ns > 1, nd > 1} {
		if b && !notApplicable {
			in.PosBlocks++
		}
	}
	in.NamedInBlock = !notApplicable && ((len(r.SrcNamedPortIpSetIds) > 0 && ss+len(r.SrcNamedPortIpSetIds) > 1) ||
		(len(r.DstNamedPortIpSetIds) > 0 && ds+len(r.DstNamedPortIpSetIds) > 1))
	in.Service = len(r.DstIpPortSetIds) > 0
	in.AnyVersion = r.IpVersion == proto.IPVersion_ANY
	in.Blocks = !notApplicable && (in.PosBlocks > 0 || in.NegCIDRBlock)
	return in
}

// ---- packets on the boundaries of the rule's own fields ----

// c08Restrict returns a copy of the rule keeping only the clauses of dimensions <= upto:
// 0 protocol/version, 1 source address, 2 destination address, 3 source port, 4 destination
// port, 5 ICMP.  Used only to steer packet generation towards matching packets.
func c08Restrict(r *proto.Rule, upto int) *proto.Rule {
	c := googleproto.Clone(r).(*proto.Rule)
	if upto < 5 {
		c.Icmp, c.NotIcmp = nil, nil
	}
	if upto < 4 {
		c.DstPorts, c.NotDstPorts, c.DstNamedPortIpSetIds, c.NotDstNamedPortIpSetIds, c.DstIpPortSetIds = nil, nil, nil, nil, nil
	}
	if upto < 3 {
		c.SrcPorts, c.NotSrcPorts, c.SrcNamedPortIpSetIds, c.NotSrcNamedPortIpSetIds = nil, nil, nil, nil
	}
	if upto < 2 {
		c.DstNet, c.NotDstNet, c.DstIpSetIds, c.NotDstIpSetIds = nil, nil, nil, nil
	}
	if upto < 1 {
		c.SrcNet, c.NotSrcNet, c.SrcIpSetIds, c.NotSrcIpSetIds = nil, nil, nil, nil
	}
	return c
}

type c08Cands struct {
	protos       []uint8
	src, dst     []netip.Addr
	sport, dport []uint16
	itype, icode []uint8
	restricted   [6]*proto.Rule
}

func c08AddrCands(ipv int, u *c08Universe, cidrs []string, netIDs, portIDs []string) []netip.Addr {
	seen := map[netip.Addr]bool{}
	var out []netip.Addr
	add := func(a netip.Addr) {
		if a.IsValid() && a.Is6() == (ipv == 6) && !seen[a] {
			seen[a] = true
			out = append(out, a)
		}
	}
	edge := func(p netip.Prefix) {
		first, last := p.Masked().Addr(), c08LastAddr(p.Masked())
		add(first)
		add(last)
		add(first.Prev())
		add(last.Next())
	}
	for _, c := range cidrs {
		p, err := netip.ParsePrefix(c)
		if err == nil && p.Addr().Is6() == (ipv == 6) {
			edge(p)
		}
	}
	sets := u.ref.V4
	if ipv == 6 {
		sets = u.ref.V6
	}
	for _, id := range netIDs {
		for _, p := range sets[id].Nets {
			edge(p)
		}
	}
	for _, id := range portIDs {
		for _, m := range sets[id].IPPorts {
			add(m.Addr)
		}
	}
	pool := c08PoolFor(ipv)
	add(pool[0])
	add(pool[5])
	add(pool[len(pool)-1])
	return out
}

func c08PortCands(ipv int, u *c08Universe, ranges []*proto.PortRange, portIDs []string) []uint16 {
	seen := map[int32]bool{}
	var out []uint16
	add := func(p int32) {
		if p >= 0 && p <= 65535 && !seen[p] {
			seen[p] = true
			out = append(out, uint16(p))
		}
	}
	for _, r := range ranges {
		add(r.First - 1)
		add(r.First)
		add(r.Last)
		add(r.Last + 1)
	}
	sets := u.ref.V4
	if ipv == 6 {
		sets = u.ref.V6
	}
	for _, id := range portIDs {
		for _, m := range sets[id].IPPorts {
			add(int32(m.Port))
			add(int32(m.Port) + 1)
		}
	}
	add(0)
	add(80)
	add(65535)
	return out
}

func c08BuildCands(r *proto.Rule, ipv int, u *c08Universe) *c08Cands {
	c := &c08Cands{}
	for i := range c.restricted {
		c.restricted[i] = c08Restrict(r, i)
	}
	ps := map[uint8]bool{}
	addP := func(p uint8) {
		if !ps[p] {
			ps[p] = true
			c.protos = append(c.protos, p)
		}
	}
	if r.Protocol != nil {
		addP(refpol.ProtocolNumber(r.Protocol))
	}
	if r.NotProtocol != nil {
		addP(refpol.ProtocolNumber(r.NotProtocol))
	}
	for _, p := range []uint8{6, 17, 132, 1, 58, 47, 136} {
		addP(p)
	}
	c.src = c08AddrCands(ipv, u, append(append([]string{}, r.SrcNet...), r.NotSrcNet...),
		append(append([]string{}, r.SrcIpSetIds...), r.NotSrcIpSetIds...),
		append(append([]string{}, r.SrcNamedPortIpSetIds...), r.NotSrcNamedPortIpSetIds...))
	c.dst = c08AddrCands(ipv, u, append(append([]string{}, r.DstNet...), r.NotDstNet...),
		append(append([]string{}, r.DstIpSetIds...), r.NotDstIpSetIds...),
		append(append(append([]string{}, r.DstNamedPortIpSetIds...), r.NotDstNamedPortIpSetIds...), r.DstIpPortSetIds...))
	c.sport = c08PortCands(ipv, u, append(append([]*proto.PortRange{}, r.SrcPorts...), r.NotSrcPorts...),
		append(append([]string{}, r.SrcNamedPortIpSetIds...), r.NotSrcNamedPortIpSetIds...))
	c.dport = c08PortCands(ipv, u, append(append([]*proto.PortRange{}, r.DstPorts...), r.NotDstPorts...),
		append(append(append([]string{}, r.DstNamedPortIpSetIds...), r.NotDstNamedPortIpSetIds...), r.DstIpPortSetIds...))
	ts, cs := map[uint8]bool{}, map[uint8]bool{}
	addT := func(v int32) {
		for _, x := range []int32{v - 1, v, v + 1} {
			if x >= 0 && x <= 255 && !ts[uint8(x)] {
				ts[uint8(x)] = true
				c.itype = append(c.itype, uint8(x))
			}
		}
	}
	addC := func(v int32) {
		for _, x := range []int32{v - 1, v, v + 1} {
			if x >= 0 && x <= 255 && !cs[uint8(x)] {
				cs[uint8(x)] = true
				c.icode = append(c.icode, uint8(x))
			}
		}
	}
	switch ic := r.Icmp.(type) {
	case *proto.Rule_IcmpType:
		addT(ic.IcmpType)
	case *proto.Rule_IcmpTypeCode:
		addT(ic.IcmpTypeCode.Type)
		addC(ic.IcmpTypeCode.Code)
	}
	switch ic := r.NotIcmp.(type) {
	case *proto.Rule_NotIcmpType:
		addT(ic.NotIcmpType)
	case *proto.Rule_NotIcmpTypeCode:
		addT(ic.NotIcmpTypeCode.Type)
		addC(ic.NotIcmpTypeCode.Code)
	}
	addT(8)
	addC(0)
	return c
}

// c08Pick draws one candidate; with probability ~85% (when possible) one that keeps the
// restricted rule matching.
func c08Pick[T any](t *rapid.T, label string, cands []T, ok func(T) bool) T {
	var sat []T
	for _, c := range cands {
		if ok(c) {
			sat = append(sat, c)
		}
	}
	if len(sat) > 0 && len(sat) < len(cands) && c08Chance(t, label+"-steer", 85) {
		return c08From(t, label, sat)
	}
	return c08From(t, label, cands)
}

// c08Witness searches the candidate product depth-first (pruned by the restricted rules) for
// a packet the rule matches.  Deterministic; used only to make matching packets common.
func c08Witness(c *c08Cands, ipv int, u *c08Universe) (refpol.Packet, bool) {
	pool := c08PoolFor(ipv)
	p := refpol.Packet{IPVersion: ipv, Src: pool[0], Dst: pool[0]}
	budget := 20000
	m := func(dim int) bool { budget--; return refpol.Match(c.restricted[dim], &p, u.ref) }
	var dfs func(dim int) bool
	dfs = func(dim int) bool {
		if budget <= 0 {
			return false
		}
		switch dim {
		case 0:
			for _, x := range c.protos {
				p.Proto = x
				if m(0) && dfs(1) {
					return true
				}
			}
		case 1:
			for _, x := range c.src {
				p.Src = x
				if m(1) && dfs(2) {
					return true
				}
			}
		case 2:
			for _, x := range c.dst {
				p.Dst = x
				if m(2) && dfs(3) {
					return true
				}
			}
		case 3:
			if !c08HasL4Ports(p.Proto) {
				p.SrcPort, p.DstPort = 0, 0
				return m(3) && m(4) && dfs(5)
			}
			for _, x := range c.sport {
				p.SrcPort = x
				if m(3) && dfs(4) {
					return true
				}
			}
		case 4:
			for _, x := range c.dport {
				p.DstPort = x
				if m(4) && dfs(5) {
					return true
				}
			}
		case 5:
			if !c08IsICMP(ipv, p.Proto) {
				p.ICMPType, p.ICMPCode = 0, 0
				return m(5)
			}
			for _, x := range c.itype {
				for _, y := range c.icode {
					p.ICMPType, p.ICMPCode = x, y
					if m(5) {
						return true
					}
				}
			}
		}
		return false
	}
	ok := dfs(0)
	return p, ok
}

func c08HasL4Ports(p uint8) bool { return refpol.HasPorts(p) || p == refpol.ProtoUDPLite }
func c08IsICMP(ipv int, p uint8) bool {
	return (ipv == 4 && p == refpol.ProtoICMP) || (ipv == 6 && p == refpol.ProtoICMPv6)
}

func c08Normalise(p *refpol.Packet) {
	if !c08HasL4Ports(p.Proto) {
		p.SrcPort, p.DstPort = 0, 0
	}
	if !c08IsICMP(p.IPVersion, p.Proto) {
		p.ICMPType, p.ICMPCode = 0, 0
	}
}

// c08DrawPacket draws one packet on the boundaries of the target rule's fields: either the
// rule's witness with 0-3 dimensions moved to other boundary points, or a greedy draw that
// prefers (85%) candidates keeping the rule matching so far.
func c08DrawPacket(t *rapid.T, ipv int, c *c08Cands, u *c08Universe, wit *refpol.Packet) refpol.Packet {
	if wit != nil && c08Chance(t, "pkt-witness-mode", 60) {
		p := *wit
		n := c08From(t, "pkt-mutations", []int{0, 1, 1, 1, 2, 3})
		for i := 0; i < n; i++ {
			switch c08Idx(t, "pkt-mutate-dim", 7) {
			case 0:
				p.Proto = c08From(t, "pkt-proto", c.protos)
			case 1:
				p.Src = c08From(t, "pkt-src", c.src)
			case 2:
				p.Dst = c08From(t, "pkt-dst", c.dst)
			case 3:
				p.SrcPort = c08From(t, "pkt-sport", c.sport)
			case 4:
				p.DstPort = c08From(t, "pkt-dport", c.dport)
			case 5:
				p.ICMPType = c08From(t, "pkt-icmptype", c.itype)
			case 6:
				p.ICMPCode = c08From(t, "pkt-icmpcode", c.icode)
			}
		}
		c08Normalise(&p)
		return p
	}
	pool := c08PoolFor(ipv)
	p := refpol.Packet{IPVersion: ipv, Src: pool[0], Dst: pool[0]}
	m := func(dim int) bool { return refpol.Match(c.restricted[dim], &p, u.ref) }
	p.Proto = c08Pick(t, "pkt-proto", c.protos, func(x uint8) bool { p.Proto = x; return m(0) })
	p.Src = c08Pick(t, "pkt-src", c.src, func(x netip.Addr) bool { p.Src = x; return m(1) })
	p.Dst = c08Pick(t, "pkt-dst", c.dst, func(x netip.Addr) bool { p.Dst = x; return m(2) })
	if c08HasL4Ports(p.Proto) {
		p.SrcPort = c08Pick(t, "pkt-sport", c.sport, func(x uint16) bool { p.SrcPort = x; return m(3) })
		p.DstPort = c08Pick(t, "pkt-dport", c.dport, func(x uint16) bool { p.DstPort = x; return m(4) })
	}
	if c08IsICMP(ipv, p.Proto) {
		p.ICMPType = c08Pick(t, "pkt-icmptype", c.itype, func(x uint8) bool { p.ICMPType = x; return m(5) })
		p.ICMPCode = c08Pick(t, "pkt-icmpcode", c.icode, func(x uint8) bool { p.ICMPCode = x; return m(5) })
	}
	return p
}

// ---- rendering + execution ----

type c08Rendered struct {
	rs    *nfsim.Ruleset
	entry string
}

func c08Render(cfg rules.Config, nft bool, ipv int, inbound bool, prules []*proto.Rule, untracked, asProfile bool, u *c08Universe) (*c08Rendered, error) {
	rr := rules.NewRenderer(cfg, nft)
	var chains []*generictables.Chain
	var name string
	if asProfile {
		id := &types.ProfileID{Name: "prof1"}
		prof := &proto.Profile{}
		pfx := rules.ProfileOutboundPfx
		if inbound {
			prof.InboundRules = prules
			pfx = rules.ProfileInboundPfx
		} else {
			prof.OutboundRules = prules
		}
		in, out := rr.ProfileToIptablesChains(id, prof, uint8(ipv))
		if in == nil || out == nil {
			return nil, fmt.Errorf("ProfileToIptablesChains returned a nil chain")
		}
		chains = []*generictables.Chain{in, out}
		name = rules.ProfileChainName(pfx, id, nft)
	} else {
		id := &types.PolicyID{Name: "p1", Kind: v3.KindGlobalNetworkPolicy}
		pol := &proto.Policy{Tier: "default", Untracked: untracked}
		pfx := rules.PolicyOutboundPfx
		if inbound {
			pol.InboundRules = prules
			pfx = rules.PolicyInboundPfx
		} else {
			pol.OutboundRules = prules
		}
		chains = rr.PolicyToIptablesChains(id, pol, uint8(ipv))
		if len(chains) != 2 {
			return nil, fmt.Errorf("PolicyToIptablesChains returned %d chains, expected inbound+outbound", len(chains))
		}
		name = rules.PolicyChainName(pfx, id, nft)
	}
	out := &c08Rendered{}
	if nft {
		rs, tbl := nfsim.NewNFT(ipv, "filter")
		tbl.UpdateChains(chains)
		out.rs, out.entry = rs, nfsim.NFTName("filter", name)
	} else {
		rs, tbl := nfsim.NewIptables(ipv)
		tbl.UpdateChains(chains)
		out.rs, out.entry = rs, name
	}
	out.rs.Sets = u.sim
	if u.unload != nil {
		out.rs.Unloadable = u.unload
	}
	c08Dump(nft, ipv, out.rs)
	if !out.rs.HasChain(out.entry) {
		return nil, fmt.Errorf("policy chain %q was not rendered; got %v", out.entry, out.rs.ChainNames())
	}
	return out, out.rs.Err()
}

// c08Dump (development aid): with $VERIF_C08_DUMP set, every rendered ruleset is appended to
// that file so it can be syntax-checked with the real nft -c / iptables-restore --test.
func c08Dump(nft bool, ipv int, rs *nfsim.Ruleset) {
	path := os.Getenv("VERIF_C08_DUMP")
	if path == "" {
		return
	}
	f, err := os.OpenFile(path, os.O_APPEND|os.O_CREATE|os.O_WRONLY, 0o644)
	if err != nil {
		return
	}
	defer f.Close()
	fmt.Fprintf(f, "=== %s %d\n%s", map[bool]string{false: "iptables", true: "nft"}[nft], ipv, rs.Dump())
}

func c08SimPacket(p refpol.Packet, mark uint32) *nfsim.Packet {
	return &nfsim.Packet{IPVersion: p.IPVersion, Proto: p.Proto, Src: p.Src, Dst: p.Dst, SrcPort: p.SrcPort, DstPort: p.DstPort,
		ICMPType: p.ICMPType, ICMPCode: p.ICMPCode, InIf: "cali1234", OutIf: "eth0", Mark: mark, CTState: "NEW", LimitOK: true}
}

// c08CheckPacket compares simulation and reference for one packet; returns a description of
// the outcome class ("allow", "deny", "pass", "none") and an error string on disagreement.
func c08CheckPacket(rd *c08Rendered, prules []*proto.Rule, u *c08Universe, m c08Marks, denyAction string, p refpol.Packet, mark0 uint32) (string, int, string) {
	decider, action, logs := refpol.FirstMatch(prules, &p, u.ref)
	res, err := rd.rs.Run(rd.entry, c08SimPacket(p, mark0))
	if err != nil {
		return "", 0, "ERR:" + err.Error()
	}
	verdictBits := m.Accept | m.Pass | m.Drop
	fail := func(f string, a ...any) (string, int, string) {
		return action, len(logs), fmt.Sprintf(f, a...) + fmt.Sprintf("\n  packet: %s mark-in=%#x\n  reference: decider rule %d action %q, matching log rules %v\n  simulated: verdict=%s mark-out=%#x logs=%d matched=%v",
			p, mark0, decider, action, logs, res.Verdict, res.Mark, len(res.Logs), res.Matched)
	}
	if (res.Mark &^ m.felix()) != (mark0 &^ m.felix()) {
		return fail("mark bits outside Felix's mask %#x changed", m.felix())
	}
	if len(res.Logs) != len(logs) {
		return fail("number of LOG actions taken differs from number of matching log rules before the deciding rule")
	}
	switch action {
	case "allow":
		if res.Verdict != nfsim.VerdictReturn || res.Mark&verdictBits != m.Accept {
			return fail("rule matches with action allow: expected return to caller with exactly the accept bit %#x set", m.Accept)
		}
	case "pass":
		if res.Verdict != nfsim.VerdictReturn || res.Mark&verdictBits != m.Pass {
			return fail("rule matches with action pass: expected return to caller with exactly the pass bit %#x set", m.Pass)
		}
	case "deny":
		want := nfsim.VerdictDrop
		if denyAction == "REJECT" {
			want = nfsim.VerdictReject
		}
		if res.Verdict != want {
			return fail("rule matches with action deny: expected %s", want)
		}
	case "":
		if res.Verdict != nfsim.VerdictReturn || res.Mark&verdictBits != mark0&verdictBits {
			return fail("no rule matches: expected fall-through with the policy-verdict marks unchanged")
		}
		action = "none"
	}
	return action, len(logs), ""
}

func c08Bool(b bool, s string) string {
	if b {
		return s
	}
	return ""
}

func TestVerifC08Rules(t *testing.T) {
	ev.Quiet()
	rec := ev.New("C08", "rules",
		"each case: IP version, renderer (iptables/nft), mark-bit layout, flow logs, deny action, an IP-set universe and 1-3 generated proto.Rules (every match field; port lists to 40 entries; >=2 positive/negated CIDRs; named-port and IP sets; ICMP; protocol by name/number/negated; mixed-version CIDRs) rendered by PolicyToIptablesChains, then "+
			"packets drawn on the boundaries of the rules' own fields (CIDR edges +-1, port range ends +-1, set members, protocol hit/miss, ICMP type/code +-1) and random entry marks; every packet is executed by nfsim on the rendered text and compared with refpol. "+
			"Non-trivial = some rule uses match blocks or a split port list AND the packet set contains both a packet that triggers a rule and one that does not; distinct = renderer/version/per-rule feature flags/outcome multiset",
		"refpol.Match is the meaning of a proto.Rule (incl. documented FilterRuleToIPVersion behaviour for mixed-version CIDR lists)",
		"nfsim interprets exactly the text fragments Felix emits; the policy chain is entered with accept/pass/drop bits clear, as the endpoint chains guarantee",
		"generator preconditions (v3 validator / calc): numeric ports only with tcp/udp/sctp, ICMP only with icmp/icmpv6 and a consistent ip_version, canonical CIDRs, ports 1-65535")
	defer rec.Write()
	noNftICMPCode := ev.Known(c08SigNftICMPCode)
	noIptTwoProtos := ev.Known(c08SigIptTwoProto)
	noStaleScratch := ev.Known(c08SigStaleScratch)
	nPackets := ev.Scale(24, 64)

	rapid.Check(t, func(t *rapid.T) {
		ipv := rapid.SampledFrom([]int{4, 6}).Draw(t, "ipVersion")
		nft := rapid.Bool().Draw(t, "nft")
		marks := rapid.SampledFrom(c08MarkLayouts).Draw(t, "markLayout")
		flowLogs := rapid.Bool().Draw(t, "flowLogs")
		denyAction := rapid.SampledFrom([]string{"DROP", "REJECT"}).Draw(t, "denyAction")
		untracked := c08Chance(t, "untracked", 15)
		inbound := rapid.Bool().Draw(t, "inbound")
		asProfile := c08Chance(t, "asProfile", 20)
		cfg := c08Config(marks, flowLogs, denyAction)
		u := c08GenUniverse(t, ipv, cfg, nft)
		o := c08GenOpts{ipv: ipv, nft: nft, noNftICMPCode: noNftICMPCode, noIptTwoProtos: noIptTwoProtos, noStaleScratch: noStaleScratch}

		nRules := rapid.SampledFrom([]int{1, 1, 1, 2, 2, 3}).Draw(t, "nRules")
		var prules []*proto.Rule
		var infos []c08RuleInfo
		var cands []*c08Cands
		var wits []*refpol.Packet
		satisfiable := 0
		for i := 0; i < nRules; i++ {
			r := c08GenRule(t, o, u, rec)
			prules = append(prules, r)
			infos = append(infos, c08Classify(r, ipv))
			c := c08BuildCands(r, ipv, u)
			cands = append(cands, c)
			if w, ok := c08Witness(c, ipv, u); ok {
				wits = append(wits, &w)
				satisfiable++
			} else {
				wits = append(wits, nil)
			}
		}

		rd, err := c08Render(cfg, nft, ipv, inbound, prules, untracked, asProfile, u)
		if err != nil {
			t.Fatalf("rendered policy chain cannot be loaded: %v\nrules: %v", err, prules)
		}

		outcomes := map[string]int{}
		for i := 0; i < nPackets; i++ {
			target := 0
			if nRules > 1 {
				target = c08Idx(t, "pkt-target-rule", nRules)
			}
			p := c08DrawPacket(t, ipv, cands[target], u, wits[target])
			mark0 := uint32(c08Idx(t, "pkt-mark", 1<<32)) &^ (marks.Accept | marks.Pass | marks.Drop)
			act, _, bad := c08CheckPacket(rd, prules, u, marks, denyAction, p, mark0)
			if bad != "" {
				if strings.HasPrefix(bad, "ERR:") {
					if strings.Contains(bad, "HARNESS-GAP:") {
						t.Fatalf("%s\nrules: %v\nrendered:\n%s", bad[4:], prules, rd.rs.Dump())
					}
					t.Fatalf("C08 violated: the rendered rules cannot be programmed/executed, so no rule takes its action: %s\nrules: %v\nrendered:\n%s", bad[4:], prules, rd.rs.Dump())
				}
				t.Fatalf("C08 violated (%s, IPv%d): %s\nrules: %v\nrendered:\n%s", map[bool]string{false: "iptables", true: "nftables"}[nft], ipv, bad, prules, rd.rs.Dump())
			}
			outcomes[act]++
		}

		// ---- evidence ----
		var classes []string
		classes = append(classes, map[bool]string{false: "iptables", true: "nft"}[nft], fmt.Sprintf("v%d", ipv),
			"deny-"+denyAction, c08Bool(flowLogs, "flowlogs"), c08Bool(untracked, "untracked"), c08Bool(asProfile, "profile-chain"), fmt.Sprintf("rules-%d", nRules))
		anyBlocks := false
		var keyParts []string
		classes = append(classes, c08Bool(satisfiable == 0, "no-rule-satisfiable"))
		for _, in := range infos {
			classes = append(classes, c08Bool(in.PosBlocks >= 3, "positive-blocks-3+"), c08Bool(in.PosBlocks == 2, "positive-blocks-2"),
				c08Bool(in.NamedInBlock, "named-port-in-port-block"), c08Bool(in.NamedInBlock && in.AnyVersion && ipv == 6, "v6-anyversion-named-port-block"),
				c08Bool(in.Service && !in.NotApplicable, fmt.Sprintf("service-ipport-set-%s", map[bool]string{false: "iptables", true: "nft"}[nft])))
			if in.Blocks || (in.Split && !in.NotApplicable) {
				anyBlocks = true
			}
			flags := fmt.Sprint(in.PosBlocks) + c08Bool(in.NamedInBlock, "n") + c08Bool(in.Service, "v") + c08Bool(in.Blocks, "B") + c08Bool(in.Split, "S") + c08Bool(in.Straddle, "X") + c08Bool(in.NamedPort, "N") +
				c08Bool(in.IPSet, "I") + c08Bool(in.ICMP, "C") + c08Bool(in.MixedVer, "M") + c08Bool(in.NegCIDRBlock, "G") +
				c08Bool(in.NegPorts, "P") + c08Bool(in.NotApplicable, "0")
			keyParts = append(keyParts, in.Action+":"+flags)
			classes = append(classes, "action-"+map[string]string{"": "default-allow"}[in.Action]+in.Action,
				c08Bool(in.Blocks, "match-blocks"), c08Bool(in.Split, "split-portlist"), c08Bool(in.Straddle, "range-straddles-split"),
				c08Bool(in.NamedPort, "named-port-set"), c08Bool(in.IPSet, "ip-set"), c08Bool(in.ICMP, "icmp"),
				c08Bool(in.MixedVer, "mixed-version-cidrs"), c08Bool(in.NegCIDRBlock, "negated-cidr-block"),
				c08Bool(in.NegPorts, "negated-ports"), c08Bool(in.NotApplicable, "rule-not-applicable-to-version"))
		}
		var oc []string
		triggered := 0
		for k, n := range outcomes {
			oc = append(oc, k)
			if k != "none" {
				triggered += n
			}
		}
		sort.Strings(oc)
		both := triggered > 0 && outcomes["none"] > 0
		classes = append(classes, c08Bool(both, "both-match-and-nomatch"), c08Bool(triggered == 0, "no-packet-triggered"))
		var cl []string
		for _, c := range classes {
			if c != "" {
				cl = append(cl, c)
			}
		}
		key := fmt.Sprintf("%v/%d/%s/%s", nft, ipv, strings.Join(keyParts, "|"), strings.Join(oc, ","))
		size := 0
		for _, r := range prules {
			size += googleproto.Size(r)
		}
		rec.SizedCase(anyBlocks && both, key, size, func() any {
			var rs []string
			for _, r := range prules {
				rs = append(rs, r.String())
			}
			return map[string]any{"renderer": map[bool]string{false: "iptables", true: "nftables"}[nft], "ip_version": ipv,
				"rules": rs, "outcomes": outcomes, "rendered": strings.Split(rd.rs.Dump(), "\n")}
		}, cl...)
	})
}

// ---- deterministic confirmation tests for the known findings (run by the driver only for
// signatures listed in KNOWN_FINDINGS.json; each FAILS while the finding reproduces) ----

func c08ConfirmRun(t *testing.T, nft bool, ipv int, r *proto.Rule, pkts []refpol.Packet) {
	ev.Quiet()
	marks := c08MarkLayouts[0]
	cfg := c08Config(marks, false, "DROP")
	u := &c08Universe{ipv: ipv, sim: map[string]*nfsim.Set{}, ref: refpol.MapSets{V4: map[string]*refpol.IPSet{}, V6: map[string]*refpol.IPSet{}}}
	prules := []*proto.Rule{r}
	rd, err := c08Render(cfg, nft, ipv, true, prules, false, false, u)
	if err != nil {
		t.Fatalf("rendered policy chain cannot be loaded: %v\nrule: %v", err, r)
	}
	for _, p := range pkts {
		if _, _, bad := c08CheckPacket(rd, prules, u, marks, "DROP", p, 0); bad != "" {
			t.Fatalf("C08 violated: %s\nrule: %v\nrendered:\n%s", bad, r, rd.rs.Dump())
		}
	}
}

func TestVerifC08ConfirmStaleScratch(t *testing.T) {
	var ports []*proto.PortRange
	for i := int32(1); i <= 16; i++ {
		ports = append(ports, &proto.PortRange{First: i, Last: i})
	}
	r := &proto.Rule{Action: "allow", Protocol: c08ProtoName("tcp"),
		SrcNet: []string{"10.0.0.0/30", "10.0.0.8/30"}, DstNet: []string{"10.0.0.16/30", "10.0.0.24/30"}, DstPorts: ports}
	a := netip.MustParseAddr
	c08ConfirmRun(t, false, 4, r, []refpol.Packet{
		{IPVersion: 4, Proto: 6, Src: a("10.0.0.1"), Dst: a("10.0.0.17"), SrcPort: 1000, DstPort: 16}, // matches
		{IPVersion: 4, Proto: 6, Src: a("10.0.0.1"), Dst: a("10.0.1.1"), SrcPort: 1000, DstPort: 16},  // dst outside dst_net
	})
}

func TestVerifC08ConfirmNftICMPCode(t *testing.T) {
	r := &proto.Rule{Action: "allow", Protocol: c08ProtoName("icmp"), IpVersion: proto.IPVersion_IPV4,
		Icmp: &proto.Rule_IcmpTypeCode{IcmpTypeCode: &proto.IcmpTypeAndCode{Type: 8, Code: 0}}}
	a := netip.MustParseAddr
	c08ConfirmRun(t, true, 4, r, []refpol.Packet{{IPVersion: 4, Proto: 1, Src: a("10.0.0.1"), Dst: a("10.0.0.2"), ICMPType: 8}})
}

// TestVerifC08ConfirmIptTwoProtos: former confirmation test of the (now fixed) finding
// c08-ipt-protocol-and-notprotocol, kept as a regression test: a rule with both protocol and
// notProtocol must load and match iff proto==protocol && proto!=notProtocol, both renderers.
func TestVerifC08ConfirmIptTwoProtos(t *testing.T) {
	a := netip.MustParseAddr
	pk := func(proto uint8) refpol.Packet {
		return refpol.Packet{IPVersion: 4, Proto: proto, Src: a("10.0.0.1"), Dst: a("10.0.0.2"), SrcPort: 1, DstPort: 2}
	}
	for _, nft := range []bool{false, true} {
		for _, r := range []*proto.Rule{
			{Action: "allow", Protocol: c08ProtoName("tcp"), NotProtocol: c08ProtoName("udp")},
			{Action: "allow", Protocol: c08ProtoName("tcp"), NotProtocol: c08ProtoNum(6)},
			{Action: "deny", Protocol: c08ProtoNum(17), NotProtocol: c08ProtoName("udp")},
			{Action: "allow", Protocol: c08ProtoNum(132), NotProtocol: c08ProtoNum(47), DstPorts: []*proto.PortRange{{First: 2, Last: 2}}},
		} {
			c08ConfirmRun(t, nft, 4, r, []refpol.Packet{pk(6), pk(17), pk(132), pk(47)})
		}
	}
}

// TestVerifC08NfsimSelfTest runs the interpreter's own self-tests (hand-written rule text with
// known outcomes, both front ends).
func TestVerifC08NfsimSelfTest(t *testing.T) {
	for _, f := range nfsim.SelfTest() {
		t.Errorf("nfsim self-test: %s", f)
	}
}

// TestVerifC08RegressSetFamilyAndDims: fixed inputs for two shapes the generator also draws —
// (a) a rule without explicit ip_version whose named ports need a port match block, rendered for
// IPv6; (b) a rule with a service (ip,port) destination set — for both renderers.
func TestVerifC08RegressSetFamilyAndDims(t *testing.T) {
	ev.Quiet()
	marks := c08MarkLayouts[0]
	cfg := c08Config(marks, false, "DROP")
	a := netip.MustParseAddr
	for _, nft := range []bool{false, true} {
		for _, ipv := range []int{4, 6} {
			pool := c08PoolFor(ipv)
			member := refpol.IPPort{Addr: pool[2], Proto: 6, Port: 8080}
			u := &c08Universe{ipv: ipv, sim: map[string]*nfsim.Set{}, unload: map[string]string{}}
			m := map[string]*refpol.IPSet{}
			for _, id := range c08PortSetIDs {
				c, oc := cfg.IPSetConfigV4, cfg.IPSetConfigV6
				if ipv == 6 {
					c, oc = oc, c
				}
				n, on := c.NameForMainIPSet(id), oc.NameForMainIPSet(id)
				if nft {
					n, on = nftables.LegalizeSetName(n), nftables.LegalizeSetName(on)
				}
				m[id] = &refpol.IPSet{IPPorts: []refpol.IPPort{member}}
				u.sim[n] = &nfsim.Set{IPPortType: true, IPPorts: []nfsim.IPPort{{Addr: member.Addr, Proto: 6, Port: 8080}}}
				u.unload[on] = "set of the other IP version"
			}
			if ipv == 4 {
				u.ref.V4 = m
			} else {
				u.ref.V6 = m
			}
			_ = a
			for _, r := range []*proto.Rule{
				{Action: "allow", Protocol: c08ProtoName("tcp"), DstPorts: []*proto.PortRange{{First: 80, Last: 80}}, DstNamedPortIpSetIds: c08PortSetIDs[:1]},
				{Action: "allow", Protocol: c08ProtoName("tcp"), SrcNamedPortIpSetIds: c08PortSetIDs[:2]},
				{Action: "allow", DstIpPortSetIds: c08PortSetIDs[2:]},
				{Action: "deny", NotDstNet: []string{pool[9].String() + map[int]string{4: "/32", 6: "/128"}[ipv]}, DstIpPortSetIds: c08PortSetIDs[2:]},
			} {
				prules := []*proto.Rule{r}
				rd, err := c08Render(cfg, nft, ipv, false, prules, false, false, u)
				if err != nil {
					t.Fatalf("nft=%v IPv%d: rendered policy chain cannot be loaded: %v\nrule: %v", nft, ipv, err, r)
				}
				for _, p := range []refpol.Packet{
					{IPVersion: ipv, Proto: 6, Src: pool[1], Dst: member.Addr, SrcPort: 1000, DstPort: 8080},
					{IPVersion: ipv, Proto: 6, Src: member.Addr, Dst: pool[1], SrcPort: 8080, DstPort: 80},
					{IPVersion: ipv, Proto: 6, Src: pool[1], Dst: member.Addr, SrcPort: 1000, DstPort: 8081},
					{IPVersion: ipv, Proto: 17, Src: pool[1], Dst: member.Addr, SrcPort: 1000, DstPort: 8080},
				} {
					if _, _, bad := c08CheckPacket(rd, prules, u, marks, "DROP", p, 0); bad != "" {
						t.Fatalf("C08 violated (nft=%v IPv%d): %s\nrule: %v\nrendered:\n%s", nft, ipv, bad, r, rd.rs.Dump())
					}
				}
			}
		}
	}
}
