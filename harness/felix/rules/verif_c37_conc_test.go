package rules_test

// C37 (concurrency supplement, naming functions) — the chain and set names that Felix derives from
// identities must be the same whichever goroutine computes them and whatever else is being named
// at the same time: selector IDs are computed by the syncer's update processors and by the
// calculation graph concurrently, chain and set names by the renderers of both IP versions.
//
// Per case: a pool of identities (selectors -> selector.Parse(..).UniqueID() -> NameForMainIPSet /
// LegalizeSetName; service and named-port IP set IDs; policies; profiles; policy groups; endpoint
// interfaces), expected names computed single-threaded and required to be pairwise distinct per
// name space; then 2..8 goroutines, released together, compute overlapping or disjoint parts of
// the pool for many rounds and every name must equal the expected one.

import (
	"fmt"
	"runtime"
	"sort"
	"strings"
	"sync"
	"sync/atomic"
	"testing"

	"pgregory.net/rapid"

	"github.com/projectcalico/calico/felix/ipsets"
	"github.com/projectcalico/calico/felix/nftables"
	"github.com/projectcalico/calico/felix/rules"
	"github.com/projectcalico/calico/felix/types"
	"github.com/projectcalico/calico/libcalico-go/lib/hash"
	"github.com/projectcalico/calico/libcalico-go/lib/selector"
	"github.com/projectcalico/calico/verifkit/ev"
)

type c37ConcName struct {
	What    string // description of the identity and the function
	Space   string // name space in which names must be distinct
	Compute func() string
	Want    string
}

func c37ConcNamesRun(lists [][]*c37ConcName, rounds int) string {
	workers := len(lists)
	var ready atomic.Int64
	var done, wg sync.WaitGroup
	start := make([]chan struct{}, workers)
	var mu sync.Mutex
	problem := ""
	report := func(s string) {
		mu.Lock()
		if problem == "" {
			problem = s
		}
		mu.Unlock()
	}
	failed := func() bool {
		mu.Lock()
		defer mu.Unlock()
		return problem != ""
	}
	for w := 0; w < workers; w++ {
		start[w] = make(chan struct{}, 1)
		wg.Add(1)
		go func(w int) {
			defer wg.Done()
			for range start[w] {
				func() {
					defer done.Done()
					defer func() {
						if r := recover(); r != nil {
							report(fmt.Sprintf("goroutine %d: a naming function panicked while other goroutines were computing names: %v", w, r))
							ready.Add(1 << 20)
						}
					}()
					ready.Add(1)
					for ready.Load() < int64(workers) {
						runtime.Gosched()
					}
					for _, it := range lists[w] {
						if got := it.Compute(); got != it.Want {
							report(fmt.Sprintf("goroutine %d: %s = %q while other goroutines were computing names; single-threaded it is %q", w, it.What, got, it.Want))
							return
						}
					}
				}()
			}
		}(w)
	}
	for r := 0; r < rounds && !failed(); r++ {
		ready.Store(0)
		done.Add(workers)
		for w := range start {
			start[w] <- struct{}{}
		}
		done.Wait()
	}
	for w := range start {
		close(start[w])
	}
	wg.Wait()
	mu.Lock()
	defer mu.Unlock()
	return problem
}

func TestVerifC37NamesConcurrent(t *testing.T) {
	ev.Quiet()
	rec := ev.New("C37", "names-concurrent",
		"a pool of 8..24 identities: selectors (parsed with selector.Parse, UniqueID -> NameForMainIPSet v4/v6 and the nftables form), service / named-port IP set IDs, policies (PolicyChainName, iptables and nftables), profiles, policy groups, endpoint interfaces; expected names computed single-threaded and pairwise distinct per name space; 2..8 goroutines released together compute overlapping or disjoint parts of the pool for many rounds. Non-trivial = >=3 goroutines and >=2 selector / IP-set identities; distinct = (goroutines, pool composition, overlap)",
		"real goroutines: the interleaving is not owned by the harness; assertions are schedule-independent")
	defer rec.Write()
	prev := runtime.GOMAXPROCS(0)
	if prev < 4 {
		runtime.GOMAXPROCS(4)
		defer runtime.GOMAXPROCS(prev)
	}
	rounds := ev.Scale(200, 1000)
	cfg4 := ipsets.NewIPVersionConfig(ipsets.IPFamilyV4, ipsets.IPSetNamePrefix, nil, nil)
	cfg6 := ipsets.NewIPVersionConfig(ipsets.IPFamilyV6, ipsets.IPSetNamePrefix, nil, nil)
	selectors := []string{"all()", "a == 'b'", "has(x)", "a == 'b' && has(x)", "projectcalico.org/namespace == 'default'", "role in {'db','web'}", "!has(y)", "global()"}

	rapid.Check(t, func(t *rapid.T) {
		n := rapid.IntRange(8, 24).Draw(t, "poolSize")
		var pool []*c37ConcName
		seen := map[string]bool{}
		nSets := 0
		kinds := map[string]bool{}
		add := func(kind, what, space string, f func() string) {
			if seen[space+"|"+what] {
				return
			}
			seen[space+"|"+what] = true
			kinds[kind] = true
			pool = append(pool, &c37ConcName{What: what, Space: space, Compute: f})
		}
		for tries := 0; len(pool) < n && tries < 4*n; tries++ {
			switch rapid.IntRange(0, 7).Draw(t, "identityKind") {
			case 0, 1, 2: // selector -> IP set name
				text := rapid.SampledFrom(selectors).Draw(t, "selector")
				if rapid.Bool().Draw(t, "varySelector") {
					text += " && k" + rapid.StringOfN(rapid.RuneFrom([]rune("abc012")), 1, 3, -1).Draw(t, "selectorTail") + " == 'v'"
				}
				cfg, fam := cfg4, "v4"
				if rapid.Bool().Draw(t, "v6") {
					cfg, fam = cfg6, "v6"
				}
				nft := rapid.Bool().Draw(t, "nftSet")
				nSets++
				add("selector-ipset", fmt.Sprintf("IP set name (%s, nft=%v) of selector %q", fam, nft, text), fmt.Sprintf("sets-nft=%v", nft), func() string {
					sel, err := selector.Parse(text)
					if err != nil {
						return "parse error: " + err.Error()
					}
					name := cfg.NameForMainIPSet(sel.UniqueID())
					if nft {
						name = nftables.LegalizeSetName(name)
					}
					return name
				})
			case 3: // service / named port IP set
				svc := rapid.SampledFrom([]string{"default/svc-a", "default/svc-b", "kube-system/kube-dns", "prod/api"}).Draw(t, "service")
				pfx := rapid.SampledFrom([]string{"svc", "svcnoport", "n"}).Draw(t, "idPrefix")
				content := svc
				if pfx == "n" {
					content = hash.MakeUniqueID("s", rapid.SampledFrom(selectors).Draw(t, "selector")) + ",tcp," + rapid.SampledFrom([]string{"http", "dns"}).Draw(t, "port")
				}
				nSets++
				add("service-or-port-ipset", fmt.Sprintf("IP set name (v4) of MakeUniqueID(%q,%q)", pfx, content), "sets-nft=false", func() string {
					return cfg4.NameForMainIPSet(hash.MakeUniqueID(pfx, content))
				})
			case 4: // policy
				k := rapid.SampledFrom(c37Kinds).Draw(t, "kind")
				ns := ""
				if k.namespaced {
					ns = rapid.SampledFrom([]string{"default", "prod"}).Draw(t, "namespace")
				}
				name := c37Name(t, rapid.IntRange(1, 60).Draw(t, "nameLen"), true, "policyName")
				nft := rapid.Bool().Draw(t, "nftChain")
				pid := types.PolicyID{Kind: k.kind, Namespace: ns, Name: name}
				add("policy", fmt.Sprintf("PolicyChainName(pi, %+v, nft=%v)", pid, nft), fmt.Sprintf("chains-nft=%v", nft), func() string {
					p := pid
					return rules.PolicyChainName(rules.PolicyInboundPfx, &p, nft)
				})
			case 5: // profile
				name := c37Name(t, rapid.IntRange(1, 60).Draw(t, "nameLen"), true, "profileName")
				add("profile", fmt.Sprintf("ProfileChainName(pro, %q, iptables)", name), "chains-nft=false", func() string {
					return rules.ProfileChainName(rules.ProfileOutboundPfx, &types.ProfileID{Name: name}, false)
				})
			case 6: // policy group
				sel := rapid.SampledFrom(selectors).Draw(t, "selector")
				cnt := rapid.IntRange(1, 3).Draw(t, "groupSize")
				var pids []types.PolicyID
				for i := 0; i < cnt; i++ {
					pids = append(pids, types.PolicyID{Kind: c37Kinds[1].kind, Name: fmt.Sprintf("p%d-%s", i, rapid.StringOfN(rapid.RuneFrom([]rune("abc")), 1, 2, -1).Draw(t, "groupPolicy"))})
				}
				add("group", fmt.Sprintf("PolicyGroup{inbound,%q,%v}.ChainName()", sel, pids), "chains-nft=false", func() string {
					g := &rules.PolicyGroup{Direction: rules.PolicyDirectionInbound, Selector: sel}
					for i := range pids {
						p := pids[i]
						g.Policies = append(g.Policies, &p)
					}
					return g.ChainName()
				})
			default: // endpoint
				iface := "cali" + rapid.StringOfN(rapid.RuneFrom([]rune("0123456789abcdef")), 11, 11, -1).Draw(t, "iface")
				add("endpoint", fmt.Sprintf("EndpointChainName(tw, %q, 28)", iface), "chains-nft=false", func() string {
					return rules.EndpointChainName(rules.WorkloadToEndpointPfx, iface, c37IptablesLimit)
				})
			}
		}
		if len(pool) < 2 {
			t.Skip("pool too small")
		}
		owner := map[string]string{}
		for _, it := range pool {
			it.Want = it.Compute()
			if strings.HasPrefix(it.Want, "parse error") {
				t.Fatalf("HARNESS-GAP: %s: %s", it.What, it.Want)
			}
			if again := it.Compute(); again != it.Want {
				t.Fatalf("%s gave %q and then %q (single-threaded)", it.What, it.Want, again)
			}
			if other, clash := owner[it.Space+"|"+it.Want]; clash {
				t.Fatalf("distinct identities share the name %q (%s):\n  %s\n  %s", it.Want, it.Space, other, it.What)
			}
			owner[it.Space+"|"+it.Want] = it.What
		}

		workers := rapid.SampledFrom([]int{2, 3, 4, 6, 8, 8}).Draw(t, "goroutines")
		overlap := rapid.Bool().Draw(t, "overlappingLists")
		lists := make([][]*c37ConcName, workers)
		for w := range lists {
			if overlap {
				rot := (w * 3) % len(pool)
				lists[w] = append(append([]*c37ConcName{}, pool[rot:]...), pool[:rot]...)
			} else {
				for i := w; i < len(pool); i += workers {
					lists[w] = append(lists[w], pool[i])
				}
				if len(lists[w]) == 0 {
					lists[w] = []*c37ConcName{pool[w%len(pool)]}
				}
			}
		}
		if msg := c37ConcNamesRun(lists, rounds); msg != "" {
			var whats []string
			for _, it := range pool {
				whats = append(whats, it.What)
			}
			t.Fatalf("%s\n%d goroutines, overlapping lists: %v, pool:\n  %s", msg, workers, overlap, strings.Join(whats, "\n  "))
		}

		var ks []string
		for k := range kinds {
			ks = append(ks, k)
		}
		sort.Strings(ks)
		classes := append([]string{fmt.Sprintf("goroutines-%d", workers)}, ks...)
		if overlap {
			classes = append(classes, "overlapping-lists")
		} else {
			classes = append(classes, "disjoint-lists")
		}
		rec.SizedCase(workers >= 3 && nSets >= 2, fmt.Sprintf("%d/%v/%v/%d", workers, ks, overlap, len(pool)), len(pool), func() any {
			var whats []string
			for _, it := range pool {
				whats = append(whats, it.What+" = "+it.Want)
			}
			return map[string]any{"goroutines": workers, "overlap": overlap, "pool": whats, "roundsPerCase": rounds}
		}, classes...)
	})
}
