package rules_test

// C40 — host protection and workload isolation hold on every packet path.
//
// Real code: rules.NewRenderer(Config, nft) -> Static{Raw,Mangle,NAT,Filter}TableChains,
// StaticFilterForwardAppendRules, WorkloadDispatchChains/DispatchMappings, HostDispatchChains /
// FromHostDispatchChains / ToHostDispatchChains, EndpointMarkDispatchChains, the workload and
// host endpoint chain functions (normal, apply-on-forward, pre-DNAT, untracked), policy group,
// policy and profile chains.  The harness wires them into the raw / mangle / nat / filter
// tables the way InternalDataplane.setUpIptablesNormal, endpointManager and policyManager do
// (re-implemented here from their code: which chains go to which table, which host endpoints
// get raw / pre-DNAT chains, how the all-interfaces host endpoint becomes the dispatch default)
// and hooks them into the kernel chains.  Every chain is rendered to TEXT by Felix's own
// renderers; verifkit/nfsim executes packets over the netfilter hooks in kernel order.
// The four sentences of the property are four predicates over the path result.

import (
	"fmt"
	"net/netip"
	"sort"
	"strings"
	"testing"

	"pgregory.net/rapid"

	v3 "github.com/projectcalico/api/pkg/apis/projectcalico/v3"
	"github.com/projectcalico/api/pkg/lib/numorstring"

	"github.com/projectcalico/calico/felix/config"
	"github.com/projectcalico/calico/felix/generictables"
	"github.com/projectcalico/calico/felix/ipsets"
	"github.com/projectcalico/calico/felix/iptables"
	"github.com/projectcalico/calico/felix/nftables"
	"github.com/projectcalico/calico/felix/proto"
	"github.com/projectcalico/calico/felix/rules"
	"github.com/projectcalico/calico/felix/types"
	"github.com/projectcalico/calico/verifkit/ev"
	"github.com/projectcalico/calico/verifkit/nfsim"
	"github.com/projectcalico/calico/verifkit/refpol"
)

// ---- draws ----

func c40Idx(t *rapid.T, label string, n int) int {
	x := rapid.Uint64().Draw(t, label)
	x ^= x >> 30
	x *= 0xbf58476d1ce4e5b9
	x ^= x >> 27
	x *= 0x94d049bb133111eb
	x ^= x >> 31
	return int(x % uint64(n))
}

func c40Chance(t *rapid.T, label string, pct int) bool { return c40Idx(t, label, 100) >= 100-pct }

func c40From[T any](t *rapid.T, label string, xs []T) T { return xs[c40Idx(t, label, len(xs))] }

func c40Bool(b bool, s string) string {
	if b {
		return s
	}
	return ""
}

// ---- address plan ----

type c40Addrs struct {
	host        netip.Addr   // this host's address (in the this-host IP set, address type LOCAL)
	clusterNet  netip.Prefix // other Calico hosts (all-hosts-net / all-vxlan-net members come from here)
	clusterHost []netip.Addr
	outsiders   []netip.Addr // not a cluster host
	wlNet       netip.Prefix
	workloads   []netip.Addr
	serviceIP   netip.Addr
	fsNets      []string // candidate failsafe nets of this version
	otherVerNet string   // a failsafe net of the other IP version
}

func c40AddrPlan(ipv int) c40Addrs {
	a, p := netip.MustParseAddr, netip.MustParsePrefix
	if ipv == 4 {
		return c40Addrs{host: a("192.168.0.1"), clusterNet: p("192.168.0.0/24"), clusterHost: []netip.Addr{a("192.168.0.2"), a("192.168.0.3")},
			outsiders: []netip.Addr{a("172.16.0.9"), a("8.8.8.8"), a("192.168.0.77")}, wlNet: p("10.65.0.0/24"),
			workloads: []netip.Addr{a("10.65.0.2"), a("10.65.0.3"), a("10.65.0.4")}, serviceIP: a("10.96.0.10"),
			fsNets: []string{"172.16.0.0/24", "192.168.0.0/24", "8.8.8.8/32"}, otherVerNet: "2001:db8::/64"}
	}
	return c40Addrs{host: a("fd00:a::1"), clusterNet: p("fd00:a::/64"), clusterHost: []netip.Addr{a("fd00:a::2"), a("fd00:a::3")},
		outsiders: []netip.Addr{a("2001:db8::9"), a("2001:db8:1::8"), a("fd00:a::77")}, wlNet: p("fd00:b::/64"),
		workloads: []netip.Addr{a("fd00:b::2"), a("fd00:b::3"), a("fd00:b::4")}, serviceIP: a("fd00:c::10"),
		fsNets: []string{"2001:db8::/64", "fd00:a::/64", "2001:db8:1::8/128"}, otherVerNet: "172.16.0.0/24"}
}

// ---- policy model (simple rules; C08/C09 cover rule and tier rendering in depth) ----

type c40Policy struct {
	ID       types.PolicyID
	Selector string
	In, Out  []*proto.Rule
}

type c40Tier struct {
	Name          string
	DefaultAction string
	Pols          []c40Policy
}

type c40Profile struct {
	Name    string
	In, Out []*proto.Rule
}

type c40WEP struct {
	Name     string
	Addr     netip.Addr
	Tiers    []c40Tier
	Profiles []string
	Style    string
}

type c40HEP struct {
	Iface                               string
	Normal, Untracked, PreDNAT, Forward []c40Tier
	Styles                              [4]string
	Profiles                            []string
}

var c40PolicyPorts = []uint16{22, 53, 80, 443, 6443}

func c40NumProto(n int32) *proto.Protocol {
	return &proto.Protocol{NumberOrName: &proto.Protocol_Number{Number: n}}
}

func c40NameProto(n string) *proto.Protocol {
	return &proto.Protocol{NumberOrName: &proto.Protocol_Name{Name: n}}
}

func c40GenRule(t *rapid.T, ipv int, ad c40Addrs) *proto.Rule {
	r := &proto.Rule{Action: c40From(t, "rule-action", []string{"allow", "allow", "deny", "deny", "pass", "log"})}
	switch c40Idx(t, "rule-kind", 6) {
	case 0, 1:
		r.Protocol = c40NameProto(c40From(t, "rule-proto", []string{"tcp", "udp"}))
		po := int32(c40From(t, "rule-port", c40PolicyPorts))
		r.DstPorts = []*proto.PortRange{{First: po, Last: po}}
	case 2:
		r.Protocol = c40NumProto(c40From(t, "rule-protonum", []int32{6, 17, 132}))
	case 3:
		all := append(append([]netip.Addr{ad.host}, ad.clusterHost...), ad.outsiders...)
		a := c40From(t, "rule-src", all)
		r.SrcNet = []string{netip.PrefixFrom(a, a.BitLen()).String()}
	case 4:
		r.DstNet = []string{netip.PrefixFrom(ad.host, ad.host.BitLen()).String()}
	default:
		// match everything
	}
	return r
}

// c40GenTiers draws one tier list.  owner and label make the policy names unique.
func c40GenTiers(t *rapid.T, owner, label string, ipv int, ad c40Addrs, styles []string) ([]c40Tier, string) {
	style := c40From(t, label+"-style", styles)
	one := func(action string) []c40Tier {
		return []c40Tier{{Name: "default", DefaultAction: "Deny", Pols: []c40Policy{{
			ID: types.PolicyID{Name: owner + "-" + label + "-" + action + "-all", Kind: v3.KindGlobalNetworkPolicy}, Selector: "all()",
			In: []*proto.Rule{{Action: action}}, Out: []*proto.Rule{{Action: action}}}}}}
	}
	switch style {
	case "none":
		return nil, style
	case "deny-all":
		return one("deny"), style
	case "allow-all":
		return one("allow"), style
	}
	var tiers []c40Tier
	nT := 1 + c40Idx(t, label+"-ntiers", 2)
	for ti := 0; ti < nT; ti++ {
		tier := c40Tier{Name: fmt.Sprintf("tier%d", ti), DefaultAction: c40From(t, label+"-default-action", []string{"Deny", "Deny", "Pass"})}
		sameSel := rapid.Bool().Draw(t, label+"-same-selector")
		nP := 1 + c40Idx(t, label+"-npols", 3)
		for pi := 0; pi < nP; pi++ {
			pol := c40Policy{ID: types.PolicyID{Name: fmt.Sprintf("%s-%s-t%dp%d", owner, label, ti, pi), Kind: v3.KindGlobalNetworkPolicy}, Selector: "all()"}
			if !sameSel {
				pol.Selector = fmt.Sprintf("x == '%d'", pi)
			}
			for i := c40Idx(t, label+"-nin", 3); i > 0; i-- {
				pol.In = append(pol.In, c40GenRule(t, ipv, ad))
			}
			for i := c40Idx(t, label+"-nout", 3); i > 0; i-- {
				pol.Out = append(pol.Out, c40GenRule(t, ipv, ad))
			}
			tier.Pols = append(tier.Pols, pol)
		}
		tiers = append(tiers, tier)
	}
	return tiers, style
}

func c40RefTiers(tiers []c40Tier) []refpol.Tier {
	var out []refpol.Tier
	for _, t := range tiers {
		rt := refpol.Tier{Name: t.Name, DefaultAction: t.DefaultAction}
		for _, p := range t.Pols {
			rt.Policies = append(rt.Policies, refpol.Policy{Name: p.ID.Name, AppliesInbound: true, AppliesOutbound: true, InboundRules: p.In, OutboundRules: p.Out})
		}
		out = append(out, rt)
	}
	return out
}

// c40Groups: endpointManager.groupPolicies' contract (consecutive equal selectors), every
// policy listed for both directions.
func c40Groups(tiers []c40Tier, inbound, outbound bool) []rules.TierPolicyGroups {
	var out []rules.TierPolicyGroups
	for _, t := range tiers {
		mk := func(dir rules.PolicyDirection) []*rules.PolicyGroup {
			var gs []*rules.PolicyGroup
			var g *rules.PolicyGroup
			for i := range t.Pols {
				p := &t.Pols[i]
				if g == nil || g.Selector != p.Selector {
					g = &rules.PolicyGroup{Direction: dir, Selector: p.Selector}
					gs = append(gs, g)
				}
				id := p.ID
				g.Policies = append(g.Policies, &id)
			}
			return gs
		}
		tg := rules.TierPolicyGroups{Name: t.Name, DefaultAction: t.DefaultAction}
		if inbound {
			tg.IngressPolicies = mk(rules.PolicyDirectionInbound)
		}
		if outbound {
			tg.EgressPolicies = mk(rules.PolicyDirectionOutbound)
		}
		out = append(out, tg)
	}
	return out
}

// ---- the world: configuration + endpoints + loaded tables ----

type c40Marks struct{ Accept, Pass, Drop, Scratch0, Scratch1, Endpoint, NonCali uint32 }

// all: every bit Felix owns.  Packets enter netfilter without any of them (only Felix sets them).
func (m c40Marks) all() uint32 {
	return m.Accept | m.Pass | m.Drop | m.Scratch0 | m.Scratch1 | m.Endpoint | m.NonCali
}

var c40MarkLayouts = []c40Marks{
	{0x10000, 0x20000, 0x40000, 0x80000, 0x100000, 0xfff00000 &^ 0x100000, 0x200000},
	{0x8, 0x20, 0x1, 0x40, 0x10, 0xff00, 0x100},
	{0x80, 0x100, 0x800, 0x200, 0x400, 0xff000, 0x1000},
}

type c40World struct {
	ipv      int
	nft      bool
	cfg      rules.Config
	marks    c40Marks
	ad       c40Addrs
	prefixes []string
	weps     []c40WEP
	heps     []c40HEP
	profiles []c40Profile
	// set contents
	allHosts, vxlanSrc []netip.Prefix
	tables             []*nfsim.Table
	layerOf            map[string]string
}

func (w *c40World) chain(table, name string) string {
	if w.nft {
		return nfsim.NFTName(table, name)
	}
	return name
}

func (w *c40World) isWorkloadIface(name string) bool {
	for _, p := range w.prefixes {
		if strings.HasPrefix(name, p) {
			return true
		}
	}
	return false
}

func (w *c40World) inSet(set []netip.Prefix, a netip.Addr) bool {
	for _, p := range set {
		if p.Contains(a) {
			return true
		}
	}
	return false
}

func (w *c40World) hep(iface string) *c40HEP {
	for i := range w.heps {
		if w.heps[i].Iface == iface {
			return &w.heps[i]
		}
	}
	return nil
}

func (w *c40World) vxlanOn() bool {
	return (w.ipv == 4 && w.cfg.VXLANEnabled) || (w.ipv == 6 && w.cfg.VXLANEnabledV6)
}

func (w *c40World) ipipOn() bool { return w.ipv == 4 && w.cfg.IPIPEnabled }

func c40GenFailsafes(t *rapid.T, label string, ad c40Addrs, vxlanPort int) []config.ProtoPort {
	n := c40From(t, label+"-count", []int{0, 1, 2, 2, 3, 4})
	var out []config.ProtoPort
	for i := 0; i < n; i++ {
		pp := config.ProtoPort{Protocol: c40From(t, label+"-proto", []string{"tcp", "tcp", "udp"}),
			Port: c40From(t, label+"-port", []uint16{22, 53, 179, 6443, 2379, 68})}
		if int(pp.Port) == vxlanPort {
			continue
		}
		switch c40Idx(t, label+"-net-kind", 6) {
		case 0, 1:
			pp.Net = c40From(t, label+"-net", ad.fsNets)
		case 2:
			pp.Net = ad.otherVerNet
		}
		out = append(out, pp)
	}
	return out
}

func c40GenWorld(t *rapid.T) *c40World {
	w := &c40World{}
	w.ipv = rapid.SampledFrom([]int{4, 6}).Draw(t, "ipVersion")
	w.nft = rapid.Bool().Draw(t, "nft")
	w.marks = rapid.SampledFrom(c40MarkLayouts).Draw(t, "markLayout")
	w.ad = c40AddrPlan(w.ipv)
	w.prefixes = c40From(t, "workloadPrefixes", [][]string{{"cali"}, {"cali"}, {"cali", "tap"}})
	m := w.marks
	vxlanPort := c40From(t, "vxlanPort", []int{4789, 4789, 4790})
	w.cfg = rules.Config{
		IPSetConfigV4:         ipsets.NewIPVersionConfig(ipsets.IPFamilyV4, "cali", nil, nil),
		IPSetConfigV6:         ipsets.NewIPVersionConfig(ipsets.IPFamilyV6, "cali", nil, nil),
		WorkloadIfacePrefixes: w.prefixes,
		MarkAccept:            m.Accept, MarkPass: m.Pass, MarkDrop: m.Drop, MarkScratch0: m.Scratch0, MarkScratch1: m.Scratch1,
		MarkEndpoint: m.Endpoint, MarkNonCaliEndpoint: m.NonCali,
		KubeIPVSSupportEnabled:         c40Chance(t, "ipvs", 35),
		KubeNodePortRanges:             []numorstring.Port{{MinPort: 30000, MaxPort: 32767}},
		VXLANEnabled:                   rapid.Bool().Draw(t, "vxlanEnabled"),
		VXLANEnabledV6:                 rapid.Bool().Draw(t, "vxlanEnabledV6"),
		VXLANPort:                      vxlanPort,
		VXLANVNI:                       4096,
		IPIPEnabled:                    rapid.Bool().Draw(t, "ipipEnabled"),
		AllowVXLANPacketsFromWorkloads: c40Chance(t, "allowVXLANFromWorkloads", 30),
		AllowIPIPPacketsFromWorkloads:  c40Chance(t, "allowIPIPFromWorkloads", 30),
		WireguardInterfaceName:         "wireguard.cali",
		WireguardInterfaceNameV6:       "wg-v6.cali",
		WireguardMark:                  0x100000 &^ (m.Accept | m.Pass | m.Drop | m.Scratch0 | m.Scratch1 | m.Endpoint),
		EndpointToHostAction:           c40From(t, "endpointToHostAction", []string{"DROP", "ACCEPT", "RETURN", "REJECT", "ACCEPT", "DROP"}),
		FilterAllowAction:              c40From(t, "filterAllowAction", []string{"ACCEPT", "ACCEPT", "RETURN"}),
		MangleAllowAction:              c40From(t, "mangleAllowAction", []string{"ACCEPT", "ACCEPT", "RETURN"}),
		FilterDenyAction:               c40From(t, "filterDenyAction", []string{"DROP", "DROP", "REJECT"}),
		DisableConntrackInvalid:        c40Chance(t, "disableConntrackInvalid", 20),
		FlowLogsEnabled:                rapid.Bool().Draw(t, "flowLogs"),
	}
	w.cfg.FailsafeInboundHostPorts = c40GenFailsafes(t, "failsafe-in", w.ad, vxlanPort)
	w.cfg.FailsafeOutboundHostPorts = c40GenFailsafes(t, "failsafe-out", w.ad, vxlanPort)

	// IP sets maintained by other managers.
	switch c40Idx(t, "cluster-set-shape", 3) {
	case 0:
		w.allHosts = []netip.Prefix{w.ad.clusterNet}
	case 1:
		for _, h := range w.ad.clusterHost {
			w.allHosts = append(w.allHosts, netip.PrefixFrom(h, h.BitLen()))
		}
	}
	switch c40Idx(t, "vxlan-set-shape", 3) {
	case 0:
		w.vxlanSrc = []netip.Prefix{w.ad.clusterNet}
	case 1:
		w.vxlanSrc = []netip.Prefix{netip.PrefixFrom(w.ad.clusterHost[0], w.ad.clusterHost[0].BitLen())}
	}

	// Profiles.
	nProf := c40Idx(t, "nProfiles", 3)
	for i := 0; i < nProf; i++ {
		p := c40Profile{Name: fmt.Sprintf("prof%d", i)}
		for j := c40Idx(t, "prof-nin", 3); j > 0; j-- {
			r := c40GenRule(t, w.ipv, w.ad)
			if r.Action == "pass" {
				r.Action = "allow"
			}
			p.In = append(p.In, r)
		}
		for j := c40Idx(t, "prof-nout", 3); j > 0; j-- {
			r := c40GenRule(t, w.ipv, w.ad)
			if r.Action == "pass" {
				r.Action = "allow"
			}
			p.Out = append(p.Out, r)
		}
		w.profiles = append(w.profiles, p)
	}
	profIDs := func(label string) []string {
		var out []string
		for _, p := range w.profiles {
			if c40Chance(t, label+"-uses-profile", 60) {
				out = append(out, p.Name)
			}
		}
		return out
	}

	// Workload endpoints.
	nW := 1 + c40Idx(t, "nWorkloads", 3)
	names := []string{"cali1", "cali2a", "cali2b"}
	if len(w.prefixes) > 1 {
		names[2] = "tapx"
	}
	for i := 0; i < nW; i++ {
		wep := c40WEP{Name: names[i], Addr: w.ad.workloads[i]}
		wep.Tiers, wep.Style = c40GenTiers(t, "w"+fmt.Sprint(i), "wl", w.ipv, w.ad, []string{"none", "deny-all", "allow-all", "allow-all", "random", "random", "random"})
		wep.Profiles = profIDs("wl")
		w.weps = append(w.weps, wep)
	}

	// Host endpoints.
	hepShape := c40From(t, "hostEndpoints", []string{"eth0", "eth0", "*", "*", "eth0+*", "eth0+eth1", "none"})
	if hepShape != "none" {
		for i, iface := range strings.Split(hepShape, "+") {
			h := c40HEP{Iface: iface}
			owner := fmt.Sprintf("h%d", i)
			styles := []string{"none", "deny-all", "deny-all", "allow-all", "random", "random"}
			h.Normal, h.Styles[0] = c40GenTiers(t, owner, "normal", w.ipv, w.ad, styles)
			h.Untracked, h.Styles[1] = c40GenTiers(t, owner, "untracked", w.ipv, w.ad, append([]string{"none", "none"}, styles...))
			h.PreDNAT, h.Styles[2] = c40GenTiers(t, owner, "prednat", w.ipv, w.ad, append([]string{"none", "none"}, styles...))
			h.Forward, h.Styles[3] = c40GenTiers(t, owner, "forward", w.ipv, w.ad, append([]string{"none"}, styles...))
			h.Profiles = profIDs("hep")
			w.heps = append(w.heps, h)
		}
	}
	return w
}

// c40Build renders everything and loads it into the four tables.
func c40Build(w *c40World) error {
	ipv := uint8(w.ipv)
	rr := rules.NewRenderer(w.cfg, w.nft)
	epMark := rules.NewEndpointMarkMapper(w.cfg.MarkEndpoint, w.cfg.MarkNonCaliEndpoint)
	chains := map[string][]*generictables.Chain{}
	add := func(table string, cs ...*generictables.Chain) { chains[table] = append(chains[table], cs...) }

	// --- InternalDataplane.setUpIptablesNormal: static chains ---
	add("raw", rr.StaticRawTableChains(ipv)...)
	add("mangle", rr.StaticMangleTableChains(ipv)...)
	add("nat", rr.StaticNATTableChains(ipv)...)
	add("filter", rr.StaticFilterTableChains(ipv)...)

	// --- policyManager: every active policy into raw, mangle and filter; profiles into filter
	// (both directions) and mangle (outbound) ---
	groupSeen := map[string]bool{}
	addGroups := func(tgs []rules.TierPolicyGroups) {
		// endpointManager.increfGroups: non-inlined groups into filter, mangle and raw.
		for _, tg := range tgs {
			for _, gs := range [][]*rules.PolicyGroup{tg.IngressPolicies, tg.EgressPolicies} {
				for _, g := range gs {
					if g.ShouldBeInlined() || groupSeen[g.ChainName()] {
						continue
					}
					groupSeen[g.ChainName()] = true
					cs := rr.PolicyGroupToIptablesChains(g)
					add("raw", cs...)
					add("mangle", cs...)
					add("filter", cs...)
				}
			}
		}
	}
	addPolicies := func(tiers []c40Tier, untracked, preDNAT bool) {
		for _, t := range tiers {
			for i := range t.Pols {
				p := &t.Pols[i]
				id := p.ID
				cs := rr.PolicyToIptablesChains(&id, &proto.Policy{Tier: t.Name, InboundRules: p.In, OutboundRules: p.Out,
					Untracked: untracked, PreDnat: preDNAT, OriginalSelector: p.Selector}, ipv)
				add("raw", cs...)
				add("mangle", cs...)
				add("filter", cs...)
			}
		}
	}
	for _, p := range w.profiles {
		in, out := rr.ProfileToIptablesChains(&types.ProfileID{Name: p.Name}, &proto.Profile{InboundRules: p.In, OutboundRules: p.Out}, ipv)
		add("filter", in, out)
		add("mangle", out)
	}

	// --- endpointManager: workloads ---
	wlEPs := map[types.WorkloadEndpointID]*proto.WorkloadEndpoint{}
	for i, wep := range w.weps {
		wlEPs[types.WorkloadEndpointID{OrchestratorId: "k8s", WorkloadId: fmt.Sprintf("ns/pod%d", i), EndpointId: "eth0"}] = &proto.WorkloadEndpoint{Name: wep.Name}
		tgs := c40Groups(wep.Tiers, true, true)
		addGroups(tgs)
		addPolicies(wep.Tiers, false, false)
		add("filter", rr.WorkloadEndpointToIptablesChains(wep.Name, epMark, true, tgs, wep.Profiles, nil)...)
	}
	add("filter", rr.WorkloadDispatchChains(wlEPs)...)
	var fromMap, toMap map[string][]string
	if w.nft {
		fromMap, toMap = rr.DispatchMappings(wlEPs)
	}

	// --- endpointManager.updateHostEndpoints ---
	all := map[string]types.HostEndpointID{}
	untracked := map[string]types.HostEndpointID{}
	preDNAT := map[string]types.HostEndpointID{}
	for i := range w.heps {
		h := &w.heps[i]
		id := types.HostEndpointID{EndpointId: "hep-" + h.Iface}
		all[h.Iface] = id
		normal := c40Groups(h.Normal, true, true)
		forward := c40Groups(h.Forward, true, true)
		addGroups(normal)
		addGroups(forward)
		addPolicies(h.Normal, false, false)
		addPolicies(h.Forward, false, false)
		add("filter", rr.HostEndpointToFilterChains(h.Iface, normal, forward, epMark, h.Profiles)...)
		add("mangle", rr.HostEndpointToMangleEgressChains(h.Iface, normal, h.Profiles)...)
		if len(h.PreDNAT) > 0 {
			preDNAT[h.Iface] = id
			tgs := c40Groups(h.PreDNAT, true, false)
			addGroups(tgs)
			addPolicies(h.PreDNAT, false, true)
			add("mangle", rr.HostEndpointToMangleIngressChains(h.Iface, tgs)...)
		}
		if len(h.Untracked) > 0 && h.Iface != "*" {
			// "DoNotTrack policy is not supported for a HEP with interfaceName: *; ignoring it"
			untracked[h.Iface] = id
			tgs := c40Groups(h.Untracked, true, true)
			addGroups(tgs)
			addPolicies(h.Untracked, true, false)
			add("raw", rr.HostEndpointToRawChains(h.Iface, tgs)...)
		}
	}
	add("raw", rr.HostDispatchChains(untracked, "", false)...)
	splitDefault := func(m map[string]types.HostEndpointID) (map[string]types.HostEndpointID, string) {
		named, def := map[string]types.HostEndpointID{}, ""
		for k, v := range m {
			if k == "*" {
				def = "*"
				continue
			}
			named[k] = v
		}
		return named, def
	}
	named, def := splitDefault(all)
	add("filter", rr.HostDispatchChains(named, def, true)...)
	add("mangle", rr.ToHostDispatchChains(named, def)...)
	preNamed, preDef := splitDefault(preDNAT)
	add("mangle", rr.FromHostDispatchChains(preNamed, preDef)...)
	if w.cfg.KubeIPVSSupportEnabled {
		add("filter", rr.EndpointMarkDispatchChains(epMark, wlEPs, named)...)
	}

	// --- load ---
	newMatch := func() generictables.MatchCriteria {
		if w.nft {
			return nftables.Match()
		}
		return iptables.Match()
	}
	actions := iptables.Actions()
	if w.nft {
		actions = nftables.Actions()
	}
	jump := func(chain string) []generictables.Rule {
		return []generictables.Rule{{Match: newMatch(), Action: actions.Jump(chain)}}
	}
	tbls := map[string]generictables.Table{}
	rss := map[string]*nfsim.Ruleset{}
	order := []string{"raw", "mangle", "nat", "filter"}
	if w.nft {
		rs, rawT := nfsim.NewNFT(w.ipv, "raw")
		tbls["raw"], rss["raw"] = rawT, rs
		for _, n := range order[1:] {
			tbls[n], rss[n] = nfsim.AddNFTLayer(rs, n), rs
		}
		ft := tbls["filter"].(nfsim.NFTTable)
		ft.AddOrReplaceMap(nftables.MapMetadata{Name: rules.NftablesFromWorkloadDispatchMap, Type: nftables.MapTypeInterfaceMatch}, fromMap)
		ft.AddOrReplaceMap(nftables.MapMetadata{Name: rules.NftablesToWorkloadDispatchMap, Type: nftables.MapTypeInterfaceMatch}, toMap)
	} else {
		for _, n := range order {
			rs, tb := nfsim.NewIptables(w.ipv)
			tbls[n], rss[n] = tb, rs
		}
	}
	for _, n := range order {
		tbls[n].UpdateChains(chains[n])
	}
	hooks := map[string]map[string]string{
		"raw":    {nfsim.HookPrerouting: rules.ChainRawPrerouting, nfsim.HookOutput: rules.ChainRawOutput},
		"mangle": {nfsim.HookPrerouting: rules.ChainManglePrerouting, nfsim.HookPostrouting: rules.ChainManglePostrouting},
		"nat":    {nfsim.HookPrerouting: rules.ChainNATPrerouting, nfsim.HookOutput: rules.ChainNATOutput},
		"filter": {nfsim.HookInput: rules.ChainFilterInput, nfsim.HookForward: rules.ChainFilterForward, nfsim.HookOutput: rules.ChainFilterOutput},
	}
	for _, n := range order {
		var hs []string
		for h := range hooks[n] {
			hs = append(hs, h)
		}
		sort.Strings(hs)
		for _, h := range hs {
			tbls[n].InsertOrAppendRules(h, jump(hooks[n][h]))
		}
	}
	tbls["nat"].AppendRules(nfsim.HookPostrouting, jump(rules.ChainNATPostrouting))
	tbls["filter"].AppendRules(nfsim.HookForward, rr.StaticFilterForwardAppendRules())

	// Chains owned by managers that are not part of this property (empty = nothing configured).
	stubs := map[string][]string{
		"raw":    {rules.ChainRpfSkip},
		"mangle": {rules.ChainEgressDSCP},
		"nat":    {rules.ChainFIPDnat, rules.ChainFIPSnat, rules.ChainNATOutgoing},
		"filter": {rules.ChainCIDRBlock},
	}
	for n, ss := range stubs {
		for _, s := range ss {
			if c := w.chain(n, s); !rss[n].HasChain(c) {
				rss[n].Stub(c)
			}
		}
	}
	// IP sets.
	ipc := w.cfg.IPSetConfigV4
	if w.ipv == 6 {
		ipc = w.cfg.IPSetConfigV6
	}
	setName := func(id string) string {
		n := ipc.NameForMainIPSet(id)
		if w.nft {
			n = nftables.LegalizeSetName(n)
		}
		return n
	}
	sets := map[string]*nfsim.Set{
		setName(rules.IPSetIDAllHostNets):        {Nets: w.allHosts},
		setName(rules.IPSetIDAllVXLANSourceNets): {Nets: w.vxlanSrc},
		setName(rules.IPSetIDThisHostIPs):        {Nets: []netip.Prefix{netip.PrefixFrom(w.ad.host, w.ad.host.BitLen())}},
		setName(rules.IPSetIDDSCPEndpoints):      {},
		setName(rules.IPSetIDNetworkPools):       {Nets: []netip.Prefix{w.ad.wlNet}},
	}
	w.tables = nil
	done := map[*nfsim.Ruleset]bool{}
	for _, n := range order {
		rs := rss[n]
		if !done[rs] {
			done[rs] = true
			for k, v := range sets {
				rs.Sets[k] = v
			}
		}
		tb := &nfsim.Table{Name: n, RS: rs, Hooks: map[string]string{}}
		for _, h := range []string{nfsim.HookPrerouting, nfsim.HookInput, nfsim.HookForward, nfsim.HookOutput, nfsim.HookPostrouting} {
			if c := w.chain(n, h); rs.HasChain(c) {
				tb.Hooks[h] = c
			}
		}
		w.tables = append(w.tables, tb)
		if err := rs.Err(); err != nil {
			return err
		}
	}
	return nil
}

// ---- known finding (see KNOWN_FINDINGS.json); excluded from generation only when the driver
// lists the signature ----

// With an all-interfaces host endpoint ("*") the from-hep-forward dispatch chain sends packets
// from EVERY interface, workload interfaces included, to cali-fhfw-*; that chain starts with
// "ct state related,established -> filter allow action".  With the default allow action
// (ACCEPT) the verdict is final, so the packet never reaches cali-from-wl-dispatch and its
// unknown-interface drop.
const c40SigWildcardFwdEstablished = "c40-all-interfaces-hep-forward-accepts-established-from-unknown-workload-iface"

// With two workload interface prefixes, cali-FORWARD renders, per prefix, "in-interface ->
// from-wl-dispatch" then "out-interface -> to-wl-dispatch".  A packet from an interface of the
// SECOND prefix to a known workload of the FIRST prefix therefore meets the destination's
// to-workload chain first; its "ct state related,established -> filter allow action" rule
// accepts the packet (default allow action ACCEPT) before the source's from-wl-dispatch chain
// and its unknown-interface drop are evaluated.
const c40SigSecondPrefixEstablished = "c40-unknown-iface-of-later-prefix-established-to-known-workload-accepted"

func (w *c40World) prefixIndex(iface string) int {
	for i, p := range w.prefixes {
		if strings.HasPrefix(iface, p) {
			return i
		}
	}
	return -1
}

// ---- packets and paths ----

var (
	c40PathToHost   = []string{nfsim.HookPrerouting, nfsim.HookInput}
	c40PathFromHost = []string{nfsim.HookOutput, nfsim.HookPostrouting}
	c40PathForward  = []string{nfsim.HookPrerouting, nfsim.HookForward, nfsim.HookPostrouting}
)

func c40ProtoNum(name string) uint8 {
	switch name {
	case "tcp":
		return 6
	case "udp":
		return 17
	}
	panic("HARNESS-GAP: c40 failsafe protocol " + name)
}

func (w *c40World) basePacket(t *rapid.T, label string) nfsim.Packet {
	p := nfsim.Packet{IPVersion: w.ipv, CTState: "NEW", LimitOK: true}
	p.Proto = c40From(t, label+"-proto", []uint8{6, 6, 17, 132, 47})
	if p.Proto == 6 || p.Proto == 17 || p.Proto == 132 {
		p.SrcPort = c40From(t, label+"-sport", []uint16{1024, 40000, 53})
		p.DstPort = c40From(t, label+"-dport", append([]uint16{8080, 9}, c40PolicyPorts...))
		p.TCPSyn = p.Proto == 6
	}
	p.Mark = uint32(c40Idx(t, label+"-mark", 1<<32)) &^ w.marks.all()
	return p
}

func c40MaxLen(nft bool) int {
	if nft {
		return nftables.MaxChainNameLength
	}
	return iptables.MaxChainNameLength
}

func c40Dropped(v nfsim.Verdict) bool { return v == nfsim.VerdictDrop || v == nfsim.VerdictReject }

func c40DescribePath(r *nfsim.PathResult) string {
	var b strings.Builder
	for _, s := range r.Steps {
		fmt.Fprintf(&b, "    %s/%s: verdict=%s mark-out=%#x final=%v notrack=%v chains=%v\n", s.Table, s.Hook, s.Result.Verdict, s.Result.Mark, s.Result.Final, s.Result.NoTrack, s.Result.Chains)
	}
	return b.String()
}

func c40DescribeTiers(tiers []c40Tier, indent string) string {
	var b strings.Builder
	for _, t := range tiers {
		fmt.Fprintf(&b, "%stier %q default=%s\n", indent, t.Name, t.DefaultAction)
		for _, p := range t.Pols {
			fmt.Fprintf(&b, "%s  %s selector=%q in=%v out=%v\n", indent, p.ID.Name, p.Selector, p.In, p.Out)
		}
	}
	return b.String()
}

func (w *c40World) describe() string {
	var b strings.Builder
	c := w.cfg
	fmt.Fprintf(&b, "config: ipv=%d nft=%v prefixes=%v failsafeIn=%v failsafeOut=%v endpointToHost=%s filterAllow=%s mangleAllow=%s deny=%s ipip=%v vxlan=%v/%v port=%d allowEncapFromWl=%v/%v ipvs=%v allHosts=%v vxlanSrc=%v\n",
		w.ipv, w.nft, w.prefixes, c.FailsafeInboundHostPorts, c.FailsafeOutboundHostPorts, c.EndpointToHostAction, c.FilterAllowAction, c.MangleAllowAction, c.FilterDenyAction,
		c.IPIPEnabled, c.VXLANEnabled, c.VXLANEnabledV6, c.VXLANPort, c.AllowVXLANPacketsFromWorkloads, c.AllowIPIPPacketsFromWorkloads, c.KubeIPVSSupportEnabled, w.allHosts, w.vxlanSrc)
	for _, p := range w.profiles {
		fmt.Fprintf(&b, "profile %s in=%v out=%v\n", p.Name, p.In, p.Out)
	}
	for _, e := range w.weps {
		fmt.Fprintf(&b, "workload %s addr=%s profiles=%v\n%s", e.Name, e.Addr, e.Profiles, c40DescribeTiers(e.Tiers, "  "))
	}
	for _, h := range w.heps {
		fmt.Fprintf(&b, "host endpoint %q profiles=%v\n normal:\n%s untracked:\n%s pre-DNAT:\n%s apply-on-forward:\n%s", h.Iface, h.Profiles,
			c40DescribeTiers(h.Normal, "   "), c40DescribeTiers(h.Untracked, "   "), c40DescribeTiers(h.PreDNAT, "   "), c40DescribeTiers(h.Forward, "   "))
	}
	return b.String()
}

func (w *c40World) dump() string {
	var b strings.Builder
	seen := map[*nfsim.Ruleset]bool{}
	for _, tb := range w.tables {
		if seen[tb.RS] {
			continue
		}
		seen[tb.RS] = true
		fmt.Fprintf(&b, "=== table %s\n%s", tb.Name, tb.RS.Dump())
	}
	return b.String()
}

func (w *c40World) run(t *rapid.T, what string, hooks []string, p *nfsim.Packet) *nfsim.PathResult {
	res, err := nfsim.RunPath(w.tables, hooks, p, nil)
	if err != nil {
		if strings.Contains(err.Error(), "HARNESS-GAP") {
			t.Fatalf("%v", err)
		}
		t.Fatalf("C40 violated: the rendered tables cannot be executed for %s: %v\n  packet: %+v\n%s\n%s", what, err, *p, w.describe(), w.dump())
	}
	return res
}

func (w *c40World) fail(t *rapid.T, msg string, hooks []string, p *nfsim.Packet, res *nfsim.PathResult) {
	t.Fatalf("C40 violated: %s\n  path %v, packet: proto=%d %s:%d -> %s:%d in=%q out=%q ctstate=%s dnat=%v rpfFail=%v dstType=%q srcType=%q icmp=%d mark-in=%#x\n  outcome: %s\n%s%s\n%s",
		msg, hooks, p.Proto, p.Src, p.SrcPort, p.Dst, p.DstPort, p.InIf, p.OutIf, p.CTState, p.CTDNAT, p.RPFFail, p.DstAddrType, p.SrcAddrType, p.ICMPType, p.Mark,
		res.Verdict, c40DescribePath(res), w.describe(), w.dump())
}

// c40AddrIn returns an address inside the CIDR (the network address itself for host routes,
// else network+5).
func c40AddrIn(cidr string) netip.Addr {
	p := netip.MustParsePrefix(cidr)
	a := p.Masked().Addr()
	if p.Bits() == a.BitLen() {
		return a
	}
	b := a.AsSlice()
	b[len(b)-1] += 5
	out, _ := netip.AddrFromSlice(b)
	return out
}

func c40NetIsVersion(cidr string, ipv int) bool {
	return strings.Contains(cidr, ":") == (ipv == 6)
}

// isTunnel: the packet is IP-in-IP / VXLAN as far as an enabled encapsulation is concerned.
func (w *c40World) isTunnel(p *nfsim.Packet) bool {
	if w.ipipOn() && p.Proto == 4 {
		return true
	}
	if w.vxlanOn() && p.Proto == 17 && int(p.DstPort) == w.cfg.VXLANPort {
		return true
	}
	return false
}

func (w *c40World) failsafeCovers(list []config.ProtoPort, proto uint8, port uint16, peer netip.Addr) bool {
	for _, pp := range list {
		if c40ProtoNum(pp.Protocol) != proto || pp.Port != port {
			continue
		}
		if pp.Net == "" {
			return true
		}
		if c40NetIsVersion(pp.Net, w.ipv) && netip.MustParsePrefix(pp.Net).Contains(peer) {
			return true
		}
	}
	return false
}

func TestVerifC40Paths(t *testing.T) {
	ev.Quiet()
	rec := ev.New("C40", "paths",
		"each case: IP version, renderer, mark layout, configuration (failsafe inbound/outbound port lists incl. nets of either version, DefaultEndpointToHostAction, filter/mangle allow action ACCEPT/RETURN, deny action, IPIP / VXLAN v4 / v6 enabled, VXLAN port, encapsulation-from-workload switches, IPVS support, 1-2 workload interface prefixes, conntrack-invalid, flow logs), contents of the cluster-host IP sets, 1-3 workload endpoints and 0-2 host endpoints (named and/or all-interfaces) each with normal / untracked / pre-DNAT / apply-on-forward policy drawn from none, deny-all, allow-all, random tiers, plus profiles; all static, dispatch, endpoint, group, policy and profile chains are rendered and wired into raw/mangle/nat/filter as Felix's dataplane does; "+
			"packets per predicate: (1) failsafe port packets to/from the host via every host-endpoint-covered interface (NEW, plus the ESTABLISHED reply direction; egress also with conntrack DNAT) with a non-failsafe twin to see whether policy would have blocked; (2) packets from unknown workload-prefixed interfaces on the input and forward paths, any conntrack state; (3) NEW packets from known workloads to the host compared with refpol's egress verdict and the configured action; (4) IP-in-IP / VXLAN packets from non-cluster sources on the input path, and encapsulated packets from workloads on the forward path. "+
			"Non-trivial = host endpoint policy would have dropped a failsafe packet on some path, or workload-to-host produced both policy-allowed and policy-denied packets; distinct = config class/endpoint styles/outcome classes",
		"nfsim interprets the text Felix emits; the kernel's own rules are absent (a RETURN to the kernel chain continues)",
		"table wiring (which chain goes to which table, dispatch defaults) is re-implemented from endpointManager / policyManager / setUpIptablesNormal",
		"addresses in the all-hosts / VXLAN-source sets are not routed via workload interfaces: such a source on a workload interface fails the reverse-path check",
		"documented exemptions before workload policy: IPv6 ICMPv6 types 130-136 (ICMPv6Filter); OpenStack special cases are not enabled",
		"failsafe lists never contain the VXLAN port; with IPVS support, node-port range packets count as forwarded and are not used",
		"WireGuard disabled; BPF mode, NAT side effects (address rewriting) and IPVS-forwarded output path not modelled")
	defer rec.Write()
	noWildcardFwdEstablished := ev.Known(c40SigWildcardFwdEstablished)

	noSecondPrefixEstablished := ev.Known(c40SigSecondPrefixEstablished)

	rapid.Check(t, func(t *rapid.T) {
		w := c40GenWorld(t)
		if err := c40Build(w); err != nil {
			if _, gap := err.(*nfsim.GapError); gap {
				t.Fatalf("%v", err)
			}
			t.Fatalf("C40 violated: rendered tables cannot be loaded: %v\n%s", err, w.describe())
		}
		ad := w.ad
		classes := map[string]bool{}
		excluded := map[string]bool{}
		icmpProto := uint8(1)
		if w.ipv == 6 {
			icmpProto = 58
		}

		// Interfaces through which host traffic meets host endpoint policy.
		var hepIfaces []string
		for _, h := range w.heps {
			if h.Iface == "*" {
				hepIfaces = append(hepIfaces, "eth9")
			} else {
				hepIfaces = append(hepIfaces, h.Iface)
			}
		}
		if len(hepIfaces) == 0 {
			hepIfaces = []string{"eth0"}
		}

		// ---------- predicate 1: failsafe ports ----------
		p1Blocked := false
		p1 := func(dirIn bool, pp config.ProtoPort, iface string, reply bool, dnat bool) {
			if pp.Net != "" && !c40NetIsVersion(pp.Net, w.ipv) {
				classes["p1:entry-other-ip-version"] = true
				return
			}
			peer := ad.outsiders[0]
			if pp.Net != "" {
				peer = c40AddrIn(pp.Net)
			}
			pk := nfsim.Packet{IPVersion: w.ipv, Proto: c40ProtoNum(pp.Protocol), CTState: "NEW", LimitOK: true, TCPSyn: pp.Protocol == "tcp",
				Mark: uint32(c40Idx(t, "p1-mark", 1<<32)) &^ w.marks.all(), CTDNAT: dnat}
			var hooks []string
			// The packet of the failsafe connection that travels in direction `toHost`.
			toHost := dirIn != reply
			if toHost {
				pk.Src, pk.Dst, pk.InIf, pk.DstAddrType = peer, ad.host, iface, "LOCAL"
				hooks = c40PathToHost
			} else {
				pk.Src, pk.Dst, pk.OutIf, pk.SrcAddrType = ad.host, peer, iface, "LOCAL"
				hooks = c40PathFromHost
			}
			if reply {
				pk.CTState, pk.TCPSyn = "ESTABLISHED", false
				pk.SrcPort, pk.DstPort = pp.Port, 40000
			} else {
				pk.SrcPort, pk.DstPort = 40000, pp.Port
			}
			what := fmt.Sprintf("%s failsafe %s:%d net=%q via %s reply=%v dnat=%v", map[bool]string{true: "inbound", false: "outbound"}[dirIn], pp.Protocol, pp.Port, pp.Net, iface, reply, dnat)
			res := w.run(t, what, hooks, &pk)
			if c40Dropped(res.Verdict) {
				w.fail(t, "traffic on a configured failsafe port was dropped: "+what, hooks, &pk, res)
			}
			classes["p1:"+map[bool]string{true: "inbound", false: "outbound"}[dirIn]+c40Bool(reply, "-reply")+c40Bool(dnat, "-dnat")] = true
			if !reply {
				// Twin on a port no failsafe entry covers: would policy have dropped it?
				twin := pk
				twin.DstPort = 9
				list := w.cfg.FailsafeOutboundHostPorts
				if dirIn {
					list = w.cfg.FailsafeInboundHostPorts
				}
				if !w.failsafeCovers(list, twin.Proto, twin.DstPort, peer) {
					if r2 := w.run(t, what+" (twin)", hooks, &twin); c40Dropped(r2.Verdict) {
						p1Blocked = true
						for _, s := range r2.Steps {
							if c40Dropped(s.Result.Verdict) {
								classes["p1:policy-would-drop-in-"+s.Table] = true
							}
						}
					}
				}
			}
		}
		for _, iface := range hepIfaces {
			for _, pp := range w.cfg.FailsafeInboundHostPorts {
				p1(true, pp, iface, false, false)
				p1(true, pp, iface, true, false)
				p1(true, pp, iface, true, true)
			}
			for _, pp := range w.cfg.FailsafeOutboundHostPorts {
				p1(false, pp, iface, false, false)
				p1(false, pp, iface, false, true)
				p1(false, pp, iface, true, false)
			}
		}

		// ---------- predicate 2: unknown workload interfaces ----------
		known := map[string]bool{}
		for _, e := range w.weps {
			known[e.Name] = true
		}
		var unknown []string
		for _, pfx := range w.prefixes {
			for _, c := range []string{pfx, pfx + "zz9", pfx + "1x", pfx + "2"} {
				if !known[c] {
					unknown = append(unknown, c)
				}
			}
		}
		for _, ifc := range unknown {
			for i := 0; i < 3; i++ {
				pk := w.basePacket(t, "p2")
				pk.InIf = ifc
				pk.Src = c40From(t, "p2-src", append(append([]netip.Addr{ad.workloads[0], ad.workloads[2]}, ad.outsiders...), ad.clusterHost...))
				pk.CTState = c40From(t, "p2-ctstate", []string{"NEW", "NEW", "ESTABLISHED", "RELATED", "INVALID"})
				pk.RPFFail = rapid.Bool().Draw(t, "p2-rpf-fail")
				if w.inSet(w.allHosts, pk.Src) || w.inSet(w.vxlanSrc, pk.Src) {
					pk.RPFFail = true // cluster hosts are not routed via a workload interface
				}
				var hooks []string
				path := c40From(t, "p2-path", []string{"input", "forward", "forward"})
				if noWildcardFwdEstablished && path == "forward" && w.hep("*") != nil && w.cfg.FilterAllowAction != "RETURN" &&
					(pk.CTState == "ESTABLISHED" || pk.CTState == "RELATED") {
					excluded[c40SigWildcardFwdEstablished] = true
					pk.CTState = "NEW"
				}
				if path == "input" {
					hooks = c40PathToHost
					pk.Dst, pk.DstAddrType = ad.host, "LOCAL"
					if w.cfg.KubeIPVSSupportEnabled && rapid.Bool().Draw(t, "p2-to-service-ip") {
						pk.Dst = ad.serviceIP // bound to the IPVS dummy device: local, but not one of this host's IPs
					}
					if c40Chance(t, "p2-icmp", 20) {
						pk.Proto, pk.SrcPort, pk.DstPort = icmpProto, 0, 0
						pk.ICMPType = c40From(t, "p2-icmp-type", []uint8{8, 128, 1, 3})
					}
				} else {
					hooks = c40PathForward
					pk.Dst = c40From(t, "p2-dst", append([]netip.Addr{ad.workloads[1]}, ad.outsiders...))
					outs := []string{"eth0", "eth9", w.weps[0].Name}
					pk.OutIf = c40From(t, "p2-out", outs)
					if noSecondPrefixEstablished && known[pk.OutIf] && w.prefixIndex(pk.OutIf) < w.prefixIndex(pk.InIf) && w.cfg.FilterAllowAction != "RETURN" &&
						(pk.CTState == "ESTABLISHED" || pk.CTState == "RELATED") {
						excluded[c40SigSecondPrefixEstablished] = true
						pk.CTState = "NEW"
					}
				}
				what := "packet from unknown workload interface " + ifc + " on the " + path + " path"
				res := w.run(t, what, hooks, &pk)
				if !c40Dropped(res.Verdict) {
					w.fail(t, what+" was not dropped", hooks, &pk, res)
				}
				classes["p2:"+path+"-"+strings.ToLower(pk.CTState)] = true
				for _, s := range res.Steps {
					if c40Dropped(s.Result.Verdict) {
						classes["p2:dropped-in-"+s.Table+"-"+s.Hook] = true
					}
				}
			}
		}

		// ---------- predicate 3: workload to host ----------
		p3Allow, p3Deny := false, false
		var refProfiles = func(ids []string) []refpol.Profile {
			var out []refpol.Profile
			for _, id := range ids {
				for _, p := range w.profiles {
					if p.Name == id {
						out = append(out, refpol.Profile{Name: p.Name, InboundRules: p.In, OutboundRules: p.Out})
					}
				}
			}
			return out
		}
		for _, e := range w.weps {
			tiers, profs := c40RefTiers(e.Tiers), refProfiles(e.Profiles)
			for i := 0; i < 6; i++ {
				pk := w.basePacket(t, "p3")
				pk.InIf, pk.Src, pk.Dst, pk.DstAddrType = e.Name, e.Addr, ad.host, "LOCAL"
				if c40Chance(t, "p3-icmp", 15) {
					pk.Proto, pk.SrcPort, pk.DstPort = icmpProto, 0, 0
					pk.ICMPType = c40From(t, "p3-icmp-type", []uint8{8, 128, 1, 3})
				}
				if w.isTunnel(&pk) {
					continue
				}
				rp := refpol.Packet{IPVersion: w.ipv, Proto: pk.Proto, Src: pk.Src, Dst: pk.Dst, SrcPort: pk.SrcPort, DstPort: pk.DstPort, ICMPType: pk.ICMPType}
				wh := refpol.VerdictWhere(tiers, profs, refpol.Outbound, &rp, refpol.MapSets{}, refpol.Options{})
				what := fmt.Sprintf("workload %s -> host, egress policy reference verdict %s", e.Name, wh.Decision)
				res := w.run(t, what, c40PathToHost, &pk)
				var fin *nfsim.Result
				for _, s := range res.Steps {
					if s.Table == "filter" && s.Hook == nfsim.HookInput {
						fin = s.Result
					}
				}
				fromChain := w.chain("filter", rules.EndpointChainName(rules.WorkloadFromEndpointPfx, e.Name, c40MaxLen(w.nft)))
				switch wh.Decision {
				case refpol.Deny:
					p3Deny = true
					if !c40Dropped(res.Verdict) {
						w.fail(t, what+": the workload's egress policy denies the packet but it was not dropped", c40PathToHost, &pk, res)
					}
					classes["p3:policy-deny"] = true
				case refpol.Allow:
					if fin == nil {
						// Dropped before the filter table (e.g. pre-DNAT policy of an all-interfaces host endpoint).
						classes["p3:dropped-before-filter"] = true
						continue
					}
					p3Allow = true
					if !fin.Reached(fromChain) {
						w.fail(t, what+": the packet never entered the workload's egress chain "+fromChain, c40PathToHost, &pk, res)
					}
					want := map[string]nfsim.Verdict{"DROP": nfsim.VerdictDrop, "REJECT": nfsim.VerdictReject, "ACCEPT": nfsim.VerdictAccept}
					wv, terminal := want[w.cfg.EndpointToHostAction]
					if !terminal {
						wv = nfsim.VerdictReturn
					}
					if fin.Verdict != wv {
						w.fail(t, fmt.Sprintf("%s: policy allows, so the configured endpoint-to-host action %q must apply (filter INPUT verdict %s expected, got %s)", what, w.cfg.EndpointToHostAction, wv, fin.Verdict), c40PathToHost, &pk, res)
					}
					if terminal && fin.Final.Chain != w.chain("filter", rules.ChainWorkloadToHost) {
						w.fail(t, what+": verdict was not issued by the configured action in "+rules.ChainWorkloadToHost, c40PathToHost, &pk, res)
					}
					classes["p3:policy-allow-then-"+strings.ToLower(w.cfg.EndpointToHostAction)] = true
				}
			}
		}

		// ---------- predicate 4: tunnelled packets from non-cluster sources ----------
		inIfs := []string{"eth0", "eth9", w.weps[0].Name, w.prefixes[0] + "zz9"}
		p4 := func(kind string) {
			for i := 0; i < 4; i++ {
				pk := nfsim.Packet{IPVersion: w.ipv, LimitOK: true, Dst: ad.host, DstAddrType: "LOCAL",
					Mark: uint32(c40Idx(t, "p4-mark", 1<<32)) &^ w.marks.all()}
				pk.InIf = c40From(t, "p4-in", inIfs)
				pk.CTState = c40From(t, "p4-ctstate", []string{"NEW", "NEW", "ESTABLISHED", "INVALID"})
				pk.RPFFail = rapid.Bool().Draw(t, "p4-rpf-fail")
				set := w.allHosts
				if kind == "ipip" {
					pk.Proto = 4
				} else {
					pk.Proto, pk.SrcPort, pk.DstPort = 17, uint16(c40From(t, "p4-sport", []int{40000, w.cfg.VXLANPort})), uint16(w.cfg.VXLANPort)
					set = w.vxlanSrc
				}
				var cands []netip.Addr
				for _, a := range append(append(append([]netip.Addr{}, ad.outsiders...), ad.clusterHost...), ad.workloads[0], ad.host) {
					if !w.inSet(set, a) {
						cands = append(cands, a)
					}
				}
				pk.Src = c40From(t, "p4-src", cands)
				what := kind + " packet from non-cluster source " + pk.Src.String() + " via " + pk.InIf
				res := w.run(t, what, c40PathToHost, &pk)
				if !c40Dropped(res.Verdict) {
					w.fail(t, what+" was not dropped", c40PathToHost, &pk, res)
				}
				classes["p4:"+kind+"-"+c40Bool(w.isWorkloadIface(pk.InIf), "wl-iface")+c40Bool(!w.isWorkloadIface(pk.InIf), "host-iface")] = true
			}
		}
		if w.ipipOn() {
			p4("ipip")
		}
		if w.vxlanOn() {
			p4("vxlan")
		}
		// Encapsulated traffic sent by a workload (forward path).
		for _, e := range w.weps {
			for _, kind := range []string{"ipip", "vxlan"} {
				if (kind == "ipip" && (!w.ipipOn() || w.cfg.AllowIPIPPacketsFromWorkloads)) || (kind == "vxlan" && (!w.vxlanOn() || w.cfg.AllowVXLANPacketsFromWorkloads)) {
					continue
				}
				pk := nfsim.Packet{IPVersion: w.ipv, LimitOK: true, CTState: "NEW", InIf: e.Name, OutIf: "eth0", Src: e.Addr, Dst: ad.clusterHost[0],
					Mark: uint32(c40Idx(t, "p4b-mark", 1<<32)) &^ w.marks.all()}
				if kind == "ipip" {
					pk.Proto = 4
				} else {
					pk.Proto, pk.SrcPort, pk.DstPort = 17, 40000, uint16(w.cfg.VXLANPort)
				}
				what := kind + "-encapsulated packet sent by workload " + e.Name
				res := w.run(t, what, c40PathForward, &pk)
				if !c40Dropped(res.Verdict) {
					w.fail(t, what+" was not dropped", c40PathForward, &pk, res)
				}
				classes["p4:"+kind+"-from-workload-forward"] = true
			}
		}

		// ---------- evidence ----------
		for _, sig := range []string{c40SigWildcardFwdEstablished, c40SigSecondPrefixEstablished} {
			if excluded[sig] {
				rec.Excluded(sig)
			}
		}
		var cl []string
		for c := range classes {
			cl = append(cl, c)
		}
		sort.Strings(cl)
		outcomeKey := strings.Join(cl, ",")
		var styles []string
		for _, h := range w.heps {
			styles = append(styles, h.Iface+":"+strings.Join(h.Styles[:], "/"))
		}
		for _, e := range w.weps {
			styles = append(styles, "wl:"+e.Style)
		}
		c := w.cfg
		cfgKey := fmt.Sprintf("v%d/%v/%s/%s/%s/%s/ipip%v/vx%v/ipvs%v/fs%d-%d", w.ipv, w.nft, c.EndpointToHostAction, c.FilterAllowAction, c.MangleAllowAction, c.FilterDenyAction,
			w.ipipOn(), w.vxlanOn(), c.KubeIPVSSupportEnabled, len(c.FailsafeInboundHostPorts), len(c.FailsafeOutboundHostPorts))
		cl = append(cl, fmt.Sprintf("v%d", w.ipv), map[bool]string{false: "iptables", true: "nft"}[w.nft], "to-host-action:"+c.EndpointToHostAction,
			"filter-allow:"+c.FilterAllowAction, "mangle-allow:"+c.MangleAllowAction, "deny:"+c.FilterDenyAction,
			c40Bool(c.KubeIPVSSupportEnabled, "ipvs"), c40Bool(w.ipipOn(), "ipip-on"), c40Bool(w.vxlanOn(), "vxlan-on"), c40Bool(len(w.prefixes) > 1, "two-prefixes"),
			c40Bool(p1Blocked, "p1:policy-would-have-blocked"), c40Bool(w.hep("*") != nil, "hep:all-interfaces"), c40Bool(len(w.heps) == 0, "hep:none"))
		for _, h := range w.heps {
			for i, k := range []string{"normal", "untracked", "prednat", "forward"} {
				cl = append(cl, "hep-"+k+":"+h.Styles[i])
			}
		}
		var out []string
		for _, x := range cl {
			if x != "" {
				out = append(out, x)
			}
		}
		nontrivial := p1Blocked || (p3Allow && p3Deny)
		rec.SizedCase(nontrivial, cfgKey+"|"+strings.Join(styles, ";")+"|"+outcomeKey, len(w.heps)*4+len(w.weps), func() any {
			return map[string]any{"world": strings.Split(w.describe(), "\n"), "classes": out}
		}, out...)
	})
}

// ---- deterministic confirmation test for the known finding (run by the driver only while the
// signature is listed in KNOWN_FINDINGS.json; it FAILS while the finding reproduces) ----

func c40FixedWorld(nft bool, heps []c40HEP) *c40World {
	m := c40MarkLayouts[0]
	w := &c40World{ipv: 4, nft: nft, marks: m, ad: c40AddrPlan(4), prefixes: []string{"cali"}}
	w.cfg = rules.Config{
		IPSetConfigV4:         ipsets.NewIPVersionConfig(ipsets.IPFamilyV4, "cali", nil, nil),
		IPSetConfigV6:         ipsets.NewIPVersionConfig(ipsets.IPFamilyV6, "cali", nil, nil),
		WorkloadIfacePrefixes: w.prefixes,
		MarkAccept:            m.Accept, MarkPass: m.Pass, MarkDrop: m.Drop, MarkScratch0: m.Scratch0, MarkScratch1: m.Scratch1,
		MarkEndpoint: m.Endpoint, MarkNonCaliEndpoint: m.NonCali,
		VXLANPort: 4789, WireguardInterfaceName: "wireguard.cali", WireguardInterfaceNameV6: "wg-v6.cali",
		EndpointToHostAction: "DROP", FilterAllowAction: "ACCEPT", MangleAllowAction: "ACCEPT", FilterDenyAction: "DROP",
	}
	w.weps = []c40WEP{{Name: "cali1", Addr: w.ad.workloads[0]}}
	w.heps = heps
	return w
}

func TestVerifC40ConfirmWildcardHEPForwardEstablished(t *testing.T) {
	ev.Quiet()
	for _, nft := range []bool{false, true} {
		w := c40FixedWorld(nft, []c40HEP{{Iface: "*"}})
		if err := c40Build(w); err != nil {
			t.Fatalf("cannot load rendered tables: %v", err)
		}
		for _, state := range []string{"NEW", "ESTABLISHED"} {
			pk := nfsim.Packet{IPVersion: 4, Proto: 6, Src: w.ad.workloads[2], Dst: w.ad.outsiders[0], SrcPort: 40000, DstPort: 80,
				InIf: "calizz9", OutIf: "eth0", CTState: state, LimitOK: true}
			res, err := nfsim.RunPath(w.tables, c40PathForward, &pk, nil)
			if err != nil {
				t.Fatalf("cannot execute rendered tables: %v", err)
			}
			if !c40Dropped(res.Verdict) {
				t.Fatalf("C40 violated (%s): only an all-interfaces host endpoint (no policy) and workload cali1 are configured; a %s packet arriving from the unknown workload interface calizz9 on the forward path is not dropped: %s\n%s",
					map[bool]string{false: "iptables", true: "nftables"}[nft], state, res.Verdict, c40DescribePath(res))
			}
		}
	}
}

func TestVerifC40ConfirmSecondPrefixEstablished(t *testing.T) {
	ev.Quiet()
	for _, nft := range []bool{false, true} {
		w := c40FixedWorld(nft, nil)
		w.prefixes = []string{"cali", "tap"}
		w.cfg.WorkloadIfacePrefixes = w.prefixes
		if err := c40Build(w); err != nil {
			t.Fatalf("cannot load rendered tables: %v", err)
		}
		for _, state := range []string{"NEW", "ESTABLISHED"} {
			pk := nfsim.Packet{IPVersion: 4, Proto: 6, Src: w.ad.workloads[2], Dst: w.ad.workloads[0], SrcPort: 40000, DstPort: 80,
				InIf: "tapzz9", OutIf: "cali1", CTState: state, LimitOK: true}
			res, err := nfsim.RunPath(w.tables, c40PathForward, &pk, nil)
			if err != nil {
				t.Fatalf("cannot execute rendered tables: %v", err)
			}
			if !c40Dropped(res.Verdict) {
				t.Fatalf("C40 violated (%s): workload prefixes cali,tap; only workload cali1 is known; a %s packet arriving from the unknown workload interface tapzz9 and going to cali1 is not dropped on the forward path: %s\n%s",
					map[bool]string{false: "iptables", true: "nftables"}[nft], state, res.Verdict, c40DescribePath(res))
			}
		}
	}
}
