package rules_test

// C09 — endpoint verdicts follow tier, pass, staged and profile semantics.
//
// Real code: rules.NewRenderer(Config, nft) -> WorkloadEndpointToIptablesChains /
// HostEndpointTo{Filter,MangleEgress,MangleIngress,Raw}Chains, PolicyGroupToIptablesChains,
// PolicyToIptablesChains, ProfileToIptablesChains.  Policy groups are built the way
// endpointManager.groupPolicies builds them (consecutive policies of one direction's list that
// share the policy's original selector form one group; PolicyGroup.ShouldBeInlined decides
// whether the group gets its own chain).  Every rendered chain is turned into TEXT by Felix's
// own renderers and executed by verifkit/nfsim; the oracle is verifkit/refpol.Verdict, which is
// the sentence of the property.

import (
	"fmt"
	"net/netip"
	"sort"
	"strings"
	"testing"

	"pgregory.net/rapid"

	v3 "github.com/projectcalico/api/pkg/apis/projectcalico/v3"

	"github.com/projectcalico/calico/felix/generictables"
	"github.com/projectcalico/calico/felix/ipsets"
	"github.com/projectcalico/calico/felix/iptables"
	"github.com/projectcalico/calico/felix/nftables"
	"github.com/projectcalico/calico/felix/proto"
	"github.com/projectcalico/calico/felix/rules"
	"github.com/projectcalico/calico/felix/types"
	"github.com/projectcalico/calico/libcalico-go/lib/backend/model"
	"github.com/projectcalico/calico/verifkit/ev"
	"github.com/projectcalico/calico/verifkit/nfsim"
	"github.com/projectcalico/calico/verifkit/refpol"
)

// ---- draws (rapid's integer draws are biased small; spread a raw draw, 0 stays 0) ----

func c09Idx(t *rapid.T, label string, n int) int {
	x := rapid.Uint64().Draw(t, label)
	x ^= x >> 30
	x *= 0xbf58476d1ce4e5b9
	x ^= x >> 27
	x *= 0x94d049bb133111eb
	x ^= x >> 31
	return int(x % uint64(n))
}

func c09Chance(t *rapid.T, label string, pct int) bool { return c09Idx(t, label, 100) >= 100-pct }

func c09From[T any](t *rapid.T, label string, xs []T) T { return xs[c09Idx(t, label, len(xs))] }

// ---- configuration ----

type c09Marks struct{ Accept, Pass, Drop, Scratch0, Scratch1, Endpoint, NonCali uint32 }

var c09MarkLayouts = []c09Marks{
	{0x80, 0x100, 0x800, 0x200, 0x400, 0xff000, 0x1000},
	{0x10000, 0x20000, 0x40000, 0x80000, 0x100000, 0xfff00000 &^ 0x100000, 0x200000},
	{0x8, 0x20, 0x1, 0x40, 0x10, 0xff00, 0x100},
}

const c09VXLANPort = 4789

func c09Config(m c09Marks, flowLogs bool, denyAction string, allowEncap bool) rules.Config {
	return rules.Config{
		IPSetConfigV4:                  ipsets.NewIPVersionConfig(ipsets.IPFamilyV4, "cali", nil, nil),
		IPSetConfigV6:                  ipsets.NewIPVersionConfig(ipsets.IPFamilyV6, "cali", nil, nil),
		WorkloadIfacePrefixes:          []string{"cali"},
		MarkAccept:                     m.Accept,
		MarkPass:                       m.Pass,
		MarkDrop:                       m.Drop,
		MarkScratch0:                   m.Scratch0,
		MarkScratch1:                   m.Scratch1,
		MarkEndpoint:                   m.Endpoint,
		MarkNonCaliEndpoint:            m.NonCali,
		FlowLogsEnabled:                flowLogs,
		FilterDenyAction:               denyAction,
		VXLANPort:                      c09VXLANPort,
		AllowVXLANPacketsFromWorkloads: allowEncap,
		AllowIPIPPacketsFromWorkloads:  allowEncap,
	}
}

// ---- packet vocabulary (small on purpose: single-field rules then overlap a lot) ----

func c09Pool(ipv int) []netip.Addr {
	var out []netip.Addr
	for i := 1; i <= 8; i++ {
		if ipv == 4 {
			out = append(out, netip.AddrFrom4([4]byte{10, 0, 0, byte(i)}))
		} else {
			b := [16]byte{0xfd}
			b[15] = byte(i)
			out = append(out, netip.AddrFrom16(b))
		}
	}
	return out
}

var (
	c09Ports     = []uint16{53, 80, 81, 443, 8080}
	c09ICMPTypes = map[int][]uint8{4: {0, 3, 8}, 6: {1, 128, 129}}
)

func c09ICMPProto(ipv int) uint8 {
	if ipv == 6 {
		return refpol.ProtoICMPv6
	}
	return refpol.ProtoICMP
}

func c09Protos(ipv int) []uint8 {
	return []uint8{refpol.ProtoTCP, refpol.ProtoTCP, refpol.ProtoUDP, refpol.ProtoSCTP, c09ICMPProto(ipv), 47}
}

func c09Normalise(p *refpol.Packet) {
	if !refpol.HasPorts(p.Proto) {
		p.SrcPort, p.DstPort = 0, 0
	} else {
		if p.SrcPort == 0 {
			p.SrcPort = 1024
		}
		if p.DstPort == 0 {
			p.DstPort = 1025
		}
	}
	if p.Proto != c09ICMPProto(p.IPVersion) {
		p.ICMPType, p.ICMPCode = 0, 0
	}
}

func c09RandPacket(t *rapid.T, ipv int) refpol.Packet {
	pool := c09Pool(ipv)
	p := refpol.Packet{IPVersion: ipv}
	p.Proto = c09From(t, "pkt-proto", c09Protos(ipv))
	p.Src = c09From(t, "pkt-src", pool)
	p.Dst = c09From(t, "pkt-dst", pool)
	p.SrcPort = c09From(t, "pkt-sport", c09Ports)
	p.DstPort = c09From(t, "pkt-dport", c09Ports)
	p.ICMPType = c09From(t, "pkt-icmptype", c09ICMPTypes[ipv])
	c09Normalise(&p)
	return p
}

// ---- IP sets ----

type c09Universe struct {
	ipv int
	ids []string
	ref refpol.MapSets
	sim map[string]*nfsim.Set
	mem map[string][]netip.Addr
}

func c09GenUniverse(t *rapid.T, ipv int, cfg rules.Config, nft bool) *c09Universe {
	u := &c09Universe{ipv: ipv, ids: []string{"s:AbC-_1", "s:b"}, sim: map[string]*nfsim.Set{}, mem: map[string][]netip.Addr{}}
	m := map[string]*refpol.IPSet{}
	pool := c09Pool(ipv)
	for _, id := range u.ids {
		c := cfg.IPSetConfigV4
		if ipv == 6 {
			c = cfg.IPSetConfigV6
		}
		name := c.NameForMainIPSet(id)
		if nft {
			name = nftables.LegalizeSetName(name)
		}
		rs, ss := &refpol.IPSet{}, &nfsim.Set{}
		bits := c09Idx(t, "ipset-members", 1<<len(pool))
		for i, a := range pool {
			if bits&(1<<i) != 0 {
				p := netip.PrefixFrom(a, a.BitLen())
				rs.Nets = append(rs.Nets, p)
				ss.Nets = append(ss.Nets, p)
				u.mem[id] = append(u.mem[id], a)
			}
		}
		m[id], u.sim[name] = rs, ss
	}
	if ipv == 4 {
		u.ref.V4 = m
	} else {
		u.ref.V6 = m
	}
	return u
}

// ---- simple (single-field) rules, each with a way to make a packet match it ----

type c09Rule struct {
	R    *proto.Rule
	Kind string
	// Fix edits the packet so that the rule matches it; nil when no packet can match.
	Fix func(p *refpol.Packet)
}

func c09ProtoOf(t *rapid.T, n uint8) *proto.Protocol {
	names := map[uint8]string{6: "tcp", 17: "udp", 132: "sctp", 1: "icmp", 58: "icmpv6"}
	if nm, ok := names[n]; ok && rapid.Bool().Draw(t, "proto-by-name") {
		// Names arrive in their v1 (lower-case) spelling: the syncer converts with Protocol.ToV1().
		return &proto.Protocol{NumberOrName: &proto.Protocol_Name{Name: nm}}
	}
	return &proto.Protocol{NumberOrName: &proto.Protocol_Number{Number: int32(n)}}
}

func c09Host(a netip.Addr) string { return netip.PrefixFrom(a, a.BitLen()).String() }

func c09GenRule(t *rapid.T, ipv int, u *c09Universe, actions []string) c09Rule {
	r := &proto.Rule{Action: c09From(t, "action", actions)}
	pool := c09Pool(ipv)
	out := c09Rule{R: r}
	other := func(a netip.Addr) netip.Addr {
		for _, b := range pool {
			if b != a {
				return b
			}
		}
		return a
	}
	switch k := c09Idx(t, "rule-kind", 20); k {
	case 0, 1, 2, 3:
		out.Kind = "dport"
		pr := c09From(t, "rule-proto", []uint8{6, 6, 17, 132})
		po := c09From(t, "rule-port", c09Ports)
		last := int32(po)
		if c09Chance(t, "rule-port-range", 25) {
			last++
		}
		r.Protocol = c09ProtoOf(t, pr)
		r.DstPorts = []*proto.PortRange{{First: int32(po), Last: last}}
		out.Fix = func(p *refpol.Packet) { p.Proto, p.DstPort = pr, po }
	case 4:
		out.Kind = "sport"
		pr := c09From(t, "rule-proto", []uint8{6, 17})
		po := c09From(t, "rule-port", c09Ports)
		r.Protocol = c09ProtoOf(t, pr)
		r.SrcPorts = []*proto.PortRange{{First: int32(po), Last: int32(po)}}
		out.Fix = func(p *refpol.Packet) { p.Proto, p.SrcPort = pr, po }
	case 5, 6, 7:
		out.Kind = "srcnet"
		a := c09From(t, "rule-addr", pool)
		r.SrcNet = []string{c09Host(a)}
		out.Fix = func(p *refpol.Packet) { p.Src = a }
	case 8, 9:
		out.Kind = "dstnet"
		a := c09From(t, "rule-addr", pool)
		r.DstNet = []string{c09Host(a)}
		out.Fix = func(p *refpol.Packet) { p.Dst = a }
	case 10:
		out.Kind = "srcnet-x2" // one positive match block
		a, b := c09From(t, "rule-addr", pool), c09From(t, "rule-addr2", pool)
		r.SrcNet = []string{c09Host(a), c09Host(b)}
		out.Fix = func(p *refpol.Packet) { p.Src = b }
	case 11, 12:
		out.Kind = "proto"
		pr := c09From(t, "rule-proto", []uint8{6, 17, 132, 47, c09ICMPProto(ipv)})
		r.Protocol = c09ProtoOf(t, pr)
		if pr == c09ICMPProto(ipv) {
			r.IpVersion = proto.IPVersion(ipv)
		}
		out.Fix = func(p *refpol.Packet) { p.Proto = pr }
	case 13:
		out.Kind = "notproto"
		pr := c09From(t, "rule-proto", []uint8{6, 17})
		r.NotProtocol = c09ProtoOf(t, pr)
		out.Fix = func(p *refpol.Packet) {
			if p.Proto == pr {
				p.Proto = 47
			}
		}
	case 14:
		out.Kind = "src-ipset"
		id := c09From(t, "rule-set", u.ids)
		r.SrcIpSetIds = []string{id}
		if mem := u.mem[id]; len(mem) > 0 {
			a := mem[c09Idx(t, "rule-set-member", len(mem))]
			out.Fix = func(p *refpol.Packet) { p.Src = a }
		}
	case 15:
		out.Kind = "not-dst-ipset"
		id := c09From(t, "rule-set", u.ids)
		r.NotDstIpSetIds = []string{id}
		in := map[netip.Addr]bool{}
		for _, a := range u.mem[id] {
			in[a] = true
		}
		for _, a := range pool {
			if !in[a] {
				a := a
				out.Fix = func(p *refpol.Packet) { p.Dst = a }
				break
			}
		}
	case 16:
		out.Kind = "icmp-type"
		ty := c09From(t, "rule-icmp-type", c09ICMPTypes[ipv])
		r.Protocol = c09ProtoOf(t, c09ICMPProto(ipv))
		r.IpVersion = proto.IPVersion(ipv)
		r.Icmp = &proto.Rule_IcmpType{IcmpType: int32(ty)}
		out.Fix = func(p *refpol.Packet) { p.Proto, p.ICMPType = c09ICMPProto(ipv), ty }
	case 17:
		out.Kind = "not-srcnet"
		a := c09From(t, "rule-addr", pool)
		r.NotSrcNet = []string{c09Host(a)}
		out.Fix = func(p *refpol.Packet) {
			if p.Src == a {
				p.Src = other(a)
			}
		}
	case 18:
		out.Kind = "match-all"
		if c09Chance(t, "rule-explicit-version", 30) {
			r.IpVersion = proto.IPVersion(ipv)
		}
		out.Fix = func(p *refpol.Packet) {}
	default:
		out.Kind = "other-ip-version" // never matches this version's traffic
		r.IpVersion = proto.IPVersion(10 - ipv)
	}
	return out
}

func c09GenRules(t *rapid.T, label string, ipv int, u *c09Universe, actions []string) []c09Rule {
	n := c09From(t, label+"-nrules", []int{0, 1, 1, 1, 2, 2, 3})
	var out []c09Rule
	for i := 0; i < n; i++ {
		out = append(out, c09GenRule(t, ipv, u, actions))
	}
	return out
}

func c09Protos2(rs []c09Rule) []*proto.Rule {
	var out []*proto.Rule
	for _, r := range rs {
		out = append(out, r.R)
	}
	return out
}

// ---- layouts ----

type c09Policy struct {
	ID       types.PolicyID
	Staged   bool
	Selector string
	In, Out  bool // listed in the tier's ingress / egress policies for this endpoint
	InRules  []c09Rule
	OutRules []c09Rule
}

type c09Tier struct {
	Name          string
	DefaultAction string
	Pols          []c09Policy
}

type c09Profile struct {
	Name    string
	In, Out []c09Rule
}

type c09Layout struct {
	Tiers    []c09Tier
	Profiles []c09Profile
}

var (
	c09TierActions    = []string{"allow", "allow", "allow", "deny", "deny", "deny", "pass", "pass", "next-tier", "log", ""}
	c09ProfileActions = []string{"allow", "allow", "allow", "allow", "deny", "deny", "deny", "log", "log", "pass"}
)

func c09GenLayout(t *rapid.T, ipv int, u *c09Universe, inOnly, outOnly bool) c09Layout {
	var l c09Layout
	nTiers := c09From(t, "nTiers", []int{0, 1, 1, 2, 2, 3, 3, 4})
	for ti := 0; ti < nTiers; ti++ {
		tier := c09Tier{Name: fmt.Sprintf("tier%d", ti)}
		if ti == nTiers-1 && c09Chance(t, "tier-is-default", 50) {
			tier.Name = "default"
		}
		tier.DefaultAction = c09From(t, "tier-default-action", []string{"Deny", "Deny", "", "Pass", "Pass", "Pass"})
		nPol := c09From(t, "tier-nPolicies", []int{0, 1, 1, 2, 3, 4, 6, 7, 8, 11, 12, 12})
		stagedMode := c09From(t, "tier-staged-mode", []string{"none", "none", "none", "none", "some", "some", "some", "all", "boundary"})
		sameSel := c09From(t, "tier-same-selector-pct", []int{0, 50, 80, 95})
		sel := 0
		for pi := 0; pi < nPol; pi++ {
			newRun := pi == 0 || !c09Chance(t, "pol-same-selector", sameSel)
			if newRun && pi > 0 {
				sel = c09Idx(t, "pol-selector", 3)
			}
			pol := c09Policy{Selector: []string{"all()", "has(a)", "b == 'c'"}[sel]}
			switch stagedMode {
			case "some":
				pol.Staged = c09Chance(t, "pol-staged", 35)
			case "all":
				pol.Staged = true
			case "boundary":
				pol.Staged = newRun || c09Chance(t, "pol-staged", 15)
			}
			name := fmt.Sprintf("%s.p%d", tier.Name, pi)
			if c09Chance(t, "pol-long-name", 10) {
				name += "-" + strings.Repeat("x", 40)
			}
			switch c09Idx(t, "pol-kind", 3) {
			case 0:
				pol.ID = types.PolicyID{Name: name, Kind: v3.KindGlobalNetworkPolicy}
				if pol.Staged {
					pol.ID.Kind = v3.KindStagedGlobalNetworkPolicy
				}
			case 1:
				pol.ID = types.PolicyID{Name: name, Namespace: "ns1", Kind: v3.KindNetworkPolicy}
				if pol.Staged {
					pol.ID.Kind = v3.KindStagedNetworkPolicy
				}
			default:
				pol.ID = types.PolicyID{Name: "knp.default." + name, Namespace: "ns1", Kind: model.KindKubernetesNetworkPolicy}
				if pol.Staged {
					pol.ID.Kind = v3.KindStagedKubernetesNetworkPolicy
				}
			}
			switch c09Idx(t, "pol-types", 6) {
			case 0:
				pol.In = true
			case 1:
				pol.Out = true
			default:
				pol.In, pol.Out = true, true
			}
			if inOnly {
				pol.In, pol.Out = true, false
			}
			if outOnly {
				pol.In, pol.Out = false, true
			}
			if pol.In {
				pol.InRules = c09GenRules(t, "pol-in", ipv, u, c09TierActions)
			}
			if pol.Out {
				pol.OutRules = c09GenRules(t, "pol-out", ipv, u, c09TierActions)
			}
			tier.Pols = append(tier.Pols, pol)
		}
		l.Tiers = append(l.Tiers, tier)
	}
	nProf := c09From(t, "nProfiles", []int{0, 1, 1, 2, 3})
	for i := 0; i < nProf; i++ {
		name := fmt.Sprintf("prof%d", i)
		if c09Chance(t, "profile-k8s-name", 30) {
			name = "kns.namespace-" + name
		}
		l.Profiles = append(l.Profiles, c09Profile{Name: name,
			In:  c09GenRules(t, "prof-in", ipv, u, c09ProfileActions),
			Out: c09GenRules(t, "prof-out", ipv, u, c09ProfileActions)})
	}
	return l
}

func (l *c09Layout) ref(forceEnforced bool) ([]refpol.Tier, []refpol.Profile) {
	var tiers []refpol.Tier
	for _, t := range l.Tiers {
		rt := refpol.Tier{Name: t.Name, DefaultAction: t.DefaultAction}
		for _, p := range t.Pols {
			rt.Policies = append(rt.Policies, refpol.Policy{Name: p.ID.ID(), Staged: p.Staged && !forceEnforced,
				AppliesInbound: p.In, AppliesOutbound: p.Out, InboundRules: c09Protos2(p.InRules), OutboundRules: c09Protos2(p.OutRules)})
		}
		tiers = append(tiers, rt)
	}
	var profs []refpol.Profile
	for _, p := range l.Profiles {
		profs = append(profs, refpol.Profile{Name: p.Name, InboundRules: c09Protos2(p.In), OutboundRules: c09Protos2(p.Out)})
	}
	return tiers, profs
}

// c09GroupPolicies re-implements the input contract of endpointManager.groupPolicies
// (felix/dataplane/linux/endpoint_mgr.go): walk the direction's policy list in order and start
// a new group whenever the policy's original selector differs from the current group's.
func c09GroupPolicies(pols []c09Policy, dir rules.PolicyDirection) []*rules.PolicyGroup {
	var groups []*rules.PolicyGroup
	var group *rules.PolicyGroup
	for i := range pols {
		p := &pols[i]
		if (dir == rules.PolicyDirectionInbound && !p.In) || (dir == rules.PolicyDirectionOutbound && !p.Out) {
			continue
		}
		if group == nil || p.Selector != group.Selector {
			group = &rules.PolicyGroup{Direction: dir, Selector: p.Selector}
			groups = append(groups, group)
		}
		id := p.ID
		group.Policies = append(group.Policies, &id)
	}
	return groups
}

func (l *c09Layout) tierGroups() []rules.TierPolicyGroups {
	var out []rules.TierPolicyGroups
	for _, t := range l.Tiers {
		out = append(out, rules.TierPolicyGroups{Name: t.Name, DefaultAction: t.DefaultAction,
			IngressPolicies: c09GroupPolicies(t.Pols, rules.PolicyDirectionInbound),
			EgressPolicies:  c09GroupPolicies(t.Pols, rules.PolicyDirectionOutbound)})
	}
	return out
}

// ---- known finding (see KNOWN_FINDINGS.json); excluded from generation only when the driver
// lists the signature ----

// A packet that leaves the last tier through a matching pass rule keeps the pass mark bit;
// the endpoint chain does not clear it before the profile chains.  A profile that contains a
// pass / next-tier rule renders "set pass bit if match; RETURN if pass bit set", so that RETURN
// fires on the stale bit even though the profile's pass rule did not match, and the rest of
// that profile's rules are skipped.
const c09SigStalePass = "c09-stale-pass-bit-skips-profile-rules"

func c09IsPass(r *proto.Rule) bool { return r.Action == "pass" || r.Action == "next-tier" }

// c09ExcludeStalePass removes the known finding's shape from a layout: if, for a direction,
// the last tier that lists a policy for that direction holds an enforced policy with a pass
// rule and some profile has a pass rule for that direction, the profile's pass rules become
// log rules.  Returns whether anything was changed.
func c09ExcludeStalePass(l *c09Layout) bool {
	changed := false
	for _, inbound := range []bool{true, false} {
		tierPass := false
		for ti := len(l.Tiers) - 1; ti >= 0; ti-- {
			listed := false
			for _, p := range l.Tiers[ti].Pols {
				rs, applies := p.OutRules, p.Out
				if inbound {
					rs, applies = p.InRules, p.In
				}
				if !applies {
					continue
				}
				listed = true
				if p.Staged {
					continue
				}
				for _, r := range rs {
					if c09IsPass(r.R) {
						tierPass = true
					}
				}
			}
			if listed {
				break
			}
		}
		if !tierPass {
			continue
		}
		for pi := range l.Profiles {
			rs := l.Profiles[pi].Out
			if inbound {
				rs = l.Profiles[pi].In
			}
			for _, r := range rs {
				if c09IsPass(r.R) {
					r.R.Action = "log"
					changed = true
				}
			}
		}
	}
	return changed
}

// ---- endpoint kinds ----

type c09Chain struct {
	Name string // un-namespaced chain name
	Dir  refpol.Dir
	Opt  refpol.Options
	Desc string
	// SkipIfNoTiers: the statement does not define the outcome when the tier list is empty
	// (apply-on-forward chains).
	SkipIfNoTiers bool
	// Untracked: an allow must also NOTRACK.
}

type c09Rendered struct {
	rs     *nfsim.Ruleset
	layer  string
	nft    bool
	chains []c09Chain
}

func (r *c09Rendered) entry(name string) string {
	if r.nft {
		return nfsim.NFTName(r.layer, name)
	}
	return name
}

var c09Kinds = []string{"workload", "workload", "workload", "workload", "host-filter", "host-filter", "host-mangle-egress", "host-untracked", "host-prednat"}

func c09MaxLen(nft bool) int {
	if nft {
		return nftables.MaxChainNameLength
	}
	return iptables.MaxChainNameLength
}

func c09Render(kind string, cfg rules.Config, nft bool, ipv int, iface string, adminUp bool, qos *proto.QoSControls, l *c09Layout, u *c09Universe) (*c09Rendered, error) {
	rr := rules.NewRenderer(cfg, nft)
	groups := l.tierGroups()
	var profIDs []string
	for _, p := range l.Profiles {
		profIDs = append(profIDs, p.Name)
	}
	maxLen := c09MaxLen(nft)
	name := func(pfx string) string { return rules.EndpointChainName(pfx, iface, maxLen) }
	out := &c09Rendered{nft: nft, layer: "filter"}
	var chains []*generictables.Chain
	variant := refpol.Options{NoEndOfTierDeny: true, NoProfiles: true, NoFinalDeny: true}
	switch kind {
	case "workload":
		chains = rr.WorkloadEndpointToIptablesChains(iface, nil, adminUp, groups, profIDs, qos)
		out.chains = []c09Chain{
			{Name: name(rules.WorkloadToEndpointPfx), Dir: refpol.Inbound, Desc: "to-workload (ingress)"},
			{Name: name(rules.WorkloadFromEndpointPfx), Dir: refpol.Outbound, Desc: "from-workload (egress)"},
		}
	case "host-filter":
		chains = rr.HostEndpointToFilterChains(iface, groups, groups, nil, profIDs)
		fwd := refpol.Options{NoProfiles: true, NoFinalDeny: true}
		out.chains = []c09Chain{
			{Name: name(rules.HostToEndpointPfx), Dir: refpol.Outbound, Desc: "to-host-endpoint (egress, normal)"},
			{Name: name(rules.HostFromEndpointPfx), Dir: refpol.Inbound, Desc: "from-host-endpoint (ingress, normal)"},
			{Name: name(rules.HostToEndpointForwardPfx), Dir: refpol.Outbound, Opt: fwd, SkipIfNoTiers: true, Desc: "to-host-endpoint (egress, apply-on-forward)"},
			{Name: name(rules.HostFromEndpointForwardPfx), Dir: refpol.Inbound, Opt: fwd, SkipIfNoTiers: true, Desc: "from-host-endpoint (ingress, apply-on-forward)"},
		}
	case "host-mangle-egress":
		out.layer = "mangle"
		chains = rr.HostEndpointToMangleEgressChains(iface, groups, profIDs)
		out.chains = []c09Chain{{Name: name(rules.HostToEndpointPfx), Dir: refpol.Outbound, Desc: "to-host-endpoint (egress, normal, mangle table)"}}
	case "host-untracked":
		out.layer = "raw"
		chains = rr.HostEndpointToRawChains(iface, groups)
		out.chains = []c09Chain{
			{Name: name(rules.HostToEndpointPfx), Dir: refpol.Outbound, Opt: variant, Desc: "to-host-endpoint (egress, untracked)"},
			{Name: name(rules.HostFromEndpointPfx), Dir: refpol.Inbound, Opt: variant, Desc: "from-host-endpoint (ingress, untracked)"},
		}
	case "host-prednat":
		out.layer = "mangle"
		chains = rr.HostEndpointToMangleIngressChains(iface, groups)
		out.chains = []c09Chain{{Name: name(rules.HostFromEndpointPfx), Dir: refpol.Inbound, Opt: variant, Desc: "from-host-endpoint (ingress, pre-DNAT)"}}
	default:
		panic("HARNESS-GAP: unknown endpoint kind " + kind)
	}
	// Policy-group chains: only groups that are not inlined get a chain (endpointManager.increfGroups).
	seen := map[string]bool{}
	for _, tg := range groups {
		for _, gs := range [][]*rules.PolicyGroup{tg.IngressPolicies, tg.EgressPolicies} {
			for _, g := range gs {
				if g.ShouldBeInlined() || seen[g.ChainName()] {
					continue
				}
				seen[g.ChainName()] = true
				chains = append(chains, rr.PolicyGroupToIptablesChains(g)...)
			}
		}
	}
	// Policy chains (policyManager renders every active policy; staged ones yield no chains).
	for _, t := range l.Tiers {
		for i := range t.Pols {
			p := &t.Pols[i]
			pol := &proto.Policy{Tier: t.Name, Namespace: p.ID.Namespace, OriginalSelector: p.Selector,
				InboundRules: c09Protos2(p.InRules), OutboundRules: c09Protos2(p.OutRules),
				Untracked: kind == "host-untracked", PreDnat: kind == "host-prednat"}
			id := p.ID
			chains = append(chains, rr.PolicyToIptablesChains(&id, pol, uint8(ipv))...)
		}
	}
	for _, p := range l.Profiles {
		in, o := rr.ProfileToIptablesChains(&types.ProfileID{Name: p.Name}, &proto.Profile{InboundRules: c09Protos2(p.In), OutboundRules: c09Protos2(p.Out)}, uint8(ipv))
		chains = append(chains, in, o)
	}
	if out.nft {
		rs, tbl := nfsim.NewNFT(ipv, out.layer)
		tbl.UpdateChains(chains)
		out.rs = rs
	} else {
		rs, tbl := nfsim.NewIptables(ipv)
		tbl.UpdateChains(chains)
		out.rs = rs
	}
	out.rs.Sets = u.sim
	// The failsafe chains belong to the static chains (C40); here they are empty.
	for _, fs := range []string{rules.ChainFailsafeIn, rules.ChainFailsafeOut} {
		if n := out.entry(fs); !out.rs.HasChain(n) {
			out.rs.Stub(n)
		}
	}
	for _, c := range out.chains {
		if !out.rs.HasChain(out.entry(c.Name)) {
			return nil, fmt.Errorf("endpoint chain %q was not rendered; got %v", out.entry(c.Name), out.rs.ChainNames())
		}
	}
	return out, out.rs.Err()
}

// ---- the check ----

type c09Target struct {
	Desc string
	Rule c09Rule
}

// c09Targets lists every rule of the direction with a description "tier k policy j rule r action a".
func c09Targets(l *c09Layout, dir refpol.Dir, withProfiles bool) []c09Target {
	var out []c09Target
	for ti, t := range l.Tiers {
		for pi, p := range t.Pols {
			rs := p.InRules
			if dir == refpol.Outbound {
				rs = p.OutRules
			}
			if (dir == refpol.Inbound && !p.In) || (dir == refpol.Outbound && !p.Out) {
				continue
			}
			for ri, r := range rs {
				out = append(out, c09Target{Desc: fmt.Sprintf("t%d/p%d/r%d", ti, pi, ri), Rule: r})
			}
		}
	}
	if withProfiles {
		for pi, p := range l.Profiles {
			rs := p.In
			if dir == refpol.Outbound {
				rs = p.Out
			}
			for ri, r := range rs {
				out = append(out, c09Target{Desc: fmt.Sprintf("prof%d/r%d", pi, ri), Rule: r})
			}
		}
	}
	return out
}

func c09SimPacket(p refpol.Packet, mark uint32, inIf, outIf string) *nfsim.Packet {
	return &nfsim.Packet{IPVersion: p.IPVersion, Proto: p.Proto, Src: p.Src, Dst: p.Dst, SrcPort: p.SrcPort, DstPort: p.DstPort,
		ICMPType: p.ICMPType, ICMPCode: p.ICMPCode, InIf: inIf, OutIf: outIf, Mark: mark, CTState: "NEW", LimitOK: true}
}

func c09Bool(b bool, s string) string {
	if b {
		return s
	}
	return ""
}

func c09DescribeLayout(l *c09Layout) []string {
	var out []string
	for ti, t := range l.Tiers {
		out = append(out, fmt.Sprintf("tier %d %q defaultAction=%q", ti, t.Name, t.DefaultAction))
		for pi, p := range t.Pols {
			out = append(out, fmt.Sprintf("  policy %d %s staged=%v selector=%q ingress=%v egress=%v", pi, p.ID.ID(), p.Staged, p.Selector, p.In, p.Out))
			for ri, r := range p.InRules {
				out = append(out, fmt.Sprintf("    in[%d]  %v", ri, r.R))
			}
			for ri, r := range p.OutRules {
				out = append(out, fmt.Sprintf("    out[%d] %v", ri, r.R))
			}
		}
	}
	for pi, p := range l.Profiles {
		out = append(out, fmt.Sprintf("profile %d %q", pi, p.Name))
		for ri, r := range p.In {
			out = append(out, fmt.Sprintf("    in[%d]  %v", ri, r.R))
		}
		for ri, r := range p.Out {
			out = append(out, fmt.Sprintf("    out[%d] %v", ri, r.R))
		}
	}
	return out
}

// c09TierShape summarises a tier for one direction: default action, group sizes as
// enforced+staged counts, inline marker.
func c09TierShape(t *c09Tier, dir rules.PolicyDirection) (shape string, bigGroup bool) {
	var parts []string
	for _, g := range c09GroupPolicies(t.Pols, dir) {
		e, s := 0, 0
		for _, p := range g.Policies {
			if model.KindIsStaged(p.Kind) {
				s++
			} else {
				e++
			}
		}
		if e > 5 {
			bigGroup = true
		}
		parts = append(parts, fmt.Sprintf("%d+%d%s", e, s, c09Bool(g.ShouldBeInlined(), "i")))
	}
	da := "D"
	if strings.EqualFold(t.DefaultAction, "Pass") {
		da = "P"
	}
	return da + "[" + strings.Join(parts, ",") + "]", bigGroup
}

func TestVerifC09EndpointVerdicts(t *testing.T) {
	ev.Quiet()
	rec := ev.New("C09", "endpoint-verdicts",
		"each case: endpoint kind (workload; host endpoint normal+apply-on-forward in filter, normal egress in mangle, untracked in raw, pre-DNAT in mangle), renderer iptables/nft, IP version, mark-bit layout, flow logs, deny action DROP/REJECT, admin up/down, optional QoS controls, 0-4 tiers (default action Deny/Pass) x 0-12 policies (enforced and staged kinds gnp/np/knp; tiers with none/some/all staged or staged at group boundaries; consecutive equal selectors forming groups of 1-12, so inline groups, grouped chains and the 5-policy return stride occur), 0-3 rules per policy and direction (single-field matches over a tiny packet vocabulary, actions allow/deny/pass/next-tier/log), 0-3 profiles; "+
			"packets: for every rule of the direction a packet built to match that rule (so every tier k / policy j / action a is aimed at) plus random packets, random entry marks; each packet is executed by nfsim on the rendered endpoint chain (ctstate NEW, empty failsafe chains) and compared with refpol.Verdict. "+
			"Non-trivial = some packet's verdict is decided in tier >=2 or in the profiles/final deny after passing the tiers, or a staged policy would have changed the verdict had it been enforced, or a group of >5 enforced policies is traversed; distinct = kind/renderer/version/per-tier group shapes/decision classes",
		"refpol.Verdict is the sentence of the property; refpol.Match the meaning of a rule (C08 checks rule rendering in depth, here rules are single-field)",
		"policy groups are formed as endpointManager.groupPolicies forms them (consecutive policies with equal original selector), re-implemented in the harness",
		"host endpoint untracked / pre-DNAT chains: explicit allow/deny/pass decisions must agree; when no rule decides, the chain must return without accepting or dropping (documented: no end-of-tier drop there); apply-on-forward chains: end-of-tier deny applies, no profiles, no final deny; an apply-on-forward chain with an empty tier list is not judged",
		"a pass rule inside a profile and admin-down endpoints are outside the statement: not judged",
		"packets never use the VXLAN port or IP-in-IP (workload encapsulation drops are C40's subject)")
	defer rec.Write()
	maxPackets := ev.Scale(40, 96)
	noStalePass := ev.Known(c09SigStalePass)

	rapid.Check(t, func(t *rapid.T) {
		kind := c09From(t, "endpointKind", c09Kinds)
		ipv := rapid.SampledFrom([]int{4, 6}).Draw(t, "ipVersion")
		nft := rapid.Bool().Draw(t, "nft")
		marks := rapid.SampledFrom(c09MarkLayouts).Draw(t, "markLayout")
		flowLogs := rapid.Bool().Draw(t, "flowLogs")
		denyAction := rapid.SampledFrom([]string{"DROP", "REJECT"}).Draw(t, "denyAction")
		allowEncap := rapid.Bool().Draw(t, "allowEncapFromWorkloads")
		adminUp := true
		var qos *proto.QoSControls
		iface := "cali1234"
		if kind == "workload" {
			adminUp = !c09Chance(t, "adminDown", 5)
			if c09Chance(t, "qosControls", 12) {
				qos = &proto.QoSControls{IngressPacketRate: 100, IngressPacketBurst: 5, EgressPacketRate: 200, EgressPacketBurst: 7,
					IngressMaxConnections: 10, EgressMaxConnections: 20}
			}
			if c09Chance(t, "long-iface-name", 10) {
				iface = "cali0123456789a"
			}
		} else {
			iface = c09From(t, "hostIface", []string{"eth0", "eth0", "ens192.100", "*"})
			if kind == "host-untracked" && iface == "*" {
				iface = "eth0" // untracked policy is not supported on the all-interfaces host endpoint
			}
		}
		cfg := c09Config(marks, flowLogs, denyAction, allowEncap)
		u := c09GenUniverse(t, ipv, cfg, nft)
		l := c09GenLayout(t, ipv, u, kind == "host-prednat", false)
		if noStalePass && c09ExcludeStalePass(&l) {
			rec.Excluded(c09SigStalePass)
		}

		rd, err := c09Render(kind, cfg, nft, ipv, iface, adminUp, qos, &l, u)
		if err != nil {
			if _, gap := err.(*nfsim.GapError); gap {
				t.Fatalf("%v", err)
			}
			t.Fatalf("C09 violated: rendered endpoint chains cannot be loaded: %v\nlayout:\n%s", err, strings.Join(c09DescribeLayout(&l), "\n"))
		}
		wantDeny := nfsim.VerdictDrop
		if denyAction == "REJECT" {
			wantDeny = nfsim.VerdictReject
		}
		tiers, profs := l.ref(false)
		tiersEnf, _ := l.ref(true)

		decisions := map[string]bool{}
		nontrivial := false
		var classes []string
		nPackets := 0
		for _, ch := range rd.chains {
			dir := rules.PolicyDirectionInbound
			if ch.Dir == refpol.Outbound {
				dir = rules.PolicyDirectionOutbound
			}
			bigTier := -1
			for ti := range l.Tiers {
				if _, big := c09TierShape(&l.Tiers[ti], dir); big && bigTier < 0 {
					bigTier = ti
				}
			}
			// Packets: one aimed at each rule of this direction, then random ones.
			targets := c09Targets(&l, ch.Dir, !ch.Opt.NoProfiles)
			budget := max(maxPackets/len(rd.chains), 14)
			var pkts []refpol.Packet
			var aims []string
			if len(targets) > budget-4 {
				// Sample without replacement (partial Fisher-Yates driven by rapid).
				for i := 0; i < budget-4; i++ {
					j := i + c09Idx(t, "target-pick", len(targets)-i)
					targets[i], targets[j] = targets[j], targets[i]
				}
				targets = targets[:budget-4]
			}
			for _, tg := range targets {
				p := c09RandPacket(t, ipv)
				if tg.Rule.Fix == nil {
					continue
				}
				tg.Rule.Fix(&p)
				c09Normalise(&p)
				if !refpol.Match(tg.Rule.R, &p, u.ref) {
					t.Fatalf("HARNESS-GAP: C09 witness packet %s does not match its rule %v (%s)", p, tg.Rule.R, tg.Rule.Kind)
				}
				pkts = append(pkts, p)
				aims = append(aims, tg.Desc)
			}
			for i := 0; i < 4; i++ {
				pkts = append(pkts, c09RandPacket(t, ipv))
				aims = append(aims, "random")
			}
			for i, p := range pkts {
				nPackets++
				// Entry mark: arbitrary, except that the drop bit is clear (Felix only sets it
				// immediately before dropping, so no surviving packet carries it).
				mark0 := uint32(c09Idx(t, "pkt-mark", 1<<32)) &^ marks.Drop
				inIf, outIf := iface, "eth1"
				if ch.Dir == refpol.Inbound && kind == "workload" || ch.Dir == refpol.Outbound && kind != "workload" {
					inIf, outIf = "eth1", iface
				}
				if iface == "*" {
					inIf, outIf = "eth0", "eth1"
				}
				res, err := rd.rs.Run(rd.entry(ch.Name), c09SimPacket(p, mark0, inIf, outIf))
				dump := func() string {
					return fmt.Sprintf("\n  endpoint kind %s, chain %s [%s], %s, IPv%d, flowLogs=%v, adminUp=%v\n  packet: %s (aimed at %s) mark-in=%#x\nlayout:\n%s\nrendered:\n%s",
						kind, ch.Name, ch.Desc, map[bool]string{false: "iptables", true: "nftables"}[nft], ipv, flowLogs, adminUp, p, aims[i], mark0,
						strings.Join(c09DescribeLayout(&l), "\n"), rd.rs.Dump())
				}
				if err != nil {
					if _, gap := err.(*nfsim.GapError); gap {
						t.Fatalf("%v", err)
					}
					t.Fatalf("C09 violated: rendered endpoint chain cannot be executed: %v%s", err, dump())
				}
				if !adminUp {
					decisions["admin-down"] = true
					continue // outside the statement
				}
				if ch.SkipIfNoTiers && len(l.Tiers) == 0 {
					decisions["forward-no-tiers"] = true
					continue
				}
				w := refpol.VerdictWhere(tiers, profs, ch.Dir, &p, u.ref, ch.Opt)
				accepted := res.Mark&marks.Accept != 0
				got := fmt.Sprintf("simulated: verdict=%s accept-bit=%v mark-out=%#x final=%v chains=%v", res.Verdict, accepted, res.Mark, res.Final, res.Chains)
				want := fmt.Sprintf("reference: %s (tier=%d policy=%d rule=%d profile=%d byTierDefault=%v passedTiers=%d)", w.Decision, w.Tier, w.Policy, w.Rule, w.Profile, w.ByTierDefault, w.PassedTiers)
				switch w.Decision {
				case refpol.Allow:
					if res.Verdict != nfsim.VerdictReturn || !accepted {
						t.Fatalf("C09 violated: reference verdict is ALLOW but the endpoint chain did not return with the accept mark set\n  %s\n  %s%s", want, got, dump())
					}
					if kind == "host-untracked" && !res.NoTrack {
						t.Fatalf("C09 violated: untracked policy allowed the packet but the chain did not NOTRACK it\n  %s\n  %s%s", want, got, dump())
					}
				case refpol.Deny:
					if res.Verdict != wantDeny {
						t.Fatalf("C09 violated: reference verdict is DENY but the endpoint chain did not %s the packet\n  %s\n  %s%s", wantDeny, want, got, dump())
					}
				case refpol.NoOpinion:
					if res.Verdict != nfsim.VerdictReturn || accepted {
						t.Fatalf("C09 violated: no policy rule decides in this %s chain, so it must return without accepting or dropping\n  %s\n  %s%s", ch.Desc, want, got, dump())
					}
				case refpol.Unspecified:
					decisions["unspecified(pass-in-profile)"] = true
					continue
				}
				// ---- classification ----
				var d string
				switch {
				case w.ByTierDefault:
					d = fmt.Sprintf("deny-by-tier-default@%d", w.Tier)
				case w.Tier >= 0:
					d = fmt.Sprintf("%s-by-rule@tier%d", w.Decision, w.Tier)
				case w.Profile >= 0:
					d = fmt.Sprintf("%s-by-profile%d", w.Decision, w.Profile)
				default:
					d = fmt.Sprintf("%s-at-end", w.Decision)
				}
				if w.PassedTiers > 0 {
					d += "+passed"
				}
				decisions[d] = true
				reached := w.Tier
				if reached < 0 {
					reached = len(l.Tiers)
				}
				we := refpol.VerdictWhere(tiersEnf, profs, ch.Dir, &p, u.ref, ch.Opt)
				stagedMatters := we.Decision != w.Decision || we.Tier != w.Tier || we.Policy != w.Policy
				if stagedMatters {
					decisions["staged-would-have-changed-outcome"] = true
				}
				if bigTier >= 0 && reached >= bigTier {
					decisions["group>5-traversed"] = true
				}
				if w.Tier >= 1 || (w.Tier < 0 && len(l.Tiers) > 0 && w.PassedTiers > 0) || stagedMatters || (bigTier >= 0 && reached >= bigTier) {
					nontrivial = true
				}
			}
		}

		// ---- evidence ----
		var shapes []string
		anyBig, anyAllStaged, anyInline, anyGrouped := false, false, false, false
		for ti := range l.Tiers {
			for _, dir := range []rules.PolicyDirection{rules.PolicyDirectionInbound, rules.PolicyDirectionOutbound} {
				s, big := c09TierShape(&l.Tiers[ti], dir)
				shapes = append(shapes, s)
				anyBig = anyBig || big
				gs := c09GroupPolicies(l.Tiers[ti].Pols, dir)
				enf := 0
				for _, g := range gs {
					if g.ShouldBeInlined() {
						anyInline = true
					} else {
						anyGrouped = true
					}
					if g.HasNonStagedPolicies() {
						enf++
					}
				}
				if len(gs) > 0 && enf == 0 {
					anyAllStaged = true
				}
			}
		}
		var ds []string
		for d := range decisions {
			ds = append(ds, d)
			// histogram without the tier index
			c := d
			if i := strings.IndexAny(c, "@"); i >= 0 {
				c = c[:i]
			}
			classes = append(classes, "outcome:"+c)
		}
		sort.Strings(ds)
		classes = append(classes, "kind:"+kind, map[bool]string{false: "iptables", true: "nft"}[nft], fmt.Sprintf("v%d", ipv),
			fmt.Sprintf("tiers-%d", len(l.Tiers)), fmt.Sprintf("profiles-%d", len(l.Profiles)),
			c09Bool(flowLogs, "flowlogs"), c09Bool(!adminUp, "admin-down"), c09Bool(qos != nil, "qos-controls"), "deny-"+denyAction,
			c09Bool(anyBig, "layout:group>5-enforced"), c09Bool(anyAllStaged, "layout:all-staged-tier"), c09Bool(anyInline, "layout:inline-group"), c09Bool(anyGrouped, "layout:group-chain"))
		var cl []string
		seenC := map[string]bool{}
		for _, c := range classes {
			if c != "" && !seenC[c] {
				seenC[c] = true
				cl = append(cl, c)
			}
		}
		key := fmt.Sprintf("%s/%v/%d/%s/%d/%s", kind, nft, ipv, strings.Join(shapes, ""), len(l.Profiles), strings.Join(ds, ","))
		size := 0
		for _, t := range l.Tiers {
			size += len(t.Pols)
		}
		rec.SizedCase(nontrivial, key, size, func() any {
			return map[string]any{"endpoint_kind": kind, "renderer": map[bool]string{false: "iptables", true: "nftables"}[nft], "ip_version": ipv,
				"layout": c09DescribeLayout(&l), "tier_shapes": shapes, "outcomes": ds, "packets": nPackets}
		}, cl...)
	})
}

// ---- deterministic confirmation test for the known finding (run by the driver only while the
// signature is listed in KNOWN_FINDINGS.json; it FAILS while the finding reproduces) ----

func TestVerifC09ConfirmStalePassInProfile(t *testing.T) {
	ev.Quiet()
	marks := c09MarkLayouts[0]
	cfg := c09Config(marks, false, "DROP", true)
	a := netip.MustParseAddr
	for _, nft := range []bool{false, true} {
		u := &c09Universe{ipv: 4, sim: map[string]*nfsim.Set{}, ref: refpol.MapSets{V4: map[string]*refpol.IPSet{}}}
		l := c09Layout{
			Tiers: []c09Tier{{Name: "tier0", DefaultAction: "Deny", Pols: []c09Policy{{
				ID: types.PolicyID{Name: "tier0.p0", Kind: v3.KindGlobalNetworkPolicy}, Selector: "all()", In: true,
				InRules: []c09Rule{{R: &proto.Rule{Action: "pass"}}}}}}},
			Profiles: []c09Profile{{Name: "prof0", In: []c09Rule{
				{R: &proto.Rule{Action: "pass", DstNet: []string{"10.0.0.1/32"}}},
				{R: &proto.Rule{Action: "allow"}}}}},
		}
		rd, err := c09Render("workload", cfg, nft, 4, "cali1234", true, nil, &l, u)
		if err != nil {
			t.Fatalf("cannot load rendered chains: %v", err)
		}
		p := refpol.Packet{IPVersion: 4, Proto: 6, Src: a("10.0.0.5"), Dst: a("10.0.0.2"), SrcPort: 1000, DstPort: 80}
		tiers, profs := l.ref(false)
		w := refpol.VerdictWhere(tiers, profs, refpol.Inbound, &p, u.ref, refpol.Options{})
		res, err := rd.rs.Run(rd.entry(rd.chains[0].Name), c09SimPacket(p, 0, "eth0", "cali1234"))
		if err != nil {
			t.Fatalf("cannot execute rendered chain: %v", err)
		}
		if w.Decision != refpol.Allow {
			t.Fatalf("reference expected to allow (tier passes, profile rule 1 allows), got %s", w.Decision)
		}
		if res.Verdict != nfsim.VerdictReturn || res.Mark&marks.Accept == 0 {
			t.Fatalf("C09 violated (%s): tier0 passes the packet, the profile's pass rule (dst 10.0.0.1) does not match %s and its next rule allows everything, "+
				"but the endpoint chain gives verdict=%s accept-bit=%v final=%v\nrendered:\n%s",
				map[bool]string{false: "iptables", true: "nftables"}[nft], p, res.Verdict, res.Mark&marks.Accept != 0, res.Final, rd.rs.Dump())
		}
	}
}
