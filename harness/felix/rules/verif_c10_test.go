package rules_test

// C10 — workload traffic dispatch is exact and fails closed; host endpoint dispatch sends
// known interfaces to their own chains and everything else to the wildcard host endpoint only
// when one is configured.
//
// Real code: rules.NewRenderer(...).WorkloadDispatchChains / DispatchMappings (nft verdict maps,
// loaded through Felix's real nftables table layer) / HostDispatchChains / FromHostDispatchChains
// / ToHostDispatchChains.  The rendered TEXT is executed by verifkit/nfsim with one stub chain
// per endpoint chain; the oracle is the statement itself (set membership of the probe name).

import (
	"fmt"
	"net/netip"
	"sort"
	"strings"
	"testing"

	"pgregory.net/rapid"

	"github.com/projectcalico/calico/felix/generictables"
	"github.com/projectcalico/calico/felix/ipsets"
	"github.com/projectcalico/calico/felix/iptables"
	"github.com/projectcalico/calico/felix/nftables"
	"github.com/projectcalico/calico/felix/proto"
	"github.com/projectcalico/calico/felix/rules"
	"github.com/projectcalico/calico/felix/types"
	"github.com/projectcalico/calico/verifkit/ev"
	"github.com/projectcalico/calico/verifkit/nfsim"
)

func c10Idx(t *rapid.T, label string, n int) int {
	// rapid's own integer draws are biased to small values; spread a raw draw (0 stays 0).
	x := rapid.Uint64().Draw(t, label)
	x ^= x >> 30
	x *= 0xbf58476d1ce4e5b9
	x ^= x >> 27
	x *= 0x94d049bb133111eb
	x ^= x >> 31
	return int(x % uint64(n))
}

func c10Config(denyAction string, wlPrefixes []string) rules.Config {
	return rules.Config{
		IPSetConfigV4:         ipsets.NewIPVersionConfig(ipsets.IPFamilyV4, "cali", nil, nil),
		IPSetConfigV6:         ipsets.NewIPVersionConfig(ipsets.IPFamilyV6, "cali", nil, nil),
		WorkloadIfacePrefixes: wlPrefixes,
		MarkAccept:            0x10, MarkPass: 0x20, MarkDrop: 0x40, MarkScratch0: 0x80, MarkScratch1: 0x100,
		MarkEndpoint: 0xff000, MarkNonCaliEndpoint: 0x1000,
		FilterDenyAction: denyAction,
	}
}

const c10MaxIfaceLen = 15

// c10GenNames draws interface names over a tiny alphabet below the given prefixes: short
// suffixes (so that names are prefixes of other names and share next-character buckets),
// single-character suffixes, the bare prefix itself and maximum-length names.
func c10GenNames(t *rapid.T, label string, prefixes []string, max int) []string {
	n := c10Idx(t, label+"-count", max+1)
	alphabet := []string{"a", "b", "1"}
	var out []string
	for i := 0; i < n; i++ {
		name := prefixes[c10Idx(t, label+"-prefix", len(prefixes))]
		var l int
		switch c10Idx(t, label+"-lenclass", 10) {
		case 0:
			l = 0
		case 1, 2, 3:
			l = 1
		case 4, 5, 6:
			l = 2
		case 7:
			l = 3
		case 8:
			l = 4
		default:
			l = c10MaxIfaceLen - len(name)
		}
		for j := 0; j < l && len(name) < c10MaxIfaceLen; j++ {
			name += alphabet[c10Idx(t, label+"-char", len(alphabet))]
		}
		if name == "" {
			name = "a"
		}
		out = append(out, name)
	}
	return out
}

func c10Uniq(names []string) []string {
	m := map[string]bool{}
	var out []string
	for _, n := range names {
		if !m[n] {
			m[n] = true
			out = append(out, n)
		}
	}
	sort.Strings(out)
	return out
}

// c10Probes: every name, every name +- one character, last character changed, every proper
// prefix, prefix+"x", and unrelated names.
func c10Probes(known []string, extra []string) []string {
	m := map[string]bool{}
	add := func(s string) {
		if s != "" && len(s) <= c10MaxIfaceLen {
			m[s] = true
		}
	}
	for _, n := range known {
		add(n)
		for i := 1; i < len(n); i++ {
			add(n[:i])
			add(n[:i] + "x")
		}
		for _, c := range []string{"a", "b", "1", "x"} {
			add(n + c)
			if len(n) > 1 {
				add(n[:len(n)-1] + c)
			}
		}
	}
	for _, e := range extra {
		add(e)
	}
	var out []string
	for s := range m {
		out = append(out, s)
	}
	sort.Strings(out)
	return out
}

// c10SharesBucket: the NT class — the probe is unknown but agrees with a known name on the
// common prefix plus the next character, and that bucket holds >= 2 known names.
func c10CommonPrefix(names []string) string {
	if len(names) == 0 {
		return ""
	}
	p := names[0]
	for _, n := range names[1:] {
		for !strings.HasPrefix(n, p) {
			p = p[:len(p)-1]
		}
	}
	return p
}

func c10BucketStats(known []string) (buckets map[string]int, cp string) {
	cp = c10CommonPrefix(known)
	buckets = map[string]int{}
	for _, n := range known {
		b := cp
		if len(n) > len(cp) {
			b = n[:len(cp)+1]
		}
		buckets[b]++
	}
	return
}

type c10Loaded struct {
	rs    *nfsim.Ruleset
	nft   bool
	stubs map[string]bool // stub (endpoint) chain names as they exist in the ruleset
}

func (l *c10Loaded) chain(name string) string {
	if l.nft {
		return nfsim.NFTName("filter", name)
	}
	return name
}

func c10Load(nft bool, chains []*generictables.Chain, maps map[string]map[string][]string, stubNames []string) *c10Loaded {
	l := &c10Loaded{nft: nft, stubs: map[string]bool{}}
	if nft {
		rs, tbl := nfsim.NewNFT(4, "filter")
		// Same order as endpointManager: maps first, then the chains that reference them.
		var mk []string
		for k := range maps {
			mk = append(mk, k)
		}
		sort.Strings(mk)
		for _, k := range mk {
			tbl.AddOrReplaceMap(nftables.MapMetadata{Name: k, Type: nftables.MapTypeInterfaceMatch}, maps[k])
		}
		tbl.UpdateChains(chains)
		l.rs = rs
	} else {
		rs, tbl := nfsim.NewIptables(4)
		tbl.UpdateChains(chains)
		l.rs = rs
	}
	for _, s := range stubNames {
		n := l.chain(s)
		if !l.rs.HasChain(n) {
			l.rs.Stub(n)
		}
		l.stubs[n] = true
	}
	return l
}

func c10Addr(i byte) netip.Addr { return netip.AddrFrom4([4]byte{10, 0, 0, i}) }

func c10Packet(inIf, outIf string) *nfsim.Packet {
	p := &nfsim.Packet{IPVersion: 4, Proto: 6, InIf: inIf, OutIf: outIf, SrcPort: 1234, DstPort: 80, CTState: "NEW", LimitOK: true}
	p.Src, p.Dst = c10Addr(1), c10Addr(2)
	return p
}

// c10Run executes one probe and returns the endpoint (stub) chains reached.
func c10Run(t *rapid.T, l *c10Loaded, entry, inIf, outIf string) (*nfsim.Result, []string) {
	res, err := l.rs.Run(l.chain(entry), c10Packet(inIf, outIf))
	if err != nil {
		if _, gap := err.(*nfsim.GapError); gap {
			t.Fatalf("%v", err) // contains HARNESS-GAP: -> inconclusive
		}
		t.Fatalf("C10 violated: rendered dispatch from %q cannot be executed for in=%q out=%q: %v\nrendered:\n%s", entry, inIf, outIf, err, l.rs.Dump())
	}
	var reached []string
	for _, c := range res.Chains {
		if l.stubs[c] {
			reached = append(reached, c)
		}
	}
	return res, reached
}

func TestVerifC10WorkloadDispatch(t *testing.T) {
	ev.Quiet()
	rec := ev.New("C10", "workload-dispatch",
		"each case: 0-40 workload interface names over a 3-letter alphabet below 1-2 workload prefixes (names that are prefixes of others, single-character suffixes, bare prefix, 15-character names, duplicate names on several endpoints), renderer iptables/nft (nft: verdict maps from DispatchMappings loaded through the real table layer), deny action DROP/REJECT; "+
			"probes = every name, every name +-1 character, last character changed, every proper prefix, prefix+x, unrelated names, each as in-interface of the from-dispatch chain and out-interface of the to-dispatch chain (the other interface set to a known name). "+
			"Non-trivial = >=2 known names share a next-character bucket and some unknown probe falls into such a bucket; distinct = renderer/bucket-size multiset/name-length multiset",
		"endpoint chains are stubs that only record arrival; the oracle is set membership of the probe name",
		"the statement is only applied to probes that match a configured workload interface prefix")
	defer rec.Write()
	rapid.Check(t, func(t *rapid.T) {
		nft := rapid.Bool().Draw(t, "nft")
		denyAction := rapid.SampledFrom([]string{"DROP", "REJECT"}).Draw(t, "denyAction")
		prefixes := [][]string{{"cali"}, {"cali", "tap"}, {"cali1"}}[c10Idx(t, "prefix-style", 3)]
		names := c10GenNames(t, "wl", prefixes, 40)
		if rapid.Bool().Draw(t, "duplicates") && len(names) > 0 {
			for i := c10Idx(t, "dup-count", 3); i >= 0; i-- {
				names = append(names, names[c10Idx(t, "dup-of", len(names))])
			}
		}
		known := c10Uniq(names)
		isKnown := map[string]bool{}
		for _, n := range known {
			isKnown[n] = true
		}
		cfg := c10Config(denyAction, prefixes)
		rr := rules.NewRenderer(cfg, nft)
		eps := map[types.WorkloadEndpointID]*proto.WorkloadEndpoint{}
		for i, n := range names {
			eps[types.WorkloadEndpointID{OrchestratorId: "k8s", WorkloadId: fmt.Sprintf("w%d", i), EndpointId: "eth0"}] = &proto.WorkloadEndpoint{Name: n}
		}
		chains := rr.WorkloadDispatchChains(eps)
		var maps map[string]map[string][]string
		if nft {
			from, to := rr.DispatchMappings(eps)
			maps = map[string]map[string][]string{rules.NftablesFromWorkloadDispatchMap: from, rules.NftablesToWorkloadDispatchMap: to}
		}
		maxLen := iptables.MaxChainNameLength
		if nft {
			maxLen = nftables.MaxChainNameLength
		}
		var stubs []string
		for _, n := range known {
			for _, pfx := range []string{rules.WorkloadFromEndpointPfx, rules.WorkloadToEndpointPfx} {
				if len(pfx)+len(n) > maxLen {
					t.Fatalf("endpoint chain name for %q would exceed %d characters", n, maxLen)
				}
				stubs = append(stubs, pfx+n) // names this short are never hashed
			}
		}
		l := c10Load(nft, chains, maps, stubs)
		if err := l.rs.Err(); err != nil {
			if _, gap := err.(*nfsim.GapError); gap {
				t.Fatalf("%v", err)
			}
			t.Fatalf("C10 violated: rendered workload dispatch chains cannot be loaded: %v\nnames: %v", err, known)
		}
		wantDeny := nfsim.VerdictDrop
		if denyAction == "REJECT" {
			wantDeny = nfsim.VerdictReject
		}
		hasWlPrefix := func(s string) bool {
			for _, p := range prefixes {
				if strings.HasPrefix(s, p) {
					return true
				}
			}
			return false
		}
		buckets, cp := c10BucketStats(known)
		probes := c10Probes(known, []string{"eth0", "lo", "cali", "calix", "tap", "tapx", "cal", "cali1", "cali1x", "docker0"})
		other := "eth0"
		if len(known) > 0 {
			other = known[c10Idx(t, "other-iface", len(known))]
		}
		nearMiss := 0
		for _, probe := range probes {
			for _, dir := range []string{"from", "to"} {
				entry, pfx, in, out := rules.ChainFromWorkloadDispatch, rules.WorkloadFromEndpointPfx, probe, other
				if dir == "to" {
					entry, pfx, in, out = rules.ChainToWorkloadDispatch, rules.WorkloadToEndpointPfx, other, probe
				}
				res, reached := c10Run(t, l, entry, in, out)
				desc := func() string {
					return fmt.Sprintf("%s-workload dispatch (%s), probe interface %q (other interface %q)\nknown names: %v\nreached endpoint chains: %v verdict=%s final=%v\nrendered:\n%s",
						dir, map[bool]string{false: "iptables", true: "nftables"}[nft], probe, other, known, reached, res.Verdict, res.Final, l.rs.Dump())
				}
				if isKnown[probe] {
					want := l.chain(pfx + probe)
					if len(reached) != 1 || reached[0] != want {
						t.Fatalf("C10 violated: known interface must be handed to exactly its own chain %q\n%s", want, desc())
					}
					if res.Verdict != nfsim.VerdictReturn {
						t.Fatalf("C10 violated: dispatch itself issued a verdict for a known interface\n%s", desc())
					}
				} else if hasWlPrefix(probe) {
					if len(reached) != 0 || res.Verdict != wantDeny {
						t.Fatalf("C10 violated: unknown interface with a workload prefix must be dropped (%s) and reach no endpoint chain\n%s", wantDeny, desc())
					}
				}
			}
			if !isKnown[probe] && len(probe) > len(cp) && buckets[probe[:len(cp)+1]] >= 2 {
				nearMiss++
			}
		}
		// evidence
		var bs []int
		maxBucket := 0
		for _, n := range buckets {
			bs = append(bs, n)
			if n > maxBucket {
				maxBucket = n
			}
		}
		sort.Ints(bs)
		var ls []int
		for _, n := range known {
			ls = append(ls, len(n))
		}
		sort.Ints(ls)
		classes := []string{map[bool]string{false: "iptables", true: "nft"}[nft], "deny-" + denyAction, fmt.Sprintf("prefixes-%d", len(prefixes))}
		if len(names) != len(known) {
			classes = append(classes, "duplicate-names")
		}
		if maxBucket >= 2 {
			classes = append(classes, "shared-bucket")
		}
		if len(known) == 0 {
			classes = append(classes, "no-endpoints")
		}
		for _, n := range known {
			if len(n) == c10MaxIfaceLen {
				classes = append(classes, "max-length-name")
				break
			}
		}
		for _, n := range known {
			isPfx := false
			for _, m := range known {
				if m != n && strings.HasPrefix(m, n) {
					isPfx = true
				}
			}
			if isPfx {
				classes = append(classes, "name-is-prefix-of-another")
				break
			}
		}
		key := fmt.Sprintf("%v/%s/%v/%v", nft, cp, bs, ls)
		rec.SizedCase(maxBucket >= 2 && nearMiss > 0, key, len(known), func() any {
			return map[string]any{"renderer": classes[0], "names": known, "probes": len(probes), "near_miss_probes": nearMiss,
				"rendered": strings.Split(l.rs.Dump(), "\n")}
		}, classes...)
	})
}

func TestVerifC10HostDispatch(t *testing.T) {
	ev.Quiet()
	rec := ev.New("C10", "host-dispatch",
		"each case: 0-12 host interface names (eth/en prefixes, tiny alphabet, names that are prefixes of others), wildcard host endpoint configured or not, entry point HostDispatchChains(applyOnForward true/false) / FromHostDispatchChains / ToHostDispatchChains, renderer iptables/nft; "+
			"probes = every name, +-1 character, proper prefixes, prefix+x, unrelated non-workload names. Non-trivial = >=2 names share a bucket and an unknown probe falls into it; distinct = renderer/entry/wildcard/bucket multiset",
		"endpoint chains are stubs; expected chain names come from rules.EndpointChainName (naming is property C37's subject)",
		"interfaces with a workload prefix (1-2 configured prefixes) are probed too: they must reach no host endpoint chain when no wildcard host endpoint exists, and in the egress dispatch rendered with applyOnForward=false also when one exists; the other variants are only entered for non-workload interfaces, so nothing is asserted there",
		"the interface on the other side of the packet (none / host / workload / known host interface) is drawn per case and must not influence the dispatch")
	defer rec.Write()
	rapid.Check(t, func(t *rapid.T) {
		nft := rapid.Bool().Draw(t, "nft")
		wildcard := rapid.Bool().Draw(t, "wildcardHEP")
		entryKind := c10Idx(t, "entry", 4) // 0 Host(fwd=true) 1 Host(fwd=false) 2 From 3 To
		names := c10Uniq(c10GenNames(t, "hep", []string{"eth", "en", "eth1"}, 12))
		isKnown := map[string]bool{}
		for _, n := range names {
			isKnown[n] = true
		}
		wlPrefixes := [][]string{{"cali"}, {"cali", "tap"}}[c10Idx(t, "workload-prefixes", 2)]
		cfg := c10Config("DROP", wlPrefixes)
		rr := rules.NewRenderer(cfg, nft)
		eps := map[string]types.HostEndpointID{}
		for _, n := range names {
			eps[n] = types.HostEndpointID{EndpointId: "hep-" + n}
		}
		def := ""
		if wildcard {
			def = "any-interface-at-all" // endpointManager's allInterfaces
		}
		var chains []*generictables.Chain
		type dirSpec struct {
			entry, pfx string
			in         bool
		}
		var dirs []dirSpec
		switch entryKind {
		case 0:
			chains = rr.HostDispatchChains(eps, def, true)
			dirs = []dirSpec{{rules.ChainDispatchFromHostEndpoint, rules.HostFromEndpointPfx, true}, {rules.ChainDispatchToHostEndpoint, rules.HostToEndpointPfx, false},
				{rules.ChainDispatchFromHostEndPointForward, rules.HostFromEndpointForwardPfx, true}, {rules.ChainDispatchToHostEndpointForward, rules.HostToEndpointForwardPfx, false}}
		case 1:
			chains = rr.HostDispatchChains(eps, def, false)
			dirs = []dirSpec{{rules.ChainDispatchFromHostEndpoint, rules.HostFromEndpointPfx, true}, {rules.ChainDispatchToHostEndpoint, rules.HostToEndpointPfx, false}}
		case 2:
			chains = rr.FromHostDispatchChains(eps, def)
			dirs = []dirSpec{{rules.ChainDispatchFromHostEndpoint, rules.HostFromEndpointPfx, true}}
		default:
			chains = rr.ToHostDispatchChains(eps, def)
			dirs = []dirSpec{{rules.ChainDispatchToHostEndpoint, rules.HostToEndpointPfx, false}}
		}
		maxLen := iptables.MaxChainNameLength
		if nft {
			maxLen = nftables.MaxChainNameLength
		}
		var stubs []string
		for _, d := range dirs {
			for _, n := range names {
				stubs = append(stubs, rules.EndpointChainName(d.pfx, n, maxLen))
			}
			stubs = append(stubs, rules.EndpointChainName(d.pfx, "any-interface-at-all", maxLen))
		}
		l := c10Load(nft, chains, nil, stubs)
		if err := l.rs.Err(); err != nil {
			if _, gap := err.(*nfsim.GapError); gap {
				t.Fatalf("%v", err)
			}
			t.Fatalf("C10 violated: rendered host dispatch chains cannot be loaded: %v\nnames: %v", err, names)
		}
		for _, d := range dirs {
			if !l.rs.HasChain(l.chain(d.entry)) {
				t.Fatalf("C10 violated: dispatch root chain %q was not rendered (got %v)", d.entry, l.rs.ChainNames())
			}
		}
		buckets, cp := c10BucketStats(names)
		// Workload-side probes: interfaces with a workload prefix (short, 15 characters, bare prefix).
		var wlProbes []string
		for _, p := range wlPrefixes {
			wlProbes = append(wlProbes, p, p+"1234", p+"a", (p + "ab1ab1ab1ab1ab1")[:c10MaxIfaceLen])
		}
		hasWlPrefix := func(s string) bool {
			for _, p := range wlPrefixes {
				if strings.HasPrefix(s, p) {
					return true
				}
			}
			return false
		}
		probes := c10Probes(names, append([]string{"eth0", "lo", "ens3", "bond0", "e", "wlan0"}, wlProbes...))
		// The interface on the other side of the packet must not influence the dispatch: none
		// (host-originated / host-terminated traffic), a workload interface, a host interface.
		others := []string{"", "eth9", wlPrefixes[len(wlPrefixes)-1] + "77"}
		if len(names) > 0 {
			others = append(others, names[c10Idx(t, "other-known-host-iface", len(names))])
		}
		other := others[c10Idx(t, "other-iface", len(others))]
		otherClass := "other-iface-host"
		if other == "" {
			otherClass = "other-iface-none"
		} else if hasWlPrefix(other) {
			otherClass = "other-iface-workload"
		}
		nearMiss, wlToSkips := 0, 0
		for _, probe := range probes {
			for _, d := range dirs {
				in, out := probe, other
				if !d.in {
					in, out = other, probe
				}
				res, reached := c10Run(t, l, d.entry, in, out)
				if hasWlPrefix(probe) {
					// A workload interface belongs to the workload dispatch ("its own policy chain and
					// no other"): the host dispatch must not hand it to any host endpoint chain in the
					// places where the dispatch chain itself is what keeps workload traffic out:
					// always when no wildcard host endpoint is configured, and with a wildcard host
					// endpoint in the egress dispatch rendered with applyOnForward=false ("We never
					// apply wildcard HEP normal policy for traffic going to a local workload").  The
					// remaining variants are only ever entered for non-workload interfaces (static
					// chains divert workload interfaces first), so the statement is silent there.
					if !wildcard || (!d.in && (entryKind == 1 || entryKind == 3)) {
						wlToSkips++
						if len(reached) != 0 || res.Verdict != nfsim.VerdictReturn {
							t.Fatalf("C10 violated: traffic on workload interface %q must not be handed to a host endpoint chain (in=%q out=%q)\nhost dispatch chain %q (%s), wildcard HEP configured: %v, workload prefixes %v\nknown host names: %v\nreached endpoint chains: %v verdict=%s\nrendered:\n%s",
								probe, in, out, d.entry, map[bool]string{false: "iptables", true: "nftables"}[nft], wildcard, wlPrefixes, names, reached, res.Verdict, l.rs.Dump())
						}
					}
					continue
				}
				desc := func() string {
					return fmt.Sprintf("host dispatch chain %q (%s), probe interface %q (in=%q out=%q), wildcard HEP configured: %v, workload prefixes %v\nknown names: %v\nreached endpoint chains: %v verdict=%s\nrendered:\n%s",
						d.entry, map[bool]string{false: "iptables", true: "nftables"}[nft], probe, in, out, wildcard, wlPrefixes, names, reached, res.Verdict, l.rs.Dump())
				}
				if res.Verdict != nfsim.VerdictReturn {
					t.Fatalf("C10 violated: host dispatch issued a verdict of its own\n%s", desc())
				}
				switch {
				case isKnown[probe]:
					want := l.chain(rules.EndpointChainName(d.pfx, probe, maxLen))
					if len(reached) != 1 || reached[0] != want {
						t.Fatalf("C10 violated: known host interface must be sent to exactly its own chain %q\n%s", want, desc())
					}
				case wildcard:
					want := l.chain(rules.EndpointChainName(d.pfx, "any-interface-at-all", maxLen))
					if len(reached) != 1 || reached[0] != want {
						t.Fatalf("C10 violated: unknown interface must be sent to the wildcard host endpoint chain %q only\n%s", want, desc())
					}
				default:
					if len(reached) != 0 {
						t.Fatalf("C10 violated: no wildcard host endpoint configured, unknown interface must reach no endpoint chain\n%s", desc())
					}
				}
			}
			if !isKnown[probe] && len(probe) > len(cp) && buckets[probe[:len(cp)+1]] >= 2 {
				nearMiss++
			}
		}
		var bs []int
		maxBucket := 0
		for _, n := range buckets {
			bs = append(bs, n)
			if n > maxBucket {
				maxBucket = n
			}
		}
		sort.Ints(bs)
		classes := []string{map[bool]string{false: "iptables", true: "nft"}[nft], fmt.Sprintf("entry-%d", entryKind), map[bool]string{false: "no-wildcard-hep", true: "wildcard-hep"}[wildcard],
			otherClass, fmt.Sprintf("workload-prefixes-%d", len(wlPrefixes))}
		if wildcard && (entryKind == 1 || entryKind == 3) {
			classes = append(classes, "wildcard-hep-egress-dispatch-with-workload-out-iface", "wildcard-egress-"+otherClass)
		}
		if maxBucket >= 2 {
			classes = append(classes, "shared-bucket")
		}
		if len(names) == 0 {
			classes = append(classes, "no-endpoints")
		}
		_ = wlToSkips
		key := fmt.Sprintf("%v/%d/%v/%s/%v/%s/%d", nft, entryKind, wildcard, cp, bs, otherClass, len(wlPrefixes))
		rec.SizedCase(maxBucket >= 2 && nearMiss > 0, key, len(names), func() any {
			return map[string]any{"renderer": classes[0], "entry": entryKind, "wildcard": wildcard, "names": names, "probes": len(probes),
				"rendered": strings.Split(l.rs.Dump(), "\n")}
		}, classes...)
	})
}
