package rules_test

// C12 — all dataplanes agree on the policy verdict.
//
// One generated workload-endpoint policy state (proto.WorkloadEndpoint with tiers + profile ids,
// proto.Policy / proto.Profile objects, proto.IPSetUpdate contents) is handed to the four
// implementations through the entry points their real callers use:
//
//	iptables  rules.NewRenderer(cfg,false): WorkloadEndpointToIptablesChains + PolicyGroupToIptablesChains +
//	          PolicyToIptablesChains + ProfileToIptablesChains, rendered to text, executed by verifkit/nfsim
//	nftables  the same with NewRenderer(cfg,true) and the nft renderer / table layer
//	BPF       polprog.NewBuilder(...).Instructions(polprog.Rules) executed by verifkit/bpfvm with the IP sets
//	          loaded through the real felix/bpf/ipsets encoders
//	checker   policystore.PolicyStore filled by ProcessUpdate(ToDataplane ...) and evaluated with the exported
//	          checker.Evaluate(EnforcedOnly, dir, store, ep, flow) (the entry point Felix's collector uses) and,
//	          for inbound TCP/UDP flows, also with ALPCheckProvider.Check(store, CheckRequest) (Dikastes' path)
//
// and the same probe packets are sent through all of them.  Oracle (differential): the allow/deny
// verdicts are equal.  verifkit/refpol is evaluated as an extra opinion only to label the odd one
// out in the failure message and to classify cases for the evidence; it never decides pass/fail.
//
// Glue that lives in unexported Felix code and is replicated here (trusted, kept literal):
// endpointManager.groupPolicies (consecutive policies with the same selector form a group),
// bpfEndpointManager.extractTiers/extractProfiles (proto tiers -> polprog.Rules), the IP-version
// filtering of IP set members done by the ipsets managers, and tierInfoToProtoTierInfo (a tier is
// listed only if it has a policy in some direction).

import (
	"fmt"
	"net"
	"net/netip"
	"sort"
	"strconv"
	"strings"
	"testing"

	core "github.com/envoyproxy/go-control-plane/envoy/config/core/v3"
	authz "github.com/envoyproxy/go-control-plane/envoy/service/auth/v3"
	googleproto "google.golang.org/protobuf/proto"
	"pgregory.net/rapid"

	v3 "github.com/projectcalico/api/pkg/apis/projectcalico/v3"

	"github.com/projectcalico/calico/app-policy/checker"
	"github.com/projectcalico/calico/app-policy/policystore"
	"github.com/projectcalico/calico/felix/bpf/asm"
	"github.com/projectcalico/calico/felix/bpf/jump"
	"github.com/projectcalico/calico/felix/bpf/maps"
	"github.com/projectcalico/calico/felix/bpf/polprog"
	"github.com/projectcalico/calico/felix/generictables"
	"github.com/projectcalico/calico/felix/idalloc"
	"github.com/projectcalico/calico/felix/ipsets"
	"github.com/projectcalico/calico/felix/nftables"
	"github.com/projectcalico/calico/felix/proto"
	"github.com/projectcalico/calico/felix/rules"
	"github.com/projectcalico/calico/felix/types"
	"github.com/projectcalico/calico/libcalico-go/lib/backend/model"
	"github.com/projectcalico/calico/verifkit/bpfvm"
	"github.com/projectcalico/calico/verifkit/ev"
	"github.com/projectcalico/calico/verifkit/nfsim"
	"github.com/projectcalico/calico/verifkit/refpol"
)

// Findings of this check that have been repaired in /repo (kept as regression tests below):
//   - c12-checker-netset-prefix-25-31-never-matches (cc3d495): policystore ipNetSet answered from the bitmap
//     node only, so NET set members with prefix length 25..31 (v4) / 121..127 (v6) were never found.
//   - c12-checker-named-port-set-never-matches (69d6496): checker matchPort/matchNotPort looked up the bare
//     port number in named-port sets whose members are "ip,proto:port".

// ---- small helpers: (almost) uniform draws that still shrink towards 0 ----

func c12Idx(t *rapid.T, label string, n int) int {
	x := rapid.Uint64().Draw(t, label)
	x ^= x >> 30
	x *= 0xbf58476d1ce4e5b9
	x ^= x >> 27
	x *= 0x94d049bb133111eb
	x ^= x >> 31
	return int(x % uint64(n))
}

func c12Chance(t *rapid.T, label string, pct int) bool { return c12Idx(t, label, 100) >= 100-pct }

func c12From[T any](t *rapid.T, label string, xs []T) T { return xs[c12Idx(t, label, len(xs))] }

func c12If(b bool, s string) string {
	if b {
		return s
	}
	return ""
}

// ---- vocabulary ----

type c12Marks struct{ Accept, Pass, Drop, Scratch0, Scratch1, Endpoint, NonCali uint32 }

var c12MarkLayouts = []c12Marks{
	{0x80, 0x100, 0x800, 0x200, 0x400, 0xff000, 0x1000},
	{0x10000, 0x20000, 0x40000, 0x80000, 0x100000, 0xfff00000 &^ 0x100000, 0x200000},
	{0x8, 0x20, 0x1, 0x40, 0x10, 0xff00, 0x100},
}

func (m c12Marks) felix() uint32 { return m.Accept | m.Pass | m.Drop | m.Scratch0 | m.Scratch1 }

func c12Pool(ipv int) []netip.Addr {
	var out []netip.Addr
	if ipv == 4 {
		for i := 0; i < 32; i++ {
			out = append(out, netip.AddrFrom4([4]byte{10, 0, 0, byte(i)}))
		}
		for _, b := range []byte{127, 128, 129, 200, 255} {
			out = append(out, netip.AddrFrom4([4]byte{10, 0, 0, b}))
		}
		for i := 0; i < 4; i++ {
			out = append(out, netip.AddrFrom4([4]byte{10, 0, 1, byte(i)}))
		}
		out = append(out, netip.MustParseAddr("192.168.7.9"))
		return out
	}
	for i := 0; i < 32; i++ {
		b := [16]byte{0xfd}
		b[15] = byte(i)
		out = append(out, netip.AddrFrom16(b))
	}
	for _, l := range []byte{127, 128, 129, 200, 255} {
		b := [16]byte{0xfd}
		b[15] = l
		out = append(out, netip.AddrFrom16(b))
	}
	out = append(out, netip.MustParseAddr("fd00::1:0"), netip.MustParseAddr("fd00::1:1"), netip.MustParseAddr("2001:db8::9"))
	return out
}

var (
	c12PoolV4 = c12Pool(4)
	c12PoolV6 = c12Pool(6)
	c12Ports  = []int32{1, 2, 79, 80, 81, 443, 1023, 1024, 8080, 65534, 65535}
)

func c12PoolFor(ipv int) []netip.Addr {
	if ipv == 6 {
		return c12PoolV6
	}
	return c12PoolV4
}

func c12GenCIDR(t *rapid.T, ipv int, label string, minBits int) netip.Prefix {
	a := c12From(t, label+"-base", c12PoolFor(ipv))
	var lens []int
	if ipv == 4 {
		lens = []int{0, 1, 8, 16, 24, 24, 25, 26, 27, 28, 29, 30, 31, 32, 32, 32}
	} else {
		lens = []int{0, 1, 8, 64, 112, 120, 120, 121, 122, 124, 125, 126, 127, 128, 128, 128}
	}
	l := c12From(t, label+"-len", lens)
	if l < minBits {
		l = a.BitLen()
	}
	return netip.PrefixFrom(a, l).Masked()
}

func c12LastAddr(p netip.Prefix) netip.Addr {
	b := p.Addr().AsSlice()
	for i := p.Bits(); i < len(b)*8; i++ {
		b[i/8] |= 1 << (7 - uint(i%8))
	}
	a, _ := netip.AddrFromSlice(b)
	return a
}

var c12ProtoNames = map[string]uint8{"tcp": 6, "udp": 17, "sctp": 132, "icmp": 1, "icmpv6": 58, "udplite": 136}

func c12ProtoName(n string) *proto.Protocol {
	return &proto.Protocol{NumberOrName: &proto.Protocol_Name{Name: n}}
}

func c12ProtoNum(n int32) *proto.Protocol {
	return &proto.Protocol{NumberOrName: &proto.Protocol_Number{Number: n}}
}

// ---- the generated endpoint policy state ----

type c12Set struct {
	ID   string
	Type proto.IPSetUpdate_IPSetType
	// Members is the FINAL content (proto member strings "10.0.0.0/24", "10.0.0.1,tcp:80", possibly of
	// both families): what the iptables/nftables sets and the BPF map hold.  The checker's policy
	// store receives Initial as an IPSetUpdate followed by Deltas as IPSetDeltaUpdates, which
	// together yield Members (Initial == nil and no Deltas: Members is sent as the one update).
	Members []string
	Initial []string
	Deltas  []c12Delta
	// HostRemovedNextToLongPrefix: some delta removes a single address while a /25../31 (/121../127)
	// member of the same /24 (/120) stays in the set.
	HostRemovedNextToLongPrefix bool
}

type c12Delta struct{ Added, Removed []string }

func (x *c12Set) initial() []string {
	if x.Initial == nil && len(x.Deltas) == 0 {
		return x.Members
	}
	return x.Initial
}

func c12IsLongPrefix(p netip.Prefix) bool {
	hb := p.Addr().BitLen() - p.Bits()
	return hb >= 1 && hb <= 7
}

// c12SameBlock: same /24 (v4) or /120 (v6).
func c12SameBlock(a, b netip.Addr) bool {
	if a.Is6() != b.Is6() {
		return false
	}
	pa, _ := a.Prefix(a.BitLen() - 8)
	return pa.Contains(b)
}

// c12Churn turns the generated content into an initial update plus 0-3 delta updates (what the
// calc graph sends when endpoints / network sets come and go).  Deltas only add members that are
// absent and remove members that are present, and never touch a member twice in one delta.
func c12Churn(t *rapid.T, label string, ipv int, set *c12Set, cur []string) {
	seen := map[string]bool{}
	var uniq []string
	for _, m := range cur {
		if !seen[m] {
			seen[m] = true
			uniq = append(uniq, m)
		}
	}
	cur = uniq
	set.Initial = append([]string{}, cur...)
	nDeltas := c12From(t, label+"-ndeltas", []int{0, 0, 1, 2, 2, 3})
	var removedEarlier []string
	for d := 0; d < nDeltas; d++ {
		dl := fmt.Sprintf("%s-delta[%d]", label, d)
		var delta c12Delta
		touched := map[string]bool{}
		has := func(m string) bool {
			for _, x := range cur {
				if x == m {
					return true
				}
			}
			return false
		}
		add := func(m string) {
			if m != "" && !touched[m] && !has(m) {
				touched[m] = true
				delta.Added = append(delta.Added, m)
				cur = append(cur, m)
			}
		}
		remove := func(m string) {
			if m == "" || touched[m] || !has(m) {
				return
			}
			touched[m] = true
			delta.Removed = append(delta.Removed, m)
			var out []string
			for _, x := range cur {
				if x != m {
					out = append(out, x)
				}
			}
			cur = out
			removedEarlier = append(removedEarlier, m)
			if set.Type == proto.IPSetUpdate_NET {
				if hp := netip.MustParsePrefix(m); hp.IsSingleIP() {
					for _, x := range cur {
						if lp := netip.MustParsePrefix(x); c12IsLongPrefix(lp) && c12SameBlock(lp.Addr(), hp.Addr()) {
							set.HostRemovedNextToLongPrefix = true
						}
					}
				}
			}
		}
		pickWhere := func(l string, ok func(string) bool) string {
			var c []string
			for _, x := range cur {
				if ok(x) {
					c = append(c, x)
				}
			}
			if len(c) == 0 {
				return ""
			}
			return c[c12Idx(t, l, len(c))]
		}
		nOps := rapid.IntRange(1, 3).Draw(t, dl+"-nops")
		for o := 0; o < nOps; o++ {
			ol := fmt.Sprintf("%s-op[%d]", dl, o)
			if set.Type != proto.IPSetUpdate_NET {
				if c12Chance(t, ol+"-remove", 45) {
					remove(pickWhere(ol+"-member", func(string) bool { return true }))
				} else if len(removedEarlier) > 0 && c12Chance(t, ol+"-readd", 40) {
					add(removedEarlier[c12Idx(t, ol+"-readd-member", len(removedEarlier))])
				} else {
					a := c12From(t, ol+"-addr", c12PoolFor(ipv)[:6])
					pr := c12From(t, ol+"-proto", []string{"tcp", "tcp", "udp"})
					po := c12From(t, ol+"-port", c12Ports)
					add(fmt.Sprintf("%s,%s:%d", a, pr, po))
				}
				continue
			}
			isLong := func(m string) bool { return c12IsLongPrefix(netip.MustParsePrefix(m)) }
			isHost := func(m string) bool { return netip.MustParsePrefix(m).IsSingleIP() }
			switch c12Idx(t, ol+"-kind", 10) {
			case 0, 1, 2: // a host address appears next to a long prefix (same /24 or /120)
				lp := pickWhere(ol+"-longprefix", isLong)
				if lp == "" {
					add(c12GenCIDR(t, ipv, ol+"-cidr", 8).String())
					break
				}
				b := netip.MustParsePrefix(lp).Addr().AsSlice()
				b[len(b)-1] = c12From(t, ol+"-hostbyte", []byte{0, 1, 2, 63, 64, 127, 128, 129, 200, 254, 255})
				a, _ := netip.AddrFromSlice(b)
				add(netip.PrefixFrom(a, a.BitLen()).String())
			case 3, 4, 5: // a host address goes away
				remove(pickWhere(ol+"-host", isHost))
			case 6: // a long prefix goes away
				remove(pickWhere(ol+"-longprefix", isLong))
			case 7: // something removed earlier comes back
				if len(removedEarlier) > 0 {
					add(removedEarlier[c12Idx(t, ol+"-readd-member", len(removedEarlier))])
				} else {
					add(c12GenCIDR(t, ipv, ol+"-cidr", 8).String())
				}
			case 8:
				add(c12GenCIDR(t, ipv, ol+"-cidr", 8).String())
			default:
				remove(pickWhere(ol+"-member", func(string) bool { return true }))
			}
		}
		if len(delta.Added)+len(delta.Removed) > 0 {
			set.Deltas = append(set.Deltas, delta)
		}
	}
	set.Members = cur
}

type c12Policy struct {
	ID       *proto.PolicyID
	Pol      *proto.Policy
	Filler   bool   // big-program filler policy (never targeted by probe packets)
	In, Out  bool   // listed in the tier's ingress / egress policies for this endpoint
	Selector string // the policy's selector (only used for grouping, as in endpointManager.groupPolicies)
}

type c12Tier struct {
	Name          string
	DefaultAction string
	Policies      []*c12Policy
}

type c12Profile struct {
	Name string
	Prof *proto.Profile
}

type c12State struct {
	ipv      int
	sets     []*c12Set
	netIDs   []string
	svcIDs   []string
	namedIDs []string
	tiers    []*c12Tier
	profiles []*c12Profile
	ep       *proto.WorkloadEndpoint
	// "Big program" cases: the first tier holds thousands of filler rules followed by rules with long
	// port lists, so that the BPF policy program exceeds the per-program jump limit and is split.
	big        bool
	bigInbound bool
	bigFillers int
	bigRules   []*proto.Rule
}

func (s *c12State) set(id string) *c12Set {
	for _, x := range s.sets {
		if x.ID == id {
			return x
		}
	}
	panic("HARNESS-GAP: c12: undefined IP set " + id)
}

// c12ParseIPPort parses "ip,proto:port".
func c12ParseIPPort(m string) (netip.Addr, uint8, uint16) {
	i := strings.Index(m, ",")
	j := strings.LastIndex(m, ":")
	a := netip.MustParseAddr(m[:i])
	pn, ok := c12ProtoNames[m[i+1:j]]
	if !ok {
		panic("HARNESS-GAP: c12: unknown protocol in IP set member " + m)
	}
	po, err := strconv.Atoi(m[j+1:])
	if err != nil {
		panic("HARNESS-GAP: c12: bad port in IP set member " + m)
	}
	return a, pn, uint16(po)
}

func c12GenSets(t *rapid.T, s *c12State) {
	ipv := s.ipv
	for i, id := range []string{"s:AbCd0123-_xyzEFGHijklmnopq", "s:B", "s:c9"} {
		set := &c12Set{ID: id, Type: proto.IPSetUpdate_NET}
		n := c12Idx(t, fmt.Sprintf("netset[%d]-size", i), 6)
		var cur []string
		for j := 0; j < n; j++ {
			fam := ipv
			if c12Chance(t, fmt.Sprintf("netset[%d][%d]-otherfamily", i, j), 10) {
				fam = 10 - ipv // a member of the other family: not part of this family's dataplane set
			}
			p := c12GenCIDR(t, fam, fmt.Sprintf("netset[%d][%d]", i, j), 8)
			cur = append(cur, p.String())
		}
		c12Churn(t, fmt.Sprintf("netset[%d]", i), ipv, set, cur)
		s.sets = append(s.sets, set)
		s.netIDs = append(s.netIDs, id)
	}
	ipport := func(kind string, ids []string) []string {
		for i, id := range ids {
			set := &c12Set{ID: id, Type: proto.IPSetUpdate_IP_AND_PORT}
			n := c12Idx(t, fmt.Sprintf("%s[%d]-size", kind, i), 5)
			var cur []string
			for j := 0; j < n; j++ {
				a := c12From(t, fmt.Sprintf("%s[%d][%d]-addr", kind, i, j), c12PoolFor(ipv)[:6])
				pr := c12From(t, fmt.Sprintf("%s[%d][%d]-proto", kind, i, j), []string{"tcp", "tcp", "udp"})
				po := c12From(t, fmt.Sprintf("%s[%d][%d]-port", kind, i, j), c12Ports)
				cur = append(cur, fmt.Sprintf("%s,%s:%d", a, pr, po))
			}
			c12Churn(t, fmt.Sprintf("%s[%d]", kind, i), ipv, set, cur)
			s.sets = append(s.sets, set)
		}
		return ids
	}
	s.svcIDs = ipport("svcset", []string{"svc:ns1/backend", "svc:Zz"})
	s.namedIDs = ipport("namedset", []string{"n:http-tcp-0123456789abcdef", "n:Q"})
}

type c12RuleOpts struct {
	actions  []string
	outbound bool
}

func c12GenPortList(t *rapid.T, label string) []*proto.PortRange {
	n := rapid.IntRange(1, 4).Draw(t, label+"-n")
	var out []*proto.PortRange
	for i := 0; i < n; i++ {
		a := c12From(t, fmt.Sprintf("%s[%d]-first", label, i), c12Ports)
		b := a
		switch c12Idx(t, fmt.Sprintf("%s[%d]-kind", label, i), 4) {
		case 2:
			b = a + int32(rapid.IntRange(1, 3).Draw(t, fmt.Sprintf("%s[%d]-width", label, i)))
		case 3:
			b = c12From(t, fmt.Sprintf("%s[%d]-last", label, i), c12Ports)
		}
		if b < a {
			a, b = b, a
		}
		if b > 65535 {
			b = 65535
		}
		out = append(out, &proto.PortRange{First: a, Last: b})
	}
	return out
}

func c12GenNets(t *rapid.T, ipv int, label string, max, minBits int) []string {
	n := rapid.IntRange(1, max).Draw(t, label+"-n")
	var out []string
	for i := 0; i < n; i++ {
		out = append(out, c12GenCIDR(t, ipv, fmt.Sprintf("%s[%d]", label, i), minBits).String())
	}
	return out
}

func c12PickIDs(t *rapid.T, label string, ids []string, max int) []string {
	if len(ids) == 0 {
		return nil
	}
	if max > len(ids) {
		max = len(ids)
	}
	n := rapid.IntRange(1, max).Draw(t, label+"-n")
	start := c12Idx(t, label+"-first", len(ids))
	var out []string
	for i := 0; i < n; i++ {
		out = append(out, ids[(start+i)%len(ids)])
	}
	return out
}

// c12PositiveBlocks counts the criteria for which felix/rules needs a "positive match block"
// (more than one alternative that cannot be expressed in a single match).  Rules with three or
// more are a recorded C08 finding; this generator stays below that.
func c12PositiveBlocks(r *proto.Rule) int {
	n := 0
	alts := func(ports []*proto.PortRange, named []string) int {
		n := len(named)
		if len(ports) > 0 {
			n++ // port lists here are short enough for a single multiport match
		}
		return n
	}
	for _, b := range []bool{
		len(r.SrcNet) > 1, len(r.DstNet) > 1,
		alts(r.SrcPorts, r.SrcNamedPortIpSetIds) > 1,
		alts(r.DstPorts, r.DstNamedPortIpSetIds) > 1,
	} {
		if b {
			n++
		}
	}
	return n
}

// c12GenRule generates a proto.Rule inside the intersection of what the four implementations
// support, honouring the v3 validator / calc-graph preconditions: numeric ports only with protocol
// tcp/udp/sctp; CIDRs of the endpoint's family only (the checker has no notion of ip_version);
// ip_version unset or equal to the family; no negated catch-all CIDR; at most one dst IP set;
// destination service (IP+port) sets only in egress rules and without dst ports; at most one of
// protocol / not_protocol; no ICMP type/code, HTTP or service-account matches; no log action.
func c12GenRule(t *rapid.T, s *c12State, label string, o c12RuleOpts) *proto.Rule {
	ipv := s.ipv
	r := &proto.Rule{Action: c12From(t, label+"-action", o.actions), RuleId: label}
	if c12Chance(t, label+"-matchall", 10) {
		return r
	}
	dense := c12Chance(t, label+"-dense", 25)
	p := func(sparse, denseP int) int {
		if dense {
			return denseP
		}
		return sparse
	}
	ports, namedOK := false, false
	switch k := c12Idx(t, label+"-proto-kind", 20); {
	case k < 5: // no protocol
		namedOK = true
	case k < 14:
		n := c12From(t, label+"-l4", []string{"tcp", "tcp", "udp", "sctp"})
		if c12Chance(t, label+"-l4-byname", 50) {
			r.Protocol = c12ProtoName(n)
		} else {
			r.Protocol = c12ProtoNum(int32(c12ProtoNames[n]))
		}
		ports, namedOK = true, n != "sctp"
	case k < 16:
		name, num := "icmp", int32(1)
		if ipv == 6 {
			name, num = "icmpv6", 58
		}
		if c12Chance(t, label+"-icmp-byname", 50) {
			r.Protocol = c12ProtoName(name)
			r.IpVersion = proto.IPVersion(ipv) // calc derives the version from the protocol name
		} else {
			r.Protocol = c12ProtoNum(num)
		}
	case k < 17:
		if c12Chance(t, label+"-udplite", 50) {
			r.Protocol = c12ProtoName("udplite")
		} else {
			r.Protocol = c12ProtoNum(c12From(t, label+"-othernum", []int32{47, 136}))
		}
	default:
		n := c12From(t, label+"-notproto", []string{"tcp", "udp", "sctp", "udplite"})
		if c12Chance(t, label+"-notproto-byname", 50) {
			r.NotProtocol = c12ProtoName(n)
		} else {
			r.NotProtocol = c12ProtoNum(int32(c12ProtoNames[n]))
		}
	}
	if r.IpVersion == proto.IPVersion_ANY && c12Chance(t, label+"-explicit-version", 15) {
		r.IpVersion = proto.IPVersion(ipv)
	}

	if c12Chance(t, label+"-srcnet", p(25, 45)) {
		r.SrcNet = c12GenNets(t, ipv, label+"-srcnet", 3, 0)
	}
	if c12Chance(t, label+"-dstnet", p(20, 40)) {
		r.DstNet = c12GenNets(t, ipv, label+"-dstnet", 3, 0)
	}
	if c12Chance(t, label+"-notsrcnet", p(10, 30)) {
		r.NotSrcNet = c12GenNets(t, ipv, label+"-notsrcnet", 2, 8)
	}
	if c12Chance(t, label+"-notdstnet", p(10, 30)) {
		r.NotDstNet = c12GenNets(t, ipv, label+"-notdstnet", 2, 8)
	}

	if c12Chance(t, label+"-srcset", p(20, 35)) {
		r.SrcIpSetIds = c12PickIDs(t, label+"-srcset", s.netIDs, 2)
	}
	if c12Chance(t, label+"-notsrcset", p(8, 25)) {
		r.NotSrcIpSetIds = c12PickIDs(t, label+"-notsrcset", s.netIDs, 2)
	}
	if c12Chance(t, label+"-notdstset", p(8, 25)) {
		r.NotDstIpSetIds = c12PickIDs(t, label+"-notdstset", s.netIDs, 2)
	}

	svc := false
	if o.outbound && (r.Protocol == nil || namedOK) && r.NotProtocol == nil && c12Chance(t, label+"-dstsvc", 12) {
		r.DstIpPortSetIds = c12PickIDs(t, label+"-dstsvc", s.svcIDs, 1)
		svc = true
	} else if c12Chance(t, label+"-dstset", p(18, 30)) {
		r.DstIpSetIds = c12PickIDs(t, label+"-dstset", s.netIDs, 1)
	}

	if ports {
		if !svc && c12Chance(t, label+"-dstports", p(50, 60)) {
			r.DstPorts = c12GenPortList(t, label+"-dstports")
		}
		if c12Chance(t, label+"-srcports", p(10, 30)) {
			r.SrcPorts = c12GenPortList(t, label+"-srcports")
		}
		if !svc && c12Chance(t, label+"-notdstports", p(10, 30)) {
			r.NotDstPorts = c12GenPortList(t, label+"-notdstports")
		}
		if c12Chance(t, label+"-notsrcports", p(5, 20)) {
			r.NotSrcPorts = c12GenPortList(t, label+"-notsrcports")
		}
	}
	if namedOK && len(s.namedIDs) > 0 && r.NotProtocol == nil {
		if !svc && c12Chance(t, label+"-dstnamed", p(12, 25)) {
			r.DstNamedPortIpSetIds = c12PickIDs(t, label+"-dstnamed", s.namedIDs, 2)
		}
		if c12Chance(t, label+"-srcnamed", p(6, 12)) {
			r.SrcNamedPortIpSetIds = c12PickIDs(t, label+"-srcnamed", s.namedIDs, 2)
		}
		if c12Chance(t, label+"-notsrcnamed", p(4, 10)) {
			r.NotSrcNamedPortIpSetIds = c12PickIDs(t, label+"-notsrcnamed", s.namedIDs, 1)
		}
		if !svc && c12Chance(t, label+"-notdstnamed", p(5, 12)) {
			r.NotDstNamedPortIpSetIds = c12PickIDs(t, label+"-notdstnamed", s.namedIDs, 1)
		}
	}
	// Stay below three positive match blocks (recorded C08 finding, not re-reported here).
	for _, trim := range []func(){
		func() {
			if len(r.DstNet) > 1 {
				r.DstNet = r.DstNet[:1]
			}
		},
		func() {
			if len(r.SrcNet) > 1 {
				r.SrcNet = r.SrcNet[:1]
			}
		},
	} {
		if c12PositiveBlocks(r) >= 3 {
			trim()
		}
	}
	return r
}

func c12GenRules(t *rapid.T, s *c12State, label string, max int, o c12RuleOpts) []*proto.Rule {
	n := c12From(t, label+"-nrules", []int{0, 1, 1, 1, 2, 2, 3})
	if n > max {
		n = max
	}
	var out []*proto.Rule
	for i := 0; i < n; i++ {
		out = append(out, c12GenRule(t, s, fmt.Sprintf("%s.r%d", label, i), o))
	}
	return out
}

var (
	c12PolicyActions  = []string{"allow", "allow", "allow", "deny", "deny", "pass", "next-tier"}
	c12ProfileActions = []string{"allow", "allow", "deny"}
	c12Kinds          = []string{v3.KindGlobalNetworkPolicy, v3.KindGlobalNetworkPolicy, v3.KindNetworkPolicy, model.KindKubernetesNetworkPolicy}
	c12StagedKinds    = []string{v3.KindStagedGlobalNetworkPolicy, v3.KindStagedNetworkPolicy, v3.KindStagedKubernetesNetworkPolicy}
)

// c12GenBigTier prepends a tier whose BPF program needs more than the per-program jump limit
// (7992): N in 3900..4100 two-jump filler rules (protocol 253/254: no probe packet matches them)
// followed by rules with 15-40 (sometimes hundreds of) ports.  The port lists are made long enough
// to reach past the limit whenever the fillers alone stay below it, so the split lands inside a
// port list in roughly half of these cases and between filler rules in the others.
func c12GenBigTier(t *rapid.T, s *c12State) {
	s.big = true
	s.bigInbound = rapid.Bool().Draw(t, "big-inbound")
	n := 3900 + c12Idx(t, "big-fillers", 201)
	s.bigFillers = n
	tier := &c12Tier{Name: "big", DefaultAction: c12From(t, "big-defaultAction", []string{"Deny", "Deny", "Pass"})}
	mk := func(name string, rules []*proto.Rule, filler bool) *c12Policy {
		id := &proto.PolicyID{Name: name, Kind: v3.KindGlobalNetworkPolicy}
		pol := &c12Policy{ID: id, Selector: "all()", Filler: filler, In: s.bigInbound, Out: !s.bigInbound, Pol: &proto.Policy{Tier: tier.Name, OriginalSelector: "all()"}}
		if s.bigInbound {
			pol.Pol.InboundRules = rules
		} else {
			pol.Pol.OutboundRules = rules
		}
		return pol
	}
	fillers := make([]*proto.Rule, n)
	for i := range fillers {
		fillers[i] = &proto.Rule{Action: "deny", Protocol: c12ProtoNum(int32(253 + i%2)), RuleId: fmt.Sprintf("big.filler.r%d", i)}
	}
	tier.Policies = append(tier.Policies, mk("big.filler", fillers, true))

	need := 8100 - 2*n // port entries needed so that the jump limit is crossed inside the port rules
	total := 0
	var prules []*proto.Rule
	addRule := func(k, entries int) {
		l := fmt.Sprintf("big.ports.r%d", k)
		r := &proto.Rule{RuleId: l, Action: "allow"}
		if c12Chance(t, l+"-udp", 30) {
			r.Protocol = c12ProtoName("udp")
		} else {
			r.Protocol = c12ProtoNum(6)
		}
		base := int32(1000 + 2000*k)
		var ports []*proto.PortRange
		for i := 0; i < entries; i++ {
			first := base + int32(3*i)
			last := first
			if (i+k)%5 == 4 {
				last = first + 1
			}
			ports = append(ports, &proto.PortRange{First: first, Last: last})
		}
		switch c12Idx(t, l+"-field", 10) {
		case 0, 1:
			r.SrcPorts = ports
		case 2:
			r.NotDstPorts = ports // allow everything but the listed ports
		default:
			r.DstPorts = ports
		}
		prules = append(prules, r)
		total += entries
	}
	k := 0
	for nr := rapid.IntRange(1, 4).Draw(t, "big-nPortRules"); k < nr; k++ {
		addRule(k, rapid.IntRange(15, 40).Draw(t, fmt.Sprintf("big.ports.r%d-n", k)))
	}
	if total < need || c12Chance(t, "big-longlist", 25) {
		extra := need - total
		if extra < 0 {
			extra = 0
		}
		addRule(k, extra+rapid.IntRange(40, 200).Draw(t, "big-longlist-extra"))
	}
	s.bigRules = prules
	tier.Policies = append(tier.Policies, mk("big.ports", prules, false))
	s.tiers = append(s.tiers, tier)
}

func c12GenState(t *rapid.T, ipv int) *c12State {
	s := &c12State{ipv: ipv}
	c12GenSets(t, s)

	if c12Chance(t, "bigProgram", 3) {
		c12GenBigTier(t, s)
	}
	nTiers := c12From(t, "nTiers", []int{0, 1, 1, 2, 2, 2, 3, 3})
	for ti := 0; ti < nTiers; ti++ {
		tl := fmt.Sprintf("tier[%d]", ti)
		tier := &c12Tier{Name: fmt.Sprintf("tier%d", ti), DefaultAction: c12From(t, tl+"-defaultAction", []string{"Deny", "Deny", "Pass"})}
		if ti == nTiers-1 && c12Chance(t, tl+"-named-default", 50) {
			tier.Name = "default"
		}
		nPols := c12From(t, tl+"-nPolicies", []int{1, 1, 2, 2, 3, 4, 7})
		sel := "all()"
		for pi := 0; pi < nPols; pi++ {
			pl := fmt.Sprintf("%s.pol[%d]", tl, pi)
			kind := c12From(t, pl+"-kind", c12Kinds)
			if c12Chance(t, pl+"-staged", 12) {
				kind = c12From(t, pl+"-stagedkind", c12StagedKinds)
			}
			id := &proto.PolicyID{Name: fmt.Sprintf("%s.p%d", tier.Name, pi), Kind: kind}
			if kind != v3.KindGlobalNetworkPolicy && kind != v3.KindStagedGlobalNetworkPolicy {
				id.Namespace = "ns1"
			}
			if c12Chance(t, pl+"-new-selector", 45) {
				sel = fmt.Sprintf("role == 'r%d-%d'", ti, pi)
			}
			pol := &c12Policy{ID: id, Selector: sel, Pol: &proto.Policy{Tier: tier.Name, Namespace: id.Namespace, OriginalSelector: sel}}
			switch c12Idx(t, pl+"-types", 5) {
			case 0:
				pol.In = true
			case 1:
				pol.Out = true
			default:
				pol.In, pol.Out = true, true
			}
			// A policy that is not of a type carries no rules for that direction.
			if pol.In {
				pol.Pol.InboundRules = c12GenRules(t, s, pl+".in", 3, c12RuleOpts{actions: c12PolicyActions})
			}
			if pol.Out {
				pol.Pol.OutboundRules = c12GenRules(t, s, pl+".out", 3, c12RuleOpts{actions: c12PolicyActions, outbound: true})
			}
			tier.Policies = append(tier.Policies, pol)
		}
		s.tiers = append(s.tiers, tier)
	}
	nProfiles := c12From(t, "nProfiles", []int{0, 1, 1, 2, 3})
	for pi := 0; pi < nProfiles; pi++ {
		pl := fmt.Sprintf("profile[%d]", pi)
		prof := &c12Profile{Name: c12From(t, pl+"-name", []string{"kns.ns1", "prof-A_b", "ksa.ns1.default"}) + fmt.Sprint(pi), Prof: &proto.Profile{}}
		// "pass" inside a profile is excluded: BPF and the checker deny, iptables moves on to the
		// next profile, and the documented semantics are silent.
		prof.Prof.InboundRules = c12GenRules(t, s, pl+".in", 3, c12RuleOpts{actions: c12ProfileActions})
		prof.Prof.OutboundRules = c12GenRules(t, s, pl+".out", 3, c12RuleOpts{actions: c12ProfileActions, outbound: true})
		s.profiles = append(s.profiles, prof)
	}

	// The endpoint as calc sends it (tierInfoToProtoTierInfo: a tier is listed only if it has a
	// policy in some direction; always the case here).
	ep := &proto.WorkloadEndpoint{State: "active", Name: "cali1234"}
	if ipv == 4 {
		ep.Ipv4Nets = []string{"10.0.0.5/32"}
	} else {
		ep.Ipv6Nets = []string{"fd00::5/128"}
	}
	for _, tier := range s.tiers {
		ti := &proto.TierInfo{Name: tier.Name, DefaultAction: tier.DefaultAction}
		for _, p := range tier.Policies {
			if p.In {
				ti.IngressPolicies = append(ti.IngressPolicies, p.ID)
			}
			if p.Out {
				ti.EgressPolicies = append(ti.EgressPolicies, p.ID)
			}
		}
		ep.Tiers = append(ep.Tiers, ti)
	}
	for _, p := range s.profiles {
		ep.ProfileIds = append(ep.ProfileIds, p.Name)
	}
	s.ep = ep
	return s
}

func (s *c12State) policy(id *proto.PolicyID) *c12Policy {
	for _, t := range s.tiers {
		for _, p := range t.Policies {
			if p.ID == id {
				return p
			}
		}
	}
	panic("HARNESS-GAP: c12: unknown policy id")
}

func c12DescribeRules(b *strings.Builder, dir string, rs []*proto.Rule) {
	for i, r := range rs {
		if len(rs) > 12 && i >= 2 && i < len(rs)-1 {
			if i == 2 {
				fmt.Fprintf(b, "    ... %d more %s rules of the same form ...\n", len(rs)-3, dir)
			}
			continue
		}
		txt := r.String()
		if len(txt) > 700 {
			txt = txt[:300] + fmt.Sprintf(" ...[%d characters]... ", len(txt)-500) + txt[len(txt)-200:]
		}
		fmt.Fprintf(b, "    %s[%d] %s\n", dir, i, txt)
	}
}

func (s *c12State) describe() string {
	var b strings.Builder
	fmt.Fprintf(&b, "endpoint: %v\n", s.ep)
	for _, t := range s.tiers {
		fmt.Fprintf(&b, "tier %q defaultAction=%s\n", t.Name, t.DefaultAction)
		for _, p := range t.Policies {
			fmt.Fprintf(&b, "  policy %v in=%v out=%v selector=%q\n", p.ID, p.In, p.Out, p.Selector)
			c12DescribeRules(&b, "inbound", p.Pol.InboundRules)
			c12DescribeRules(&b, "outbound", p.Pol.OutboundRules)
		}
	}
	for _, p := range s.profiles {
		fmt.Fprintf(&b, "profile %q\n", p.Name)
		for i, r := range p.Prof.InboundRules {
			fmt.Fprintf(&b, "    inbound[%d]  %v\n", i, r)
		}
		for i, r := range p.Prof.OutboundRules {
			fmt.Fprintf(&b, "    outbound[%d] %v\n", i, r)
		}
	}
	for _, x := range s.sets {
		fmt.Fprintf(&b, "ipset %q %v final members %v\n", x.ID, x.Type, x.Members)
		if len(x.Deltas) > 0 {
			fmt.Fprintf(&b, "    sent to the policy store as IPSetUpdate %v", x.Initial)
			for _, d := range x.Deltas {
				fmt.Fprintf(&b, " then IPSetDeltaUpdate{added %v removed %v}", d.Added, d.Removed)
			}
			fmt.Fprintf(&b, "\n")
		}
	}
	return b.String()
}

// ---- implementation 1+2: iptables / nftables via nfsim ----

type c12NF struct {
	rs           *nfsim.Ruleset
	toWl, fromWl string
	marks        c12Marks
	groupChains  int
}

func c12RulesConfig(m c12Marks, flowLogs bool, denyAction string) rules.Config {
	return rules.Config{
		IPSetConfigV4:         ipsets.NewIPVersionConfig(ipsets.IPFamilyV4, "cali", nil, nil),
		IPSetConfigV6:         ipsets.NewIPVersionConfig(ipsets.IPFamilyV6, "cali", nil, nil),
		WorkloadIfacePrefixes: []string{"cali"},
		MarkAccept:            m.Accept,
		MarkPass:              m.Pass,
		MarkDrop:              m.Drop,
		MarkScratch0:          m.Scratch0,
		MarkScratch1:          m.Scratch1,
		MarkEndpoint:          m.Endpoint,
		MarkNonCaliEndpoint:   m.NonCali,
		FlowLogsEnabled:       flowLogs,
		FilterDenyAction:      denyAction,
		VXLANPort:             4789,
		// The from-workload chain otherwise drops VXLAN/IPIP encapsulated packets before policy (an
		// anti-spoofing measure outside the policy verdict; the BPF dataplane does it elsewhere).
		AllowVXLANPacketsFromWorkloads: true,
		AllowIPIPPacketsFromWorkloads:  true,
	}
}

// c12GroupPolicies is endpointManager.groupPolicies: consecutive policies with the same selector
// form one group.
func c12GroupPolicies(s *c12State, ids []*proto.PolicyID, dir rules.PolicyDirection) []*rules.PolicyGroup {
	var groups []*rules.PolicyGroup
	var group *rules.PolicyGroup
	for _, id := range ids {
		pid := types.ProtoToPolicyID(id)
		sel := s.policy(id).Selector
		if group == nil || sel != group.Selector {
			group = &rules.PolicyGroup{Direction: dir, Selector: sel}
			groups = append(groups, group)
		}
		group.Policies = append(group.Policies, &pid)
	}
	return groups
}

func c12NFSets(s *c12State, cfg rules.Config, nft bool) map[string]*nfsim.Set {
	out := map[string]*nfsim.Set{}
	for _, set := range s.sets {
		c := cfg.IPSetConfigV4
		if s.ipv == 6 {
			c = cfg.IPSetConfigV6
		}
		name := c.NameForMainIPSet(set.ID)
		if nft {
			name = nftables.LegalizeSetName(name)
		}
		ns := &nfsim.Set{IPPortType: set.Type == proto.IPSetUpdate_IP_AND_PORT}
		for _, m := range set.Members {
			if ns.IPPortType {
				a, pr, po := c12ParseIPPort(m)
				if a.Is6() == (s.ipv == 6) {
					ns.IPPorts = append(ns.IPPorts, nfsim.IPPort{Addr: a, Proto: pr, Port: po})
				}
			} else {
				p := netip.MustParsePrefix(m)
				if p.Addr().Is6() == (s.ipv == 6) {
					ns.Nets = append(ns.Nets, p)
				}
			}
		}
		out[name] = ns
	}
	return out
}

func c12BuildNF(s *c12State, cfg rules.Config, marks c12Marks, nft bool) (*c12NF, error) {
	rr := rules.NewRenderer(cfg, nft)
	var tierGroups []rules.TierPolicyGroups
	var chains []*generictables.Chain
	out := &c12NF{marks: marks}
	for _, ti := range s.ep.Tiers {
		tg := rules.TierPolicyGroups{
			Name:            ti.Name,
			DefaultAction:   ti.DefaultAction,
			IngressPolicies: c12GroupPolicies(s, ti.IngressPolicies, rules.PolicyDirectionInbound),
			EgressPolicies:  c12GroupPolicies(s, ti.EgressPolicies, rules.PolicyDirectionOutbound),
		}
		tierGroups = append(tierGroups, tg)
		for _, g := range append(append([]*rules.PolicyGroup{}, tg.IngressPolicies...), tg.EgressPolicies...) {
			if !g.ShouldBeInlined() {
				chains = append(chains, rr.PolicyGroupToIptablesChains(g)...)
				out.groupChains++
			}
		}
	}
	for _, t := range s.tiers {
		for _, p := range t.Policies {
			id := types.ProtoToPolicyID(p.ID)
			chains = append(chains, rr.PolicyToIptablesChains(&id, p.Pol, uint8(s.ipv))...)
		}
	}
	for _, p := range s.profiles {
		in, o := rr.ProfileToIptablesChains(&types.ProfileID{Name: p.Name}, p.Prof, uint8(s.ipv))
		chains = append(chains, in, o)
	}
	epChains := rr.WorkloadEndpointToIptablesChains(s.ep.Name, nil, true, tierGroups, s.ep.ProfileIds, nil)
	if len(epChains) < 2 {
		return nil, fmt.Errorf("WorkloadEndpointToIptablesChains returned %d chains", len(epChains))
	}
	chains = append(chains, epChains...)
	if nft {
		rs, tbl := nfsim.NewNFT(s.ipv, "filter")
		tbl.UpdateChains(chains)
		out.rs, out.toWl, out.fromWl = rs, nfsim.NFTName("filter", epChains[0].Name), nfsim.NFTName("filter", epChains[1].Name)
	} else {
		rs, tbl := nfsim.NewIptables(s.ipv)
		tbl.UpdateChains(chains)
		out.rs, out.toWl, out.fromWl = rs, epChains[0].Name, epChains[1].Name
	}
	out.rs.Sets = c12NFSets(s, cfg, nft)
	return out, out.rs.Err()
}

type c12Verdict int

const (
	c12Deny c12Verdict = iota
	c12Allow
	c12NoVerdict
)

func (v c12Verdict) String() string { return [...]string{"DENY", "ALLOW", "NO-VERDICT"}[v] }

func (n *c12NF) run(p refpol.Packet, inbound bool, mark0 uint32) (c12Verdict, string, error) {
	entry := n.fromWl
	inIf, outIf := "cali1234", "eth0"
	if inbound {
		entry, inIf, outIf = n.toWl, "eth0", "cali1234"
	}
	res, err := n.rs.Run(entry, &nfsim.Packet{IPVersion: p.IPVersion, Proto: p.Proto, Src: p.Src, Dst: p.Dst, SrcPort: p.SrcPort, DstPort: p.DstPort,
		ICMPType: p.ICMPType, ICMPCode: p.ICMPCode, InIf: inIf, OutIf: outIf, Mark: mark0, CTState: "NEW", LimitOK: true})
	if err != nil {
		return c12NoVerdict, "", err
	}
	detail := fmt.Sprintf("%s mark-out=%#x final=%v", res.Verdict, res.Mark, res.Final)
	switch {
	case res.Verdict == nfsim.VerdictDrop || res.Verdict == nfsim.VerdictReject:
		return c12Deny, detail, nil
	case res.Verdict == nfsim.VerdictReturn && res.Mark&n.marks.Accept != 0:
		return c12Allow, detail, nil
	}
	return c12NoVerdict, detail, nil
}

// ---- implementation 3: BPF policy program via bpfvm ----

type c12BPF struct {
	env   *bpfvm.PolicyEnv
	entry map[bool]asm.Insns // by inbound
	progs map[bool]int
}

// c12ExtractRules is bpfEndpointManager.extractRules (extractTiers with EndTierDrop + extractProfiles).
func c12ExtractRules(s *c12State, inbound bool) polprog.Rules {
	var r polprog.Rules
	mid := uint64(0x1000)
	for ti, tier := range s.ep.Tiers {
		pols := tier.EgressPolicies
		if inbound {
			pols = tier.IngressPolicies
		}
		if len(pols) == 0 {
			continue
		}
		stagedOnly := true
		pt := polprog.Tier{Name: tier.Name, Policies: make([]polprog.Policy, len(pols))}
		for i, id := range pols {
			if model.KindIsStaged(id.Kind) {
				continue
			}
			stagedOnly = false
			pol := s.policy(id).Pol
			prules := pol.OutboundRules
			if inbound {
				prules = pol.InboundRules
			}
			pp := polprog.Policy{Name: id.Name, Namespace: id.Namespace, Kind: id.Kind, Rules: make([]polprog.Rule, len(prules))}
			for ri, pr := range prules {
				mid++
				pp.Rules[ri] = polprog.Rule{Rule: pr, MatchID: mid}
			}
			pt.Policies[i] = pp
		}
		pt.EndRuleID = uint64(0xE000 + ti)
		if !stagedOnly && tier.DefaultAction != string(v3.Pass) {
			pt.EndAction = polprog.TierEndDeny
		} else {
			pt.EndAction = polprog.TierEndPass
		}
		r.Tiers = append(r.Tiers, pt)
	}
	if n := len(s.ep.ProfileIds); n > 0 {
		r.Profiles = make([]polprog.Profile, n)
		for i, name := range s.ep.ProfileIds {
			var prof *proto.Profile
			for _, p := range s.profiles {
				if p.Name == name {
					prof = p.Prof
				}
			}
			prules := prof.OutboundRules
			if inbound {
				prules = prof.InboundRules
			}
			pp := polprog.Profile{Name: name, Rules: make([]polprog.Rule, len(prules))}
			for ri, pr := range prules {
				mid++
				pp.Rules[ri] = polprog.Rule{Rule: pr, MatchID: mid}
			}
			r.Profiles[i] = pp
		}
	}
	r.NoProfileMatchID = 0xDEAD
	// wepApplyPolicy: no host-* endpoint here; normal host policy is always suppressed on workload
	// interfaces.
	r.SuppressNormalHostPolicy = true
	return r
}

type c12BPFOpts struct {
	FlowLogs, UseJumps bool
	AllowIdx, DenyIdx  int
	PolIdx             int
}

func c12BuildBPF(s *c12State, o c12BPFOpts) (out *c12BPF, err error) {
	defer func() {
		if r := recover(); r != nil {
			err = fmt.Errorf("polprog.Builder.Instructions panicked: %v", r)
		}
	}()
	alloc := idalloc.New()
	ids := map[string]uint64{}
	for _, set := range s.sets {
		ids[set.ID] = alloc.GetOrAlloc(set.ID)
	}
	env := bpfvm.NewPolicyEnv(s.ipv == 6, false, o.AllowIdx, o.DenyIdx, 0)
	for _, set := range s.sets {
		for _, m := range set.Members {
			if _, e := env.AddIPSetMember(ids[set.ID], m); e != nil {
				return nil, fmt.Errorf("HARNESS-GAP: cannot load ip set member %q: %v", m, e)
			}
		}
	}
	out = &c12BPF{env: env, entry: map[bool]asm.Insns{}, progs: map[bool]int{}}
	for _, inbound := range []bool{true, false} {
		polIdx := o.PolIdx
		if !inbound {
			polIdx++ // the two directions of an interface have their own jump-map entry points
		}
		opts := []polprog.Option{polprog.WithPolicyMapIndexAndStride(polIdx, jump.TCMaxEntryPoints)}
		if o.UseJumps {
			opts = append(opts, polprog.WithAllowDenyJumps(o.AllowIdx, o.DenyIdx))
		}
		if s.ipv == 6 {
			opts = append(opts, polprog.WithIPv6())
		}
		if o.FlowLogs {
			opts = append(opts, polprog.WithFlowLogs())
		}
		b := polprog.NewBuilder(alloc, maps.FD(bpfvm.FDIPSets), maps.FD(bpfvm.FDState), maps.FD(bpfvm.FDStaticMap), maps.FD(bpfvm.FDPolicyMap), opts...)
		progs, e := b.Instructions(c12ExtractRules(s, inbound))
		if e != nil {
			return nil, fmt.Errorf("polprog.Builder.Instructions failed: %v", e)
		}
		entry, e := env.InstallPolicy(progs, polIdx, jump.TCMaxEntryPoints)
		if e != nil {
			return nil, fmt.Errorf("HARNESS-GAP: cannot install policy programs: %v", e)
		}
		out.entry[inbound] = entry
		out.progs[inbound] = len(progs)
	}
	return out, nil
}

func (b *c12BPF) run(p refpol.Packet, inbound bool) (c12Verdict, string, error) {
	pkt := bpfvm.PolicyPacket{Proto: p.Proto, Src: p.Src, DstPreNAT: p.Dst, DstPostNAT: p.Dst, IPDst: p.Dst,
		SPort: p.SrcPort, PreNATDPort: p.DstPort, PostNATDPort: p.DstPort, DPortOrICMP: p.DstPort}
	if p.Proto == refpol.ProtoICMP || p.Proto == refpol.ProtoICMPv6 {
		pkt.SetICMP(p.ICMPType, p.ICMPCode)
	}
	res, err := b.env.Run(b.entry[inbound], pkt)
	if err != nil {
		return c12NoVerdict, "", err
	}
	detail := fmt.Sprintf("%v pol_rc=%d %s", res.Verdict, res.PolRC, res.Detail)
	switch res.Verdict {
	case bpfvm.VerdictAllow:
		return c12Allow, detail, nil
	case bpfvm.VerdictDeny:
		return c12Deny, detail, nil
	}
	return c12NoVerdict, detail, nil
}

// ---- implementation 4: application-layer policy checker ----

type c12Flow struct {
	src, dst     net.IP
	sport, dport int
	proto        int
}

func (f *c12Flow) GetSourceIP() net.IP                { return f.src }
func (f *c12Flow) GetDestIP() net.IP                  { return f.dst }
func (f *c12Flow) GetSourcePort() int                 { return f.sport }
func (f *c12Flow) GetDestPort() int                   { return f.dport }
func (f *c12Flow) GetProtocol() int                   { return f.proto }
func (f *c12Flow) GetHttpMethod() *string             { return nil }
func (f *c12Flow) GetHttpPath() *string               { return nil }
func (f *c12Flow) GetSourcePrincipal() *string        { return nil }
func (f *c12Flow) GetDestPrincipal() *string          { return nil }
func (f *c12Flow) GetSourceLabels() map[string]string { return nil }
func (f *c12Flow) GetDestLabels() map[string]string   { return nil }

var _ checker.Flow = (*c12Flow)(nil)

func c12BuildStore(s *c12State) *policystore.PolicyStore {
	store := policystore.NewPolicyStore()
	for _, set := range s.sets {
		store.ProcessUpdate("", &proto.ToDataplane{Payload: &proto.ToDataplane_IpsetUpdate{
			IpsetUpdate: &proto.IPSetUpdate{Id: set.ID, Type: set.Type, Members: append([]string(nil), set.initial()...)}}})
	}
	for _, set := range s.sets {
		for _, d := range set.Deltas {
			store.ProcessUpdate("", &proto.ToDataplane{Payload: &proto.ToDataplane_IpsetDeltaUpdate{
				IpsetDeltaUpdate: &proto.IPSetDeltaUpdate{Id: set.ID, AddedMembers: append([]string(nil), d.Added...), RemovedMembers: append([]string(nil), d.Removed...)}}})
		}
	}
	for _, t := range s.tiers {
		for _, p := range t.Policies {
			store.ProcessUpdate("", &proto.ToDataplane{Payload: &proto.ToDataplane_ActivePolicyUpdate{
				ActivePolicyUpdate: &proto.ActivePolicyUpdate{Id: p.ID, Policy: p.Pol}}})
		}
	}
	for _, p := range s.profiles {
		store.ProcessUpdate("", &proto.ToDataplane{Payload: &proto.ToDataplane_ActiveProfileUpdate{
			ActiveProfileUpdate: &proto.ActiveProfileUpdate{Id: &proto.ProfileID{Name: p.Name}, Profile: p.Prof}}})
	}
	store.ProcessUpdate("", &proto.ToDataplane{Payload: &proto.ToDataplane_WorkloadEndpointUpdate{
		WorkloadEndpointUpdate: &proto.WorkloadEndpointUpdate{
			Id:       &proto.WorkloadEndpointID{OrchestratorId: "k8s", WorkloadId: "ns1/pod", EndpointId: "eth0"},
			Endpoint: s.ep}}})
	store.ProcessUpdate("", &proto.ToDataplane{Payload: &proto.ToDataplane_InSync{InSync: &proto.InSync{}}})
	return store
}

func c12NetIP(a netip.Addr, wide bool) net.IP {
	if a.Is4() && !wide {
		b := a.As4()
		return net.IP(b[:])
	}
	b := a.As16()
	return net.IP(b[:])
}

func c12RunEvaluate(store *policystore.PolicyStore, p refpol.Packet, inbound, wideIP bool) (c12Verdict, string, error) {
	dir := rules.RuleDirEgress
	if inbound {
		dir = rules.RuleDirIngress
	}
	flow := &c12Flow{src: c12NetIP(p.Src, wideIP), dst: c12NetIP(p.Dst, wideIP), sport: int(p.SrcPort), dport: int(p.DstPort), proto: int(p.Proto)}
	trace, err := checker.Evaluate(checker.EnforcedOnly, dir, store, store.Endpoint, flow)
	if err != nil {
		return c12NoVerdict, "", err
	}
	// checkTiers sets OK only together with appending an Allow rule id as the last trace element;
	// every other path leaves PERMISSION_DENIED.
	detail := fmt.Sprintf("trace=%v", trace)
	if n := len(trace); n > 0 && trace[n-1] != nil && trace[n-1].Action == rules.RuleActionAllow {
		return c12Allow, detail, nil
	}
	return c12Deny, detail, nil
}

func c12SocketAddr(a netip.Addr, port uint16, udp bool) *core.Address {
	pr := core.SocketAddress_TCP
	if udp {
		pr = core.SocketAddress_UDP
	}
	return &core.Address{Address: &core.Address_SocketAddress{SocketAddress: &core.SocketAddress{
		Address: a.String(), Protocol: pr, PortSpecifier: &core.SocketAddress_PortValue{PortValue: uint32(port)}}}}
}

// c12RunALPCheck is Dikastes' path: an Envoy CheckRequest for an inbound TCP/UDP connection.
func c12RunALPCheck(store *policystore.PolicyStore, p refpol.Packet) (c12Verdict, string, error) {
	req := &authz.CheckRequest{Attributes: &authz.AttributeContext{
		Source:      &authz.AttributeContext_Peer{Address: c12SocketAddr(p.Src, p.SrcPort, p.Proto == 17)},
		Destination: &authz.AttributeContext_Peer{Address: c12SocketAddr(p.Dst, p.DstPort, p.Proto == 17)},
	}}
	resp, err := checker.NewALPCheckProvider().Check(store, req)
	if err != nil {
		return c12NoVerdict, "", err
	}
	detail := fmt.Sprintf("status=%d %s", resp.GetStatus().GetCode(), resp.GetStatus().GetMessage())
	switch resp.GetStatus().GetCode() {
	case checker.OK:
		return c12Allow, detail, nil
	case checker.PERMISSION_DENIED:
		return c12Deny, detail, nil
	}
	return c12NoVerdict, detail, nil
}

// ---- reference (labelling and classification only) ----

func c12RefSets(s *c12State) refpol.MapSets {
	m := map[string]*refpol.IPSet{}
	for _, set := range s.sets {
		rs := &refpol.IPSet{}
		for _, mem := range set.Members {
			if set.Type == proto.IPSetUpdate_IP_AND_PORT {
				a, pr, po := c12ParseIPPort(mem)
				if a.Is6() == (s.ipv == 6) {
					rs.IPPorts = append(rs.IPPorts, refpol.IPPort{Addr: a, Proto: pr, Port: po})
				}
			} else {
				p := netip.MustParsePrefix(mem)
				if p.Addr().Is6() == (s.ipv == 6) {
					rs.Nets = append(rs.Nets, p)
				}
			}
		}
		m[set.ID] = rs
	}
	if s.ipv == 6 {
		return refpol.MapSets{V6: m}
	}
	return refpol.MapSets{V4: m}
}

func c12RefModel(s *c12State) ([]refpol.Tier, []refpol.Profile) {
	var tiers []refpol.Tier
	for _, t := range s.tiers {
		rt := refpol.Tier{Name: t.Name, DefaultAction: t.DefaultAction}
		for _, p := range t.Policies {
			rt.Policies = append(rt.Policies, refpol.Policy{Name: p.ID.Name, Staged: model.KindIsStaged(p.ID.Kind), AppliesInbound: p.In, AppliesOutbound: p.Out,
				InboundRules: p.Pol.InboundRules, OutboundRules: p.Pol.OutboundRules})
		}
		tiers = append(tiers, rt)
	}
	var profs []refpol.Profile
	for _, p := range s.profiles {
		profs = append(profs, refpol.Profile{Name: p.Name, InboundRules: p.Prof.InboundRules, OutboundRules: p.Prof.OutboundRules})
	}
	return tiers, profs
}

// ---- probe packets on the boundaries of the state's own fields ----

type c12Cands struct {
	protos       []uint8
	src, dst     []netip.Addr
	sport, dport []uint16
}

func c12Restrict(r *proto.Rule, upto int) *proto.Rule {
	c := googleproto.Clone(r).(*proto.Rule)
	if upto < 4 {
		c.DstPorts, c.NotDstPorts, c.DstNamedPortIpSetIds, c.NotDstNamedPortIpSetIds, c.DstIpPortSetIds = nil, nil, nil, nil, nil
	}
	if upto < 3 {
		c.SrcPorts, c.NotSrcPorts, c.SrcNamedPortIpSetIds, c.NotSrcNamedPortIpSetIds = nil, nil, nil, nil
	}
	if upto < 2 {
		c.DstNet, c.NotDstNet, c.DstIpSetIds, c.NotDstIpSetIds = nil, nil, nil, nil
	}
	if upto < 1 {
		c.SrcNet, c.NotSrcNet, c.SrcIpSetIds, c.NotSrcIpSetIds = nil, nil, nil, nil
	}
	return c
}

func c12BuildCands(s *c12State, all []*proto.Rule) *c12Cands {
	c := &c12Cands{}
	ipv := s.ipv
	ps := map[uint8]bool{}
	addP := func(p uint8) {
		if !ps[p] {
			ps[p] = true
			c.protos = append(c.protos, p)
		}
	}
	icmp := uint8(1)
	if ipv == 6 {
		icmp = 58
	}
	for _, p := range []uint8{6, 6, 17, 132, icmp, 136, 47} {
		addP(p)
	}
	addrs := func(dst *[]netip.Addr) func(netip.Addr) {
		seen := map[netip.Addr]bool{}
		return func(a netip.Addr) {
			if a.IsValid() && a.Is6() == (ipv == 6) && !seen[a] {
				seen[a] = true
				*dst = append(*dst, a)
			}
		}
	}
	addS, addD := addrs(&c.src), addrs(&c.dst)
	edge := func(add func(netip.Addr), p netip.Prefix) {
		if p.Addr().Is6() != (ipv == 6) {
			return
		}
		first, last := p.Masked().Addr(), c12LastAddr(p.Masked())
		add(first)
		add(last)
		add(first.Prev())
		add(last.Next())
		if first.Next().IsValid() && p.Contains(first.Next()) {
			add(first.Next())
		}
	}
	portsOf := func(dst *[]uint16) func(int32) {
		seen := map[int32]bool{}
		return func(p int32) {
			if p >= 0 && p <= 65535 && !seen[p] {
				seen[p] = true
				*dst = append(*dst, uint16(p))
			}
		}
	}
	addSP, addDP := portsOf(&c.sport), portsOf(&c.dport)
	setAddrs := func(add func(netip.Addr), addPort func(int32), ids []string) {
		for _, id := range ids {
			set := s.set(id)
			for _, m := range set.Members {
				if set.Type == proto.IPSetUpdate_IP_AND_PORT {
					a, _, po := c12ParseIPPort(m)
					add(a)
					addPort(int32(po))
					addPort(int32(po) + 1)
				} else {
					edge(add, netip.MustParsePrefix(m))
				}
			}
		}
	}
	for _, r := range all {
		for _, n := range append(append([]string{}, r.SrcNet...), r.NotSrcNet...) {
			edge(addS, netip.MustParsePrefix(n))
		}
		for _, n := range append(append([]string{}, r.DstNet...), r.NotDstNet...) {
			edge(addD, netip.MustParsePrefix(n))
		}
		setAddrs(addS, addSP, append(append(append(append([]string{}, r.SrcIpSetIds...), r.NotSrcIpSetIds...), r.SrcNamedPortIpSetIds...), r.NotSrcNamedPortIpSetIds...))
		setAddrs(addD, addDP, append(append(append(append(append([]string{}, r.DstIpSetIds...), r.NotDstIpSetIds...), r.DstNamedPortIpSetIds...), r.NotDstNamedPortIpSetIds...), r.DstIpPortSetIds...))
		for _, pr := range append(append([]*proto.PortRange{}, r.SrcPorts...), r.NotSrcPorts...) {
			for _, x := range []int32{pr.First - 1, pr.First, pr.Last, pr.Last + 1} {
				addSP(x)
			}
		}
		for _, pr := range append(append([]*proto.PortRange{}, r.DstPorts...), r.NotDstPorts...) {
			for _, x := range []int32{pr.First - 1, pr.First, pr.Last, pr.Last + 1} {
				addDP(x)
			}
		}
		if r.Protocol != nil {
			addP(refpol.ProtocolNumber(r.Protocol))
		}
		if r.NotProtocol != nil {
			addP(refpol.ProtocolNumber(r.NotProtocol))
		}
	}
	pool := c12PoolFor(ipv)
	for _, a := range []netip.Addr{pool[0], pool[5], pool[len(pool)-1]} {
		addS(a)
		addD(a)
	}
	for _, p := range []int32{0, 80, 65535, 31337} {
		addSP(p)
		addDP(p)
	}
	return c
}

func c12Pick[T any](t *rapid.T, label string, cands []T, ok func(T) bool) T {
	var sat []T
	for _, c := range cands {
		if ok(c) {
			sat = append(sat, c)
		}
	}
	if len(sat) > 0 && len(sat) < len(cands) && c12Chance(t, label+"-steer", 88) {
		return c12From(t, label, sat)
	}
	return c12From(t, label, cands)
}

// c12DrawPacket draws a packet that (with high probability) matches the target rule, by choosing
// each field among the boundary candidates that keep the rule's clauses so far satisfied.  refpol
// is used here for steering only.
func c12DrawPacket(t *rapid.T, label string, s *c12State, c *c12Cands, target *proto.Rule, sets refpol.MapSets) refpol.Packet {
	pool := c12PoolFor(s.ipv)
	p := refpol.Packet{IPVersion: s.ipv, Src: pool[0], Dst: pool[0]}
	if target == nil {
		target = &proto.Rule{}
	}
	var restricted [5]*proto.Rule
	for i := range restricted {
		restricted[i] = c12Restrict(target, i)
	}
	m := func(dim int) bool { return refpol.Match(restricted[dim], &p, sets) }

	// "Member mode": put one side of the packet exactly on a member of an IP+port set the rule
	// refers to (named port, negated named port, service), so that positive and negated set
	// clauses are probed on their members and not only around them.
	var pinProto, pinSrc, pinDst bool
	type ref struct {
		src bool
		id  string
	}
	var refs []ref
	for _, id := range append(append([]string{}, target.SrcNamedPortIpSetIds...), target.NotSrcNamedPortIpSetIds...) {
		refs = append(refs, ref{true, id})
	}
	for _, id := range append(append(append([]string{}, target.DstNamedPortIpSetIds...), target.NotDstNamedPortIpSetIds...), target.DstIpPortSetIds...) {
		refs = append(refs, ref{false, id})
	}
	if len(refs) > 0 && c12Chance(t, label+"-member-mode", 45) {
		r := refs[c12Idx(t, label+"-member-ref", len(refs))]
		var members []string
		for _, mem := range s.set(r.id).Members {
			if a, _, _ := c12ParseIPPort(mem); a.Is6() == (s.ipv == 6) {
				members = append(members, mem)
			}
		}
		if len(members) > 0 {
			a, pr, po := c12ParseIPPort(members[c12Idx(t, label+"-member", len(members))])
			p.Proto, pinProto = pr, true
			if r.src {
				p.Src, p.SrcPort, pinSrc = a, po, true
			} else {
				p.Dst, p.DstPort, pinDst = a, po, true
			}
		}
	}
	if !pinProto {
		p.Proto = c12Pick(t, label+"-proto", c.protos, func(x uint8) bool { p.Proto = x; return m(0) })
	}
	if !pinSrc {
		p.Src = c12Pick(t, label+"-src", c.src, func(x netip.Addr) bool { p.Src = x; return m(1) })
	}
	if !pinDst {
		p.Dst = c12Pick(t, label+"-dst", c.dst, func(x netip.Addr) bool { p.Dst = x; return m(2) })
	}
	if refpol.HasPorts(p.Proto) || p.Proto == refpol.ProtoUDPLite {
		if !pinSrc {
			p.SrcPort = c12Pick(t, label+"-sport", c.sport, func(x uint16) bool { p.SrcPort = x; return m(3) })
		}
		if !pinDst {
			p.DstPort = c12Pick(t, label+"-dport", c.dport, func(x uint16) bool { p.DstPort = x; return m(4) })
		}
	}
	if (s.ipv == 4 && p.Proto == 1) || (s.ipv == 6 && p.Proto == 58) {
		p.ICMPType = c12From(t, label+"-icmptype", []uint8{0, 3, 8, 128})
		p.ICMPCode = c12From(t, label+"-icmpcode", []uint8{0, 1})
	}
	return p
}

// ---- one case ----

type c12Opinion struct {
	name    string
	verdict c12Verdict
	detail  string
}

// c12Impls is one endpoint policy state loaded into the four implementations.
type c12Impls struct {
	ipt, nft *c12NF
	bpf      *c12BPF
	store    *policystore.PolicyStore
}

func c12BuildAll(s *c12State, cfg rules.Config, marks c12Marks, bo c12BPFOpts) (*c12Impls, error) {
	im := &c12Impls{}
	var err error
	if im.ipt, err = c12BuildNF(s, cfg, marks, false); err != nil {
		return nil, fmt.Errorf("iptables rendering of the endpoint cannot be loaded: %w", err)
	}
	if im.nft, err = c12BuildNF(s, cfg, marks, true); err != nil {
		return nil, fmt.Errorf("nftables rendering of the endpoint cannot be loaded: %w", err)
	}
	if im.bpf, err = c12BuildBPF(s, bo); err != nil {
		return nil, fmt.Errorf("BPF policy program cannot be built: %w", err)
	}
	im.store = c12BuildStore(s)
	return im, nil
}

// opinions sends one packet through every implementation.  A non-nil error is a harness gap.
func (im *c12Impls) opinions(p refpol.Packet, inbound bool, mark0 uint32, wideIP bool) ([]c12Opinion, error) {
	var ops []c12Opinion
	var gap error
	add := func(name string, v c12Verdict, detail string, err error) {
		if err != nil {
			if strings.Contains(err.Error(), "HARNESS-GAP") && gap == nil {
				gap = err
			}
			detail = "ERROR: " + err.Error()
			v = c12NoVerdict
		}
		ops = append(ops, c12Opinion{name, v, detail})
	}
	v, d, e := im.ipt.run(p, inbound, mark0)
	add("iptables", v, d, e)
	v, d, e = im.nft.run(p, inbound, mark0)
	add("nftables", v, d, e)
	v, d, e = im.bpf.run(p, inbound)
	add("bpf", v, d, e)
	v, d, e = c12RunEvaluate(im.store, p, inbound, wideIP)
	add("checker.Evaluate", v, d, e)
	if inbound && (p.Proto == 6 || p.Proto == 17) {
		v, d, e = c12RunALPCheck(im.store, p)
		add("checker.ALPCheck", v, d, e)
	}
	return ops, gap
}

func c12Agree(ops []c12Opinion) bool {
	for _, o := range ops {
		if o.verdict == c12NoVerdict || o.verdict != ops[0].verdict {
			return false
		}
	}
	return true
}

func c12FormatOpinions(ops []c12Opinion, ref c12Verdict) string {
	var b strings.Builder
	for _, o := range ops {
		odd := ""
		if ref != c12NoVerdict && o.verdict != ref {
			odd = "   <== odd one out (differs from the reference opinion)"
		}
		fmt.Fprintf(&b, "  %-17s %-10s %s%s\n", o.name, o.verdict, o.detail, odd)
	}
	return b.String()
}

// dumpVisited renders only the chains the packet entered.
func (n *c12NF) dumpVisited(p refpol.Packet, inbound bool, mark0 uint32) string {
	entry := n.fromWl
	if inbound {
		entry = n.toWl
	}
	res, err := n.rs.Run(entry, &nfsim.Packet{IPVersion: p.IPVersion, Proto: p.Proto, Src: p.Src, Dst: p.Dst, SrcPort: p.SrcPort, DstPort: p.DstPort,
		ICMPType: p.ICMPType, ICMPCode: p.ICMPCode, InIf: "cali1234", OutIf: "eth0", Mark: mark0, CTState: "NEW", LimitOK: true})
	if err != nil {
		return n.rs.Dump()
	}
	want := map[string]bool{}
	for _, c := range res.Chains {
		want["chain "+c] = true
	}
	var b strings.Builder
	var chain []string
	flush := func() {
		for i, l := range chain {
			if len(chain) > 60 && i > 5 && i < len(chain)-5 {
				if i == 6 {
					fmt.Fprintf(&b, "  ... %d more rules ...\n", len(chain)-11)
				}
				continue
			}
			b.WriteString(l + "\n")
		}
		chain = nil
	}
	keep := false
	for _, line := range strings.Split(n.rs.Dump(), "\n") {
		if !strings.HasPrefix(line, " ") {
			flush()
			keep = want[line]
		}
		if keep {
			chain = append(chain, line)
		}
	}
	flush()
	return b.String()
}

func c12Bucket(n int) string {
	switch {
	case n <= 2:
		return fmt.Sprint(n)
	case n <= 5:
		return "3-5"
	default:
		return "6+"
	}
}

func c12RunCase(t *rapid.T, rec *ev.Recorder, caseNo int) {
	ipv := rapid.SampledFrom([]int{4, 6}).Draw(t, "ipVersion")
	marks := rapid.SampledFrom(c12MarkLayouts).Draw(t, "markLayout")
	flowLogs := rapid.Bool().Draw(t, "flowLogs")
	denyAction := rapid.SampledFrom([]string{"DROP", "REJECT"}).Draw(t, "denyAction")
	bo := c12BPFOpts{FlowLogs: flowLogs, UseJumps: rapid.Bool().Draw(t, "bpfAllowDenyJumps")}
	bo.AllowIdx = rapid.IntRange(0, 40).Draw(t, "bpfAllowIdx")
	bo.DenyIdx = bo.AllowIdx + 1 + rapid.IntRange(0, 40).Draw(t, "bpfDenyIdxDelta")
	bo.PolIdx = rapid.IntRange(0, jump.TCMaxEntryPoints-2).Draw(t, "bpfPolIdx")

	s := c12GenState(t, ipv)
	cfg := c12RulesConfig(marks, flowLogs, denyAction)

	im, err := c12BuildAll(s, cfg, marks, bo)
	if err != nil {
		t.Fatalf("C12: %v\n%s", err, s.describe())
	}
	ipt, nft, bpf := im.ipt, im.nft, im.bpf
	refSets := c12RefSets(s)
	refTiers, refProfiles := c12RefModel(s)

	// Rules per direction (for targeting probe packets).
	var inRules, outRules []*proto.Rule
	for _, tier := range s.tiers {
		for _, p := range tier.Policies {
			if model.KindIsStaged(p.ID.Kind) || p.Filler {
				continue
			}
			inRules = append(inRules, p.Pol.InboundRules...)
			outRules = append(outRules, p.Pol.OutboundRules...)
		}
	}
	for _, p := range s.profiles {
		inRules = append(inRules, p.Prof.InboundRules...)
		outRules = append(outRules, p.Prof.OutboundRules...)
	}
	cands := map[bool]*c12Cands{true: c12BuildCands(s, inRules), false: c12BuildCands(s, outRules)}

	nPackets := ev.Scale(12, 24)
	if s.big {
		nPackets = 16
	}
	kinds := map[string]int{}
	nontrivialPkts, allows, denies, alpChecks := 0, 0, 0, 0
	var samplePkt string
	for i := 0; i < nPackets; i++ {
		pl := fmt.Sprintf("pkt[%d]", i)
		inbound := rapid.Bool().Draw(t, pl+"-inbound")
		if s.big {
			inbound = s.bigInbound // every probe goes through the big program
		}
		dirRules := outRules
		if inbound {
			dirRules = inRules
		}
		var target *proto.Rule
		if s.big && c12Chance(t, pl+"-target-big", 75) {
			target = s.bigRules[c12Idx(t, pl+"-target-bigrule", len(s.bigRules))]
		} else if len(dirRules) > 0 && c12Chance(t, pl+"-targeted", 85) {
			target = dirRules[c12Idx(t, pl+"-target-rule", len(dirRules))]
		}
		p := c12DrawPacket(t, pl, s, cands[inbound], target, refSets)
		mark0 := uint32(c12Idx(t, pl+"-mark", 1<<32)) &^ marks.felix()
		wideIP := rapid.Bool().Draw(t, pl+"-ip16")

		ops, err := im.opinions(p, inbound, mark0, wideIP)
		if err != nil {
			t.Fatalf("%v\npacket %v inbound=%v\n%s", err, p, inbound, s.describe())
		}
		if inbound && (p.Proto == 6 || p.Proto == 17) {
			alpChecks++
		}

		dir := refpol.Outbound
		if inbound {
			dir = refpol.Inbound
		}
		w := refpol.VerdictWhere(refTiers, refProfiles, dir, &p, refSets, refpol.Options{})

		if !c12Agree(ops) {
			var b strings.Builder
			fmt.Fprintf(&b, "verdicts for packet: %v direction=%v (IPv%d)\n", p, dir, ipv)
			ref := c12NoVerdict
			switch w.Decision {
			case refpol.Allow:
				ref = c12Allow
			case refpol.Deny:
				ref = c12Deny
			}
			b.WriteString(c12FormatOpinions(ops, ref))
			var hdr strings.Builder
			fmt.Fprintf(&hdr, "C12 violated (case %d of this run): the implementations disagree on the verdict for the same endpoint policy state and packet\n", caseNo)
			fmt.Fprintf(&hdr, "state:\n%s", s.describe())
			fmt.Fprintf(&hdr, "iptables chains visited:\n%snftables chains visited:\n%s", ipt.dumpVisited(p, inbound, mark0), nft.dumpVisited(p, inbound, mark0))
			fmt.Fprintf(&b, "  reference opinion (labelling only): %v %+v\n", w.Decision, w)
			t.Fatalf("%s%s", hdr.String(), b.String())
		}

		// Classification (evidence only).
		kind := "no-match-final-deny"
		switch {
		case w.Decision == refpol.Unspecified:
			kind = "unspecified"
		case w.Profile >= 0:
			kind = "profile-rule-" + w.Decision.String()
		case w.Rule >= 0:
			kind = fmt.Sprintf("tier%s-rule-%s", c12If(w.Tier > 0, "2+"), w.Decision)
		case w.ByTierDefault:
			kind = "tier-default-deny" + c12If(w.Tier > 0, "-tier2+")
		}
		if w.PassedTiers > 0 {
			kind += "+passed"
		}
		kinds[kind]++
		trivial := w.Rule < 0 && w.PassedTiers == 0
		if !trivial {
			nontrivialPkts++
		}
		if ops[0].verdict == c12Allow {
			allows++
		} else {
			denies++
		}
		if samplePkt == "" || (!trivial && ops[0].verdict == c12Allow) {
			samplePkt = fmt.Sprintf("%v %v => %v (%s)", dir, p, ops[0].verdict, kind)
		}
	}

	// ---- evidence ----
	staged, pols, groupChains := 0, 0, ipt.groupChains
	named, svc, ipset, longPrefix := false, false, false, false
	for _, tier := range s.tiers {
		for _, p := range tier.Policies {
			pols++
			if model.KindIsStaged(p.ID.Kind) {
				staged++
			}
		}
	}
	for _, r := range append(append([]*proto.Rule{}, inRules...), outRules...) {
		named = named || len(r.SrcNamedPortIpSetIds)+len(r.DstNamedPortIpSetIds)+len(r.NotSrcNamedPortIpSetIds)+len(r.NotDstNamedPortIpSetIds) > 0
		svc = svc || len(r.DstIpPortSetIds) > 0
		ipset = ipset || len(r.SrcIpSetIds)+len(r.DstIpSetIds)+len(r.NotSrcIpSetIds)+len(r.NotDstIpSetIds) > 0
	}
	deltas, hostRemoved := 0, false
	for _, set := range s.sets {
		deltas += len(set.Deltas)
		hostRemoved = hostRemoved || set.HostRemovedNextToLongPrefix
	}
	for _, id := range s.netIDs {
		for _, m := range s.set(id).Members {
			p := netip.MustParsePrefix(m)
			if hb := p.Addr().BitLen() - p.Bits(); hb >= 1 && hb <= 7 {
				longPrefix = true
			}
		}
	}
	classes := []string{fmt.Sprintf("v%d", ipv), fmt.Sprintf("tiers-%d", len(s.tiers)), fmt.Sprintf("profiles-%d", len(s.profiles)),
		"policies-" + c12Bucket(pols), c12If(staged > 0, "staged-policy"), c12If(groupChains > 0, "policy-group-chain"),
		c12If(flowLogs, "flowlogs"), "deny-" + denyAction, c12If(named, "named-port-set"), c12If(svc, "service-ipport-set"), c12If(ipset, "ip-set"),
		c12If(longPrefix, "netset-member-prefix-25-31"), c12If(bpf.progs[true]+bpf.progs[false] > 2, "bpf-program-split"),
		c12If(s.big, "big-program"), c12If(s.big && 2*s.bigFillers+40 < 7992, "big-program-limit-crossed-in-port-rules"),
		c12If(deltas > 0, "ipset-delta-updates"), c12If(hostRemoved, "ipset-delta-removes-host-next-to-long-prefix"),
		c12If(allows > 0 && denies > 0, "both-allow-and-deny"), c12If(allows == 0, "all-deny"), c12If(alpChecks > 0, "alp-check-path"),
		c12If(nontrivialPkts == 0, "all-packets-trivial-deny")}
	var ks []string
	for k := range kinds {
		ks = append(ks, k)
		classes = append(classes, "decided-by-"+k)
	}
	sort.Strings(ks)
	var cl []string
	for _, c := range classes {
		if c != "" {
			cl = append(cl, c)
		}
	}
	shape := fmt.Sprintf("v%d/t%d/p%d/pol%s/st%v/g%v/big%v/d%v/%s", ipv, len(s.tiers), len(s.profiles), c12Bucket(pols), staged > 0, groupChains > 0, s.big, hostRemoved, strings.Join(ks, ","))
	rec.SizedCase(nontrivialPkts > 0, shape, len(inRules)+len(outRules), func() any {
		return map[string]any{"ip_version": ipv, "state": strings.Split(s.describe(), "\n"), "decisions": kinds, "example_packet": samplePkt,
			"bpf_programs": bpf.progs[true] + bpf.progs[false]}
	}, cl...)
}

func TestVerifC12DataplanesAgree(t *testing.T) {
	ev.Quiet()
	rec := ev.New("C12", "dataplanes",
		"each case: IP version, mark-bit layout, flow logs, deny action, BPF jump options, an IP-set universe (selector NET sets incl. other-family members and /25../31 CIDRs, service IP+port sets, named-port sets) whose contents reach the checker as an IPSetUpdate plus 0-3 IPSetDeltaUpdates (hosts appearing/disappearing next to long prefixes, long prefixes removed and re-added) while the other dataplanes get the final members, and a workload endpoint with 0-3 tiers (default action Deny/Pass, 1-7 policies each incl. staged kinds, ingress/egress types, selector groups) and 0-3 profiles; "+
			"rules limited to what iptables, nftables, BPF and the app-policy checker all support (protocol by name/number or negated, src/dst nets and negated nets, ports and negated ports, IP sets and negated IP sets, service sets on egress, named ports; allow/deny/pass in policies, allow/deny in profiles); "+
			"about 3% of the cases prepend a tier with 3900-4100 filler rules followed by rules with 15-40 (sometimes hundreds of) src/dst/negated ports so that the BPF program is split at the production jump limit, in about 40% of them inside a port list (16 probes, all through the big program, mostly on the listed ports); 12 (thorough 24) probe packets per case, both directions, drawn on the boundaries of the state's own fields (CIDR edges +-1, port range ends +-1, set members) and steered to match a chosen rule or to sit exactly on a member of an IP+port set it refers to; every packet goes through all four implementations. "+
			"Non-trivial = at least one packet is decided by an explicit rule or after a pass (not a plain no-match default deny); distinct = version/tier/profile/policy-count/staged/grouping shape plus the set of decision kinds",
		"differential oracle: no reference decides; refpol only labels the odd one out and classifies cases",
		"nfsim executes the rendered iptables/nft text, bpfvm executes the assembled BPF program; the harness replicates groupPolicies, extractTiers/extractProfiles and per-family IP-set member filtering",
		"iptables/nft verdict = DROP/REJECT vs return with the accept mark from the endpoint chain (ctstate NEW); BPF verdict = tail call into the allow/deny slot; checker verdict = last trace element is an Allow rule / CheckResponse status",
		"AllowVXLANPacketsFromWorkloads/AllowIPIPPacketsFromWorkloads are on so that the anti-encapsulation drops of the from-workload chain (not policy) stay out of the comparison")
	defer rec.Write()
	caseNo := 0 // diagnostic only (shown in failure messages); includes shrink re-executions
	rapid.Check(t, func(t *rapid.T) { caseNo++; c12RunCase(t, rec, caseNo) })
}

// ---- deterministic regression tests for the repaired findings (part of the unit's normal run) ----

func c12FixedState(ipv int, sets []*c12Set, in, out []*proto.Rule) *c12State {
	s := &c12State{ipv: ipv, sets: sets}
	id := &proto.PolicyID{Name: "p0", Kind: v3.KindGlobalNetworkPolicy}
	pol := &c12Policy{ID: id, In: true, Out: true, Selector: "all()", Pol: &proto.Policy{Tier: "default", InboundRules: in, OutboundRules: out}}
	s.tiers = []*c12Tier{{Name: "default", DefaultAction: "Deny", Policies: []*c12Policy{pol}}}
	s.ep = &proto.WorkloadEndpoint{State: "active", Name: "cali1234", Ipv4Nets: []string{"10.0.0.5/32"},
		Tiers: []*proto.TierInfo{{Name: "default", DefaultAction: "Deny", IngressPolicies: []*proto.PolicyID{id}, EgressPolicies: []*proto.PolicyID{id}}}}
	return s
}

// c12FixedRun requires agreement and, per packet, the stated verdict (so that a scenario cannot
// pass by everybody denying).
func c12FixedRun(t *testing.T, s *c12State, inbound bool, pkts []refpol.Packet, want []c12Verdict) {
	ev.Quiet()
	marks := c12MarkLayouts[0]
	im, err := c12BuildAll(s, c12RulesConfig(marks, false, "DROP"), marks, c12BPFOpts{AllowIdx: 1, DenyIdx: 2, PolIdx: 3})
	if err != nil {
		t.Fatalf("C12: %v\n%s", err, s.describe())
	}
	for i, p := range pkts {
		ops, err := im.opinions(p, inbound, 0, false)
		if err != nil {
			t.Fatalf("%v", err)
		}
		if !c12Agree(ops) || ops[0].verdict != want[i] {
			t.Errorf("C12 violated: the implementations disagree (or all differ from the scenario's stated verdict %v) for packet %v inbound=%v\n%sstate:\n%s",
				want[i], p, inbound, c12FormatOpinions(ops, want[i]), s.describe())
		}
	}
}

// A selector/network-set IP set with members whose prefix length is 25..31 / 121..127.
func TestVerifC12RegressionCheckerLongPrefix(t *testing.T) {
	a := netip.MustParseAddr
	sets := []*c12Set{{ID: "s:netset", Type: proto.IPSetUpdate_NET, Members: []string{"10.0.0.128/25", "10.0.1.0/24", "10.0.2.7/32", "10.0.3.4/31"}}}
	s := c12FixedState(4, sets, []*proto.Rule{{Action: "allow", SrcIpSetIds: []string{"s:netset"}}}, []*proto.Rule{{Action: "allow", NotDstIpSetIds: []string{"s:netset"}}})
	pk := func(src string) refpol.Packet {
		return refpol.Packet{IPVersion: 4, Proto: 6, Src: a(src), Dst: a("10.0.0.5"), SrcPort: 1000, DstPort: 80}
	}
	c12FixedRun(t, s, true, []refpol.Packet{pk("10.0.1.9"), pk("10.0.2.7"), pk("10.0.0.129"), pk("10.0.0.127"), pk("10.0.3.5"), pk("10.0.3.6")},
		[]c12Verdict{c12Allow, c12Allow, c12Allow, c12Deny, c12Allow, c12Deny})
	out := func(dst string) refpol.Packet {
		return refpol.Packet{IPVersion: 4, Proto: 17, Src: a("10.0.0.5"), Dst: a(dst), SrcPort: 1000, DstPort: 53}
	}
	c12FixedRun(t, s, false, []refpol.Packet{out("10.0.0.200"), out("10.0.0.100"), out("10.0.3.4")}, []c12Verdict{c12Deny, c12Allow, c12Deny})

	sets6 := []*c12Set{{ID: "s:netset", Type: proto.IPSetUpdate_NET, Members: []string{"fd00::80/121", "fd00::1:0/112"}}}
	s6 := c12FixedState(6, sets6, []*proto.Rule{{Action: "allow", SrcIpSetIds: []string{"s:netset"}}}, nil)
	s6.ep.Ipv4Nets, s6.ep.Ipv6Nets = nil, []string{"fd00::5/128"}
	pk6 := func(src string) refpol.Packet {
		return refpol.Packet{IPVersion: 6, Proto: 6, Src: a(src), Dst: a("fd00::5"), SrcPort: 1000, DstPort: 80}
	}
	c12FixedRun(t, s6, true, []refpol.Packet{pk6("fd00::81"), pk6("fd00::7f"), pk6("fd00::1:9")}, []c12Verdict{c12Allow, c12Deny, c12Allow})
}

// Named ports: the named-port IP sets hold "ip,proto:port" members.
func TestVerifC12RegressionCheckerNamedPort(t *testing.T) {
	a := netip.MustParseAddr
	sets := []*c12Set{
		{ID: "n:http", Type: proto.IPSetUpdate_IP_AND_PORT, Members: []string{"10.0.0.5,tcp:8080"}},
		{ID: "n:client", Type: proto.IPSetUpdate_IP_AND_PORT, Members: []string{"10.0.1.9,tcp:1000", "10.0.1.9,udp:1001"}},
	}
	in := []*proto.Rule{
		{Action: "deny", Protocol: c12ProtoName("tcp"), NotSrcNamedPortIpSetIds: []string{"n:client"}, DstPorts: []*proto.PortRange{{First: 443, Last: 443}}},
		{Action: "allow", Protocol: c12ProtoName("tcp"), DstNamedPortIpSetIds: []string{"n:http"}, DstPorts: []*proto.PortRange{{First: 443, Last: 443}}},
		{Action: "allow", SrcNamedPortIpSetIds: []string{"n:client"}, NotDstNamedPortIpSetIds: []string{"n:http"}},
	}
	s := c12FixedState(4, sets, in, nil)
	pk := func(pr uint8, src string, sport, dport uint16) refpol.Packet {
		return refpol.Packet{IPVersion: 4, Proto: pr, Src: a(src), Dst: a("10.0.0.5"), SrcPort: sport, DstPort: dport}
	}
	c12FixedRun(t, s, true, []refpol.Packet{
		pk(6, "10.0.1.8", 1000, 8080), // the named port
		pk(6, "10.0.1.8", 1000, 8081), // another port
		pk(6, "10.0.1.8", 1000, 443),  // numeric alternative, but source is not the named client port: denied by rule 0
		pk(6, "10.0.1.9", 1000, 443),  // from the named client port: rule 0 does not apply, rule 1 allows
		pk(17, "10.0.1.9", 1001, 53),  // rule 2: source named port (udp)
		pk(17, "10.0.1.9", 1000, 53),  // udp:1000 is not a member
		pk(6, "10.0.1.9", 1000, 9090), // rule 2 (dst is not the named port)
	}, []c12Verdict{c12Allow, c12Deny, c12Deny, c12Allow, c12Allow, c12Deny, c12Allow})
}
