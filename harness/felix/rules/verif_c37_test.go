package rules_test

// C37 (unit 2) — distinct policies, profiles, policy groups, endpoints and IP sets get distinct
// chain / set names, every name fits its kernel limit, and names are deterministic.
//
// Real code: rules.PolicyChainName / ProfileChainName / EndpointChainName / PolicyGroup.ChainName,
// ipsets.IPVersionConfig.NameForMainIPSet / NameForTempIPSet (+ nftables.LegalizeSetName).
//
// Identities are restricted to what real callers can produce:
//   - policies: Kind in the seven kinds known to types.PolicyID; namespace empty for the global
//     kinds and a DNS label for the namespaced ones; names from the validator's name grammar
//     (lower-case alphanumerics, '-', '.', alphanumeric at both ends) — so a policy identity never
//     contains '/' or '_';
//   - profiles: names from the same grammar (incl. the kns./ksa. forms);
//   - endpoints: interface names of 1..15 characters (IFNAMSIZ) from [a-zA-Z0-9_.:@+-] (the
//     validator's interface grammar plus characters the kernel allows), plus the wildcard
//     host-endpoint pseudo name "any-interface-at-all", with every prefix the renderer uses;
//   - policy groups: direction, selector text, list of policy identities;
//   - IP sets: IDs made the way calc.IPSetData.UniqueID makes them (hash.MakeUniqueID with "s", "n",
//     "svc", "svcnoport") plus the fixed IDs of rule_defs.go; temp-set indexes over the uint range.
// All chain names of one case (all classes, both directions) share one name space per dataplane
// flavour (iptables limit 28, nftables limit 256); set names share one per flavour (ipset limit 31).
// Collisions of the digest itself are not searched: identities differ in positions that the
// digest covers, never only beyond what a real digest could distinguish.

import (
	"fmt"
	"math"
	"sort"
	"strings"
	"testing"

	v3 "github.com/projectcalico/api/pkg/apis/projectcalico/v3"
	"pgregory.net/rapid"

	"github.com/projectcalico/calico/felix/ipsets"
	"github.com/projectcalico/calico/felix/nftables"
	"github.com/projectcalico/calico/felix/rules"
	"github.com/projectcalico/calico/felix/types"
	"github.com/projectcalico/calico/libcalico-go/lib/backend/model"
	"github.com/projectcalico/calico/libcalico-go/lib/hash"
	"github.com/projectcalico/calico/verifkit/ev"
)

const (
	c37IptablesLimit = 28
	c37NftLimit      = 256
	c37IPSetLimit    = 31
)

// TestVerifC37RegressNftLongPolicyName: regression test for the (fixed) finding
// c37-shorten-needs-more-than-43-digest-chars-panics.  A Kubernetes NetworkPolicy may have a 253
// character name; in nftables mode (limit 256) naming its chain used to panic inside
// hash.GetLengthLimitedID.
func TestVerifC37RegressNftLongPolicyName(t *testing.T) {
	ev.Quiet()
	pid := types.PolicyID{Kind: model.KindKubernetesNetworkPolicy, Namespace: "default", Name: strings.Repeat("a", 253)}
	defer func() {
		if r := recover(); r != nil {
			t.Fatalf("PolicyChainName(%q, {knp default <253 x a>}, nft=true) panicked: %v", rules.PolicyInboundPfx, r)
		}
	}()
	name := rules.PolicyChainName(rules.PolicyInboundPfx, &pid, true)
	if len(name) > c37NftLimit || name == "" {
		t.Fatalf("name %q does not fit %d", name, c37NftLimit)
	}
	pid2 := pid
	pid2.Name = strings.Repeat("a", 252) + "b"
	if other := rules.PolicyChainName(rules.PolicyInboundPfx, &pid2, true); other == name {
		t.Fatalf("two policies that differ in the last character of a 253 character name share the chain name %q", name)
	}
}

type c37Kind struct {
	kind       string
	short      string
	namespaced bool
}

var c37Kinds = []c37Kind{
	{v3.KindNetworkPolicy, "np", true},
	{v3.KindGlobalNetworkPolicy, "gnp", false},
	{v3.KindStagedNetworkPolicy, "snp", true},
	{v3.KindStagedGlobalNetworkPolicy, "sgnp", false},
	{v3.KindStagedKubernetesNetworkPolicy, "sknp", true},
	{model.KindKubernetesNetworkPolicy, "knp", true},
	{model.KindKubernetesClusterNetworkPolicy, "kcnp", false},
}

const c37Alnum = "abcdefghijklmnopqrstuvwxyz0123456789"

// c37Name builds a name of exactly n characters from the validator's name grammar: a drawn head,
// a deterministic body, a drawn tail (so that names of one case share long stretches and differ
// at the end — what a truncating implementation would confuse).
func c37Name(t *rapid.T, n int, dots bool, label string) string {
	if n < 1 {
		n = 1
	}
	tail := rapid.StringOfN(rapid.RuneFrom([]rune(c37Alnum)), 1, 3, -1).Draw(t, label+"Tail")
	head := rapid.SampledFrom([]string{"a", "web", "knp.default.allow", "default.deny", "kns.", "ksa.default.", "tier1.policy-", "x-"}).Draw(t, label+"Head")
	if !dots {
		head = strings.ReplaceAll(head, ".", "-")
	}
	body := "0123456789-abcdefghij.klmnopqrst-uvwxyz"
	if !dots {
		body = strings.ReplaceAll(body, ".", "x")
	}
	var sb strings.Builder
	sb.WriteString(head)
	for sb.Len() < n {
		sb.WriteString(body)
	}
	s := sb.String()
	if len(tail) > n {
		tail = tail[:n]
	}
	s = s[:n-len(tail)] + tail
	// Repair the grammar: alphanumeric first/last, '.'/'-' only after an alphanumeric.
	b := []byte(s)
	isAl := func(c byte) bool { return strings.IndexByte(c37Alnum, c) >= 0 }
	for i := range b {
		if !isAl(b[i]) && (i == 0 || i == len(b)-1 || !isAl(b[i-1])) {
			b[i] = 'q'
		}
	}
	return string(b)
}

type c37Ident struct {
	Class string // policy / profile / group / endpoint
	Text  string // canonical description of the identity (distinct identities <=> distinct Text)
	name  func(nft bool) string
}

func TestVerifC37Names(t *testing.T) {
	ev.Quiet()
	rec := ev.New("C37", "names",
		"per case a set of 4..24 distinct identities: policies (7 kinds, namespaced or global, names with ID length around the iptables limit (28), around the nftables limit (256), long; namespace/name separator shifted twins, same name in another kind/namespace), profiles (around 28, 256, long), policy groups (direction, selector, policy lists incl. permutations and prefixes of each other), endpoints (interface names 1..15 chars incl. marker-leading, all renderer prefixes, wildcard pseudo interface), each rendered inbound and outbound for iptables and nftables; plus IP set IDs (MakeUniqueID s/n/svc/svcnoport over related contents, fixed IDs) and temp-set indexes for v4 and v6. Non-trivial = at least two identities of one class whose un-shortened names exceed the limit and share their first 28 characters; distinct = (classes, length classes)",
		"identities use only characters and shapes accepted by the validators / produced by the calculation graph", "digest collisions are out of scope")
	defer rec.Write()

	rapid.Check(t, func(t *rapid.T) {
		var ids []c37Ident
		seenText := map[string]bool{}
		add := func(id c37Ident) {
			if seenText[id.Class+"|"+id.Text] {
				return
			}
			seenText[id.Class+"|"+id.Text] = true
			ids = append(ids, id)
		}
		classes := map[string]bool{}

		mkPolicy := func(k c37Kind, ns, name string) (c37Ident, types.PolicyID) {
			pid := types.PolicyID{Name: name, Namespace: ns, Kind: k.kind}
			return c37Ident{Class: "policy", Text: fmt.Sprintf("%s|%s|%s", k.kind, ns, name)}, pid
		}
		addPolicy := func(k c37Kind, ns, name string) types.PolicyID {
			if !k.namespaced {
				ns = ""
			} else if ns == "" {
				ns = "default"
			}
			id, pid := mkPolicy(k, ns, name)
			add(id)
			return pid
		}
		var policyIDs []types.PolicyID
		namespaces := []string{"default", "a", "a-b", "kube-system", "ns-0123456789-0123456789-0123456789-0123456789-0123456789-0123"}

		// lenClass picks the length of the variable part so that prefix+identity lands around a limit.
		lenFor := func(t *rapid.T, fixed int) (int, string) {
			switch rapid.IntRange(0, 5).Draw(t, "lengthClass") {
			case 0, 1:
				return c37IptablesLimit - fixed + rapid.IntRange(-2, 2).Draw(t, "delta"), "around-28"
			case 2:
				return c37NftLimit - fixed + rapid.IntRange(-2, 2).Draw(t, "delta"), "around-256"
			case 3:
				return rapid.IntRange(1, 12).Draw(t, "shortLen"), "short"
			case 4:
				return rapid.IntRange(30, 120).Draw(t, "midLen"), "mid"
			default:
				return rapid.IntRange(240, 253).Draw(t, "longLen"), "long"
			}
		}

		n := rapid.IntRange(3, 10).Draw(t, "nDraws")
		for i := 0; i < n; i++ {
			switch rapid.IntRange(0, 9).Draw(t, "identityKind") {
			case 0, 1, 2: // policy, plus relatives
				k := rapid.SampledFrom(c37Kinds).Draw(t, "kind")
				ns := ""
				if k.namespaced {
					ns = rapid.SampledFrom(namespaces).Draw(t, "namespace")
				}
				fixed := len("cali-pi-") + len(k.short) + 1
				if k.namespaced {
					fixed += len(ns) + 1
				}
				l, lc := lenFor(t, fixed)
				if l > 253 {
					l = 253
				}
				name := c37Name(t, l, true, "policyName")
				policyIDs = append(policyIDs, addPolicy(k, ns, name))
				classes["policy-"+lc] = true
				switch rapid.IntRange(0, 4).Draw(t, "relative") {
				case 0: // same name, another kind
					k2 := rapid.SampledFrom(c37Kinds).Draw(t, "otherKind")
					policyIDs = append(policyIDs, addPolicy(k2, ns, name))
					classes["policy-same-name-other-kind"] = true
				case 1: // same name, another namespace
					if k.namespaced {
						policyIDs = append(policyIDs, addPolicy(k, rapid.SampledFrom(namespaces).Draw(t, "otherNamespace"), name))
						classes["policy-same-name-other-namespace"] = true
					}
				case 2: // separator shifted between namespace and name: ns "a-b"+name "c…" vs ns "a"+name "b-c…"
					if k.namespaced && len(name) <= 250 {
						policyIDs = append(policyIDs, addPolicy(k, "a-b", "c"+name))
						policyIDs = append(policyIDs, addPolicy(k, "a", "b-c"+name))
						classes["policy-separator-shift"] = true
					}
				case 3: // differs only in the last character / one character longer
					b := []byte(name)
					if b[len(b)-1] == 'z' {
						b[len(b)-1] = 'y'
					} else {
						b[len(b)-1] = 'z'
					}
					policyIDs = append(policyIDs, addPolicy(k, ns, string(b)))
					if len(name) < 253 {
						policyIDs = append(policyIDs, addPolicy(k, ns, name+"0"))
					}
					classes["policy-last-char-sibling"] = true
				}
			case 3, 4: // profile, plus sibling
				l, lc := lenFor(t, len("cali-pri-"))
				if l > 253 {
					l = 253
				}
				name := c37Name(t, l, true, "profileName")
				classes["profile-"+lc] = true
				for _, nm := range []string{name, name + "0", name[:len(name)-1] + "q"} {
					nm := nm
					if len(nm) > 253 || nm == "" {
						continue
					}
					add(c37Ident{Class: "profile", Text: nm})
				}
			case 5, 6: // endpoint interface, every prefix
				var iface string
				switch rapid.IntRange(0, 4).Draw(t, "ifaceKind") {
				case 0:
					iface = "any-interface-at-all"
				case 1:
					iface = "_" + rapid.StringOfN(rapid.RuneFrom([]rune("abcxyz019_.-")), 0, 14, -1).Draw(t, "ifaceRest")
				case 2:
					iface = "cali" + rapid.StringOfN(rapid.RuneFrom([]rune("0123456789abcdef")), 11, 11, -1).Draw(t, "ifaceHash")
				default:
					iface = rapid.StringOfN(rapid.RuneFrom([]rune("abcdefghijklmnopqrstuvwxyzABCXYZ0123456789_.:@+-")), 1, 15, -1).Draw(t, "iface")
				}
				classes["endpoint"] = true
				if strings.HasPrefix(iface, "_") {
					classes["endpoint-marker-leading"] = true
				}
				for _, pfx := range []string{rules.WorkloadToEndpointPfx, rules.WorkloadFromEndpointPfx, rules.SetEndPointMarkPfx,
					rules.HostToEndpointPfx, rules.HostFromEndpointPfx, rules.HostToEndpointForwardPfx, rules.HostFromEndpointForwardPfx, rules.WorkloadARPPfx} {
					add(c37Ident{Class: "endpoint", Text: pfx + "|" + iface})
				}
			default: // policy group over the policies drawn so far (and permutations / prefixes of it)
				if len(policyIDs) == 0 {
					policyIDs = append(policyIDs, addPolicy(c37Kinds[1], "", "default-deny"))
				}
				sel := rapid.SampledFrom([]string{"all()", "a == 'b'", "has(x)", "a == 'b' && has(x)", ""}).Draw(t, "selector")
				cnt := rapid.IntRange(1, len(policyIDs)).Draw(t, "groupSize")
				start := rapid.IntRange(0, len(policyIDs)-cnt).Draw(t, "groupStart")
				pols := append([]types.PolicyID{}, policyIDs[start:start+cnt]...)
				variants := [][]types.PolicyID{pols}
				if cnt > 1 {
					rev := make([]types.PolicyID, cnt)
					for i := range pols {
						rev[cnt-1-i] = pols[i]
					}
					variants = append(variants, rev, pols[:cnt-1])
				}
				for _, ps := range variants {
					var parts []string
					for _, p := range ps {
						parts = append(parts, fmt.Sprintf("%s|%s|%s", p.Kind, p.Namespace, p.Name))
					}
					add(c37Ident{Class: "group", Text: sel + "\x00" + strings.Join(parts, "\x00")})
				}
				classes["group"] = true
			}
		}

		// Render every identity inbound+outbound for both flavours into one name space per flavour.
		nameOwner := [2]map[string]string{{}, {}}
		overLimitFirst28 := map[string]int{}
		nontrivial := false
		record := func(flavour int, who, name string, limit int) {
			if len(name) > limit {
				t.Fatalf("%s: name %q is %d characters long, limit %d", who, name, len(name), limit)
			}
			if name == "" {
				t.Fatalf("%s: empty name", who)
			}
			if other, clash := nameOwner[flavour][name]; clash && other != who {
				t.Fatalf("name clash (%s): %q is the name of both\n  %s\nand\n  %s", []string{"iptables", "nftables"}[flavour], name, other, who)
			}
			nameOwner[flavour][name] = who
		}
		sort.SliceStable(ids, func(i, j int) bool { return ids[i].Class+ids[i].Text < ids[j].Class+ids[j].Text })
		for _, id := range ids {
			for flavour, nft := range []bool{false, true} {
				limit := c37IptablesLimit
				if nft {
					limit = c37NftLimit
				}
				switch id.Class {
				case "policy":
					parts := strings.Split(id.Text, "|")
					pid := types.PolicyID{Kind: parts[0], Namespace: parts[1], Name: parts[2]}
					for _, pfx := range []rules.PolicyChainNamePrefix{rules.PolicyInboundPfx, rules.PolicyOutboundPfx} {
						n1 := rules.PolicyChainName(pfx, &pid, nft)
						cp := pid
						if n2 := rules.PolicyChainName(pfx, &cp, nft); n2 != n1 {
							t.Fatalf("PolicyChainName(%s,%+v,nft=%v) gave %q then %q", pfx, pid, nft, n1, n2)
						}
						record(flavour, fmt.Sprintf("policy %s %+v", pfx, pid), n1, limit)
						if full := string(pfx) + pid.ID(); !nft && len(full) > limit {
							overLimitFirst28[full[:28]]++
						}
					}
				case "profile":
					prid := types.ProfileID{Name: id.Text}
					for _, pfx := range []rules.ProfileChainNamePrefix{rules.ProfileInboundPfx, rules.ProfileOutboundPfx} {
						n1 := rules.ProfileChainName(pfx, &prid, nft)
						cp := prid
						if n2 := rules.ProfileChainName(pfx, &cp, nft); n2 != n1 {
							t.Fatalf("ProfileChainName(%s,%q,nft=%v) gave %q then %q", pfx, id.Text, nft, n1, n2)
						}
						record(flavour, fmt.Sprintf("profile %s %q", pfx, id.Text), n1, limit)
						if full := string(pfx) + id.Text; !nft && len(full) > limit {
							overLimitFirst28[full[:28]]++
						}
					}
				case "endpoint":
					parts := strings.SplitN(id.Text, "|", 2)
					n1 := rules.EndpointChainName(parts[0], parts[1], limit)
					if n2 := rules.EndpointChainName(parts[0], parts[1], limit); n2 != n1 {
						t.Fatalf("EndpointChainName(%q,%q,%d) gave %q then %q", parts[0], parts[1], limit, n1, n2)
					}
					record(flavour, fmt.Sprintf("endpoint %s iface %q", parts[0], parts[1]), n1, limit)
				case "group":
					parts := strings.Split(id.Text, "\x00")
					mk := func(dir rules.PolicyDirection) *rules.PolicyGroup {
						g := &rules.PolicyGroup{Direction: dir, Selector: parts[0]}
						for _, p := range parts[1:] {
							f := strings.Split(p, "|")
							g.Policies = append(g.Policies, &types.PolicyID{Kind: f[0], Namespace: f[1], Name: f[2]})
						}
						return g
					}
					for _, dir := range []rules.PolicyDirection{rules.PolicyDirectionInbound, rules.PolicyDirectionOutbound} {
						n1 := mk(dir).ChainName()
						g2 := mk(dir)
						if n2 := g2.ChainName(); n2 != n1 || g2.ChainName() != n1 {
							t.Fatalf("PolicyGroup.ChainName for equal groups (%s, %q) gave %q and %q", dir, id.Text, n1, n2)
						}
						// PolicyGroup.ChainName has one form for both flavours.
						record(flavour, fmt.Sprintf("group %s %q", dir, strings.ReplaceAll(id.Text, "\x00", " ; ")), n1, limit)
					}
				default:
					t.Fatalf("HARNESS-GAP: unknown identity class %q", id.Class)
				}
			}
		}
		for _, c := range overLimitFirst28 {
			if c >= 2 {
				nontrivial = true
			}
		}

		// IP sets.
		cfg4 := ipsets.NewIPVersionConfig(ipsets.IPFamilyV4, ipsets.IPSetNamePrefix, nil, nil)
		cfg6 := ipsets.NewIPVersionConfig(ipsets.IPFamilyV6, ipsets.IPSetNamePrefix, nil, nil)
		setIDs := map[string]bool{}
		for _, fixed := range []string{"dscp-src-net", "no-flow-offload", "network-ip-pools", "masq-ipam-pools", "all-hosts-net", "all-vxlan-net", "this-host", "all-istio-weps"} {
			if rapid.IntRange(0, 3).Draw(t, "includeFixedSet") == 0 {
				setIDs[fixed] = true
			}
		}
		nSets := rapid.IntRange(1, 6).Draw(t, "nSetContents")
		for i := 0; i < nSets; i++ {
			content := rapid.SampledFrom([]string{"all()", "a == 'b'", "has(x)", "default/svc-a", "default/svc-b", "kube-system/kube-dns"}).Draw(t, "setContent")
			if rapid.Bool().Draw(t, "varyContent") {
				content += rapid.StringOfN(rapid.RuneFrom([]rune(c37Alnum)), 1, 3, -1).Draw(t, "contentTail")
			}
			selID := hash.MakeUniqueID("s", content)
			setIDs[selID] = true
			if rapid.Bool().Draw(t, "related") {
				setIDs[hash.MakeUniqueID("n", selID+",tcp,"+rapid.SampledFrom([]string{"http", "https", "dns"}).Draw(t, "namedPort"))] = true
				setIDs[hash.MakeUniqueID("svc", content)] = true
				setIDs[hash.MakeUniqueID("svcnoport", content)] = true
			}
		}
		temps := []uint{0, 1, 9, 10, 40, 60, rapid.UintRange(0, 100000).Draw(t, "tempIndex"), uint(rapid.Uint64Range(0, math.MaxUint64).Draw(t, "bigTempIndex")), math.MaxUint}
		setOwner := [2]map[string]string{{}, {}} // ipset / nft set name spaces
		recordSet := func(space int, who, name string, limit int) {
			if len(name) > limit {
				t.Fatalf("%s: set name %q is %d characters long, limit %d", who, name, len(name), limit)
			}
			if other, clash := setOwner[space][name]; clash && other != who {
				t.Fatalf("set name clash: %q is the name of both %s and %s", name, other, who)
			}
			setOwner[space][name] = who
		}
		sortedIDs := make([]string, 0, len(setIDs))
		for s := range setIDs {
			sortedIDs = append(sortedIDs, s)
		}
		sort.Strings(sortedIDs)
		for fi, cfg := range []*ipsets.IPVersionConfig{cfg4, cfg6} {
			fam := []string{"v4", "v6"}[fi]
			for _, s := range sortedIDs {
				n1 := cfg.NameForMainIPSet(s)
				if n2 := cfg.NameForMainIPSet(s); n2 != n1 {
					t.Fatalf("NameForMainIPSet(%q) gave %q then %q", s, n1, n2)
				}
				recordSet(0, fmt.Sprintf("%s main set %q", fam, s), n1, c37IPSetLimit)
				recordSet(1, fmt.Sprintf("%s main set %q", fam, s), nftables.LegalizeSetName(n1), c37NftLimit)
			}
			seenIdx := map[uint]bool{}
			for _, idx := range temps {
				if seenIdx[idx] {
					continue
				}
				seenIdx[idx] = true
				n1 := cfg.NameForTempIPSet(idx)
				if n2 := cfg.NameForTempIPSet(idx); n2 != n1 {
					t.Fatalf("NameForTempIPSet(%d) gave %q then %q", idx, n1, n2)
				}
				recordSet(0, fmt.Sprintf("%s temp set %d", fam, idx), n1, c37IPSetLimit)
			}
		}
		classes["ipsets"] = true

		cl := make([]string, 0, len(classes))
		for c := range classes {
			cl = append(cl, c)
		}
		sort.Strings(cl)
		if nontrivial {
			cl = append(cl, "two-over-limit-names-share-first-28")
		}
		rec.SizedCase(nontrivial, fmt.Sprintf("%s/%d/%d", strings.Join(cl, ","), len(ids), len(sortedIDs)), len(ids), func() any {
			var out []string
			for i, id := range ids {
				if i >= 12 {
					break
				}
				out = append(out, id.Class+": "+strings.ReplaceAll(id.Text, "\x00", " ; "))
			}
			return map[string]any{"identities": out, "setIDs": sortedIDs}
		}, cl...)
	})
}
