package intdataplane

// C45 (unit "proxyneigh") — every node elects the same owner for a load-balancer address,
// checked at the level of the proxy neighbour manager (proxy_neigh_mgr.go) that feeds the
// consistent-hash ring (HostMetadataUpdate / HostMetadataRemove) and acts on its answers
// (the set of addresses its ARP / NDP listeners answer for).
//
// One "cluster" per case: one real proxyNeighManager per node name (each with itself as the
// local node) plus one whose hostname is never a cluster member, all of one IP family, all fed
// the same generated message history (node join / leave / re-join / address change, service
// add / change / remove, interface flap) but with their own CompleteDeferredWork placement
// inside a batch (real Felix instances batch independently).
//
// Oracle (from the statement: one owner from the current members, depending only on the
// current member set, not on order or history):
//   1. after every CompleteDeferredWork of a manager, the set of addresses it answers for
//      equals the set a FRESH manager with the same local node answers for when fed only the
//      current nodes and current services, in sorted order, in one batch;
//   2. when all managers have completed a batch: every current load-balancer address that is
//      answerable at all (right family, inside the no-encap pool and the host subnet, interface
//      up) is answered by exactly one manager, that manager's node is a current member, and a
//      manager started now on that node (told the current members in reverse order) answers too;
//      with no current member nobody answers.  (The ring itself is not inspected: whether an
//      implementation stores names verbatim or normalised is not the property's business.)
//
// Doubles: the netlink handle (LinkByName / AddrList only) and the raw ARP / NDP sockets are
// small recording doubles defined here (the package's own mocks need Gomega).  What a manager
// "claims" is read from its listeners' published desired sets, which is exactly what the
// listener's reply path consults (ifaceListener.wantsIP); it is published synchronously by
// CompleteDeferredWork, so the check does not depend on goroutine timing.

import (
	"errors"
	"fmt"
	"net"
	"net/netip"
	"sort"
	"strings"
	"sync"
	"testing"
	"time"

	"github.com/mdlayher/arp"
	"github.com/mdlayher/ethernet"
	"github.com/mdlayher/ndp"
	"github.com/vishvananda/netlink"
	"golang.org/x/net/ipv6"
	"pgregory.net/rapid"

	"github.com/projectcalico/calico/felix/config"
	"github.com/projectcalico/calico/felix/netlinkshim"
	"github.com/projectcalico/calico/felix/proto"
	"github.com/projectcalico/calico/felix/rules"
	"github.com/projectcalico/calico/libcalico-go/lib/set"
	"github.com/projectcalico/calico/verifkit/ev"
)

// Finding c45m-node-losing-family-address-stays-in-ring (fixed in /repo 93258d3): a ring member
// that then reported no address for the manager's IP family stayed in the ring.  The generator
// produces that transition ("lose-family-address") and TestVerifC45RegressionAddrLost pins it.

const c45mIface = "eth0"

// ---------------------------------------------------------------------------------------
// doubles

type c45mNetlink struct {
	netlinkshim.Interface // nil: any call the manager makes beyond the two below is a harness gap
	addrs                 map[string][]netlink.Addr
}

func (n *c45mNetlink) LinkByName(name string) (netlink.Link, error) {
	if _, ok := n.addrs[name]; !ok {
		return nil, errors.New("c45m: no such link")
	}
	return &netlink.Dummy{LinkAttrs: netlink.LinkAttrs{Name: name, Index: 2}}, nil
}

func (n *c45mNetlink) AddrList(link netlink.Link, family int) ([]netlink.Addr, error) {
	var out []netlink.Addr
	for _, a := range n.addrs[link.Attrs().Name] {
		is4 := a.IPNet.IP.To4() != nil
		if (family == netlink.FAMILY_V4) == is4 {
			out = append(out, a)
		}
	}
	return out, nil
}

type c45mTimeout struct{}

func (c45mTimeout) Error() string   { return "c45m: read deadline" }
func (c45mTimeout) Timeout() bool   { return true }
func (c45mTimeout) Temporary() bool { return true }

// c45mSock is the part shared by the ARP and NDP socket doubles: a read that blocks until the
// manager "wakes" it by moving the read deadline to (about) now.  The wake is sticky (buffered),
// so no wake-up is ever lost and teardown never has to wait for a timer.
type c45mSock struct {
	wake   chan struct{}
	mu     sync.Mutex
	writes int
	joins  int
	leaves int
}

func c45mNewSock() *c45mSock { return &c45mSock{wake: make(chan struct{}, 1)} }

func (s *c45mSock) blockRead() error {
	tm := time.NewTimer(2 * time.Second) // safety net only; never decides an outcome
	defer tm.Stop()
	select {
	case <-s.wake:
	case <-tm.C:
	}
	return c45mTimeout{}
}

func (s *c45mSock) SetReadDeadline(t time.Time) error {
	// The listener loop re-arms with now+readTimeout (one minute here); wake() uses now.
	if time.Until(t) < 30*time.Second {
		select {
		case s.wake <- struct{}{}:
		default:
		}
	}
	return nil
}

func (s *c45mSock) Close() error { return nil }

func (s *c45mSock) count(f func()) {
	s.mu.Lock()
	f()
	s.mu.Unlock()
}

type c45mARP struct{ *c45mSock }

func (c c45mARP) Read() (*arp.Packet, *ethernet.Frame, error) { return nil, nil, c.blockRead() }
func (c c45mARP) Reply(*arp.Packet, net.HardwareAddr, netip.Addr) error {
	c.count(func() { c.writes++ })
	return nil
}
func (c c45mARP) WriteTo(*arp.Packet, net.HardwareAddr) error {
	c.count(func() { c.writes++ })
	return nil
}

type c45mNDP struct{ *c45mSock }

func (c c45mNDP) ReadFrom() (ndp.Message, *ipv6.ControlMessage, netip.Addr, error) {
	return nil, nil, netip.Addr{}, c.blockRead()
}
func (c c45mNDP) WriteTo(ndp.Message, *ipv6.ControlMessage, netip.Addr) error {
	c.count(func() { c.writes++ })
	return nil
}
func (c c45mNDP) JoinGroup(netip.Addr) error  { c.count(func() { c.joins++ }); return nil }
func (c c45mNDP) LeaveGroup(netip.Addr) error { c.count(func() { c.leaves++ }); return nil }

var c45mHW = net.HardwareAddr{0x02, 0x45, 0, 0, 0, 1}

// c45mRig is one manager with its doubles.
type c45mRig struct {
	hostname string
	family   uint8
	nl       *c45mNetlink
	mgr      *proxyNeighManager
}

func c45mNewRig(family uint8, hostname string) *c45mRig {
	cfg := Config{
		Hostname:    hostname,
		RulesConfig: rules.Config{WorkloadIfacePrefixes: []string{"cali"}},
	}
	r := &c45mRig{hostname: hostname, family: family, nl: &c45mNetlink{addrs: map[string][]netlink.Addr{}}}
	var af arpClientFactory
	var nf ndpConnFactory
	if family == 4 {
		af = func(string) (arpClient, net.HardwareAddr, error) { return c45mARP{c45mNewSock()}, c45mHW, nil }
	} else {
		nf = func(string) (ndpConn, net.HardwareAddr, error) { return c45mNDP{c45mNewSock()}, c45mHW, nil }
	}
	r.mgr = newProxyNeighManagerWithShims(cfg, family, r.nl, af, nf, time.Minute, 0)
	return r
}

// claims = every address some listener of the manager currently answers for.
func (r *c45mRig) claims() []string {
	seen := map[string]bool{}
	for _, l := range r.mgr.listeners {
		if d := l.desired.Load(); d != nil {
			for ip := range (*d).All() {
				seen[ip] = true
			}
		}
	}
	out := make([]string, 0, len(seen))
	for ip := range seen {
		out = append(out, ip)
	}
	sort.Strings(out)
	return out
}

// ---------------------------------------------------------------------------------------
// the cluster state as the datastore sees it (what a freshly started Felix would be told)

type c45mNodeAddrs struct{ V4, V6 string }

type c45mWorld struct {
	family  uint8
	names   []string
	nodes   map[string]c45mNodeAddrs        // nodes currently in the datastore
	svcs    map[string]*proto.ServiceUpdate // current services by "ns/name"
	ifaceUp bool
}

func (w *c45mWorld) famAddr(a c45mNodeAddrs) string {
	if w.family == 6 {
		return a.V6
	}
	return a.V4
}

func (w *c45mWorld) isMember(n string) bool {
	a, ok := w.nodes[n]
	return ok && w.famAddr(a) != ""
}

func (w *c45mWorld) members() []string {
	var out []string
	for n := range w.nodes {
		if w.isMember(n) {
			out = append(out, n)
		}
	}
	sort.Strings(out)
	return out
}

func (w *c45mWorld) nodeNames() []string {
	out := make([]string, 0, len(w.nodes))
	for n := range w.nodes {
		out = append(out, n)
	}
	sort.Strings(out)
	return out
}

func (w *c45mWorld) svcNames() []string {
	out := make([]string, 0, len(w.svcs))
	for n := range w.svcs {
		out = append(out, n)
	}
	sort.Strings(out)
	return out
}

func (w *c45mWorld) poolMsg() *proto.IPAMPoolUpdate {
	cidr := "10.0.0.0/24"
	if w.family == 6 {
		cidr = "fd00::/64"
	}
	return &proto.IPAMPoolUpdate{Id: "lb-pool", Pool: &proto.IPAMPool{Cidr: cidr, IpipMode: "Never", VxlanMode: "Never"}}
}

func (w *c45mWorld) ifaceCIDR() string {
	if w.family == 6 {
		return "fd00::1/48"
	}
	return "10.0.255.1/16"
}

// setIface delivers the interface state to one rig the way the interface monitor does: the
// kernel (netlink double) first, then the ifaceAddrsUpdate message.
func (w *c45mWorld) setIface(r *c45mRig, up bool) {
	if up {
		ip, ipnet, err := net.ParseCIDR(w.ifaceCIDR())
		if err != nil {
			panic(err)
		}
		ipnet.IP = ip
		r.nl.addrs[c45mIface] = []netlink.Addr{{IPNet: ipnet}}
		r.mgr.OnUpdate(&ifaceAddrsUpdate{Name: c45mIface, Addrs: set.From(ip.String())})
	} else {
		r.nl.addrs[c45mIface] = nil
		r.mgr.OnUpdate(&ifaceAddrsUpdate{Name: c45mIface, Addrs: nil})
	}
}

func (w *c45mWorld) nodeMsg(n string) *proto.HostMetadataUpdate {
	a := w.nodes[n]
	return &proto.HostMetadataUpdate{Hostname: n, Ipv4Addr: a.V4, Ipv6Addr: a.V6}
}

// fresh builds a manager for hostname that has only ever seen the current state.
func (w *c45mWorld) fresh(hostname string, reverse bool, complete bool) *c45mRig {
	r := c45mNewRig(w.family, hostname)
	r.mgr.OnUpdate(w.poolMsg())
	if w.ifaceUp {
		w.setIface(r, true)
	}
	ns := w.nodeNames()
	if reverse {
		sort.Sort(sort.Reverse(sort.StringSlice(ns)))
	}
	for _, n := range ns {
		r.mgr.OnUpdate(w.nodeMsg(n))
	}
	for _, s := range w.svcNames() {
		r.mgr.OnUpdate(w.svcs[s])
	}
	if complete {
		if err := r.mgr.CompleteDeferredWork(); err != nil {
			panic("HARNESS-GAP: fresh manager CompleteDeferredWork failed: " + err.Error())
		}
	}
	return r
}

// currentLB returns the load-balancer addresses of the manager's family carried by the
// current services (the same fields the manager reads), sorted.
func (w *c45mWorld) currentLB() []string {
	seen := map[string]bool{}
	for _, s := range w.svcs {
		if s.Type != "LoadBalancer" {
			continue
		}
		ips := append([]string{}, s.LoadbalancerIngressIps...)
		if s.LoadbalancerIp != "" {
			ips = append(ips, s.LoadbalancerIp)
		}
		for _, ip := range ips {
			if (netip.MustParseAddr(ip).Is4()) == (w.family == 4) {
				seen[ip] = true
			}
		}
	}
	out := make([]string, 0, len(seen))
	for ip := range seen {
		out = append(out, ip)
	}
	sort.Strings(out)
	return out
}

// answerable: inside the no-encap pool and the host interface's subnet (by construction of
// the address pools below) and the interface is up.
func (w *c45mWorld) answerable(ip string) bool {
	if !w.ifaceUp {
		return false
	}
	pool := netip.MustParsePrefix("10.0.0.0/24")
	if w.family == 6 {
		pool = netip.MustParsePrefix("fd00::/64")
	}
	return pool.Contains(netip.MustParseAddr(ip))
}

func c45mAddrPool(family uint8) []string {
	v4 := []string{"10.0.0.100", "10.0.0.101", "10.0.0.102", "10.0.0.103", "10.0.0.104", "10.0.0.105", "10.0.0.106", "10.0.0.107"}
	v6 := []string{"fd00::64", "fd00::65", "fd00::66", "fd00::67", "fd00::68", "fd00::69", "fd00::6a", "fd00::6b"}
	if family == 4 {
		// 8 answerable, one in the subnet but outside the pool, one outside both, two of the other family
		return append(append([]string{}, v4...), "10.0.1.5", "192.168.7.9", v6[0], v6[1])
	}
	return append(append([]string{}, v6...), "fd00:0:0:1::5", "2001:db8::9", v4[0], v4[1])
}

// ---------------------------------------------------------------------------------------
// node names
//
// A node name is whatever string the Node resource / FELIX_FELIXHOSTNAME carries; Felix accepts
// config.HostnameRegexp (`^[a-zA-Z0-9_.-]+$`) for its own name, so upper-case letters, dots and
// underscores are legal (NODENAME set by hand, OpenStack compute hosts, etcd-mode clusters), and
// the datastore key is case-sensitive: two names differing only by case are two nodes.  Every
// manager's local hostname is exactly its node's name.

func c45mCapitalise(s string) string {
	b := []byte(s)
	start := true
	for i, c := range b {
		if start && c >= 'a' && c <= 'z' {
			b[i] = c - 'a' + 'A'
		}
		start = c == '.' || c == '-' || c == '_'
	}
	return string(b)
}

func c45mAlternate(s string) string {
	b := []byte(s)
	k := 0
	for i, c := range b {
		if c >= 'a' && c <= 'z' {
			if k%2 == 1 {
				b[i] = c - 'a' + 'A'
			}
			k++
		}
	}
	return string(b)
}

// c45mDrawNames returns n distinct names and the name-shape classes they hit.
func c45mDrawNames(t *rapid.T, n int) ([]string, []string) {
	alphabet := rapid.SampledFrom([]string{"mixed-case", "lower-case", "mixed-case"}).Draw(t, "nameAlphabet")
	var names []string
	if alphabet == "lower-case" {
		for i := 0; i < n; i++ {
			names = append(names, fmt.Sprintf("node-%d", i))
		}
		return names, []string{"names-all-lower-case"}
	}
	shapes := []string{"worker-%d", "node-%d", "compute%d.example.com", "rack_%d.host", "ip-10-0-0-%d.ec2.internal", "n%d"}
	casings := []string{"Capitalised", "lower", "UPPER", "aLtErNaTe"}
	seen := map[string]bool{}
	classes := map[string]bool{}
	allowTwins := rapid.Bool().Draw(t, "allowNamesDifferingOnlyByCase")
	for i := 0; len(names) < n; i++ {
		if allowTwins && len(names) > 0 && rapid.IntRange(0, 2).Draw(t, "caseTwinOfPreviousName") == 2 {
			// a second node whose name differs from the previous one only by case
			p := names[len(names)-1]
			added := false
			for _, twin := range []string{strings.ToLower(p), strings.ToUpper(p), c45mCapitalise(strings.ToLower(p))} {
				if !seen[twin] {
					names = append(names, twin)
					seen[twin] = true
					classes["names-differing-only-by-case"] = true
					added = true
					break
				}
			}
			if added {
				continue
			}
		}
		name := fmt.Sprintf(rapid.SampledFrom(shapes).Draw(t, "nameShape"), i)
		switch rapid.SampledFrom(casings).Draw(t, "nameCasing") {
		case "Capitalised":
			name = c45mCapitalise(name)
		case "UPPER":
			name = strings.ToUpper(name)
		case "aLtErNaTe":
			name = c45mAlternate(name)
		}
		if seen[name] {
			continue
		}
		seen[name] = true
		names = append(names, name)
	}
	for _, nm := range names {
		if !config.HostnameRegexp.MatchString(nm) {
			t.Fatalf("HARNESS-GAP: generated node name %q is not a legal Felix hostname", nm)
		}
		if nm != strings.ToLower(nm) {
			classes["names-with-upper-case"] = true
		}
		if strings.ContainsAny(nm, "._") {
			classes["names-with-dot-or-underscore"] = true
		}
	}
	var cl []string
	for c := range classes {
		cl = append(cl, c)
	}
	sort.Strings(cl)
	return names, cl
}

// ---------------------------------------------------------------------------------------

func TestVerifC45ProxyNeigh(t *testing.T) {
	ev.Quiet()
	rec := ev.New("C45", "proxyneigh",
		"one real proxyNeighManager per node name (<=8 names, either all lower case or drawn from Felix's hostname syntax [a-zA-Z0-9_.-]+ with upper-case letters, dots, underscores and pairs differing only by case; each manager has exactly its node's name as local hostname) plus one non-member, one IP family per case, all fed the same generated history of HostMetadataUpdate/Remove (join, leave, re-join with same or changed address, swap = join+leave in one batch, bounce = leave+re-join of one node with no lookup in between, metadata-only updates, nodes without an address in the family), ServiceUpdate/Remove over <=12 addresses (both families, in and out of pool/subnet) and interface flaps, cut into batches; inside a batch single managers complete early. After every CompleteDeferredWork a manager's answered set is compared with a fresh manager given only the current state; after every batch each answerable address must be answered by exactly one member node (which a manager started now, told the nodes in reverse order, confirms). Non-trivial = some batch held both a join and a leave, or a node re-joined; distinct = (family, node count, name-shape classes, message-kind sequence)",
		"all Felix instances receive the same datastore history (per-instance batching differs)",
		"all nodes sit on the same L2 subnet and see the same no-encap pool (the feature's deployment model)",
		"what a manager answers for = its listeners' published desired sets (the reply path's wantsIP)")
	defer rec.Write()

	const maxNames = 8
	svcIDs := [][2]string{{"default", "web"}, {"default", "api"}, {"prod", "web"}, {"kube-system", "ingress"}}

	rapid.Check(t, func(t *rapid.T) {
		family := uint8(rapid.SampledFrom([]int{4, 6}).Draw(t, "ipFamily"))
		nNames := rapid.IntRange(2, maxNames).Draw(t, "nNodeNames")
		nodeNames, nameClasses := c45mDrawNames(t, nNames)
		w := &c45mWorld{family: family, names: nodeNames, nodes: map[string]c45mNodeAddrs{}, svcs: map[string]*proto.ServiceUpdate{}}
		addrPool := c45mAddrPool(family)

		hostnames := append(append([]string{}, w.names...), "Not-A-Member")
		rigs := make([]*c45mRig, len(hostnames))
		for i, h := range hostnames {
			rigs[i] = c45mNewRig(family, h)
		}
		var freshRigs []*c45mRig
		defer func() {
			for _, r := range rigs {
				r.mgr.Stop()
			}
			for _, r := range freshRigs {
				r.mgr.Stop()
			}
		}()

		var hist []string  // readable history
		var shape []string // message kinds
		classes := map[string]bool{fmt.Sprintf("ipv%d", family): true}
		for _, c := range nameClasses {
			classes[c] = true
		}
		nontrivial := false
		everMember := map[string]string{} // node -> family address it last was a member with
		addrGen := map[string]int{}       // per node address generation

		send := func(msg any) {
			for _, r := range rigs {
				r.mgr.OnUpdate(msg)
			}
		}
		histStr := func() string { return strings.Join(hist, " ") }

		// --- oracle 1 -----------------------------------------------------------------
		checkFresh := func(r *c45mRig, when string) {
			f := w.fresh(r.hostname, false, true)
			got, want := r.claims(), f.claims()
			f.mgr.Stop()
			if strings.Join(got, ",") != strings.Join(want, ",") {
				t.Fatalf("%s: manager on %q (IPv%d) answers for %v, a fresh manager on %q given only the current state answers for %v\ncurrent nodes: %v\ncurrent members: %v\ncurrent LB addresses: %v (interface up: %v)\nhistory: %s",
					when, r.hostname, family, got, r.hostname, want, w.nodes, w.members(), w.currentLB(), w.ifaceUp, histStr())
			}
		}
		complete := func(r *c45mRig, when string) {
			if err := r.mgr.CompleteDeferredWork(); err != nil {
				t.Fatalf("HARNESS-GAP: CompleteDeferredWork on %q returned %v (the doubles never fail)", r.hostname, err)
			}
			checkFresh(r, when)
		}

		// --- oracle 2 -----------------------------------------------------------------
		prevOwner := map[string]string{}
		checkCluster := func(when string, nodesOnlyBatch bool) {
			live := w.members()
			// what a manager started now, told the current nodes in REVERSE order, answers for
			// (oracle 1 covers sorted order); computed lazily per hostname
			revClaims := map[string]map[string]bool{}
			freshReverseClaims := func(hostname, ip string) bool {
				if revClaims[hostname] == nil {
					f := w.fresh(hostname, true, true)
					m := map[string]bool{}
					for _, c := range f.claims() {
						m[c] = true
					}
					f.mgr.Stop()
					revClaims[hostname] = m
				}
				return revClaims[hostname][ip]
			}
			claimsBy := map[string][]string{} // address -> hostnames answering
			for _, r := range rigs {
				for _, ip := range r.claims() {
					claimsBy[ip] = append(claimsBy[ip], r.hostname)
				}
			}
			owners := map[string]string{}
			for _, ip := range w.currentLB() {
				if !w.answerable(ip) {
					continue
				}
				who := claimsBy[ip]
				if len(live) == 0 {
					if len(who) != 0 {
						t.Fatalf("%s: no node is a member, yet %v answer for %s\nhistory: %s", when, who, ip, histStr())
					}
					classes["flush-with-no-member"] = true
					continue
				}
				if len(who) != 1 {
					t.Fatalf("%s: load-balancer address %s (IPv%d) is answered by %v; exactly one of the current members %v must answer\ncurrent nodes: %v\nhistory: %s",
						when, ip, family, who, live, w.nodes, histStr())
				}
				if !w.isMember(who[0]) {
					t.Fatalf("%s: %s is answered by %q which is not a current member (%v)\nhistory: %s", when, ip, who[0], live, histStr())
				}
				if !freshReverseClaims(who[0], ip) {
					t.Fatalf("%s: %s is answered by %q, but a manager started now on %q and told the current nodes in reverse order does not answer for it (members %v)\nhistory: %s", when, ip, who[0], who[0], live, histStr())
				}
				owners[ip] = who[0]
				if p, ok := prevOwner[ip]; ok && p != who[0] {
					classes["owner-moved"] = true
					if nodesOnlyBatch {
						classes["owner-moved-by-nodes-only-batch"] = true
					}
				}
			}
			if len(owners) > 0 && len(live) >= 2 {
				classes["flush-with-owned-addresses-and-2+-members"] = true
			}
			prevOwner = owners
		}

		// --- message generators ----------------------------------------------------------
		type batchState struct {
			joins, leaves int
			removed       map[string]bool
			other         bool // service / interface message in the batch
		}
		var bs *batchState

		newAddrs := func(n string, withFamily, changed bool) c45mNodeAddrs {
			idx := 0
			for i, x := range w.names {
				if x == n {
					idx = i
				}
			}
			if changed {
				addrGen[n]++
			}
			g := addrGen[n]
			// CIDR form, as calc/dataplane_passthru.go extractNodeAddress produces
			a := c45mNodeAddrs{V4: fmt.Sprintf("172.16.%d.%d/24", g, idx+1), V6: fmt.Sprintf("2001:db8:%x::%x/64", g, idx+1)}
			other := rapid.SampledFrom([]string{"dual", "dual", "single"}).Draw(t, "otherFamilyAddr")
			if w.family == 4 {
				if !withFamily {
					a.V4 = ""
				}
				if other == "single" && withFamily {
					a.V6 = ""
				}
			} else {
				if !withFamily {
					a.V6 = ""
				}
				if other == "single" && withFamily {
					a.V4 = ""
				}
			}
			return a
		}
		update := func(n string, a c45mNodeAddrs, kind string) {
			before := w.isMember(n)
			w.nodes[n] = a
			after := w.isMember(n)
			fa := w.famAddr(a)
			switch {
			case !before && after:
				bs.joins++
				if prev, ok := everMember[n]; ok {
					nontrivial = true
					classes["rejoin"] = true
					if bs.removed[n] {
						classes["leave+rejoin-same-node-in-one-batch"] = true
					} else {
						classes["rejoin-in-later-batch"] = true
					}
					if prev != fa {
						classes["rejoin-changed-address"] = true
					}
				}
			case before && !after:
				bs.leaves++
				classes["member-lost-family-address"] = true
			case before && after && everMember[n] != fa:
				classes["member-changed-address"] = true
			}
			if after {
				everMember[n] = fa
			}
			hist = append(hist, fmt.Sprintf("%s(%s){%s|%s}", kind, n, a.V4, a.V6))
			shape = append(shape, kind)
			send(w.nodeMsg(n))
		}
		remove := func(n string) {
			if w.isMember(n) {
				bs.leaves++
				bs.removed[n] = true
				if n != strings.ToLower(n) {
					classes["member-with-upper-case-name-left"] = true
				}
			}
			delete(w.nodes, n)
			hist = append(hist, fmt.Sprintf("leave(%s)", n))
			shape = append(shape, "leave")
			send(&proto.HostMetadataRemove{Hostname: n})
		}
		absent := func() []string {
			var out []string
			for _, n := range w.names {
				if _, ok := w.nodes[n]; !ok {
					out = append(out, n)
				}
			}
			return out
		}
		absentFormerMembers := func() []string {
			var out []string
			for _, n := range absent() {
				if _, ok := everMember[n]; ok {
					out = append(out, n)
				}
			}
			return out
		}
		join := func() bool {
			a := absent()
			if len(a) == 0 {
				return false
			}
			n := rapid.SampledFrom(a).Draw(t, "joiningNode")
			changed := false
			if _, ok := everMember[n]; ok {
				changed = rapid.Bool().Draw(t, "rejoinWithChangedAddress")
			}
			update(n, newAddrs(n, true, changed), "join")
			return true
		}
		leave := func() bool {
			m := w.members()
			if len(m) == 0 {
				return false
			}
			remove(rapid.SampledFrom(m).Draw(t, "leavingNode"))
			return true
		}

		nodeOp := func() {
			op := rapid.SampledFrom([]string{"swap", "bounce", "leave", "join", "rejoin", "join", "leave", "swap",
				"metadata-only", "change-address", "join-without-family-address", "leave-non-member", "lose-family-address"}).Draw(t, "nodeOp")
			switch op {
			case "swap": // one node leaves and another joins: the member count is the same afterwards
				if rapid.Bool().Draw(t, "joinFirst") {
					if join() {
						// leave a node other than the one that just joined if possible
						leave()
					} else {
						leave()
					}
				} else {
					if leave() {
						join()
					} else {
						join()
					}
				}
			case "bounce": // leave and re-join of the same node, no lookup in between
				m := w.members()
				if len(m) == 0 {
					join()
					return
				}
				n := rapid.SampledFrom(m).Draw(t, "bouncingNode")
				remove(n)
				update(n, newAddrs(n, true, rapid.Bool().Draw(t, "rejoinWithChangedAddress")), "join")
			case "leave":
				if !leave() {
					join()
				}
			case "join":
				if !join() {
					leave()
				}
			case "rejoin":
				a := absentFormerMembers()
				if len(a) == 0 {
					if !leave() {
						join()
					}
					return
				}
				n := rapid.SampledFrom(a).Draw(t, "rejoiningNode")
				update(n, newAddrs(n, true, rapid.Bool().Draw(t, "rejoinWithChangedAddress")), "join")
			case "metadata-only": // labels / AS number changed: same addresses again
				m := w.nodeNames()
				if len(m) == 0 {
					join()
					return
				}
				n := rapid.SampledFrom(m).Draw(t, "updatedNode")
				update(n, w.nodes[n], "update")
			case "change-address":
				m := w.members()
				if len(m) == 0 {
					join()
					return
				}
				n := rapid.SampledFrom(m).Draw(t, "readdressedNode")
				update(n, newAddrs(n, true, true), "update")
			case "join-without-family-address": // e.g. an IPv6-only node seen by the IPv4 manager
				a := absent()
				if len(a) == 0 {
					leave()
					return
				}
				n := rapid.SampledFrom(a).Draw(t, "joiningNode")
				update(n, newAddrs(n, false, false), "join-other-family")
				classes["node-without-family-address"] = true
			case "leave-non-member": // a node that never had an address in this family is deleted
				var cands []string
				for _, n := range w.nodeNames() {
					if !w.isMember(n) {
						cands = append(cands, n)
					}
				}
				if len(cands) == 0 {
					if !leave() {
						join()
					}
					return
				}
				remove(rapid.SampledFrom(cands).Draw(t, "leavingNonMember"))
			case "lose-family-address":
				m := w.members()
				if len(m) == 0 {
					join()
					return
				}
				n := rapid.SampledFrom(m).Draw(t, "nodeLosingAddress")
				update(n, newAddrs(n, false, false), "update-lose-address")
			}
		}

		svcOp := func() {
			id := rapid.SampledFrom(svcIDs).Draw(t, "service")
			key := id[0] + "/" + id[1]
			op := rapid.SampledFrom([]string{"set", "set", "set", "remove", "to-clusterip"}).Draw(t, "serviceOp")
			if _, ok := w.svcs[key]; !ok {
				op = "set"
			}
			bs.other = true
			switch op {
			case "set":
				n := rapid.IntRange(1, 3).Draw(t, "nIngress")
				var ips []string
				for i := 0; i < n; i++ {
					ips = append(ips, rapid.SampledFrom(addrPool).Draw(t, "ingressIP"))
				}
				msg := &proto.ServiceUpdate{Namespace: id[0], Name: id[1], Type: "LoadBalancer", LoadbalancerIngressIps: ips, ClusterIps: []string{"10.96.0.10"}}
				if rapid.IntRange(0, 3).Draw(t, "specLoadBalancerIP") == 3 {
					msg.LoadbalancerIp = rapid.SampledFrom(addrPool).Draw(t, "lbIP")
				}
				if _, ok := w.svcs[key]; ok {
					classes["lb-service-changed"] = true
				}
				w.svcs[key] = msg
				hist = append(hist, fmt.Sprintf("svc(%s)%v+%q", key, ips, msg.LoadbalancerIp))
				shape = append(shape, "svc")
				send(msg)
			case "to-clusterip":
				msg := &proto.ServiceUpdate{Namespace: id[0], Name: id[1], Type: "ClusterIP", ClusterIps: []string{"10.96.0.10"}}
				w.svcs[key] = msg
				classes["lb-service-removed"] = true
				hist = append(hist, fmt.Sprintf("svc(%s)->ClusterIP", key))
				shape = append(shape, "svc-clusterip")
				send(msg)
			case "remove":
				delete(w.svcs, key)
				classes["lb-service-removed"] = true
				hist = append(hist, fmt.Sprintf("svc-remove(%s)", key))
				shape = append(shape, "svc-remove")
				send(&proto.ServiceRemove{Namespace: id[0], Name: id[1]})
			}
		}

		ifaceOp := func() {
			bs.other = true
			up := !w.ifaceUp
			if rapid.IntRange(0, 3).Draw(t, "ifaceRepeat") == 3 {
				up = w.ifaceUp // the same state again (address refresh)
			}
			w.ifaceUp = up
			for _, r := range rigs {
				w.setIface(r, up)
			}
			classes["iface-flap"] = true
			hist = append(hist, fmt.Sprintf("iface(up=%v)", up))
			shape = append(shape, "iface")
		}

		endBatch := func(label string) {
			nodesOnly := !bs.other
			if bs.joins > 0 && bs.leaves > 0 {
				nontrivial = true
				classes["join+leave-in-one-batch"] = true
				if bs.joins == bs.leaves {
					classes["equal-joins-and-leaves-in-one-batch"] = true
					if nodesOnly {
						classes["equal-joins-and-leaves-nodes-only-batch"] = true
					}
				}
			}
			hist = append(hist, "|")
			shape = append(shape, "|")
			// every Felix completes the batch, in a drawn rotation
			start := rapid.IntRange(0, len(rigs)-1).Draw(t, "completeRotation")
			for i := range rigs {
				r := rigs[(start+i)%len(rigs)]
				complete(r, label)
			}
			checkCluster(label, nodesOnly)
		}

		// --- bootstrap batch: pool, interface, some nodes, some services ------------------
		bs = &batchState{removed: map[string]bool{}}
		send(w.poolMsg())
		hist = append(hist, "pool")
		lateIface := rapid.IntRange(0, 5).Draw(t, "lateInterface") == 5
		if !lateIface {
			w.ifaceUp = true
			for _, r := range rigs {
				w.setIface(r, true)
			}
			hist = append(hist, "iface(up=true)")
		} else {
			classes["interface-arrives-late"] = true
		}
		nInit := nNames - rapid.IntRange(0, nNames).Draw(t, "nodesNotInitiallyPresent")
		for i := 0; i < nInit; i++ {
			join()
		}
		nSvc := 3 - rapid.IntRange(0, 3).Draw(t, "initialServicesOmitted")
		for i := 0; i < nSvc; i++ {
			svcOp()
		}
		bs.other = true
		endBatch("batch 0 (bootstrap)")

		// --- generated batches ------------------------------------------------------------
		nBatches := rapid.IntRange(1, ev.Scale(5, 8)).Draw(t, "nBatches")
		for b := 1; b <= nBatches; b++ {
			bs = &batchState{removed: map[string]bool{}}
			kind := rapid.SampledFrom([]string{"nodes", "swap", "nodes", "mixed", "services", "nodes", "mixed"}).Draw(t, "batchKind")
			nMsgs := rapid.IntRange(1, 4).Draw(t, "nOps")
			label := fmt.Sprintf("batch %d (%s)", b, kind)
			for i := 0; i < nMsgs; i++ {
				switch kind {
				case "nodes":
					nodeOp()
				case "swap":
					if rapid.Bool().Draw(t, "joinFirst") {
						if join() {
							leave()
						} else {
							leave()
							join()
						}
					} else {
						if leave() {
							join()
						} else {
							join()
							leave()
						}
					}
				case "services":
					svcOp()
				case "mixed":
					switch rapid.SampledFrom([]string{"node", "svc", "node", "iface"}).Draw(t, "mixedOp") {
					case "node":
						nodeOp()
					case "svc":
						svcOp()
					case "iface":
						if lateIface || rapid.Bool().Draw(t, "reallyFlap") {
							ifaceOp()
						} else {
							svcOp()
						}
					}
				}
				// one Felix instance may complete early (its own batch boundary)
				if i < nMsgs-1 && rapid.IntRange(0, 3).Draw(t, "earlyComplete") == 3 {
					r := rigs[rapid.IntRange(0, len(rigs)-1).Draw(t, "earlyCompleter")]
					hist = append(hist, fmt.Sprintf("|%s", r.hostname))
					shape = append(shape, "|1")
					classes["single-manager-completes-mid-batch"] = true
					complete(r, fmt.Sprintf("%s, early completion on %s", label, r.hostname))
				}
			}
			endBatch(label)
		}

		if nontrivial {
			classes["nontrivial"] = true
		}
		var cl []string
		for c := range classes {
			cl = append(cl, c)
		}
		sort.Strings(cl)
		key := fmt.Sprintf("v%d/n%d/%s/%s", family, nNames, strings.Join(nameClasses, "+"), strings.Join(shape, ","))
		rec.SizedCase(nontrivial, key, len(shape), func() any {
			return map[string]any{"ipFamily": family, "nodeNames": w.names, "history": histStr(), "finalMembers": w.members(), "finalLB": w.currentLB()}
		}, cl...)
	})
}

// TestVerifC45RegressionAddrLost is the deterministic regression test for the finding fixed in
// /repo 93258d3: node-1 is a member, then reports no address of the manager's family any more; a
// manager that saw this history must answer for the same addresses as one started afterwards.
func TestVerifC45RegressionAddrLost(t *testing.T) {
	ev.Quiet()
	for _, family := range []uint8{4, 6} {
		w := &c45mWorld{family: family, names: []string{"node-0", "node-1"}, nodes: map[string]c45mNodeAddrs{}, svcs: map[string]*proto.ServiceUpdate{}}
		pool := c45mAddrPool(family)[:8]
		w.svcs["default/web"] = &proto.ServiceUpdate{Namespace: "default", Name: "web", Type: "LoadBalancer", LoadbalancerIngressIps: pool}
		for i, local := range []string{"node-0", "node-1", "node-0", "node-1"} {
			// with and without an unrelated change that makes the manager recompute anyway
			nudge := i >= 2
			r := c45mNewRig(family, local)
			r.mgr.OnUpdate(w.poolMsg())
			w.ifaceUp = true
			w.setIface(r, true)
			w.nodes["node-0"] = c45mNodeAddrs{V4: "172.16.0.1/24", V6: "2001:db8::1/64"}
			w.nodes["node-1"] = c45mNodeAddrs{V4: "172.16.0.2/24", V6: "2001:db8::2/64"}
			r.mgr.OnUpdate(w.nodeMsg("node-0"))
			r.mgr.OnUpdate(w.nodeMsg("node-1"))
			r.mgr.OnUpdate(w.svcs["default/web"])
			if err := r.mgr.CompleteDeferredWork(); err != nil {
				t.Fatalf("HARNESS-GAP: %v", err)
			}
			// node-1 keeps only its address of the other family
			if family == 4 {
				w.nodes["node-1"] = c45mNodeAddrs{V6: "2001:db8::2/64"}
			} else {
				w.nodes["node-1"] = c45mNodeAddrs{V4: "172.16.0.2/24"}
			}
			r.mgr.OnUpdate(w.nodeMsg("node-1"))
			if nudge {
				r.mgr.OnUpdate(&proto.ServiceUpdate{Namespace: "default", Name: "other", Type: "ClusterIP"})
				r.mgr.OnUpdate(w.svcs["default/web"])
			}
			if err := r.mgr.CompleteDeferredWork(); err != nil {
				t.Fatalf("HARNESS-GAP: %v", err)
			}
			f := w.fresh(local, false, true)
			got, want := r.claims(), f.claims()
			r.mgr.Stop()
			f.mgr.Stop()
			if strings.Join(got, ",") != strings.Join(want, ",") {
				t.Fatalf("IPv%d manager on %s (unrelated service change in the same batch: %v): node-1 was a member and then reported no IPv%d address; this manager answers for %v, a manager started afterwards answers for %v (members now: %v)",
					family, local, nudge, family, got, want, w.members())
			}
		}
	}
}

// TestVerifC45RegressionMixedCaseLeave: a small fixed history over node names that are legal Felix
// hostnames but not all lower case (and two that differ only by case): the nodes join, one with an
// upper-case letter leaves.  Every manager must answer exactly as a manager started afterwards, and
// every address must have exactly one answering node.
func TestVerifC45RegressionMixedCaseLeave(t *testing.T) {
	ev.Quiet()
	for _, family := range []uint8{4, 6} {
		names := []string{"worker-a", "Worker-B", "worker-b", "node.Example.com", "RACK_1.host"}
		for _, leaver := range []string{"Worker-B", "node.Example.com", "RACK_1.host", "worker-b"} {
			w := &c45mWorld{family: family, names: names, nodes: map[string]c45mNodeAddrs{}, svcs: map[string]*proto.ServiceUpdate{}, ifaceUp: true}
			w.svcs["default/web"] = &proto.ServiceUpdate{Namespace: "default", Name: "web", Type: "LoadBalancer", LoadbalancerIngressIps: c45mAddrPool(family)[:8]}
			var rigs []*c45mRig
			for i, n := range names {
				w.nodes[n] = c45mNodeAddrs{V4: fmt.Sprintf("172.16.0.%d/24", i+1), V6: fmt.Sprintf("2001:db8::%x/64", i+1)}
			}
			for _, n := range names {
				r := c45mNewRig(family, n)
				r.mgr.OnUpdate(w.poolMsg())
				w.setIface(r, true)
				for _, m := range names {
					r.mgr.OnUpdate(w.nodeMsg(m))
				}
				r.mgr.OnUpdate(w.svcs["default/web"])
				if err := r.mgr.CompleteDeferredWork(); err != nil {
					t.Fatalf("HARNESS-GAP: %v", err)
				}
				rigs = append(rigs, r)
			}
			delete(w.nodes, leaver)
			answered := map[string][]string{}
			for _, r := range rigs {
				r.mgr.OnUpdate(&proto.HostMetadataRemove{Hostname: leaver})
				if err := r.mgr.CompleteDeferredWork(); err != nil {
					t.Fatalf("HARNESS-GAP: %v", err)
				}
				f := w.fresh(r.hostname, false, true)
				got, want := r.claims(), f.claims()
				r.mgr.Stop()
				f.mgr.Stop()
				if strings.Join(got, ",") != strings.Join(want, ",") {
					t.Fatalf("IPv%d: nodes %v joined, then %q left: manager on %q answers for %v, a manager started afterwards answers for %v",
						family, names, leaver, r.hostname, got, want)
				}
				for _, ip := range got {
					answered[ip] = append(answered[ip], r.hostname)
				}
			}
			for _, ip := range w.currentLB() {
				if who := answered[ip]; len(who) != 1 || !w.isMember(who[0]) {
					t.Fatalf("IPv%d: nodes %v joined, then %q left: address %s is answered by %v; exactly one current member (%v) must answer",
						family, names, leaver, ip, who, w.members())
				}
			}
		}
	}
}
