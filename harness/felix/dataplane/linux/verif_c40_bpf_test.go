package intdataplane

// C40, unit "bpfmode" — sentence 2 of the property in Felix's BPF dataplane mode: packets
// arriving from an interface that matches a workload prefix but that Felix does not know are
// dropped on both the input and the forward path.
//
// In BPF mode an interface Felix knows has a BPF program attached, and that program stamps
// every packet it lets through with the SEEN mark (felix/bpf/tc/defs).  An unknown interface
// has no program, so its packets reach netfilter without the SEEN mark, and the top-level
// rules programmed by InternalDataplane.setUpIptablesBPF() are what drops them.
//
// Real code: the REAL (unexported) InternalDataplane.setUpIptablesBPF(), run against
// recording tables (verifkit/nfsim's recorder tables: every rule is rendered to TEXT by
// Felix's own renderers and then interpreted), including the raw-table chains it takes from
// rules.StaticBPFModeRawChains.  The configuration space is small and enumerated completely.

import (
	"fmt"
	"net/netip"
	"strings"
	"testing"

	tcdefs "github.com/projectcalico/calico/felix/bpf/tc/defs"
	"github.com/projectcalico/calico/felix/generictables"
	"github.com/projectcalico/calico/felix/ipsets"
	"github.com/projectcalico/calico/felix/iptables"
	"github.com/projectcalico/calico/felix/nftables"
	"github.com/projectcalico/calico/felix/rules"
	"github.com/projectcalico/calico/verifkit/ev"
	"github.com/projectcalico/calico/verifkit/nfsim"
)

type c40bpfCfg struct {
	ipv            int
	nft            bool
	action         string // DefaultEndpointToHostAction
	prefixes       []string
	denyAction     string
	allowAction    string
	bpfIPv6        bool
	ctBypass       bool // BPFHostConntrackBypass
	wireguard      bool // WireGuard enabled for this IP version, host traffic encrypted
	extSvcConnmark int
}

func (c c40bpfCfg) String() string {
	return fmt.Sprintf("ipv=%d nft=%v endpointToHostAction=%q prefixes=%v deny=%s filterAllow=%s bpfIPv6=%v hostConntrackBypass=%v wireguard=%v extToServiceConnmark=%#x",
		c.ipv, c.nft, c.action, c.prefixes, c.denyAction, c.allowAction, c.bpfIPv6, c.ctBypass, c.wireguard, c.extSvcConnmark)
}

type c40bpfWorld struct {
	cfg    c40bpfCfg
	tables []*nfsim.Table
}

func (w *c40bpfWorld) chain(table, name string) string {
	if w.cfg.nft {
		return nfsim.NFTName(table, name)
	}
	return name
}

// c40bpfBuild runs the real setUpIptablesBPF() against recorder tables.
func c40bpfBuild(c c40bpfCfg) (*c40bpfWorld, error) {
	rc := rules.Config{
		IPSetConfigV4:         ipsets.NewIPVersionConfig(ipsets.IPFamilyV4, "cali", nil, nil),
		IPSetConfigV6:         ipsets.NewIPVersionConfig(ipsets.IPFamilyV6, "cali", nil, nil),
		WorkloadIfacePrefixes: c.prefixes,
		// BPF mode: Felix's own iptables marks live outside tcdefs.MarksMask.
		MarkAccept: 0x10000, MarkPass: 0x20000, MarkScratch0: 0x40000, MarkScratch1: 0x80000, MarkDrop: 0x100,
		MarkEndpoint: 0xff000000 &^ tcdefs.MarksMask, MarkNonCaliEndpoint: 0x20000000,
		EndpointToHostAction:     c.action,
		FilterDenyAction:         c.denyAction,
		FilterAllowAction:        c.allowAction,
		BPFEnabled:               true,
		NFTablesEnabled:          c.nft,
		VXLANPort:                4789,
		WireguardInterfaceName:   "wireguard.cali",
		WireguardInterfaceNameV6: "wg-v6.cali",
		WireguardListeningPort:   51820,
		WireguardListeningPortV6: 51821,
		WireguardMark:            0x200,
	}
	if c.wireguard {
		rc.WireguardEnabled = c.ipv == 4
		rc.WireguardEnabledV6 = c.ipv == 6
		rc.WireguardEncryptHostTraffic = true
	}
	w := &c40bpfWorld{cfg: c}
	order := []string{"raw", "mangle", "nat", "filter"}
	tbls := map[string]generictables.Table{}
	rss := map[string]*nfsim.Ruleset{}
	if c.nft {
		rs, rawT := nfsim.NewNFT(c.ipv, "raw")
		tbls["raw"], rss["raw"] = rawT, rs
		for _, n := range order[1:] {
			tbls[n], rss[n] = nfsim.AddNFTLayer(rs, n), rs
		}
	} else {
		for _, n := range order {
			rs, tb := nfsim.NewIptables(c.ipv)
			tbls[n], rss[n] = tb, rs
		}
	}
	d := &InternalDataplane{
		config: Config{
			BPFEnabled:              true,
			BPFIpv6Enabled:          c.bpfIPv6,
			BPFHostConntrackBypass:  c.ctBypass,
			BPFExtToServiceConnmark: c.extSvcConnmark,
			RulesConfig:             rc,
		},
		ruleRenderer:    rules.NewRenderer(rc, c.nft),
		newMatch:        iptables.Match,
		actions:         iptables.Actions(),
		nftablesEnabled: c.nft,
		filterTables:    []generictables.Table{tbls["filter"]},
		natTables:       []generictables.Table{tbls["nat"]},
		rawTables:       []generictables.Table{tbls["raw"]},
		mangleTables:    []generictables.Table{tbls["mangle"]},
	}
	d.config.Wireguard.EncryptHostTraffic = c.wireguard
	if c.nft {
		d.newMatch = nftables.Match
		d.actions = nftables.Actions()
	}

	d.setUpIptablesBPF() // the code under test

	// Chains owned by other managers (empty = nothing configured / no known endpoint).
	stubs := map[string][]string{
		"filter": {rules.ChainToWorkloadDispatch},
		"nat":    {rules.ChainFIPSnat, rules.ChainNATOutgoing},
		"raw":    {rules.ChainDispatchToHostEndpoint, rules.ChainRpfSkip},
	}
	for n, ss := range stubs {
		for _, s := range ss {
			if cn := w.chain(n, s); !rss[n].HasChain(cn) {
				rss[n].Stub(cn)
			}
		}
	}
	for _, n := range order {
		rs := rss[n]
		if err := rs.Err(); err != nil {
			return nil, err
		}
		tb := &nfsim.Table{Name: n, RS: rs, Hooks: map[string]string{}}
		for _, h := range []string{nfsim.HookPrerouting, nfsim.HookInput, nfsim.HookForward, nfsim.HookOutput, nfsim.HookPostrouting} {
			if cn := w.chain(n, h); rs.HasChain(cn) {
				tb.Hooks[h] = cn
			}
		}
		w.tables = append(w.tables, tb)
	}
	for _, h := range []string{nfsim.HookInput, nfsim.HookForward} {
		if !rss["filter"].HasChain(w.chain("filter", h)) {
			return nil, fmt.Errorf("setUpIptablesBPF programmed no rules into filter %s", h)
		}
	}
	return w, nil
}

func (w *c40bpfWorld) dump() string {
	var b strings.Builder
	seen := map[*nfsim.Ruleset]bool{}
	for _, tb := range w.tables {
		if !seen[tb.RS] {
			seen[tb.RS] = true
			fmt.Fprintf(&b, "=== table %s\n%s", tb.Name, tb.RS.Dump())
		}
	}
	return b.String()
}

func c40bpfDescribePath(r *nfsim.PathResult) string {
	var b strings.Builder
	for _, s := range r.Steps {
		fmt.Fprintf(&b, "    %s/%s: verdict=%s mark-out=%#x final=%v chains=%v\n", s.Table, s.Hook, s.Result.Verdict, s.Result.Mark, s.Result.Final, s.Result.Chains)
	}
	return b.String()
}

var (
	c40bpfPathInput   = []string{nfsim.HookPrerouting, nfsim.HookInput}
	c40bpfPathForward = []string{nfsim.HookPrerouting, nfsim.HookForward, nfsim.HookPostrouting}
)

type c40bpfProbe struct {
	path    string // "input" / "forward"
	hooks   []string
	pk      nfsim.Packet
	comment string
}

// c40bpfProbes: packets from an unknown workload-prefixed interface.  mark is the mark the
// packet carries when it reaches netfilter.
func c40bpfProbes(c c40bpfCfg, iface string, mark uint32, dstTypes []string) []c40bpfProbe {
	a := netip.MustParseAddr
	src, host, remote := a("10.65.0.9"), a("192.168.0.1"), a("172.16.0.9")
	if c.ipv == 6 {
		src, host, remote = a("fd00:b::9"), a("fd00:a::1"), a("2001:db8::9")
	}
	var out []c40bpfProbe
	for _, state := range []string{"NEW", "ESTABLISHED", "INVALID"} {
		for _, proto := range []uint8{6, 17} {
			base := nfsim.Packet{IPVersion: c.ipv, Proto: proto, Src: src, SrcPort: 40000, DstPort: 8080, InIf: iface, CTState: state, LimitOK: true, Mark: mark, TCPSyn: proto == 6 && state == "NEW"}
			for _, dt := range dstTypes {
				p := base
				p.Dst, p.DstAddrType = host, dt
				out = append(out, c40bpfProbe{"input", c40bpfPathInput, p, "dst address type " + dt})
			}
			for _, oif := range []string{"eth0", c.prefixes[0] + "known1"} {
				p := base
				p.Dst, p.OutIf = remote, oif
				out = append(out, c40bpfProbe{"forward", c40bpfPathForward, p, "out " + oif})
			}
		}
	}
	return out
}

// Known finding (see KNOWN_FINDINGS.json): the raw PREROUTING chain of BPF mode marks every
// packet whose destination is a local address with MarkSeenSkipFIB, which CONTAINS the SEEN
// bit, before the filter table runs; so for traffic to a local address the filter INPUT rules
// can no longer tell that the packet never went through a BPF program.
const c40bpfSigRawSetsSeen = "c40-bpf-raw-prerouting-sets-seen-bit-on-to-host-traffic"

func c40bpfConfigs() []c40bpfCfg {
	var out []c40bpfCfg
	for _, ipv := range []int{4, 6} {
		for _, nft := range []bool{false, true} {
			for _, action := range []string{"DROP", "RETURN", "ACCEPT"} {
				for _, prefixes := range [][]string{{"cali"}, {"cali", "tap"}} {
					for _, deny := range []string{"DROP", "REJECT"} {
						for _, bits := range []int{0, 1, 2, 3, 4, 5, 6, 7} {
							for _, connmark := range []int{0, 0x80} {
								for _, allow := range []string{"ACCEPT", "RETURN"} {
									out = append(out, c40bpfCfg{ipv: ipv, nft: nft, action: action, prefixes: prefixes, denyAction: deny, allowAction: allow,
										bpfIPv6: bits&1 != 0, ctBypass: bits&2 != 0, wireguard: bits&4 != 0, extSvcConnmark: connmark})
								}
							}
						}
					}
				}
			}
		}
	}
	return out
}

func c40bpfDropped(v nfsim.Verdict) bool { return v == nfsim.VerdictDrop || v == nfsim.VerdictReject }

func c40bpfRun(t *testing.T, w *c40bpfWorld, pr c40bpfProbe) *nfsim.PathResult {
	res, err := nfsim.RunPath(w.tables, pr.hooks, &pr.pk, nil)
	if err != nil {
		if strings.Contains(err.Error(), "HARNESS-GAP") {
			t.Fatalf("%v", err)
		}
		t.Fatalf("C40 violated: the rules programmed by setUpIptablesBPF cannot be executed: %v\n  config: %s\n%s", err, w.cfg, w.dump())
	}
	return res
}

func TestVerifC40BPFModeUnknownWorkloadIface(t *testing.T) {
	ev.Quiet()
	rec := ev.New("C40", "bpfmode",
		"exhaustive: IP version x renderer x DefaultEndpointToHostAction {DROP,RETURN,ACCEPT} x 1-2 workload prefixes x deny action x filter allow action x BPFIpv6Enabled x BPFHostConntrackBypass x WireGuard(host encryption) x BPFExtToServiceConnmark; for each the REAL setUpIptablesBPF() programs recorder tables (raw incl. StaticBPFModeRawChains, mangle, nat, filter); probes = packets from unknown interfaces of every workload prefix (bare prefix, prefix+suffix), tcp/udp, ct states NEW/ESTABLISHED/INVALID, several entry marks WITHOUT the BPF SEEN bit, on the input path (PREROUTING, INPUT) and the forward path (PREROUTING, FORWARD, POSTROUTING; out-interface fabric or workload): every one must be dropped; the twin packet WITH the SEEN mark must not be dropped by these rules (non-vacuity). "+
			"Every configuration is non-trivial; distinct = configuration",
		"an interface Felix does not know has no BPF program attached, so its packets reach netfilter without tcdefs.MarkSeen",
		"nfsim interprets the rendered text; chains owned by other managers (cali-to-wl-dispatch, nat chains, raw host-endpoint dispatch) are empty")
	defer rec.Write()
	rec.Extra("exhaustive", true)
	rawSetsSeenKnown := ev.Known(c40bpfSigRawSetsSeen)

	// Entry marks without the SEEN bit: nothing, bits outside the BPF mark space, and BPF mark
	// bits other than SEEN (none of them is a valid BPF mark without SEEN).
	noSeenMarks := []uint32{0, 0x5, 0x02000000, 0x0e000000 | 0x00f00000}
	for _, m := range noSeenMarks {
		if m&tcdefs.MarkSeenMask == tcdefs.MarkSeen {
			t.Fatalf("HARNESS-GAP: probe mark %#x carries the SEEN mark", m)
		}
	}
	for _, c := range c40bpfConfigs() {
		w, err := c40bpfBuild(c)
		if err != nil {
			if _, gap := err.(*nfsim.GapError); gap {
				t.Fatalf("%v", err)
			}
			t.Fatalf("C40 violated: rules programmed by setUpIptablesBPF cannot be loaded: %v\n  config: %s", err, c)
		}
		dstTypes := []string{"LOCAL", "BROADCAST", "MULTICAST"}
		if rawSetsSeenKnown {
			rec.Excluded(c40bpfSigRawSetsSeen)
			dstTypes = []string{"BROADCAST", "MULTICAST"}
		}
		classes := map[string]bool{}
		nProbes := 0
		for _, pfx := range c.prefixes {
			for _, iface := range []string{pfx, pfx + "deadbeef01"} {
				for _, mark := range noSeenMarks {
					for _, pr := range c40bpfProbes(c, iface, mark, dstTypes) {
						nProbes++
						res := c40bpfRun(t, w, pr)
						if !c40bpfDropped(res.Verdict) {
							t.Fatalf("C40 violated (BPF mode): packet from unknown workload-prefixed interface %q without the BPF SEEN mark was not dropped on the %s path\n  config: %s\n  packet: proto=%d %s -> %s (%s) ctstate=%s mark-in=%#x out=%q\n  outcome: %s\n%s%s",
								iface, pr.path, c, pr.pk.Proto, pr.pk.Src, pr.pk.Dst, pr.comment, pr.pk.CTState, pr.pk.Mark, pr.pk.OutIf, res.Verdict, c40bpfDescribePath(res), w.dump())
						}
						for _, s := range res.Steps {
							if c40bpfDropped(s.Result.Verdict) {
								classes[pr.path+":dropped-in-"+s.Table+"-"+s.Hook] = true
							}
						}
					}
				}
				// Non-vacuity: the same traffic WITH the SEEN mark (a known interface's BPF
				// program approved it) is not dropped by these rules.
				for _, pr := range c40bpfProbes(c, iface, tcdefs.MarkSeen, []string{"LOCAL"}) {
					if pr.pk.CTState != "NEW" || pr.pk.OutIf == c.prefixes[0]+"known1" {
						continue // to-workload traffic is the (stubbed) dispatch chain's business
					}
					if c.ipv == 6 && !c.bpfIPv6 && pr.path == "forward" && strings.HasPrefix(pr.pk.OutIf, c.prefixes[0]) {
						continue
					}
					res := c40bpfRun(t, w, pr)
					if c40bpfDropped(res.Verdict) {
						t.Fatalf("C40 bpfmode sanity: packet WITH the SEEN mark was dropped on the %s path (the drop of unmarked packets would be vacuous)\n  config: %s\n  packet: proto=%d %s mark-in=%#x out=%q\n%s%s",
							pr.path, c, pr.pk.Proto, pr.comment, pr.pk.Mark, pr.pk.OutIf, c40bpfDescribePath(res), w.dump())
					}
					classes[pr.path+":seen-mark-passes"] = true
				}
			}
		}
		// Sentence 3 in BPF mode ("workload traffic to the host passes the workload's egress policy
		// before the configured endpoint-to-host action"): the BPF program stamps
		// MarkSeenFallThrough on a to-host packet it did NOT evaluate policy for (mid-flow packet
		// without BPF conntrack state) and leaves the decision to Linux conntrack.  Such a packet
		// from a workload interface, known or not, that Linux conntrack does not know either has
		// passed no policy, so no endpoint-to-host action may let it in: it must be dropped.
		for _, pfx := range c.prefixes {
			for _, iface := range []string{pfx + "known1", pfx + "deadbeef01"} {
				for _, mark := range []uint32{tcdefs.MarkSeenFallThrough, tcdefs.MarkSeenFallThrough | 0x5} {
					for _, pr := range c40bpfProbes(c, iface, mark, []string{"LOCAL", "BROADCAST"}) {
						if pr.path != "input" || pr.pk.CTState == "ESTABLISHED" {
							continue // flows Linux conntrack knows pre-date the BPF programs and are let through
						}
						nProbes++
						res := c40bpfRun(t, w, pr)
						if !c40bpfDropped(res.Verdict) {
							t.Fatalf("C40 violated (BPF mode): workload-to-host packet carrying the fall-through mark %#x (the BPF program did not evaluate the workload's egress policy) and unknown to Linux conntrack (ctstate %s) was not dropped: it reached the endpoint-to-host action %q without passing policy\n  config: %s\n  packet: proto=%d in=%q %s\n  outcome: %s\n%s%s",
								pr.pk.Mark, pr.pk.CTState, c.action, c, pr.pk.Proto, iface, pr.comment, res.Verdict, c40bpfDescribePath(res), w.dump())
						}
						classes["fallthrough:unpoliced-"+strings.ToLower(pr.pk.CTState)+"-dropped"] = true
					}
				}
			}
		}
		var cl []string
		for k := range classes {
			cl = append(cl, k)
		}
		cl = append(cl, fmt.Sprintf("v%d", c.ipv), map[bool]string{false: "iptables", true: "nft"}[c.nft], "to-host-action:"+c.action, fmt.Sprintf("prefixes-%d", len(c.prefixes)))
		rec.SizedCase(true, c.String(), nProbes, func() any {
			return map[string]any{"config": c.String(), "probes": nProbes, "rendered": strings.Split(w.dump(), "\n")}
		}, cl...)
	}
}

// ---- deterministic confirmation test for the known finding (run by the driver only while the
// signature is listed in KNOWN_FINDINGS.json; it FAILS while the finding reproduces) ----

func TestVerifC40BPFConfirmRawSetsSeen(t *testing.T) {
	ev.Quiet()
	for _, action := range []string{"DROP", "ACCEPT"} {
		c := c40bpfCfg{ipv: 4, action: action, prefixes: []string{"cali"}, denyAction: "DROP", allowAction: "ACCEPT"}
		w, err := c40bpfBuild(c)
		if err != nil {
			t.Fatalf("cannot load: %v", err)
		}
		for _, pr := range c40bpfProbes(c, "calideadbeef01", 0, []string{"LOCAL"}) {
			if pr.path != "input" {
				continue
			}
			res := c40bpfRun(t, w, pr)
			if !c40bpfDropped(res.Verdict) {
				t.Fatalf("C40 violated (BPF mode, DefaultEndpointToHostAction=%s): a packet to a local address from the unknown interface calideadbeef01, entering netfilter with mark 0 (no BPF program, no SEEN mark), is not dropped on the input path: raw PREROUTING stamps MarkSeenSkipFIB (%#x, contains MarkSeen %#x) on it, so filter INPUT treats it as seen\n  outcome: %s\n%s%s",
					action, uint32(tcdefs.MarkSeenSkipFIB), uint32(tcdefs.MarkSeen), res.Verdict, c40bpfDescribePath(res), w.dump())
			}
		}
	}
}
