package intdataplane

// C43 (b) — cluster routes take the path the pool's encapsulation requires (dataplane side).
//
// The real vxlanManager / ipipManager / noEncapManager (all built on routeManager) are driven
// with generated histories of RouteUpdate/RouteRemove messages (remote blocks, borrowed IPs,
// local blocks, local workload addresses; all pool types), VTEP and host-metadata updates for
// the nodes, and parent-device changes, in arbitrary order, against a recording route table.
// After every CompleteDeferredWork the recorded routes are compared with what the statement
// demands for the messages received so far; at the end the missing node information is
// delivered and the strict form is checked, plus a differential against a fresh manager that
// only sees the final state.

import (
	"fmt"
	"net"
	"sort"
	"strings"
	"testing"

	"github.com/vishvananda/netlink"
	"pgregory.net/rapid"

	"github.com/projectcalico/calico/felix/dataplane/linux/dataplanedefs"
	"github.com/projectcalico/calico/felix/ifacemonitor"
	"github.com/projectcalico/calico/felix/ipsets"
	"github.com/projectcalico/calico/felix/netlinkshim"
	"github.com/projectcalico/calico/felix/proto"
	"github.com/projectcalico/calico/felix/routetable"
	"github.com/projectcalico/calico/felix/vxlanfdb"
	"github.com/projectcalico/calico/lib/logrusr"
	"github.com/projectcalico/calico/libcalico-go/lib/set"
	"github.com/projectcalico/calico/verifkit/ev"
)

// ---------------------------------------------------------------------------------------
// Doubles.

type c43RouteKey struct {
	class routetable.RouteClass
	iface string
}

type c43Routes struct {
	routes map[c43RouteKey]map[string]routetable.Target // CIDR string -> target
}

func c43NewRoutes() *c43Routes {
	return &c43Routes{routes: map[c43RouteKey]map[string]routetable.Target{}}
}

func (r *c43Routes) SetRoutes(class routetable.RouteClass, iface string, targets []routetable.Target) {
	k := c43RouteKey{class, iface}
	if len(targets) == 0 {
		delete(r.routes, k)
		return
	}
	m := map[string]routetable.Target{}
	for _, t := range targets {
		m[t.CIDR.String()] = t
	}
	r.routes[k] = m
}
func (r *c43Routes) RouteRemove(class routetable.RouteClass, iface string, key routetable.RouteKey) {
	k := c43RouteKey{class, iface}
	delete(r.routes[k], key.CIDR.String())
	if len(r.routes[k]) == 0 {
		delete(r.routes, k)
	}
}
func (r *c43Routes) RouteUpdate(class routetable.RouteClass, iface string, target routetable.Target) {
	k := c43RouteKey{class, iface}
	if r.routes[k] == nil {
		r.routes[k] = map[string]routetable.Target{}
	}
	r.routes[k][target.CIDR.String()] = target
}
func (r *c43Routes) OnIfaceStateChanged(string, int, ifacemonitor.State) {}
func (r *c43Routes) QueueResync()                                        {}
func (r *c43Routes) QueueResyncIface(string)                             {}
func (r *c43Routes) Index() int                                          { return 0 }
func (r *c43Routes) Apply() error                                        { return nil }
func (r *c43Routes) ReadRoutesFromKernel(string) ([]routetable.Target, error) {
	return nil, nil
}

// snapshot renders all recorded routes, sorted.
func (r *c43Routes) snapshot() []string {
	var out []string
	for k, m := range r.routes {
		for c, t := range m {
			out = append(out, fmt.Sprintf("%v/%s %s type=%v gw=%v", k.class, k.iface, c, t.Type, t.GW))
		}
	}
	sort.Strings(out)
	return out
}

// find returns the interfaces on which class has a route for cidr.
func (r *c43Routes) find(class routetable.RouteClass, cidr string) map[string]routetable.Target {
	out := map[string]routetable.Target{}
	for k, m := range r.routes {
		if k.class != class {
			continue
		}
		if t, ok := m[cidr]; ok {
			out[k.iface] = t
		}
	}
	return out
}

// c43Netlink answers the two calls routeManager.detectParentIface makes.
type c43Netlink struct {
	netlinkshim.Interface                     // nil: nothing else is used on the paths driven here
	addrs                 map[string][]string // link name -> addresses
}

func (n *c43Netlink) LinkList() ([]netlink.Link, error) {
	var names []string
	for k := range n.addrs {
		names = append(names, k)
	}
	sort.Strings(names)
	var out []netlink.Link
	for i, name := range names {
		out = append(out, &netlink.Dummy{LinkAttrs: netlink.LinkAttrs{Name: name, Index: i + 2}})
	}
	return out, nil
}
func (n *c43Netlink) AddrList(link netlink.Link, family int) ([]netlink.Addr, error) {
	var out []netlink.Addr
	for _, a := range n.addrs[link.Attrs().Name] {
		parsed := net.ParseIP(a)
		isV4 := parsed.To4() != nil
		if (family == netlink.FAMILY_V4) != isV4 {
			continue
		}
		out = append(out, netlink.Addr{IPNet: &net.IPNet{IP: parsed}})
	}
	return out, nil
}

type c43IPSets struct{}

func (c43IPSets) AddOrReplaceIPSet(ipsets.IPSetMetadata, []string) {}
func (c43IPSets) AddMembers(string, []string)                      {}
func (c43IPSets) RemoveMembers(string, []string)                   {}
func (c43IPSets) RemoveIPSet(string)                               {}
func (c43IPSets) GetIPFamily() ipsets.IPFamily                     { return ipsets.IPFamilyV4 }
func (c43IPSets) GetTypeOf(string) (ipsets.IPSetType, error)       { return ipsets.IPSetTypeHashNet, nil }
func (c43IPSets) GetDesiredMembers(string) (set.Set[string], error) {
	return set.New[string](), nil
}
func (c43IPSets) QueueResync()                       {}
func (c43IPSets) ApplyUpdates(ipsets.UpdateListener) {}
func (c43IPSets) ApplyDeletions() bool               { return false }
func (c43IPSets) SetFilter(set.Set[string])          {}

type c43FDB struct{}

func (c43FDB) SetVTEPs([]vxlanfdb.VTEP) {}

// ---------------------------------------------------------------------------------------
// The world.

const c43Local = "node-0"

type c43Kind struct {
	Name      string
	IPVersion uint8
	PoolType  proto.IPPoolType
}

var c43Kinds = []c43Kind{
	{"vxlan-v4", 4, proto.IPPoolType_VXLAN},
	{"vxlan-v6", 6, proto.IPPoolType_VXLAN},
	{"ipip-v4", 4, proto.IPPoolType_IPIP},
	{"noencap-v4", 4, proto.IPPoolType_NO_ENCAP},
	{"noencap-v6", 6, proto.IPPoolType_NO_ENCAP},
}

func c43NodeName(k int) string { return fmt.Sprintf("node-%d", k) }

func c43NodeIP(v uint8, k int) string {
	if v == 6 {
		return fmt.Sprintf("fd16::%x", 16+k)
	}
	return fmt.Sprintf("172.16.0.%d", 16+k)
}

func c43VTEPIP(v uint8, k int) string {
	if v == 6 {
		return fmt.Sprintf("fd99::%x", 1+k)
	}
	return fmt.Sprintf("10.99.0.%d", 1+k)
}

// slots: destinations a route update can be about. full = full-length prefix.
type c43Slot struct {
	Dst  string
	Full bool
}

func c43Slots(v uint8) []c43Slot {
	if v == 6 {
		return []c43Slot{
			{"fd10:1::/122", false}, {"fd10:2::/122", false}, {"fd10::/122", false},
			{"fd10:1::5/128", true}, {"fd10::7/128", true}, {"fd10::2/128", true}, {"fd10:3::/128", true},
		}
	}
	return []c43Slot{
		{"10.0.1.0/26", false}, {"10.0.2.0/26", false}, {"10.0.0.0/26", false},
		{"10.0.1.5/32", true}, {"10.0.0.7/32", true}, {"10.0.0.2/32", true}, {"10.0.3.0/32", true},
	}
}

type c43Rig struct {
	kind      c43Kind
	routes    *c43Routes
	rm        *routeManager
	onUpdate  func(any)
	complete  func() error
	tunnelDev string
}

func c43NewRig(kind c43Kind) *c43Rig {
	rt := c43NewRoutes()
	nl := &c43Netlink{addrs: map[string][]string{
		"eth0": {c43NodeIP(4, 0), c43NodeIP(6, 0)},
		"eth1": {"172.16.9.9", "fd16:9::9"},
	}}
	cfg := Config{
		Hostname:                    c43Local,
		ProgramIPIPClusterRoutes:    true,
		ProgramNoEncapClusterRoutes: true,
		DeviceRouteProtocol:         dataplanedefs.DefaultRouteProto,
		MaxIPSetSize:                1000,
		IPIPMTU:                     1440,
	}
	rec := logrusr.NewSummarizer("c43")
	rig := &c43Rig{kind: kind, routes: rt}
	switch kind.PoolType {
	case proto.IPPoolType_VXLAN:
		dev := dataplanedefs.VXLANIfaceNameV4
		if kind.IPVersion == 6 {
			dev = dataplanedefs.VXLANIfaceNameV6
		}
		m := newVXLANManagerWithShims(c43IPSets{}, rt, c43FDB{}, dev, kind.IPVersion, 1410, cfg, rec, nl)
		rig.rm, rig.onUpdate, rig.complete, rig.tunnelDev = m.routeMgr, m.OnUpdate, m.CompleteDeferredWork, dev
	case proto.IPPoolType_IPIP:
		m := newIPIPManagerWithShims(rt, dataplanedefs.IPIPIfaceName, kind.IPVersion, 1440, cfg, rec, nl)
		rig.rm, rig.onUpdate, rig.complete, rig.tunnelDev = m.routeMgr, m.OnUpdate, m.CompleteDeferredWork, dataplanedefs.IPIPIfaceName
	case proto.IPPoolType_NO_ENCAP:
		m := newNoEncapManagerWithSims(rt, kind.IPVersion, cfg, rec, nl)
		rig.rm, rig.onUpdate, rig.complete, rig.tunnelDev = m.routeMgr, m.OnUpdate, m.CompleteDeferredWork, ""
	}
	return rig
}

// nodeInfoMsg: the message by which this kind of manager learns node k's addresses.
func (rig *c43Rig) nodeInfoMsg(k int, remove bool) any {
	v := rig.kind.IPVersion
	if rig.kind.PoolType == proto.IPPoolType_VXLAN {
		if remove {
			return &proto.VXLANTunnelEndpointRemove{Node: c43NodeName(k)}
		}
		msg := &proto.VXLANTunnelEndpointUpdate{Node: c43NodeName(k)}
		mac := fmt.Sprintf("66:00:00:00:00:%02x", k)
		if v == 6 {
			msg.MacV6, msg.Ipv6Addr, msg.ParentDeviceIpv6 = mac, c43VTEPIP(6, k), c43NodeIP(6, k)
		} else {
			msg.Mac, msg.Ipv4Addr, msg.ParentDeviceIp = mac, c43VTEPIP(4, k), c43NodeIP(4, k)
		}
		return msg
	}
	if remove {
		return &proto.HostMetadataRemove{Hostname: c43NodeName(k)}
	}
	// Host metadata always carries the IPv4 address; IPv6 when the node has one.
	return &proto.HostMetadataUpdate{Hostname: c43NodeName(k), Ipv4Addr: c43NodeIP(4, k), Ipv6Addr: c43NodeIP(6, k)}
}

// tunnelGW: the gateway a tunnel route to node k must use, "" if this kind has no tunnel.
func (rig *c43Rig) tunnelGW(k int) string {
	switch rig.kind.PoolType {
	case proto.IPPoolType_VXLAN:
		return c43VTEPIP(rig.kind.IPVersion, k)
	case proto.IPPoolType_IPIP:
		return c43NodeIP(4, k)
	}
	return ""
}

type c43Model struct {
	routes   map[string]*proto.RouteUpdate // by Dst
	owner    map[string]int                // by Dst: node index
	nodeInfo map[int]bool
	parent   string
}

func c43DescribeRoute(r *proto.RouteUpdate) string {
	return fmt.Sprintf("{dst=%s types=%v pool=%v node=%s nodeIP=%q sameSubnet=%v borrowed=%v localWorkload=%v}",
		r.Dst, r.Types, r.IpPoolType, r.DstNodeName, r.DstNodeIp, r.SameSubnet, r.Borrowed, r.LocalWorkload)
}

func (m *c43Model) describe() string {
	var ds []string
	for d := range m.routes {
		ds = append(ds, d)
	}
	sort.Strings(ds)
	var sb strings.Builder
	fmt.Fprintf(&sb, "\n   parent device: %q; node info known: %v", m.parent, m.nodeInfo)
	for _, d := range ds {
		fmt.Fprintf(&sb, "\n   %s", c43DescribeRoute(m.routes[d]))
	}
	return sb.String()
}

// c43Check compares the recorded routes with the statement.  It returns the violations and,
// per checked destination, the path observed ("direct", "tunnel", "blackhole", "none").
func c43Check(rig *c43Rig, m *c43Model) (viol []string, paths map[string]string, classes map[string]bool) {
	paths = map[string]string{}
	classes = map[string]bool{}
	T := rig.kind.PoolType
	classTunnel, classDirect, classBH := rig.rm.routeClassTunnel, rig.rm.routeClassSameSubnet, rig.rm.routeClassBlackhole
	wantBH := map[string]bool{}
	var dsts []string
	for d := range m.routes {
		dsts = append(dsts, d)
	}
	sort.Strings(dsts)
	fullSuffix := "/32"
	if rig.kind.IPVersion == 6 {
		fullSuffix = "/128"
	}
	for _, d := range dsts {
		r := m.routes[d]
		direct := rig.routes.find(classDirect, d)
		tunnel := map[string]routetable.Target{}
		if rig.tunnelDev != "" {
			if t, ok := rig.routes.routes[c43RouteKey{classTunnel, rig.tunnelDev}][d]; ok {
				tunnel[rig.tunnelDev] = t
			}
			// For the no-encap manager both classes are the same; "direct" routes live on the parent.
			delete(direct, rig.tunnelDev)
		}
		if r.IpPoolType != T {
			// A route of another pool type must not show up on this pool type's devices/classes.
			if len(direct) > 0 || len(tunnel) > 0 {
				viol = append(viol, fmt.Sprintf("route %s belongs to a %v pool but the %s manager programmed it: direct=%v tunnel=%v",
					c43DescribeRoute(r), r.IpPoolType, rig.kind.Name, direct, tunnel))
			}
			if len(rig.routes.find(classBH, d)) > 0 {
				viol = append(viol, fmt.Sprintf("route %s belongs to a %v pool but the %s manager programmed a blackhole for it", c43DescribeRoute(r), r.IpPoolType, rig.kind.Name))
			}
			classes["other-pool-type-ignored"] = true
			continue
		}
		if r.Types&proto.RouteType_LOCAL_WORKLOAD != 0 && !r.LocalWorkload && !strings.HasSuffix(d, fullSuffix) {
			wantBH[d] = true
		}
		if r.Types&proto.RouteType_REMOTE_WORKLOAD == 0 || r.DstNodeName == c43Local {
			continue // not a remote block / remote borrowed address: the statement is silent on its path
		}
		wantDirect := T == proto.IPPoolType_NO_ENCAP || r.SameSubnet
		directPossible := m.parent != "" && r.DstNodeIp != ""
		gw := ""
		if m.nodeInfo[m.owner[d]] {
			gw = rig.tunnelGW(m.owner[d])
		}
		switch {
		case wantDirect && directPossible:
			t, ok := direct[m.parent]
			if !ok || t.Type != routetable.TargetTypeNoEncap || t.GW == nil || t.GW.String() != r.DstNodeIp {
				viol = append(viol, fmt.Sprintf("route %s must be a direct (unencapsulated) route via %s on parent device %s; found direct=%v tunnel=%v",
					c43DescribeRoute(r), r.DstNodeIp, m.parent, direct, tunnel))
			}
			if len(direct) > 1 || (len(direct) == 1 && !ok) {
				viol = append(viol, fmt.Sprintf("route %s has direct routes on devices other than the parent device %s: %v", c43DescribeRoute(r), m.parent, direct))
			}
			if len(tunnel) > 0 {
				viol = append(viol, fmt.Sprintf("route %s must be direct but is (also) programmed over the tunnel device: %v", c43DescribeRoute(r), tunnel))
			}
			paths[d] = "direct"
			classes["direct"] = true
			if r.Borrowed {
				classes["borrowed-direct"] = true
			}
		case !wantDirect:
			if len(direct) > 0 {
				viol = append(viol, fmt.Sprintf("route %s is in an encapsulated pool and not same-subnet, but a direct route was programmed: %v", c43DescribeRoute(r), direct))
			}
			if gw != "" {
				t, ok := tunnel[rig.tunnelDev]
				if !ok || t.GW == nil || t.GW.String() != gw {
					viol = append(viol, fmt.Sprintf("route %s must go over tunnel device %s via %s; found tunnel=%v direct=%v", c43DescribeRoute(r), rig.tunnelDev, gw, tunnel, direct))
				}
				paths[d] = "tunnel"
				classes["tunnel"] = true
				if r.Borrowed {
					classes["borrowed-tunnel"] = true
				}
			} else {
				classes["tunnel-awaiting-node-info"] = true
				paths[d] = "none"
			}
		default:
			// Direct wanted but the parent device or the node's address is not known yet: the
			// statement's route cannot exist; whatever stop-gap the manager uses is not judged.
			classes["direct-awaiting-parent-or-node-ip"] = true
			paths[d] = "none"
		}
	}
	// Blackholes: exactly the local blocks (never full-length, never a local workload's address).
	gotBH := rig.routes.routes[c43RouteKey{classBH, routetable.InterfaceNone}]
	for k := range rig.routes.routes {
		if k.class == classBH && k.iface != routetable.InterfaceNone {
			viol = append(viol, fmt.Sprintf("blackhole class routes on a device: %v", k))
		}
	}
	for d, t := range gotBH {
		if t.Type != routetable.TargetTypeBlackhole {
			viol = append(viol, fmt.Sprintf("non-blackhole target %v in the blackhole class", t))
		}
		if !wantBH[d] {
			desc := "<no current route>"
			if r := m.routes[d]; r != nil {
				desc = c43DescribeRoute(r)
			}
			viol = append(viol, fmt.Sprintf("blackhole route for %s but that is not a local block of a %v pool (route: %s)", d, T, desc))
		}
	}
	for d := range wantBH {
		if _, ok := gotBH[d]; !ok {
			viol = append(viol, fmt.Sprintf("local block %s has no blackhole route", c43DescribeRoute(m.routes[d])))
		}
		paths[d] = "blackhole"
		classes["blackhole"] = true
	}
	return
}

// ---------------------------------------------------------------------------------------

func c43DrawRoute(t *rapid.T, kind c43Kind, slot c43Slot) (*proto.RouteUpdate, int) {
	owner := rapid.IntRange(0, 3).Draw(t, "ownerNode")
	pt := kind.PoolType
	if rapid.IntRange(0, 4).Draw(t, "otherPoolType") == 0 {
		pt = rapid.SampledFrom([]proto.IPPoolType{proto.IPPoolType_VXLAN, proto.IPPoolType_IPIP, proto.IPPoolType_NO_ENCAP, proto.IPPoolType_NONE}).Draw(t, "poolType")
	}
	r := &proto.RouteUpdate{Dst: slot.Dst, IpPoolType: pt, DstNodeName: c43NodeName(owner)}
	if owner == 0 {
		r.Types = proto.RouteType_LOCAL_WORKLOAD
	} else {
		r.Types = proto.RouteType_REMOTE_WORKLOAD
	}
	if rapid.IntRange(0, 5).Draw(t, "nodeIPUnknown") > 0 {
		r.DstNodeIp = c43NodeIP(kind.IPVersion, owner)
	}
	// SameSubnet is only ever set by the resolver for cross-subnet (encapsulated) pools.
	if pt == proto.IPPoolType_VXLAN || pt == proto.IPPoolType_IPIP {
		r.SameSubnet = rapid.Bool().Draw(t, "sameSubnet") && r.DstNodeIp != ""
	}
	if slot.Full {
		switch rapid.SampledFrom([]string{"block", "borrowed", "borrowed-across-local", "workload"}).Draw(t, "fullLengthKind") {
		case "borrowed":
			r.Borrowed = true
		case "borrowed-across-local":
			// An address borrowed between the local node and a remote one carries both flags.
			r.Borrowed = true
			r.Types = proto.RouteType_LOCAL_WORKLOAD | proto.RouteType_REMOTE_WORKLOAD
		case "workload":
			if owner == 0 {
				r.LocalWorkload = true
			}
		}
	}
	return r, owner
}

func TestVerifC43RouteManagers(t *testing.T) {
	ev.Quiet()
	rec := ev.New("C43", "routemgr",
		"one of {vxlan v4, vxlan v6, ipip v4, noencap v4, noencap v6} manager per case; histories of RouteUpdate/RouteRemove over 7 destinations (3 blocks, 4 full-length addresses; owner local or one of 3 remote nodes; pool type mostly the manager's, sometimes another; SameSubnet, Borrowed, LocalWorkload, unknown node IP), VTEP / host-metadata updates and removals per node, parent-device changes, CompleteDeferredWork at arbitrary points; non-trivial = before the final completion phase at least one direct/tunnel/blackhole decision of the manager's own pool type was verified with all its preconditions present (classes reroute-* and programmed-after-late-info count the order-sensitive sub-cases: a destination's path changed between two checks, or it was programmed only after late node/parent information); distinct = distinct (kind, op sequence)",
		"RouteUpdate.SameSubnet is the resolver's encoding of 'pool is cross-subnet and the node is in the local subnet' (checked on the calc side of C43)",
		"parent device detection uses a netlink double in which eth0 carries the local node address")
	defer rec.Write()
	rapid.Check(t, func(t *rapid.T) {
		kind := rapid.SampledFrom(c43Kinds).Draw(t, "manager")
		rig := c43NewRig(kind)
		slots := c43Slots(kind.IPVersion)
		m := &c43Model{routes: map[string]*proto.RouteUpdate{}, owner: map[string]int{}, nodeInfo: map[int]bool{}}
		var shape []string
		classes := map[string]bool{}
		nontrivial := false
		prev := map[string]string{}

		complete := func(strict bool) {
			if m.parent == "" && m.nodeInfo[0] {
				m.parent = "eth0" // detectParentIface finds the device carrying the local address
			}
			if err := rig.complete(); err != nil {
				t.Fatalf("CompleteDeferredWork: %v", err)
			}
			viol, paths, cl := c43Check(rig, m)
			if len(viol) > 0 {
				t.Fatalf("C43 violated (%s manager):\n  %s\n state:%s\n recorded routes:\n   %s",
					kind.Name, strings.Join(viol, "\n  "), m.describe(), strings.Join(rig.routes.snapshot(), "\n   "))
			}
			for c := range cl {
				classes[c] = true
			}
			if !strict && (cl["direct"] || cl["tunnel"] || cl["blackhole"]) {
				// A path decision was verified on state produced by the generated history itself
				// (not by the harness's final delivery of missing node information).
				nontrivial = true
			}
			for d, p := range paths {
				if old, ok := prev[d]; ok && old != p && old != "none" {
					nontrivial = true
					classes["reroute-"+old+"-to-"+p] = true
				} else if ok && old == "none" && p != "none" && !strict {
					// (not counted in the final phase, where the harness itself delivers the info)
					classes["programmed-after-late-info"] = true
					nontrivial = true
				}
			}
			prev = paths
		}

		nOps := rapid.IntRange(1, ev.Scale(18, 36)).Draw(t, "nOps")
		for i := 0; i < nOps; i++ {
			switch rapid.SampledFrom([]string{"route", "route", "route", "flip", "flip", "routeRemove", "nodeInfo", "nodeInfo", "nodeInfoRemove", "parent", "complete", "complete", "complete"}).Draw(t, "op") {
			case "flip":
				// Re-announce an existing remote route of this pool type with the other path
				// requirement (SameSubnet flipped) or another owner.
				var cands []string
				for d, r := range m.routes {
					if r.IpPoolType == kind.PoolType && r.Types&proto.RouteType_REMOTE_WORKLOAD != 0 && m.owner[d] != 0 {
						cands = append(cands, d)
					}
				}
				if len(cands) == 0 {
					shape = append(shape, "-")
					continue
				}
				sort.Strings(cands)
				d := rapid.SampledFrom(cands).Draw(t, "flipDst")
				old := m.routes[d]
				r := &proto.RouteUpdate{Dst: d, IpPoolType: old.IpPoolType, Types: old.Types, Borrowed: old.Borrowed,
					DstNodeName: old.DstNodeName, DstNodeIp: old.DstNodeIp, SameSubnet: old.SameSubnet}
				if kind.PoolType != proto.IPPoolType_NO_ENCAP && r.DstNodeIp != "" && rapid.Bool().Draw(t, "flipSameSubnet") {
					r.SameSubnet = !r.SameSubnet
				} else {
					owner := 1 + (m.owner[d] % 3)
					m.owner[d] = owner
					r.DstNodeName, r.DstNodeIp = c43NodeName(owner), c43NodeIP(kind.IPVersion, owner)
				}
				m.routes[d] = r
				rig.onUpdate(r)
				shape = append(shape, fmt.Sprintf("F%s:%d:%v", d, m.owner[d], r.SameSubnet))
			case "route":
				slot := rapid.SampledFrom(slots).Draw(t, "dst")
				r, owner := c43DrawRoute(t, kind, slot)
				m.routes[slot.Dst], m.owner[slot.Dst] = r, owner
				rig.onUpdate(r)
				shape = append(shape, fmt.Sprintf("R%s:%d:%v:%v", slot.Dst, owner, r.IpPoolType, r.SameSubnet))
			case "routeRemove":
				slot := rapid.SampledFrom(slots).Draw(t, "dst")
				if m.routes[slot.Dst] == nil {
					shape = append(shape, "-")
					continue
				}
				delete(m.routes, slot.Dst)
				delete(m.owner, slot.Dst)
				rig.onUpdate(&proto.RouteRemove{Dst: slot.Dst})
				shape = append(shape, "r"+slot.Dst)
			case "nodeInfo":
				k := rapid.IntRange(0, 3).Draw(t, "node")
				m.nodeInfo[k] = true
				rig.onUpdate(rig.nodeInfoMsg(k, false))
				shape = append(shape, fmt.Sprintf("N%d", k))
			case "nodeInfoRemove":
				k := rapid.IntRange(0, 3).Draw(t, "node")
				if !m.nodeInfo[k] {
					shape = append(shape, "-")
					continue
				}
				delete(m.nodeInfo, k)
				rig.onUpdate(rig.nodeInfoMsg(k, true))
				shape = append(shape, fmt.Sprintf("n%d", k))
			case "parent":
				name := rapid.SampledFrom([]string{"eth0", "eth1"}).Draw(t, "parentDevice")
				if m.parent != "" && m.parent != name {
					classes["parent-device-change"] = true
				}
				rig.rm.OnParentDeviceUpdate(name)
				m.parent = name
				shape = append(shape, "P"+name)
			case "complete":
				complete(false)
				shape = append(shape, "|")
			}
		}
		complete(false)
		// Deliver whatever node information is still missing: now every route of this pool type
		// with a known node IP must be on its final path.
		for k := 0; k <= 3; k++ {
			if !m.nodeInfo[k] {
				m.nodeInfo[k] = true
				rig.onUpdate(rig.nodeInfoMsg(k, false))
			}
		}
		complete(true)

		// Differential: a fresh manager given only the final state, in a canonical order.
		fresh := c43NewRig(kind)
		var dsts []string
		for d := range m.routes {
			dsts = append(dsts, d)
		}
		sort.Strings(dsts)
		for _, d := range dsts {
			fresh.onUpdate(m.routes[d])
		}
		for k := 3; k >= 0; k-- {
			fresh.onUpdate(fresh.nodeInfoMsg(k, false))
		}
		fresh.rm.OnParentDeviceUpdate(m.parent)
		if err := fresh.complete(); err != nil {
			t.Fatalf("fresh CompleteDeferredWork: %v", err)
		}
		if a, b := strings.Join(rig.routes.snapshot(), "\n   "), strings.Join(fresh.routes.snapshot(), "\n   "); a != b {
			t.Fatalf("C43 violated (%s manager): routes after the history differ from a fresh manager given only the final state\n history:\n   %s\n fresh:\n   %s\n state:%s",
				kind.Name, a, b, m.describe())
		}

		var cl []string
		for c := range classes {
			cl = append(cl, c)
		}
		sort.Strings(cl)
		cl = append(cl, "kind-"+kind.Name)
		key := kind.Name + ":" + strings.Join(shape, ",")
		rec.SizedCase(nontrivial, key, len(shape), func() any {
			return map[string]any{"manager": kind.Name, "ops": key, "finalRoutes": rig.routes.snapshot()}
		}, cl...)
	})
}
