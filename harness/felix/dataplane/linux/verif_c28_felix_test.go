package intdataplane

// C28, Felix histories — "every IP pool's cluster routes are programmed by exactly one of Felix and
// BIRD" must also hold after pools change inside a running Felix.
//
// One long-lived Felix route pipeline — the real calc.L3RouteResolver feeding the real IPIP,
// no-encap and VXLAN (IPv4) managers over the package's mock route table, the managers created
// under the conditions int_dataplane.go applies to the configuration and encapsulation summary
// Felix started with — is driven through a generated history of pool changes (added, edited
// between encapsulation modes, disabled, deleted) that do not change Felix's encapsulation summary
// (a change of the summary makes Felix restart; the harness then starts a new pipeline from the
// current state, as the restart does).  Every pool has one block on a remote node.  After each
// step Felix programs a route for the block  <=>  Felix's programClusterRoutes setting assigns
// the pool's *current* class to Felix (VXLAN: always), and the set of programmed routes equals
// that of a fresh pipeline given only the final state.  BIRD's half of the decision (confd's
// kernel filter for the same pool and the complementary setting) is checked in the confd units.

import (
	"fmt"
	"net"
	"sort"
	"strings"
	"testing"

	"github.com/onsi/gomega"
	"github.com/vishvananda/netlink"
	"pgregory.net/rapid"

	"github.com/projectcalico/calico/felix/calc"
	"github.com/projectcalico/calico/felix/config"
	dpsets "github.com/projectcalico/calico/felix/dataplane/ipsets"
	"github.com/projectcalico/calico/felix/dataplane/linux/dataplanedefs"
	"github.com/projectcalico/calico/felix/netlinkshim/mocknetlink"
	"github.com/projectcalico/calico/felix/proto"
	"github.com/projectcalico/calico/felix/routetable"
	"github.com/projectcalico/calico/felix/rules"
	"github.com/projectcalico/calico/lib/logrusr"
	internalapi "github.com/projectcalico/calico/libcalico-go/lib/apis/internalapi"
	"github.com/projectcalico/calico/libcalico-go/lib/backend/api"
	"github.com/projectcalico/calico/libcalico-go/lib/backend/encap"
	"github.com/projectcalico/calico/libcalico-go/lib/backend/model"
	cnet "github.com/projectcalico/calico/libcalico-go/lib/net"
	"github.com/projectcalico/calico/verifkit/ev"
)

type c28fPool struct {
	Net      int    // pool is 10.<Net>.0.0/16, its remote block 10.<Net>.1.0/26
	Mode     string // vxlan-always, vxlan-cross, ipip-always, ipip-cross, none
	Disabled bool
}

func (p c28fPool) cidr() string  { return fmt.Sprintf("10.%d.0.0/16", p.Net) }
func (p c28fPool) block() string { return fmt.Sprintf("10.%d.1.0/26", p.Net) }
func (p c28fPool) class() string { return strings.SplitN(p.Mode, "-", 2)[0] }

func (p c28fPool) model() *model.IPPool {
	mp := &model.IPPool{CIDR: cnet.MustParseCIDR(p.cidr()), IPIPMode: encap.Never, VXLANMode: encap.Never, Disabled: p.Disabled, IPAM: true}
	switch p.Mode {
	case "vxlan-always":
		mp.VXLANMode = encap.Always
	case "vxlan-cross":
		mp.VXLANMode = encap.CrossSubnet
	case "ipip-always":
		mp.IPIPMode = encap.Always
	case "ipip-cross":
		mp.IPIPMode = encap.CrossSubnet
	}
	return mp
}

func (p c28fPool) update() api.Update {
	mp := p.model()
	return api.Update{KVPair: model.KVPair{Key: model.IPPoolKey{CIDR: model.PrefixFromIPNet(mp.CIDR)}, Value: mp}}
}

func (p c28fPool) remove() api.Update {
	mp := p.model()
	return api.Update{KVPair: model.KVPair{Key: model.IPPoolKey{CIDR: model.PrefixFromIPNet(mp.CIDR)}}, UpdateType: api.UpdateTypeKVDeleted}
}

func (p c28fPool) blockUpdate() api.Update {
	n := cnet.MustParseCIDR(p.block())
	affinity := "host:node2"
	return api.Update{KVPair: model.KVPair{
		Key:   model.BlockKey{CIDR: model.PrefixFromIPNet(n)},
		Value: &model.AllocationBlock{CIDR: n, Affinity: &affinity, Allocations: make([]*int, 64), Unallocated: []int{0, 1, 2, 3}},
	}}
}

func c28fNode(name, addr string) api.Update {
	node := internalapi.NewNode()
	node.Name = name
	node.Spec.BGP = &internalapi.NodeBGPSpec{IPv4Address: addr}
	return api.Update{KVPair: model.KVPair{Key: model.ResourceKey{Kind: internalapi.KindNode, Name: name}, Value: node}}
}

// c28fFanOut stands where the event sequencer and the dataplane's message loop stand: every
// route message the L3RouteResolver emits is shown to every manager.
type c28fFanOut struct{ managers []Manager }

func (f *c28fFanOut) OnRouteUpdate(u *proto.RouteUpdate) {
	for _, m := range f.managers {
		m.OnUpdate(u)
	}
}

func (f *c28fFanOut) OnRouteRemove(dst string) {
	for _, m := range f.managers {
		m.OnUpdate(&proto.RouteRemove{Dst: dst})
	}
}

func c28fEncap(cfg *config.Config, pools map[int]c28fPool) config.Encapsulation {
	list := &model.KVPairList{}
	for _, p := range pools {
		mp := p.model()
		list.KVPairs = append(list.KVPairs, &model.KVPair{Key: model.IPPoolKey{CIDR: model.PrefixFromIPNet(mp.CIDR)}, Value: mp})
	}
	ec := calc.NewEncapsulationCalculator(cfg, list)
	return config.Encapsulation{IPIPEnabled: ec.IPIPEnabled(), VXLANEnabled: ec.VXLANEnabled(), VXLANEnabledV6: ec.VXLANEnabledV6(), NoEncapNeeded: ec.NoEncapNeeded()}
}

// c28fPipeline is one Felix "process": managers as int_dataplane.go would create them for the
// configuration and encapsulation summary at start, fed by a real L3RouteResolver.
type c28fPipeline struct {
	enc      config.Encapsulation
	rt       *mockRouteTable
	l3       *calc.L3RouteResolver
	managers []Manager
}

func c28fStart(cfg *config.Config, pools map[int]c28fPool) (*c28fPipeline, error) {
	p := &c28fPipeline{enc: c28fEncap(cfg, pools), rt: &mockRouteTable{currentRoutes: map[string][]routetable.Target{}}}
	newNL := func() (*mocknetlink.MockNetlinkDataplane, error) {
		nl := mocknetlink.New()
		if _, err := nl.NewMockNetlink(); err != nil {
			return nil, err
		}
		nl.ImmediateLinkUp = true
		eth0 := nl.AddIface(2, "eth0", true, true)
		if err := nl.AddrAdd(eth0, &netlink.Addr{IPNet: &net.IPNet{IP: net.IPv4(172, 0, 0, 1)}}); err != nil {
			return nil, err
		}
		return nl, nil
	}
	// What felix/dataplane/driver.go copies out of the configuration.
	dpConfig := Config{
		Hostname:                    "node1",
		MaxIPSetSize:                1024,
		RulesConfig:                 rules.Config{IPIPTunnelAddress: net.ParseIP("10.250.0.1"), VXLANVNI: 4096, VXLANPort: 4789},
		ProgramIPIPClusterRoutes:    cfg.ProgramIPIPClusterRoutes(),
		ProgramNoEncapClusterRoutes: cfg.ProgramNoEncapClusterRoutes(),
		NoEncapNeeded:               p.enc.NoEncapNeeded,
		DeviceRouteProtocol:         dataplanedefs.DefaultRouteProto,
	}
	hosts := func(m Manager) {
		m.OnUpdate(&proto.HostMetadataUpdate{Hostname: "node1", Ipv4Addr: "172.0.0.1"})
		m.OnUpdate(&proto.HostMetadataUpdate{Hostname: "node2", Ipv4Addr: "172.0.0.2"})
	}
	// int_dataplane.go: "if config.ProgramNoEncapClusterRoutes && config.NoEncapNeeded"
	if dpConfig.ProgramNoEncapClusterRoutes && dpConfig.NoEncapNeeded {
		nl, err := newNL()
		if err != nil {
			return nil, err
		}
		m := newNoEncapManagerWithSims(p.rt, 4, dpConfig, logrusr.NewSummarizer("c28"), nl)
		hosts(m)
		m.routeMgr.OnParentDeviceUpdate("eth0")
		p.managers = append(p.managers, m)
	}
	// int_dataplane.go: "if config.RulesConfig.VXLANEnabled"
	if p.enc.VXLANEnabled {
		nl, err := newNL()
		if err != nil {
			return nil, err
		}
		m := newVXLANManagerWithShims(dpsets.NewMockIPSets(), p.rt, &mockVXLANFDB{}, dataplanedefs.VXLANIfaceNameV4, 4, 1410, dpConfig, logrusr.NewSummarizer("c28"), nl)
		m.OnUpdate(&proto.VXLANTunnelEndpointUpdate{Node: "node1", Mac: "00:0a:74:9d:68:16", Ipv4Addr: "10.250.1.1", ParentDeviceIp: "172.0.0.1"})
		m.OnUpdate(&proto.VXLANTunnelEndpointUpdate{Node: "node2", Mac: "00:0a:95:9d:68:16", Ipv4Addr: "10.250.1.2", ParentDeviceIp: "172.0.0.2"})
		m.routeMgr.OnParentDeviceUpdate("eth0")
		p.managers = append(p.managers, m)
	}
	// int_dataplane.go: "if config.RulesConfig.IPIPEnabled" (the manager gates its own route programming)
	if p.enc.IPIPEnabled {
		nl, err := newNL()
		if err != nil {
			return nil, err
		}
		m := newIPIPManagerWithShims(p.rt, dataplanedefs.IPIPIfaceName, 4, 1440, dpConfig, logrusr.NewSummarizer("c28"), nl)
		hosts(m)
		m.routeMgr.OnParentDeviceUpdate("eth0")
		p.managers = append(p.managers, m)
	}
	p.l3 = calc.NewL3RouteResolver("node1", &c28fFanOut{managers: p.managers}, "CalicoIPAM")
	p.l3.OnAlive = func() {}
	p.l3.OnResourceUpdate(c28fNode("node1", "172.0.0.1/24"))
	p.l3.OnResourceUpdate(c28fNode("node2", "172.0.0.2/24"))
	var nets []int
	for n := range pools {
		nets = append(nets, n)
	}
	sort.Ints(nets)
	for _, n := range nets {
		p.l3.OnPoolUpdate(pools[n].update())
		p.l3.OnBlockUpdate(pools[n].blockUpdate())
	}
	return p, nil
}

// programmed: destination -> "dev <iface>" for every non-blackhole route Felix's managers ask
// the route table for.
func (p *c28fPipeline) programmed() (map[string]string, error) {
	for _, m := range p.managers {
		if err := m.CompleteDeferredWork(); err != nil {
			return nil, err
		}
	}
	out := map[string]string{}
	for class, byIface := range p.rt.currentRoutesByClass {
		for iface, targets := range byIface {
			if iface == routetable.InterfaceNone {
				continue // blackholes for local blocks are not cluster routes
			}
			for _, tg := range targets {
				out[tg.CIDR.String()] += fmt.Sprintf("[class %v dev %s]", class, iface)
			}
		}
	}
	return out, nil
}

func c28fShow(m map[string]string) string {
	var ks []string
	for k, v := range m {
		ks = append(ks, k+" "+v)
	}
	sort.Strings(ks)
	return "{" + strings.Join(ks, ", ") + "}"
}

func TestVerifC28FelixHistory(t *testing.T) {
	ev.Quiet()
	gomega.RegisterTestingT(t) // the mock netlink dataplane makes gomega assertions internally
	rec := ev.New("C28", "felix-history",
		"Felix setting (4 values / absent / unrecognised) fixed for the process; 2-4 initial IPv4 pools with one remote block each, then 2-6 steps: pool added, edited to another encapsulation mode, disabled/enabled, deleted; the long-lived L3RouteResolver -> noencap/vxlan/ipip manager pipeline is kept while Felix's encapsulation summary is unchanged and restarted when it changes; non-trivial = a pool is edited between classes without a restart; distinct = (setting, step kinds, restarts)",
		"IPv4 only; remote node in the local subnet; managers are created under the conditions int_dataplane.go applies, copied into the harness",
		"BIRD's half is checked by the confd units; here Felix's half is compared with what its setting assigns and with a fresh pipeline")
	defer rec.Write()
	modes := []string{"vxlan-always", "vxlan-cross", "ipip-always", "ipip-cross", "none", "none"}
	settings := []string{"", "Enabled", "Disabled", "EnabledIPIPOnly", "EnabledNoEncapOnly", "Auto"}

	rapid.Check(t, func(t *rapid.T) {
		setting := rapid.SampledFrom(settings).Draw(t, "felixSetting")
		cfg := config.New()
		if setting != "" {
			if _, err := cfg.UpdateFrom(map[string]string{"ProgramClusterRoutes": setting}, config.DatastoreGlobal); err != nil {
				t.Fatalf("Felix rejected ProgramClusterRoutes=%q: %v", setting, err)
			}
		}
		acts := setting
		if setting == "" || setting == "Auto" {
			acts = "EnabledIPIPOnly" // Felix's documented default
		}
		owns := func(class string) bool {
			switch class {
			case "vxlan":
				return true
			case "ipip":
				return acts == "Enabled" || acts == "EnabledIPIPOnly"
			}
			return acts == "Enabled" || acts == "EnabledNoEncapOnly"
		}
		pools := map[int]c28fPool{}
		// start with pools clustered in few classes so that later edits often keep the summary
		base := rapid.SampledFrom(modes).Draw(t, "baseMode")
		for i, n := 0, rapid.IntRange(2, 4).Draw(t, "nInitialPools"); i < n; i++ {
			m := base
			if rapid.IntRange(0, 2).Draw(t, "otherMode") == 0 {
				m = rapid.SampledFrom(modes).Draw(t, "mode")
			}
			pools[i+1] = c28fPool{Net: i + 1, Mode: m}
		}
		live, err := c28fStart(cfg, pools)
		if err != nil {
			t.Fatalf("HARNESS-GAP: cannot start the pipeline: %v", err)
		}
		history := fmt.Sprintf("  start: %+v\n", pools)
		var shape []string
		classes := map[string]bool{}
		nontrivial := false
		restarts := 0

		verify := func(step string) {
			got, err := live.programmed()
			if err != nil {
				t.Fatalf("CompleteDeferredWork failed: %v", err)
			}
			fresh, err := c28fStart(cfg, pools)
			if err != nil {
				t.Fatalf("HARNESS-GAP: cannot start a fresh pipeline: %v", err)
			}
			want, err := fresh.programmed()
			if err != nil {
				t.Fatalf("CompleteDeferredWork failed on the fresh pipeline: %v", err)
			}
			describe := func() string {
				return fmt.Sprintf("FelixConfiguration.programClusterRoutes=%q (acts as %s), encapsulation summary %+v\nhistory:\n%s", setting, acts, live.enc, history)
			}
			var nets []int
			for n := range pools {
				nets = append(nets, n)
			}
			sort.Ints(nets)
			for _, n := range nets {
				p := pools[n]
				_, has := got[p.block()]
				if has != owns(p.class()) {
					t.Fatalf("%s: pool %s is now %s, which this setting assigns to %s, but Felix programs its block %s: %v (Felix's routes: %s)\n%s",
						step, p.cidr(), p.Mode, map[bool]string{true: "Felix", false: "BIRD"}[owns(p.class())], p.block(), has, c28fShow(got), describe())
				}
			}
			if c28fShow(got) != c28fShow(want) {
				t.Fatalf("%s: the running Felix programs %s, a fresh Felix given only the final state programs %s\n%s", step, c28fShow(got), c28fShow(want), describe())
			}
		}
		verify("start")

		nSteps := rapid.IntRange(2, 6).Draw(t, "nSteps")
		for step := 1; step <= nSteps; step++ {
			var nets []int
			for n := range pools {
				nets = append(nets, n)
			}
			sort.Ints(nets)
			kind := rapid.SampledFrom([]string{"edit", "edit", "edit", "add", "disable", "delete"}).Draw(t, "step")
			var upd []api.Update
			switch {
			case kind == "add" || len(nets) == 0:
				kind = "add"
				n := 1
				for ; ; n++ {
					if _, used := pools[n]; !used {
						break
					}
				}
				p := c28fPool{Net: n, Mode: rapid.SampledFrom(modes).Draw(t, "mode")}
				pools[n] = p
				upd = []api.Update{p.update(), p.blockUpdate()}
			case kind == "edit":
				p := pools[rapid.SampledFrom(nets).Draw(t, "editedPool")]
				old := p.class()
				p.Mode = rapid.SampledFrom(modes).Draw(t, "newMode")
				pools[p.Net] = p
				upd = []api.Update{p.update()}
				if p.class() != old {
					kind = "edit-class"
				}
			case kind == "disable":
				p := pools[rapid.SampledFrom(nets).Draw(t, "toggledPool")]
				p.Disabled = !p.Disabled
				pools[p.Net] = p
				upd = []api.Update{p.update()}
				classes["disabled-pool"] = true
			default:
				p := pools[rapid.SampledFrom(nets).Draw(t, "deletedPool")]
				delete(pools, p.Net)
				upd = []api.Update{p.remove()} // the block stays: blocks outlive their pool during a migration
				classes["pool-deleted-block-remains"] = true
			}
			history += fmt.Sprintf("  step %d %s: %+v\n", step, kind, pools)
			if enc := c28fEncap(cfg, pools); enc != live.enc {
				// Felix restarts when its encapsulation summary changes.
				restarts++
				kind += "+restart"
				classes["felix-restart"] = true
				if live, err = c28fStart(cfg, pools); err != nil {
					t.Fatalf("HARNESS-GAP: cannot restart the pipeline: %v", err)
				}
				// blocks of pools deleted earlier still exist in the datastore
			} else {
				for _, u := range upd {
					switch u.Key.(type) {
					case model.IPPoolKey:
						live.l3.OnPoolUpdate(u)
					case model.BlockKey:
						live.l3.OnBlockUpdate(u)
					}
				}
				if kind == "edit-class" {
					nontrivial = true
					classes["pool-edited-between-classes-without-restart"] = true
				}
			}
			shape = append(shape, kind)
			verify(fmt.Sprintf("step %d (%s)", step, kind))
		}
		var cl []string
		for c := range classes {
			cl = append(cl, c)
		}
		sort.Strings(cl)
		rec.SizedCase(nontrivial, setting+"|"+strings.Join(shape, ","), len(shape), func() any {
			return map[string]any{"setting": setting, "history": strings.Split(strings.TrimSpace(history), "\n")}
		}, cl...)
	})
}
