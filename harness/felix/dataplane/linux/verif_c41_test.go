package intdataplane

// C41 — flow offload never bypasses endpoints that need per-packet processing.
//
// (1) The real flowtableExclusionManager is driven with generated histories of workload and
// host endpoint updates/removals; after every CompleteDeferredWork the IP set it programmed
// must contain exactly the current addresses (of the manager's IP family) of the endpoints
// that have DSCP marking (QoS policies) or a connection or packet-rate limit.
// (2) The offload rule rendered by rules.StaticFilterTableChains is rendered to nft text with
// the real NFT renderer and interpreted over a small packet space together with the set
// contents produced in (1): whenever the rule matches, the packet must be established/related
// and neither its source nor its destination may be in the set.

import (
	"fmt"
	"sort"
	"strings"
	"testing"

	"pgregory.net/rapid"

	"github.com/projectcalico/calico/felix/environment"
	"github.com/projectcalico/calico/felix/generictables"
	"github.com/projectcalico/calico/felix/ipsets"
	"github.com/projectcalico/calico/felix/nftables"
	"github.com/projectcalico/calico/felix/proto"
	"github.com/projectcalico/calico/felix/rules"
	"github.com/projectcalico/calico/libcalico-go/lib/set"
	"github.com/projectcalico/calico/verifkit/ev"
)

// ---------------------------------------------------------------------------------------
// Recording IP sets dataplane.  Sets are stored under the dataplane name that the real
// IPSets objects derive from the set id (IPVersionConfig.NameForMainIPSet + nft legalisation),
// which is also how the rule renderer names the set it references.

type c41IPSets struct {
	cfg   *ipsets.IPVersionConfig
	sets  map[string]map[string]bool // dataplane name -> members
	metas map[string]ipsets.IPSetMetadata
	calls int
}

func c41NewIPSets(cfg *ipsets.IPVersionConfig) *c41IPSets {
	return &c41IPSets{cfg: cfg, sets: map[string]map[string]bool{}, metas: map[string]ipsets.IPSetMetadata{}}
}

func (s *c41IPSets) name(setID string) string {
	return nftables.LegalizeSetName(s.cfg.NameForMainIPSet(setID))
}

func (s *c41IPSets) AddOrReplaceIPSet(meta ipsets.IPSetMetadata, members []string) {
	s.calls++
	m := map[string]bool{}
	for _, x := range members {
		m[x] = true
	}
	s.sets[s.name(meta.SetID)] = m
	s.metas[s.name(meta.SetID)] = meta
}
func (s *c41IPSets) AddMembers(setID string, newMembers []string) {
	for _, x := range newMembers {
		s.sets[s.name(setID)][x] = true
	}
}
func (s *c41IPSets) RemoveMembers(setID string, removed []string) {
	for _, x := range removed {
		delete(s.sets[s.name(setID)], x)
	}
}
func (s *c41IPSets) RemoveIPSet(setID string)     { delete(s.sets, s.name(setID)) }
func (s *c41IPSets) GetIPFamily() ipsets.IPFamily { return s.cfg.Family }
func (s *c41IPSets) GetTypeOf(setID string) (ipsets.IPSetType, error) {
	return s.metas[s.name(setID)].Type, nil
}
func (s *c41IPSets) GetDesiredMembers(setID string) (set.Set[string], error) {
	out := set.New[string]()
	for x := range s.sets[s.name(setID)] {
		out.Add(x)
	}
	return out, nil
}
func (s *c41IPSets) QueueResync()                       {}
func (s *c41IPSets) ApplyUpdates(ipsets.UpdateListener) {}
func (s *c41IPSets) ApplyDeletions() bool               { return false }
func (s *c41IPSets) SetFilter(set.Set[string])          {}

// ---------------------------------------------------------------------------------------
// Model of the statement.

type c41EP struct {
	V4, V6       []string // bare addresses
	DSCP         bool     // has QoS policies (DSCP marking)
	DSCPValues   []int32  // the marking values, any legal DSCP 0..63 (0 = DF is a marking too)
	Controls     bool     // has a QoSControls struct at all
	InConn       int64
	OutConn      int64
	InPktRate    int64
	OutPktRate   int64
	InBandwidth  int64
	OutBandwidth int64
}

// needsHooks is the statement's predicate: DSCP marking, or a connection limit, or a packet
// rate limit.  (Bandwidth limits are not in the statement.)
func (e *c41EP) needsHooks() bool {
	return e.DSCP || e.InConn != 0 || e.OutConn != 0 || e.InPktRate != 0 || e.OutPktRate != 0
}

func (e *c41EP) addrs(ipVersion uint8) []string {
	if ipVersion == 6 {
		return e.V6
	}
	return e.V4
}

func c41WithMask(addrs []string, bits int) []string {
	var out []string
	for _, a := range addrs {
		out = append(out, fmt.Sprintf("%s/%d", a, bits))
	}
	return out
}

func (e *c41EP) qosPolicies() []*proto.QoSPolicy {
	if !e.DSCP {
		return nil
	}
	var out []*proto.QoSPolicy
	for i, v := range e.DSCPValues {
		out = append(out, &proto.QoSPolicy{Dscp: v, Destination: []string{"0.0.0.0/0", "10.0.0.0/8", "::/0"}[i%3]})
	}
	return out
}

func (e *c41EP) wep() *proto.WorkloadEndpoint {
	w := &proto.WorkloadEndpoint{
		State: "active", Name: "cali-c41",
		Ipv4Nets:    c41WithMask(e.V4, 32),
		Ipv6Nets:    c41WithMask(e.V6, 128),
		QosPolicies: e.qosPolicies(),
	}
	if e.Controls {
		w.QosControls = &proto.QoSControls{
			IngressMaxConnections: e.InConn, EgressMaxConnections: e.OutConn,
			IngressPacketRate: e.InPktRate, EgressPacketRate: e.OutPktRate,
			IngressBandwidth: e.InBandwidth, EgressBandwidth: e.OutBandwidth,
		}
		if e.InPktRate != 0 {
			w.QosControls.IngressPacketBurst = 5
		}
		if e.OutPktRate != 0 {
			w.QosControls.EgressPacketBurst = 5
		}
		if e.InBandwidth != 0 {
			w.QosControls.IngressBurst = 10000
		}
		if e.OutBandwidth != 0 {
			w.QosControls.EgressBurst = 10000
		}
	}
	return w
}

func (e *c41EP) hep() *proto.HostEndpoint {
	// Host endpoints carry bare expected addresses and only QoS policies (no QoSControls).
	return &proto.HostEndpoint{Name: "eth0", ExpectedIpv4Addrs: e.V4, ExpectedIpv6Addrs: e.V6, QosPolicies: e.qosPolicies()}
}

var (
	c41PoolV4 = []string{"10.0.0.1", "10.0.0.2", "10.0.0.3", "10.0.0.4"}
	c41PoolV6 = []string{"fd00::1", "fd00::2", "fd00::3", "fd00::4"}
)

func c41DrawAddrs(t *rapid.T, pool []string, label string) []string {
	n := rapid.SampledFrom([]int{0, 1, 1, 1, 2}).Draw(t, label+"Count")
	var out []string
	for i := 0; i < n; i++ {
		a := rapid.SampledFrom(pool).Draw(t, label)
		dup := false
		for _, x := range out {
			dup = dup || x == a
		}
		if !dup {
			out = append(out, a)
		}
	}
	return out
}

func c41DrawEP(t *rapid.T, host bool) *c41EP {
	e := &c41EP{V4: c41DrawAddrs(t, c41PoolV4, "v4addr"), V6: c41DrawAddrs(t, c41PoolV6, "v6addr")}
	e.DSCP = rapid.IntRange(0, 3).Draw(t, "dscp") == 0
	if e.DSCP {
		// One or two policies; values from the whole legal range, with the boundary 0 (DF) common.
		n := rapid.IntRange(1, 2).Draw(t, "dscpPolicies")
		for i := 0; i < n; i++ {
			e.DSCPValues = append(e.DSCPValues, rapid.SampledFrom([]int32{0, 0, 0, 8, 20, 46, 63}).Draw(t, "dscpValue"))
		}
	}
	if host {
		return e
	}
	switch rapid.SampledFrom([]string{"none", "none", "zero", "bandwidth", "inConn", "outConn", "inPkt", "outPkt", "mixed"}).Draw(t, "controls") {
	case "none":
	case "zero":
		e.Controls = true
	case "bandwidth":
		e.Controls, e.InBandwidth, e.OutBandwidth = true, 1000000, 2000000
	case "inConn":
		e.Controls, e.InConn = true, 10
	case "outConn":
		e.Controls, e.OutConn = true, 10
	case "inPkt":
		e.Controls, e.InPktRate = true, 100
	case "outPkt":
		e.Controls, e.OutPktRate = true, 100
	case "mixed":
		e.Controls, e.InBandwidth, e.OutConn, e.InPktRate = true, 1000000, 7, 50
	}
	return e
}

// ---------------------------------------------------------------------------------------
// Interpreter for the rendered offload rule (only the clause shapes that rule may use; any
// other token is a HARNESS-GAP, i.e. inconclusive, never a violation).

type c41Packet struct {
	state    string // new | established | related | invalid | untracked
	src, dst string
}

// c41MatchText evaluates the nft match text of one rule against a packet.
func c41MatchText(t interface{ Fatalf(string, ...any) }, text string, ipVersion uint8, sets map[string]map[string]bool, p c41Packet) bool {
	toks := strings.Fields(text)
	fam := "ip"
	if ipVersion == 6 {
		fam = "ip6"
	}
	ok := true
	for i := 0; i < len(toks); {
		switch {
		case toks[i] == "ct" && i+2 < len(toks) && toks[i+1] == "state":
			neg := false
			j := i + 2
			if toks[j] == "!=" {
				neg = true
				j++
			}
			if j >= len(toks) {
				t.Fatalf("HARNESS-GAP: truncated ct state clause in %q", text)
			}
			in := false
			for _, s := range strings.Split(strings.Trim(toks[j], "{}"), ",") {
				switch s {
				case "new", "established", "related", "invalid", "untracked":
				default:
					t.Fatalf("HARNESS-GAP: unknown ct state %q in %q", s, text)
				}
				in = in || s == p.state
			}
			ok = ok && (in != neg)
			i = j + 1
		case (toks[i] == "ip" || toks[i] == "ip6") && i+2 < len(toks) && (toks[i+1] == "saddr" || toks[i+1] == "daddr"):
			neg := false
			j := i + 2
			if toks[j] == "!=" {
				neg = true
				j++
			}
			if j >= len(toks) || !strings.HasPrefix(toks[j], "@") {
				t.Fatalf("HARNESS-GAP: address clause without a set reference in %q", text)
			}
			addr := p.src
			if toks[i+1] == "daddr" {
				addr = p.dst
			}
			if toks[i] != fam {
				ok = false // a clause of the other family never matches this family's packets
			} else {
				in := sets[strings.TrimPrefix(toks[j], "@")][addr] // a set nobody programmed is empty
				ok = ok && (in != neg)
			}
			i = j + 1
		default:
			t.Fatalf("HARNESS-GAP: cannot interpret token %q of offload rule match %q", toks[i], text)
		}
	}
	return ok
}

type c41OffloadRule struct {
	chain string
	text  string // rendered match
	full  string // rendered rule
}

// c41FindOffloadRules renders every static chain of every table and returns the rules whose
// action is the flow offload action.
func c41FindOffloadRules(t interface{ Fatalf(string, ...any) }, renderer rules.RuleRenderer, ipVersion uint8) []c41OffloadRule {
	nftr := nftables.NewNFTRenderer("", ipVersion)
	features := &environment.Features{}
	var all []*generictables.Chain
	all = append(all, renderer.StaticFilterTableChains(ipVersion)...)
	all = append(all, renderer.StaticMangleTableChains(ipVersion)...)
	all = append(all, renderer.StaticRawTableChains(ipVersion)...)
	all = append(all, renderer.StaticNATTableChains(ipVersion)...)
	var out []c41OffloadRule
	for _, c := range all {
		for _, r := range c.Rules {
			_, isOffload := r.Action.(nftables.FlowOffloadAction)
			full := nftr.Render(c.Name, "", r, features).Rule
			if strings.Contains(full, "flow offload") || strings.Contains(full, "flow add") {
				isOffload = true
			}
			if !isOffload {
				continue
			}
			text := ""
			if r.Match != nil {
				text = r.Match.(nftables.NFTMatchCriteria).IPVersion(ipVersion).Render()
			}
			out = append(out, c41OffloadRule{chain: c.Name, text: text, full: full})
		}
	}
	return out
}

func c41RulesConfig() rules.Config {
	return rules.Config{
		IPSetConfigV4:            ipsets.NewIPVersionConfig(ipsets.IPFamilyV4, "cali", nil, nil),
		IPSetConfigV6:            ipsets.NewIPVersionConfig(ipsets.IPFamilyV6, "cali", nil, nil),
		MarkAccept:               0x8,
		MarkPass:                 0x10,
		MarkScratch0:             0x20,
		MarkScratch1:             0x40,
		MarkDrop:                 0x80,
		MarkEndpoint:             0xff00,
		MarkNonCaliEndpoint:      0x0100,
		WorkloadIfacePrefixes:    []string{"cali"},
		NFTablesFlowTableOffload: true,
	}
}

// ---------------------------------------------------------------------------------------

func TestVerifC41FlowOffloadExclusion(t *testing.T) {
	ev.Quiet()
	rec := ev.New("C41", "flowtable-exclusion",
		"histories of workload (3 ids) and host (2 ids) endpoint update/remove messages with 0-2 addresses per family from a pool of 4 (shared and changing), DSCP policies (1-2 per endpoint, values over the legal range including 0 = DF) and QoS controls (none / all-zero / bandwidth-only / ingress|egress connection limit / ingress|egress packet rate / mixed) toggling, IPv4 and IPv6 managers, CompleteDeferredWork after batches of any size; after each one the programmed set is compared with the model and the rendered offload rule is interpreted over 5 conntrack states x (pool+1)^2 address pairs. Non-trivial = an endpoint with addresses stopped needing hooks (QoS cleared) or was removed while excluded, or an excluded endpoint changed addresses (class leaves-while-address-shared counts the cases where another excluded endpoint still owns one of the addresses); distinct = distinct op sequence",
		"the real IP sets layer names the set IPVersionConfig.NameForMainIPSet(setID) (nft-legalised), as the recording double does",
		"the conntrack/set clause shapes understood by the rule interpreter are: ct state [!=] list, ip|ip6 saddr|daddr [!=] @set; anything else is reported as HARNESS-GAP")
	defer rec.Write()
	rapid.Check(t, func(t *rapid.T) {
		ipVersion := rapid.SampledFrom([]uint8{4, 6}).Draw(t, "ipVersion")
		rcfg := c41RulesConfig()
		vcfg := rcfg.IPSetConfigV4
		pool := c41PoolV4
		outside := "10.9.9.9"
		if ipVersion == 6 {
			vcfg = rcfg.IPSetConfigV6
			pool = c41PoolV6
			outside = "fd99::9"
		}
		dp := c41NewIPSets(vcfg)
		mgr := newFlowtableExclusionManager(dp, ipVersion, 1000)
		renderer := rules.NewRenderer(rcfg, true)
		offload := c41FindOffloadRules(t, renderer, ipVersion)
		if len(offload) != 1 {
			t.Fatalf("HARNESS-GAP: expected exactly one flow offload rule with NFTablesFlowTableOffload enabled, found %d: %+v", len(offload), offload)
		}

		weps := map[int]*c41EP{}
		heps := map[int]*c41EP{}
		var shape []string
		classes := map[string]bool{}
		nontrivial := false

		expected := func() map[string]bool {
			out := map[string]bool{}
			for _, m := range []map[int]*c41EP{weps, heps} {
				for _, e := range m {
					if e.needsHooks() {
						for _, a := range e.addrs(ipVersion) {
							out[a] = true
						}
					}
				}
			}
			return out
		}
		describe := func() string {
			var sb strings.Builder
			for _, p := range []struct {
				n string
				m map[int]*c41EP
			}{{"wep", weps}, {"hep", heps}} {
				var ks []int
				for k := range p.m {
					ks = append(ks, k)
				}
				sort.Ints(ks)
				for _, k := range ks {
					fmt.Fprintf(&sb, "\n    %s%d needsHooks=%v %+v", p.n, k, p.m[k].needsHooks(), *p.m[k])
				}
			}
			return sb.String()
		}
		// shares: does some other live endpoint needing hooks share an address of e?
		shares := func(e *c41EP, self *c41EP) bool {
			for _, m := range []map[int]*c41EP{weps, heps} {
				for _, o := range m {
					if o == self || !o.needsHooks() {
						continue
					}
					for _, a := range o.addrs(ipVersion) {
						for _, b := range e.addrs(ipVersion) {
							if a == b {
								return true
							}
						}
					}
				}
			}
			return false
		}
		noteLeave := func(old *c41EP, now *c41EP) {
			if old == nil || !old.needsHooks() {
				return
			}
			if now == nil || !now.needsHooks() {
				if len(old.addrs(ipVersion)) > 0 {
					nontrivial = true // the set has to shrink (or keep a shared address)
				}
				if now == nil {
					classes["remove-excluded"] = true
				} else {
					classes["qos-cleared"] = true
				}
				if shares(old, old) {
					classes["leaves-while-address-shared"] = true
				}
				return
			}
			if fmt.Sprint(old.addrs(ipVersion)) != fmt.Sprint(now.addrs(ipVersion)) {
				nontrivial = true
				classes["excluded-endpoint-changes-address"] = true
			}
		}

		allZero := func(e *c41EP) bool {
			if e == nil || !e.DSCP {
				return false
			}
			for _, v := range e.DSCPValues {
				if v != 0 {
					return false
				}
			}
			return true
		}
		noteDSCP := func(old, now *c41EP) {
			if allZero(now) && !now.Controls && len(now.addrs(ipVersion)) > 0 {
				classes["dscp-0-only-marking"] = true
				if old != nil && old.DSCP && !allZero(old) {
					classes["remarked-nonzero-to-dscp-0"] = true
				}
			}
		}
		complete := func() {
			if err := mgr.CompleteDeferredWork(); err != nil {
				t.Fatalf("CompleteDeferredWork: %v", err)
			}
			want := expected()
			setName := dp.name(rules.IPSetIDNoFlowOffload)
			got := dp.sets[setName]
			if len(dp.sets) != 1 || got == nil {
				t.Fatalf("C41: manager must maintain exactly the %q set (dataplane name %s); sets programmed: %v", rules.IPSetIDNoFlowOffload, setName, dp.sets)
			}
			if fmt.Sprint(c41Sorted(got)) != fmt.Sprint(c41Sorted(want)) {
				t.Fatalf("C41 violated: flow-offload exclusion set (IPv%d) is %v but the endpoints needing per-packet hooks have addresses %v\n endpoints:%s",
					ipVersion, c41Sorted(got), c41Sorted(want), describe())
			}
			if len(want) > 0 {
				classes["set-nonempty"] = true
			}
			// The offload rule over the packet space, against the sets as programmed.
			addrs := append(append([]string{}, pool...), outside)
			for _, st := range []string{"new", "established", "related", "invalid", "untracked"} {
				for _, src := range addrs {
					for _, dst := range addrs {
						p := c41Packet{state: st, src: src, dst: dst}
						if !c41MatchText(t, offload[0].text, ipVersion, dp.sets, p) {
							continue
						}
						classes["some-packet-offloaded"] = true
						if (st != "established" && st != "related") || want[src] || want[dst] {
							t.Fatalf("C41 violated: offload rule %q (chain %s) offloads packet %+v; excluded addresses %v\n endpoints:%s",
								offload[0].full, offload[0].chain, p, c41Sorted(want), describe())
						}
					}
				}
			}
		}

		nOps := rapid.IntRange(1, ev.Scale(14, 30)).Draw(t, "nOps")
		for i := 0; i < nOps; i++ {
			switch rapid.SampledFrom([]string{"wep", "wep", "wep", "hep", "wepRemove", "hepRemove", "complete", "complete"}).Draw(t, "op") {
			case "wep":
				k := rapid.IntRange(0, 2).Draw(t, "wepId")
				e := c41DrawEP(t, false)
				if old := weps[k]; old != nil && rapid.Bool().Draw(t, "keepAddrs") {
					e.V4, e.V6 = old.V4, old.V6
				}
				noteLeave(weps[k], e)
				noteDSCP(weps[k], e)
				weps[k] = e
				mgr.OnUpdate(&proto.WorkloadEndpointUpdate{
					Id:       &proto.WorkloadEndpointID{OrchestratorId: "k8s", WorkloadId: fmt.Sprintf("ns/pod-%d", k), EndpointId: "eth0"},
					Endpoint: e.wep()})
				shape = append(shape, fmt.Sprintf("W%d%v", k, e.needsHooks()))
				if e.Controls && !e.needsHooks() {
					classes["controls-without-hook-need"] = true
				}
			case "hep":
				k := rapid.IntRange(0, 1).Draw(t, "hepId")
				e := c41DrawEP(t, true)
				noteLeave(heps[k], e)
				noteDSCP(heps[k], e)
				heps[k] = e
				mgr.OnUpdate(&proto.HostEndpointUpdate{Id: &proto.HostEndpointID{EndpointId: fmt.Sprintf("hep-%d", k)}, Endpoint: e.hep()})
				shape = append(shape, fmt.Sprintf("H%d%v", k, e.needsHooks()))
			case "wepRemove":
				k := rapid.IntRange(0, 2).Draw(t, "wepId")
				if weps[k] == nil {
					shape = append(shape, "-")
					continue
				}
				noteLeave(weps[k], nil)
				delete(weps, k)
				mgr.OnUpdate(&proto.WorkloadEndpointRemove{
					Id: &proto.WorkloadEndpointID{OrchestratorId: "k8s", WorkloadId: fmt.Sprintf("ns/pod-%d", k), EndpointId: "eth0"}})
				shape = append(shape, fmt.Sprintf("w%d", k))
			case "hepRemove":
				k := rapid.IntRange(0, 1).Draw(t, "hepId")
				if heps[k] == nil {
					shape = append(shape, "-")
					continue
				}
				noteLeave(heps[k], nil)
				delete(heps, k)
				mgr.OnUpdate(&proto.HostEndpointRemove{Id: &proto.HostEndpointID{EndpointId: fmt.Sprintf("hep-%d", k)}})
				shape = append(shape, fmt.Sprintf("h%d", k))
			case "complete":
				complete()
				shape = append(shape, "|")
			}
		}
		complete()

		var cl []string
		for c := range classes {
			cl = append(cl, c)
		}
		sort.Strings(cl)
		cl = append(cl, fmt.Sprintf("ipv%d", ipVersion))
		key := fmt.Sprintf("v%d:", ipVersion) + strings.Join(shape, ",")
		rec.SizedCase(nontrivial, key, len(shape), func() any {
			return map[string]any{"ipVersion": ipVersion, "ops": key, "rule": offload[0].full}
		}, cl...)
	})
}

func c41Sorted(m map[string]bool) []string {
	out := []string{}
	for k, v := range m {
		if v {
			out = append(out, k)
		}
	}
	sort.Strings(out)
	return out
}

// TestVerifC41OffloadRuleShape enumerates the renderer configurations that decide whether an
// offload rule exists, and checks the statement's rule clause against adversarial set contents
// (every subset of a 3-address pool): a match implies established/related and src,dst not in
// the set.  Exhaustive over that finite space.
func TestVerifC41OffloadRuleShape(t *testing.T) {
	ev.Quiet()
	rec := ev.New("C41", "offload-rule",
		"exhaustive: ipVersion {4,6} x nft {on,off} x offload {on,off} x every subset of a 3-address pool as set contents x 5 conntrack states x 4x4 address pairs; non-trivial = configuration renders an offload rule; distinct = (config, set subset)")
	defer rec.Write()
	rec.Extra("exhaustive", true)
	for _, ipVersion := range []uint8{4, 6} {
		for _, nft := range []bool{true, false} {
			for _, on := range []bool{true, false} {
				rcfg := c41RulesConfig()
				rcfg.NFTablesFlowTableOffload = on
				var found []c41OffloadRule
				if nft {
					found = c41FindOffloadRules(t, rules.NewRenderer(rcfg, true), ipVersion)
				} else if !on {
					// iptables mode has no flow offload action at all (the factory panics if asked).
					for _, c := range rules.NewRenderer(rcfg, false).StaticFilterTableChains(ipVersion) {
						for _, r := range c.Rules {
							if r.Action != nil && strings.Contains(strings.ToLower(fmt.Sprint(r.Action)), "offload") {
								t.Fatalf("iptables renderer produced an offload action: %v", r)
							}
						}
					}
				} else {
					continue // int_dataplane only enables the flag together with nftables
				}
				if !(nft && on) {
					if len(found) != 0 {
						t.Fatalf("C41: offload rule rendered although flow offload is disabled (nft=%v offload=%v): %+v", nft, on, found)
					}
					rec.Case(false, fmt.Sprintf("v%d nft=%v on=%v", ipVersion, nft, on), nil, "no-offload-rule")
					continue
				}
				if len(found) != 1 {
					t.Fatalf("HARNESS-GAP: expected one offload rule, found %+v", found)
				}
				vcfg := rcfg.IPSetConfigV4
				pool := []string{"10.0.0.1", "10.0.0.2", "10.0.0.3"}
				outside := "10.9.9.9"
				if ipVersion == 6 {
					vcfg = rcfg.IPSetConfigV6
					pool = []string{"fd00::1", "fd00::2", "fd00::3"}
					outside = "fd99::9"
				}
				setName := nftables.LegalizeSetName(vcfg.NameForMainIPSet(rules.IPSetIDNoFlowOffload))
				addrs := append(append([]string{}, pool...), outside)
				for mask := 0; mask < 8; mask++ {
					members := map[string]bool{}
					for i, a := range pool {
						if mask&(1<<i) != 0 {
							members[a] = true
						}
					}
					sets := map[string]map[string]bool{setName: members}
					offloaded := 0
					for _, st := range []string{"new", "established", "related", "invalid", "untracked"} {
						for _, src := range addrs {
							for _, dst := range addrs {
								p := c41Packet{state: st, src: src, dst: dst}
								if !c41MatchText(t, found[0].text, ipVersion, sets, p) {
									continue
								}
								offloaded++
								if (st != "established" && st != "related") || members[src] || members[dst] {
									t.Fatalf("C41 violated: offload rule %q offloads %+v with exclusion set %v", found[0].full, p, c41Sorted(members))
								}
							}
						}
					}
					if offloaded == 0 {
						t.Fatalf("HARNESS-GAP: offload rule %q matches no packet at all (set %v); interpretation is probably wrong", found[0].full, c41Sorted(members))
					}
					rec.Case(true, fmt.Sprintf("v%d set=%03b", ipVersion, mask), func() any {
						return map[string]any{"ipVersion": ipVersion, "rule": found[0].full, "set": c41Sorted(members), "packetsOffloaded": offloaded}
					}, "offload-rule-checked")
				}
			}
		}
	}
}
