package intdataplane

// C44 — each workload interface carries exactly the state of its preferred endpoint.
//
// The real endpointManager is driven through OnUpdate / ResolveUpdateBatch /
// CompleteDeferredWork with generated histories of workload endpoint updates, removals and
// interface state changes over 3 endpoint ids and 2 interface names.  Its dependencies are
// small recording doubles (tables, route table, nft maps).  After every resolve the
// harness compares, per interface name, the recorded dataplane state with the state the
// statement demands, computed from a plain model (id -> latest endpoint) and the trusted
// rule renderer; at the end of the case the whole recorded state is compared with fresh
// managers that were only given the final endpoint set (in two different orders).

import (
	"fmt"
	"os"
	"reflect"
	"sort"
	"strings"
	"testing"

	"pgregory.net/rapid"

	"github.com/projectcalico/calico/felix/dataplane/common"
	"github.com/projectcalico/calico/felix/generictables"
	"github.com/projectcalico/calico/felix/ifacemonitor"
	"github.com/projectcalico/calico/felix/ip"
	"github.com/projectcalico/calico/felix/ipsets"
	"github.com/projectcalico/calico/felix/linkaddrs"
	"github.com/projectcalico/calico/felix/nftables"
	"github.com/projectcalico/calico/felix/proto"
	"github.com/projectcalico/calico/felix/routetable"
	"github.com/projectcalico/calico/felix/rules"
	"github.com/projectcalico/calico/felix/types"
	"github.com/projectcalico/calico/verifkit/ev"
)

// ---------------------------------------------------------------------------------------
// Recording doubles.

type c44Table struct {
	chains map[string]*generictables.Chain
}

func c44NewTable() *c44Table { return &c44Table{chains: map[string]*generictables.Chain{}} }

func (t *c44Table) UpdateChain(chain *generictables.Chain) { t.chains[chain.Name] = chain }
func (t *c44Table) UpdateChains(chains []*generictables.Chain) {
	for _, c := range chains {
		t.chains[c.Name] = c
	}
}
func (t *c44Table) RemoveChains(chains []*generictables.Chain) {
	for _, c := range chains {
		delete(t.chains, c.Name)
	}
}
func (t *c44Table) RemoveChainByName(name string) { delete(t.chains, name) }

type c44RouteKey struct {
	class routetable.RouteClass
	iface string
}

type c44Routes struct {
	routes map[c44RouteKey][]routetable.Target
}

func c44NewRoutes() *c44Routes { return &c44Routes{routes: map[c44RouteKey][]routetable.Target{}} }

func (r *c44Routes) SetRoutes(class routetable.RouteClass, iface string, targets []routetable.Target) {
	k := c44RouteKey{class, iface}
	if len(targets) == 0 {
		delete(r.routes, k)
		return
	}
	r.routes[k] = append([]routetable.Target(nil), targets...)
}
func (r *c44Routes) RouteRemove(class routetable.RouteClass, iface string, key routetable.RouteKey) {
	k := c44RouteKey{class, iface}
	var out []routetable.Target
	for _, t := range r.routes[k] {
		if t.RouteKey != key {
			out = append(out, t)
		}
	}
	if len(out) == 0 {
		delete(r.routes, k)
	} else {
		r.routes[k] = out
	}
}
func (r *c44Routes) RouteUpdate(class routetable.RouteClass, iface string, target routetable.Target) {
	r.RouteRemove(class, iface, target.RouteKey)
	k := c44RouteKey{class, iface}
	r.routes[k] = append(r.routes[k], target)
}
func (r *c44Routes) OnIfaceStateChanged(string, int, ifacemonitor.State) {}
func (r *c44Routes) QueueResync()                                        {}
func (r *c44Routes) QueueResyncIface(string)                             {}
func (r *c44Routes) Index() int                                          { return 0 }
func (r *c44Routes) Apply() error                                        { return nil }
func (r *c44Routes) ReadRoutesFromKernel(string) ([]routetable.Target, error) {
	return nil, nil
}

type c44Maps struct {
	nftables.MapsDataplane // nil; only the two methods below are ever used by the manager
	maps                   map[string]map[string][]string
}

func c44NewMaps() *c44Maps { return &c44Maps{maps: map[string]map[string][]string{}} }

func (m *c44Maps) AddOrReplaceMap(meta nftables.MapMetadata, members map[string][]string) {
	cp := map[string][]string{}
	for k, v := range members {
		cp[k] = append([]string(nil), v...)
	}
	m.maps[meta.Name] = cp
}
func (m *c44Maps) RemoveMap(id string) { delete(m.maps, id) }

type c44HEPListener struct{}

func (c44HEPListener) OnHEPUpdate(map[string]*proto.HostEndpoint) {}

// ---------------------------------------------------------------------------------------
// Model.

var c44Names = []string{"cali-x1", "cali-y2", "cali-z3"}

type c44EP struct {
	Name   string
	Active bool
	Ver    int
	Spoof  bool
}

type c44Cfg struct {
	IPVersion uint8
	NFT       bool
	IPVS      bool
	ARP       bool
}

// c44IDLess is the documented preference order: orchestrator, then workload, then endpoint id,
// each compared as strings; the smaller id is preferred (endpoint_mgr_test.go: "earlier
// workload ID" wins).
func c44IDLess(a, b types.WorkloadEndpointID) bool {
	if a.OrchestratorId != b.OrchestratorId {
		return a.OrchestratorId < b.OrchestratorId
	}
	if a.WorkloadId != b.WorkloadId {
		return a.WorkloadId < b.WorkloadId
	}
	return a.EndpointId < b.EndpointId
}

func c44ProtoID(id types.WorkloadEndpointID) *proto.WorkloadEndpointID {
	return &proto.WorkloadEndpointID{OrchestratorId: id.OrchestratorId, WorkloadId: id.WorkloadId, EndpointId: id.EndpointId}
}

func c44Proto(idx int, e *c44EP) *proto.WorkloadEndpoint {
	st := "active"
	if !e.Active {
		st = "inactive"
	}
	w := &proto.WorkloadEndpoint{
		State:      st,
		Name:       e.Name,
		Mac:        fmt.Sprintf("02:00:00:00:%02x:%02x", idx, e.Ver%256),
		ProfileIds: []string{fmt.Sprintf("prof-%d-%d", idx, e.Ver)},
		Ipv4Nets:   []string{fmt.Sprintf("10.%d.%d.%d/32", idx, e.Ver/256, e.Ver%256)},
		Ipv6Nets:   []string{fmt.Sprintf("fd00:%d::%x/128", idx, e.Ver+1)},
	}
	if e.Spoof {
		w.AllowSpoofedSourcePrefixes = []string{fmt.Sprintf("192.168.%d.0/24", idx), fmt.Sprintf("fd80:%d::/64", idx)}
	}
	return w
}

// ---------------------------------------------------------------------------------------
// A manager plus its doubles.

type c44Rig struct {
	cfg      c44Cfg
	renderer rules.RuleRenderer
	raw      *c44Table
	mangle   *c44Table
	filter   *c44Table
	arp      *c44Table
	arpMaps  *c44Maps
	maps     *c44Maps
	routes   *c44Routes
	mgr      *endpointManager
}

func c44RulesConfig(cfg c44Cfg) rules.Config {
	return rules.Config{
		IPIPEnabled:            true,
		IPSetConfigV4:          ipsets.NewIPVersionConfig(ipsets.IPFamilyV4, "cali", nil, nil),
		IPSetConfigV6:          ipsets.NewIPVersionConfig(ipsets.IPFamilyV6, "cali", nil, nil),
		MarkAccept:             0x8,
		MarkPass:               0x10,
		MarkScratch0:           0x20,
		MarkScratch1:           0x40,
		MarkDrop:               0x80,
		MarkEndpoint:           0xff00,
		MarkNonCaliEndpoint:    0x0100,
		KubeIPVSSupportEnabled: cfg.IPVS,
		WorkloadIfacePrefixes:  []string{"cali"},
		VXLANPort:              4789,
		VXLANVNI:               4096,
	}
}

func c44NewRig(cfg c44Cfg, renderer rules.RuleRenderer) *c44Rig {
	r := &c44Rig{cfg: cfg, renderer: renderer,
		raw: c44NewTable(), mangle: c44NewTable(), filter: c44NewTable(), routes: c44NewRoutes()}
	var filterMaps nftables.MapsDataplane
	if cfg.NFT {
		r.maps = c44NewMaps()
		filterMaps = r.maps
	}
	var arpTable Table
	var arpMaps nftables.MapsDataplane
	if cfg.ARP {
		r.arp = c44NewTable()
		r.arpMaps = c44NewMaps()
		arpTable = r.arp
		arpMaps = r.arpMaps
	}
	rpf := "1"
	if cfg.IPVersion == 6 {
		rpf = ""
	}
	r.mgr = newEndpointManagerWithShims(
		&endpointManagerConfig{
			kubeIPVSSupportEnabled: cfg.IPVS,
			wlInterfacePrefixes:    []string{"cali"},
			nft:                    cfg.NFT,
		},
		r.raw, r.mangle, r.filter,
		renderer,
		r.routes,
		cfg.IPVersion,
		rules.NewEndpointMarkMapper(0xff00, 0x0100),
		func(ipVersion uint8, id any, status string, extraInfo any) {},
		func(path, value string) error { return nil },
		func(name string) (os.FileInfo, error) { return nil, nil },
		rpf,
		filterMaps,
		nil, // flowtableHandler
		c44HEPListener{},
		common.NewCallbacks(),
		&linkaddrs.DummyLinkAddrsManager{},
		arpTable,
		arpMaps,
	)
	return r
}

func (r *c44Rig) resolve() error {
	if err := r.mgr.ResolveUpdateBatch(); err != nil {
		return err
	}
	return r.mgr.CompleteDeferredWork()
}

func (r *c44Rig) tables() map[string]*c44Table {
	out := map[string]*c44Table{"raw": r.raw, "mangle": r.mangle, "filter": r.filter}
	if r.arp != nil {
		out["arp"] = r.arp
	}
	return out
}

func c44ChainString(c *generictables.Chain) string {
	if c == nil {
		return "<absent>"
	}
	var sb strings.Builder
	fmt.Fprintf(&sb, "chain %s {", c.Name)
	for _, rule := range c.Rules {
		fmt.Fprintf(&sb, "\n      [%+v] -> %+v  #%v", rule.Match, rule.Action, rule.Comment)
	}
	sb.WriteString(" }")
	return sb.String()
}

func c44RuleStrings(c *generictables.Chain) []string {
	var out []string
	for _, rule := range c.Rules {
		out = append(out, fmt.Sprintf("[%+v] -> %+v #%v", rule.Match, rule.Action, rule.Comment))
	}
	return out
}

// isMarkChain: chains whose content depends on the endpoint mark allocator (IPVS mode); the
// allocator is hash based with probing, hence legitimately history dependent.
func c44IsMarkChain(name string) bool {
	return strings.HasPrefix(name, rules.SetEndPointMarkPfx) ||
		name == rules.ChainDispatchSetEndPointMark || name == rules.ChainDispatchFromEndPointMark
}

// snapshot renders everything the manager programmed into comparable strings.
func (r *c44Rig) snapshot() map[string]string {
	out := map[string]string{}
	tabs := r.tables()
	for tn, tab := range tabs {
		for cn, c := range tab.chains {
			if c44IsMarkChain(cn) {
				out["chain/"+tn+"/"+cn] = "<mark chain present>"
				continue
			}
			rs := c44RuleStrings(c)
			if cn == rules.ChainRpfSkip {
				sort.Strings(rs) // rendered from a Go map; all rules are accepts
			}
			out["chain/"+tn+"/"+cn] = strings.Join(rs, "\n")
		}
	}
	for k, v := range r.routes.routes {
		var ts []string
		for _, t := range v {
			ts = append(ts, fmt.Sprintf("%v prio=%d mac=%v type=%v", t.CIDR, t.Priority, t.DestMAC, t.Type))
		}
		sort.Strings(ts)
		out[fmt.Sprintf("routes/%v/%s", k.class, k.iface)] = strings.Join(ts, ";")
	}
	for _, ms := range []*c44Maps{r.maps, r.arpMaps} {
		if ms == nil {
			continue
		}
		for mn, m := range ms.maps {
			for k, v := range m {
				out["map/"+mn+"/"+k] = strings.Join(v, ";")
			}
		}
	}
	return out
}

func c44DiffSnap(a, b map[string]string) string {
	keys := map[string]bool{}
	for k := range a {
		keys[k] = true
	}
	for k := range b {
		keys[k] = true
	}
	var ks []string
	for k := range keys {
		ks = append(ks, k)
	}
	sort.Strings(ks)
	var sb strings.Builder
	for _, k := range ks {
		av, aok := a[k]
		bv, bok := b[k]
		if aok != bok || av != bv {
			fmt.Fprintf(&sb, "  %s:\n    history: present=%v %q\n    fresh:   present=%v %q\n", k, aok, av, bok, bv)
		}
	}
	return sb.String()
}

// ---------------------------------------------------------------------------------------
// The oracle of the statement.

type c44World struct {
	ids  []types.WorkloadEndpointID
	live map[int]*c44EP // current (sent) state
}

func (w *c44World) describe(m map[int]*c44EP) string {
	var idxs []int
	for i := range m {
		idxs = append(idxs, i)
	}
	sort.Ints(idxs)
	var sb strings.Builder
	for _, i := range idxs {
		fmt.Fprintf(&sb, "\n    ep%d %v = %+v", i, w.ids[i], *m[i])
	}
	return sb.String()
}

// preferred returns, per interface name, the claimants in preference order.
func (w *c44World) claimants(m map[int]*c44EP) map[string][]int {
	out := map[string][]int{}
	for i, e := range m {
		out[e.Name] = append(out[e.Name], i)
	}
	for _, l := range out {
		sort.Slice(l, func(a, b int) bool { return c44IDLess(w.ids[l[a]], w.ids[l[b]]) })
	}
	return out
}

// c44Violation is one broken clause; kind is a short machine-readable tag.
type c44Violation struct {
	kind string
	msg  string
}

// check compares the rig's recorded state with what the statement demands for the live set m.
func (w *c44World) check(r *c44Rig, m map[int]*c44EP) []c44Violation {
	var out []c44Violation
	cl := w.claimants(m)
	scratchMapper := rules.NewEndpointMarkMapper(0xff00, 0x0100)
	expActive := map[types.WorkloadEndpointID]*proto.WorkloadEndpoint{}
	for _, name := range c44Names {
		ids := cl[name]
		// Names of the per-interface chains (a function of the name only).
		perName := r.renderer.WorkloadEndpointToIptablesChains(name, scratchMapper, true, nil, nil, nil)
		rk := c44RouteKey{routetable.RouteClassLocalWorkload, name}
		if len(ids) == 0 {
			for _, c := range perName {
				if got := r.filter.chains[c.Name]; got != nil {
					out = append(out, c44Violation{"leftover-chain",
						fmt.Sprintf("interface %s is used by no live endpoint but filter chain remains: %s", name, c44ChainString(got))})
				}
			}
			if len(r.routes.routes[rk]) != 0 {
				out = append(out, c44Violation{"leftover-routes",
					fmt.Sprintf("interface %s is used by no live endpoint but routes remain: %v", name, r.routes.routes[rk])})
			}
			// Anything else that still mentions the name.
			for tn, tab := range r.tables() {
				for cn, c := range tab.chains {
					if tn == "filter" && (strings.HasPrefix(cn, rules.ChainFromWorkloadDispatch) || strings.HasPrefix(cn, rules.ChainToWorkloadDispatch)) {
						continue // judged by the dispatch comparison below
					}
					hit := strings.Contains(cn, name)
					for _, s := range c44RuleStrings(c) {
						hit = hit || strings.Contains(s, name)
					}
					if hit && !(tn == "filter" && c44InChains(perName, cn)) {
						kind := "leftover-other"
						if cn == rules.ChainRpfSkip {
							kind = "leftover-rpf"
						} else if tn == "arp" {
							kind = "leftover-arp"
						}
						out = append(out, c44Violation{kind,
							fmt.Sprintf("interface %s is used by no live endpoint but table %s still has: %s", name, tn, c44ChainString(c))})
					}
				}
			}
			continue
		}
		pref := ids[0]
		e := m[pref]
		wl := c44Proto(pref, e)
		expActive[w.ids[pref]] = wl
		want := r.renderer.WorkloadEndpointToIptablesChains(name, scratchMapper, e.Active, nil, wl.ProfileIds, nil)
		for _, wc := range want {
			got := r.filter.chains[wc.Name]
			if c44IsMarkChain(wc.Name) {
				if got == nil {
					out = append(out, c44Violation{"missing-chain", fmt.Sprintf("interface %s: mark chain %s missing", name, wc.Name)})
				}
				continue
			}
			if got == nil || !reflect.DeepEqual(got.Rules, wc.Rules) {
				kind := "wrong-chain"
				if got == nil {
					kind = "missing-chain"
				}
				out = append(out, c44Violation{kind,
					fmt.Sprintf("interface %s must carry the chains of preferred endpoint ep%d %v (claimants in preference order %v)\n   want %s\n   got  %s",
						name, pref, w.ids[pref], ids, c44ChainString(wc), c44ChainString(got))})
			}
		}
		// Routes: only for admin-up endpoints, and exactly the preferred endpoint's addresses.
		var wantCIDRs []string
		if e.Active {
			nets := wl.Ipv4Nets
			if r.cfg.IPVersion == 6 {
				nets = wl.Ipv6Nets
			}
			for _, n := range nets {
				wantCIDRs = append(wantCIDRs, ip.MustParseCIDROrIP(n).String())
			}
		}
		var gotCIDRs []string
		for _, t := range r.routes.routes[rk] {
			gotCIDRs = append(gotCIDRs, t.CIDR.String())
		}
		sort.Strings(wantCIDRs)
		sort.Strings(gotCIDRs)
		if !reflect.DeepEqual(wantCIDRs, gotCIDRs) {
			kind := "wrong-routes"
			if !e.Active {
				kind = "routes-for-admin-down"
			}
			out = append(out, c44Violation{kind,
				fmt.Sprintf("interface %s: preferred endpoint ep%d (admin up=%v) requires routes %v, route table has %v",
					name, pref, e.Active, wantCIDRs, gotCIDRs)})
		}
	}
	// Routes for names outside the universe / other classes: there must be none.
	for k, v := range r.routes.routes {
		if k.class != routetable.RouteClassLocalWorkload || !c44IsName(k.iface) {
			out = append(out, c44Violation{"leftover-routes", fmt.Sprintf("unexpected routes %v for %v", v, k)})
		}
	}
	// Dispatch: exactly one entry per claimed name, none for others.
	wantDisp := map[string]*generictables.Chain{}
	for _, c := range r.renderer.WorkloadDispatchChains(expActive) {
		wantDisp[c.Name] = c
	}
	gotDisp := map[string]*generictables.Chain{}
	for cn, c := range r.filter.chains {
		if strings.HasPrefix(cn, rules.ChainFromWorkloadDispatch) || strings.HasPrefix(cn, rules.ChainToWorkloadDispatch) {
			gotDisp[cn] = c
		}
	}
	var dn []string
	for cn := range wantDisp {
		dn = append(dn, cn)
	}
	for cn := range gotDisp {
		if wantDisp[cn] == nil {
			dn = append(dn, cn)
		}
	}
	sort.Strings(dn)
	for _, cn := range dn {
		wc, gc := wantDisp[cn], gotDisp[cn]
		if wc == nil || gc == nil || !reflect.DeepEqual(wc.Rules, gc.Rules) {
			out = append(out, c44Violation{"wrong-dispatch",
				fmt.Sprintf("dispatch chain %s does not dispatch exactly the claimed interface names %v\n   want %s\n   got  %s",
					cn, c44SortedKeys(cl), c44ChainString(wc), c44ChainString(gc))})
		}
	}
	if r.maps != nil {
		wantFrom, wantTo := r.renderer.DispatchMappings(expActive)
		for _, p := range []struct {
			name string
			want map[string][]string
		}{{rules.NftablesFromWorkloadDispatchMap, wantFrom}, {rules.NftablesToWorkloadDispatchMap, wantTo}} {
			got := r.maps.maps[p.name]
			if len(got) == 0 && len(p.want) == 0 {
				continue
			}
			if !reflect.DeepEqual(got, p.want) {
				out = append(out, c44Violation{"wrong-dispatch",
					fmt.Sprintf("dispatch map %s: want %v got %v", p.name, p.want, got)})
			}
		}
	}
	return out
}

func c44InChains(cs []*generictables.Chain, name string) bool {
	for _, c := range cs {
		if c.Name == name {
			return true
		}
	}
	return false
}

func c44IsName(s string) bool {
	for _, n := range c44Names {
		if n == s {
			return true
		}
	}
	return false
}

func c44SortedKeys(m map[string][]int) []string {
	var out []string
	for k := range m {
		out = append(out, k)
	}
	sort.Strings(out)
	return out
}

// ---------------------------------------------------------------------------------------
// Known findings (HARNESS_GUIDE rule 4).  A "rename" is an endpoint that was live at the
// previous resolve and whose pending update carries a different interface name.

const (
	// The renamed endpoint held the old name (it was the preferred claimant) and another live
	// endpoint also claims the old name: the other endpoint is never promoted.
	c44SigRenameAwayActive = "rename-away-leaves-shadowed-unpromoted"
	// The renamed endpoint was shadowed on the old name: its shadow record is not dropped and is
	// resurrected (with stale data) when the old name's holder goes away.
	c44SigRenameAwayShadowed = "rename-of-shadowed-leaves-stale-shadow-record"
	// The renamed endpoint moves onto a name held by a more preferred endpoint: it is recorded
	// as shadowed on the new name but all its state stays programmed on the old name.
	c44SigRenameOntoPreferred = "rename-onto-preferred-keeps-old-name-state"
	// The renamed endpoint had spoofed-source prefixes: the RPF-skip rule of the old name stays.
	c44SigRenameRPF = "rename-leaves-rpf-skip-rule-on-old-name"
	// ARP-suppression chain (nftables, IPv4) of the old name is not removed on rename.
	c44SigRenameARP = "rename-leaves-arp-chain-on-old-name"
	// The holder of a name is removed in the same batch in which an endpoint shadowed on that
	// name is also updated or removed: promoting the shadowed endpoint overwrites its pending
	// update/removal with the stale shadow record (depends on Go map iteration order).
	c44SigPromotionOverwrites = "promotion-overwrites-pending-message-of-shadowed"
)

// c44BatchSigs returns the known-finding signatures that the batch (resolved -> current)
// contains.  ARP: whether the rig has an ARP table.
func (w *c44World) batchSigs(resolved, current map[int]*c44EP, touched map[int]bool, arp bool) map[string]bool {
	out := map[string]bool{}
	// Promotion: the preferred claimant of a name (at the previous resolve) ends the batch
	// removed, and another claimant of that name (at the previous resolve) has a message in
	// the same batch.
	for name, ids := range w.claimants(resolved) {
		if len(ids) < 2 || current[ids[0]] != nil {
			continue
		}
		for _, j := range ids[1:] {
			if touched[j] {
				out[c44SigPromotionOverwrites] = true
			}
		}
		_ = name
	}
	claims := func(name string, except int) (ids []int) {
		seen := map[int]bool{}
		for _, m := range []map[int]*c44EP{resolved, current} {
			for i, e := range m {
				if i != except && e.Name == name && !seen[i] {
					seen[i] = true
					ids = append(ids, i)
				}
			}
		}
		return
	}
	for i, old := range resolved {
		cur := current[i]
		if cur == nil || cur.Name == old.Name {
			continue
		}
		// endpoint i is renamed old.Name -> cur.Name.
		wasPreferred := true
		for j, e := range resolved {
			if j != i && e.Name == old.Name && c44IDLess(w.ids[j], w.ids[i]) {
				wasPreferred = false
			}
		}
		if len(claims(old.Name, i)) > 0 {
			if wasPreferred {
				out[c44SigRenameAwayActive] = true
			} else {
				out[c44SigRenameAwayShadowed] = true
			}
		}
		for _, j := range claims(cur.Name, i) {
			if c44IDLess(w.ids[j], w.ids[i]) {
				out[c44SigRenameOntoPreferred] = true
			}
		}
		if old.Spoof {
			out[c44SigRenameRPF] = true
		}
		if arp {
			out[c44SigRenameARP] = true
		}
	}
	return out
}

// ---------------------------------------------------------------------------------------
// The property.

func c44CopyLive(m map[int]*c44EP) map[int]*c44EP {
	out := map[int]*c44EP{}
	for i, e := range m {
		cp := *e
		out[i] = &cp
	}
	return out
}

func c44DrawIDs(t *rapid.T) []types.WorkloadEndpointID {
	// 3 distinct ids from a 2x2x2 vocabulary, so that the preference order is decided by the
	// orchestrator, the workload or the endpoint field depending on the draw.
	var all []types.WorkloadEndpointID
	for _, o := range []string{"k8s", "openstack"} {
		for _, wl := range []string{"ns/pod-a", "ns/pod-b"} {
			for _, e := range []string{"eth0", "eth1"} {
				all = append(all, types.WorkloadEndpointID{OrchestratorId: o, WorkloadId: wl, EndpointId: e})
			}
		}
	}
	perm := rapid.Permutation(all).Draw(t, "idVocabularyOrder")
	return perm[:3]
}

func c44SendUpdate(r *c44Rig, id types.WorkloadEndpointID, idx int, e *c44EP) {
	r.mgr.OnUpdate(&proto.WorkloadEndpointUpdate{Id: c44ProtoID(id), Endpoint: c44Proto(idx, e)})
}

func TestVerifC44PreferredEndpoint(t *testing.T) {
	ev.Quiet()
	rec := ev.New("C44", "endpointmgr",
		"histories of workload endpoint update/remove and interface up/down messages over 3 endpoint ids (drawn from a 2x2x2 id vocabulary) and 2-3 interface names, batches of any size between ResolveUpdateBatch+CompleteDeferredWork, configs ipv4/ipv6 x iptables/nftables(+ARP table) x IPVS; non-trivial = some resolve saw >=2 live endpoints claiming one interface name, or an endpoint changing name; distinct = distinct op sequence (kind,id,name,state)",
		"rule renderer (rules.NewRenderer) is trusted to render one endpoint's chains and the dispatch chains",
		"removes are only generated for endpoints that were announced before (the calculation graph never removes an unknown endpoint)")
	defer rec.Write()
	rapid.Check(t, func(t *rapid.T) {
		cfg := c44Cfg{
			IPVersion: rapid.SampledFrom([]uint8{4, 6}).Draw(t, "ipVersion"),
			NFT:       rapid.Bool().Draw(t, "nft"),
			IPVS:      rapid.Bool().Draw(t, "ipvs"),
		}
		cfg.ARP = cfg.NFT && cfg.IPVersion == 4 && rapid.Bool().Draw(t, "arpTable")
		nNames := 2
		if rapid.IntRange(0, 3).Draw(t, "thirdName") == 0 {
			nNames = 3
		}
		names := c44Names[:nNames]
		renderer := rules.NewRenderer(c44RulesConfig(cfg), cfg.NFT)
		w := &c44World{ids: c44DrawIDs(t), live: map[int]*c44EP{}}
		rig := c44NewRig(cfg, renderer)
		resolved := map[int]*c44EP{}
		ifaceUp := map[string]bool{}

		touched := map[int]bool{} // endpoints with a message in the current batch
		// excluded: would the batch, with endpoint idx's message added, contain a listed known
		// finding?  (HARNESS_GUIDE rule 4: steer around exactly those signatures.)
		excluded := func(trial map[int]*c44EP, idx int) bool {
			tt := map[int]bool{idx: true}
			for i := range touched {
				tt[i] = true
			}
			skip := false
			sigs := w.batchSigs(resolved, trial, tt, cfg.ARP)
			var names []string
			for sig := range sigs {
				names = append(names, sig)
			}
			sort.Strings(names)
			for _, sig := range names {
				if ev.Known(sig) {
					rec.Excluded(sig)
					skip = true
				}
			}
			return skip
		}

		var shape []string
		classes := map[string]bool{}
		nontrivial := false
		ver := 0
		batch := 0

		doResolve := func(final bool) {
			if err := rig.resolve(); err != nil {
				t.Fatalf("resolve returned error: %v", err)
			}
			if batch > 1 {
				classes["batch>1"] = true
			}
			if batch == 0 {
				classes["empty-batch"] = true
			}
			batch = 0
			for _, ids := range w.claimants(w.live) {
				if len(ids) > 1 {
					nontrivial = true
					classes["shadowing"] = true
				}
				if len(ids) > 2 {
					classes["shadowing-3"] = true
				}
			}
			for i, old := range resolved {
				if cur := w.live[i]; cur != nil && cur.Name != old.Name {
					nontrivial = true
					classes["rename"] = true
				}
			}
			oldCl := w.claimants(resolved)
			newCl := w.claimants(w.live)
			for name, ids := range oldCl {
				if n := newCl[name]; len(ids) > 1 && len(n) > 0 && n[0] != ids[0] && w.live[ids[0]] == nil {
					classes["promotion-after-remove"] = true
					nontrivial = true
					if len(ids) > 2 && len(n) > 1 {
						classes["promotion-best-of-two-shadowed"] = true
					}
				}
				if n := newCl[name]; len(n) > 1 && len(ids) > 0 && n[0] != ids[0] && w.live[ids[0]] != nil && w.live[ids[0]].Name == name {
					classes["takeover-by-more-preferred"] = true
				}
			}
			for _, e := range w.live {
				if !e.Active {
					classes["admin-down"] = true
				}
			}
			if vs := w.check(rig, w.live); len(vs) > 0 {
				var sb strings.Builder
				for _, v := range vs {
					fmt.Fprintf(&sb, "\n [%s] %s", v.kind, v.msg)
				}
				t.Fatalf("C44 violated after resolve (config %+v).\n live endpoints:%s\n state at previous resolve:%s\n violations:%s",
					cfg, w.describe(w.live), w.describe(resolved), sb.String())
			}
			resolved = c44CopyLive(w.live)
			touched = map[int]bool{}
		}

		holder := -1
		nOps := rapid.IntRange(1, ev.Scale(16, 28)).Draw(t, "nOps")
		for op := 0; op < nOps; op++ {
			kind := rapid.SampledFrom([]string{"update", "update", "update", "update", "update", "remove", "removeHolder", "removeHolder", "iface", "resolve", "resolve", "resolve", "resolve"}).Draw(t, "op")
			if kind == "removeHolder" {
				// Remove the preferred claimant of a contended name (forces a promotion).
				kind = "remove"
				cl := w.claimants(w.live)
				for _, n := range names {
					if len(cl[n]) > 1 {
						holder = cl[n][0]
						break
					}
				}
			}
			switch kind {
			case "update":
				idx := rapid.IntRange(0, 2).Draw(t, "ep")
				// The first name is drawn more often so that three claimants of one name are common.
				name := names[[]int{0, 0, 0, 1, 1, 2}[rapid.IntRange(0, 2*len(names)-1).Draw(t, "name")]%len(names)]
				if old := w.live[idx]; old != nil && rapid.IntRange(0, 2).Draw(t, "keepName") > 0 {
					name = old.Name
				}
				ver++
				e := &c44EP{Name: name, Active: rapid.IntRange(0, 3).Draw(t, "adminUp") > 0, Ver: ver,
					Spoof: rapid.IntRange(0, 3).Draw(t, "spoof") == 0}
				// Known findings: keep the generated batch free of listed signatures.
				trial := c44CopyLive(w.live)
				trial[idx] = e
				if excluded(trial, idx) {
					shape = append(shape, "x")
					continue
				}
				touched[idx] = true
				w.live[idx] = e
				c44SendUpdate(rig, w.ids[idx], idx, e)
				batch++
				shape = append(shape, fmt.Sprintf("U%d%s%v", idx, name[5:6], e.Active))
			case "remove":
				var liveIdx []int
				for i := range w.live {
					liveIdx = append(liveIdx, i)
				}
				if len(liveIdx) == 0 {
					shape = append(shape, "-")
					continue
				}
				sort.Ints(liveIdx)
				idx := holder
				holder = -1
				if idx < 0 {
					idx = rapid.SampledFrom(liveIdx).Draw(t, "removeEp")
				}
				trial := c44CopyLive(w.live)
				delete(trial, idx)
				if excluded(trial, idx) {
					shape = append(shape, "x")
					continue
				}
				touched[idx] = true
				delete(w.live, idx)
				rig.mgr.OnUpdate(&proto.WorkloadEndpointRemove{Id: c44ProtoID(w.ids[idx])})
				batch++
				shape = append(shape, fmt.Sprintf("R%d", idx))
			case "iface":
				name := rapid.SampledFrom(names).Draw(t, "ifaceName")
				up := rapid.Bool().Draw(t, "ifaceUp")
				ifaceUp[name] = up
				st := ifacemonitor.StateDown
				if up {
					st = ifacemonitor.StateUp
				}
				rig.mgr.OnUpdate(&ifaceStateUpdate{Name: name, State: st})
				batch++
				shape = append(shape, fmt.Sprintf("I%s%v", name[5:6], up))
			case "resolve":
				doResolve(false)
				shape = append(shape, "|")
			}
		}
		doResolve(true)

		// Differential: fresh managers given only the final set, in two orders.
		var idxs []int
		for i := range w.live {
			idxs = append(idxs, i)
		}
		sort.Slice(idxs, func(a, b int) bool { return c44IDLess(w.ids[idxs[a]], w.ids[idxs[b]]) })
		var upNames []string
		for n, up := range ifaceUp {
			if up {
				upNames = append(upNames, n)
			}
		}
		sort.Strings(upNames)
		freshA := c44NewRig(cfg, renderer)
		for _, n := range upNames {
			freshA.mgr.OnUpdate(&ifaceStateUpdate{Name: n, State: ifacemonitor.StateUp})
		}
		for _, i := range idxs {
			c44SendUpdate(freshA, w.ids[i], i, w.live[i])
		}
		if err := freshA.resolve(); err != nil {
			t.Fatalf("fresh resolve: %v", err)
		}
		freshB := c44NewRig(cfg, renderer)
		if err := freshB.resolve(); err != nil {
			t.Fatalf("fresh resolve: %v", err)
		}
		for k := len(idxs) - 1; k >= 0; k-- {
			c44SendUpdate(freshB, w.ids[idxs[k]], idxs[k], w.live[idxs[k]])
			if err := freshB.resolve(); err != nil {
				t.Fatalf("fresh resolve: %v", err)
			}
		}
		for _, n := range upNames {
			freshB.mgr.OnUpdate(&ifaceStateUpdate{Name: n, State: ifacemonitor.StateUp})
		}
		if err := freshB.resolve(); err != nil {
			t.Fatalf("fresh resolve: %v", err)
		}
		hs := rig.snapshot()
		for fi, fr := range []*c44Rig{freshA, freshB} {
			which := []string{"ascending ids, one batch", "descending ids, one resolve each"}[fi]
			if vs := w.check(fr, w.live); len(vs) > 0 {
				t.Fatalf("C44 violated by a fresh manager given only the final set (%s): [%s] %s\n live:%s", which, vs[0].kind, vs[0].msg, w.describe(w.live))
			}
			if d := c44DiffSnap(hs, fr.snapshot()); d != "" {
				t.Fatalf("C44: state after the history differs from a fresh manager given only the final endpoint set (%s), config %+v\n live endpoints:%s\n differences:\n%s",
					which, cfg, w.describe(w.live), d)
			}
		}

		var cl []string
		for c := range classes {
			cl = append(cl, c)
		}
		sort.Strings(cl)
		cl = append(cl, fmt.Sprintf("cfg-v%d-nft%v", cfg.IPVersion, cfg.NFT))
		key := strings.Join(shape, ",")
		rec.SizedCase(nontrivial, key, len(shape), func() any {
			return map[string]any{"config": cfg, "ids": fmt.Sprint(w.ids), "ops": key}
		}, cl...)
	})
}

// ---------------------------------------------------------------------------------------
// Deterministic confirmations of the known findings (one message per resolve, so Go map
// iteration order inside the manager plays no role).  Each fails while its defect is present
// and is skipped in the generated search once the signature is listed as known.

type c44Step struct {
	idx    int    // endpoint index
	name   string // "" = remove
	spoof  bool
	active bool
	more   bool // the next step belongs to the same batch (no resolve in between)
}

func c44RunScript(t *testing.T, sig string, cfg c44Cfg, steps []c44Step) {
	ev.Quiet()
	if ev.Known(sig) {
		t.Skipf("signature %q is a listed known finding; the driver confirms it separately", sig)
	}
	w := &c44World{ids: []types.WorkloadEndpointID{
		{OrchestratorId: "k8s", WorkloadId: "ns/pod-a", EndpointId: "eth0"},
		{OrchestratorId: "k8s", WorkloadId: "ns/pod-b", EndpointId: "eth0"},
		{OrchestratorId: "k8s", WorkloadId: "ns/pod-c", EndpointId: "eth0"},
	}, live: map[int]*c44EP{}}
	renderer := rules.NewRenderer(c44RulesConfig(cfg), cfg.NFT)
	// Scripts with a multi-message batch depend on Go's map iteration order inside the manager;
	// they are repeated so that every order is seen (miss probability 2^-64 for 2 messages).
	trials := 1
	for _, s := range steps {
		if s.more {
			trials = 64
		}
	}
	for trial := 0; trial < trials; trial++ {
		c44RunScriptOnce(t, sig, cfg, renderer, w, steps)
	}
}

func c44RunScriptOnce(t *testing.T, sig string, cfg c44Cfg, renderer rules.RuleRenderer, w *c44World, steps []c44Step) {
	w.live = map[int]*c44EP{}
	rig := c44NewRig(cfg, renderer)
	for n, s := range steps {
		if s.name == "" {
			delete(w.live, s.idx)
			rig.mgr.OnUpdate(&proto.WorkloadEndpointRemove{Id: c44ProtoID(w.ids[s.idx])})
		} else {
			e := &c44EP{Name: s.name, Active: s.active, Ver: n + 1, Spoof: s.spoof}
			w.live[s.idx] = e
			c44SendUpdate(rig, w.ids[s.idx], s.idx, e)
		}
		if s.more {
			continue
		}
		if err := rig.resolve(); err != nil {
			t.Fatal(err)
		}
		if vs := w.check(rig, w.live); len(vs) > 0 {
			var sb strings.Builder
			for _, v := range vs {
				fmt.Fprintf(&sb, "\n [%s] %s", v.kind, v.msg)
			}
			t.Fatalf("known finding %q reproduced after step %d of %+v \n live endpoints:%s\n violations:%s",
				sig, n+1, steps, w.describe(w.live), sb.String())
		}
	}
}

const c44X, c44Y = "cali-x1", "cali-y2"

// ep0 (preferred) holds X and shadows ep1; ep0 is renamed to Y: X must now carry ep1.
func TestVerifC44KnownRenameAwayLeavesShadowed(t *testing.T) {
	c44RunScript(t, c44SigRenameAwayActive, c44Cfg{IPVersion: 4}, []c44Step{
		{idx: 0, name: c44X, active: true}, {idx: 1, name: c44X, active: true}, {idx: 0, name: c44Y, active: true}})
}

// ep1 is shadowed on X by ep0, then renamed to the free name Y (fine so far); when ep0 is
// removed nothing may remain on X and Y must still carry ep1.
func TestVerifC44KnownRenameOfShadowedStaleRecord(t *testing.T) {
	c44RunScript(t, c44SigRenameAwayShadowed, c44Cfg{IPVersion: 4}, []c44Step{
		{idx: 0, name: c44X, active: true}, {idx: 1, name: c44X, active: true}, {idx: 1, name: c44Y, active: true}, {idx: 0, name: ""}})
}

// ep1 holds Y and is renamed onto X, which the more preferred ep0 holds: nothing may remain on Y.
func TestVerifC44KnownRenameOntoPreferred(t *testing.T) {
	c44RunScript(t, c44SigRenameOntoPreferred, c44Cfg{IPVersion: 4}, []c44Step{
		{idx: 0, name: c44X, active: true}, {idx: 1, name: c44Y, active: true}, {idx: 1, name: c44X, active: true}})
}

// A lone endpoint with spoofed-source prefixes is renamed: no RPF-skip rule may remain for X.
func TestVerifC44KnownRenameLeavesRPFSkip(t *testing.T) {
	c44RunScript(t, c44SigRenameRPF, c44Cfg{IPVersion: 4}, []c44Step{
		{idx: 0, name: c44X, active: true, spoof: true}, {idx: 0, name: c44Y, active: true, spoof: true}})
}

// A lone endpoint is renamed (nftables, IPv4, ARP table present): no ARP chain may remain for X.
func TestVerifC44KnownRenameLeavesARPChain(t *testing.T) {
	c44RunScript(t, c44SigRenameARP, c44Cfg{IPVersion: 4, NFT: true, ARP: true}, []c44Step{
		{idx: 0, name: c44X, active: true}, {idx: 0, name: c44Y, active: true}})
}

// ep0 holds X and shadows ep1; both are removed in one batch: nothing may remain on X.
func TestVerifC44KnownPromotionOverwritesPending(t *testing.T) {
	c44RunScript(t, c44SigPromotionOverwrites, c44Cfg{IPVersion: 4}, []c44Step{
		{idx: 0, name: c44X, active: true}, {idx: 1, name: c44X, active: true},
		{idx: 0, name: "", more: true}, {idx: 1, name: ""}})
}
