package intdataplane

// C40, unit "tunnelsrc" — sentence 4 of the property ("tunnelled packets from non-cluster
// sources are dropped") with the cluster-source IP sets produced by the REAL managers.
//
// The static cali-INPUT chain decides whether an IP-in-IP / VXLAN packet comes from the cluster
// by looking its source up in the all-hosts-net / all-vxlan-net IP sets.  In the "paths" unit
// the harness fills those sets itself; here their content is whatever the real
// hostsIPSetManager (fed with HostMetadataUpdate / HostMetadataRemove in the form the
// calculation graph sends them: "host IP/prefix length" addresses, label- or AS-only updates,
// dual-stack hosts, hosts that lose their address) and the real vxlanManager (fed with VTEP
// updates / removes) hand to the IP sets layer, canonicalised exactly as the IP sets layer
// canonicalises hash:net members.  After every batch the real rendered cali-INPUT chain is
// executed by verifkit/nfsim for tunnel packets from cluster hosts, from addresses that merely
// share a subnet with a cluster host, from addresses hosts used to have, and from outsiders.
// Reference: a source is a cluster source iff some host currently known has exactly that
// address, or it lies in a configured ExternalNodesCIDRs entry.

import (
	"fmt"
	"net/netip"
	"sort"
	"strings"
	"testing"

	"pgregory.net/rapid"

	"github.com/projectcalico/calico/felix/dataplane/linux/dataplanedefs"
	"github.com/projectcalico/calico/felix/generictables"
	"github.com/projectcalico/calico/felix/ifacemonitor"
	"github.com/projectcalico/calico/felix/ip"
	"github.com/projectcalico/calico/felix/ipsets"
	"github.com/projectcalico/calico/felix/nftables"
	"github.com/projectcalico/calico/felix/proto"
	"github.com/projectcalico/calico/felix/routetable"
	"github.com/projectcalico/calico/felix/rules"
	"github.com/projectcalico/calico/felix/vxlanfdb"
	"github.com/projectcalico/calico/libcalico-go/lib/set"
	"github.com/projectcalico/calico/verifkit/ev"
	"github.com/projectcalico/calico/verifkit/nfsim"
)

func c40tsIdx(t *rapid.T, label string, n int) int {
	x := rapid.Uint64().Draw(t, label)
	x ^= x >> 30
	x *= 0xbf58476d1ce4e5b9
	x ^= x >> 27
	x *= 0x94d049bb133111eb
	x ^= x >> 31
	return int(x % uint64(n))
}

func c40tsChance(t *rapid.T, label string, pct int) bool { return c40tsIdx(t, label, 100) >= 100-pct }

func c40tsFrom[T any](t *rapid.T, label string, xs []T) T { return xs[c40tsIdx(t, label, len(xs))] }

// ---- recording IP sets dataplane ----

type c40tsIPSets struct {
	family  ipsets.IPFamily
	meta    map[string]ipsets.IPSetMetadata
	members map[string][]string
}

func c40tsNewIPSets(family ipsets.IPFamily) *c40tsIPSets {
	return &c40tsIPSets{family: family, meta: map[string]ipsets.IPSetMetadata{}, members: map[string][]string{}}
}

func (s *c40tsIPSets) AddOrReplaceIPSet(m ipsets.IPSetMetadata, members []string) {
	s.meta[m.SetID] = m
	s.members[m.SetID] = append([]string(nil), members...)
}
func (s *c40tsIPSets) AddMembers(id string, ms []string) {
	s.members[id] = append(s.members[id], ms...)
}
func (s *c40tsIPSets) RemoveMembers(id string, ms []string) {
	rm := map[string]bool{}
	for _, m := range ms {
		rm[m] = true
	}
	var out []string
	for _, m := range s.members[id] {
		if !rm[m] {
			out = append(out, m)
		}
	}
	s.members[id] = out
}
func (s *c40tsIPSets) RemoveIPSet(id string)                         { delete(s.members, id); delete(s.meta, id) }
func (s *c40tsIPSets) GetIPFamily() ipsets.IPFamily                  { return s.family }
func (s *c40tsIPSets) GetTypeOf(id string) (ipsets.IPSetType, error) { return s.meta[id].Type, nil }
func (s *c40tsIPSets) GetDesiredMembers(id string) (set.Set[string], error) {
	return set.FromArray(s.members[id]), nil
}
func (s *c40tsIPSets) QueueResync()                       {}
func (s *c40tsIPSets) ApplyUpdates(ipsets.UpdateListener) {}
func (s *c40tsIPSets) ApplyDeletions() bool               { return false }
func (s *c40tsIPSets) SetFilter(set.Set[string])          {}

// prefixes: the members of a hash:net set as the IP sets layer would program them.
func (s *c40tsIPSets) prefixes(id string) ([]netip.Prefix, error) {
	var out []netip.Prefix
	if s.meta[id].Type != ipsets.IPSetTypeHashNet {
		return nil, fmt.Errorf("IP set %s has type %q, the static rules expect hash:net", id, s.meta[id].Type)
	}
	for _, m := range s.members[id] {
		c, ok := ipsets.CanonicaliseMember(ipsets.IPSetTypeHashNet, m).(ip.CIDR)
		if !ok {
			return nil, fmt.Errorf("member %q of %s does not canonicalise to a CIDR", m, id)
		}
		p, err := netip.ParsePrefix(c.String())
		if err != nil {
			return nil, fmt.Errorf("member %q of %s: %v", m, id, err)
		}
		out = append(out, p)
	}
	return out, nil
}

type c40tsRoutes struct{}

func (c40tsRoutes) SetRoutes(routetable.RouteClass, string, []routetable.Target)   {}
func (c40tsRoutes) RouteRemove(routetable.RouteClass, string, routetable.RouteKey) {}
func (c40tsRoutes) RouteUpdate(routetable.RouteClass, string, routetable.Target)   {}
func (c40tsRoutes) OnIfaceStateChanged(string, int, ifacemonitor.State)            {}
func (c40tsRoutes) QueueResync()                                                   {}
func (c40tsRoutes) QueueResyncIface(string)                                        {}
func (c40tsRoutes) Index() int                                                     { return 0 }
func (c40tsRoutes) Apply() error                                                   { return nil }
func (c40tsRoutes) ReadRoutesFromKernel(string) ([]routetable.Target, error)       { return nil, nil }

type c40tsFDB struct{}

func (c40tsFDB) SetVTEPs([]vxlanfdb.VTEP) {}

type c40tsOpRec struct{}

func (c40tsOpRec) RecordOperation(string) {}

// ---- model ----

type c40tsHost struct {
	Known bool
	V4    string // "ip/len" as the calculation graph sends it; "" = no IPv4 address
	V6    string
	VTEP  string // parent device IP (plain) announced as VXLAN tunnel endpoint; "" = none
	Ver   int
}

var (
	c40tsV4Addrs = []string{"10.0.0.5/24", "10.0.0.6/24", "10.0.0.200/24", "172.16.4.9/16", "192.168.7.7/32", "10.0.1.2/30", "10.0.0.5/32"}
	c40tsV6Addrs = []string{"fd00:a::5/64", "fd00:a::6/64", "fd00:a:0:1::9/48", "2001:db8::7/128", "fd00:a::5/128"}
)

func c40tsStrip(a string) netip.Addr {
	if a == "" {
		return netip.Addr{}
	}
	return netip.MustParsePrefix(a).Addr()
}

// neighbours: addresses of the same subnet that are not the address itself.
func c40tsNeighbours(a string) []netip.Addr {
	p := netip.MustParsePrefix(a)
	if p.Bits() == p.Addr().BitLen() {
		return []netip.Addr{p.Addr().Next(), p.Addr().Prev()}
	}
	net := p.Masked().Addr()
	out := []netip.Addr{net, net.Next(), p.Addr().Next(), p.Addr().Prev()}
	var res []netip.Addr
	for _, x := range out {
		if x.IsValid() && p.Contains(x) && x != p.Addr() {
			res = append(res, x)
		}
	}
	return res
}

func TestVerifC40TunnelSources(t *testing.T) {
	ev.Quiet()
	rec := ev.New("C40", "tunnelsrc",
		"each case: IP version (IP-in-IP: v4; VXLAN: v4/v6), renderer, deny action, optional ExternalNodesCIDRs, 4 host names; a history of 3-10 batches of host operations sent to the REAL hostsIPSetManager and vxlanManager as the calculation graph sends them: host added / address changed (addresses always 'host IP/prefix length', prefix lengths 16-32 / 48-128), label- or AS-number-only update, host loses its address of this version, host removed, VTEP announced / changed / removed; after every batch the programmed all-hosts-net / all-vxlan-net members (canonicalised as the IP sets layer does for hash:net) are loaded under the real rendered cali-INPUT chain and IP-in-IP / VXLAN packets to a local address are executed from: every current cluster host, neighbours inside each host's subnet (network address, +1, -1), addresses hosts used to have, outsiders, ExternalNodesCIDRs members. "+
			"Non-trivial = some host address has a real prefix length (< full) and a non-cluster neighbour of its subnet was probed, or a host changed / lost / was removed with its former address probed; distinct = version/renderer/operation sequence",
		"reference: a source is a cluster source iff a currently known host has exactly that address (mask stripped) / announces it as VTEP, or it lies in ExternalNodesCIDRs; only non-cluster sources are judged (must be dropped)",
		"IP set members are canonicalised with ipsets.CanonicaliseMember, the function the IP sets layer uses",
		"only remote VTEPs are announced (the local VTEP drives device/route programming that is not part of this property)")
	defer rec.Write()

	rapid.Check(t, func(t *rapid.T) {
		ipv := rapid.SampledFrom([]int{4, 4, 6}).Draw(t, "ipVersion")
		nft := rapid.Bool().Draw(t, "nft")
		deny := c40tsFrom(t, "denyAction", []string{"DROP", "REJECT"})
		allow := c40tsFrom(t, "filterAllowAction", []string{"ACCEPT", "ACCEPT", "RETURN"})
		var external []string
		if c40tsChance(t, "externalNodes", 30) {
			external = []string{"203.0.113.0/28"}
			if ipv == 6 {
				external = []string{"2001:db8:ffff::/112"}
			}
		}
		rc := rules.Config{
			IPSetConfigV4:         ipsets.NewIPVersionConfig(ipsets.IPFamilyV4, "cali", nil, nil),
			IPSetConfigV6:         ipsets.NewIPVersionConfig(ipsets.IPFamilyV6, "cali", nil, nil),
			WorkloadIfacePrefixes: []string{"cali"},
			MarkAccept:            0x10000, MarkPass: 0x20000, MarkDrop: 0x40000, MarkScratch0: 0x80000, MarkScratch1: 0x100000,
			MarkEndpoint: 0xff000000, MarkNonCaliEndpoint: 0x01000000,
			IPIPEnabled: true, VXLANEnabled: true, VXLANEnabledV6: true, VXLANPort: 4789, VXLANVNI: 4096,
			FilterDenyAction: deny, FilterAllowAction: allow,
			WireguardInterfaceName: "wireguard.cali", WireguardInterfaceNameV6: "wg-v6.cali",
		}
		dpCfg := Config{MaxIPSetSize: 1024, Hostname: "node0", ExternalNodesCidrs: external, RulesConfig: rc}
		family := ipsets.IPFamilyV4
		dev := dataplanedefs.VXLANIfaceNameV4
		if ipv == 6 {
			family, dev = ipsets.IPFamilyV6, dataplanedefs.VXLANIfaceNameV6
		}
		sets := c40tsNewIPSets(family)
		hostsMgr := newHostsIPSetManager(sets, uint8(ipv), dpCfg)
		vxMgr := newVXLANManagerWithShims(sets, c40tsRoutes{}, c40tsFDB{}, dev, uint8(ipv), 1400, dpCfg, c40tsOpRec{}, nil)

		// The real static filter INPUT chains.
		rr := rules.NewRenderer(rc, nft)
		var rs *nfsim.Ruleset
		var tbl generictables.Table
		if nft {
			rs, tbl = nfsim.NewNFT(ipv, "filter")
		} else {
			rs, tbl = nfsim.NewIptables(ipv)
		}
		tbl.UpdateChains(rr.StaticFilterTableChains(uint8(ipv)))
		entry := rules.ChainFilterInput
		chainName := func(n string) string {
			if nft {
				return nfsim.NFTName("filter", n)
			}
			return n
		}
		for _, stub := range []string{rules.ChainFromWorkloadDispatch, rules.ChainDispatchFromHostEndpoint} {
			if !rs.HasChain(chainName(stub)) {
				rs.Stub(chainName(stub))
			}
		}
		if err := rs.Err(); err != nil {
			t.Fatalf("%v", err)
		}
		ipc := rc.IPSetConfigV4
		if ipv == 6 {
			ipc = rc.IPSetConfigV6
		}
		setName := func(id string) string {
			n := ipc.NameForMainIPSet(id)
			if nft {
				n = nftables.LegalizeSetName(n)
			}
			return n
		}

		hostNames := []string{"node0", "node1", "node2", "node3"}
		hosts := map[string]*c40tsHost{}
		for _, h := range hostNames {
			hosts[h] = &c40tsHost{}
		}
		former := map[netip.Addr]bool{}
		addrVocab := c40tsV4Addrs
		if ipv == 6 {
			addrVocab = c40tsV6Addrs
		}
		otherVocab := c40tsV6Addrs
		if ipv == 6 {
			otherVocab = c40tsV4Addrs
		}
		thisAddr := func(h *c40tsHost) string {
			if ipv == 6 {
				return h.V6
			}
			return h.V4
		}
		setThis := func(h *c40tsHost, a string) {
			if ipv == 6 {
				h.V6 = a
			} else {
				h.V4 = a
			}
		}
		sendHost := func(name string) {
			h := hosts[name]
			labels := map[string]string{"ver": fmt.Sprint(h.Ver)}
			msg := &proto.HostMetadataUpdate{Hostname: name, Ipv4Addr: h.V4, Ipv6Addr: h.V6, Labels: labels, Asnumber: fmt.Sprint(64512 + h.Ver%3)}
			hostsMgr.OnUpdate(msg)
		}
		sendVTEP := func(name string) {
			h := hosts[name]
			if h.VTEP == "" {
				vxMgr.OnUpdate(&proto.VXLANTunnelEndpointRemove{Node: name})
				return
			}
			u := &proto.VXLANTunnelEndpointUpdate{Node: name, Mac: "02:00:00:00:00:01", MacV6: "02:00:00:00:00:02"}
			if ipv == 4 {
				u.Ipv4Addr, u.ParentDeviceIp = "10.244.0.1", h.VTEP
			} else {
				u.Ipv6Addr, u.ParentDeviceIpv6 = "fd00:244::1", h.VTEP
			}
			vxMgr.OnUpdate(u)
		}

		classes := map[string]bool{}
		var ops, history []string
		nontrivial := false
		wantDrop := func(v nfsim.Verdict) bool { return v == nfsim.VerdictDrop || v == nfsim.VerdictReject }

		nSteps := 3 + c40tsIdx(t, "nBatches", 8)
		for step := 0; step < nSteps; step++ {
			name := c40tsFrom(t, "op-host", hostNames[1:]) // remote hosts; node0 (this host) is added in batch 0
			if step == 0 {
				name = "node0"
			}
			h := hosts[name]
			var op string
			switch k := c40tsIdx(t, "op-kind", 20); {
			case !h.Known || k < 5:
				if old := thisAddr(h); h.Known && old != "" {
					former[c40tsStrip(old)] = true
				}
				if !h.Known {
					op = "host-add"
				} else {
					op = "host-address-change"
				}
				h.Known = true
				setThis(h, c40tsFrom(t, "op-addr", addrVocab))
				if c40tsChance(t, "op-dual-stack", 40) {
					if ipv == 6 {
						h.V4 = c40tsFrom(t, "op-other-addr", otherVocab)
					} else {
						h.V6 = c40tsFrom(t, "op-other-addr", otherVocab)
					}
				}
				h.Ver++
				sendHost(name)
				if name != "node0" && c40tsChance(t, "op-with-vtep", 70) {
					h.VTEP = c40tsStrip(thisAddr(h)).String()
					sendVTEP(name)
				}
			case k < 10:
				op = "host-labels-only-update"
				h.Ver++
				sendHost(name)
			case k < 12:
				op = "host-loses-address"
				if old := thisAddr(h); old != "" {
					former[c40tsStrip(old)] = true
				}
				setThis(h, "")
				h.Ver++
				sendHost(name)
				if h.VTEP != "" {
					h.VTEP = ""
					sendVTEP(name)
				}
			case k < 16:
				op = "host-remove"
				if old := thisAddr(h); old != "" {
					former[c40tsStrip(old)] = true
				}
				if h.VTEP != "" {
					h.VTEP = ""
					sendVTEP(name)
				}
				*h = c40tsHost{}
				hostsMgr.OnUpdate(&proto.HostMetadataRemove{Hostname: name})
			default:
				if name == "node0" || thisAddr(h) == "" {
					op = "host-labels-only-update"
					h.Ver++
					sendHost(name)
					break
				}
				if h.VTEP == "" {
					op = "vtep-announce"
					h.VTEP = c40tsStrip(thisAddr(h)).String()
				} else {
					op = "vtep-remove"
					h.VTEP = ""
				}
				sendVTEP(name)
			}
			ops = append(ops, op)
			history = append(history, fmt.Sprintf("%d: %s %s -> %+v", step, op, name, *h))
			classes["op:"+op] = true

			if err := hostsMgr.CompleteDeferredWork(); err != nil {
				t.Fatalf("C40 violated: hostsIPSetManager.CompleteDeferredWork: %v", err)
			}
			if vxMgr.vtepsDirty {
				vxMgr.updateNeighborsAndAllowedSources() // what vxlanManager.CompleteDeferredWork does for the VTEP set
				vxMgr.vtepsDirty = false
			}

			// Load what was programmed.
			hostNets, err := sets.prefixes(rules.IPSetIDAllHostNets)
			if err != nil {
				t.Fatalf("C40 violated: %v", err)
			}
			vxNets, err := sets.prefixes(rules.IPSetIDAllVXLANSourceNets)
			if err != nil {
				t.Fatalf("C40 violated: %v", err)
			}
			rs.Sets = map[string]*nfsim.Set{
				setName(rules.IPSetIDAllHostNets):        {Nets: hostNets},
				setName(rules.IPSetIDAllVXLANSourceNets): {Nets: vxNets},
				setName(rules.IPSetIDThisHostIPs):        {},
			}

			// Reference cluster sources.
			clusterIPIP, clusterVX := map[netip.Addr]bool{}, map[netip.Addr]bool{}
			var extNets []netip.Prefix
			for _, e := range external {
				extNets = append(extNets, netip.MustParsePrefix(e))
			}
			probes := map[netip.Addr]string{}
			anyRealPrefix := false
			for _, hn := range hostNames {
				hh := hosts[hn]
				if !hh.Known {
					continue
				}
				if a := thisAddr(hh); a != "" {
					clusterIPIP[c40tsStrip(a)] = true
					probes[c40tsStrip(a)] = "cluster-host"
					p := netip.MustParsePrefix(a)
					for _, n := range c40tsNeighbours(a) {
						if _, dup := probes[n]; !dup {
							probes[n] = "subnet-neighbour"
						}
					}
					if p.Bits() < p.Addr().BitLen() {
						anyRealPrefix = true
					}
				}
				if hh.VTEP != "" {
					clusterVX[netip.MustParseAddr(hh.VTEP)] = true
				}
			}
			for a := range former {
				if _, dup := probes[a]; !dup {
					probes[a] = "former-address"
				}
			}
			outsider := netip.MustParseAddr("198.51.100.9")
			if ipv == 6 {
				outsider = netip.MustParseAddr("2001:db8:dead::9")
			}
			probes[outsider] = "outsider"
			for _, e := range extNets {
				probes[e.Addr().Next()] = "external-node"
			}
			var addrs []netip.Addr
			for a := range probes {
				addrs = append(addrs, a)
			}
			sort.Slice(addrs, func(i, j int) bool { return addrs[i].Less(addrs[j]) })

			local := netip.MustParseAddr("10.0.0.250")
			if ipv == 6 {
				local = netip.MustParseAddr("fd00:a::250")
			}
			for _, src := range addrs {
				kind := probes[src]
				inExt := false
				for _, e := range extNets {
					inExt = inExt || e.Contains(src)
				}
				for _, tun := range []string{"ipip", "vxlan"} {
					if tun == "ipip" && ipv != 4 {
						continue
					}
					cluster := clusterIPIP[src] || inExt
					pk := nfsim.Packet{IPVersion: ipv, Src: src, Dst: local, DstAddrType: "LOCAL", InIf: "eth0", LimitOK: true,
						CTState: c40tsFrom(t, "pkt-ctstate", []string{"NEW", "ESTABLISHED", "UNTRACKED"})}
					if tun == "ipip" {
						pk.Proto = 4
					} else {
						cluster = clusterVX[src] || inExt
						pk.Proto, pk.SrcPort, pk.DstPort = 17, 40000, uint16(rc.VXLANPort)
					}
					res, err := rs.Run(chainName(entry), &pk)
					if err != nil {
						if _, gap := err.(*nfsim.GapError); gap {
							t.Fatalf("%v", err)
						}
						t.Fatalf("C40 violated: rendered cali-INPUT cannot be executed: %v", err)
					}
					if cluster {
						classes["probe:"+tun+"-cluster-source"] = true
						continue // the statement only speaks about non-cluster sources
					}
					classes["probe:"+tun+"-"+kind] = true
					if kind == "subnet-neighbour" && anyRealPrefix || kind == "former-address" {
						nontrivial = true
					}
					if !wantDrop(res.Verdict) {
						t.Fatalf("C40 violated: %s packet from non-cluster source %s (%s) is not dropped on the input path: verdict=%s final=%v\n  after batch %d (%s %s); %s, IPv%d\n  history: %v\n  programmed %s members: %v  (as hash:net: %v)\n  programmed %s members: %v\n  ExternalNodesCIDRs: %v\nrendered:\n%s",
							tun, src, kind, res.Verdict, res.Final, step, op, name, map[bool]string{false: "iptables", true: "nftables"}[nft], ipv, history,
							rules.IPSetIDAllHostNets, sets.members[rules.IPSetIDAllHostNets], hostNets, rules.IPSetIDAllVXLANSourceNets, sets.members[rules.IPSetIDAllVXLANSourceNets], external, rs.Dump())
					}
				}
			}
		}
		var cl []string
		for c := range classes {
			cl = append(cl, c)
		}
		sort.Strings(cl)
		cl = append(cl, fmt.Sprintf("v%d", ipv), map[bool]string{false: "iptables", true: "nft"}[nft])
		rec.SizedCase(nontrivial, fmt.Sprintf("%d/%v/%s", ipv, nft, strings.Join(ops, ",")), len(ops), func() any {
			return map[string]any{"ip_version": ipv, "history": history}
		}, cl...)
	})
}

// ---- deterministic regression test for the repaired finding
// c40-host-losing-its-address-stays-allowed-ipip-source (hostsIPSetManager used to skip an
// update without an address of its IP version and kept the host's former address) ----

func TestVerifC40ConfirmHostLosesAddress(t *testing.T) {
	ev.Quiet()
	sets := c40tsNewIPSets(ipsets.IPFamilyV4)
	mgr := newHostsIPSetManager(sets, 4, Config{MaxIPSetSize: 1024, Hostname: "node0"})
	mgr.OnUpdate(&proto.HostMetadataUpdate{Hostname: "node1", Ipv4Addr: "10.0.1.2/30"})
	if err := mgr.CompleteDeferredWork(); err != nil {
		t.Fatal(err)
	}
	// The node keeps existing but no longer has an IPv4 address (the calculation graph keeps a
	// Node without BGP spec and without usable addresses alive "with empty IPs").
	mgr.OnUpdate(&proto.HostMetadataUpdate{Hostname: "node1", Ipv4Addr: "", Labels: map[string]string{"a": "b"}})
	if err := mgr.CompleteDeferredWork(); err != nil {
		t.Fatal(err)
	}
	nets, err := sets.prefixes(rules.IPSetIDAllHostNets)
	if err != nil {
		t.Fatal(err)
	}
	for _, n := range nets {
		if n.Contains(netip.MustParseAddr("10.0.1.2")) {
			t.Fatalf("C40 violated: node1 no longer has an IPv4 address, but its former address 10.0.1.2 is still a member of all-hosts-net (%v): IP-in-IP packets from it match 'Allow IPIP packets from Calico hosts' instead of being dropped", sets.members[rules.IPSetIDAllHostNets])
		}
	}
}
