package intdataplane

// C09, unit "managers" — endpoint verdicts follow tier, pass, staged and profile semantics
// THROUGH HISTORIES: the chains that are programmed after any sequence of policy and endpoint
// updates must still reach the reference verdict for every endpoint that exists.
//
// Real code: the real endpointManager (groupPolicies / groupTieredPolicy / updatePolicyGroups
// reference counting of the cali-gi-/cali-go- group chains, workload chain and dispatch
// programming) and the real policyManager, with the real rule renderer, writing into
// verifkit/nfsim's recorder table for the filter table (every chain is rendered to TEXT by
// Felix's own renderers; nft through the real table layer).  Messages follow the calculation
// graph's contract: a policy/profile becomes active before the first endpoint that uses it and
// is removed after the last one stopped using it; every batch is followed by
// ResolveUpdateBatch + CompleteDeferredWork.  After every batch, for every endpoint that
// exists and both directions, packets aimed at each rule of the endpoint's policies are
// executed on the PROGRAMMED filter table and compared with verifkit/refpol.Verdict; a jump to
// a chain that is not programmed cannot be executed and is a violation in itself.

import (
	"fmt"
	"net/netip"
	"os"
	"sort"
	"strings"
	"testing"

	googleproto "google.golang.org/protobuf/proto"
	"pgregory.net/rapid"

	v3 "github.com/projectcalico/api/pkg/apis/projectcalico/v3"

	"github.com/projectcalico/calico/felix/dataplane/common"
	"github.com/projectcalico/calico/felix/generictables"
	"github.com/projectcalico/calico/felix/ifacemonitor"
	"github.com/projectcalico/calico/felix/ipsets"
	"github.com/projectcalico/calico/felix/iptables"
	"github.com/projectcalico/calico/felix/linkaddrs"
	"github.com/projectcalico/calico/felix/nftables"
	"github.com/projectcalico/calico/felix/proto"
	"github.com/projectcalico/calico/felix/routetable"
	"github.com/projectcalico/calico/felix/rules"
	"github.com/projectcalico/calico/libcalico-go/lib/backend/model"
	"github.com/projectcalico/calico/verifkit/ev"
	"github.com/projectcalico/calico/verifkit/nfsim"
	"github.com/projectcalico/calico/verifkit/refpol"
)

// ---- draws ----

func c09mIdx(t *rapid.T, label string, n int) int {
	x := rapid.Uint64().Draw(t, label)
	x ^= x >> 30
	x *= 0xbf58476d1ce4e5b9
	x ^= x >> 27
	x *= 0x94d049bb133111eb
	x ^= x >> 31
	return int(x % uint64(n))
}

func c09mChance(t *rapid.T, label string, pct int) bool { return c09mIdx(t, label, 100) >= 100-pct }

func c09mFrom[T any](t *rapid.T, label string, xs []T) T { return xs[c09mIdx(t, label, len(xs))] }

func c09mBool(b bool, s string) string {
	if b {
		return s
	}
	return ""
}

// ---- doubles for what is not under test ----

type c09mRoutes struct{}

func (c09mRoutes) SetRoutes(routetable.RouteClass, string, []routetable.Target)   {}
func (c09mRoutes) RouteRemove(routetable.RouteClass, string, routetable.RouteKey) {}
func (c09mRoutes) RouteUpdate(routetable.RouteClass, string, routetable.Target)   {}
func (c09mRoutes) OnIfaceStateChanged(string, int, ifacemonitor.State)            {}
func (c09mRoutes) QueueResync()                                                   {}
func (c09mRoutes) QueueResyncIface(string)                                        {}
func (c09mRoutes) Index() int                                                     { return 0 }
func (c09mRoutes) Apply() error                                                   { return nil }
func (c09mRoutes) ReadRoutesFromKernel(string) ([]routetable.Target, error)       { return nil, nil }

type c09mHEPListener struct{}

func (c09mHEPListener) OnHEPUpdate(map[string]*proto.HostEndpoint) {}

// ---- model ----

type c09mRule struct {
	R   *proto.Rule
	Fix func(p *refpol.Packet)
}

type c09mPolicy struct {
	Tier     int
	ID       *proto.PolicyID
	Staged   bool
	Selector string
	In, Out  []c09mRule
	Ver      int
}

type c09mProfile struct {
	Name    string
	In, Out []c09mRule
}

// c09mEP: an endpoint's policy attachment: per tier and direction the set of policies (kept in
// the tier's global order, as the calculation graph delivers them).
type c09mEP struct {
	Present  bool
	In, Out  [][]bool // [tier][policy index within tier]
	Profiles []bool
}

type c09mWorld struct {
	ipv       int
	nft       bool
	marks     [5]uint32
	deny      string
	tierNames []string
	tierDA    []string
	pols      [][]*c09mPolicy // [tier][index]
	profiles  []*c09mProfile
	eps       []*c09mEP
	ifaces    []string
	ids       []*proto.WorkloadEndpointID

	// The current IP version's stack (ipv, rs, epMgr, polMgr are switched by use()).
	rs     *nfsim.Ruleset
	epMgr  *endpointManager
	polMgr *policyManager
	stacks []c09mStack
	active map[string]bool // policy / profile keys currently announced as active
}

// c09mStack: the managers and filter table of one IP version.  As in the dataplane driver, the
// IPv4 and the IPv6 managers receive the very same message objects.
type c09mStack struct {
	ipv    int
	rs     *nfsim.Ruleset
	epMgr  *endpointManager
	polMgr *policyManager
}

func (w *c09mWorld) use(k int) {
	st := w.stacks[k]
	w.ipv, w.rs, w.epMgr, w.polMgr = st.ipv, st.rs, st.epMgr, st.polMgr
}

func c09mPool(ipv int) []netip.Addr {
	var out []netip.Addr
	for i := 1; i <= 4; i++ {
		if ipv == 4 {
			out = append(out, netip.AddrFrom4([4]byte{10, 0, 0, byte(i)}))
		} else {
			b := [16]byte{0xfd}
			b[15] = byte(i)
			out = append(out, netip.AddrFrom16(b))
		}
	}
	return out
}

func c09mHost(a netip.Addr) string { return netip.PrefixFrom(a, a.BitLen()).String() }

func c09mGenRule(t *rapid.T, _ int, actions []string) c09mRule {
	r := &proto.Rule{Action: c09mFrom(t, "rule-action", actions)}
	// Address rules name an address of one IP version (they then apply to that version only).
	pool := c09mPool(c09mFrom(t, "rule-addr-version", []int{4, 6}))
	out := c09mRule{R: r}
	switch c09mIdx(t, "rule-kind", 10) {
	case 8, 9:
		// A port list that needs more than one multiport match (>15 ports): rendered with
		// match blocks.  One long list per side at most (two positive blocks).
		mk := func(base int32) []*proto.PortRange {
			var prs []*proto.PortRange
			for i := int32(0); i < 17; i++ {
				prs = append(prs, &proto.PortRange{First: base + 2*i, Last: base + 2*i})
			}
			return prs
		}
		r.Protocol = &proto.Protocol{NumberOrName: &proto.Protocol_Name{Name: "tcp"}}
		r.DstPorts = append(mk(1000), &proto.PortRange{First: 443, Last: 443})
		if c09mChance(t, "rule-long-srcports", 30) {
			r.SrcPorts = append(mk(39990), &proto.PortRange{First: 40000, Last: 40000})
		}
		out.Fix = func(p *refpol.Packet) { p.Proto, p.DstPort, p.SrcPort = 6, 443, 40000 }
	case 0, 1, 2:
		a := c09mFrom(t, "rule-addr", pool)
		r.DstNet = []string{c09mHost(a)}
		out.Fix = func(p *refpol.Packet) {
			if a.Is6() == (p.IPVersion == 6) {
				p.Dst = a
			}
		}
	case 3, 4:
		a := c09mFrom(t, "rule-addr", pool)
		r.SrcNet = []string{c09mHost(a)}
		out.Fix = func(p *refpol.Packet) {
			if a.Is6() == (p.IPVersion == 6) {
				p.Src = a
			}
		}
	case 5, 6:
		po := c09mFrom(t, "rule-port", []uint16{80, 443})
		r.Protocol = &proto.Protocol{NumberOrName: &proto.Protocol_Name{Name: "tcp"}}
		r.DstPorts = []*proto.PortRange{{First: int32(po), Last: int32(po)}}
		out.Fix = func(p *refpol.Packet) { p.Proto, p.DstPort = 6, po }
	default:
		out.Fix = func(p *refpol.Packet) {}
	}
	return out
}

func c09mGenRules(t *rapid.T, label string, ipv int, actions []string) []c09mRule {
	var out []c09mRule
	for i := c09mFrom(t, label+"-nrules", []int{0, 1, 1, 2}); i > 0; i-- {
		out = append(out, c09mGenRule(t, ipv, actions))
	}
	return out
}

func c09mProtoRules(rs []c09mRule) []*proto.Rule {
	var out []*proto.Rule
	for _, r := range rs {
		out = append(out, r.R)
	}
	return out
}

var (
	c09mTierActions    = []string{"allow", "allow", "deny", "deny", "pass", "next-tier", "log"}
	c09mProfileActions = []string{"allow", "allow", "deny", "log"} // no pass in profiles (outside the statement)
	c09mSelectors      = []string{"app == 'web'", "has(x)"}
)

func c09mPolKey(id *proto.PolicyID) string {
	return "pol/" + id.Kind + "/" + id.Namespace + "/" + id.Name
}

func c09mNewWorld(t *rapid.T) *c09mWorld {
	w := &c09mWorld{active: map[string]bool{}}
	w.ipv = 4
	w.nft = rapid.Bool().Draw(t, "nft")
	w.marks = c09mFrom(t, "markLayout", [][5]uint32{{0x8, 0x10, 0x80, 0x20, 0x40}, {0x10000, 0x20000, 0x40000, 0x80000, 0x100000}})
	w.deny = c09mFrom(t, "denyAction", []string{"DROP", "REJECT"})
	w.tierNames = []string{"tierA", "default"}
	w.tierDA = []string{c09mFrom(t, "tierA-default-action", []string{"Deny", "Pass", "Pass"}), c09mFrom(t, "default-default-action", []string{"Deny", "Deny", "Pass"})}
	nPer := []int{3 + c09mIdx(t, "tierA-npols", 5), 2 + c09mIdx(t, "default-npols", 3)}
	for ti := range w.tierNames {
		var ps []*c09mPolicy
		stagedPct := c09mFrom(t, "tier-staged-pct", []int{0, 0, 20, 40})
		for pi := 0; pi < nPer[ti]; pi++ {
			p := &c09mPolicy{Tier: ti, Staged: c09mChance(t, "pol-staged", stagedPct)}
			name := fmt.Sprintf("%s.p%d", w.tierNames[ti], pi)
			if c09mChance(t, "pol-namespaced", 30) {
				p.ID = &proto.PolicyID{Name: name, Namespace: "ns1", Kind: v3.KindNetworkPolicy}
				if p.Staged {
					p.ID.Kind = v3.KindStagedNetworkPolicy
				}
			} else {
				p.ID = &proto.PolicyID{Name: name, Kind: v3.KindGlobalNetworkPolicy}
				if p.Staged {
					p.ID.Kind = v3.KindStagedGlobalNetworkPolicy
				}
			}
			ps = append(ps, p)
		}
		w.pols = append(w.pols, ps)
	}
	for ti := range w.pols {
		for _, p := range w.pols[ti] {
			w.regenPolicy(t, p, true)
		}
	}
	for i := 0; i < 2; i++ {
		w.profiles = append(w.profiles, &c09mProfile{Name: fmt.Sprintf("prof%d", i),
			In:  c09mGenRules(t, "prof-in", w.ipv, c09mProfileActions),
			Out: c09mGenRules(t, "prof-out", w.ipv, c09mProfileActions)})
	}
	w.ifaces = []string{"cali-a1", "cali-b2", "cali-c3"}
	for i := range w.ifaces {
		w.ids = append(w.ids, &proto.WorkloadEndpointID{OrchestratorId: "k8s", WorkloadId: fmt.Sprintf("default/pod-%d", i), EndpointId: "eth0"})
		w.eps = append(w.eps, &c09mEP{})
	}
	return w
}

// regenPolicy redraws a policy's selector and/or rules.
func (w *c09mWorld) regenPolicy(t *rapid.T, p *c09mPolicy, all bool) {
	if all || rapid.Bool().Draw(t, "pol-change-selector") {
		// Mostly the common selector, so that runs of equal selectors (groups) are frequent.
		p.Selector = c09mFrom(t, "pol-selector", []string{c09mSelectors[0], c09mSelectors[0], c09mSelectors[0], c09mSelectors[1]})
	}
	if all || rapid.Bool().Draw(t, "pol-change-rules") {
		p.In = c09mGenRules(t, "pol-in", w.ipv, c09mTierActions)
		p.Out = c09mGenRules(t, "pol-out", w.ipv, c09mTierActions)
	}
	p.Ver++
}

// ---- managers ----

func (w *c09mWorld) start() {
	cfg := rules.Config{
		IPSetConfigV4:         ipsets.NewIPVersionConfig(ipsets.IPFamilyV4, "cali", nil, nil),
		IPSetConfigV6:         ipsets.NewIPVersionConfig(ipsets.IPFamilyV6, "cali", nil, nil),
		WorkloadIfacePrefixes: []string{"cali"},
		MarkAccept:            w.marks[0], MarkPass: w.marks[1], MarkDrop: w.marks[2], MarkScratch0: w.marks[3], MarkScratch1: w.marks[4],
		MarkEndpoint: 0xff000000, MarkNonCaliEndpoint: 0x01000000,
		FilterDenyAction:               w.deny,
		VXLANPort:                      4789,
		AllowVXLANPacketsFromWorkloads: true,
		AllowIPIPPacketsFromWorkloads:  true,
	}
	for _, v := range []int{4, 6} {
		w.ipv = v
		renderer := rules.NewRenderer(cfg, w.nft)
		var filter generictables.Table
		var filterMaps nftables.MapsDataplane
		if w.nft {
			rs, tbl := nfsim.NewNFT(w.ipv, "filter")
			w.rs, filter, filterMaps = rs, tbl, tbl
		} else {
			rs, tbl := nfsim.NewIptables(w.ipv)
			w.rs, filter = rs, tbl
		}
		raw, mangle := generictables.NewNoopTable(), generictables.NewNoopTable()
		rpf := "1"
		if w.ipv == 6 {
			rpf = ""
		}
		w.epMgr = newEndpointManagerWithShims(
			&endpointManagerConfig{wlInterfacePrefixes: []string{"cali"}, nft: w.nft},
			raw, mangle, filter,
			renderer,
			c09mRoutes{},
			uint8(w.ipv),
			rules.NewEndpointMarkMapper(cfg.MarkEndpoint, cfg.MarkNonCaliEndpoint),
			func(ipVersion uint8, id any, status string, extraInfo any) {},
			func(path, value string) error { return nil },
			func(name string) (os.FileInfo, error) { return nil, nil },
			rpf,
			filterMaps,
			nil,
			c09mHEPListener{},
			common.NewCallbacks(),
			&linkaddrs.DummyLinkAddrsManager{},
			nil,
			nil,
		)
		w.polMgr = newPolicyManager(raw, mangle, filter, renderer, uint8(w.ipv), w.nft)
		w.stacks = append(w.stacks, c09mStack{ipv: v, rs: w.rs, epMgr: w.epMgr, polMgr: w.polMgr})
	}
	w.use(0)
}

// send hands the SAME message object to every manager, IPv4 managers first (driver order).
func (w *c09mWorld) send(msg any) {
	for _, st := range w.stacks {
		st.polMgr.OnUpdate(msg)
		st.epMgr.OnUpdate(msg)
	}
}

func (w *c09mWorld) apply() error {
	for _, st := range w.stacks {
		if err := st.epMgr.ResolveUpdateBatch(); err != nil {
			return err
		}
	}
	for _, st := range w.stacks {
		if err := st.polMgr.CompleteDeferredWork(); err != nil {
			return err
		}
		if err := st.epMgr.CompleteDeferredWork(); err != nil {
			return err
		}
	}
	return nil
}

// c09mWire: the rules as they go on the wire: a deep copy, so that nothing the dataplane does
// to a received message can reach the harness's model (the reference keeps the originals).
func c09mWire(rs []c09mRule) []*proto.Rule {
	var out []*proto.Rule
	for _, r := range rs {
		out = append(out, googleproto.Clone(r.R).(*proto.Rule))
	}
	return out
}

func (w *c09mWorld) sendPolicy(p *c09mPolicy) {
	w.send(&proto.ActivePolicyUpdate{Id: p.ID, Policy: &proto.Policy{Tier: w.tierNames[p.Tier], Namespace: p.ID.Namespace,
		OriginalSelector: p.Selector, InboundRules: c09mWire(p.In), OutboundRules: c09mWire(p.Out)}})
}

func (w *c09mWorld) sendProfile(p *c09mProfile) {
	w.send(&proto.ActiveProfileUpdate{Id: &proto.ProfileID{Name: p.Name}, Profile: &proto.Profile{InboundRules: c09mWire(p.In), OutboundRules: c09mWire(p.Out)}})
}

// wanted: keys of the policies / profiles referenced by some present endpoint.
func (w *c09mWorld) wanted() map[string]bool {
	out := map[string]bool{}
	for _, e := range w.eps {
		if !e.Present {
			continue
		}
		for ti := range w.pols {
			for pi, p := range w.pols[ti] {
				if e.In[ti][pi] || e.Out[ti][pi] {
					out[c09mPolKey(p.ID)] = true
				}
			}
		}
		for i, p := range w.profiles {
			if e.Profiles[i] {
				out["prof/"+p.Name] = true
			}
		}
	}
	return out
}

// activate announces everything that is about to be referenced (before the endpoint update).
func (w *c09mWorld) activate() {
	want := w.wanted()
	for ti := range w.pols {
		for _, p := range w.pols[ti] {
			if k := c09mPolKey(p.ID); want[k] && !w.active[k] {
				w.sendPolicy(p)
				w.active[k] = true
			}
		}
	}
	for _, p := range w.profiles {
		if k := "prof/" + p.Name; want[k] && !w.active[k] {
			w.sendProfile(p)
			w.active[k] = true
		}
	}
}

// deactivate removes what is no longer referenced (after the endpoint update).
func (w *c09mWorld) deactivate() {
	want := w.wanted()
	for ti := range w.pols {
		for _, p := range w.pols[ti] {
			if k := c09mPolKey(p.ID); !want[k] && w.active[k] {
				w.send(&proto.ActivePolicyRemove{Id: p.ID})
				delete(w.active, k)
			}
		}
	}
	for _, p := range w.profiles {
		if k := "prof/" + p.Name; !want[k] && w.active[k] {
			w.send(&proto.ActiveProfileRemove{Id: &proto.ProfileID{Name: p.Name}})
			delete(w.active, k)
		}
	}
}

func (w *c09mWorld) sendEndpoint(i int) {
	e := w.eps[i]
	if !e.Present {
		w.send(&proto.WorkloadEndpointRemove{Id: w.ids[i]})
		return
	}
	var tiers []*proto.TierInfo
	for ti := range w.pols {
		ti2 := &proto.TierInfo{Name: w.tierNames[ti], DefaultAction: w.tierDA[ti]}
		for pi, p := range w.pols[ti] {
			if e.In[ti][pi] {
				ti2.IngressPolicies = append(ti2.IngressPolicies, p.ID)
			}
			if e.Out[ti][pi] {
				ti2.EgressPolicies = append(ti2.EgressPolicies, p.ID)
			}
		}
		if len(ti2.IngressPolicies)+len(ti2.EgressPolicies) > 0 {
			tiers = append(tiers, ti2)
		}
	}
	profs := []string{}
	for pi, p := range w.profiles {
		if e.Profiles[pi] {
			profs = append(profs, p.Name)
		}
	}
	wep := &proto.WorkloadEndpoint{State: "active", Mac: fmt.Sprintf("02:00:00:00:00:%02x", i+1), Name: w.ifaces[i], ProfileIds: profs, Tiers: tiers}
	wep.Ipv4Nets = []string{fmt.Sprintf("10.65.0.%d/32", i+2)}
	wep.Ipv6Nets = []string{fmt.Sprintf("fd00:b::%d/128", i+2)}
	w.send(&proto.WorkloadEndpointUpdate{Id: w.ids[i], Endpoint: wep})
}

// ---- shapes (for operation steering and evidence; not used by the oracle) ----

// groupSigs returns, for an endpoint, the signatures of its non-inlined groups (direction +
// selector + policy list) — the identity UniqueID hashes — and whether it has any group at all.
func (w *c09mWorld) groupSigs(e *c09mEP) (chains []string, anyPolicy bool) {
	if !e.Present {
		return nil, false
	}
	for ti := range w.pols {
		for d, sel := range [][]bool{e.In[ti], e.Out[ti]} {
			var cur []string
			curSel, enforced := "", 0
			flush := func() {
				if enforced > 1 {
					chains = append(chains, fmt.Sprintf("%d/%s/%s", d, curSel, strings.Join(cur, ",")))
				}
				cur, enforced = nil, 0
			}
			for pi, p := range w.pols[ti] {
				if !sel[pi] {
					continue
				}
				anyPolicy = true
				if len(cur) > 0 && p.Selector != curSel {
					flush()
				}
				curSel = p.Selector
				cur = append(cur, c09mPolKey(p.ID))
				if !model.KindIsStaged(p.ID.Kind) {
					enforced++
				}
			}
			flush()
		}
	}
	return
}

// ---- reference + execution ----

func (w *c09mWorld) ref(e *c09mEP) ([]refpol.Tier, []refpol.Profile) {
	var tiers []refpol.Tier
	for ti := range w.pols {
		rt := refpol.Tier{Name: w.tierNames[ti], DefaultAction: w.tierDA[ti]}
		for pi, p := range w.pols[ti] {
			if !e.In[ti][pi] && !e.Out[ti][pi] {
				continue
			}
			rt.Policies = append(rt.Policies, refpol.Policy{Name: c09mPolKey(p.ID), Staged: p.Staged, AppliesInbound: e.In[ti][pi], AppliesOutbound: e.Out[ti][pi],
				InboundRules: c09mProtoRules(p.In), OutboundRules: c09mProtoRules(p.Out)})
		}
		if len(rt.Policies) > 0 {
			tiers = append(tiers, rt)
		}
	}
	var profs []refpol.Profile
	for pi, p := range w.profiles {
		if e.Profiles[pi] {
			profs = append(profs, refpol.Profile{Name: p.Name, InboundRules: c09mProtoRules(p.In), OutboundRules: c09mProtoRules(p.Out)})
		}
	}
	return tiers, profs
}

func (w *c09mWorld) describe() string {
	var b strings.Builder
	for ti := range w.pols {
		fmt.Fprintf(&b, "tier %q default=%s\n", w.tierNames[ti], w.tierDA[ti])
		for pi, p := range w.pols[ti] {
			fmt.Fprintf(&b, "  [%d] %s/%s/%s staged=%v selector=%q active=%v in=%v out=%v\n", pi, p.ID.Kind, p.ID.Namespace, p.ID.Name, p.Staged, p.Selector, w.active[c09mPolKey(p.ID)], c09mProtoRules(p.In), c09mProtoRules(p.Out))
		}
	}
	for _, p := range w.profiles {
		fmt.Fprintf(&b, "profile %s in=%v out=%v\n", p.Name, c09mProtoRules(p.In), c09mProtoRules(p.Out))
	}
	for i, e := range w.eps {
		if !e.Present {
			fmt.Fprintf(&b, "endpoint %s: absent\n", w.ifaces[i])
			continue
		}
		fmt.Fprintf(&b, "endpoint %s: ingress=%v egress=%v profiles=%v\n", w.ifaces[i], e.In, e.Out, e.Profiles)
	}
	return b.String()
}

func (w *c09mWorld) chain(name string) string {
	if w.nft {
		return nfsim.NFTName("filter", name)
	}
	return name
}

// ---- the check ----

func TestVerifC09ManagerHistories(t *testing.T) {
	ev.Quiet()
	rec := ev.New("C09", "managers",
		"each case: IP version, renderer, mark layout, deny action, two tiers (default action Deny/Pass) with 3-7 and 2-4 policies (enforced/staged, global/namespaced, mostly one common selector so that runs form groups), 2 profiles, 3 workload endpoints with fixed distinct interface names; then a history of 8-18 batches, each one of: set an endpoint's ingress/egress policy sets and profiles (random, copied from another endpoint so that groups are shared, or empty), remove an endpoint, re-create it, refresh it unchanged, change a policy's selector and/or rules - sent to the REAL policyManager and endpointManager in calculation-graph order (activate policies/profiles, endpoint update, deactivate), followed by ResolveUpdateBatch/CompleteDeferredWork; "+
			"after every batch every existing endpoint's programmed to-/from-workload chain in the filter table is executed by nfsim for packets aimed at each of its rules plus random packets and compared with refpol.Verdict. "+
			"Non-trivial = the history makes an endpoint that held a group chain lose all its groups and get a group chain again (removed and re-created under the same interface name, or policies detached and attached), or removes one of several endpoints sharing a group chain; distinct = renderer/version/operation-class sequence",
		"refpol.Verdict is the sentence of the property; rules are single-field",
		"nfsim's recorder stands in for the filter table: UpdateChain(s) defines, RemoveChain(s)/RemoveChainByName deletes; executing a jump to a chain that is not defined is an error",
		"endpoint ids keep their interface name and no two ids share a name (renames and shadowing are C44's subject); no pass rules in profiles; workload endpoints only")
	defer rec.Write()

	rapid.Check(t, func(t *rapid.T) {
		w := c09mNewWorld(t)
		w.start()
		wantDeny := nfsim.VerdictDrop
		if w.deny == "REJECT" {
			wantDeny = nfsim.VerdictReject
		}
		hadGroup := make([]bool, len(w.eps))   // endpoint held a group chain at some point
		lostGroups := make([]bool, len(w.eps)) // ... and afterwards had no group chain
		var ops []string
		classes := map[string]bool{}
		nontrivial := false
		var history []string

		randMask := func(label string, n int, pct int) []bool {
			out := make([]bool, n)
			for i := range out {
				out[i] = c09mChance(t, label, pct)
			}
			return out
		}
		setRandom := func(i int) {
			e := w.eps[i]
			e.Present = true
			e.In, e.Out = nil, nil
			dense := c09mFrom(t, "ep-density", []int{50, 75, 90})
			for ti := range w.pols {
				e.In = append(e.In, randMask("ep-in", len(w.pols[ti]), dense))
				e.Out = append(e.Out, randMask("ep-out", len(w.pols[ti]), dense/2))
			}
			e.Profiles = randMask("ep-profile", len(w.profiles), 50)
		}
		clone := func(dst, src int) {
			s, e := w.eps[src], w.eps[dst]
			e.Present = true
			e.In, e.Out = nil, nil
			for ti := range w.pols {
				e.In = append(e.In, append([]bool(nil), s.In[ti]...))
				e.Out = append(e.Out, append([]bool(nil), s.Out[ti]...))
			}
			e.Profiles = append([]bool(nil), s.Profiles...)
		}
		empty := func(i int) {
			e := w.eps[i]
			e.Present = true
			e.In, e.Out = nil, nil
			for ti := range w.pols {
				e.In = append(e.In, make([]bool, len(w.pols[ti])))
				e.Out = append(e.Out, make([]bool, len(w.pols[ti])))
			}
			e.Profiles = randMask("ep-profile", len(w.profiles), 50)
		}

		nSteps := 8 + c09mIdx(t, "nBatches", 11)
		for step := 0; step < nSteps; step++ {
			i := c09mIdx(t, "op-endpoint", len(w.eps))
			e := w.eps[i]
			var op string
			switch k := c09mIdx(t, "op-kind", 20); {
			case !e.Present:
				// (Re-)create: with the attachment it had before, a copy of another endpoint's, or a fresh one.
				var others []int
				for j, o := range w.eps {
					if j != i && o.Present {
						others = append(others, j)
					}
				}
				switch {
				case e.In != nil && k < 9:
					e.Present, op = true, "recreate-same"
				case len(others) > 0 && k < 14:
					clone(i, others[c09mIdx(t, "op-clone-of", len(others))])
					op = "create-clone"
				default:
					setRandom(i)
					op = "create-random"
				}
			case k < 4:
				e.Present, op = false, "remove"
			case k < 7:
				empty(i)
				op = "detach-all-policies"
			case k < 10:
				setRandom(i)
				op = "set-random"
			case k < 12:
				var others []int
				for j, o := range w.eps {
					if j != i && o.Present {
						others = append(others, j)
					}
				}
				if len(others) > 0 {
					clone(i, others[c09mIdx(t, "op-clone-of", len(others))])
					op = "set-clone"
				} else {
					op = "refresh"
				}
			case k < 13:
				op = "refresh"
			case k < 16:
				// A policy's kind flips between staged and enforced under the same name (a staged
				// policy is promoted, or an enforced one is replaced by its staged twin): for the
				// dataplane the old policy id disappears and a new id takes its place in every
				// endpoint's list, all in one batch.
				ti := c09mIdx(t, "op-policy-tier", len(w.pols))
				p := w.pols[ti][c09mIdx(t, "op-policy", len(w.pols[ti]))]
				oldID, oldKey := p.ID, c09mPolKey(p.ID)
				p.Staged = !p.Staged
				nid := &proto.PolicyID{Name: oldID.Name, Namespace: oldID.Namespace}
				switch {
				case oldID.Namespace != "" && p.Staged:
					nid.Kind = v3.KindStagedNetworkPolicy
				case oldID.Namespace != "":
					nid.Kind = v3.KindNetworkPolicy
				case p.Staged:
					nid.Kind = v3.KindStagedGlobalNetworkPolicy
				default:
					nid.Kind = v3.KindGlobalNetworkPolicy
				}
				p.ID = nid
				op = "policy-kind-flip-to-" + map[bool]string{true: "staged", false: "enforced"}[p.Staged]
				if w.active[oldKey] {
					op += "-active"
					w.activate() // announces the new id
					for j, o := range w.eps {
						if o.Present && (o.In[p.Tier][c09mIndexOf(w.pols[p.Tier], p)] || o.Out[p.Tier][c09mIndexOf(w.pols[p.Tier], p)]) {
							w.sendEndpoint(j)
						}
					}
					w.send(&proto.ActivePolicyRemove{Id: oldID})
					delete(w.active, oldKey)
				}
			default:
				ti := c09mIdx(t, "op-policy-tier", len(w.pols))
				p := w.pols[ti][c09mIdx(t, "op-policy", len(w.pols[ti]))]
				w.regenPolicy(t, p, false)
				op = "policy-update"
				if w.active[c09mPolKey(p.ID)] {
					w.sendPolicy(p)
					op = "policy-update-active"
				}
			}
			if !strings.HasPrefix(op, "policy-") {
				w.activate()
				w.sendEndpoint(i)
				w.deactivate()
			}
			if err := w.apply(); err != nil {
				t.Fatalf("C09 violated: managers returned an error after batch %d (%s %s): %v", step, op, w.ifaces[i], err)
			}
			ops = append(ops, op)
			history = append(history, fmt.Sprintf("%d: %s %s", step, op, w.ifaces[i]))
			classes["op:"+op] = true

			// Shape bookkeeping (evidence only).
			sharing := map[string]int{}
			for j, o := range w.eps {
				chains, _ := w.groupSigs(o)
				for _, c := range chains {
					sharing[c]++
				}
				if len(chains) > 0 {
					if lostGroups[j] {
						nontrivial = true
						classes["shape:group-chain-regained-after-losing-all"] = true
						if op == "recreate-same" || strings.HasPrefix(op, "create") {
							classes["shape:endpoint-recreated-same-iface-with-group"] = true
						}
						lostGroups[j] = false
					}
					hadGroup[j] = true
				} else if hadGroup[j] {
					lostGroups[j] = true
				}
			}
			for _, n := range sharing {
				if n > 1 {
					classes["shape:group-chain-shared"] = true
					if op == "remove" || op == "detach-all-policies" {
						nontrivial = true
						classes["shape:sharer-of-group-chain-left"] = true
					}
				}
			}

			for sk := range w.stacks {
				w.use(sk)
				pool := c09mPool(w.ipv)
				if err := w.rs.Err(); err != nil {
					if _, gap := err.(*nfsim.GapError); gap {
						t.Fatalf("%v", err)
					}
					t.Fatalf("C09 violated: programmed filter table cannot be loaded after batch %d: %v\nhistory: %v\n%s", step, err, history, w.describe())
				}

				// ---- oracle: every existing endpoint, both directions ----
				for j, o := range w.eps {
					toName := w.chain(rules.EndpointChainName(rules.WorkloadToEndpointPfx, w.ifaces[j], c09mMaxLen(w.nft)))
					fromName := w.chain(rules.EndpointChainName(rules.WorkloadFromEndpointPfx, w.ifaces[j], c09mMaxLen(w.nft)))
					if !o.Present {
						continue
					}
					tiers, profs := w.ref(o)
					for _, dir := range []refpol.Dir{refpol.Inbound, refpol.Outbound} {
						entry := toName
						if dir == refpol.Outbound {
							entry = fromName
						}
						if !w.rs.HasChain(entry) {
							t.Fatalf("C09 violated: after batch %d (%s) endpoint %s exists but its chain %s is not programmed\nhistory: %v\n%s", step, op, w.ifaces[j], entry, history, w.describe())
						}
						var fixes []func(*refpol.Packet)
						for ti := range w.pols {
							for pi, p := range w.pols[ti] {
								rs, on := p.In, o.In[ti][pi]
								if dir == refpol.Outbound {
									rs, on = p.Out, o.Out[ti][pi]
								}
								if !on {
									continue
								}
								for _, r := range rs {
									fixes = append(fixes, r.Fix)
								}
							}
						}
						for pi, p := range w.profiles {
							if o.Profiles[pi] {
								rs := p.In
								if dir == refpol.Outbound {
									rs = p.Out
								}
								for _, r := range rs {
									fixes = append(fixes, r.Fix)
								}
							}
						}
						fixes = append(fixes, func(*refpol.Packet) {}, func(*refpol.Packet) {})
						for _, fix := range fixes {
							p := refpol.Packet{IPVersion: w.ipv, Proto: c09mFrom(t, "pkt-proto", []uint8{6, 6, 17}), Src: c09mFrom(t, "pkt-src", pool), Dst: c09mFrom(t, "pkt-dst", pool),
								SrcPort: 40000, DstPort: c09mFrom(t, "pkt-dport", []uint16{80, 443, 8080})}
							fix(&p)
							mark0 := uint32(c09mIdx(t, "pkt-mark", 1<<32)) &^ w.marks[2]
							in, out := "eth0", w.ifaces[j]
							if dir == refpol.Outbound {
								in, out = w.ifaces[j], "eth0"
							}
							res, err := w.rs.Run(entry, &nfsim.Packet{IPVersion: w.ipv, Proto: p.Proto, Src: p.Src, Dst: p.Dst, SrcPort: p.SrcPort, DstPort: p.DstPort,
								InIf: in, OutIf: out, Mark: mark0, CTState: "NEW", LimitOK: true})
							ctx := func() string {
								return fmt.Sprintf("\n  after batch %d (%s %s); endpoint %s %s chain %s; %s, IPv%d\n  packet: %s mark-in=%#x\nhistory: %v\n%s\nprogrammed filter table:\n%s",
									step, op, w.ifaces[i], w.ifaces[j], dir, entry, map[bool]string{false: "iptables", true: "nftables"}[w.nft], w.ipv, p, mark0, history, w.describe(), w.rs.Dump())
							}
							if err != nil {
								if _, gap := err.(*nfsim.GapError); gap {
									t.Fatalf("%v", err)
								}
								t.Fatalf("C09 violated: the programmed chains of an existing endpoint cannot be executed (e.g. a jump to a chain that is not programmed): %v%s", err, ctx())
							}
							wh := refpol.VerdictWhere(tiers, profs, dir, &p, refpol.MapSets{}, refpol.Options{})
							accepted := res.Mark&w.marks[0] != 0
							got := fmt.Sprintf("programmed chains: verdict=%s accept-bit=%v final=%v chains=%v", res.Verdict, accepted, res.Final, res.Chains)
							want := fmt.Sprintf("reference: %s (tier=%d policy=%d rule=%d profile=%d byTierDefault=%v)", wh.Decision, wh.Tier, wh.Policy, wh.Rule, wh.Profile, wh.ByTierDefault)
							switch wh.Decision {
							case refpol.Allow:
								if res.Verdict != nfsim.VerdictReturn || !accepted {
									t.Fatalf("C09 violated: reference verdict is ALLOW but the programmed endpoint chain did not return with the accept mark\n  %s\n  %s%s", want, got, ctx())
								}
							case refpol.Deny:
								if res.Verdict != wantDeny {
									t.Fatalf("C09 violated: reference verdict is DENY but the programmed endpoint chain did not %s the packet\n  %s\n  %s%s", wantDeny, want, got, ctx())
								}
							}
							if wh.Tier >= 0 {
								classes["outcome:decided-in-tier"] = true
							} else {
								classes["outcome:decided-after-tiers"] = true
							}
						}
					}
				}
			}
		}

		var cl []string
		for c := range classes {
			cl = append(cl, c)
		}
		sort.Strings(cl)
		cl = append(cl, map[bool]string{false: "iptables", true: "nft"}[w.nft], fmt.Sprintf("v%d", w.ipv))
		rec.SizedCase(nontrivial, fmt.Sprintf("%v/%d/%s", w.nft, w.ipv, strings.Join(ops, ",")), len(ops), func() any {
			return map[string]any{"history": history, "final_state": strings.Split(w.describe(), "\n")}
		}, cl...)
	})
}

func c09mMaxLen(nft bool) int {
	if nft {
		return nftables.MaxChainNameLength
	}
	return iptables.MaxChainNameLength
}

func c09mIndexOf(ps []*c09mPolicy, p *c09mPolicy) int {
	for i, x := range ps {
		if x == p {
			return i
		}
	}
	return -1
}
