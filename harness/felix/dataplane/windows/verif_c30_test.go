package windataplane

// C30 — Windows rule flattening preserves policy verdicts for supported rules.
//
// Real code driven: policysets.PolicySets (via the real policyManager.OnUpdate), the real Windows
// ipsets.IPSets cache, the real endpointManager (OnUpdate + CompleteDeferredWork: tier assembly,
// flattenTiers, rewritePriorities) and, directly, GetPolicySetRules and rewritePriorities.
//
// Oracle: an HNS ACL evaluator written from the comments in this code base, against a reference
// evaluation of the proto rules tier by tier.
//
// Reading of HNS ACL semantics used here (sources: comment in GetPolicySetRules "If we write two HNS
// rules at the same priority, HNS has a different tie-break algorithm to Calico ... to get Calico's
// first-rule-wins behaviour we need to increment the priority between rules that it's not safe to
// re-order"; rewritePriorities "Make sure priorities are ascending"; NewRule "Protocol: 256 // Any"):
//   - only rules of Type ACL / RuleType Switch in the packet's direction are considered (RuleType Host
//     rules are the host-firewall pass-through added for l2bridge, not switch ACLs);
//   - a rule matches when every non-empty criterion matches: Protocol (256 = any), Local/Remote
//     address lists (comma separated IPs or CIDRs, any member), Local/Remote port lists (comma
//     separated ports or a-b ranges, any member);
//   - among the matching rules the one with the numerically lowest Priority decides; rules of equal
//     priority may be taken in any order, so two matching rules with equal lowest priority and
//     different actions make the verdict ambiguous (= violation);
//   - no matching rule = Block (HNS default once ACLs are present).  The flattened list always ends in
//     a catch-all, so this only matters if flattening loses it.

import (
	"fmt"
	"net"
	"net/netip"
	"slices"
	"sort"
	"strconv"
	"strings"
	"testing"

	"pgregory.net/rapid"

	"github.com/projectcalico/calico/felix/dataplane/windows/hns"
	winipsets "github.com/projectcalico/calico/felix/dataplane/windows/ipsets"
	"github.com/projectcalico/calico/felix/dataplane/windows/policysets"
	felixipsets "github.com/projectcalico/calico/felix/ipsets"
	"github.com/projectcalico/calico/felix/proto"
	"github.com/projectcalico/calico/felix/types"
	"github.com/projectcalico/calico/verifkit/ev"
)

// ---------------------------------------------------------------------------------------
// doubles for the seams (HNS itself, static rule file)

type c30HNS struct{ features hns.HNSSupportedFeatures }

func (h *c30HNS) GetHNSSupportedFeatures() hns.HNSSupportedFeatures { return h.features }

func (h *c30HNS) HNSListEndpointRequest() ([]hns.HNSEndpoint, error) {
	// The Linux shim's EndpointState.String() table is shifted; pick the state it prints as "Attached".
	var st hns.EndpointState
	for s := hns.EndpointState(0); s < 6; s++ {
		if s.String() == "Attached" {
			st = s
		}
	}
	var out []hns.HNSEndpoint
	for i := 0; i < 4; i++ {
		out = append(out, hns.HNSEndpoint{Id: fmt.Sprintf("c30-ep%d", i), Name: fmt.Sprintf("c30-ep%d", i), VirtualNetworkName: "Calico",
			IPAddress: net.ParseIP(fmt.Sprintf("10.65.0.%d", 2+i)), State: st})
	}
	return out, nil
}

type c30NoStaticRules struct{}

func (c30NoStaticRules) ReadData() ([]byte, error) { return nil, policysets.ErrNoRuleSpecified }

// ---------------------------------------------------------------------------------------
// universe

var c30LocalIPs = []string{"10.65.0.2", "10.0.0.1", "10.0.1.1"}
var c30RemoteIPs = []string{"10.0.0.1", "10.0.0.2", "10.0.0.3", "10.0.1.1", "10.2.15.160", "192.168.0.1", "172.16.0.9"}
var c30Protos = []uint16{6, 17, 132, 1, 47}

var c30CIDRs = []string{"10.0.0.0/24", "10.0.0.0/30", "10.0.0.1/32", "10.0.0.2/32", "10.0.1.0/24", "10.0.0.0/8", "0.0.0.0/0",
	"192.168.0.0/16", "10.0.1.1/32", "10.65.0.0/16", "10.65.0.2/32", "10.0.0.2/31"}
var c30V6CIDRs = []string{"fd00::/64", "fd00::1/128"}

var c30IPSetMembers = []string{"10.0.0.1", "10.0.0.2/32", "10.0.0.0/30", "10.0.1.0/24", "192.168.0.1", "10.65.0.2", "10.0.0.0/8", "fd00::1", "fd00::/64"}
var c30IPPortMembers = []string{"10.0.0.1,tcp:80", "10.0.0.2,tcp:80", "10.0.0.2,udp:53", "10.0.1.1,tcp:8080", "192.168.0.1,sctp:9", "10.0.0.3,udp:80", "fd00::1,tcp:80"}

var c30Ports = []int32{1, 79, 80, 81, 443, 1023, 1024, 8080, 65534, 65535}

type c30ProtoChoice struct {
	p     *proto.Protocol
	num   uint16 // 256 = any
	ports bool   // ports may be used with it (validator precondition)
	label string
}

var c30ProtoChoices = []c30ProtoChoice{
	{nil, 256, false, "any"},
	{&proto.Protocol{NumberOrName: &proto.Protocol_Name{Name: "tcp"}}, 6, true, "tcp"},
	{&proto.Protocol{NumberOrName: &proto.Protocol_Name{Name: "udp"}}, 17, true, "udp"},
	{&proto.Protocol{NumberOrName: &proto.Protocol_Name{Name: "sctp"}}, 132, true, "sctp"},
	{&proto.Protocol{NumberOrName: &proto.Protocol_Number{Number: 6}}, 6, true, "6"},
	{&proto.Protocol{NumberOrName: &proto.Protocol_Number{Number: 17}}, 17, true, "17"},
	{&proto.Protocol{NumberOrName: &proto.Protocol_Name{Name: "icmp"}}, 1, false, "icmp"},
	{&proto.Protocol{NumberOrName: &proto.Protocol_Number{Number: 47}}, 47, false, "47"},
}

// ---------------------------------------------------------------------------------------
// connections

type c30Conn struct {
	inbound            bool
	local, remote      netip.Addr
	proto              uint16
	localPort, remPort int
}

func (c c30Conn) String() string {
	d := "out"
	if c.inbound {
		d = "in"
	}
	return fmt.Sprintf("%s local=%s:%d remote=%s:%d proto=%d", d, c.local, c.localPort, c.remote, c.remPort, c.proto)
}

func (c c30Conn) src() (netip.Addr, int) {
	if c.inbound {
		return c.remote, c.remPort
	}
	return c.local, c.localPort
}

func (c c30Conn) dst() (netip.Addr, int) {
	if c.inbound {
		return c.local, c.localPort
	}
	return c.remote, c.remPort
}

// ---------------------------------------------------------------------------------------
// HNS evaluator

type c30PortRange struct{ lo, hi int }

type c30HNSRule struct {
	src                    *hns.ACLPolicy
	idx                    int
	proto                  uint16
	localNets, remoteNets  []netip.Prefix
	localPorts, remPorts   []c30PortRange
	hasLocalNets, hasRNets bool
	hasLPorts, hasRPorts   bool
}

func c30ParseNets(t c30TB, s string) []netip.Prefix {
	var out []netip.Prefix
	for _, part := range strings.Split(s, ",") {
		part = strings.TrimSpace(part)
		if strings.Contains(part, "/") {
			p, err := netip.ParsePrefix(part)
			if err != nil {
				t.Fatalf("HARNESS-GAP: HNS rule address %q does not parse: %v", part, err)
			}
			out = append(out, p.Masked())
		} else {
			a, err := netip.ParseAddr(part)
			if err != nil {
				t.Fatalf("HARNESS-GAP: HNS rule address %q does not parse: %v", part, err)
			}
			out = append(out, netip.PrefixFrom(a, a.BitLen()))
		}
	}
	return out
}

func c30ParsePorts(t c30TB, s string) []c30PortRange {
	var out []c30PortRange
	for _, part := range strings.Split(s, ",") {
		part = strings.TrimSpace(part)
		lo, hi := part, part
		if i := strings.IndexByte(part, '-'); i >= 0 {
			lo, hi = part[:i], part[i+1:]
		}
		l, err1 := strconv.Atoi(lo)
		h, err2 := strconv.Atoi(hi)
		if err1 != nil || err2 != nil {
			t.Fatalf("HARNESS-GAP: HNS rule port %q does not parse", part)
		}
		out = append(out, c30PortRange{l, h})
	}
	return out
}

func c30ParseHNS(t c30TB, rules []*hns.ACLPolicy) []*c30HNSRule {
	var out []*c30HNSRule
	for i, r := range rules {
		if r.Type != hns.ACL || r.RuleType != hns.Switch {
			continue
		}
		hr := &c30HNSRule{src: r, idx: i, proto: r.Protocol}
		if r.LocalAddresses != "" {
			hr.hasLocalNets, hr.localNets = true, c30ParseNets(t, r.LocalAddresses)
		}
		if r.RemoteAddresses != "" {
			hr.hasRNets, hr.remoteNets = true, c30ParseNets(t, r.RemoteAddresses)
		}
		if r.LocalPorts != "" {
			hr.hasLPorts, hr.localPorts = true, c30ParsePorts(t, r.LocalPorts)
		}
		if r.RemotePorts != "" {
			hr.hasRPorts, hr.remPorts = true, c30ParsePorts(t, r.RemotePorts)
		}
		if r.LocalPort != 0 || r.RemotePort != 0 || r.Protocols != "" {
			t.Fatalf("HARNESS-GAP: HNS rule uses LocalPort/RemotePort/Protocols fields the evaluator does not model: %+v", *r)
		}
		out = append(out, hr)
	}
	return out
}

func c30InNets(nets []netip.Prefix, a netip.Addr) bool {
	for _, p := range nets {
		if p.Contains(a) {
			return true
		}
	}
	return false
}

func c30InPorts(prs []c30PortRange, p int) bool {
	for _, r := range prs {
		if r.lo <= p && p <= r.hi {
			return true
		}
	}
	return false
}

func (r *c30HNSRule) matches(c c30Conn) bool {
	want := hns.Out
	if c.inbound {
		want = hns.In
	}
	if r.src.Direction != want {
		return false
	}
	if r.proto != 256 && r.proto != c.proto {
		return false
	}
	if r.hasLocalNets && !c30InNets(r.localNets, c.local) {
		return false
	}
	if r.hasRNets && !c30InNets(r.remoteNets, c.remote) {
		return false
	}
	if r.hasLPorts && !c30InPorts(r.localPorts, c.localPort) {
		return false
	}
	if r.hasRPorts && !c30InPorts(r.remPorts, c.remPort) {
		return false
	}
	return true
}

// c30EvalHNS returns the deciding action ("" + reason when ambiguous), and the deciding rule.
func c30EvalHNS(rules []*c30HNSRule, c c30Conn) (hns.ActionType, *c30HNSRule, string) {
	var best *c30HNSRule
	ambiguous := ""
	for _, r := range rules {
		if !r.matches(c) {
			continue
		}
		switch {
		case best == nil || r.src.Priority < best.src.Priority:
			best, ambiguous = r, ""
		case r.src.Priority == best.src.Priority && r.src.Action != best.src.Action:
			ambiguous = fmt.Sprintf("rules #%d (%s) and #%d (%s) both match at priority %d", best.idx, best.src.Action, r.idx, r.src.Action, r.src.Priority)
		}
	}
	if best == nil {
		return hns.Block, nil, ""
	}
	if ambiguous != "" {
		return "", best, ambiguous
	}
	return best.src.Action, best, ""
}

// ---------------------------------------------------------------------------------------
// reference semantics on the proto rules

type c30RefRule struct {
	r       *proto.Rule
	inbound bool
	// pre-parsed
	srcNets, dstNets       []netip.Prefix
	hasSrcNets, hasDstNets bool
	srcSet, dstSet         []netip.Prefix // IP set contents (v4), nil slice + has=true means empty set
	hasSrcSet, hasDstSet   bool
	ipPort                 map[string]bool // "ip|proto|port"
	hasIPPort              bool
	protoNum               uint16
	action                 string // allow / deny / pass / log
	fromBig                bool
}

func (rr *c30RefRule) matches(c c30Conn) bool {
	if rr.r.IpVersion == proto.IPVersion_IPV6 {
		return false // all generated connections are IPv4
	}
	sIP, sPort := c.src()
	dIP, dPort := c.dst()
	if rr.protoNum != 256 && rr.protoNum != c.proto {
		return false
	}
	if rr.hasSrcNets && !c30InNets(rr.srcNets, sIP) {
		return false
	}
	if rr.hasDstNets && !c30InNets(rr.dstNets, dIP) {
		return false
	}
	if rr.hasSrcSet && !c30InNets(rr.srcSet, sIP) {
		return false
	}
	if rr.hasDstSet && !c30InNets(rr.dstSet, dIP) {
		return false
	}
	if rr.hasIPPort && !rr.ipPort[fmt.Sprintf("%s|%d|%d", dIP, c.proto, dPort)] {
		return false
	}
	if len(rr.r.SrcPorts) > 0 {
		ok := false
		for _, pr := range rr.r.SrcPorts {
			if int(pr.First) <= sPort && sPort <= int(pr.Last) {
				ok = true
				break
			}
		}
		if !ok {
			return false
		}
	}
	if len(rr.r.DstPorts) > 0 {
		ok := false
		for _, pr := range rr.r.DstPorts {
			if int(pr.First) <= dPort && dPort <= int(pr.Last) {
				ok = true
				break
			}
		}
		if !ok {
			return false
		}
	}
	return true
}

type c30RefList struct {
	name          string
	rules         []*c30RefRule // all rules of the list's policies for this direction, in order
	endOfTierDrop bool
}

// eval returns "allow" / "deny" / "pass" and whether a rule (not the end of the list) decided, and
// that rule.
func (l *c30RefList) eval(c c30Conn) (string, *c30RefRule) {
	for _, rr := range l.rules {
		if rr.action == "log" {
			continue // log never terminates processing
		}
		if rr.matches(c) {
			return rr.action, rr
		}
	}
	if l.endOfTierDrop {
		return "deny", nil
	}
	return "pass", nil
}

// c30RefVerdict: pass moves to the next list; pass out of the last list is a block (documented in
// flattenTiers: "rules with `pass` action which should be `passed` to `default-deny`").
func c30RefVerdict(lists []*c30RefList, c c30Conn) (hns.ActionType, string) {
	v, p, _ := c30RefVerdictRule(lists, c)
	return v, p
}

func c30RefVerdictRule(lists []*c30RefList, c c30Conn) (hns.ActionType, string, *c30RefRule) {
	path := ""
	for i, l := range lists {
		v, rr := l.eval(c)
		by := "end-of-list"
		if rr != nil {
			by = "rule " + rr.r.RuleId
		}
		path += fmt.Sprintf("[%s: %s by %s]", l.name, v, by)
		switch v {
		case "allow":
			if i > 0 && rr != nil {
				path += "*"
			}
			return hns.Allow, path, rr
		case "deny":
			if i > 0 && rr != nil {
				path += "*"
			}
			return hns.Block, path, rr
		}
	}
	return hns.Block, path + "[passed out of last list: block]", nil
}

// ---------------------------------------------------------------------------------------
// generation

type c30Gen struct {
	t        *rapid.T
	sets     map[string][]string // IP set id -> members as announced
	ipp      map[string][]string
	classes  map[string]bool
	big      bool
	usedPort map[int32]bool
	nRule    int
	// known findings whose signature is excluded from generation
	knownIPPort bool
	excluded    map[string]bool
	bigRules    map[*proto.Rule]bool // rules carrying a long (chunked) list
}

func (g *c30Gen) subset(label string, voc []string, max int) []string {
	n := rapid.IntRange(0, max).Draw(g.t, label+"N")
	var out []string
	for i := 0; i < n; i++ {
		out = append(out, rapid.SampledFrom(voc).Draw(g.t, label))
	}
	return out
}

func (g *c30Gen) nets(label string, pct int) []string {
	if rapid.IntRange(0, 99).Draw(g.t, label+"Use") >= pct {
		return nil
	}
	out := g.subset(label, c30CIDRs, 3)
	if len(out) == 0 {
		out = []string{rapid.SampledFrom(c30CIDRs).Draw(g.t, label)}
	}
	switch rapid.IntRange(0, 29).Draw(g.t, label+"V6") {
	case 10:
		out = append(out, rapid.SampledFrom(c30V6CIDRs).Draw(g.t, label+"v6"))
		g.classes["mixed-v4-v6-nets"] = true
	case 20:
		out = []string{rapid.SampledFrom(c30V6CIDRs).Draw(g.t, label+"v6")}
		g.classes["only-v6-nets"] = true
	}
	return out
}

// bigNets: more CIDRs than fit one HNS rule (4000); the interesting members sit at drawn positions so
// that they land in different chunks.
// Sizes of long lists: around one and two times the per-rule chunk (4000 entries), exact multiples
// drawn more often.
var c30LongSizes = []int{3999, 4000, 4000, 4001, 7999, 8000, 8000, 8001}

const c30Long = 3999 // a list at least this long counts as "long" (reaches the chunk boundary)

func (g *c30Gen) longSize(label string) int {
	n := rapid.SampledFrom(c30LongSizes).Draw(g.t, label+"LongSize")
	g.classes[fmt.Sprintf("long-list-%d", n)] = true
	if n%4000 == 0 {
		g.classes["long-list-exact-multiple-of-chunk"] = true
	}
	return n
}

// bigNets: a CIDR list of exactly longSize entries; the interesting members sit at drawn positions so
// that they land in different chunks.
func (g *c30Gen) bigNets(label string) []string {
	n := g.longSize(label)
	extras := g.subset(label+"BigExtra", c30CIDRs, 3)
	out := make([]string, 0, n)
	for i := 0; i < n-len(extras); i++ {
		out = append(out, fmt.Sprintf("10.2.%d.%d/32", i>>8, i&255))
	}
	for _, extra := range extras {
		pos := rapid.SampledFrom([]int{0, 3999, 4000, len(out)}).Draw(g.t, label+"BigPos")
		pos = min(pos, len(out))
		out = append(out[:pos:pos], append([]string{extra}, out[pos:]...)...)
	}
	g.classes["split-addresses"] = true
	return out
}

// bigSet creates (once per case) an IP set of exactly longSize distinct members.
func (g *c30Gen) bigSet() string {
	const id = "ipsbig"
	if _, ok := g.sets[id]; ok {
		return id
	}
	n := g.longSize("ipSet")
	members := make([]string, 0, n)
	if rapid.Bool().Draw(g.t, "bigSetHasKnownIP") {
		members = append(members, "10.0.0.1")
	}
	for i := 0; len(members) < n; i++ {
		members = append(members, fmt.Sprintf("10.2.%d.%d", i>>8, i&255))
	}
	g.sets[id] = members
	g.classes["split-ipset"] = true
	return id
}

func (g *c30Gen) ports(label string) []*proto.PortRange {
	n := rapid.IntRange(1, 3).Draw(g.t, label+"N")
	var out []*proto.PortRange
	for i := 0; i < n; i++ {
		a := rapid.SampledFrom(c30Ports).Draw(g.t, label+"First")
		b := a
		if rapid.IntRange(0, 2).Draw(g.t, label+"Range") == 0 {
			b = rapid.SampledFrom(c30Ports).Draw(g.t, label+"Last")
			if b < a {
				a, b = b, a
			}
		}
		g.usedPort[a], g.usedPort[b] = true, true
		out = append(out, &proto.PortRange{First: a, Last: b})
	}
	return out
}

func (g *c30Gen) bigPorts(label string) []*proto.PortRange {
	n := g.longSize(label)
	extras := g.ports(label + "BigExtra")
	out := make([]*proto.PortRange, 0, n)
	for i := 0; i < n-len(extras); i++ {
		p := int32(10000 + 2*i) // non-adjacent singles
		out = append(out, &proto.PortRange{First: p, Last: p})
	}
	g.usedPort[10001] = true
	for _, k := range c30ChunkEdges {
		if k < n-len(extras) {
			g.usedPort[int32(10000+2*k)] = true
		}
	}
	for _, extra := range extras {
		pos := rapid.SampledFrom([]int{0, 3999, 4000, len(out)}).Draw(g.t, label+"BigPos")
		pos = min(pos, len(out))
		out = append(out[:pos:pos], append([]*proto.PortRange{extra}, out[pos:]...)...)
	}
	g.classes["split-ports"] = true
	return out
}

var c30ChunkEdges = []int{0, 3999, 4000, 7999, 8000}

func (g *c30Gen) rule(inbound bool, allowBig bool) *proto.Rule {
	g.nRule++
	r := &proto.Rule{RuleId: fmt.Sprintf("r%d", g.nRule)}
	r.Action = rapid.SampledFrom([]string{"allow", "allow", "allow", "deny", "deny", "deny", "pass", "next-tier", "pass", "log"}).Draw(g.t, "action")
	switch rapid.IntRange(0, 29).Draw(g.t, "ipVersion") {
	case 10:
		r.IpVersion = proto.IPVersion_IPV6
		g.classes["ipv6-rule"] = true
	case 20, 21, 22:
		r.IpVersion = proto.IPVersion_IPV4
	}
	// Destination service (ip,port set): egress rules only (validator), excludes the other
	// destination criteria (CEL rules on EntityRule).
	if !inbound && len(g.ipp) > 0 && rapid.IntRange(0, 7).Draw(g.t, "useIPPortSet") == 0 {
		ids := c30SortedKeys(g.ipp)
		r.DstIpPortSetIds = []string{rapid.SampledFrom(ids).Draw(g.t, "ipPortSet")}
		g.classes["ipport-set-rule"] = true
		other := rapid.IntRange(0, 3).Draw(g.t, "ipPortSetWithOther")
		if other != 0 && g.knownIPPort {
			g.excluded[c30SigIPPort] = true
			other = 0
		}
		switch other {
		case 1:
			pc := rapid.SampledFrom(c30ProtoChoices[1:4]).Draw(g.t, "protocol")
			r.Protocol = pc.p
			g.classes["ipport-set-rule-with-protocol"] = true
		case 2:
			r.SrcNet = []string{rapid.SampledFrom(c30CIDRs).Draw(g.t, "srcNet")}
			g.classes["ipport-set-rule-with-src"] = true
		}
		return r
	}
	pc := c30ProtoChoices[rapid.SampledFrom([]int{0, 0, 0, 0, 1, 1, 1, 2, 3, 4, 5, 6, 7}).Draw(g.t, "protocol")]
	r.Protocol = pc.p
	big := 0
	if allowBig && g.big {
		big = rapid.IntRange(1, 6).Draw(g.t, "bigField")
		g.bigRules[r] = true
	}
	// A rule with a split list carries few other criteria so that it decides connections often.
	bare := big != 0 && rapid.IntRange(0, 3).Draw(g.t, "bigBare") != 0
	if big == 1 {
		r.SrcNet = g.bigNets("srcNet")
	} else if !bare {
		r.SrcNet = g.nets("srcNet", 25)
	}
	if big == 2 {
		r.DstNet = g.bigNets("dstNet")
	} else if !bare {
		r.DstNet = g.nets("dstNet", 20)
	}
	if big == 5 {
		r.SrcIpSetIds = []string{g.bigSet()}
	} else if big == 6 {
		r.DstIpSetIds = []string{g.bigSet()}
	}
	if len(g.sets) > 0 && !bare && big < 5 {
		ids := c30SortedKeys(g.sets)
		if rapid.IntRange(0, 6).Draw(g.t, "useSrcSet") == 0 {
			r.SrcIpSetIds = []string{rapid.SampledFrom(ids).Draw(g.t, "srcSet")}
			g.classes["ipset-rule"] = true
		}
		if rapid.IntRange(0, 6).Draw(g.t, "useDstSet") == 0 {
			r.DstIpSetIds = []string{rapid.SampledFrom(ids).Draw(g.t, "dstSet")}
			g.classes["ipset-rule"] = true
		}
	}
	if big == 3 || big == 4 {
		// ports need a port-bearing protocol
		pc = c30ProtoChoices[1]
		r.Protocol = pc.p
	}
	if pc.ports {
		if big == 3 {
			r.SrcPorts = g.bigPorts("srcPorts")
		} else if !bare && rapid.IntRange(0, 5).Draw(g.t, "useSrcPorts") == 0 {
			r.SrcPorts = g.ports("srcPorts")
		}
		if big == 4 {
			r.DstPorts = g.bigPorts("dstPorts")
		} else if !bare && rapid.IntRange(0, 1).Draw(g.t, "useDstPorts") == 0 {
			r.DstPorts = g.ports("dstPorts")
		}
	}
	return r
}

func c30SortedKeys[V any](m map[string]V) []string {
	out := make([]string, 0, len(m))
	for k := range m {
		out = append(out, k)
	}
	sort.Strings(out)
	return out
}

func c30ProtoNum(t c30TB, p *proto.Protocol) uint16 {
	if p == nil {
		return 256
	}
	switch v := p.NumberOrName.(type) {
	case *proto.Protocol_Number:
		return uint16(v.Number)
	case *proto.Protocol_Name:
		switch strings.ToLower(v.Name) {
		case "tcp":
			return 6
		case "udp":
			return 17
		case "icmp":
			return 1
		case "sctp":
			return 132
		case "udplite":
			return 136
		case "icmpv6":
			return 58
		}
		t.Fatalf("HARNESS-GAP: protocol name %q", v.Name)
	}
	return 256
}

func c30V4Prefixes(t c30TB, in []string) []netip.Prefix {
	var out []netip.Prefix
	for _, s := range in {
		if strings.Contains(s, ":") {
			continue
		}
		out = append(out, c30ParseNets(t, s)...)
	}
	return out
}

func (sc *c30Scenario) refRule(t c30TB, r *proto.Rule, inbound bool) *c30RefRule {
	rr := &c30RefRule{r: r, inbound: inbound, protoNum: c30ProtoNum(t, r.Protocol)}
	switch strings.ToLower(r.Action) {
	case "allow":
		rr.action = "allow"
	case "deny":
		rr.action = "deny"
	case "pass", "next-tier":
		rr.action = "pass"
	case "log":
		rr.action = "log"
	default:
		t.Fatalf("HARNESS-GAP: action %q", r.Action)
	}
	if len(r.SrcNet) > 0 {
		rr.hasSrcNets, rr.srcNets = true, c30V4Prefixes(t, r.SrcNet)
	}
	if len(r.DstNet) > 0 {
		rr.hasDstNets, rr.dstNets = true, c30V4Prefixes(t, r.DstNet)
	}
	rr.fromBig = len(r.SrcNet) >= c30Long || len(r.DstNet) >= c30Long || len(r.SrcPorts) >= c30Long || len(r.DstPorts) >= c30Long ||
		(len(r.SrcIpSetIds) > 0 && len(sc.sets[r.SrcIpSetIds[0]]) >= c30Long) || (len(r.DstIpSetIds) > 0 && len(sc.sets[r.DstIpSetIds[0]]) >= c30Long)
	if len(r.SrcIpSetIds) > 0 {
		rr.hasSrcSet, rr.srcSet = true, c30V4Prefixes(t, sc.sets[r.SrcIpSetIds[0]])
	}
	if len(r.DstIpSetIds) > 0 {
		rr.hasDstSet, rr.dstSet = true, c30V4Prefixes(t, sc.sets[r.DstIpSetIds[0]])
	}
	if len(r.DstIpPortSetIds) > 0 {
		rr.hasIPPort, rr.ipPort = true, map[string]bool{}
		for _, m := range sc.ipp[r.DstIpPortSetIds[0]] {
			parts := strings.Split(m, ",")
			if strings.Contains(parts[0], ":") {
				continue
			}
			pp := strings.Split(parts[1], ":")
			num := c30ProtoNum(t, &proto.Protocol{NumberOrName: &proto.Protocol_Name{Name: pp[0]}})
			rr.ipPort[fmt.Sprintf("%s|%d|%s", netip.MustParseAddr(parts[0]), num, pp[1])] = true
		}
	}
	return rr
}

type c30PolDef struct {
	id      *proto.PolicyID
	in, out []*proto.Rule
	refIn   []*c30RefRule
	refOut  []*c30RefRule
}

// c30TB is what the checker needs from *rapid.T / *testing.T.
type c30TB interface {
	Fatalf(format string, args ...any)
}

// c30Scenario is one complete input: IP sets, policies, profiles and the endpoint's tier layout.
type c30Scenario struct {
	sets      map[string][]string
	ipp       map[string][]string
	pols      []*c30PolDef
	profs     []*c30PolDef
	eps       []*proto.WorkloadEndpoint // endpoints sharing one PolicySets / endpointManager (same policy pool, own tier subsets)
	order     []int                     // render sequence (indices into eps); repeats are refreshes
	features  hns.HNSAclFeatures
	portCands []int // boundary ports for the connection grid
}

type c30Outcome struct {
	lastAndNonLast, lastAndNonLastWithPass                                             bool
	sawAllow, sawBlock, laterDecided, bigDecided, grouped, profilesAppended, manyLists bool
	nConns, nFinal                                                                     int
}

func c30DescribeRule(r *proto.Rule) string {
	short := func(s []string) string {
		if len(s) > 6 {
			return fmt.Sprintf("[%d nets: %s … %s]", len(s), strings.Join(s[:2], " "), s[len(s)-1])
		}
		return fmt.Sprint(s)
	}
	ports := func(p []*proto.PortRange) string {
		var out []string
		for i, pr := range p {
			if len(p) > 6 && i >= 2 && i < len(p)-1 {
				if i == 2 {
					out = append(out, fmt.Sprintf("…(%d)", len(p)))
				}
				continue
			}
			out = append(out, fmt.Sprintf("%d-%d", pr.First, pr.Last))
		}
		return strings.Join(out, ",")
	}
	var sb strings.Builder
	fmt.Fprintf(&sb, "%s:%s", r.RuleId, r.Action)
	if r.IpVersion != 0 {
		fmt.Fprintf(&sb, " ipv=%v", r.IpVersion)
	}
	if r.Protocol != nil {
		fmt.Fprintf(&sb, " proto=%v", r.Protocol.NumberOrName)
	}
	if len(r.SrcNet) > 0 {
		fmt.Fprintf(&sb, " src=%s", short(r.SrcNet))
	}
	if len(r.DstNet) > 0 {
		fmt.Fprintf(&sb, " dst=%s", short(r.DstNet))
	}
	if len(r.SrcIpSetIds) > 0 {
		fmt.Fprintf(&sb, " srcSet=%v", r.SrcIpSetIds)
	}
	if len(r.DstIpSetIds) > 0 {
		fmt.Fprintf(&sb, " dstSet=%v", r.DstIpSetIds)
	}
	if len(r.DstIpPortSetIds) > 0 {
		fmt.Fprintf(&sb, " dstIPPortSet=%v", r.DstIpPortSetIds)
	}
	if len(r.SrcPorts) > 0 {
		fmt.Fprintf(&sb, " sport=%s", ports(r.SrcPorts))
	}
	if len(r.DstPorts) > 0 {
		fmt.Fprintf(&sb, " dport=%s", ports(r.DstPorts))
	}
	return sb.String()
}

func c30DescribeHNS(rules []*hns.ACLPolicy) string {
	var sb strings.Builder
	clip := func(s string) string {
		if len(s) > 120 {
			return s[:60] + "…" + s[len(s)-40:]
		}
		return s
	}
	for i, r := range rules {
		fmt.Fprintf(&sb, "  #%d prio=%d %s %s %s proto=%d local=[%s]:[%s] remote=[%s]:[%s] id=%s\n", i, r.Priority, r.RuleType, r.Direction, r.Action,
			r.Protocol, clip(r.LocalAddresses), clip(r.LocalPorts), clip(r.RemoteAddresses), clip(r.RemotePorts), r.Id)
		if i > 60 {
			fmt.Fprintf(&sb, "  … (%d rules)\n", len(rules))
			break
		}
	}
	return sb.String()
}

// ---------------------------------------------------------------------------------------
// the checker: runs the real code on a scenario and compares verdicts on the connection grid

func (sc *c30Scenario) describe() string {
	var sb strings.Builder
	for _, id := range c30SortedKeys(sc.sets) {
		fmt.Fprintf(&sb, "ipset %s = %v\n", id, sc.sets[id])
	}
	for _, id := range c30SortedKeys(sc.ipp) {
		fmt.Fprintf(&sb, "ip-port set %s = %v\n", id, sc.ipp[id])
	}
	for _, pd := range append(append([]*c30PolDef{}, sc.pols...), sc.profs...) {
		fmt.Fprintf(&sb, "policy/profile %s\n", policyIDToString("", pd.id))
		for _, r := range pd.in {
			fmt.Fprintf(&sb, "   in  %s\n", c30DescribeRule(r))
		}
		for _, r := range pd.out {
			fmt.Fprintf(&sb, "   out %s\n", c30DescribeRule(r))
		}
	}
	for i, ep := range sc.eps {
		fmt.Fprintf(&sb, "endpoint %d:\n", i)
		for _, ti := range ep.Tiers {
			fmt.Fprintf(&sb, "   tier %s default=%q ingress=%v egress=%v\n", ti.Name, ti.DefaultAction, policyIDsToStrings("", ti.IngressPolicies), policyIDsToStrings("", ti.EgressPolicies))
		}
		fmt.Fprintf(&sb, "   profiles %v\n", ep.ProfileIds)
	}
	fmt.Fprintf(&sb, "render order (endpoint indices; repeats are refreshes): %v\n", sc.order)
	return sb.String()
}

// c30Check runs the real code.  smallLimit(n) chooses the priority limit used to force
// rewritePriorities' grouped branch on a list of n rules.
func c30Check(t c30TB, sc *c30Scenario, smallLimit func(n int) int) c30Outcome {
	var oc c30Outcome
	// Reference rules are built here, after generation is complete.
	polByKey := map[string]*c30PolDef{}
	for _, pd := range append(append([]*c30PolDef{}, sc.pols...), sc.profs...) {
		pd.refIn, pd.refOut = nil, nil
		for _, r := range pd.in {
			pd.refIn = append(pd.refIn, sc.refRule(t, r, true))
		}
		for _, r := range pd.out {
			pd.refOut = append(pd.refOut, sc.refRule(t, r, false))
		}
	}
	for _, pd := range sc.pols {
		polByKey[policyIDToString("", pd.id)] = pd
	}

	// Real code: IP set cache, policy sets via the policy manager.
	cache := winipsets.NewIPSets(winipsets.NewIPVersionConfig(winipsets.IPFamilyV4))
	cache.SetCallback(func(string) {})
	for _, id := range c30SortedKeys(sc.sets) {
		cache.AddOrReplaceIPSet(winipsets.IPSetMetadata{SetID: id, Type: felixipsets.IPSetTypeHashNet, MaxSize: 1000}, sc.sets[id])
	}
	for _, id := range c30SortedKeys(sc.ipp) {
		cache.AddOrReplaceIPSet(winipsets.IPSetMetadata{SetID: id, Type: winipsets.IPSetTypeHashIPPort, MaxSize: 1000}, sc.ipp[id])
	}
	h := &c30HNS{features: hns.HNSSupportedFeatures{Acl: sc.features}}
	ps := policysets.NewPolicySets(h, []policysets.IPSetCache{cache}, c30NoStaticRules{})
	pm := newPolicyManager(ps)
	for _, pd := range sc.pols {
		pm.OnUpdate(&proto.ActivePolicyUpdate{Id: pd.id, Policy: &proto.Policy{InboundRules: pd.in, OutboundRules: pd.out}})
	}
	for _, pd := range sc.profs {
		pm.OnUpdate(&proto.ActiveProfileUpdate{Id: &proto.ProfileID{Name: pd.id.Name}, Profile: &proto.Profile{InboundRules: pd.in, OutboundRules: pd.out}})
	}
	// Reference lists per direction (which lists exist: as documented in endpoint_mgr.go).
	type listSrc struct {
		names   []string
		eotDrop bool
		ids     []*proto.PolicyID
	}
	buildLists := func(ep *proto.WorkloadEndpoint, inbound bool) ([]*c30RefList, []listSrc) {
		var lists []*c30RefList
		var srcs []listSrc
		defaultApplies := false
		for _, ti := range ep.Tiers {
			ids := ti.EgressPolicies
			if inbound {
				ids = ti.IngressPolicies
			}
			if len(ids) == 0 {
				continue
			}
			if ti.Name == "default" {
				defaultApplies = true
			}
			l := &c30RefList{name: ti.Name, endOfTierDrop: ti.DefaultAction != "Pass"}
			for _, id := range ids {
				pd := polByKey[policyIDToString("", id)]
				if inbound {
					l.rules = append(l.rules, pd.refIn...)
				} else {
					l.rules = append(l.rules, pd.refOut...)
				}
			}
			lists = append(lists, l)
			srcs = append(srcs, listSrc{policyIDsToStrings(policysets.PolicyNamePrefix, ids), l.endOfTierDrop, ids})
		}
		if len(lists) == 0 || !defaultApplies {
			l := &c30RefList{name: "profiles", endOfTierDrop: true}
			for _, name := range ep.ProfileIds {
				for _, pd := range sc.profs {
					if pd.id.Name == name {
						if inbound {
							l.rules = append(l.rules, pd.refIn...)
						} else {
							l.rules = append(l.rules, pd.refOut...)
						}
					}
				}
			}
			lists = append(lists, l)
			srcs = append(srcs, listSrc{profileIDsToStrings(policysets.ProfileNamePrefix, ep.ProfileIds), true, nil})
			oc.profilesAppended = true
		}
		return lists, srcs
	}
	// Class: some policy sits in the last list of one endpoint and in a non-last list of another.
	{
		type pos struct{ last, nonLast bool }
		seen := map[string]*pos{}
		for _, ep := range sc.eps {
			for _, inbound := range []bool{true, false} {
				_, srcs := buildLists(ep, inbound)
				for li, src := range srcs {
					for _, id := range src.ids {
						k := fmt.Sprintf("%v|%s", inbound, policyIDToString("", id))
						if seen[k] == nil {
							seen[k] = &pos{}
						}
						if li == len(srcs)-1 {
							seen[k].last = true
						} else {
							seen[k].nonLast = true
						}
					}
				}
			}
		}
		for _, k := range c30SortedKeys(seen) {
			if seen[k].last && seen[k].nonLast {
				oc.lastAndNonLast = true
				pd := polByKey[k[strings.IndexByte(k, '|')+1:]]
				rules := pd.out
				if strings.HasPrefix(k, "true") {
					rules = pd.in
				}
				for _, r := range rules {
					if a := strings.ToLower(r.Action); a == "pass" || a == "next-tier" {
						oc.lastAndNonLastWithPass = true
					}
				}
			}
		}
		oc.profilesAppended = false // only counted for rendered endpoints below
	}

	// Connection grid.
	var conns []c30Conn
	for _, inbound := range []bool{true, false} {
		for _, l := range c30LocalIPs {
			for _, r := range c30RemoteIPs {
				for _, p := range c30Protos {
					if p == 1 || p == 47 {
						conns = append(conns, c30Conn{inbound, netip.MustParseAddr(l), netip.MustParseAddr(r), p, 0, 0})
						continue
					}
					for _, lp := range sc.portCands {
						for _, rp := range sc.portCands {
							conns = append(conns, c30Conn{inbound, netip.MustParseAddr(l), netip.MustParseAddr(r), p, lp, rp})
						}
					}
				}
			}
		}
	}
	oc.nConns = len(conns)

	// One endpoint manager for all endpoints; each render step is checked against the reference of the
	// rendered endpoint's OWN layout (the PolicySets cache is shared between the endpoints).
	em := newEndpointManager(h, ps)
	em.hostAddrs = nil
	rendered := map[int]bool{}
	for step, epIdx := range sc.order {
		ep := sc.eps[epIdx]
		refIn, srcIn := buildLists(ep, true)
		refOut, srcOut := buildLists(ep, false)
		oc.manyLists = oc.manyLists || len(refIn) >= 3 || len(refOut) >= 3
		what := fmt.Sprintf("render step %d, endpoint %d", step, epIdx)

		// Level 1: every single list as rendered by GetPolicySetRules (pass is a verdict here).
		for _, inbound := range []bool{true, false} {
			lists, srcs := refOut, srcOut
			if inbound {
				lists, srcs = refIn, srcIn
			}
			for li, ref := range lists {
				raw := ps.GetPolicySetRules(srcs[li].names, inbound, srcs[li].eotDrop)
				parsed := c30ParseHNS(t, raw)
				for _, c := range conns {
					if c.inbound != inbound {
						continue
					}
					want, rr := ref.eval(c)
					wantA := map[string]hns.ActionType{"allow": hns.Allow, "deny": hns.Block, "pass": policysets.ActionPass}[want]
					got, by, amb := c30EvalHNS(parsed, c)
					if amb != "" || got != wantA {
						byS, rrS := "none", "end of list"
						if by != nil {
							byS = fmt.Sprintf("#%d", by.idx)
						}
						if rr != nil {
							rrS = c30DescribeRule(rr.r)
						}
						t.Fatalf("C30 violation (%s, single list %s %v): connection %s: policy semantics say %s (by %s); GetPolicySetRules output evaluates to %q (by rule %s) %s\n%s\nHNS rules of the list:\n%s",
							what, ref.name, srcs[li].names, c, want, rrS, got, byS, amb, sc.describe(), c30DescribeHNS(raw))
					}
				}
			}
		}

		// Level 2: the endpoint manager's final rules.
		wid := types.WorkloadEndpointID{OrchestratorId: "k8s", WorkloadId: fmt.Sprintf("ns1/c30wl%d", epIdx), EndpointId: "eth0"}
		em.OnUpdate(&proto.WorkloadEndpointUpdate{Id: types.WorkloadEndpointIDToProto(wid), Endpoint: ep})
		func() {
			defer func() {
				if p := recover(); p != nil {
					t.Fatalf("C30 violation (%s): computing the endpoint's HNS rules panicked: %v\n%s", what, p, sc.describe())
				}
			}()
			if err := em.CompleteDeferredWork(); err != nil {
				t.Fatalf("HARNESS-GAP: CompleteDeferredWork: %v", err)
			}
		}()
		final := em.activeWlACLPolicies[wid]
		if final == nil {
			t.Fatalf("HARNESS-GAP: endpoint manager applied no rules")
		}
		oc.nFinal = len(final)
		for _, r := range final {
			if r.Action != hns.Allow && r.Action != hns.Block {
				t.Fatalf("C30 violation (%s): rule with non-HNS action %q reaches HNS\n%s\nfinal rules:\n%s", what, r.Action, sc.describe(), c30DescribeHNS(final))
			}
		}
		parsed := c30ParseHNS(t, final)
		for _, c := range conns {
			lists := refOut
			if c.inbound {
				lists = refIn
			}
			want, path, drule := c30RefVerdictRule(lists, c)
			if drule != nil && drule.fromBig {
				oc.bigDecided = true
			}
			got, by, amb := c30EvalHNS(parsed, c)
			if amb != "" || got != want {
				byS := "none"
				if by != nil {
					byS = fmt.Sprintf("#%d", by.idx)
				}
				t.Fatalf("C30 violation (%s, endpoint manager output): connection %s: policy semantics say %s via %s; HNS rules evaluate to %q (by rule %s) %s\n%s\nHNS rules:\n%s",
					what, c, want, path, got, byS, amb, sc.describe(), c30DescribeHNS(final))
			}
			if want == hns.Allow {
				oc.sawAllow = true
			} else {
				oc.sawBlock = true
			}
			if strings.HasSuffix(path, "*") {
				oc.laterDecided = true
			}
		}

		// Level 3: rewritePriorities' grouped branch on a copy (first render of an endpoint only).
		first := !rendered[epIdx]
		rendered[epIdx] = true
		for _, dir := range []hns.DirectionType{hns.In, hns.Out} {
			if !first {
				break
			}
			var cp []*hns.ACLPolicy
			for _, r := range final {
				if r.RuleType == hns.Switch && r.Direction == dir {
					c := *r
					cp = append(cp, &c)
				}
			}
			if len(cp) < 2 {
				continue
			}
			limit := policysets.PolicyRuleBasePriority + uint16(smallLimit(len(cp)))
			rewritePriorities(cp, limit)
			parsed := c30ParseHNS(t, cp)
			for _, c := range conns {
				if (dir == hns.In) != c.inbound {
					continue
				}
				lists := refOut
				if c.inbound {
					lists = refIn
				}
				want, path := c30RefVerdict(lists, c)
				got, _, amb := c30EvalHNS(parsed, c)
				if amb != "" || got != want {
					t.Fatalf("C30 violation (rewritePriorities with limit %d on %d rules): connection %s: policy semantics say %s via %s; HNS rules evaluate to %q %s\n%s\nHNS rules:\n%s",
						limit, len(cp), c, want, path, got, amb, sc.describe(), c30DescribeHNS(cp))
				}
			}
			oc.grouped = true
		}
	} // render steps
	return oc
}

// ---------------------------------------------------------------------------------------

const c30SigIPPort = "ipportset-with-other-criteria"

func TestVerifC30WindowsFlattening(t *testing.T) {
	ev.Quiet()
	rec := ev.New("C30", "windataplane",
		"<=3 tiers (any position of the 'default' tier, end-of-tier Deny/Pass) x <=5 policies + <=2 profiles of supported rules only (allow/deny/pass/next-tier/log; protocol by name/number; src/dst CIDR lists incl. v6 members that are filtered and lists of 3999/4000/4001/7999/8000/8001 entries (the per-rule chunk is 4000); IP sets of those sizes; src/dst IP sets incl. empty and v6 members; egress ip-port sets; src/dst port lists incl. those sizes, only with tcp/udp/sctp), fed through the real policyManager, Windows IP set cache and endpointManager; 1-3 endpoints share one PolicySets/endpointManager (same policy pool and tier order, own policy subsets), are rendered in a drawn order and partly re-rendered, and after every render the rendered endpoint is checked against its own layout; every connection of a boundary grid (direction x 3 local IPs x 7 remote IPs x 5 protocols x boundary ports of the ports used) is evaluated. Non-trivial = for some connection the reference verdict was decided by a rule in a later list after a pass (pass rule or end-of-tier pass) AND both Allow and Block verdicts occur; distinct = distinct tier/policy/rule-action shape",
		"HNS semantics as read from the code comments: lowest priority number among matching Switch rules decides; equal-priority matches with different actions are ambiguous; no match = Block; RuleType Host rules are not switch ACLs",
		"the lists that are flattened are those endpoint_mgr.go assembles (tiers with policies in the direction; profiles appended iff no tier applies or the 'default' tier has no policies in that direction); pass out of the last list = Block as documented in flattenTiers",
		"endpointManager.hostAddrs is cleared so that the separate allow-host-to-endpoint rule (priority 900) does not take part",
		"each IP-set field holds at most one id (as the calc graph emits); ports only with tcp/udp/sctp; ip-port sets only in egress rules (validator)",
		"rewritePriorities' grouped branch (normally reached only with >=64000 rules) is exercised by calling it with a small limit on a copy of the final rule list")
	defer rec.Write()
	knownIPPort := ev.Known(c30SigIPPort)
	rapid.Check(t, func(t *rapid.T) {
		g := &c30Gen{t: t, sets: map[string][]string{}, ipp: map[string][]string{}, classes: map[string]bool{}, usedPort: map[int32]bool{},
			knownIPPort: knownIPPort, excluded: map[string]bool{}, bigRules: map[*proto.Rule]bool{}}
		v := rapid.IntRange(0, 999).Draw(t, "bigCase")
		g.big = v >= 300 && v < 400
		sc := &c30Scenario{sets: g.sets, ipp: g.ipp}

		nSets := rapid.IntRange(0, 3).Draw(t, "nIPSets")
		for i := 0; i < nSets; i++ {
			members := g.subset("ipSetMember", c30IPSetMembers, 4)
			g.sets[fmt.Sprintf("ips%d", i)] = members
			if len(c30V4Prefixes(t, members)) == 0 {
				g.classes["empty-ipset"] = true
			}
		}
		nIPP := rapid.IntRange(0, 2).Draw(t, "nIPPortSets")
		for i := 0; i < nIPP; i++ {
			g.ipp[fmt.Sprintf("ipp%d", i)] = g.subset("ipPortMember", c30IPPortMembers, 4)
		}
		sc.features = hns.HNSAclFeatures{AclAddressLists: true, AclPortRanges: true,
			AclRuleId:             rapid.Bool().Draw(t, "aclRuleId"),
			AclNoHostRulePriority: rapid.Bool().Draw(t, "aclNoHostRulePriority")}

		// Policies and profiles.
		nPol := rapid.IntRange(1, 5).Draw(t, "nPolicies")
		bigLeft := 1
		for i := 0; i < nPol; i++ {
			pd := &c30PolDef{}
			switch rapid.IntRange(0, 2).Draw(t, "policyKind") {
			case 0:
				pd.id = &proto.PolicyID{Name: fmt.Sprintf("pol%d", i), Kind: "GlobalNetworkPolicy"}
			case 1:
				pd.id = &proto.PolicyID{Name: fmt.Sprintf("pol%d", i), Kind: "NetworkPolicy", Namespace: "ns1"}
			default:
				pd.id = &proto.PolicyID{Name: "same", Kind: "NetworkPolicy", Namespace: fmt.Sprintf("ns%d", i)}
			}
			for dir := 0; dir < 2; dir++ {
				n := rapid.IntRange(0, 4).Draw(t, "nRules")
				for j := 0; j < n; j++ {
					r := g.rule(dir == 0, bigLeft > 0)
					if g.bigRules[r] {
						bigLeft--
					}
					if dir == 0 {
						pd.in = append(pd.in, r)
					} else {
						pd.out = append(pd.out, r)
					}
				}
			}
			sc.pols = append(sc.pols, pd)
		}
		nProf := rapid.IntRange(0, 2).Draw(t, "nProfiles")
		for i := 0; i < nProf; i++ {
			pd := &c30PolDef{id: &proto.PolicyID{Name: fmt.Sprintf("prof%d", i)}}
			for dir := 0; dir < 2; dir++ {
				n := rapid.IntRange(0, 3).Draw(t, "nProfileRules")
				for j := 0; j < n; j++ {
					r := g.rule(dir == 0, false)
					if dir == 0 {
						pd.in = append(pd.in, r)
					} else {
						pd.out = append(pd.out, r)
					}
				}
			}
			sc.profs = append(sc.profs, pd)
		}
		// Tier layout: each policy goes to one tier; a tier lists a policy for ingress, egress or both.
		tierNames := [][]string{{"default"}, {"tier-a"}, {"tier-a", "default"}, {"default", "tier-b"}, {"tier-a", "tier-b"}, {"tier-a", "default"},
			{"tier-a", "default", "tier-b"}, {"tier-a", "tier-b", "default"}, {"default", "tier-a", "tier-b"}}[rapid.IntRange(0, 8).Draw(t, "tierLayout")]
		ep := &proto.WorkloadEndpoint{State: "active", Name: "c30wl", Ipv4Nets: []string{"10.65.0.2/32"}}
		tiers := make([]*proto.TierInfo, len(tierNames))
		for i, n := range tierNames {
			tiers[i] = &proto.TierInfo{Name: n, DefaultAction: rapid.SampledFrom([]string{"Deny", "Pass", "Deny", "Pass", ""}).Draw(t, "defaultAction "+n)}
		}
		polByKey := map[string]*c30PolDef{}
		for _, pd := range sc.pols {
			ti := tiers[rapid.IntRange(0, len(tiers)-1).Draw(t, "tierOf")]
			dir := rapid.SampledFrom([]int{1, 2, 3, 3, 3}).Draw(t, "appliesDir")
			if dir&1 != 0 {
				ti.IngressPolicies = append(ti.IngressPolicies, pd.id)
			}
			if dir&2 != 0 {
				ti.EgressPolicies = append(ti.EgressPolicies, pd.id)
			}
			polByKey[policyIDToString("", pd.id)] = pd
		}
		for _, ti := range tiers {
			if len(ti.IngressPolicies)+len(ti.EgressPolicies) > 0 { // the calc graph only lists tiers with policies
				ep.Tiers = append(ep.Tiers, ti)
			}
		}
		for _, pd := range sc.profs {
			if rapid.IntRange(0, 4).Draw(t, "useProfile") != 0 {
				ep.ProfileIds = append(ep.ProfileIds, pd.id.Name)
			}
		}
		sc.eps = []*proto.WorkloadEndpoint{ep}
		// Further endpoints share the policy pool, the tier order and the end-of-tier actions, but only a
		// drawn subset of the policies (per direction) and profiles applies to them - so a tier that is
		// the last one for one endpoint is followed by further tiers / profiles for another.
		nExtra := rapid.SampledFrom([]int{0, 1, 1, 2}).Draw(t, "extraEndpoints")
		if g.big && nExtra > 1 {
			nExtra = 1
		}
		for x := 1; x <= nExtra; x++ {
			e2 := &proto.WorkloadEndpoint{State: "active", Name: fmt.Sprintf("c30wl%d", x), Ipv4Nets: []string{fmt.Sprintf("10.65.0.%d/32", 2+x)}}
			// Half of the further endpoints keep only a prefix of the tiers, with all their policies.
			cut := -1
			if len(ep.Tiers) > 1 && rapid.Bool().Draw(t, "prefixOfTiers") {
				cut = rapid.IntRange(1, len(ep.Tiers)-1).Draw(t, "tiersKept")
			}
			for ti_i, ti := range ep.Tiers {
				if cut >= 0 {
					if ti_i < cut {
						e2.Tiers = append(e2.Tiers, &proto.TierInfo{Name: ti.Name, DefaultAction: ti.DefaultAction,
							IngressPolicies: ti.IngressPolicies, EgressPolicies: ti.EgressPolicies})
					}
					continue
				}
				t2 := &proto.TierInfo{Name: ti.Name, DefaultAction: ti.DefaultAction}
				dropTier := rapid.IntRange(0, 3).Draw(t, "dropTier") == 0
				for _, id := range ti.IngressPolicies {
					if !dropTier && rapid.IntRange(0, 3).Draw(t, "keepIngress") != 0 {
						t2.IngressPolicies = append(t2.IngressPolicies, id)
					}
				}
				for _, id := range ti.EgressPolicies {
					if !dropTier && rapid.IntRange(0, 3).Draw(t, "keepEgress") != 0 {
						t2.EgressPolicies = append(t2.EgressPolicies, id)
					}
				}
				if len(t2.IngressPolicies)+len(t2.EgressPolicies) > 0 {
					e2.Tiers = append(e2.Tiers, t2)
				}
			}
			for _, pd := range sc.profs {
				if rapid.IntRange(0, 4).Draw(t, "useProfile") != 0 {
					e2.ProfileIds = append(e2.ProfileIds, pd.id.Name)
				}
			}
			sc.eps = append(sc.eps, e2)
		}
		idx := make([]int, len(sc.eps))
		for i := range idx {
			idx[i] = i
		}
		sc.order = rapid.Permutation(idx).Draw(t, "renderOrder")
		if len(sc.eps) > 1 {
			for n := rapid.IntRange(0, 2).Draw(t, "refreshes"); n > 0; n-- {
				sc.order = append(sc.order, rapid.IntRange(0, len(sc.eps)-1).Draw(t, "refreshEndpoint"))
			}
		}

		// Boundary ports for the grid.
		portSet := map[int]bool{80: true}
		for p := range g.usedPort {
			for _, q := range []int{int(p) - 1, int(p), int(p) + 1} {
				if q >= 1 && q <= 65535 {
					portSet[q] = true
				}
			}
		}
		for _, m := range g.ipp {
			for _, mem := range m {
				if i := strings.LastIndexByte(mem, ':'); i >= 0 {
					if p, err := strconv.Atoi(mem[i+1:]); err == nil {
						portSet[p] = true
					}
				}
			}
		}
		for p := range portSet {
			sc.portCands = append(sc.portCands, p)
		}
		sort.Ints(sc.portCands)
		maxPorts := 7
		if g.big {
			maxPorts = 5
		}
		for tries := 0; len(sc.portCands) > maxPorts; tries++ {
			i := rapid.IntRange(0, len(sc.portCands)-1).Draw(t, "dropPortCandidate")
			if p := sc.portCands[i]; g.big && tries < 50 && p >= 10000 && (p-10000)%2 == 0 && slices.Contains(c30ChunkEdges[1:], (p-10000)/2) {
				continue // keep the ports on either side of the chunk boundary of a split port list
			}
			sc.portCands = append(sc.portCands[:i], sc.portCands[i+1:]...)
		}

		oc := c30Check(t, sc, func(n int) int { return rapid.IntRange(1, n).Draw(t, "smallPriorityLimit") })

		// Evidence.
		var shape strings.Builder
		for _, ti := range ep.Tiers {
			fmt.Fprintf(&shape, "T%s/%s[", ti.Name[:1], ti.DefaultAction)
			for _, id := range ti.IngressPolicies {
				shape.WriteString("i")
				for _, r := range polByKey[policyIDToString("", id)].in {
					shape.WriteString(r.Action[:1])
				}
			}
			for _, id := range ti.EgressPolicies {
				shape.WriteString("e")
				for _, r := range polByKey[policyIDToString("", id)].out {
					shape.WriteString(r.Action[:1])
				}
			}
			shape.WriteString("]")
		}
		fmt.Fprintf(&shape, "P%d E%d O%v", len(ep.ProfileIds), len(sc.eps), sc.order)
		for k, v := range map[string]bool{"decided-in-later-list-after-pass": oc.laterDecided, "matched-rule-from-split": oc.bigDecided, "big-case": g.big,
			"grouped-priorities": oc.grouped, "profiles-appended": oc.profilesAppended, "3+lists": oc.manyLists,
			"several-endpoints": len(sc.eps) > 1, "refresh-render": len(sc.order) > len(sc.eps),
			"policy-last-tier-for-one-endpoint-nonlast-for-another":           oc.lastAndNonLast,
			"policy-with-pass-last-tier-for-one-endpoint-nonlast-for-another": oc.lastAndNonLastWithPass} {
			if v {
				g.classes[k] = true
			}
		}
		for _, sig := range c30SortedKeys(g.excluded) {
			rec.Excluded(sig)
		}
		rec.SizedCase(oc.laterDecided && oc.sawAllow && oc.sawBlock, shape.String(), oc.nFinal, func() any {
			return map[string]any{"input": strings.Split(sc.describe(), "\n"), "connections": oc.nConns, "hns_rules": oc.nFinal}
		}, c30SortedKeys(g.classes)...)
	})
}

// ---------------------------------------------------------------------------------------
// The list splitters on their own: whatever the chunk size, the chunks are the list.

func TestVerifC30WindowsFlatteningSplitLists(t *testing.T) {
	ev.Quiet()
	rec := ev.New("C30", "split-lists",
		"policysets.SplitIPList / SplitPortList with chunk sizes 1..6 and 4000 on lists whose length is 0, 1, k*chunk-1, k*chunk, k*chunk+1 (k=1,2,3) or arbitrary; reference: concatenating the chunks gives the list back, every chunk holds 1..chunk entries, and the empty list gives exactly one empty chunk (an empty chunk renders as an unconstrained HNS field, so it must not appear otherwise). Non-trivial = length is a non-zero exact multiple of the chunk size or the list is empty; distinct = (chunk, length)")
	defer rec.Write()
	rapid.Check(t, func(t *rapid.T) {
		chunk := rapid.SampledFrom([]int{1, 2, 3, 4, 5, 6, 4000}).Draw(t, "chunk")
		var n int
		switch rapid.IntRange(0, 3).Draw(t, "lengthKind") {
		case 0:
			n = rapid.IntRange(0, 3*chunk+2).Draw(t, "length")
		default:
			k := rapid.IntRange(0, 3).Draw(t, "k")
			n = max(0, k*chunk+rapid.IntRange(-1, 1).Draw(t, "delta"))
		}
		ips := make([]string, n)
		ports := make([]*proto.PortRange, n)
		for i := range ips {
			ips[i] = fmt.Sprintf("10.3.%d.%d", i>>8, i&255)
			ports[i] = &proto.PortRange{First: int32(i + 1), Last: int32(i + 1)}
		}
		ipChunks := policysets.SplitIPList(ips, chunk)
		var back []string
		for ci, c := range ipChunks {
			if len(c) > chunk || (len(c) == 0 && n != 0) {
				t.Fatalf("C30 violation: SplitIPList(%d entries, chunk %d): chunk #%d has %d entries (chunk sizes %v); an empty chunk is an unconstrained address field", n, chunk, ci, len(c), c30ChunkLens(ipChunks))
			}
			back = append(back, c...)
		}
		if !slices.Equal(back, ips) || (n == 0 && len(ipChunks) != 1) {
			t.Fatalf("C30 violation: SplitIPList(%d entries, chunk %d) does not reassemble to the list: chunk sizes %v", n, chunk, c30ChunkLens(ipChunks))
		}
		portChunks := policysets.SplitPortList(ports, chunk)
		var backP []*proto.PortRange
		var lens []int
		for _, c := range portChunks {
			lens = append(lens, len(c))
		}
		for ci, c := range portChunks {
			if len(c) > chunk || (len(c) == 0 && n != 0) {
				t.Fatalf("C30 violation: SplitPortList(%d entries, chunk %d): chunk #%d has %d entries (chunk sizes %v); an empty chunk is an unconstrained port field", n, chunk, ci, len(c), lens)
			}
			backP = append(backP, c...)
		}
		if !slices.Equal(backP, ports) || (n == 0 && len(portChunks) != 1) {
			t.Fatalf("C30 violation: SplitPortList(%d entries, chunk %d) does not reassemble to the list: chunk sizes %v", n, chunk, lens)
		}
		cls := "length-other"
		switch {
		case n == 0:
			cls = "length-0"
		case n%chunk == 0:
			cls = "length-exact-multiple-of-chunk"
		}
		rec.SizedCase(n == 0 || n%chunk == 0, fmt.Sprintf("%d/%d", chunk, n), n, func() any { return map[string]int{"chunk": chunk, "length": n} }, cls)
	})
}

func c30ChunkLens(chunks [][]string) []int {
	var out []int
	for _, c := range chunks {
		out = append(out, len(c))
	}
	return out
}

// ---------------------------------------------------------------------------------------
// Regression entries for findings.  TestVerifC30WindowsFlatteningFixed* are part of the unit's run
// pattern: the defects they pin were fixed in /repo (34281f3) and must stay fixed.
// TestVerifC30Known* is the confirm test of an open finding: it does not match the run pattern and
// FAILS while the finding reproduces.

func c30FixedScenario(tierA, def []*proto.Rule, ipp map[string][]string, ports []int) *c30Scenario {
	a := &c30PolDef{id: &proto.PolicyID{Name: "a", Kind: "GlobalNetworkPolicy"}, out: tierA}
	d := &c30PolDef{id: &proto.PolicyID{Name: "d", Kind: "GlobalNetworkPolicy"}, out: def}
	sc := &c30Scenario{sets: map[string][]string{}, ipp: ipp, features: hns.HNSAclFeatures{AclAddressLists: true, AclPortRanges: true}, portCands: ports}
	ep := &proto.WorkloadEndpoint{State: "active", Name: "c30wl", Ipv4Nets: []string{"10.65.0.2/32"}}
	if tierA != nil {
		sc.pols = append(sc.pols, a)
		ep.Tiers = append(ep.Tiers, &proto.TierInfo{Name: "tier-a", DefaultAction: "Deny", EgressPolicies: []*proto.PolicyID{a.id}})
	}
	sc.pols = append(sc.pols, d)
	ep.Tiers = append(ep.Tiers, &proto.TierInfo{Name: "default", DefaultAction: "Deny", EgressPolicies: []*proto.PolicyID{d.id}})
	sc.eps, sc.order = []*proto.WorkloadEndpoint{ep}, []int{0}
	return sc
}

var c30TCP = &proto.Protocol{NumberOrName: &proto.Protocol_Name{Name: "tcp"}}
var c30UDP = &proto.Protocol{NumberOrName: &proto.Protocol_Name{Name: "udp"}}

// Egress: tier-a passes TCP to port 80 to the next tier, the default tier allows TCP to port 80.
func TestVerifC30WindowsFlatteningFixedCombinePortsSharedMax(t *testing.T) {
	ev.Quiet()
	sc := c30FixedScenario(
		[]*proto.Rule{{RuleId: "a1", Action: "pass", Protocol: c30TCP, DstPorts: []*proto.PortRange{{First: 80, Last: 80}}}},
		[]*proto.Rule{{RuleId: "d1", Action: "allow", Protocol: c30TCP, DstPorts: []*proto.PortRange{{First: 80, Last: 80}}}},
		map[string][]string{}, []int{22, 80, 443})
	c30Check(t, sc, func(n int) int { return n })
}

// Egress: tier-a passes TCP to port 80, the default tier allows TCP to port 443: nothing else may be allowed.
func TestVerifC30WindowsFlatteningFixedCombinePortsEmptyIntersection(t *testing.T) {
	ev.Quiet()
	sc := c30FixedScenario(
		[]*proto.Rule{{RuleId: "a1", Action: "pass", Protocol: c30TCP, DstPorts: []*proto.PortRange{{First: 80, Last: 80}}}},
		[]*proto.Rule{{RuleId: "d1", Action: "allow", Protocol: c30TCP, DstPorts: []*proto.PortRange{{First: 443, Last: 443}}}},
		map[string][]string{}, []int{22, 80, 443})
	c30Check(t, sc, func(n int) int { return n })
}

// Egress: allow UDP to a service whose only port is TCP/80: TCP/80 to the service must not be allowed.
func TestVerifC30KnownIPPortSetOtherCriteria(t *testing.T) {
	ev.Quiet()
	sc := c30FixedScenario(nil,
		[]*proto.Rule{{RuleId: "d1", Action: "allow", Protocol: c30UDP, DstIpPortSetIds: []string{"svc"}}},
		map[string][]string{"svc": {"10.0.0.1,tcp:80"}}, []int{53, 80})
	c30Check(t, sc, func(n int) int { return n })
}
