package iptables_test

// C15 — iptables sync converges and leaves other software's rules alone.
//
// The real felix/iptables.Table is driven through generated histories against the ktsim
// iptables-save/iptables-restore simulator (atomic commits, generated starting tables with
// foreign chains/rules, stale Felix chains under every historic prefix, misplaced/duplicated/
// hash-less Felix hook rules, optionally a previous Felix's programmed state, later corrupted).
// After every Apply() that returns:
//   (always)  every rule/chain Felix does not own is unchanged and in its original order;
//   (if Felix read the table after the last out-of-band edit)
//     1. every desired (defined and referenced) Felix chain holds exactly the desired rules in
//        order, each carrying the hash comment CalculateRuleHashes gives;
//     2. Felix's hook rules sit in the kernel chains exactly once, at the top (insert mode) or
//        after the foreign rules (append mode), in configured order, AppendRules rules last;
//     3. no other chain with a Felix prefix and no other Felix-marked rule exists anywhere;
//     5. a chain whose desired content and kernel content are both unchanged since the last
//        such verified Apply was not touched by any committed restore line.
// An Apply that gives up (panics) is accepted only if the harness injected enough failures.

import (
	"fmt"
	"regexp"
	"sort"
	"strings"
	"testing"
	"time"

	"pgregory.net/rapid"

	"github.com/projectcalico/calico/felix/environment"
	"github.com/projectcalico/calico/felix/generictables"
	"github.com/projectcalico/calico/felix/iptables"
	"github.com/projectcalico/calico/verifkit/ev"
	"github.com/projectcalico/calico/verifkit/ktsim"
)

type c15NoopRecorder struct{}

func (c15NoopRecorder) RecordOperation(string) {}

// Same values felix/dataplane/linux passes (rulesdefs.AllHistoricChainNamePrefixes,
// rulesdefs.RuleHashPrefix, rules.HistoricInsertedNATRuleRegex for the nat table).
var c15HistoricPrefixes = []string{"cali-", "califw-", "calitw-", "califh-", "calith-", "calipi-", "calipo-", "felix-"}

const c15HashPrefix = "cali:"
const c15NATCleanupRegex = `-A POSTROUTING .* felix-masq-ipam-pools .*|` +
	`-A POSTROUTING -o tunl0 -m addrtype ! --src-type LOCAL --limit-iface-out -m addrtype --src-type LOCAL -j MASQUERADE`

var c15KernelChains = map[string][]string{
	"filter": {"INPUT", "FORWARD", "OUTPUT"},
	"nat":    {"PREROUTING", "INPUT", "OUTPUT", "POSTROUTING"},
	"mangle": {"PREROUTING", "INPUT", "FORWARD", "OUTPUT", "POSTROUTING"},
	"raw":    {"PREROUTING", "OUTPUT"},
}

// Felix chain universe; a chain may only jump to chains later in this list (no loops).
var c15Chains = []string{"cali-FORWARD", "cali-INPUT", "cali-fw-wl1", "cali-tw-wl1", "cali-pi-_pol1", "cali-po-_pol1"}

var c15HashCommentRe = regexp.MustCompile(`-m comment --comment "?cali:([a-zA-Z0-9_-]+)"? ?`)
var c15OwnedJumpRe = regexp.MustCompile(`(?:^| )-j (cali-|califw-|calitw-|califh-|calith-|calipi-|calipo-|felix-)`)
var c15NATOldRe = regexp.MustCompile(c15NATCleanupRegex)

func c15OwnedChain(name string) bool {
	for _, p := range c15HistoricPrefixes {
		if strings.HasPrefix(name, p) {
			return true
		}
	}
	return false
}

// c15OwnedRule: is a rule sitting in a chain Felix does not own one of Felix's (hash comment,
// jump to a Felix-prefixed chain, or — nat table — the documented historic masquerade rules)?
func c15OwnedRule(table, chain, rule string) bool {
	if c15HashCommentRe.MatchString(rule) || c15OwnedJumpRe.MatchString(rule) {
		return true
	}
	if table == "nat" && c15NATOldRe.MatchString("-A "+chain+" "+rule) {
		return true
	}
	return false
}

type c15RuleSpec struct {
	Match   int
	Action  int
	Target  string // for jump/goto
	Comment string
	Prefix  string // LOG prefix (action 7)
}

func (r c15RuleSpec) String() string {
	return fmt.Sprintf("m%d/a%d%s%s/%q", r.Match, r.Action, r.Target, r.Prefix, r.Comment)
}

func c15BuildRule(r c15RuleSpec) generictables.Rule {
	var m generictables.MatchCriteria
	switch r.Match {
	case 0:
		m = nil
	case 1:
		m = iptables.Match().Protocol("tcp")
	case 2:
		m = iptables.Match().SourceNet("10.0.0.0/24")
	case 3:
		m = iptables.Match().InInterface("cali+")
	case 4:
		m = iptables.Match().MarkSingleBitSet(0x10)
	case 5:
		m = iptables.Match().Protocol("tcp").DestPorts(80, 443)
	case 6:
		m = iptables.Match().ConntrackState("RELATED,ESTABLISHED")
	case 7:
		m = iptables.Match().NotSourceNet("192.168.0.0/16").SourceIPSet("cali40s:abcdef")
	case 8:
		m = iptables.Match().OutInterface("eth0").NotProtocol("udp")
	}
	var a generictables.Action
	switch r.Action {
	case 0:
		a = iptables.AcceptAction{}
	case 1:
		a = iptables.DropAction{}
	case 2:
		a = iptables.ReturnAction{}
	case 3:
		a = iptables.JumpAction{Target: r.Target}
	case 4:
		a = iptables.GotoAction{Target: r.Target}
	case 5:
		a = iptables.SetMarkAction{Mark: 0x10}
	case 6:
		a = nil // match-only rule (counts packets)
	case 7:
		a = iptables.LogAction{Prefix: r.Prefix}
	}
	rule := generictables.Rule{Match: m, Action: a}
	if r.Comment != "" {
		rule.Comment = []string{r.Comment}
	}
	return rule
}

type c15ChainSpec struct {
	Rules []c15RuleSpec
	Force bool
}

type c15Model struct {
	chains  map[string]c15ChainSpec    // defined Felix chains
	inserts map[string][]c15RuleSpec // kernel chain -> InsertOrAppendRules
	appends map[string][]c15RuleSpec // kernel chain -> AppendRules
}

func c15NewModel() *c15Model {
	return &c15Model{chains: map[string]c15ChainSpec{}, inserts: map[string][]c15RuleSpec{}, appends: map[string][]c15RuleSpec{}}
}

// reachable returns the defined chains that are referenced (transitively) from a hook rule or
// that are force-programmed: exactly the chains Felix is documented to program.
func (m *c15Model) reachable() map[string]bool {
	seen := map[string]bool{}
	var visit func(c string)
	visit = func(c string) {
		if seen[c] {
			return
		}
		spec, ok := m.chains[c]
		if !ok {
			return
		}
		seen[c] = true
		for _, r := range spec.Rules {
			if r.Target != "" {
				visit(r.Target)
			}
		}
	}
	for _, rs := range m.inserts {
		for _, r := range rs {
			if r.Target != "" {
				visit(r.Target)
			}
		}
	}
	for _, rs := range m.appends {
		for _, r := range rs {
			if r.Target != "" {
				visit(r.Target)
			}
		}
	}
	for c, spec := range m.chains {
		if spec.Force {
			visit(c)
		}
	}
	return seen
}

// referenced reports whether any defined chain or hook mentions c.
func (m *c15Model) referenced(c string) bool {
	for _, spec := range m.chains {
		for _, r := range spec.Rules {
			if r.Target == c {
				return true
			}
		}
	}
	for _, rs := range m.inserts {
		for _, r := range rs {
			if r.Target == c {
				return true
			}
		}
	}
	for _, rs := range m.appends {
		for _, r := range rs {
			if r.Target == c {
				return true
			}
		}
	}
	return false
}

type c15H struct {
	t        *rapid.T
	k        *ktsim.IptKernel
	table    string
	mode     string // insert | append
	backend  string
	refresh  time.Duration
	features environment.Features
	tbl      *iptables.Table
	model    *c15Model
	render   iptables.IptablesRenderer

	// foreign model: chain -> rules of chains Felix does not own (for kernel chains and foreign
	// chains: only the not-Felix-owned rules, in order).
	foreign map[string][]string

	extDirty        bool // an out-of-band edit happened since Felix last read the table
	sinceGoodFaults int  // injected failures / edits since the last verified apply
	restoreInjected int
	saveInjected    int
	raceFired       int // racing out-of-band edits that fired during the current Apply (each can fail one restore)

	good        map[string][]string // kernel snapshot right after the last verified apply
	goodDesired map[string]string   // desired content key per chain at that time
	haveGood    bool

	emptyChainDeletedOOB bool // an empty Felix chain was deleted out-of-band since the last verified apply

	ops        []string
	classes    map[string]bool
	nontrivial bool
}

func (h *c15H) tab() *ktsim.IptTable { return h.k.Tables[h.table] }

// renderSpec gives the canonical kernel text of a rule, hash comment included.
func (h *c15H) renderSpec(chain string, r c15RuleSpec, hash string) string {
	rule := c15BuildRule(r)
	line := h.render.RenderAppend(&rule, chain, hash, &h.features)
	spec := strings.TrimPrefix(line, "-A "+chain)
	canon, _, err := ktsim.NormIptRule(spec)
	if err != nil {
		h.t.Fatalf("HARNESS-GAP: cannot canonicalise rendered rule %q: %v", line, err)
	}
	return canon
}

func c15StripHash(rule string) string {
	return strings.TrimSpace(c15HashCommentRe.ReplaceAllString(rule+" ", ""))
}

func c15BuildRules(rs []c15RuleSpec) []generictables.Rule {
	out := make([]generictables.Rule, 0, len(rs))
	for _, r := range rs {
		out = append(out, c15BuildRule(r))
	}
	return out
}

// expectedRules: exact expected kernel rules of a defined Felix chain.
func (h *c15H) expectedRules(c string) []string {
	spec := h.model.chains[c]
	hashes := iptables.CalculateRuleHashes(c, c15BuildRules(spec.Rules), &h.features)
	rules := []string{}
	for i, r := range spec.Rules {
		rules = append(rules, h.renderSpec(c, r, hashes[i]))
	}
	return rules
}

// expectedFelixChains: chain -> exact expected kernel rules, for the chains that must exist.
func (h *c15H) expectedFelixChains() map[string][]string {
	out := map[string][]string{}
	for c := range h.model.reachable() {
		out[c] = h.expectedRules(c)
	}
	return out
}

// hookKey is the desired hook content of a kernel chain, as text without hashes.
func (h *c15H) hookTexts(kc string) (ins, app []string) {
	for _, r := range h.model.inserts[kc] {
		ins = append(ins, c15StripHash(h.renderSpec(kc, r, "XXXXXXXXXXXXXXXX")))
	}
	for _, r := range h.model.appends[kc] {
		app = append(app, c15StripHash(h.renderSpec(kc, r, "XXXXXXXXXXXXXXXX")))
	}
	return
}

func (h *c15H) desiredKeys() map[string]string {
	out := map[string]string{}
	for c, rules := range h.expectedFelixChains() {
		out[c] = strings.Join(rules, "\n")
	}
	for _, kc := range c15KernelChains[h.table] {
		ins, app := h.hookTexts(kc)
		out[kc] = strings.Join(ins, "\n") + "\n--\n" + strings.Join(app, "\n")
	}
	return out
}

func (h *c15H) dump() string {
	return h.k.SaveOutput(h.table)
}

func (h *c15H) trace() string {
	lo := len(h.k.Log) - 50
	if lo < 0 {
		lo = 0
	}
	var b strings.Builder
	for _, e := range h.k.Log[lo:] {
		fmt.Fprintf(&b, "\n    %s#%d:%d [%s committed=%v] %q", e.Cmd, e.CmdSeq, e.LineNo, e.Kind, e.Committed, e.Line)
		if e.Err != "" {
			fmt.Fprintf(&b, " ERR(%s) %s", e.Cause, e.Err)
		}
	}
	return b.String()
}

func (h *c15H) fail(format string, a ...any) {
	h.t.Fatalf("%s\nconfig: table=%s insertMode=%s backend=%s refresh=%v\nops=%v\nkernel table now:\n%s\nlast events:%s",
		fmt.Sprintf(format, a...), h.table, h.mode, h.backend, h.refresh, h.ops, h.dump(), h.trace())
}

// checkForeign: everything Felix does not own is unchanged, in order.
func (h *c15H) checkForeign(when string) {
	tab := h.tab()
	for _, c := range tab.ChainNames() {
		if c15OwnedChain(c) {
			continue
		}
		want, ok := h.foreign[c]
		if !ok {
			h.fail("%s: chain %s, which Felix does not own, appeared", when, c)
		}
		var got []string
		for _, r := range tab.Chains[c].Rules {
			if !c15OwnedRule(h.table, c, r) {
				got = append(got, r)
			}
		}
		if strings.Join(got, "\n") != strings.Join(want, "\n") {
			h.fail("%s: rules not owned by Felix in chain %s changed:\n now: %q\n was: %q", when, c, got, want)
		}
	}
	for c := range h.foreign {
		if _, ok := tab.Chains[c]; !ok {
			h.fail("%s: chain %s, which Felix does not own, was deleted", when, c)
		}
	}
}

// checkExact: oracle parts 1-3.
func (h *c15H) checkExact(when string) {
	tab := h.tab()
	want := h.expectedFelixChains()
	names := make([]string, 0, len(want))
	for c := range want {
		names = append(names, c)
	}
	sort.Strings(names)
	for _, c := range names {
		ch, ok := tab.Chains[c]
		if !ok {
			h.fail("%s: desired Felix chain %s is missing", when, c)
		}
		if strings.Join(ch.Rules, "\n") != strings.Join(want[c], "\n") {
			h.fail("%s: Felix chain %s differs from the desired rules:\n kernel:  %q\n desired: %q", when, c, ch.Rules, want[c])
		}
	}
	for _, c := range tab.ChainNames() {
		if c15OwnedChain(c) {
			if _, ok := want[c]; ok {
				continue
			}
			// A chain that was handed to the Table but is not referenced need not be programmed
			// (documented optimisation); the property does not say it must be absent, only that a
			// Felix-owned chain that exists holds exactly its desired rules.
			if _, defined := h.model.chains[c]; !defined {
				h.fail("%s: chain %s has a Felix prefix but is not part of the desired state; it should have been removed", when, c)
			}
			h.classes["unreferenced-chain-programmed"] = true
			if exp := h.expectedRules(c); strings.Join(tab.Chains[c].Rules, "\n") != strings.Join(exp, "\n") {
				h.fail("%s: Felix chain %s (defined, not referenced) differs from its desired rules:\n kernel:  %q\n desired: %q", when, c, tab.Chains[c].Rules, exp)
			}
			continue
		}
		ins, app := h.hookTexts(c) // empty for non-kernel chains
		rules := tab.Chains[c].Rules
		var ownedIdx []int
		for i, r := range rules {
			if c15OwnedRule(h.table, c, r) {
				ownedIdx = append(ownedIdx, i)
			}
		}
		if len(ownedIdx) != len(ins)+len(app) {
			h.fail("%s: chain %s holds %d Felix-marked rules, want %d inserted + %d appended hook rules: %q", when, c, len(ownedIdx), len(ins), len(app), rules)
		}
		nForeign := len(rules) - len(ownedIdx)
		for j, txt := range ins {
			pos := j
			if h.mode == "append" {
				pos = nForeign + j
			}
			h.checkHookAt(when, c, rules, pos, txt)
		}
		for j, txt := range app {
			h.checkHookAt(when, c, rules, nForeign+len(ins)+j, txt)
		}
	}
}

func (h *c15H) checkHookAt(when, c string, rules []string, pos int, wantTxt string) {
	if pos >= len(rules) {
		h.fail("%s: chain %s too short for hook rule at position %d: %q", when, c, pos+1, rules)
	}
	got := rules[pos]
	m := c15HashCommentRe.FindAllStringSubmatch(got, -1)
	if len(m) != 1 || len(m[0][1]) != generictables.HashLength {
		h.fail("%s: rule %d of chain %s should be Felix's hook rule %q with exactly one %d-char hash comment, found %q", when, pos+1, c, wantTxt, generictables.HashLength, got)
	}
	if c15StripHash(got) != wantTxt {
		h.fail("%s: rule %d of chain %s should be Felix's hook rule %q (insert mode %q), found %q; chain: %q", when, pos+1, c, wantTxt, h.mode, got, rules)
	}
}

func (h *c15H) newTable() {
	opts := iptables.TableOptions{
		HistoricChainPrefixes: c15HistoricPrefixes,
		InsertMode:            h.mode,
		RefreshInterval:       h.refresh,
		PostWriteInterval:     50 * time.Millisecond,
		BackendMode:           h.backend,
		NewCmdOverride:        h.k.NewCmd,
		SleepOverride:         h.k.Sleep,
		NowOverride:           h.k.Now,
		LookPathOverride:      h.k.LookPath,
		OpRecorder:            c15NoopRecorder{},
	}
	if h.table == "nat" {
		opts.ExtraCleanupRegexPattern = c15NATCleanupRegex
	}
	h.tbl = iptables.NewTable(h.table, 4, c15HashPrefix, &environment.FakeFeatureDetector{Features: h.features}, opts)
}

// sendModel replays the model's desired state into the (new) Table.
func (h *c15H) sendModel() {
	names := make([]string, 0, len(h.model.chains))
	for c := range h.model.chains {
		names = append(names, c)
	}
	sort.Strings(names)
	for _, c := range names {
		spec := h.model.chains[c]
		h.tbl.UpdateChain(&generictables.Chain{Name: c, Rules: c15BuildRules(spec.Rules), ForceProgramming: spec.Force})
	}
	for _, kc := range c15KernelChains[h.table] {
		if rs, ok := h.model.inserts[kc]; ok {
			h.tbl.InsertOrAppendRules(kc, c15BuildRules(rs))
		}
		if rs, ok := h.model.appends[kc]; ok {
			h.tbl.AppendRules(kc, c15BuildRules(rs))
		}
	}
}

func (h *c15H) observe(k *ktsim.IptKernel, e *ktsim.IptEvent) {
	switch e.Cmd {
	case "save":
		if e.Err == "" {
			h.extDirty = false
		} else if e.Cause == "injected" {
			h.saveInjected++
			h.sinceGoodFaults++
		}
	case "restore":
		if e.Kind == "error" && e.Cause == "injected" {
			h.restoreInjected++
			h.sinceGoodFaults++
		}
	}
}

// apply runs Table.Apply(); returns false if Felix gave up (panicked) legitimately.
func (h *c15H) apply(label string) bool {
	h.ops = append(h.ops, label)
	pre := h.tab().Snapshot()
	desired := h.desiredKeys()
	mustNotTouch := map[string]bool{}
	if h.haveGood {
		for c, key := range desired {
			gk, ok := h.goodDesired[c]
			if !ok || gk != key {
				continue
			}
			gr, ok1 := h.good[c]
			pr, ok2 := pre[c]
			// (an empty chain has nothing that could be rewritten)
			if ok1 && ok2 && len(pr) > 0 && strings.Join(gr, "\n") == strings.Join(pr, "\n") {
				mustNotTouch[c] = true
			}
		}
	}
	h.restoreInjected, h.saveInjected, h.raceFired = 0, 0, 0
	logStart := len(h.k.Log)
	var pv any
	func() {
		defer func() { pv = recover() }()
		h.tbl.Apply()
	}()
	if len(h.k.Gaps) > 0 {
		h.t.Fatalf("HARNESS-GAP: simulator could not interpret: %v", h.k.Gaps)
	}
	// Whatever happened, other software's rules must be intact, and untouched chains untouched.
	h.checkForeign("after Apply (" + label + ")")
	for _, e := range h.k.Log[logStart:] {
		if e.Cmd == "external" && e.Committed {
			delete(mustNotTouch, e.Chain) // edited by a racing program during this Apply
		}
	}
	for _, e := range h.k.Log[logStart:] {
		if e.Cmd == "restore" && e.Committed && e.Kind != "commit" && mustNotTouch[e.Chain] {
			h.fail("Apply rewrote chain %s (line %q) although neither its desired content nor its kernel content changed since the last verified Apply", e.Chain, e.Line)
		}
	}
	if pv != nil {
		msg := fmt.Sprint(pv)
		if e, ok := pv.(interface{ String() (string, error) }); ok {
			if s, err := e.String(); err == nil {
				msg = s
			}
		}
		gaveUp := strings.Contains(msg, "giving up after retries") || strings.Contains(msg, "command failed after retries")
		if !gaveUp {
			panic(pv)
		}
		// Felix retries a failed restore 10 times and a failed save 3 times.  Every injected
		// failure and every racing edit can account for one failed restore.
		if h.restoreInjected+h.raceFired < 10 && h.saveInjected < 4 {
			h.fail("Apply gave up (%s) although only %d restore failures, %d racing edits and %d save failures were injected during the call", msg, h.restoreInjected, h.raceFired, h.saveInjected)
		}
		h.classes["gave-up-panic"] = true
		h.haveGood = false
		h.newTable()
		h.sendModel()
		h.ops = append(h.ops, "PANIC")
		return false
	}
	if h.extDirty {
		// Felix legitimately works from a cached view that an out-of-band edit made stale.
		h.classes["apply-with-stale-view"] = true
		h.haveGood = false
		return true
	}
	h.checkExact("after Apply (" + label + ")")
	if strings.Contains(h.dump(), "%") && h.desiredHasPercent() {
		h.classes["verified-apply-with-percent-rule"] = true
	}
	if h.emptyChainDeletedOOB {
		h.classes["empty-chain-deleted-oob-then-resync"] = true
		h.emptyChainDeletedOOB = false
	}
	if h.sinceGoodFaults > 0 && h.foreignRuleCount() > 0 {
		h.nontrivial = true
	}
	h.sinceGoodFaults = 0
	h.good = h.tab().Snapshot()
	h.goodDesired = desired
	h.haveGood = true
	h.classes["verified-apply"] = true
	if len(mustNotTouch) > 0 {
		h.classes["no-rewrite-checked"] = true
	}
	return true
}

// desiredHasPercent: some rule Felix must program (reachable chain or hook) contains '%'.
func (h *c15H) desiredHasPercent() bool {
	has := func(rs []c15RuleSpec) bool {
		for _, r := range rs {
			if strings.Contains(r.Comment, "%") || strings.Contains(r.Prefix, "%") {
				return true
			}
		}
		return false
	}
	for c := range h.model.reachable() {
		if has(h.model.chains[c].Rules) {
			return true
		}
	}
	for _, rs := range h.model.inserts {
		if has(rs) {
			return true
		}
	}
	for _, rs := range h.model.appends {
		if has(rs) {
			return true
		}
	}
	return false
}

func (h *c15H) foreignRuleCount() int {
	n := 0
	for _, rs := range h.foreign {
		n += len(rs)
	}
	return n
}

// external performs an out-of-band edit now (restore-grammar lines, atomic).
func (h *c15H) external(lines ...string) bool {
	if err := h.k.External(h.table, lines...); err != nil {
		return false
	}
	h.extDirty = true
	h.sinceGoodFaults++
	h.refreshForeign()
	return true
}

// refreshForeign recomputes the foreign model from the kernel (only called right after the
// harness itself edited the table).
func (h *c15H) refreshForeign() {
	h.foreign = map[string][]string{}
	tab := h.tab()
	for _, c := range tab.ChainNames() {
		if c15OwnedChain(c) {
			continue
		}
		rs := []string{}
		for _, r := range tab.Chains[c].Rules {
			if !c15OwnedRule(h.table, c, r) {
				rs = append(rs, r)
			}
		}
		h.foreign[c] = rs
	}
}

var c15Comments = []string{"", "", "Policy pol1 ingress", "weird \"quoted\" $comment",
	"sample 100% of traffic", "rate=%d/%s x%%y", "50%", "a+b=c,d:e/f-g @h %v"}

var c15LogPrefixes = []string{"calico-packet", "fw%d", "drop 100%", "cali %t %k"}

var c15ForeignRules = []string{
	`-m comment --comment "kube 100% of %s" -j ACCEPT`,
	`-p udp -j LOG --log-prefix "other \"app\" %d \\ x: "`,
	`-s 10.1.0.0/16 -j ACCEPT`,
	`-m comment --comment "kube rule" -j KUBE-FORWARD`,
	`-p tcp -m tcp --dport 22 -j DROP`,
	`-m comment --comment "xcali:notours" -j RETURN`,
	`-m comment --comment "not cali:abcdef" -j ACCEPT`,
	`-j calico-dhcp-in`,
	`-i docker0 -j DOCKER`,
	`-m mark --mark 0x1/0x1 -j RETURN`,
}

func (h *c15H) drawRule(t *rapid.T, selfIdx int, forHook bool) c15RuleSpec {
	r := c15RuleSpec{Match: rapid.IntRange(0, 8).Draw(t, "match")}
	var targets []string
	for i, c := range c15Chains {
		if i > selfIdx {
			if _, ok := h.model.chains[c]; ok {
				targets = append(targets, c)
			}
		}
	}
	wantJump := rapid.IntRange(0, 2).Draw(t, "wantJump") > 0 || forHook
	if wantJump && len(targets) > 0 {
		r.Action = 3
		if !forHook && rapid.IntRange(0, 3).Draw(t, "goto") == 0 {
			r.Action = 4
		}
		r.Target = rapid.SampledFrom(targets).Draw(t, "target")
	} else {
		r.Action = rapid.SampledFrom([]int{0, 1, 2, 5, 6, 7}).Draw(t, "action")
		if r.Action == 6 && r.Match == 0 {
			r.Action = 0
		}
		if r.Action == 7 {
			// The log prefix comes from configuration (LogPrefix); unknown %-specifiers are passed
			// through verbatim by the rule renderer, spaces are legal inside the quoted prefix.
			r.Prefix = rapid.SampledFrom(c15LogPrefixes).Draw(t, "logPrefix")
		}
	}
	// Rule comments: anything goes in, escapeComment() keeps [\w @%+=:,./-] and replaces the rest.
	r.Comment = rapid.SampledFrom(c15Comments).Draw(t, "comment")
	if strings.Contains(r.Comment, "%") || strings.Contains(r.Prefix, "%") {
		h.classes["desired-rule-with-percent"] = true
	}
	return r
}

func TestVerifC15IptablesSync(t *testing.T) {
	ev.Quiet()
	rec := ev.New("C15", "iptables",
		"rapid state machine over felix/iptables.Table on the ktsim iptables-save/restore simulator: generated table (filter/nat/mangle/raw), insert mode, backend mode, refresh interval; starting kernel with foreign chains and rules, stale Felix chains under historic prefixes, misplaced/duplicated/hash-less Felix hook rules, optionally the state a previous Felix programmed (then corrupted); ops UpdateChain/RemoveChainByName/InsertOrAppendRules/AppendRules, Apply, clock advance, out-of-band edits (now, or racing between Felix's save and restore), injected save/restore failures, InvalidateDataplaneCache, restart. Non-trivial = a verified Apply that follows >=1 injected failure or out-of-band edit with foreign rules present; distinct = op-kind sequence",
		"desired state is consistent at Apply time (every referenced chain is defined, no jump loops), as the Table API requires",
		"rules of other software never carry a comment starting with the Felix hash prefix and never jump to a chain with a Felix prefix (that is how Felix recognises its own rules)",
		"rule text is opaque to the simulator except for jump/goto targets and canonical option spelling")
	defer rec.Write()
	rapid.Check(t, func(t *rapid.T) {
		h := &c15H{t: t, classes: map[string]bool{}, model: c15NewModel()}
		h.table = rapid.SampledFrom([]string{"filter", "filter", "filter", "nat", "mangle", "raw"}).Draw(t, "table")
		h.mode = rapid.SampledFrom([]string{"insert", "insert", "append"}).Draw(t, "insertMode")
		h.backend = rapid.SampledFrom([]string{"legacy", "legacy", "nft"}).Draw(t, "backend")
		h.refresh = rapid.SampledFrom([]time.Duration{0, 10 * time.Second, 90 * time.Second}).Draw(t, "refreshInterval")
		h.features = environment.Features{RestoreSupportsLock: rapid.Bool().Draw(t, "restoreLock"), MASQFullyRandom: true}
		h.render = iptables.NewIptablesRenderer(c15HashPrefix)
		h.k = ktsim.NewIptKernel()
		h.k.CmdCost = rapid.SampledFrom([]time.Duration{0, time.Millisecond, 30 * time.Millisecond}).Draw(t, "cmdCost")
		h.classes["table-"+h.table] = true
		h.classes["mode-"+h.mode] = true
		h.classes["backend-"+h.backend] = true
		kcs := c15KernelChains[h.table]

		// ---- starting kernel state -------------------------------------------------------
		var start []string
		start = append(start, ":KUBE-FORWARD - -", ":DOCKER - -", ":calico-dhcp-in - -")
		if rapid.Bool().Draw(t, "foreignChainRules") {
			start = append(start, "-A KUBE-FORWARD -m conntrack --ctstate INVALID -j DROP", "-A DOCKER -j RETURN",
				"-A calico-dhcp-in -p udp -m udp --dport 67 -j ACCEPT")
			h.classes["start-foreign-chain-rules"] = true
		}
		if rapid.Bool().Draw(t, "fcali") {
			start = append(start, ":fcali-x - -", "-A fcali-x -j ACCEPT", "-A DOCKER -j fcali-x")
		}
		staleChains := []string{}
		for _, sc := range []string{"cali-stale1", "cali-stale2", "califw-old", "calipo-xyz", "felix-FORWARD", "calith-a"} {
			if rapid.IntRange(0, 2).Draw(t, "stale:"+sc) == 0 {
				start = append(start, ":"+sc+" - -")
				staleChains = append(staleChains, sc)
				h.classes["start-stale-chain"] = true
				if !strings.HasPrefix(sc, "cali-") {
					h.classes["start-stale-historic-prefix"] = true
				}
			}
		}
		for i, sc := range staleChains {
			n := rapid.IntRange(0, 2).Draw(t, "staleRules")
			for j := 0; j < n; j++ {
				rule := fmt.Sprintf(`-A %s -m comment --comment "cali:STALEhash%02d%02dxxxx" -j ACCEPT`, sc, i, j)
				if j == 1 && i+1 < len(staleChains) {
					rule = fmt.Sprintf(`-A %s -j %s`, sc, staleChains[i+1]) // stale chains referencing each other
				}
				start = append(start, rule)
			}
		}
		for _, kc := range kcs {
			n := rapid.IntRange(0, 3).Draw(t, "nStart:"+kc)
			for j := 0; j < n; j++ {
				kind := rapid.IntRange(0, 11).Draw(t, "startRuleKind")
				switch {
				case kind <= 5:
					start = append(start, "-A "+kc+" "+rapid.SampledFrom(c15ForeignRules).Draw(t, "foreignRule"))
					h.classes["start-foreign-rule"] = true
				case kind == 6 && len(staleChains) > 0:
					// hook rule of an earlier Felix with a hash we will not compute
					start = append(start, fmt.Sprintf(`-A %s -m comment --comment "cali:OLDHOOK%09d" -j %s`, kc, j, staleChains[0]))
					h.classes["start-stale-hook-hashed"] = true
				case kind == 7 && len(staleChains) > 0:
					// pre-hash Felix hook rule: recognised only by its jump to a Felix-prefixed chain
					start = append(start, fmt.Sprintf(`-A %s -j %s`, kc, staleChains[len(staleChains)-1]))
					h.classes["start-stale-hook-hashless"] = true
				case kind == 8:
					// a Felix-marked rule that is not a jump (e.g. an old mark/accept rule)
					start = append(start, fmt.Sprintf(`-A %s -m comment --comment "cali:MISCrule%08d" -m mark --mark 0x10/0x10 -j ACCEPT`, kc, j))
					h.classes["start-stale-hook-hashed"] = true
				case kind == 10:
					// Felix-marked rules of an earlier, differently configured Felix whose text contains
					// characters that mean something to fmt / shells / iptables-save quoting.
					start = append(start, fmt.Sprintf(`-A %s -m comment --comment "cali:PCTHOOK%09d" -m comment --comment "sample 100%% of %%s traffic" -j ACCEPT`, kc, j))
					h.classes["start-stale-hook-with-percent"] = true
				case kind == 11:
					start = append(start, fmt.Sprintf(`-A %s -m comment --comment "cali:QUOTEHK%09d" -j LOG --log-prefix "old \"fw\" %%d \\ x: " --log-level 5`, kc, j))
					h.classes["start-stale-hook-with-quotes"] = true
				case kind == 9 && h.table == "nat" && kc == "POSTROUTING":
					start = append(start, `-A POSTROUTING -o tunl0 -m addrtype ! --src-type LOCAL --limit-iface-out -m addrtype --src-type LOCAL -j MASQUERADE`)
					h.classes["start-historic-nat-rule"] = true
				}
			}
		}
		if len(staleChains) > 0 && rapid.Bool().Draw(t, "hookInForeignChain") {
			start = append(start, fmt.Sprintf(`-A KUBE-FORWARD -m comment --comment "cali:INFOREIGNCHAIN01" -j %s`, staleChains[0]))
			h.classes["start-felix-rule-in-foreign-chain"] = true
		}
		h.k.MustExternal(h.table, start...)
		h.refreshForeign()

		// Optionally: a previous Felix programmed some state, which is then left as is or corrupted.
		if rapid.IntRange(0, 9).Draw(t, "previousFelix") < 6 {
			h.classes["start-previous-felix"] = true
			h.newTable()
			nch := rapid.IntRange(1, 4).Draw(t, "prevChains")
			for i := len(c15Chains) - 1; i >= len(c15Chains)-nch; i-- {
				c := c15Chains[i]
				n := rapid.IntRange(0, 3).Draw(t, "prevLen")
				spec := c15ChainSpec{}
				for j := 0; j < n; j++ {
					spec.Rules = append(spec.Rules, h.drawRule(t, i, false))
				}
				h.model.chains[c] = spec
			}
			for _, kc := range kcs {
				if rapid.Bool().Draw(t, "prevHook:"+kc) {
					h.model.inserts[kc] = []c15RuleSpec{h.drawRule(t, -1, true)}
				}
			}
			h.sendModel()
			h.apply("p") // the previous Felix's Apply is held to the same oracle
			if rapid.Bool().Draw(t, "forgetPrevious") {
				// The new Felix wants something else entirely (starts from an empty model).
				h.model = c15NewModel()
			}
		}
		h.k.Log = nil
		h.k.Observer = h.observe
		h.extDirty = false
		h.sinceGoodFaults = 0
		h.newTable()
		h.sendModel()

		felixChainsInKernel := func() []string {
			var out []string
			for _, c := range h.tab().ChainNames() {
				if c15OwnedChain(c) {
					out = append(out, c)
				}
			}
			return out
		}
		// pickEdit builds the restore lines of one out-of-band edit against the current kernel.
		pickEdit := func(t *rapid.T) (lines []string, class string) {
			tab := h.tab()
			kind := rapid.IntRange(0, 9).Draw(t, "editKind")
			fcs := felixChainsInKernel()
			switch {
			case kind == 0 && len(fcs) > 0: // delete a rule of a Felix chain
				c := rapid.SampledFrom(fcs).Draw(t, "chain")
				if n := len(tab.Chains[c].Rules); n > 0 {
					return []string{fmt.Sprintf("-D %s %d", c, rapid.IntRange(1, n).Draw(t, "ruleNum"))}, "ext-delete-felix-rule"
				}
			case kind == 1 && len(fcs) > 0: // foreign rule inserted into a Felix chain
				c := rapid.SampledFrom(fcs).Draw(t, "chain")
				return []string{fmt.Sprintf("-I %s %d -s 10.77.0.0/16 -j DROP", c, rapid.IntRange(1, len(tab.Chains[c].Rules)+1).Draw(t, "pos"))}, "ext-insert-into-felix-chain"
			case kind == 2 && len(fcs) > 0: // flush a Felix chain
				return []string{"-F " + rapid.SampledFrom(fcs).Draw(t, "chain")}, "ext-flush-felix-chain"
			case kind == 3 && len(fcs) > 0: // reorder: move last rule of a Felix chain to the top
				c := rapid.SampledFrom(fcs).Draw(t, "chain")
				if n := len(tab.Chains[c].Rules); n > 1 {
					return []string{fmt.Sprintf("-D %s %d", c, n), fmt.Sprintf("-I %s 1 %s", c, tab.Chains[c].Rules[n-1])}, "ext-reorder-felix-chain"
				}
			case kind == 4: // foreign rule added to a kernel chain, top / bottom
				kc := rapid.SampledFrom(kcs).Draw(t, "kernelChain")
				r := rapid.SampledFrom(c15ForeignRules).Draw(t, "foreignRule")
				if rapid.Bool().Draw(t, "top") {
					return []string{"-I " + kc + " 1 " + r}, "ext-foreign-rule-top"
				}
				return []string{"-A " + kc + " " + r}, "ext-foreign-rule-bottom"
			case kind == 5: // delete some rule of a kernel chain (Felix's hook or a foreign rule)
				kc := rapid.SampledFrom(kcs).Draw(t, "kernelChain")
				if n := len(tab.Chains[kc].Rules); n > 0 {
					return []string{fmt.Sprintf("-D %s %d", kc, rapid.IntRange(1, n).Draw(t, "ruleNum"))}, "ext-delete-kernel-chain-rule"
				}
			case kind == 6: // duplicate / move a Felix hook rule
				kc := rapid.SampledFrom(kcs).Draw(t, "kernelChain")
				for _, r := range tab.Chains[kc].Rules {
					if c15OwnedRule(h.table, kc, r) {
						return []string{"-A " + kc + " " + r}, "ext-duplicate-hook"
					}
				}
			case kind == 7: // tamper with a hash comment inside a Felix chain
				if len(fcs) > 0 {
					c := rapid.SampledFrom(fcs).Draw(t, "chain")
					if n := len(tab.Chains[c].Rules); n > 0 {
						i := rapid.IntRange(1, n).Draw(t, "ruleNum")
						nr := c15HashCommentRe.ReplaceAllString(tab.Chains[c].Rules[i-1]+" ", `-m comment --comment "cali:TAMPEREDhash0000" `)
						return []string{fmt.Sprintf("-R %s %d %s", c, i, nr)}, "ext-stale-hash"
					}
				}
			case kind == 9 && len(fcs) > 0:
				// Another tool deletes one of Felix's chains: it removes every rule that jumps to
				// it (the kernel refuses to delete a referenced chain), flushes it and deletes it.
				// Empty chains (empty dispatch chain, force-programmed empty policy chain) are preferred.
				var empty []string
				for _, c := range fcs {
					if len(tab.Chains[c].Rules) == 0 {
						empty = append(empty, c)
					}
				}
				pool, class := fcs, "ext-delete-felix-chain"
				if len(empty) > 0 && rapid.IntRange(0, 3).Draw(t, "preferEmpty") > 0 {
					pool, class = empty, "ext-delete-empty-felix-chain"
				}
				victim := rapid.SampledFrom(pool).Draw(t, "chain")
				if len(tab.Chains[victim].Rules) == 0 {
					class = "ext-delete-empty-felix-chain"
				}
				var lines []string
				for _, c := range tab.ChainNames() {
					rules := tab.Chains[c].Rules
					for i := len(rules) - 1; i >= 0; i-- {
						if ktsim.IptRuleTarget(rules[i]) == victim {
							lines = append(lines, fmt.Sprintf("-D %s %d", c, i+1))
						}
					}
				}
				lines = append(lines, "-F "+victim, "-X "+victim)
				return lines, class
			case kind == 8: // new foreign chain, or a new stale Felix chain
				if rapid.Bool().Draw(t, "felixLooking") {
					return []string{":cali-intruder - -", "-A cali-intruder -j ACCEPT"}, "ext-create-felix-prefixed-chain"
				}
				return []string{":OTHER-APP - -", "-A OTHER-APP -j RETURN"}, "ext-create-foreign-chain"
			}
			kc := rapid.SampledFrom(kcs).Draw(t, "kernelChain")
			return []string{"-A " + kc + " -s 10.88.0.0/16 -j ACCEPT"}, "ext-foreign-rule-bottom"
		}

		t.Repeat(map[string]func(*rapid.T){
			"updateChain": func(t *rapid.T) {
				i := rapid.IntRange(0, len(c15Chains)-1).Draw(t, "chainIdx")
				c := c15Chains[i]
				spec := c15ChainSpec{Force: rapid.IntRange(0, 5).Draw(t, "force") == 0}
				n := rapid.SampledFrom([]int{0, 0, 1, 2, 3, 4}).Draw(t, "len")
				if old, ok := h.model.chains[c]; ok && len(old.Rules) > 0 && rapid.Bool().Draw(t, "tweakOld") {
					// small delta to an existing chain: keep a prefix, change the rest
					keep := rapid.IntRange(0, len(old.Rules)).Draw(t, "keep")
					spec.Rules = append(spec.Rules, old.Rules[:keep]...)
				}
				for j := 0; j < n; j++ {
					spec.Rules = append(spec.Rules, h.drawRule(t, i, false))
				}
				h.model.chains[c] = spec
				h.tbl.UpdateChain(&generictables.Chain{Name: c, Rules: c15BuildRules(spec.Rules), ForceProgramming: spec.Force})
				h.ops = append(h.ops, "U")
			},
			"updateChainSame": func(t *rapid.T) {
				// Re-send a chain unchanged (callers do this all the time).
				names := make([]string, 0)
				for c := range h.model.chains {
					names = append(names, c)
				}
				if len(names) == 0 {
					t.Skip("no chains")
				}
				sort.Strings(names)
				c := rapid.SampledFrom(names).Draw(t, "chain")
				spec := h.model.chains[c]
				h.tbl.UpdateChain(&generictables.Chain{Name: c, Rules: c15BuildRules(spec.Rules), ForceProgramming: spec.Force})
				h.ops = append(h.ops, "u")
			},
			"removeChain": func(t *rapid.T) {
				var cands []string
				for c := range h.model.chains {
					if !h.model.referenced(c) {
						cands = append(cands, c)
					}
				}
				if len(cands) == 0 {
					t.Skip("no unreferenced chain")
				}
				sort.Strings(cands)
				c := rapid.SampledFrom(cands).Draw(t, "chain")
				delete(h.model.chains, c)
				h.tbl.RemoveChainByName(c)
				h.ops = append(h.ops, "X")
			},
			"setHooks": func(t *rapid.T) {
				kc := rapid.SampledFrom(kcs).Draw(t, "kernelChain")
				n := rapid.IntRange(0, 2).Draw(t, "n")
				var rs []c15RuleSpec
				for j := 0; j < n; j++ {
					rs = append(rs, h.drawRule(t, -1, rapid.IntRange(0, 3).Draw(t, "jumpHook") > 0))
				}
				h.model.inserts[kc] = rs
				h.tbl.InsertOrAppendRules(kc, c15BuildRules(rs))
				h.ops = append(h.ops, "H")
			},
			"setAppends": func(t *rapid.T) {
				kc := rapid.SampledFrom(kcs).Draw(t, "kernelChain")
				n := rapid.IntRange(0, 1).Draw(t, "n")
				var rs []c15RuleSpec
				for j := 0; j < n; j++ {
					rs = append(rs, h.drawRule(t, -1, rapid.Bool().Draw(t, "jumpHook")))
				}
				h.model.appends[kc] = rs
				h.tbl.AppendRules(kc, c15BuildRules(rs))
				h.classes["append-rules"] = true
				h.ops = append(h.ops, "P")
			},
			"apply": func(t *rapid.T) {
				h.apply("A")
			},
			"advanceTime": func(t *rapid.T) {
				d := rapid.SampledFrom([]time.Duration{10 * time.Millisecond, 60 * time.Millisecond, time.Second, 15 * time.Second, 2 * time.Minute, 3 * time.Hour}).Draw(t, "by")
				h.k.Advance(d)
				h.ops = append(h.ops, "t")
			},
			"externalEdit": func(t *rapid.T) {
				lines, class := pickEdit(t)
				if h.external(lines...) {
					h.classes[class] = true
					if class == "ext-delete-empty-felix-chain" {
						h.emptyChainDeletedOOB = true
					}
					h.ops = append(h.ops, "e")
				}
			},
			"raceEdit": func(t *rapid.T) {
				// Another program edits the table between Felix's save and its restore.
				lines, class := pickEdit(t)
				h.k.BeforeRestore = append(h.k.BeforeRestore, func() {
					h.raceFired++
					if h.external(lines...) {
						h.classes["race-"+class] = true
						if class == "ext-delete-empty-felix-chain" {
							h.emptyChainDeletedOOB = true
						}
					}
				})
				h.ops = append(h.ops, "r")
			},
			"injectRestoreFault": func(t *rapid.T) {
				kind := rapid.SampledFrom([]string{"commit", "commit", "run", "line"}).Draw(t, "kind")
				n := rapid.SampledFrom([]int{1, 1, 2, 5, 12}).Draw(t, "times")
				for i := 0; i < n; i++ {
					h.k.RestoreFaults = append(h.k.RestoreFaults, ktsim.IptFault{Kind: kind, At: rapid.IntRange(1, 6).Draw(t, "at")})
				}
				h.classes["fault-restore-"+kind] = true
				h.ops = append(h.ops, "f")
			},
			"injectSaveFault": func(t *rapid.T) {
				kind := rapid.SampledFrom([]string{"rc", "trunc", "read", "pipe", "start", "nft-incompat"}).Draw(t, "kind")
				n := rapid.SampledFrom([]int{1, 1, 2, 3, 5}).Draw(t, "times")
				for i := 0; i < n; i++ {
					h.k.SaveFaults = append(h.k.SaveFaults, ktsim.IptFault{Kind: kind, At: rapid.IntRange(0, 12).Draw(t, "at")})
				}
				h.classes["fault-save-"+kind] = true
				h.ops = append(h.ops, "s")
			},
			"invalidateCache": func(t *rapid.T) {
				h.tbl.InvalidateDataplaneCache("verif")
				h.ops = append(h.ops, "i")
			},
			"restart": func(t *rapid.T) {
				h.newTable()
				if rapid.Bool().Draw(t, "sameDesiredState") {
					h.classes["restart-same-desired"] = true
				} else {
					h.model = c15NewModel()
					h.classes["restart-empty-desired"] = true
				}
				h.sendModel()
				h.ops = append(h.ops, "Z")
			},
			"refreshApply": func(t *rapid.T) {
				// Force Felix to look at the table, then apply: everything must be exact afterwards.
				h.k.RestoreFaults, h.k.SaveFaults, h.k.BeforeRestore = nil, nil, nil
				h.tbl.InvalidateDataplaneCache("verif")
				if h.apply("C") {
					if h.extDirty {
						h.fail("Apply after InvalidateDataplaneCache returned without reading the table")
					}
					h.classes["refresh-apply"] = true
				}
			},
			"": func(t *rapid.T) {},
		})

		cls := make([]string, 0, len(h.classes))
		for c := range h.classes {
			cls = append(cls, c)
		}
		sort.Strings(cls)
		key := h.table + h.mode + h.backend + strings.Join(h.ops, "")
		rec.SizedCase(h.nontrivial, key, len(h.ops), func() any {
			return map[string]any{"table": h.table, "insert_mode": h.mode, "backend": h.backend, "ops": strings.Join(h.ops, ""),
				"classes": cls, "final_table": strings.Split(h.dump(), "\n")}
		}, cls...)
	})
}

// TestVerifC15RuleHashChaining checks the documented properties of the rule hashes the sync
// relies on for read-back: deterministic, fixed length, drawn from the character set the
// read-back regexp accepts, dependent on the chain name, and chained (a rule's hash changes
// when, and only when, the rule itself or a rule before it changes).
func TestVerifC15RuleHashChaining(t *testing.T) {
	ev.Quiet()
	rec := ev.New("C15", "hashes", "rapid: random chains of 1-6 rules from the rule pool; one position is altered; hashes before it must stay, hashes from it on must change; same rules under another chain name must hash differently. Non-trivial = altered position is not the last; distinct = (length, position)",
		"rule texts in the pool are pairwise different")
	defer rec.Write()
	hashRe := regexp.MustCompile(`^[a-zA-Z0-9_-]+$`)
	features := &environment.Features{}
	rapid.Check(t, func(t *rapid.T) {
		n := rapid.IntRange(1, 6).Draw(t, "len")
		specs := make([]c15RuleSpec, n)
		for i := range specs {
			specs[i] = c15RuleSpec{Match: rapid.IntRange(0, 8).Draw(t, "match"), Action: rapid.IntRange(0, 2).Draw(t, "action")}
		}
		name := rapid.SampledFrom(c15Chains).Draw(t, "chain")
		h1 := iptables.CalculateRuleHashes(name, c15BuildRules(specs), features)
		h1b := iptables.CalculateRuleHashes(name, c15BuildRules(specs), features)
		if len(h1) != n {
			t.Fatalf("got %d hashes for %d rules", len(h1), n)
		}
		for i := range h1 {
			if h1[i] != h1b[i] {
				t.Fatalf("hash %d not deterministic: %s vs %s", i, h1[i], h1b[i])
			}
			if len(h1[i]) != generictables.HashLength || !hashRe.MatchString(h1[i]) {
				t.Fatalf("hash %q is not %d characters of [a-zA-Z0-9_-] (read-back would not recognise it)", h1[i], generictables.HashLength)
			}
		}
		pos := rapid.IntRange(0, n-1).Draw(t, "alterPos")
		alt := append([]c15RuleSpec{}, specs...)
		alt[pos].Match = (alt[pos].Match + 1 + rapid.IntRange(0, 6).Draw(t, "delta")) % 9
		if alt[pos].Match == specs[pos].Match {
			alt[pos].Match = (alt[pos].Match + 1) % 9
		}
		h2 := iptables.CalculateRuleHashes(name, c15BuildRules(alt), features)
		for i := 0; i < n; i++ {
			if i < pos && h1[i] != h2[i] {
				t.Fatalf("altering rule %d changed the hash of earlier rule %d (%s -> %s)", pos, i, h1[i], h2[i])
			}
			if i >= pos && h1[i] == h2[i] {
				t.Fatalf("altering rule %d left the hash of rule %d unchanged (%s): hashes are documented to chain in the rules before them; specs=%v alt=%v", pos, i, h1[i], specs, alt)
			}
		}
		other := "cali-other-chain"
		h3 := iptables.CalculateRuleHashes(other, c15BuildRules(specs), features)
		for i := range h3 {
			if h3[i] == h1[i] {
				t.Fatalf("rule %d has the same hash %s in chains %s and %s", i, h1[i], name, other)
			}
		}
		rec.Case(pos < n-1, fmt.Sprintf("%d/%d", n, pos), func() any { return map[string]any{"len": n, "pos": pos, "hashes": h1} })
	})
}
