package calc_test

// C36 (unit iptrie) — felix/calc.IpTrie (iplpm.go, an anchor file of the property): exact lookups
// and longest-prefix matches agree with plain prefix arithmetic over the stored prefixes.
//
// IpTrie stores (CIDR, key) pairs.  "The stored prefixes" is read as the *set* of pairs that were
// inserted and not deleted since: inserting a pair that is already stored changes nothing,
// deleting a pair that is not stored changes nothing.  (The production caller,
// NetworkSetLookupsCache, never re-inserts a stored pair and never deletes an absent one; the
// set reading is what the exported API and its name-based de-duplication in InsertKey imply.)
//
// Oracle: map[prefix]set(key) + net/netip arithmetic:
//   - GetKeys(cidr): ok exactly when a pair with that CIDR is stored; the keys, each once;
//   - GetLongestPrefixCidr(addr) (doc comment): the longest stored CIDR containing addr, and of
//     its keys the one whose String() sorts lowest; not found when no stored CIDR contains addr;
//   - GetLongestPrefixCidrWithNamespaceIsolation(addr, ns) (doc comment): the same choice made in
//     the first non-empty class of 1) keys in namespace ns (if ns != ""), 2) global keys,
//     3) keys of any other namespace.

import (
	"fmt"
	"net/netip"
	"sort"
	"strings"
	"testing"

	"pgregory.net/rapid"

	"github.com/projectcalico/calico/felix/calc"
	"github.com/projectcalico/calico/felix/ip"
	"github.com/projectcalico/calico/libcalico-go/lib/backend/model"
	"github.com/projectcalico/calico/verifkit/ev"
)

var c36TrieKeys = []string{"gset-a", "gset-b", "ns1/set-a", "ns1/set-b", "ns2/set-a", "ns2/zz"}

func c36KeyString(name string) string { return model.NetworkSetKey{Name: name}.String() }

func c36KeyNamespace(name string) string {
	if i := strings.Index(name, "/"); i >= 0 {
		return name[:i]
	}
	return ""
}

type c36TrieModel map[netip.Prefix]map[string]bool

func (m c36TrieModel) sortedPrefixes() []netip.Prefix {
	var ps []netip.Prefix
	for p, ks := range m {
		if len(ks) > 0 {
			ps = append(ps, p)
		}
	}
	sort.Slice(ps, func(i, j int) bool {
		if c := ps[i].Addr().Compare(ps[j].Addr()); c != 0 {
			return c < 0
		}
		return ps[i].Bits() < ps[j].Bits()
	})
	return ps
}

func (m c36TrieModel) dump() string {
	var sb strings.Builder
	for _, p := range m.sortedPrefixes() {
		var ks []string
		for k := range m[p] {
			ks = append(ks, k)
		}
		sort.Strings(ks)
		fmt.Fprintf(&sb, "%v=%v ", p, ks)
	}
	return sb.String()
}

// lpm returns the expected key: longest stored prefix containing addr among the pairs whose key
// passes filter; lowest key String() on that prefix.
func (m c36TrieModel) lpm(addr netip.Addr, filter func(key string) bool) (string, netip.Prefix, bool) {
	var best netip.Prefix
	bestKey, found := "", false
	for _, p := range m.sortedPrefixes() {
		if p.Addr().Is4() != addr.Is4() || !p.Contains(addr) {
			continue
		}
		low, any := "", false
		for k := range m[p] {
			if filter != nil && !filter(k) {
				continue
			}
			if !any || c36KeyString(k) < c36KeyString(low) {
				low, any = k, true
			}
		}
		if !any {
			continue
		}
		if !found || p.Bits() > best.Bits() {
			best, bestKey, found = p, low, true
		}
	}
	return bestKey, best, found
}

func c36TriePrefix(t *rapid.T, label string) netip.Prefix {
	if rapid.Bool().Draw(t, label+"V6") {
		// 2001:db8::/32 cluster; lengths around the 64-bit boundary and at the host end
		a := [16]byte{0x20, 0x01, 0x0d, 0xb8}
		a[7] = byte(rapid.IntRange(0, 3).Draw(t, label+"Bits63"))
		a[8] = byte(rapid.IntRange(0, 1).Draw(t, label+"Bit64")) << 7
		a[15] = byte(rapid.IntRange(0, 3).Draw(t, label+"HostBits"))
		l := rapid.SampledFrom([]int{0, 32, 62, 63, 64, 65, 126, 127, 128}).Draw(t, label+"Len")
		return netip.PrefixFrom(netip.AddrFrom16(a), l).Masked()
	}
	a := [4]byte{10, 0, byte(rapid.IntRange(0, 1).Draw(t, label+"Octet3")), byte(rapid.IntRange(0, 7).Draw(t, label+"Octet4"))}
	l := rapid.SampledFrom([]int{0, 8, 23, 24, 29, 30, 31, 32}).Draw(t, label+"Len")
	return netip.PrefixFrom(netip.AddrFrom4(a), l).Masked()
}

func c36TrieAddr(t *rapid.T, m c36TrieModel) netip.Addr {
	// an address inside a stored prefix (host bits drawn), or a fresh one of the cluster
	ps := m.sortedPrefixes()
	if len(ps) > 0 && rapid.IntRange(0, 3).Draw(t, "addrInStored") > 0 {
		p := rapid.SampledFrom(ps).Draw(t, "addrPrefix")
		q := c36TriePrefix(t, "addrFill")
		if q.Addr().Is4() == p.Addr().Is4() {
			// keep p's network bits, take q's host bits
			pb, qb := p.Addr().AsSlice(), q.Addr().AsSlice()
			for i := range pb {
				keep := 0
				if p.Bits() >= (i+1)*8 {
					keep = 8
				} else if p.Bits() > i*8 {
					keep = p.Bits() - i*8
				}
				mask := byte(0xff) << (8 - uint(keep))
				pb[i] = pb[i]&mask | qb[i]&^mask
			}
			a, _ := netip.AddrFromSlice(pb)
			return a
		}
		return p.Addr()
	}
	return c36TriePrefix(t, "addr").Addr()
}

func c36TrieCheckAddr(t *rapid.T, tr *calc.IpTrie, m c36TrieModel, addr netip.Addr, prefNS string) {
	ia := ip.FromString(addr.String())
	if ia == nil {
		t.Fatalf("HARNESS-GAP: cannot convert %v", addr)
	}
	wantKey, wantPfx, wantOK := m.lpm(addr, nil)
	got, ok := tr.GetLongestPrefixCidr(ia)
	if ok != wantOK || (ok && (got == nil || got != model.Key(model.NetworkSetKey{Name: wantKey}))) {
		t.Fatalf("GetLongestPrefixCidr(%v) = (%v, %v); prefix arithmetic over the stored pairs gives (%q on %v, %v); stored: %s", addr, got, ok, wantKey, wantPfx, wantOK, m.dump())
	}
	// namespace isolation
	classes := []func(string) bool{}
	if prefNS != "" {
		classes = append(classes, func(k string) bool { return c36KeyNamespace(k) == prefNS })
	}
	classes = append(classes,
		func(k string) bool { return c36KeyNamespace(k) == "" },
		func(k string) bool { ns := c36KeyNamespace(k); return ns != "" && ns != prefNS })
	wantKey, wantOK = "", false
	for _, f := range classes {
		if k, _, ok := m.lpm(addr, f); ok {
			wantKey, wantOK = k, true
			break
		}
	}
	got, ok = tr.GetLongestPrefixCidrWithNamespaceIsolation(ia, prefNS)
	if ok != wantOK || (ok && (got == nil || got != model.Key(model.NetworkSetKey{Name: wantKey}))) {
		t.Fatalf("GetLongestPrefixCidrWithNamespaceIsolation(%v, %q) = (%v, %v); want (%q, %v); stored: %s", addr, prefNS, got, ok, wantKey, wantOK, m.dump())
	}
}

func c36TrieCheckCIDR(t *rapid.T, tr *calc.IpTrie, m c36TrieModel, p netip.Prefix) {
	keys, ok := tr.GetKeys(ip.MustParseCIDROrIP(p.String()))
	want := m[p]
	if ok != (len(want) > 0) {
		t.Fatalf("GetKeys(%v) = (%v, %v) but the stored keys for that CIDR are %v; stored: %s", p, keys, ok, want, m.dump())
	}
	seen := map[string]bool{}
	for _, k := range keys {
		nk, isNS := k.(model.NetworkSetKey)
		if !isNS || !want[nk.Name] {
			t.Fatalf("GetKeys(%v) lists %v which is not stored for that CIDR (%v); stored: %s", p, k, want, m.dump())
		}
		if seen[nk.Name] {
			t.Fatalf("GetKeys(%v) lists key %q twice: %v; stored: %s", p, nk.Name, keys, m.dump())
		}
		seen[nk.Name] = true
	}
	if len(seen) != len(want) {
		t.Fatalf("GetKeys(%v) = %v, stored keys are %v; stored: %s", p, keys, want, m.dump())
	}
}

func TestVerifC36IpTrie(t *testing.T) {
	ev.Quiet()
	rec := ev.New("C36", "iptrie",
		"rapid state machine over one calc.IpTrie (IPv4 and IPv6 mixed, as in NetworkSetLookupsCache): InsertKey (new pair, second key on a stored CIDR, pair that is already stored), DeleteKey (stored pair, absent pair on an empty / single-key / multi-key CIDR) over densely nested prefixes (/0, /8, /23../32; ::/0, /32, /62../65, /126../128) and 6 network-set keys (global and two namespaces); after every step GetKeys for the touched CIDR and its neighbours and GetLongestPrefixCidr / ...WithNamespaceIsolation for addresses inside stored prefixes are compared with a map of (CIDR,key) pairs + net/netip; full sweep of all touched CIDRs at the end. Non-trivial = a pair was inserted while stored and later deleted, or a CIDR held >=2 keys and lost one; distinct = op-kind sequence",
		"the stored prefixes are the set of (CIDR,key) pairs inserted and not deleted since (re-inserting a stored pair and deleting an absent pair change nothing)", "net/netip prefix arithmetic is the reference")
	defer rec.Write()

	rapid.Check(t, func(t *rapid.T) {
		tr := calc.NewIpTrie()
		m := c36TrieModel{}
		touched := map[netip.Prefix]bool{}
		var ops []string
		dupInserted := map[string]bool{} // "prefix|key" inserted while stored
		dupThenDeleted, multiKeyDelete := false, false
		prefNS := rapid.SampledFrom([]string{"", "ns1", "ns2", "ns3"}).Draw(t, "preferredNamespace")

		pickPrefix := func(t *rapid.T) netip.Prefix {
			ps := m.sortedPrefixes()
			if len(ps) > 0 && rapid.IntRange(0, 2).Draw(t, "reuseStoredCIDR") > 0 {
				return rapid.SampledFrom(ps).Draw(t, "storedCIDR")
			}
			return c36TriePrefix(t, "cidr")
		}
		after := func(t *rapid.T, p netip.Prefix) {
			touched[p] = true
			c36TrieCheckCIDR(t, tr, m, p)
			if p.Bits() > 0 {
				c36TrieCheckCIDR(t, tr, m, netip.PrefixFrom(p.Addr(), p.Bits()-1).Masked())
			}
			// addresses: the network address, and two drawn ones
			c36TrieCheckAddr(t, tr, m, p.Addr(), prefNS)
			for i := 0; i < 2; i++ {
				c36TrieCheckAddr(t, tr, m, c36TrieAddr(t, m), prefNS)
			}
		}
		t.Repeat(map[string]func(*rapid.T){
			"insert": func(t *rapid.T) {
				p := pickPrefix(t)
				k := rapid.SampledFrom(c36TrieKeys).Draw(t, "key")
				switch {
				case m[p][k]:
					ops = append(ops, "i") // already stored
					dupInserted[p.String()+"|"+k] = true
				case len(m[p]) > 0:
					ops = append(ops, "K") // another key on a stored CIDR
				default:
					ops = append(ops, "I")
				}
				tr.InsertKey(ip.MustParseCIDROrIP(p.String()), model.NetworkSetKey{Name: k})
				if m[p] == nil {
					m[p] = map[string]bool{}
				}
				m[p][k] = true
				after(t, p)
			},
			"reinsertStoredPair": func(t *rapid.T) {
				ps := m.sortedPrefixes()
				if len(ps) == 0 {
					t.Skip("nothing stored")
				}
				p := rapid.SampledFrom(ps).Draw(t, "storedCIDR")
				var ks []string
				for k := range m[p] {
					ks = append(ks, k)
				}
				sort.Strings(ks)
				k := rapid.SampledFrom(ks).Draw(t, "storedKey")
				tr.InsertKey(ip.MustParseCIDROrIP(p.String()), model.NetworkSetKey{Name: k})
				dupInserted[p.String()+"|"+k] = true
				ops = append(ops, "i")
				after(t, p)
			},
			"delete": func(t *rapid.T) {
				p := pickPrefix(t)
				k := rapid.SampledFrom(c36TrieKeys).Draw(t, "key")
				if len(m[p]) > 0 && rapid.IntRange(0, 2).Draw(t, "deleteStoredKey") > 0 {
					var ks []string
					for kk := range m[p] {
						ks = append(ks, kk)
					}
					sort.Strings(ks)
					k = rapid.SampledFrom(ks).Draw(t, "storedKey")
				}
				switch {
				case m[p][k]:
					if dupInserted[p.String()+"|"+k] {
						dupThenDeleted = true
						ops = append(ops, "d")
					} else {
						ops = append(ops, "D")
					}
					if len(m[p]) > 1 {
						multiKeyDelete = true
					}
				case len(m[p]) == 1:
					ops = append(ops, "x1") // absent pair, the CIDR stores exactly one other key
				case len(m[p]) > 1:
					ops = append(ops, "xn")
				default:
					ops = append(ops, "x0")
				}
				tr.DeleteKey(ip.MustParseCIDROrIP(p.String()), model.NetworkSetKey{Name: k})
				delete(m[p], k)
				delete(dupInserted, p.String()+"|"+k)
				after(t, p)
			},
			"lookup": func(t *rapid.T) {
				c36TrieCheckAddr(t, tr, m, c36TrieAddr(t, m), rapid.SampledFrom([]string{"", "ns1", "ns2", "ns3"}).Draw(t, "lookupNamespace"))
				ops = append(ops, "q")
			},
		})
		// final sweep
		var all []netip.Prefix
		for p := range touched {
			all = append(all, p)
		}
		sort.Slice(all, func(i, j int) bool { return all[i].String() < all[j].String() })
		for _, p := range all {
			c36TrieCheckCIDR(t, tr, m, p)
			c36TrieCheckAddr(t, tr, m, p.Addr(), prefNS)
		}

		key := strings.Join(ops, "")
		var classes []string
		for _, c := range []struct{ tag, class string }{{"i", "reinsert-of-stored-pair"}, {"K", "several-keys-per-cidr"}, {"x0", "delete-on-empty-cidr"}, {"x1", "delete-absent-key-single-key-cidr"}, {"xn", "delete-absent-key-multi-key-cidr"}} {
			if strings.Contains(key, c.tag) {
				classes = append(classes, c.class)
			}
		}
		if dupThenDeleted {
			classes = append(classes, "reinserted-pair-deleted")
		}
		if multiKeyDelete {
			classes = append(classes, "key-deleted-from-multi-key-cidr")
		}
		rec.SizedCase(dupThenDeleted || multiKeyDelete, key, len(ops), func() any {
			return map[string]any{"ops": key, "finalStored": m.dump()}
		}, classes...)
	})
}

// TestVerifC36RegressionIpTrieDeleteOtherKey: regression test for the (fixed) finding
// c36-iptrie-delete-absent-key-removes-the-only-other-key — DeleteKey(cidr, k) used to remove the
// node of a CIDR that held exactly one key without checking that the key was k.
func TestVerifC36RegressionIpTrieDeleteOtherKey(t *testing.T) {
	ev.Quiet()
	tr := calc.NewIpTrie()
	c := ip.MustParseCIDROrIP("10.0.0.0/24")
	tr.InsertKey(c, model.NetworkSetKey{Name: "gset-a"})
	tr.DeleteKey(c, model.NetworkSetKey{Name: "gset-b"}) // not stored
	if keys, ok := tr.GetKeys(c); !ok || len(keys) != 1 || keys[0] != model.Key(model.NetworkSetKey{Name: "gset-a"}) {
		t.Fatalf("after InsertKey(10.0.0.0/24, gset-a); DeleteKey(10.0.0.0/24, gset-b): GetKeys = (%v, %v), want ([gset-a], true)", keys, ok)
	}
	if k, ok := tr.GetLongestPrefixCidr(ip.FromString("10.0.0.7")); !ok || k != model.Key(model.NetworkSetKey{Name: "gset-a"}) {
		t.Fatalf("GetLongestPrefixCidr(10.0.0.7) = (%v, %v), want (gset-a, true)", k, ok)
	}
}
