package calc_test

// Deterministic regression tests for a defect the C03 check found on the original tree and that
// was then fixed in /repo ("fix: calc: drop the pending sorter update when a policy becomes
// inactive", felix/calc/policy_resolver.go OnPolicyMatchStopped).
//
// Defect: PolicyResolver.OnPolicyMatch queued a policy in pendingPolicyUpdates when it was not
// yet in the policy sorter; OnPolicyMatchStopped did not take it out of that queue when the policy
// lost its last endpoint before the next flush.  Flush then inserted the *inactive* policy into
// the sorter.  Updates to inactive policies are not forwarded to the sorter, so the entry went
// stale; when the policy matched again HasPolicy() was true, nothing was refreshed and the
// endpoint was sent the policy with its OLD tier / order / flags.
//
// Both tests assert the behaviour the C03 statement requires; they fail if the defect returns.

import (
	"testing"

	v3 "github.com/projectcalico/api/pkg/apis/projectcalico/v3"

	"github.com/projectcalico/calico/lib/std/uniquelabels"
	"github.com/projectcalico/calico/libcalico-go/lib/backend/api"
	"github.com/projectcalico/calico/libcalico-go/lib/backend/model"
	calinet "github.com/projectcalico/calico/libcalico-go/lib/net"
	"github.com/projectcalico/calico/verifkit/ev"
)

type c03Regress struct {
	g      *c03Graph
	wepKey model.WorkloadEndpointKey
	polKey model.PolicyKey
}

func c03NewRegress() *c03Regress {
	r := &c03Regress{g: c03NewGraph(), wepKey: c03WepKeys[0], polKey: model.PolicyKey{Name: "pa", Kind: v3.KindGlobalNetworkPolicy}}
	r.g.setInSync()
	return r
}

func (r *c03Regress) set(k model.Key, v any, ut api.UpdateType) {
	r.g.send([]api.Update{{KVPair: model.KVPair{Key: k, Value: v}, UpdateType: ut}})
}

func (r *c03Regress) wep(c string) *model.WorkloadEndpoint {
	return &model.WorkloadEndpoint{
		State: "active", Name: "cali0",
		IPv4Nets: []calinet.IPNet{calinet.MustParseNetwork("10.0.0.1/32")},
		Labels:   uniquelabels.Make(map[string]string{"c": c}),
	}
}

// Stale tier: the policy is moved to another tier while it applies to nothing.
func TestVerifC03RegressionStalePendingPolicyTier(t *testing.T) {
	ev.Quiet()
	r := c03NewRegress()
	order1 := 1.0
	pol := func(tier, sel string) *model.Policy {
		return &model.Policy{Tier: tier, Order: &order1, Selector: sel, Types: []string{"ingress"}}
	}
	r.set(model.TierKey{Name: "default"}, &model.Tier{Order: &order1, DefaultAction: v3.Deny}, api.UpdateTypeKVNew)
	r.set(model.TierKey{Name: "t1"}, &model.Tier{Order: &order1, DefaultAction: v3.Deny}, api.UpdateTypeKVNew)
	r.set(r.wepKey, r.wep("x"), api.UpdateTypeKVNew)
	r.g.flush()
	// The policy matches the endpoint, then stops matching it, with no flush in between.
	r.set(r.polKey, pol("default", "all()"), api.UpdateTypeKVNew)
	r.set(r.polKey, pol("default", "c == 'y'"), api.UpdateTypeKVUpdated)
	r.g.flush()
	// While it applies to nothing it is moved to tier t1.
	r.set(r.polKey, pol("t1", "c == 'y'"), api.UpdateTypeKVUpdated)
	r.g.flush()
	// Now the endpoint gets label c=y: the policy applies again.
	r.set(r.wepKey, r.wep("y"), api.UpdateTypeKVUpdated)
	r.g.flush()
	em := r.g.fold.weps[c03WepIDOfKey(r.wepKey)]
	if em == nil {
		t.Fatalf("endpoint not emitted")
	}
	if len(em.Tiers) != 1 || em.Tiers[0].Name != "t1" || len(em.Tiers[0].IngressPolicies) != 1 {
		t.Fatalf("policy pa is in tier t1 and matches the endpoint, but the endpoint was sent tiers %s", c03TiersString(em.Tiers))
	}
}

// Stale flags: the policy is deleted while it applies to nothing and re-created without
// doNotTrack; with the stale doNotTrack metadata it was dropped from the workload endpoint's list.
func TestVerifC03RegressionStalePendingPolicyFlags(t *testing.T) {
	ev.Quiet()
	r := c03NewRegress()
	order1 := 1.0
	r.set(model.TierKey{Name: "default"}, &model.Tier{Order: &order1, DefaultAction: v3.Deny}, api.UpdateTypeKVNew)
	r.set(r.wepKey, r.wep("x"), api.UpdateTypeKVNew)
	r.g.flush()
	untracked := func(sel string) *model.Policy {
		return &model.Policy{Tier: "default", Order: &order1, Selector: sel, DoNotTrack: true, ApplyOnForward: true}
	}
	r.set(r.polKey, untracked("all()"), api.UpdateTypeKVNew)
	r.set(r.polKey, untracked("c == 'y'"), api.UpdateTypeKVUpdated)
	r.g.flush()
	r.set(r.polKey, nil, api.UpdateTypeKVDeleted)
	r.g.flush()
	r.set(r.polKey, &model.Policy{Tier: "default", Order: &order1, Selector: "c == 'y'"}, api.UpdateTypeKVNew)
	r.g.flush()
	r.set(r.wepKey, r.wep("y"), api.UpdateTypeKVUpdated)
	r.g.flush()
	em := r.g.fold.weps[c03WepIDOfKey(r.wepKey)]
	if em == nil {
		t.Fatalf("endpoint not emitted")
	}
	if len(em.Tiers) != 1 || em.Tiers[0].Name != "default" || len(em.Tiers[0].IngressPolicies) != 1 || len(em.Tiers[0].EgressPolicies) != 1 {
		t.Fatalf("tracked policy pa (tier default, ingress+egress) matches the endpoint, but the endpoint was sent tiers %s", c03TiersString(em.Tiers))
	}
}

// A tier is deleted while its policy stays, the result is flushed, and the tier then comes back
// exactly as it was (no order, no default action, as an older Typha sends tiers): the endpoint must be sent the tiers in name order again.
// (Round-2 seeded change C03-e; the random search covers this through its "tier bounce" move.)
func TestVerifC03RegressionTierRestoredUnchanged(t *testing.T) {
	ev.Quiet()
	r := c03NewRegress()
	tier := func() *model.Tier { return &model.Tier{} }
	pol := func(tr string) *model.Policy { return &model.Policy{Tier: tr, Selector: "all()"} }
	pb := model.PolicyKey{Name: "pb", Kind: v3.KindGlobalNetworkPolicy}
	r.set(model.TierKey{Name: "default"}, tier(), api.UpdateTypeKVNew)
	r.set(model.TierKey{Name: "t1"}, tier(), api.UpdateTypeKVNew)
	r.set(r.wepKey, r.wep("x"), api.UpdateTypeKVNew)
	r.set(r.polKey, pol("default"), api.UpdateTypeKVNew)
	r.set(pb, pol("t1"), api.UpdateTypeKVNew)
	r.g.flush()
	r.set(model.TierKey{Name: "default"}, nil, api.UpdateTypeKVDeleted)
	r.g.flush()
	r.set(model.TierKey{Name: "default"}, tier(), api.UpdateTypeKVNew)
	r.g.flush()
	em := r.g.fold.weps[c03WepIDOfKey(r.wepKey)]
	if em == nil || len(em.Tiers) != 2 || em.Tiers[0].Name != "default" || em.Tiers[1].Name != "t1" {
		t.Fatalf("tiers default and t1 both exist without order; the endpoint must list default before t1 but was sent %s", c03TiersString(em.GetTiers()))
	}
}
