package calc_test

import (
	"fmt"
	"net/netip"
	"testing"

	"github.com/projectcalico/calico/libcalico-go/lib/backend/api"
	"github.com/projectcalico/calico/libcalico-go/lib/backend/encap"
	"github.com/projectcalico/calico/libcalico-go/lib/backend/model"
	calinet "github.com/projectcalico/calico/libcalico-go/lib/net"
	"github.com/projectcalico/calico/verifkit/dpmon"
	"github.com/projectcalico/calico/verifkit/ev"
)

func TestVerifC01Scratch(t *testing.T) {
	ev.Quiet()
	mk := func() map[string]api.Update {
		aff := "host:rhost"
		return map[string]api.Update{
			"pool": {KVPair: model.KVPair{Key: model.IPPoolKey{CIDR: netip.MustParsePrefix("10.0.0.0/16")},
				Value: &model.IPPool{CIDR: calinet.MustParseNetwork("10.0.0.0/16"), VXLANMode: encap.Always}}},
			"block": {KVPair: model.KVPair{Key: model.BlockKey{CIDR: netip.MustParsePrefix("10.0.0.0/29")},
				Value: &model.AllocationBlock{CIDR: calinet.MustParseNetwork("10.0.0.0/29"), Affinity: &aff, Allocations: make([]*int, 8), Unallocated: []int{0, 1, 2, 3, 4, 5, 6, 7}}}},
			"wep": {KVPair: model.KVPair{Key: model.WorkloadEndpointKey{Hostname: c01Local, OrchestratorID: "k8s", WorkloadID: "ns1/l1", EndpointID: "eth0"},
				Value: &model.WorkloadEndpoint{State: "active", Name: "cali1", IPv4Nets: []calinet.IPNet{calinet.MustParseNetwork("10.0.0.1/32")}}}},
		}
	}
	for _, order := range [][]string{{"pool", "block", "wep"}, {"pool", "wep", "block"}, {"wep", "block", "pool"}, {"block", "wep", "pool"}} {
		p := c01NewPipeline("X", c01ConfVariants[0], false)
		m := mk()
		for _, k := range order {
			p.vf.OnUpdates([]api.Update{m[k]})
		}
		p.inSync()
		p.flush()
		fmt.Printf("order %v:\n", order)
		snap := p.mon.Snapshot()
		for _, k := range []string{"route/10.0.0.1/32", "route/10.0.0.0/29"} {
			fmt.Printf("   %s = %s\n", k, snap[k])
		}
		_ = dpmon.Describe
	}
}
