package calc_test

// C01 — Felix's computed dataplane state depends only on current datastore state.
// C02 — Felix's output stream never references something the dataplane lacks.
//
// One driver for both: a generated update *history* that ends in datastore state S is fed to a
// real ValidationFilter -> CalcGraph -> EventSequencer pipeline ("graph A") with generated batch
// splits, flush points and in-sync position; every emitted message goes through the strict
// dataplane monitor (kit/dpmon), which both folds the stream into a state and checks the C02
// ordering / referential rules message by message.
//
//   C01 oracle (differential): a fresh pipeline B is fed only S (sorted key order, one batch,
//   in-sync, one flush); a fresh pipeline B' is fed S in a generated permutation / batch split.
//   fold(A) == fold(B) == fold(B').
//
//   C02 oracle (invariant on every prefix): the monitor reports no broken rule on A's stream
//   (nor on B's / B''s, which are legal histories too).

import (
	"fmt"
	"os"
	"sort"
	"strings"
	"testing"

	"pgregory.net/rapid"

	"github.com/projectcalico/calico/felix/calc"
	"github.com/projectcalico/calico/felix/config"
	"github.com/projectcalico/calico/felix/proto"
	"github.com/projectcalico/calico/libcalico-go/lib/backend/api"
	"github.com/projectcalico/calico/libcalico-go/lib/backend/model"
	"github.com/projectcalico/calico/verifkit/dpmon"
	"github.com/projectcalico/calico/verifkit/ev"
)

// ---- config variants ---------------------------------------------------------------------------

type c01ConfVariant struct {
	Name            string
	BPF             bool
	VXLAN, VXLANv6  bool
	IPIP            bool
	NoEncap         bool
	ProgramRoutes   string // ProgramClusterRoutes
	RouteSource     string
	NFTables        string
	Istio           bool
	SpoofingAllowed bool
}

var c01ConfVariants = []c01ConfVariant{
	{Name: "bpf-vxlan46", BPF: true, VXLAN: true, VXLANv6: true, RouteSource: "CalicoIPAM", NFTables: "Disabled", Istio: true},
	{Name: "vxlan4-nft", VXLAN: true, RouteSource: "CalicoIPAM", NFTables: "Enabled", SpoofingAllowed: true},
	{Name: "vxlan46-wlips", VXLAN: true, VXLANv6: true, RouteSource: "WorkloadIPs", NFTables: "Disabled"},
	{Name: "ipip-felixroutes", IPIP: true, ProgramRoutes: "Enabled", RouteSource: "CalicoIPAM", NFTables: "Disabled"},
	{Name: "noencap", NoEncap: true, ProgramRoutes: "Enabled", RouteSource: "CalicoIPAM", NFTables: "Enabled"},
	{Name: "plain", RouteSource: "CalicoIPAM", NFTables: "Disabled"},
}

func (cv c01ConfVariant) build() *config.Config {
	conf := config.New()
	conf.FelixHostname = c01Local
	conf.BPFEnabled = cv.BPF
	conf.RouteSource = cv.RouteSource
	conf.NFTablesMode = cv.NFTables
	if cv.ProgramRoutes != "" {
		conf.ProgramClusterRoutes = cv.ProgramRoutes
	}
	if cv.Istio {
		conf.IstioAmbientMode = "Enabled"
	}
	if cv.SpoofingAllowed {
		conf.WorkloadSourceSpoofing = "Any"
	}
	conf.Encapsulation = config.Encapsulation{
		VXLANEnabled: cv.VXLAN, VXLANEnabledV6: cv.VXLANv6, IPIPEnabled: cv.IPIP, NoEncapNeeded: cv.NoEncap,
	}
	return conf
}

// c01SeqConfig is the EventSequencer's view of the config.  Like the repo's mock dataplane it
// accepts every config update without changing anything: a real config change makes Felix
// restart, so what the graph does *after* one is outside C01/C02, and letting the sequencer
// re-resolve the shared *config.Config would silently reset the knobs set above.
type c01SeqConfig struct{ updates int }

func (c *c01SeqConfig) UpdateFrom(map[string]string, config.Source) (bool, error) {
	c.updates++
	return false, nil
}
func (c *c01SeqConfig) RawValues() map[string]string        { return map[string]string{} }
func (c *c01SeqConfig) ToConfigUpdate() *proto.ConfigUpdate { return &proto.ConfigUpdate{} }

// ---- one pipeline ------------------------------------------------------------------------------

type c01Pipeline struct {
	name string
	vf   *calc.ValidationFilter
	cg   *calc.CalcGraph
	es   *calc.EventSequencer
	mon  *dpmon.Monitor
	tee  *c01Tee

	violations []string // C02 rule breaks reported by the monitor
	trace      []string // compact message trace (only kept when tracing is on)
	tracing    bool
	flushes    int
}

// c01Tee sits between the ValidationFilter and the graph and counts what the filter dropped.
type c01Tee struct {
	sink    api.SyncerCallbacks
	lastNil []bool // per update of the last OnUpdates call: value reached the graph as nil
}

func (t *c01Tee) OnStatusUpdated(s api.SyncStatus) { t.sink.OnStatusUpdated(s) }
func (t *c01Tee) OnUpdates(us []api.Update) {
	t.lastNil = t.lastNil[:0]
	for _, u := range us {
		t.lastNil = append(t.lastNil, u.Value == nil)
	}
	t.sink.OnUpdates(us)
}

func c01NewPipeline(name string, cv c01ConfVariant, tracing bool) *c01Pipeline {
	p := &c01Pipeline{name: name, mon: dpmon.New(), tracing: tracing}
	conf := cv.build()
	p.es = calc.NewEventSequencer(&c01SeqConfig{})
	p.es.Callback = p.onEvent
	p.cg = calc.NewCalculationGraph(p.es, calc.NewLookupsCache(), conf, func() {})
	p.tee = &c01Tee{sink: p.cg}
	p.vf = calc.NewValidationFilter(p.tee, conf)
	return p
}

func (p *c01Pipeline) onEvent(msg any) {
	if p.tracing {
		p.trace = append(p.trace, fmt.Sprintf("[%s flush %d] %s", p.name, p.flushes, dpmon.Describe(msg)))
	}
	if err := p.mon.OnEvent(msg); err != nil {
		p.violations = append(p.violations, fmt.Sprintf("[%s flush %d] %v", p.name, p.flushes, err))
	}
}

func (p *c01Pipeline) flush() {
	p.flushes++
	p.cg.Flush()
	p.es.Flush()
	if err := p.mon.EndFlush(); err != nil {
		p.violations = append(p.violations, fmt.Sprintf("[%s flush %d] %v", p.name, p.flushes, err))
	}
}

func (p *c01Pipeline) inSync() {
	p.mon.DatastoreInSync()
	p.vf.OnStatusUpdated(api.InSync)
}

// ---- histories -----------------------------------------------------------------------------------

type c01Update struct {
	Slot int
	Ver  int    // -1 = delete
	Why  string // which move produced it (set/dup/revert/redeliver/blip-del/blip-add/teardown/converge/extra)
}

type c01Step struct {
	Kind    string // "batch", "flush", "insync", "status"
	Updates []c01Update
	Status  api.SyncStatus
}

type c01Case struct {
	Conf    c01ConfVariant
	U       *c01Universe
	Vers    [][]c01Ver // per slot
	Final   []int      // per slot: version index in S, -1 = absent, -2 = slot unused
	Steps   []c01Step
	BOrder  []int  // slot order for B'
	BSplits []bool // batch boundary after i-th update of B'
	Classes map[string]bool
	// ReorderLast: slots whose last delivered update differs from the previous one only in the
	// order of ProfileIDs.
	ReorderLast map[int]bool
	NUpdates    int
	Mode        string
}

func (c *c01Case) lastIsReorder(slot int) {
	if c.ReorderLast == nil {
		c.ReorderLast = map[int]bool{}
	}
	c.ReorderLast[slot] = true
	c.Classes["profile-reorder"] = true
	c.Classes["profile-reorder-as-last-update"] = true
}

// classifyReorder sets "profile-reorder-conflicting": some endpoint's last update only reordered
// its ProfileIDs and two of the reordered profiles have, in S, valid labelsToApply that give the
// same key different values (and the endpoint's own labels do not define that key).
func (c *c01Case) classifyReorder() {
	finalLabels := func(profile string) map[string]string {
		for i, s := range c.U.Slots {
			if s.Name == "proflabels/"+profile && c.Final[i] >= 0 && !c.Vers[i][c.Final[i]].Invalid {
				return c.Vers[i][c.Final[i]].Labels
			}
		}
		return nil
	}
	for slot := range c.ReorderLast {
		ver := c.Vers[slot][c.Final[slot]]
		if ver.Invalid {
			continue
		}
		for a := 0; a < len(ver.Profiles); a++ {
			for b := a + 1; b < len(ver.Profiles); b++ {
				la, lb := finalLabels(ver.Profiles[a]), finalLabels(ver.Profiles[b])
				for k, va := range la {
					if vb, ok := lb[k]; ok && vb != va {
						if _, own := ver.Labels[k]; !own {
							c.Classes["profile-reorder-conflicting"] = true
						}
					}
				}
			}
		}
	}
}

// classifyTunnelCollision sets "tunnel-addr-is-wep-ip-on-same-node" when, in S, a (valid) node
// resource has a tunnel address that is also an address of a (valid) workload endpoint on that node
// which the route resolver tracks (local endpoints; every endpoint in WorkloadIPs mode), in a
// configuration that wires the route resolver.  "...-changed-in-history" additionally requires that
// either resource was delivered more than once (so arrival order varies beyond B vs B').
func (c *c01Case) classifyTunnelCollision() {
	if c.Conf.Name == "plain" {
		return
	}
	hostOfWEP := func(name string) string {
		switch {
		case strings.HasPrefix(name, "wep/l"):
			return c01Local
		case strings.HasPrefix(name, "wep/r"):
			return c01Remote
		case strings.HasPrefix(name, "wep/q"):
			return c01Remote2
		}
		return ""
	}
	for i, s := range c.U.Slots {
		if s.Class != "node" || c.Final[i] < 0 || c.Vers[i][c.Final[i]].Invalid {
			continue
		}
		host := strings.TrimPrefix(s.Name, "node/")
		for j, w := range c.U.Slots {
			if hostOfWEP(w.Name) != host || c.Final[j] < 0 || c.Vers[j][c.Final[j]].Invalid {
				continue
			}
			if host != c01Local && c.Conf.RouteSource != "WorkloadIPs" {
				continue
			}
			for _, a := range c.Vers[i][c.Final[i]].TunnelAddrs {
				for _, b := range c.Vers[j][c.Final[j]].IPs {
					if a == b {
						c.Classes["tunnel-addr-is-wep-ip-on-same-node"] = true
					}
				}
			}
		}
	}
}

func (c *c01Case) verDesc(slot, ver int) string {
	if ver < 0 {
		return "<deleted>"
	}
	v := c.Vers[slot][ver]
	s := fmt.Sprintf("v%d %s", ver, v.Desc)
	if v.Invalid {
		s += " (generated invalid)"
	}
	return s
}

func (c *c01Case) mkUpdate(slot, ver int, present map[int]bool) api.Update {
	s := c.U.Slots[slot]
	u := api.Update{KVPair: model.KVPair{Key: s.Key}}
	switch {
	case ver < 0:
		u.UpdateType = api.UpdateTypeKVDeleted
		delete(present, slot)
	default:
		u.Value = c.Vers[slot][ver].Mk()
		if present[slot] {
			u.UpdateType = api.UpdateTypeKVUpdated
		} else {
			u.UpdateType = api.UpdateTypeKVNew
		}
		present[slot] = true
	}
	u.Revision = "r"
	return u
}

// refsOf returns the slot names a version of a slot refers to by name (profiles, tier).
func c01RefsOf(slot c01Slot, v c01Ver) []string {
	var refs []string
	d := v.Desc
	switch {
	case strings.HasPrefix(slot.Class, "wep"), strings.HasPrefix(slot.Class, "hep"), slot.Class == "netset":
		for _, p := range c01ProfileIDs {
			if strings.Contains(d, "profiles=[") && c01ListContains(d, "profiles=[", p) {
				refs = append(refs, "profrules/"+p, "proflabels/"+p)
			}
		}
	case slot.Class == "policy":
		for _, tn := range []string{"default", "t1", "t2"} {
			if strings.Contains(d, "tier="+tn+" ") {
				refs = append(refs, "tier/"+tn)
			}
		}
	}
	return refs
}

func c01ListContains(desc, prefix, item string) bool {
	i := strings.Index(desc, prefix)
	if i < 0 {
		return false
	}
	rest := desc[i+len(prefix):]
	j := strings.Index(rest, "]")
	if j < 0 {
		return false
	}
	for _, f := range strings.Fields(rest[:j]) {
		if f == item {
			return true
		}
	}
	return false
}

func c01GenCase(t *rapid.T, mode string) *c01Case {
	c := &c01Case{Classes: map[string]bool{}, Mode: mode}
	focus := rapid.SampledFrom([]string{"policy", "policy", "routes", "vxlan", "vxlan", "mixed", "small"}).Draw(t, "focus")
	c.Classes["focus-"+focus] = true
	confIdx := rapid.IntRange(0, len(c01ConfVariants)-1).Draw(t, "conf")
	if (focus == "routes" && confIdx >= 3 && rapid.IntRange(0, 3).Draw(t, "confPreferVXLAN") > 0) || (focus == "vxlan" && confIdx >= 3) {
		confIdx -= 3 // the first three variants have VXLAN on
	}
	c.Conf = c01ConfVariants[confIdx]
	c.U = c01NewUniverse(c.Conf.SpoofingAllowed, ev.Known(c01SigBlockStale) && c.Conf.RouteSource == "CalicoIPAM", ev.Known(c01SigSameSubnetStale))
	c.U.PreferVXLAN = focus == "vxlan"
	// Tunnel/workload address collisions on one node: common in the route-ish focuses.
	collideOdds := map[string]int{"routes": 2, "vxlan": 2, "mixed": 3}[focus] // one in N
	if collideOdds > 0 && rapid.IntRange(0, collideOdds-1).Draw(t, "tunnelCollide") == collideOdds-1 {
		c.U.TunnelCollide = true
	}
	// Reorder scenario (about a third of the policy-ish cases): see c01Universe.ReorderOn.
	if (focus == "policy" || focus == "mixed") && rapid.IntRange(0, 1).Draw(t, "reorderScenario") == 1 {
		ch := rapid.SampledFrom(c01ReorderChoices).Draw(t, "reorderKey")
		c.U.ReorderOn, c.U.ReorderKey, c.U.ReorderV1, c.U.ReorderV2 = true, ch.Key, ch.V1, ch.V2
		c.Classes["reorder-scenario"] = true
	}
	forced := map[string]bool{}
	if c.U.TunnelCollide {
		// A local workload and the local node resource are in play (and in S), so that the collision
		// is visible to the route resolver in every route source mode.
		forced["wep/l1"] = true
		forced["node/"+c01Local] = true
		c.Classes["tunnel-collide-mode"] = true
	}
	vtepSlots := []string{"node/" + c01Remote, "hostcfg/" + c01Remote + "/IPv4VXLANTunnelAddr", "hostcfg/" + c01Remote + "/VXLANTunnelMACAddr",
		"pool/10.0.0.0-16", "block/10.0.1.0-29"}
	if focus == "vxlan" && c.Conf.RouteSource == "CalicoIPAM" && rapid.IntRange(0, 2).Draw(t, "vtepScenario") > 0 {
		c.U.VTEPScenario = true
		c.Classes["vtep-scenario"] = true
		for _, n := range vtepSlots {
			forced[n] = true
		}
	}
	if c.U.ReorderOn {
		for _, n := range []string{"wep/l1", "proflabels/p1", "proflabels/p2", "policy/g1"} {
			forced[n] = true
		}
		if rapid.Bool().Draw(t, "reorderAlsoHEP") {
			forced["hep/lh1"] = true
		}
	}
	nslots := len(c.U.Slots)

	// Which slots are in play, and their candidate versions.  A "focus" correlates the choice so that
	// endpoints+profiles+policies+tiers (or nodes+tunnel config+pools+blocks) tend to coexist.
	weight := func(class string) int { // slot in play with probability weight/6
		policyish := map[string]int{"wep-local": 5, "wep-remote": 3, "hep-local": 3, "hep-remote": 2, "profile-rules": 4,
			"profile-labels": 3, "tier": 4, "policy": 5, "netset": 3, "pool": 1, "block": 1, "node": 1, "hostcfg": 1}
		routeish := map[string]int{"wep-local": 2, "wep-remote": 2, "hep-local": 1, "hep-remote": 1, "profile-rules": 1,
			"profile-labels": 1, "tier": 1, "policy": 1, "netset": 1, "pool": 5, "block": 5, "node": 6, "hostcfg": 6}
		w := 3
		switch focus {
		case "policy":
			w = policyish[class]
		case "routes", "vxlan":
			w = routeish[class]
		case "small":
			w = 1
		}
		if mode == "churn" && w > 1 {
			if w >= 5 {
				w--
			} else {
				w = (w + 1) / 2
			}
		}
		return w
	}
	c.Vers = make([][]c01Ver, nslots)
	c.Final = make([]int, nslots)
	var used []int
	for i, s := range c.U.Slots {
		c.Final[i] = -2
		if rapid.IntRange(0, 5).Draw(t, "use."+s.Name) < 6-weight(s.Class) && !forced[s.Name] {
			continue
		}
		nver := rapid.IntRange(1, 3).Draw(t, "nver."+s.Name)
		if c.U.VTEPScenario && forced[s.Name] && nver < 2 {
			nver = 2
		}
		for v := 0; v < nver; v++ {
			c.Vers[i] = append(c.Vers[i], s.Gen(t, c.U, fmt.Sprintf("%s.v%d", s.Name, v)))
		}
		used = append(used, i)
	}
	// Reorder twins: an endpoint version that lists >= 2 profiles may get a twin that differs only
	// in the order of its ProfileIDs (reversed or rotated).
	partner := map[[2]int]int{} // (slot, version) -> version that differs only by ProfileIDs order
	for _, i := range used {
		if !strings.HasPrefix(c.U.Slots[i].Class, "wep") && !strings.HasPrefix(c.U.Slots[i].Class, "hep") {
			continue
		}
		n := len(c.Vers[i])
		for v := 0; v < n; v++ {
			ver := c.Vers[i][v]
			if ver.Reorder == nil || len(ver.Profiles) < 2 {
				continue
			}
			l := fmt.Sprintf("twin.%s.v%d", c.U.Slots[i].Name, v)
			if !forced[c.U.Slots[i].Name] && rapid.IntRange(0, 2).Draw(t, l) != 2 {
				continue
			}
			perm := append([]string(nil), ver.Profiles...)
			if len(perm) > 2 && rapid.Bool().Draw(t, l+".rotate") {
				perm = append(perm[1:], perm[0])
			} else {
				for a, b := 0, len(perm)-1; a < b; a, b = a+1, b-1 {
					perm[a], perm[b] = perm[b], perm[a]
				}
			}
			c.Vers[i] = append(c.Vers[i], ver.Reorder(perm))
			partner[[2]int{i, v}] = len(c.Vers[i]) - 1
			partner[[2]int{i, len(c.Vers[i]) - 1}] = v
		}
	}

	// Target state S.
	for _, i := range used {
		nver := len(c.Vers[i])
		mult := 3 // present with probability 3n/(3n+1)
		switch c.U.Slots[i].Class {
		case "node", "hostcfg", "pool", "block":
			mult = 6
		}
		f := rapid.IntRange(-1, mult*nver-1).Draw(t, "final."+c.U.Slots[i].Name)
		if f >= 0 {
			f %= nver
		}
		if forced[c.U.Slots[i].Name] && f < 0 {
			f = 0 // the scenario's slots are present in S
		}
		c.Final[i] = f
	}

	// Known finding c01SigTierStale: reachable only when S lacks a tier that a policy of S names and
	// the history ever delivered that tier with a non-empty default action.  Steer exactly those
	// tiers to an empty default action.
	if ev.Known(c01SigTierStale) {
		for _, i := range used {
			slot := c.U.Slots[i]
			if slot.Class != "tier" || c.Final[i] != -1 {
				continue
			}
			hazard := false
			for _, j := range used {
				if c.U.Slots[j].Class != "policy" || c.Final[j] < 0 || c.Vers[j][c.Final[j]].Invalid {
					continue
				}
				for _, r := range c01RefsOf(c.U.Slots[j], c.Vers[j][c.Final[j]]) {
					if r == slot.Name {
						hazard = true
					}
				}
			}
			if !hazard {
				continue
			}
			for v := range c.Vers[i] {
				if c.Vers[i][v].Neutral != nil {
					c.Vers[i][v] = c.Vers[i][v].Neutral()
					c.U.Steered[c01SigTierStale] = true
				}
			}
		}
	}

	// Random walk with named moves.
	cur := map[int]int{} // slot -> currently delivered version (absent = not in map)
	var flat []c01Update
	emit := func(slot, ver int, why string) {
		flat = append(flat, c01Update{Slot: slot, Ver: ver, Why: why})
		if ver < 0 {
			delete(cur, slot)
		} else {
			cur[slot] = ver
		}
	}
	slotByName := map[string]int{}
	for i, s := range c.U.Slots {
		slotByName[s.Name] = i
	}
	// liveReferents: currently present slots that some currently present slot refers to.
	liveReferents := func() []int {
		set := map[int]bool{}
		for slot, ver := range cur {
			v := c.Vers[slot][ver]
			if v.Invalid {
				continue
			}
			for _, r := range c01RefsOf(c.U.Slots[slot], v) {
				if ri, ok := slotByName[r]; ok {
					if rv, present := cur[ri]; present && !c.Vers[ri][rv].Invalid {
						set[ri] = true
					}
				}
			}
		}
		out := make([]int, 0, len(set))
		for k := range set {
			out = append(out, k)
		}
		sort.Ints(out)
		return out
	}
	// Initial snapshot: most histories start like a real Felix does, with a populated datastore
	// delivered in arbitrary order, so that teardown / churn moves have something to act on.
	forceFlush := map[int]bool{} // index into flat: a flush follows this update
	if len(used) > 0 && (rapid.IntRange(0, 3).Draw(t, "startPopulated") > 0 || c.U.VTEPScenario) {
		c.Classes["initial-snapshot"] = true
		order := used
		if len(used) > 1 {
			order = rapid.Permutation(used).Draw(t, "snapshotOrder")
		}
		for _, slot := range order {
			nver := len(c.Vers[slot])
			v := rapid.IntRange(-1, 3*nver-1).Draw(t, "initial."+c.U.Slots[slot].Name)
			if v < 0 && c.U.VTEPScenario && forced[c.U.Slots[slot].Name] && !strings.Contains(c.U.Slots[slot].Name, "MACAddr") {
				v = 0
			}
			if v >= 0 {
				emit(slot, v%nver, "snapshot")
			}
		}
		if c.U.VTEPScenario && len(flat) > 0 {
			// Flush the snapshot (VTEP of rhost and the block route via rhost reach the dataplane), then
			// modify the VTEP inside one flush window and flush again.
			forceFlush[len(flat)-1] = true
			slotIdx := func(name string) int {
				for i, s := range c.U.Slots {
					if s.Name == name {
						return i
					}
				}
				panic("HARNESS-GAP: no slot " + name)
			}
			nmods := rapid.IntRange(1, 2).Draw(t, "vtepMods")
			for k := 0; k < nmods; k++ {
				l := fmt.Sprintf("vtepMod[%d]", k)
				switch rapid.SampledFrom([]string{"tunnel-addr", "mac", "node-blip", "node-change"}).Draw(t, l) {
				case "tunnel-addr":
					s := slotIdx(vtepSlots[1])
					emit(s, (cur[s]+1)%len(c.Vers[s]), "vtepmod")
				case "mac":
					s := slotIdx(vtepSlots[2])
					if _, ok := cur[s]; ok {
						emit(s, -1, "vtepmod")
					} else {
						emit(s, 0, "vtepmod")
					}
				case "node-blip":
					s := slotIdx(vtepSlots[0])
					v := cur[s]
					emit(s, -1, "vtepmod")
					emit(s, v, "vtepmod")
				default:
					s := slotIdx(vtepSlots[0])
					emit(s, (cur[s]+1)%len(c.Vers[s]), "vtepmod")
				}
			}
			forceFlush[len(flat)-1] = true
		}
	}
	maxWalk := ev.Scale(24, 40)
	if mode == "churn" {
		maxWalk = ev.Scale(36, 60)
	}
	nwalk := 0
	if len(used) > 0 {
		nwalk = rapid.IntRange(0, maxWalk).Draw(t, "walkLen")
	}
	for w := 0; w < nwalk; w++ {
		l := fmt.Sprintf("walk[%d]", w)
		move := rapid.SampledFrom([]string{"set", "set", "set", "toFinal", "dup", "revert", "blip", "teardown", "teardown", "reorder"}).Draw(t, l+".move")
		slot := used[rapid.IntRange(0, len(used)-1).Draw(t, l+".slot")]
		nver := len(c.Vers[slot])
		switch move {
		case "set":
			ver := rapid.IntRange(-1, nver-1).Draw(t, l+".ver")
			if old, ok := cur[slot]; ok && ver >= 0 && ver < old {
				c.Classes["revert"] = true
			}
			emit(slot, ver, "set")
		case "toFinal":
			emit(slot, c.Final[slot], "set")
		case "dup":
			if ver, ok := cur[slot]; ok {
				emit(slot, ver, "dup")
			} else {
				emit(slot, -1, "dup")
			}
			c.Classes["duplicate"] = true
		case "revert":
			// Deliver some other version, then re-deliver the current one.
			curVer, ok := cur[slot]
			if !ok {
				curVer = -1
			}
			other := rapid.IntRange(-1, nver-1).Draw(t, l+".other")
			emit(slot, other, "revert")
			emit(slot, curVer, "redeliver")
			c.Classes["revert"] = true
		case "blip":
			// Spurious delete, then re-create with the same value.
			if ver, ok := cur[slot]; ok {
				emit(slot, -1, "blip-del")
				emit(slot, ver, "blip-add")
				c.Classes["spurious-delete"] = true
			} else {
				emit(slot, rapid.IntRange(0, nver-1).Draw(t, l+".ver"), "set")
			}
		case "reorder":
			// Re-deliver the endpoint with only the order of its ProfileIDs changed.
			if ver, ok := cur[slot]; ok {
				if pv, has := partner[[2]int{slot, ver}]; has {
					emit(slot, pv, "reorder")
					c.Classes["profile-reorder"] = true
					break
				}
			}
			emit(slot, rapid.IntRange(-1, nver-1).Draw(t, l+".ver"), "set")
		case "teardown":
			// Delete (or invalidate) a referent while a live referrer still names it.
			if refs := liveReferents(); len(refs) > 0 {
				victim := refs[rapid.IntRange(0, len(refs)-1).Draw(t, l+".victim")]
				emit(victim, -1, "teardown")
				c.Classes["teardown-with-live-referrer"] = true
			} else {
				emit(slot, rapid.IntRange(-1, nver-1).Draw(t, l+".ver"), "set")
			}
		}
	}
	// Converge suffix: every slot whose delivered value is not S's gets S's value, in a drawn order;
	// some already-converged slots are re-delivered as well (duplicates).
	var need []int
	for _, slot := range used {
		curVer, ok := cur[slot]
		if !ok {
			curVer = -1
		}
		if curVer != c.Final[slot] {
			need = append(need, slot)
		} else if rapid.IntRange(0, 7).Draw(t, "extra."+c.U.Slots[slot].Name) == 0 {
			need = append(need, slot)
			c.Classes["duplicate"] = true
		}
	}
	if len(need) > 1 {
		perm := rapid.Permutation(need).Draw(t, "convergeOrder")
		need = perm
	}
	for _, slot := range need {
		if pv, has := partner[[2]int{slot, c.Final[slot]}]; has && c.Final[slot] >= 0 {
			curVer, ok := cur[slot]
			if ok && curVer == pv {
				emit(slot, c.Final[slot], "reorder")
				c.lastIsReorder(slot)
				continue
			}
			if forced[c.U.Slots[slot].Name] || rapid.Bool().Draw(t, "reorderLast."+c.U.Slots[slot].Name) {
				emit(slot, pv, "converge")
				emit(slot, c.Final[slot], "reorder")
				c.lastIsReorder(slot)
				continue
			}
		}
		emit(slot, c.Final[slot], "converge")
	}
	// Scenario slots that were already converged: still finish with the (partner, final) pair.
	for _, slot := range used {
		if !forced[c.U.Slots[slot].Name] || c.ReorderLast[slot] || c.Final[slot] < 0 {
			continue
		}
		if pv, has := partner[[2]int{slot, c.Final[slot]}]; has {
			emit(slot, pv, "converge")
			emit(slot, c.Final[slot], "reorder")
			c.lastIsReorder(slot)
		}
	}
	c.classifyReorder()
	c.NUpdates = len(flat)

	c.classifyTunnelCollision()
	// "endpoint-profile-id-repeated": some valid version of a local endpoint that the history delivers
	// names the same profile ID twice; "...-then-updated": that endpoint is delivered again afterwards.
	for idx, u := range flat {
		if u.Ver < 0 || !strings.Contains(c.U.Slots[u.Slot].Class, "-local") {
			continue
		}
		v := c.Vers[u.Slot][u.Ver]
		if v.Invalid || !c01HasRepeat(v.Profiles) {
			continue
		}
		c.Classes["endpoint-profile-id-repeated"] = true
		for _, later := range flat[idx+1:] {
			if later.Slot == u.Slot && later.Ver >= 0 {
				c.Classes["endpoint-profile-id-repeated-then-updated"] = true
			}
		}
	}

	// Batching, flush points, in-sync position.
	flushMode := rapid.SampledFrom([]string{"every-update", "random", "random", "sparse", "end-only"}).Draw(t, "flushMode")
	if mode == "churn" {
		flushMode = rapid.SampledFrom([]string{"sparse", "sparse", "end-only", "random"}).Draw(t, "flushModeChurn")
	}
	c.Classes["flush-"+flushMode] = true
	inSyncAt := len(flat)
	switch rapid.SampledFrom([]string{"start", "middle", "middle", "end", "end"}).Draw(t, "inSyncPos") {
	case "start":
		inSyncAt = 0
		c.Classes["insync-at-start"] = true
	case "middle":
		if len(flat) > 0 {
			inSyncAt = rapid.IntRange(0, len(flat)).Draw(t, "inSyncAt")
		}
		c.Classes["insync-mid"] = true
	default:
		c.Classes["insync-at-end"] = true
	}
	if rapid.IntRange(0, 3).Draw(t, "preStatus") == 0 {
		c.Steps = append(c.Steps, c01Step{Kind: "status", Status: api.ResyncInProgress})
	}
	var batch []c01Update
	closeBatch := func() {
		if len(batch) > 0 {
			c.Steps = append(c.Steps, c01Step{Kind: "batch", Updates: batch})
			batch = nil
		}
	}
	for i := 0; i <= len(flat); i++ {
		if i == inSyncAt {
			closeBatch()
			c.Steps = append(c.Steps, c01Step{Kind: "insync"})
		}
		if i == len(flat) {
			break
		}
		batch = append(batch, flat[i])
		var gap int // 0 same batch, 1 batch boundary, 2 boundary+flush
		switch flushMode {
		case "every-update":
			gap = 2
		case "random":
			gap = rapid.IntRange(0, 2).Draw(t, fmt.Sprintf("gap[%d]", i))
		case "sparse":
			gap = rapid.SampledFrom([]int{0, 0, 0, 1, 1, 1, 1, 2}).Draw(t, fmt.Sprintf("gap[%d]", i))
		default:
			gap = rapid.IntRange(0, 1).Draw(t, fmt.Sprintf("gap[%d]", i))
		}
		if forceFlush[i] {
			gap = 2
		}
		if gap >= 1 {
			closeBatch()
		}
		if gap == 2 && i < len(flat)-1 {
			c.Steps = append(c.Steps, c01Step{Kind: "flush"})
			c.Classes["mid-history-flush"] = true
			if i < inSyncAt {
				c.Classes["flush-before-insync"] = true
			}
		}
	}
	closeBatch()
	c.Steps = append(c.Steps, c01Step{Kind: "flush"})

	// B': delivery order and batch splits for the final state.
	var present []int
	for _, slot := range used {
		if c.Final[slot] >= 0 {
			present = append(present, slot)
		}
	}
	c.BOrder = present
	if len(present) > 1 {
		c.BOrder = rapid.Permutation(present).Draw(t, "bPrimeOrder")
	}
	for i := range c.BOrder {
		c.BSplits = append(c.BSplits, rapid.IntRange(0, 2).Draw(t, fmt.Sprintf("bPrimeSplit[%d]", i)) == 0)
	}
	return c
}

func (c *c01Case) describe() string {
	var sb strings.Builder
	fmt.Fprintf(&sb, "config variant: %+v\nmode: %s\n", c.Conf, c.Mode)
	sb.WriteString("final datastore state S:\n")
	for i, f := range c.Final {
		if f == -2 {
			continue
		}
		fmt.Fprintf(&sb, "  %-34s %s\n", c.U.Slots[i].Name, c.verDesc(i, f))
	}
	sb.WriteString("history fed to graph A:\n")
	for _, st := range c.Steps {
		switch st.Kind {
		case "batch":
			sb.WriteString("  OnUpdates[\n")
			for _, u := range st.Updates {
				fmt.Fprintf(&sb, "     %-34s (%s) = %s\n", c.U.Slots[u.Slot].Name, u.Why, c.verDesc(u.Slot, u.Ver))
			}
			sb.WriteString("  ]\n")
		case "flush":
			sb.WriteString("  <<flush>>\n")
		case "insync":
			sb.WriteString("  OnStatusUpdated(InSync)\n")
		case "status":
			fmt.Fprintf(&sb, "  OnStatusUpdated(%v)\n", st.Status)
		}
	}
	var order []string
	for _, s := range c.BOrder {
		order = append(order, c.U.Slots[s].Name)
	}
	fmt.Fprintf(&sb, "B' delivery order: %v splits %v\n", order, c.BSplits)
	return sb.String()
}

func (c *c01Case) sample() any {
	var steps []string
	for _, st := range c.Steps {
		switch st.Kind {
		case "batch":
			var us []string
			for _, u := range st.Updates {
				us = append(us, fmt.Sprintf("%s:%s:v%d", c.U.Slots[u.Slot].Name, u.Why, u.Ver))
			}
			steps = append(steps, "batch["+strings.Join(us, " ")+"]")
		default:
			steps = append(steps, st.Kind)
		}
	}
	final := map[string]string{}
	for i, f := range c.Final {
		if f >= 0 {
			final[c.U.Slots[i].Name] = c.verDesc(i, f)
		}
	}
	return map[string]any{"conf": c.Conf.Name, "mode": c.Mode, "steps": steps, "final_state": final}
}

// ---- execution ---------------------------------------------------------------------------------

type c01Result struct {
	A, B, BP    *c01Pipeline
	FlushChurn  bool // some flush window of A saw the same key both deleted and (re)set
	Dropped     int  // updates nil-ed by the ValidationFilter in A
	FlagMiss    int  // generated-invalid values that the filter did not drop
	UnflaggedDr int  // values not generated as invalid that the filter dropped
}

func c01Run(c *c01Case, tracing bool) *c01Result {
	r := &c01Result{}
	// Graph A: the history.
	a := c01NewPipeline("A", c.Conf, tracing)
	present := map[int]bool{}
	winDel, winSet := map[int]bool{}, map[int]bool{}
	checkWindow := func() {
		for s := range winDel {
			if winSet[s] {
				r.FlushChurn = true
			}
		}
		winDel, winSet = map[int]bool{}, map[int]bool{}
	}
	for _, st := range c.Steps {
		switch st.Kind {
		case "batch":
			ups := make([]api.Update, 0, len(st.Updates))
			for _, u := range st.Updates {
				ups = append(ups, c.mkUpdate(u.Slot, u.Ver, present))
				if u.Ver < 0 || c.Vers[u.Slot][u.Ver].Invalid {
					winDel[u.Slot] = true
				} else {
					winSet[u.Slot] = true
				}
			}
			a.vf.OnUpdates(ups)
			for i, u := range st.Updates {
				if u.Ver < 0 {
					continue
				}
				dropped := a.tee.lastNil[i]
				inv := c.Vers[u.Slot][u.Ver].Invalid
				if dropped {
					r.Dropped++
				}
				if inv && !dropped {
					r.FlagMiss++
				}
				if !inv && dropped {
					r.UnflaggedDr++
					if os.Getenv("VERIF_C01_DEBUG") != "" {
						fmt.Printf("DEBUG valid-but-dropped: %s %s\n", c.U.Slots[u.Slot].Name, c.Vers[u.Slot][u.Ver].Desc)
					}
				}
				if inv && !dropped && os.Getenv("VERIF_C01_DEBUG") != "" {
					fmt.Printf("DEBUG invalid-not-dropped: %s %s\n", c.U.Slots[u.Slot].Name, c.Vers[u.Slot][u.Ver].Desc)
				}
			}
		case "flush":
			a.flush()
			checkWindow()
		case "insync":
			a.inSync()
		case "status":
			a.vf.OnStatusUpdated(st.Status)
		}
	}
	r.A = a

	// Graph B: fresh, fed only S, sorted slot order, one batch.
	b := c01NewPipeline("B", c.Conf, tracing)
	presentB := map[int]bool{}
	var ups []api.Update
	for slot, f := range c.Final {
		if f >= 0 {
			ups = append(ups, c.mkUpdate(slot, f, presentB))
		}
	}
	if len(ups) > 0 {
		b.vf.OnUpdates(ups)
	}
	b.inSync()
	b.flush()
	r.B = b

	// Graph B': fresh, fed S in a generated order and batch split.
	bp := c01NewPipeline("B'", c.Conf, tracing)
	presentBP := map[int]bool{}
	ups = nil
	for i, slot := range c.BOrder {
		ups = append(ups, c.mkUpdate(slot, c.Final[slot], presentBP))
		if c.BSplits[i] {
			bp.vf.OnUpdates(ups)
			ups = nil
		}
	}
	if len(ups) > 0 {
		bp.vf.OnUpdates(ups)
	}
	bp.inSync()
	bp.flush()
	r.BP = bp
	return r
}

func c01Tracing() bool { return os.Getenv("VERIF_C01_TRACE") != "" }

func c01ShapeKey(c *c01Case, r *c01Result) string {
	counts := map[string]int{}
	for _, st := range c.Steps {
		if st.Kind == "batch" {
			for _, u := range st.Updates {
				counts[u.Why+"/"+c.U.Slots[u.Slot].Class]++
			}
		} else {
			counts[st.Kind]++
		}
	}
	keys := make([]string, 0, len(counts))
	for k := range counts {
		keys = append(keys, k)
	}
	sort.Strings(keys)
	var sb strings.Builder
	sb.WriteString(c.Conf.Name + ";" + c.Mode + ";")
	for _, k := range keys {
		fmt.Fprintf(&sb, "%s=%d,", k, counts[k])
	}
	cls := make([]string, 0, len(c.Classes))
	for k := range c.Classes {
		cls = append(cls, k)
	}
	sort.Strings(cls)
	sb.WriteString(";" + strings.Join(cls, ","))
	return sb.String()
}

func c01ClassList(c *c01Case, r *c01Result) []string {
	cls := []string{"conf-" + c.Conf.Name, "mode-" + c.Mode}
	for k := range c.Classes {
		cls = append(cls, k)
	}
	m := r.A.mon
	if len(m.WEPs)+len(m.HEPs) > 0 {
		cls = append(cls, "final-has-local-endpoint")
	}
	if len(m.Policies) > 0 {
		cls = append(cls, "final-has-active-policy")
	}
	if len(m.Profiles) > 0 {
		cls = append(cls, "final-has-active-profile")
	}
	if len(m.IPSets) > 0 {
		cls = append(cls, "final-has-ipset")
	}
	nonEmpty := false
	for _, s := range m.IPSets {
		if len(s.Members) > 0 {
			nonEmpty = true
		}
	}
	if nonEmpty {
		cls = append(cls, "final-has-nonempty-ipset")
	}
	if len(m.Routes) > 0 {
		cls = append(cls, "final-has-route")
	}
	if len(m.VTEPs) > 0 {
		cls = append(cls, "final-has-vtep")
	}
	vx := false
	for _, rt := range m.Routes {
		if dpmon.RouteNeedsVTEP(rt) {
			if _, ok := m.VTEPs[rt.DstNodeName]; ok {
				vx = true
			}
		}
	}
	if vx {
		cls = append(cls, "final-has-vxlan-route-with-vtep")
	}
	if len(m.Hosts) > 0 {
		cls = append(cls, "final-has-hostmeta")
	}
	if len(m.Pools) > 0 {
		cls = append(cls, "final-has-pool")
	}
	if len(m.SAs)+len(m.Namespaces) > 0 {
		cls = append(cls, "final-has-sa-or-ns")
	}
	if m.NumIPSetReplaced > 0 {
		cls = append(cls, "stream-ipset-replaced")
	}
	if m.NumDeltas > 0 {
		cls = append(cls, "stream-ipset-delta")
	}
	if m.NumRemoves > 0 {
		cls = append(cls, "stream-has-removes")
	}
	if m.NumPolicyRefChg > 0 {
		cls = append(cls, "stream-policy-ipset-refs-changed")
	}
	if m.NumVTEPRouteAddFlushes > 0 {
		cls = append(cls, "stream-vtep-and-dependent-route-added-in-one-flush")
	}
	if m.NumVTEPRouteDelFlushes > 0 {
		cls = append(cls, "stream-vtep-and-dependent-route-removed-in-one-flush")
	}
	if m.NumVTEPModifiedWithLiveRoute > 0 {
		cls = append(cls, "vtep-modified-with-live-route")
	}
	if m.FlushReAdds > 0 {
		cls = append(cls, "stream-remove-then-readd-in-one-flush")
	}
	if r.FlushChurn {
		cls = append(cls, "input-del-and-set-in-one-flush-window")
	}
	if r.Dropped > 0 {
		cls = append(cls, "validation-dropped-some")
	}
	if r.FlagMiss > 0 {
		cls = append(cls, "gen-invalid-not-dropped")
	}
	if r.UnflaggedDr > 0 {
		cls = append(cls, "gen-valid-but-dropped")
	}
	sort.Strings(cls)
	return cls
}

func c01FailureText(c *c01Case, r *c01Result, headline string) string {
	var sb strings.Builder
	sb.WriteString(headline + "\n")
	sb.WriteString(c.describe())
	if c01Tracing() {
		sb.WriteString("message trace of A:\n  " + strings.Join(r.A.trace, "\n  ") + "\n")
		sb.WriteString("message trace of B:\n  " + strings.Join(r.B.trace, "\n  ") + "\n")
	} else {
		sb.WriteString("(set VERIF_C01_TRACE=1 and replay to see every emitted message)\n")
	}
	return sb.String()
}

// ---- C01 -----------------------------------------------------------------------------------------

func c01Property(rec *ev.Recorder, modes []string) func(t *rapid.T) {
	return func(t *rapid.T) {
		mode := rapid.SampledFrom(modes).Draw(t, "mode")
		c := c01GenCase(t, mode)
		r := c01Run(c, c01Tracing())
		sa, sb, sbp := r.A.mon.Snapshot(), r.B.mon.Snapshot(), r.BP.mon.Snapshot()
		if d := dpmon.DiffSnapshots("A(history)", sa, "B(fresh,S only)", sb); d != "" {
			t.Fatalf("%s", c01FailureText(c, r, "C01 violated: dataplane state after the history differs from a fresh Felix fed only the final state:\n"+d))
		}
		if d := dpmon.DiffSnapshots("B(sorted order)", sb, "B'(permuted order)", sbp); d != "" {
			t.Fatalf("%s", c01FailureText(c, r, "C01 violated: a fresh Felix fed the same final state in a different order computes a different dataplane state:\n"+d))
		}
		nontrivial := c.Classes["teardown-with-live-referrer"] || c.Classes["revert"] || c.Classes["mid-history-flush"]
		nontrivial = nontrivial && len(sa) > 0
		for _, sig := range c01AllSigs {
			if c.U.Steered[sig] {
				rec.Excluded(sig)
			}
		}
		rec.SizedCase(nontrivial, c01ShapeKey(c, r), c.NUpdates, c.sample, c01ClassList(c, r)...)
	}
}

func TestVerifC01HistoryIndependence(t *testing.T) {
	ev.Quiet()
	rec := ev.New("C01", "graph",
		"history = random walk over a generated universe (named moves: set/dup/revert+redeliver/spurious delete/teardown-with-live-referrer) + converge suffix to S, with generated batch splits, flush points and in-sync position, fed to a real ValidationFilter->CalcGraph->EventSequencer; compared with fresh graphs fed only S (sorted and permuted order). Non-trivial = history has a teardown-with-live-referrer, a revert or a mid-history flush, and the final dataplane state is non-empty. Distinct = distinct (config variant, multiset of move kind x resource class, flush/in-sync classes).",
		"kit/dpmon folds the stream as a dataplane would (replacement semantics for updates)",
		"the EventSequencer is given a no-op config sink (a config change restarts Felix; config/ready messages are not part of the compared state)",
		"universe bounded: 3 hosts, 6 WEPs, 3 HEPs, 3+4 profiles, 3 tiers, 5 policies, 2 network sets, 3 pools, 3 blocks, 3 nodes",
	)
	defer rec.Write()
	rapid.Check(t, c01Property(rec, []string{"general", "general", "general", "churn"}))
}

// ---- C02 -----------------------------------------------------------------------------------------

func c02Property(rec *ev.Recorder, modes []string) func(t *rapid.T) {
	return func(t *rapid.T) {
		mode := rapid.SampledFrom(modes).Draw(t, "mode")
		c := c01GenCase(t, mode)
		r := c01Run(c, c01Tracing())
		for _, p := range []*c01Pipeline{r.A, r.B, r.BP} {
			if len(p.violations) > 0 {
				t.Fatalf("%s", c01FailureText(c, r, "C02 violated on the message stream of graph "+p.name+":\n  "+strings.Join(p.violations, "\n  ")))
			}
		}
		nontrivial := (r.FlushChurn || r.A.mon.NumPolicyRefChg > 0) && r.A.mon.NumMessages > 0
		for _, sig := range c01AllSigs {
			if c.U.Steered[sig] {
				rec.Excluded(sig)
			}
		}
		rec.SizedCase(nontrivial, c01ShapeKey(c, r), c.NUpdates, c.sample, c01ClassList(c, r)...)
	}
}

func TestVerifC02StreamIntegrity(t *testing.T) {
	ev.Quiet()
	rec := ev.New("C02", "stream",
		"same generated histories as C01 plus a churn-biased mode (few keys, long walks, sparse flushes); every message emitted by the EventSequencer is checked by kit/dpmon against the C02 rules at the moment it arrives; flush boundaries are known to the harness for the VTEP/route rule. Non-trivial = some flush window contains both a delete and a (re)set of the same key, or an active policy/profile update changed its IP-set references. Distinct = as C01.",
		"IPSetUpdate for an existing id is a legal full replacement (design doc / repo mock)",
		"a route may exist without a VTEP (VXLAN manager waits for the VTEP); only the order inside one flush is constrained",
	)
	defer rec.Write()
	rapid.Check(t, c02Property(rec, []string{"general", "churn", "churn"}))
}
