package calc_test

// Deterministic reproductions of the C01 findings.  Each test FAILS while its finding reproduces.
//
//   - TestVerifC01HistoryRegression* were findings that have been fixed in /repo (26b9688, 653e98a, 427948a);
//     they are matched by the run regex and must pass: they are plain regression inputs.

import (
	"net/netip"
	"testing"

	v3 "github.com/projectcalico/api/pkg/apis/projectcalico/v3"
	metav1 "k8s.io/apimachinery/pkg/apis/meta/v1"

	"github.com/projectcalico/calico/lib/std/uniquelabels"
	"github.com/projectcalico/calico/libcalico-go/lib/apis/internalapi"
	"github.com/projectcalico/calico/libcalico-go/lib/backend/api"
	"github.com/projectcalico/calico/libcalico-go/lib/backend/encap"
	"github.com/projectcalico/calico/libcalico-go/lib/backend/model"
	calinet "github.com/projectcalico/calico/libcalico-go/lib/net"
	"github.com/projectcalico/calico/verifkit/dpmon"
	"github.com/projectcalico/calico/verifkit/ev"
)

func c01KV(k model.Key, v any) api.Update {
	return api.Update{KVPair: model.KVPair{Key: k, Value: v}, UpdateType: api.UpdateTypeKVNew}
}

func c01KnownPool(mode encap.Mode) api.Update {
	return c01KV(model.IPPoolKey{CIDR: netip.MustParsePrefix("10.0.0.0/16")},
		&model.IPPool{CIDR: calinet.MustParseNetwork("10.0.0.0/16"), VXLANMode: mode})
}

func c01KnownBlock(cidr, host string) api.Update {
	aff := "host:" + host
	return c01KV(model.BlockKey{CIDR: netip.MustParsePrefix(cidr)},
		&model.AllocationBlock{CIDR: calinet.MustParseNetwork(cidr), Affinity: &aff, Allocations: make([]*int, 8), Unallocated: []int{0, 1, 2, 3, 4, 5, 6, 7}})
}

func c01KnownWEP(ip string, labels map[string]string) api.Update {
	return c01KV(model.WorkloadEndpointKey{Hostname: c01Local, OrchestratorID: "k8s", WorkloadID: "ns1/l1", EndpointID: "eth0"},
		&model.WorkloadEndpoint{State: "active", Name: "cali1", IPv4Nets: []calinet.IPNet{calinet.MustParseNetwork(ip + "/32")}, Labels: uniquelabels.Make(labels)})
}

func c01KnownNode(name, v4, v6 string) api.Update {
	return c01KV(model.ResourceKey{Kind: internalapi.KindNode, Name: name}, &internalapi.Node{
		TypeMeta:   metav1.TypeMeta{Kind: internalapi.KindNode, APIVersion: v3.GroupVersionCurrent},
		ObjectMeta: metav1.ObjectMeta{Name: name},
		Spec:       internalapi.NodeSpec{BGP: &internalapi.NodeBGPSpec{IPv4Address: v4, IPv6Address: v6}},
	})
}

// c01KnownRun feeds the steps to a fresh pipeline (one update per batch, flush after each when
// flushEach), then in-sync + final flush, and returns the folded dataplane state.
func c01KnownRun(flushEach bool, steps ...api.Update) map[string]string {
	p := c01NewPipeline("K", c01ConfVariants[0], false)
	p.inSync()
	for _, u := range steps {
		p.vf.OnUpdates([]api.Update{u})
		if flushEach {
			p.flush()
		}
	}
	p.flush()
	return p.mon.Snapshot()
}

// Finding c01SigBlockStale.  Same final datastore state {pool, block 10.0.0.0/29 on rhost, local WEP
// 10.0.0.1}; only the delivery order of block and WEP differs.
func TestVerifC01HistoryRegressionBlockStale(t *testing.T) {
	ev.Quiet()
	a := c01KnownRun(false, c01KnownPool(encap.Always), c01KnownBlock("10.0.0.0/29", c01Remote), c01KnownWEP("10.0.0.1", nil))
	b := c01KnownRun(false, c01KnownPool(encap.Always), c01KnownWEP("10.0.0.1", nil), c01KnownBlock("10.0.0.0/29", c01Remote))
	if d := dpmon.DiffSnapshots("block-then-WEP", a, "WEP-then-block", b); d != "" {
		t.Fatalf("C01 violated (regression of fixed finding %s): same datastore state, different delivery order, different routes:\n%s", c01SigBlockStale, d)
	}
}

// Finding c01SigTierStale.  History: tier t1 (defaultAction Pass), policy in t1 selecting a local WEP,
// then the tier is deleted.  Fresh Felix: only the policy and the WEP.
func TestVerifC01HistoryRegressionTierDefaultAction(t *testing.T) {
	ev.Quiet()
	o := 1.0
	tier := c01KV(model.TierKey{Name: "t1"}, &model.Tier{Order: &o, DefaultAction: v3.Pass})
	tierDel := api.Update{KVPair: model.KVPair{Key: model.TierKey{Name: "t1"}}, UpdateType: api.UpdateTypeKVDeleted}
	pol := func() api.Update {
		return c01KV(model.PolicyKey{Kind: v3.KindGlobalNetworkPolicy, Name: "t1.g3"},
			&model.Policy{Tier: "t1", Order: &o, Selector: "all()", Types: []string{"ingress"}, InboundRules: []model.Rule{{Action: "allow"}}})
	}
	a := c01KnownRun(true, tier, pol(), c01KnownWEP("10.0.3.1", map[string]string{"a": "x"}), tierDel)
	b := c01KnownRun(true, pol(), c01KnownWEP("10.0.3.1", map[string]string{"a": "x"}))
	if d := dpmon.DiffSnapshots("history(tier created then deleted)", a, "fresh(no tier)", b); d != "" {
		t.Fatalf("C01 violated (regression of fixed finding %s):\n%s", c01SigTierStale, d)
	}
}

// Finding c01SigSameSubnetStale.  Cross-subnet VXLAN pool, block on rhost (192.168.0.2/24).  History:
// local node has 192.168.0.1/24 + an IPv6 address, then only the IPv6 address.  Fresh Felix: only
// the final node resources.
func TestVerifC01HistoryRegressionSameSubnet(t *testing.T) {
	ev.Quiet()
	common := []api.Update{c01KnownPool(encap.CrossSubnet), c01KnownBlock("10.0.1.0/29", c01Remote), c01KnownNode(c01Remote, "192.168.0.2/24", "")}
	a := c01KnownRun(true, append(append([]api.Update{}, common...), c01KnownNode(c01Local, "192.168.0.1/24", "fd00:1::1/64"), c01KnownNode(c01Local, "", "fd00:1::1/64"))...)
	b := c01KnownRun(true, append(append([]api.Update{}, common...), c01KnownNode(c01Local, "", "fd00:1::1/64"))...)
	if d := dpmon.DiffSnapshots("history(local node loses its IPv4 address)", a, "fresh", b); d != "" {
		t.Fatalf("C01 violated (regression of fixed finding %s):\n%s", c01SigSameSubnetStale, d)
	}
}
