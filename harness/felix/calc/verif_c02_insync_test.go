package calc_test

// C02, in-sync clause — "in-sync is never reported before the datastore reported it".
//
// proto.InSync is produced by the AsyncCalcGraph (not by the EventSequencer), so this unit drives
// the real AsyncCalcGraph: its goroutine, its input channel and its 10 ms flush ticker.  The
// harness feeds a generated history through a ValidationFilter, hands over the InSync status at a
// generated position, and a collector goroutine records, for every emitted message, whether the
// harness had already handed the status over when the message arrived.
//
// Soundness does not depend on timing: the flag is raised *before* OnStatusUpdated(InSync) is
// called, so correct code can never be seen emitting InSync with the flag down.  Detection power
// does depend on timing (an early InSync needs a flush tick to get out), so most cases pause for a
// few ticks before handing the status over.
//
// The AsyncCalcGraph has no stop method: its goroutine (idle, blocked on its input channel and
// tickers) outlives the case.  That is why this unit runs few cases.
//
// The message-level C02 rules of kit/dpmon are checked on this stream too (flush boundaries are
// not observable here, so the flush-scoped VTEP/route rule is not evaluated).

import (
	"fmt"
	"strings"
	"sync"
	"sync/atomic"
	"testing"
	"time"

	"pgregory.net/rapid"

	"github.com/projectcalico/calico/felix/calc"
	"github.com/projectcalico/calico/felix/proto"
	"github.com/projectcalico/calico/libcalico-go/lib/backend/api"
	"github.com/projectcalico/calico/verifkit/dpmon"
	"github.com/projectcalico/calico/verifkit/ev"
)

type c02Seen struct {
	msg        any
	statusSent bool
}

func TestVerifC02InSyncNotEarly(t *testing.T) {
	ev.Quiet()
	rec := ev.New("C02", "insync",
		"generated histories (as C01) fed through ValidationFilter into the real AsyncCalcGraph (goroutine + 10 ms ticker), InSync status handed over at a generated position after an optional ResyncInProgress and an optional pause of a few flush ticks; every emitted message is tagged with whether the status had been handed over. Non-trivial = updates were delivered before the status and the harness paused >= 1 tick before handing it over (an early InSync would have been observable). Distinct = (config variant, #updates before/after status, pause, pre-status kind).",
		"the harness raises its flag before calling OnStatusUpdated(InSync), so the verdict never depends on timing for correct code",
		"the AsyncCalcGraph goroutine cannot be stopped and idles after the case",
	)
	defer rec.Write()
	rapid.Check(t, func(t *rapid.T) {
		c := c01GenCase(t, "general")
		// Flatten the history: the async graph flushes on its own schedule.
		var pre, post [][]c01Update
		seenSync := false
		for _, st := range c.Steps {
			switch st.Kind {
			case "batch":
				if seenSync {
					post = append(post, st.Updates)
				} else {
					pre = append(pre, st.Updates)
				}
			case "insync":
				seenSync = true
			}
		}
		preStatus := rapid.SampledFrom([]string{"none", "resync", "resync", "wait+resync"}).Draw(t, "preStatus2")
		pauseTicks := rapid.SampledFrom([]int{0, 1, 2, 3}).Draw(t, "pauseTicks")

		conf := c.Conf.build()
		out := make(chan any, 64)
		acg := calc.NewAsyncCalcGraph(conf, []chan<- any{out}, nil, calc.NewLookupsCache())
		vf := calc.NewValidationFilter(acg, conf)

		var statusSent atomic.Bool
		var mu sync.Mutex
		var seen []c02Seen
		gotInSync := make(chan struct{}, 1)
		done := make(chan struct{})
		var wg sync.WaitGroup
		wg.Add(1)
		go func() {
			defer wg.Done()
			for {
				select {
				case m := <-out:
					mu.Lock()
					seen = append(seen, c02Seen{msg: m, statusSent: statusSent.Load()})
					mu.Unlock()
					if _, ok := m.(*proto.InSync); ok {
						select {
						case gotInSync <- struct{}{}:
						default:
						}
					}
				case <-done:
					return
				}
			}
		}()
		acg.Start()

		present := map[int]bool{}
		send := func(batches [][]c01Update) int {
			n := 0
			for _, b := range batches {
				ups := make([]api.Update, 0, len(b))
				for _, u := range b {
					ups = append(ups, c.mkUpdate(u.Slot, u.Ver, present))
				}
				n += len(ups)
				vf.OnUpdates(ups)
			}
			return n
		}
		switch preStatus {
		case "resync":
			vf.OnStatusUpdated(api.ResyncInProgress)
		case "wait+resync":
			vf.OnStatusUpdated(api.WaitForDatastore)
			vf.OnStatusUpdated(api.ResyncInProgress)
		}
		nPre := send(pre)
		if pauseTicks > 0 {
			time.Sleep(time.Duration(pauseTicks) * 12 * time.Millisecond)
		}
		statusSent.Store(true)
		vf.OnStatusUpdated(api.InSync)
		nPost := send(post)

		timedOut := false
		select {
		case <-gotInSync:
		case <-time.After(20 * time.Second):
			timedOut = true
		}
		// Let the graph finish emitting what it computed from the post-status updates (bounded wait;
		// only adds coverage for the message-level rules, the verdict does not depend on it).
		time.Sleep(15 * time.Millisecond)
		close(done)
		wg.Wait()
		if timedOut {
			t.Fatalf("HARNESS-GAP: no proto.InSync within 20 s of OnStatusUpdated(InSync) (liveness is not part of C02)\n%s", c.describe())
		}

		mon := dpmon.New()
		mon.NoFlushBoundaries()
		var problems []string
		for i, s := range seen {
			if s.statusSent {
				mon.DatastoreInSync()
			}
			if err := mon.OnEvent(s.msg); err != nil {
				problems = append(problems, fmt.Sprintf("async message %d: %v", i, err))
			}
		}
		if len(problems) > 0 {
			var trace []string
			for i, s := range seen {
				trace = append(trace, fmt.Sprintf("%3d statusHandedOver=%v %s", i, s.statusSent, dpmon.Describe(s.msg)))
			}
			t.Fatalf("C02 violated on the AsyncCalcGraph stream (pre-status=%s, pause=%d ticks, %d updates before / %d after the InSync status):\n  %s\nstream:\n  %s\n%s",
				preStatus, pauseTicks, nPre, nPost, strings.Join(problems, "\n  "), strings.Join(trace, "\n  "), c.describe())
		}
		nontrivial := nPre > 0 && pauseTicks > 0 && mon.NumInSync > 0
		shape := fmt.Sprintf("%s;pre=%d;post=%d;pause=%d;%s", c.Conf.Name, nPre, nPost, pauseTicks, preStatus)
		classes := []string{"prestatus-" + preStatus, fmt.Sprintf("pause-%d", pauseTicks)}
		if nPost > 0 {
			classes = append(classes, "updates-after-status")
		}
		if mon.NumMessages > 1 {
			classes = append(classes, "stream-has-other-messages")
		}
		rec.SizedCase(nontrivial, shape, nPre+nPost, func() any {
			return map[string]any{"conf": c.Conf.Name, "pre_status": preStatus, "pause_ticks": pauseTicks,
				"updates_before_status": nPre, "updates_after_status": nPost, "messages": mon.NumMessages}
		}, classes...)
	})
}
