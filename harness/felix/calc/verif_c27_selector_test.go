package calc_test

// C27, per-selector source — "the result does not depend on the order in which keys are read".
//
// Felix's per-selector configuration source is filled from the selector-scoped
// FelixConfiguration resources whose nodeSelector matches the local node.  Several may match (and
// may carry the same creation timestamp: Kubernetes timestamps have one-second granularity).
// Which resource supplies the source is decided by calc.MergeSelectorConfigs, used by the daemon's
// start-up path (entries in datastore list order) and by calc.ConfigBatcher (entries in Go map
// order).  Oracle: for the same set of resources and node labels, the per-selector source — and the
// Config resolved from it together with the global and per-node sources — is the same for every
// presentation order of the resources, for repeated runs of the ConfigBatcher, for incremental
// learning versus one-shot learning, and between the two paths.  Nothing is asserted about
// *which* matching resource wins.

import (
	"fmt"
	"reflect"
	"sort"
	"strings"
	"testing"
	"time"

	apiv3 "github.com/projectcalico/api/pkg/apis/projectcalico/v3"
	metav1 "k8s.io/apimachinery/pkg/apis/meta/v1"
	"pgregory.net/rapid"

	"github.com/projectcalico/calico/felix/calc"
	"github.com/projectcalico/calico/felix/config"
	"github.com/projectcalico/calico/libcalico-go/lib/apis/internalapi"
	"github.com/projectcalico/calico/libcalico-go/lib/backend/api"
	"github.com/projectcalico/calico/libcalico-go/lib/backend/model"
	"github.com/projectcalico/calico/libcalico-go/lib/backend/syncersv1/updateprocessors"
	"github.com/projectcalico/calico/libcalico-go/lib/selector"
	"github.com/projectcalico/calico/verifkit/ev"
)

type c27SelRes struct {
	Name     string
	Selector string
	Created  int // index into c27SelTimes
	Refresh  int // IptablesRefreshInterval seconds, 0 = unset
	Severity string
	Chain    string
}

var c27SelTimes = []time.Time{
	{}, // zero: what etcd-mode resources / tests often carry
	time.Date(2025, 3, 1, 12, 0, 0, 0, time.UTC),
	time.Date(2025, 3, 1, 12, 0, 1, 0, time.UTC),
	time.Date(2024, 1, 1, 0, 0, 0, 0, time.UTC),
}

const c27SelHost = "c27-host"

// Special values of c27SelRes.Selector.
const (
	c27SelNone    = "<no nodeSelector field>"
	c27SelEmpty   = "<empty nodeSelector>"
	c27SelInvalid = "rack == " // does not parse
)

// scoped: the resource has a usable nodeSelector (start-up listing and runtime cache both skip
// resources without one or with one that does not parse).
func (r c27SelRes) scoped() bool {
	return r.Selector != c27SelNone && r.Selector != c27SelEmpty && r.Selector != c27SelInvalid
}

func (r c27SelRes) resource() *apiv3.FelixConfiguration {
	fc := apiv3.NewFelixConfiguration()
	fc.Name = r.Name
	fc.CreationTimestamp = metav1.Time{Time: c27SelTimes[r.Created]}
	switch r.Selector {
	case c27SelNone: // field absent
	case c27SelEmpty:
		empty := ""
		fc.Spec.NodeSelector = &empty
	default:
		sel := r.Selector
		fc.Spec.NodeSelector = &sel
	}
	if r.Refresh > 0 {
		fc.Spec.IptablesRefreshInterval = &metav1.Duration{Duration: time.Duration(r.Refresh) * time.Second}
	}
	fc.Spec.LogSeverityScreen = r.Severity
	fc.Spec.ChainInsertMode = r.Chain
	return fc
}

// entry builds what daemon.go's loadSelectorScopedFelixConfig and the ConfigBatcher build.
func (r c27SelRes) entry(t *rapid.T) *calc.SelectorConfigEntry {
	sel, err := selector.Parse(r.Selector)
	if err != nil {
		t.Fatalf("HARNESS-GAP: selector %q does not parse: %v", r.Selector, err)
	}
	fc := r.resource()
	return &calc.SelectorConfigEntry{ResourceName: r.Name, Sel: sel, Config: updateprocessors.ExtractFelixConfigFields(fc), CreationTime: fc.CreationTimestamp.Time}
}

type c27SelSink struct{ sel []map[string]string }

func (s *c27SelSink) OnConfigUpdate(global, selectorCfg, host map[string]string) {
	s.sel = append(s.sel, selectorCfg)
}
func (s *c27SelSink) OnDatastoreNotReady() {}

func c27SelUpdate(r c27SelRes) api.Update {
	return api.Update{KVPair: model.KVPair{Key: model.ResourceKey{Kind: apiv3.KindFelixConfiguration, Name: r.Name}, Value: r.resource()}}
}

func c27SelDelete(name string) api.Update {
	return api.Update{KVPair: model.KVPair{Key: model.ResourceKey{Kind: apiv3.KindFelixConfiguration, Name: name}}, UpdateType: api.UpdateTypeKVDeleted}
}

// c27SelOp: one syncer update for a FelixConfiguration resource.
type c27SelOp struct {
	Res    c27SelRes
	Delete bool
}

func c27SelOps(rs []c27SelRes) []c27SelOp {
	var out []c27SelOp
	for _, r := range rs {
		out = append(out, c27SelOp{Res: r})
	}
	return out
}

// c27SelBatcher runs a real ConfigBatcher over the updates in the given order and returns the
// per-selector source it last emitted.  early: delivered before the in-sync status; late: after.
func c27SelBatcher(t *rapid.T, labels map[string]string, early, late []c27SelOp) map[string]string {
	sink := &c27SelSink{}
	cb := calc.NewConfigBatcher(c27SelHost, sink)
	cb.OnUpdate(api.Update{KVPair: model.KVPair{Key: model.ReadyFlagKey{}, Value: true}})
	cb.OnUpdate(api.Update{KVPair: model.KVPair{
		Key:   model.ResourceKey{Kind: internalapi.KindNode, Name: c27SelHost},
		Value: &internalapi.Node{ObjectMeta: metav1.ObjectMeta{Name: c27SelHost, Labels: labels}},
	}})
	deliver := func(ops []c27SelOp) {
		for _, o := range ops {
			if o.Delete {
				cb.OnUpdate(c27SelDelete(o.Res.Name))
			} else {
				cb.OnUpdate(c27SelUpdate(o.Res))
			}
		}
	}
	deliver(early)
	cb.OnDatamodelStatus(api.InSync)
	deliver(late)
	if len(sink.sel) == 0 {
		t.Fatalf("HARNESS-GAP: ConfigBatcher emitted no config update after in-sync")
	}
	return sink.sel[len(sink.sel)-1]
}

func c27SelResolve(t *rapid.T, selectorCfg map[string]string) string {
	c := config.New()
	for _, l := range []struct {
		m map[string]string
		s config.Source
	}{
		{map[string]string{"IptablesRefreshInterval": "90", "LogSeverityScreen": "Error"}, config.DatastoreGlobal},
		{selectorCfg, config.DatastorePerSelector},
		{map[string]string{"LogSeverityScreen": "Debug"}, config.DatastorePerHost},
	} {
		if _, err := c.UpdateFrom(l.m, l.s); err != nil {
			return "error: " + err.Error()
		}
	}
	return fmt.Sprintf("IptablesRefreshInterval=%v LogSeverityScreen=%v ChainInsertMode=%v", c.IptablesRefreshInterval, c.LogSeverityScreen, c.ChainInsertMode)
}

func c27SelShow(m map[string]string) string {
	var ks []string
	for k, v := range m {
		ks = append(ks, k+"="+v)
	}
	sort.Strings(ks)
	return "{" + strings.Join(ks, " ") + "}"
}

func TestVerifC27SelectorSource(t *testing.T) {
	ev.Quiet()
	rec := ev.New("C27", "selector-source",
		"1-5 selector-scoped FelixConfigurations (selectors over two node labels, creation timestamps from four values incl. zero so ties are common, 0-3 config fields each) and node labels; presented in two orders to MergeSelectorConfigs and to a real ConfigBatcher (three runs, one of them a running batcher that watches earlier versions of the resources — other/no/empty/unparsable nodeSelector, other values, deletions — before their final versions, before and after in-sync); non-trivial = the oldest matching timestamp is shared by >=2 resources with different configs, or a resource's selector is changed, removed or broken by an update; distinct = (labels, per-resource selector/timestamp/config)",
		"selector-scoped resources are those with a nodeSelector; names are distinct",
		"nothing is asserted about which matching resource wins, only that the choice depends on the set alone")
	defer rec.Write()

	rapid.Check(t, func(t *rapid.T) {
		labels := map[string]string{"kubernetes.io/os": "linux"} // real nodes are never label-less
		if rapid.IntRange(0, 4).Draw(t, "rackLabel") > 0 {
			labels["rack"] = rapid.SampledFrom([]string{"r1", "r2"}).Draw(t, "rack")
		}
		if rapid.Bool().Draw(t, "gpuLabel") {
			labels["gpu"] = "true"
		}
		n := rapid.IntRange(1, 5).Draw(t, "nResources")
		names := rapid.Permutation([]string{"zone-a", "zone-b", "gpu", "all-nodes", "a", "rack1", "Zeta"}).Draw(t, "names")[:n]
		var res []c27SelRes
		for _, name := range names {
			r := c27SelRes{
				Name:     name,
				Selector: rapid.SampledFrom(c27SelSelectors).Draw(t, "selector"),
				Created:  rapid.SampledFrom([]int{0, 1, 1, 1, 2, 3}).Draw(t, "created"),
			}
			if rapid.IntRange(0, 3).Draw(t, "setsRefresh") > 0 {
				r.Refresh = rapid.IntRange(10, 15).Draw(t, "refresh")
			}
			r.Severity = rapid.SampledFrom([]string{"", "", "Info", "Warning"}).Draw(t, "severity")
			r.Chain = rapid.SampledFrom([]string{"", "", "Append"}).Draw(t, "chain")
			res = append(res, r)
		}

		// path 1: MergeSelectorConfigs with the entries in two different orders
		order2 := rapid.Permutation(res).Draw(t, "secondOrder")
		build := func(rs []c27SelRes) []*calc.SelectorConfigEntry {
			var es []*calc.SelectorConfigEntry
			for _, r := range rs {
				if r.scoped() { // daemon.go's start-up listing skips the others
					es = append(es, r.entry(t))
				}
			}
			return es
		}
		m1 := calc.MergeSelectorConfigs(build(res), labels)
		m2 := calc.MergeSelectorConfigs(build(order2), labels)
		describe := func() string { return fmt.Sprintf("node labels %v\nresources %+v", labels, res) }
		if !reflect.DeepEqual(m1, m2) {
			t.Fatalf("the per-selector source depends on the order the FelixConfigurations are read in:\n order %v -> %s => %s\n order %v -> %s => %s\n%s",
				c27SelNames(res), c27SelShow(m1), c27SelResolve(t, m1), c27SelNames(order2), c27SelShow(m2), c27SelResolve(t, m2), describe())
		}
		// path 2: the real ConfigBatcher, one-shot in both orders
		b1 := c27SelBatcher(t, labels, c27SelOps(res), nil)
		b2 := c27SelBatcher(t, labels, c27SelOps(order2), nil)
		// incremental: a running Felix that watched the resources being edited into their final
		// form.  Earlier versions of some resources (other selector — another one, none, empty,
		// unparsable — other values, other timestamp only via delete/re-create) and deletions
		// arrive first, some before and some after in-sync; every resource's last update is its
		// final version.
		var earlyOps, lateOps []c27SelOp
		editKinds := map[string]bool{}
		for _, r := range order2 {
			nOlder := rapid.SampledFrom([]int{0, 1, 1, 2}).Draw(t, "olderVersions")
			for k := 0; k < nOlder; k++ {
				old := r
				switch rapid.IntRange(0, 3).Draw(t, "olderKind") {
				case 0:
					old.Selector = rapid.SampledFrom(c27SelSelectors).Draw(t, "olderSelector")
				case 1:
					old.Selector = "all()"
					old.Refresh = rapid.IntRange(20, 25).Draw(t, "olderRefresh")
				case 2:
					old.Severity = "Debug"
				default:
					op := c27SelOp{Res: r, Delete: true}
					if rapid.Bool().Draw(t, "olderBeforeInSync") {
						earlyOps = append(earlyOps, op)
					} else {
						lateOps = append(lateOps, op)
					}
					editKinds["deleted-and-recreated"] = true
					continue
				}
				if old.scoped() && !r.scoped() {
					editKinds["selector-removed-or-broken"] = true
				}
				if !old.scoped() && r.scoped() {
					editKinds["selector-added"] = true
				}
				if old.scoped() && r.scoped() && old.Selector != r.Selector {
					editKinds["selector-changed"] = true
				}
				if rapid.Bool().Draw(t, "olderBeforeInSync") {
					earlyOps = append(earlyOps, c27SelOp{Res: old})
				} else {
					lateOps = append(lateOps, c27SelOp{Res: old})
				}
			}
			if rapid.IntRange(0, 2).Draw(t, "finalBeforeInSync") == 0 && nOlder == 0 {
				earlyOps = append(earlyOps, c27SelOp{Res: r})
			} else {
				lateOps = append(lateOps, c27SelOp{Res: r})
			}
		}
		// interleave the late updates of different resources, keeping each resource's own order
		lateOps = c27SelInterleave(t, lateOps)
		b3 := c27SelBatcher(t, labels, earlyOps, lateOps)
		for i, b := range []map[string]string{b1, b2, b3} {
			if !reflect.DeepEqual(b, m1) {
				t.Fatalf("ConfigBatcher run %d (1,2: one-shot in two orders; 3: a running Felix that watched the edits) produced per-selector source %s => %s, but the final resources give %s => %s through the start-up path (MergeSelectorConfigs)\n%s\nupdates before in-sync: %+v\nupdates after in-sync: %+v",
					i+1, c27SelShow(b), c27SelResolve(t, b), c27SelShow(m1), c27SelResolve(t, m1), describe(), earlyOps, lateOps)
			}
		}

		// evidence
		var matching []c27SelRes
		for _, r := range res {
			if r.scoped() && r.entry(t).Sel.Evaluate(labels) {
				matching = append(matching, r)
			}
		}
		cl := []string{fmt.Sprintf("matching-%d", min(len(matching), 3))}
		for k := range editKinds {
			cl = append(cl, "edit-"+k)
		}
		sort.Strings(cl)
		tiedOldest := false
		if len(matching) >= 2 {
			oldest := c27SelTimes[matching[0].Created]
			for _, r := range matching {
				if c27SelTimes[r.Created].Before(oldest) {
					oldest = c27SelTimes[r.Created]
				}
			}
			var cfgs []string
			for _, r := range matching {
				if c27SelTimes[r.Created].Equal(oldest) {
					cfgs = append(cfgs, c27SelShow(r.entry(t).Config))
				}
			}
			if len(cfgs) >= 2 {
				cl = append(cl, "oldest-timestamp-tied")
				for _, c := range cfgs[1:] {
					if c != cfgs[0] {
						tiedOldest = true
					}
				}
			}
		}
		if tiedOldest {
			cl = append(cl, "tied-with-different-configs")
		}
		var shape []string
		for _, r := range res {
			shape = append(shape, fmt.Sprintf("%s/%s/%d/%d%s%s", r.Name, r.Selector, r.Created, r.Refresh, r.Severity, r.Chain))
		}
		sort.Strings(shape)
		rec.Case(tiedOldest || editKinds["selector-removed-or-broken"] || editKinds["selector-changed"], fmt.Sprintf("%v|%s", labels, strings.Join(shape, ";")), func() any {
			return map[string]any{"labels": labels, "resources": res, "perSelectorSource": m1, "effective": c27SelResolve(t, m1)}
		}, cl...)
	})
}

var c27SelSelectors = []string{"all()", "all()", "all()", "rack == 'r1'", "rack in {'r1', 'r2'}", "has(gpu)", "!has(gpu)", "rack == 'r2'",
	"all()", "has(gpu)", c27SelNone, c27SelEmpty, c27SelInvalid}

func c27SelNames(rs []c27SelRes) []string {
	var out []string
	for _, r := range rs {
		out = append(out, r.Name)
	}
	return out
}

// c27SelInterleave shuffles updates of different resources while keeping the relative order of
// the updates of each resource.
func c27SelInterleave(t *rapid.T, ops []c27SelOp) []c27SelOp {
	byName := map[string][]c27SelOp{}
	var names []string
	for _, o := range ops {
		if _, ok := byName[o.Res.Name]; !ok {
			names = append(names, o.Res.Name)
		}
		byName[o.Res.Name] = append(byName[o.Res.Name], o)
	}
	var out []c27SelOp
	for len(names) > 0 {
		i := rapid.IntRange(0, len(names)-1).Draw(t, "nextResource")
		n := names[i]
		out = append(out, byName[n][0])
		byName[n] = byName[n][1:]
		if len(byName[n]) == 0 {
			names = append(names[:i], names[i+1:]...)
		}
	}
	return out
}
