package calc_test

// Deterministic confirmation tests for findings of the C03 check.  They are NOT matched by the
// unit's run regex; the driver runs them by exact name (KNOWN_FINDINGS.json "confirm_test") and
// expects them to FAIL while the defect is present.

import (
	"testing"

	"github.com/projectcalico/calico/verifkit/ev"
)

// Signature C03-stale-pending-policy (scenario: c03ProbeStalePending in the driver file).
//
// PolicyResolver.OnPolicyMatch queues a policy in pendingPolicyUpdates when it is not yet in the
// policy sorter; OnPolicyMatchStopped does not take it out of that queue when the policy loses its
// last endpoint before the next flush.  Flush then inserts the *inactive* policy into the sorter.
// Updates to inactive policies are not forwarded to the sorter (PolicyResolver.OnUpdate returns
// early), so the entry goes stale; when the policy matches again HasPolicy() is true, nothing is
// refreshed and the endpoint is sent the policy under its OLD tier / order / types.
func TestVerifC03ConfirmStalePendingPolicy(t *testing.T) {
	ev.Quiet()
	if emitted, defect := c03ProbeStalePending(); defect {
		t.Fatalf("policy pa is in tier t1 (datastore) but the endpoint was sent tiers %s", emitted)
	}
}
