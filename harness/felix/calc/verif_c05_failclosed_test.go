package calc_test

// C05 — missing or invalid references fail closed.
//
// Oracles (statement -> check):
//  (i)   a local endpoint names a profile whose rules are absent/invalid  ->  the
//        ActiveProfileUpdate in effect for it is exactly one inbound and one outbound rule,
//        action deny, no match criteria; when valid rules exist, those rules are in effect
//        (count, actions and the per-version marker port of the *current* version).
//  (ii)  "a resource that fails validation is treated exactly as if it were absent; never
//        partially applied": graph A gets the history with the invalid values, graph B gets the
//        same history with every invalid value replaced by absence (a delete if the key held a
//        valid value, nothing otherwise); after every flush the folded outputs (endpoints with
//        their tier lists, active policies and profiles with all rules, IP set members) must be
//        equal.  Every KV version carries its own non-empty revision; a current value (valid or
//        invalid) may be re-sent unchanged with the same revision, as a Typha snapshot re-send /
//        resync does: B sees a valid value again and nothing at all for an invalid one.
//  (iii) "never more open than absence" is implied by (ii): the outputs are *equal* to the
//        outputs under absence (whether the outputs under absence are right is C03's subject).
//
// Invalid variants are exactly values that calc.ValidationFilter rejects on the unchanged tree
// (typha/pkg/validator/v1 for backend model values, libcalico-go/lib/validator/v3 for the v3
// Profile resource, plus the filter's own workload endpoint checks).  model.Tier carries no
// validation at all, so there is no invalid tier variant; model.Rule.Action is not validated
// either, so "bad action" is not an invalid variant.

import (
	"fmt"
	"strings"
	"testing"

	v3 "github.com/projectcalico/api/pkg/apis/projectcalico/v3"
	"github.com/projectcalico/api/pkg/lib/numorstring"
	googleproto "google.golang.org/protobuf/proto"
	"pgregory.net/rapid"

	"github.com/projectcalico/calico/felix/proto"
	"github.com/projectcalico/calico/libcalico-go/lib/backend/model"
	calinet "github.com/projectcalico/calico/libcalico-go/lib/net"
	"github.com/projectcalico/calico/verifkit/ev"
)

// ---------------------------------------------------------------------------------------------
// Invalid variants.

// c05BadRules: backend rules the v1 validator rejects.  Each is an unconditional "allow" apart
// from the offending field, so a partially applied invalid resource would be visibly more open.
var c05BadRules = []struct {
	name string
	mk   func() model.Rule
}{
	{"rule-src-selector-unparsable", func() model.Rule { return model.Rule{Action: "allow", SrcSelector: "a =="} }},
	{"rule-not-dst-selector-unparsable", func() model.Rule { return model.Rule{Action: "allow", NotDstSelector: "has("} }},
	{"rule-ip-version-5", func() model.Rule { v := 5; return model.Rule{Action: "allow", IPVersion: &v} }},
	{"rule-icmp-type-255", func() model.Rule {
		p := numorstring.ProtocolFromStringV1("icmp")
		ty := 255
		return model.Rule{Action: "allow", Protocol: &p, ICMPType: &ty}
	}},
	{"rule-ports-without-protocol", func() model.Rule {
		return model.Rule{Action: "allow", DstPorts: []numorstring.Port{numorstring.SinglePort(80)}}
	}},
	{"rule-ports-with-icmp", func() model.Rule {
		p := numorstring.ProtocolFromStringV1("icmp")
		return model.Rule{Action: "allow", Protocol: &p, SrcPorts: []numorstring.Port{numorstring.SinglePort(80)}}
	}},
	{"rule-port-range-inverted", func() model.Rule {
		p := numorstring.ProtocolFromStringV1("tcp")
		return model.Rule{Action: "allow", Protocol: &p, DstPorts: []numorstring.Port{{MinPort: 90, MaxPort: 80}}}
	}},
	{"rule-bad-tag", func() model.Rule { return model.Rule{Action: "allow", SrcTag: "bad tag!"} }},
}

func c05SpliceRule(t *rapid.T, rs []model.Rule, bad model.Rule) []model.Rule {
	pos := rapid.IntRange(0, len(rs)).Draw(t, "badRulePos")
	out := append([]model.Rule{}, rs[:pos]...)
	out = append(out, bad)
	return append(out, rs[pos:]...)
}

// c05InvalidValue corrupts a freshly drawn valid value for key.  Returns nil when the key type
// has no invalid variant (tiers).
func c05InvalidValue(h *c03Hist, key model.Key) (any, string) {
	t := h.t
	switch k := key.(type) {
	case model.ProfileRulesKey:
		base, _ := h.genValue(key)
		pr := base.(*model.ProfileRules)
		bad := rapid.SampledFrom(c05BadRules).Draw(t, "badRule")
		if rapid.Bool().Draw(t, "badRuleInbound") {
			pr.InboundRules = c05SpliceRule(t, pr.InboundRules, bad.mk())
		} else {
			pr.OutboundRules = c05SpliceRule(t, pr.OutboundRules, bad.mk())
		}
		return pr, "profile-rules:" + bad.name
	case model.PolicyKey:
		base, _ := h.genValue(key)
		p := base.(*model.Policy)
		switch rapid.IntRange(0, 4).Draw(t, "badPolicyForm") {
		case 0:
			p.Selector = "a =="
			return p, "policy:selector-unparsable"
		case 1:
			p.PerformanceHints = []v3.PolicyPerformanceHint{"NotAHint"}
			return p, "policy:unknown-hint"
		case 2:
			p.PerformanceHints = []v3.PolicyPerformanceHint{v3.PerfHintAssumeNeededOnEveryNode, v3.PerfHintAssumeNeededOnEveryNode}
			return p, "policy:duplicate-hint"
		default:
			bad := rapid.SampledFrom(c05BadRules).Draw(t, "badRule")
			if p.PreDNAT || rapid.Bool().Draw(t, "badRuleInbound") {
				p.InboundRules = c05SpliceRule(t, p.InboundRules, bad.mk())
			} else {
				p.OutboundRules = c05SpliceRule(t, p.OutboundRules, bad.mk())
			}
			return p, "policy:" + bad.name
		}
	case model.ResourceKey:
		lbls := c03GenProfileLabels(t, h.world)
		switch rapid.IntRange(0, 2).Draw(t, "badProfileForm") {
		case 0:
			lbls["bad key!"] = "x"
			return c03ProfileResource(k.Name, lbls), fmt.Sprintf("profile:label-key labels=%v", lbls)
		case 1:
			n := rapid.SampledFrom(c03LabelNames).Draw(t, "badValueLabel")
			// The other labels keep the world's profile value; only this one is malformed.
			lbls[n] = "bad value!"
			return c03ProfileResource(k.Name, lbls), fmt.Sprintf("profile:label-value labels=%v", lbls)
		default:
			p := c03ProfileResource(k.Name, lbls)
			p.Spec.Ingress = []v3.Rule{{Action: v3.Allow, Source: v3.EntityRule{Selector: "a =="}}}
			return p, fmt.Sprintf("profile:v3-rule-selector-unparsable labels=%v", lbls)
		}
	case model.WorkloadEndpointKey:
		base, _ := h.genValue(key)
		w := base.(*model.WorkloadEndpoint)
		switch rapid.IntRange(0, 2).Draw(t, "badWepForm") {
		case 0:
			w.Name = ""
			return w, fmt.Sprintf("wep:empty-name labels=%v profiles=%v", w.Labels, w.ProfileIDs)
		case 1:
			w.AllowSpoofedSourcePrefixes = []calinet.IPNet{calinet.MustParseNetwork("10.9.0.0/24")}
			return w, fmt.Sprintf("wep:spoofed-prefixes-not-enabled labels=%v profiles=%v", w.Labels, w.ProfileIDs)
		default:
			w.Ports = []model.EndpointPort{{Name: "p1", Protocol: numorstring.ProtocolFromStringV1("icmp"), Port: 80}}
			return w, fmt.Sprintf("wep:port-protocol-icmp labels=%v profiles=%v", w.Labels, w.ProfileIDs)
		}
	case model.HostEndpointKey:
		base, _ := h.genValue(key)
		e := base.(*model.HostEndpoint)
		switch rapid.IntRange(0, 2).Draw(t, "badHepForm") {
		case 0:
			e.Name = "interface-name-too-long"
			return e, fmt.Sprintf("hep:interface-name labels=%v profiles=%v", e.Labels, e.ProfileIDs)
		case 1:
			e.ProfileIDs = append(append([]string{}, e.ProfileIDs...), "bad id!")
			return e, fmt.Sprintf("hep:profile-id labels=%v profiles=%v", e.Labels, e.ProfileIDs)
		default:
			e.Ports = []model.EndpointPort{{Name: "p1", Protocol: numorstring.ProtocolFromStringV1("icmp"), Port: 80}}
			return e, fmt.Sprintf("hep:port-protocol-icmp labels=%v profiles=%v", e.Labels, e.ProfileIDs)
		}
	}
	return nil, ""
}

// ---------------------------------------------------------------------------------------------
// Oracle (i).

func c05IsDenyAll(rs []*proto.Rule) bool {
	if len(rs) != 1 {
		return false
	}
	r := googleproto.Clone(rs[0]).(*proto.Rule)
	if r.Action != "deny" {
		return false
	}
	r.Action = ""
	r.RuleId = ""
	return googleproto.Equal(r, &proto.Rule{})
}

func c05RulesMatch(got []*proto.Rule, want []model.Rule) string {
	if len(got) != len(want) {
		return fmt.Sprintf("%d rules in effect, the profile has %d", len(got), len(want))
	}
	for i := range want {
		if got[i].Action != want[i].Action {
			return fmt.Sprintf("rule %d has action %q, the profile's rule has %q", i, got[i].Action, want[i].Action)
		}
		if len(want[i].DstPorts) == 1 {
			w := int32(want[i].DstPorts[0].MinPort)
			if len(got[i].DstPorts) != 1 || got[i].DstPorts[0].First != w || got[i].DstPorts[0].Last != w {
				return fmt.Sprintf("rule %d has dst ports %v, the profile's current rule has port %d (stale or foreign rule)", i, got[i].DstPorts, w)
			}
		}
	}
	return ""
}

// c05CheckProfiles returns "" or the first discrepancy; standIn maps every profile referenced by
// a local endpoint to whether it must currently be the deny-all stand-in (no valid rules).
func c05CheckProfiles(st *c03Store, fold *c03Fold) (msg string, standIn map[string]bool) {
	standIn = map[string]bool{}
	check := func(ep string, ids []string) string {
		for _, id := range ids {
			rules, known := st.profRules[id]
			standIn[id] = !known
			prof, ok := fold.profs[id]
			if !ok {
				return fmt.Sprintf("%s references profile %q but no ActiveProfileUpdate for it is in effect", ep, id)
			}
			if !known {
				if !c05IsDenyAll(prof.InboundRules) || !c05IsDenyAll(prof.OutboundRules) {
					return fmt.Sprintf("%s references profile %q which has no valid rules in the datastore, but the profile in effect is not the deny-all stand-in: %v", ep, id, prof)
				}
				continue
			}
			if m := c05RulesMatch(prof.InboundRules, rules.InboundRules); m != "" {
				return fmt.Sprintf("%s references profile %q (valid rules exist): inbound: %s\n  in effect: %v", ep, id, m, prof)
			}
			if m := c05RulesMatch(prof.OutboundRules, rules.OutboundRules); m != "" {
				return fmt.Sprintf("%s references profile %q (valid rules exist): outbound: %s\n  in effect: %v", ep, id, m, prof)
			}
		}
		return ""
	}
	for _, k := range c03WepKeys {
		if ep, ok := st.weps[k]; ok && k.Hostname == c03LocalHost {
			if m := check("workload endpoint "+c03WepIDOfKey(k), ep.ProfileIDs); m != "" {
				return m, standIn
			}
		}
	}
	for _, k := range c03HepKeys {
		if ep, ok := st.heps[k]; ok && k.Hostname == c03LocalHost {
			if m := check("host endpoint "+k.EndpointID, ep.ProfileIDs); m != "" {
				return m, standIn
			}
		}
	}
	return "", standIn
}

// ---------------------------------------------------------------------------------------------
// The two-graph runner.

type c05Run struct {
	t         *rapid.T
	h         *c03Hist
	a, b      *c03Graph
	rec       *ev.Recorder
	checks    int
	absentRef bool
	// transitions of a referenced profile between two consecutive checked flushes
	lastStandIn   map[string]bool
	standInToReal bool
	realToStandIn bool
}

func c05NewRun(t *rapid.T, rec *ev.Recorder) *c05Run {
	h := c03NewHist(t)
	h.invalidGen = c05InvalidValue
	return &c05Run{t: t, h: h, a: c03NewGraph(), b: c03NewGraph(), rec: rec}
}

func (r *c05Run) batch(n int, weights []string, pInvalid int) {
	as, bs := r.h.genBatch(n, weights, pInvalid)
	r.a.send(as)
	r.b.send(bs)
}

func (r *c05Run) inSync() {
	if !r.a.inSync {
		r.a.setInSync()
		r.b.setInSync()
		r.h.log = append(r.h.log, "in-sync")
		r.h.kinds = append(r.h.kinds, "Y")
	}
}

func (r *c05Run) flushAndCheck() {
	r.a.flush()
	r.b.flush()
	r.h.log = append(r.h.log, "flush")
	r.h.kinds = append(r.h.kinds, "F")
	fail := func(what, msg string) {
		r.t.Fatalf("C05 violated (%s) after %d steps:\n%s\nvalid datastore content now:\n%shistory (A gets INVALID values as shown; B gets absence instead):\n%s",
			what, len(r.h.log), msg, r.h.valid.describe(), r.h.history())
	}
	// (ii) holds at every flush, in sync or not.
	if d := c03FoldDiff(r.a.fold, r.b.fold); d != "" {
		fail("ii: invalid is not treated exactly as absent", d)
	}
	if !r.a.inSync {
		return
	}
	r.checks++
	msg, standIn := c05CheckProfiles(r.h.valid, r.a.fold)
	if msg != "" {
		fail("i: missing/invalid profile must be deny-all, valid profile must be in effect", msg)
	}
	for id, si := range standIn {
		if si {
			r.absentRef = true
		}
		if was, seen := r.lastStandIn[id]; seen && was != si {
			if si {
				r.realToStandIn = true
			} else {
				r.standInToReal = true
			}
		}
	}
	r.lastStandIn = standIn
}

func (r *c05Run) finish() {
	rec := r.rec
	classes := []string{}
	if r.absentRef {
		classes = append(classes, "referenced-profile-without-valid-rules")
	}
	if r.h.invalidAfterValid {
		classes = append(classes, "invalid-after-valid")
	}
	if r.standInToReal {
		classes = append(classes, "stand-in-replaced-by-real-rules")
	}
	if r.realToStandIn {
		classes = append(classes, "real-rules-replaced-by-stand-in")
	}
	if r.h.nInvalid > 0 {
		classes = append(classes, "has-invalid")
	}
	if r.h.invalidRedelivered > 0 {
		classes = append(classes, "invalid-redelivered-same-revision")
	}
	if r.h.validRedelivered > 0 {
		classes = append(classes, "valid-redelivered-same-revision")
	}
	seenVariant := map[string]bool{}
	for _, l := range r.h.log {
		if i := strings.Index(l, "INVALID("); i >= 0 {
			v := l[i+len("INVALID("):]
			if j := strings.IndexAny(v, " )"); j >= 0 {
				v = v[:j]
			}
			if !seenVariant[v] {
				seenVariant[v] = true
				classes = append(classes, "variant:"+v)
			}
		}
	}
	nontrivial := r.absentRef || r.h.invalidAfterValid
	shape := strings.Join(r.h.kinds, "") + "|" + c03SortedJoin(classes)
	rec.SizedCase(nontrivial, shape, len(r.h.kinds), func() any {
		return map[string]any{"history": r.h.log, "classes": c03SortedJoin(classes), "checked_flushes": r.checks}
	}, classes...)
}

var c05Weights = []string{
	"prul", "prul", "prul", "prul", "plbl", "plbl",
	"pol", "pol", "pol", "move", "tier",
	"wep", "wep", "wep", "hep", "hep",
	"del", "del", "del", "redeliver", "reinv", "reinv", "reinv",
}

// TestVerifC05FailClosedHistories: free histories with ~30 % invalid values.
func TestVerifC05FailClosedHistories(t *testing.T) {
	ev.Quiet()
	rec := ev.New("C05", "histories",
		"rapid-generated histories as in C03 (same universe) with profile-rules/profile/policy/endpoint sets replaced by an invalid variant with probability 0.3, every KV version carrying its own non-empty revision and current values (valid or invalid) being re-sent unchanged with the same revision as a resync does, run on two graphs (A: as generated, B: invalid replaced by absence) with identical batch/flush/in-sync schedule; compared after every flush. Non-trivial = at a checked flush a local endpoint referenced a profile without valid rules, or an invalid value was delivered for a key holding a valid value. Distinct = op-kind sequence + classes (incl. the invalid variants used)",
		"invalid variants are values rejected by calc.ValidationFilter on the unchanged tree (v1 backend validator, v3 validator for Profile resources, filter's own workload endpoint checks); tiers and rule actions have no validation and are not varied",
		"(iii) 'never more open than absence' is established through equality with the absence run (ii)",
		"selector semantics trusted from libcalico-go/lib/selector")
	defer rec.Write()
	rapid.Check(t, func(t *rapid.T) {
		r := c05NewRun(t, rec)
		nSteps := rapid.IntRange(1, ev.Scale(12, 26)).Draw(t, "numSteps")
		syncAt := rapid.IntRange(-3, nSteps).Draw(t, "inSyncAfterStep")
		if syncAt <= 0 {
			r.inSync()
		}
		nBoot := rapid.IntRange(0, 9).Draw(t, "numBootstrapSets")
		bootWeights := []string{"pol", "pol", "tier", "plbl", "wep", "wep", "hep", "prul", "prul"}
		for nBoot > 0 {
			n := rapid.IntRange(1, nBoot).Draw(t, "bootBatchSize")
			r.batch(n, bootWeights, 15)
			nBoot -= n
		}
		if rapid.Bool().Draw(t, "flushAfterBootstrap") {
			r.flushAndCheck()
		}
		for i := 1; i <= nSteps; i++ {
			r.batch(rapid.IntRange(1, 3).Draw(t, "batchSize"), c05Weights, 30)
			if i == syncAt {
				r.inSync()
			}
			if rapid.IntRange(0, 9).Draw(t, "flushRoll") < 5 {
				r.flushAndCheck()
			}
		}
		r.inSync()
		r.flushAndCheck()
		r.finish()
	})
}

// TestVerifC05ReferenceLifecycle: focused generator — a local endpoint references a profile, and
// one target resource goes through drawn transitions among {valid, invalid, absent} with a
// flush after each, so that every invalid variant is met both after a valid value and before one.
func TestVerifC05ReferenceLifecycle(t *testing.T) {
	ev.Quiet()
	rec := ev.New("C05", "lifecycle",
		"context (local workload+host endpoint referencing prof1/prof2, tiers, a matching policy) then 2-6 transitions of one target key (profile rules, profile resource, policy or endpoint) among valid / invalid variant / deleted / same-revision redelivery, flush and compare after each transition; non-trivial as in the histories unit (true by construction for most cases)",
		"same assumptions as the histories unit")
	defer rec.Write()
	rapid.Check(t, func(t *rapid.T) {
		r := c05NewRun(t, rec)
		if rapid.IntRange(0, 3).Draw(t, "inSyncFirst") > 0 {
			r.inSync()
		}
		// Context: all valid.
		r.batch(rapid.IntRange(3, 8).Draw(t, "contextSets"), []string{"wep", "wep", "hep", "pol", "pol", "tier", "prul", "plbl"}, 0)
		r.flushAndCheck()
		family := rapid.SampledFrom([]string{"prul", "prul", "prul", "plbl", "pol", "wep", "hep"}).Draw(t, "targetFamily")
		nTrans := rapid.IntRange(2, 6).Draw(t, "numTransitions")
		for i := 0; i < nTrans; i++ {
			switch rapid.IntRange(0, 7).Draw(t, "transition") {
			case 0, 1:
				r.batch(1, []string{family}, 0)
			case 2, 3, 4:
				r.batch(1, []string{family}, 100)
			case 5, 6:
				// resync-style re-send of a current value (an invalid one if there is any)
				r.batch(1, []string{"reinv"}, 0)
			default:
				r.batch(1, []string{"del"}, 0)
			}
			if i == 0 {
				r.inSync()
			}
			r.flushAndCheck()
		}
		r.inSync()
		r.flushAndCheck()
		r.finish()
	})
}
